import Flurry.Lemmas.BinNAAbs
import Flurry.Lemmas.LinTrace
/-! # Proto/BinNA: the extended history and the ghost invariant (C01, C10)

For a fixed key `k`: `A τ` = abstract state of `k` after global step `τ`, `pt i` = linearization point
of the call invoked at time `i` (the method of `Lemmas/BinXGhost.lean` / `Lemmas/BinXLin.lean`; no
hindsight is needed here because a reader obtains the whole bin with one load).

`callsOnExt`: the completed calls plus the calls of writers that have stored and only have to unlock;
`GInv`: the ghost invariant; `GInv.frame`, `ginv_quiet`, `ginv_new`: the generic preservation lemmas. -/
namespace Flurry.Proto.BinNA
open Flurry.Lin

theorem isReader_eq_isRead (op : KOp) : isReader op = isRead op := by cases op <;> rfl

/-! ## the extended history -/

/-- the call of a writer that has stored and only has to unlock, counted as responding at `now` -/
def extOf (k now t : Nat) (l : Local) : Option Call :=
  match l.pc, l.call with
  | .wUnlock _ res false, some p => if p.key = k then some ⟨t, p.op, res, p.inv, now⟩ else none
  | _, _ => none

def extCalls (s : State) (k : Nat) : History :=
  (List.range s.threads.length).filterMap (fun t => (s.threads[t]?).bind (extOf k s.now t))

/-- the completed calls on key `k`, plus the calls of writers that have already performed their
store and only have to unlock (they are counted as responding "now") -/
def callsOnExt (s : State) (k : Nat) : History := callsOn s k ++ extCalls s k

theorem extOf_eq_some {k now t : Nat} {l : Local} {c : Call} :
    extOf k now t l = some c ↔ ∃ g res p, l.pc = .wUnlock g res false ∧ l.call = some p ∧ p.key = k ∧
      c = ⟨t, p.op, res, p.inv, now⟩ := by
  obtain ⟨pc, call⟩ := l
  unfold extOf
  constructor
  · intro h
    split at h
    · rename_i g res p hpc hcall
      simp only at hpc hcall
      split at h
      · cases h
        exact ⟨g, res, p, hpc, hcall, by assumption, rfl⟩
      · cases h
    · cases h
  · rintro ⟨g, res, p, hpc, hcall, hk, rfl⟩
    simp only at hpc hcall
    subst hpc hcall
    simp [hk]

theorem extOf_none_of_pc {k now t : Nat} {l : Local} (h : ∀ g res, l.pc ≠ .wUnlock g res false) :
    extOf k now t l = none := by
  cases he : extOf k now t l with
  | none => rfl
  | some c =>
    obtain ⟨g, res, p, hpc, -⟩ := extOf_eq_some.1 he
    exact absurd hpc (h g res)

theorem mem_callsOn {s : State} {k : Nat} {c : Call} : c ∈ callsOn s k ↔ (k, c) ∈ s.hist := by
  unfold callsOn
  simp only [List.mem_map, List.mem_reverse, List.mem_filter, beq_iff_eq]
  constructor
  · rintro ⟨⟨k', c'⟩, ⟨hm, hk⟩, hc⟩
    simp only at hk hc
    subst hk hc
    exact hm
  · intro h
    exact ⟨(k, c), ⟨h, rfl⟩, rfl⟩

theorem mem_extCalls {s : State} {k : Nat} {c : Call} :
    c ∈ extCalls s k ↔ ∃ t l, s.threads[t]? = some l ∧ extOf k s.now t l = some c := by
  unfold extCalls
  simp only [List.mem_filterMap, List.mem_range, Option.bind_eq_some_iff]
  constructor
  · rintro ⟨t, _, l, hl, he⟩; exact ⟨t, l, hl, he⟩
  · rintro ⟨t, l, hl, he⟩
    exact ⟨t, (List.getElem?_eq_some_iff.1 hl).1, l, hl, he⟩

theorem mem_callsOnExt {s : State} {k : Nat} {c : Call} :
    c ∈ callsOnExt s k ↔ (k, c) ∈ s.hist ∨ ∃ t l, s.threads[t]? = some l ∧ extOf k s.now t l = some c := by
  unfold callsOnExt
  rw [List.mem_append, mem_callsOn, mem_extCalls]

theorem callsOnExt_quiescent {s : State} (hq : quiescent s) (k : Nat) : callsOnExt s k = callsOn s k := by
  have : extCalls s k = [] := by
    rw [List.eq_nil_iff_forall_not_mem]
    intro c hc
    obtain ⟨t, l, hl, he⟩ := mem_extCalls.1 hc
    obtain ⟨g, res, p, hpc, -⟩ := extOf_eq_some.1 he
    rw [hq l (List.mem_of_getElem? hl)] at hpc
    cases hpc
  rw [callsOnExt, this, List.append_nil]

/-- `c'` is the call `c`, possibly with a later response -/
def Sim (c c' : Call) : Prop :=
  c'.tid = c.tid ∧ c'.op = c.op ∧ c'.res = c.res ∧ c'.inv = c.inv ∧ c.resp ≤ c'.resp

theorem Sim.refl (c : Call) : Sim c c := ⟨rfl, rfl, rfl, rfl, Nat.le_refl _⟩

theorem extOf_bump {k now now' t : Nat} {l : Local} {c' : Call} (hle : now ≤ now')
    (h : extOf k now' t l = some c') : ∃ c, extOf k now t l = some c ∧ Sim c c' := by
  obtain ⟨g, res, p, hpc, hcall, hk, rfl⟩ := extOf_eq_some.1 h
  exact ⟨⟨t, p.op, res, p.inv, now⟩, extOf_eq_some.2 ⟨g, res, p, hpc, hcall, hk, rfl⟩,
    rfl, rfl, rfl, rfl, hle⟩

theorem extOf_bump' {k now now' t : Nat} {l : Local} {c : Call} (hle : now ≤ now')
    (h : extOf k now t l = some c) : ∃ c', extOf k now' t l = some c' ∧ Sim c c' := by
  obtain ⟨g, res, p, hpc, hcall, hk, rfl⟩ := extOf_eq_some.1 h
  exact ⟨⟨t, p.op, res, p.inv, now'⟩, extOf_eq_some.2 ⟨g, res, p, hpc, hcall, hk, rfl⟩,
    rfl, rfl, rfl, rfl, hle⟩

/-- where the calls of the successor state come from -/
theorem ext_backward {s s' : State} {t : Nat} {l' : Local} {hnew : List (Nat × Call)} {k : Nat}
    (hthr : s'.threads = s.threads.set t l') (hnow : s'.now = s.now + 1)
    (hhist : s'.hist = hnew ++ s.hist) :
    ∀ c' ∈ callsOnExt s' k, (∃ c ∈ callsOnExt s k, Sim c c') ∨ (k, c') ∈ hnew ∨
      extOf k (s.now + 1) t l' = some c' := by
  intro c' hc'
  rcases mem_callsOnExt.1 hc' with hc' | ⟨t1, l1, hl1, he1⟩
  · rw [hhist] at hc'
    rcases List.mem_append.1 hc' with hc' | hc'
    · exact Or.inr (Or.inl hc')
    · exact Or.inl ⟨c', mem_callsOnExt.2 (Or.inl hc'), Sim.refl _⟩
  · rw [hthr] at hl1
    rw [hnow] at he1
    rcases get_set hl1 with ⟨rfl, rfl⟩ | ⟨_, hl1⟩
    · exact Or.inr (Or.inr he1)
    · obtain ⟨c, hc, hsim⟩ := extOf_bump (Nat.le_succ s.now) he1
      exact Or.inl ⟨c, mem_callsOnExt.2 (Or.inr ⟨t1, l1, hl1, hc⟩), hsim⟩

/-- where the calls of the predecessor state go -/
theorem ext_forward {s s' : State} {t : Nat} {l l' : Local} {hnew : List (Nat × Call)} {k : Nat}
    (hl : s.threads[t]? = some l)
    (hthr : s'.threads = s.threads.set t l') (hnow : s'.now = s.now + 1)
    (hhist : s'.hist = hnew ++ s.hist) :
    ∀ c ∈ callsOnExt s k, (∃ c' ∈ callsOnExt s' k, Sim c c') ∨ extOf k s.now t l = some c := by
  intro c hc
  rcases mem_callsOnExt.1 hc with hc | ⟨t1, l1, hl1, he1⟩
  · refine Or.inl ⟨c, mem_callsOnExt.2 (Or.inl ?_), Sim.refl _⟩
    rw [hhist]; exact List.mem_append_right _ hc
  · by_cases ht : t1 = t
    · subst ht
      rw [hl] at hl1; cases hl1
      exact Or.inr he1
    · obtain ⟨c', hc', hsim⟩ := extOf_bump' (Nat.le_succ s.now) he1
      refine Or.inl ⟨c', mem_callsOnExt.2 (Or.inr ⟨t1, l1, ?_, ?_⟩), hsim⟩
      · rw [hthr, get_set_ne ht]; exact hl1
      · rw [hnow]; exact hc'

theorem callsOnExt_resp_le {s : State} (T : TInv s) {k : Nat} {c : Call} (hc : c ∈ callsOnExt s k) :
    c.resp ≤ s.now := by
  rcases mem_callsOnExt.1 hc with hc | ⟨t1, l1, _, he1⟩
  · exact (T.histTime _ hc).2
  · obtain ⟨g, res, p, -, -, -, rfl⟩ := extOf_eq_some.1 he1
    exact Nat.le_refl _

/-- the pending call of a thread that is not counted in the extended history is different from
every call of the extended history -/
theorem inv_ne_of_mem_callsOnExt {s : State} (T : TInv s) {t : Nat} {l : Local} {p : Pending} {k : Nat}
    (hl : s.threads[t]? = some l) (hp : l.call = some p) (hnone : extOf k s.now t l = none)
    {c : Call} (hc : c ∈ callsOnExt s k) : c.inv ≠ p.inv := by
  rcases mem_callsOnExt.1 hc with hc | ⟨t1, l1, hl1, he1⟩
  · exact T.uniqHP _ hc t l p hl hp
  · obtain ⟨g, res, p1, hpc1, hcall1, -, rfl⟩ := extOf_eq_some.1 he1
    intro he
    have := T.uniqPP t1 t l1 l p1 p hl1 hl hcall1 hp he
    subst this
    rw [hl] at hl1; cases hl1
    rw [hnone] at he1; cases he1

theorem callsOnExt_pairwise {s : State} (T : TInv s) (k : Nat) :
    (callsOnExt s k).Pairwise (fun c d => c.inv ≠ d.inv) := by
  unfold callsOnExt
  refine List.pairwise_append.2 ⟨?_, ?_, ?_⟩
  · unfold callsOn
    rw [List.pairwise_map, List.pairwise_reverse]
    refine (T.uniqHH.filter _).imp ?_
    intro a b hab; exact fun h => hab h.symm
  · unfold extCalls
    refine List.Pairwise.filterMap _ ?_ (List.pairwise_lt_range)
    intro t1 t2 hlt c1 hc1 c2 hc2
    obtain ⟨l1, hl1, he1⟩ := Option.bind_eq_some_iff.1 hc1
    obtain ⟨l2, hl2, he2⟩ := Option.bind_eq_some_iff.1 hc2
    obtain ⟨_, _, p1, _, hcall1, _, rfl⟩ := extOf_eq_some.1 he1
    obtain ⟨_, _, p2, _, hcall2, _, rfl⟩ := extOf_eq_some.1 he2
    intro he
    have := T.uniqPP t1 t2 l1 l2 p1 p2 hl1 hl2 hcall1 hcall2 he
    omega
  · intro c hc d hd
    obtain ⟨t1, l1, hl1, he1⟩ := mem_extCalls.1 hd
    obtain ⟨_, _, p1, _, hcall1, _, rfl⟩ := extOf_eq_some.1 he1
    exact T.uniqHP _ (mem_callsOn.1 hc) t1 l1 p1 hl1 hcall1

theorem extOf_idle (k now t : Nat) : extOf k now t { pc := .idle, call := none } = none := rfl

theorem extOf_none_of_call {k now t : Nat} {l : Local} (h : l.call = none) : extOf k now t l = none := by
  cases he : extOf k now t l with
  | none => rfl
  | some c =>
    obtain ⟨_, _, p, -, hcall, -⟩ := extOf_eq_some.1 he
    rw [h] at hcall; cases hcall

theorem extOf_none_of_key {k now t : Nat} {l : Local} {p : Pending} (h : l.call = some p) (hk : p.key ≠ k) :
    extOf k now t l = none := by
  cases he : extOf k now t l with
  | none => rfl
  | some c =>
    obtain ⟨_, _, p', -, hcall, hk', -⟩ := extOf_eq_some.1 he
    rw [h] at hcall; cases hcall
    exact absurd hk' hk

/-! ## the ghost invariant -/

/-- the call has a linearization point in its interval at which the trace `A` justifies it -/
def CallOK (A : Nat → KSt) (pt : Nat → Nat) (c : Call) : Prop :=
  c.inv ≤ pt c.inv ∧ pt c.inv ≤ c.resp ∧
  (isRead c.op = true → specStep (A (pt c.inv)) c.op = (A (pt c.inv), c.res)) ∧
  (isRead c.op = false → 1 ≤ pt c.inv ∧ specStep (A (pt c.inv - 1)) c.op = (A (pt c.inv), c.res))

theorem CallOK.sim {A A' : Nat → KSt} {pt pt' : Nat → Nat} {c c' : Call} {T : Nat}
    (h : CallOK A pt c) (hs : Sim c c') (hresp : c.resp ≤ T) (hA' : ∀ τ, τ ≤ T → A' τ = A τ)
    (hpt' : pt' c.inv = pt c.inv) : CallOK A' pt' c' := by
  obtain ⟨h1, h2, h3, h4⟩ := h
  obtain ⟨_, s2, s3, s4, s5⟩ := hs
  unfold CallOK
  rw [s4, s2, s3, hpt', hA' _ (by omega : pt c.inv ≤ T), hA' _ (by omega : pt c.inv - 1 ≤ T)]
  exact ⟨h1, by omega, h3, h4⟩

structure GInv (k : Nat) (s : State) (A : Nat → KSt) (pt : Nat → Nat) : Prop where
  h0 : A 0 = none
  hA : A s.now = absOf s k
  calls : ∀ c ∈ callsOnExt s k, CallOK A pt c
  stab : ∀ τ, 1 ≤ τ → τ ≤ s.now → A τ ≠ A (τ - 1) →
    ∃ c ∈ callsOnExt s k, isRead c.op = false ∧ pt c.inv = τ
  inj : ∀ c ∈ callsOnExt s k, ∀ d ∈ callsOnExt s k, isRead c.op = false → isRead d.op = false →
    pt c.inv = pt d.inv → c.inv = d.inv

/-- the trace extended by the abstract state after the step -/
def nextA (A : Nat → KSt) (now : Nat) (x : KSt) : Nat → KSt := fun τ => if τ = now + 1 then x else A τ

theorem nextA_old {A : Nat → KSt} {now : Nat} {x : KSt} {τ : Nat} (h : τ ≤ now) : nextA A now x τ = A τ := by
  unfold nextA; rw [if_neg (by omega)]

theorem nextA_new {A : Nat → KSt} {now : Nat} {x : KSt} : nextA A now x (now + 1) = x := by
  unfold nextA; rw [if_pos rfl]

/-- point-wise update of the point assignment -/
def updPt (pt : Nat → Nat) (i τ : Nat) : Nat → Nat := fun j => if j = i then τ else pt j

theorem updPt_self (pt : Nat → Nat) (i τ : Nat) : updPt pt i τ i = τ := by
  unfold updPt; rw [if_pos rfl]

theorem updPt_ne (pt : Nat → Nat) {i j : Nat} (τ : Nat) (h : j ≠ i) : updPt pt i τ j = pt j := by
  unfold updPt; rw [if_neg h]

/-- the generic part of the preservation of `GInv` -/
theorem GInv.frame {k : Nat} {s s' : State} {A : Nat → KSt} {pt pt' : Nat → Nat} {i0 : Nat}
    (g : GInv k s A pt) (T : TInv s) (hnow : s'.now = s.now + 1)
    (hpt' : ∀ c ∈ callsOnExt s k, pt' c.inv = pt c.inv)
    (hF : ∀ c ∈ callsOnExt s k, ∃ c' ∈ callsOnExt s' k, Sim c c')
    (hB : ∀ c' ∈ callsOnExt s' k, (∃ c ∈ callsOnExt s k, Sim c c') ∨
      (c'.inv = i0 ∧ CallOK (nextA A s.now (absOf s' k)) pt' c' ∧ (isRead c'.op = false → pt' c'.inv = s.now + 1)))
    (hchg : absOf s' k ≠ absOf s k → ∃ c' ∈ callsOnExt s' k, isRead c'.op = false ∧ pt' c'.inv = s.now + 1) :
    GInv k s' (nextA A s.now (absOf s' k)) pt' := by
  have hold : ∀ τ, τ ≤ s.now → nextA A s.now (absOf s' k) τ = A τ := fun τ h => nextA_old h
  refine ⟨?_, ?_, ?_, ?_, ?_⟩
  · rw [hold 0 (Nat.zero_le _)]; exact g.h0
  · rw [hnow, nextA_new]
  · intro c' hc'
    rcases hB c' hc' with ⟨c, hc, hsim⟩ | ⟨-, hok, -⟩
    · exact (g.calls c hc).sim hsim (callsOnExt_resp_le T hc) hold (hpt' c hc)
    · exact hok
  · intro τ h1 h2 hne
    rw [hnow] at h2
    rcases Nat.lt_or_ge τ (s.now + 1) with hlt | hge
    · rw [hold τ (by omega), hold (τ - 1) (by omega)] at hne
      obtain ⟨c, hc, hw, hp⟩ := g.stab τ h1 (by omega) hne
      obtain ⟨c', hc', hsim⟩ := hF c hc
      refine ⟨c', hc', by rw [hsim.2.1]; exact hw, ?_⟩
      rw [hsim.2.2.2.1, hpt' c hc]; exact hp
    · have hτ : τ = s.now + 1 := by omega
      subst hτ
      rw [nextA_new, Nat.add_sub_cancel, hold s.now (Nat.le_refl _), g.hA] at hne
      exact hchg hne
  · intro c' hc' d' hd' hwc hwd hpe
    rcases hB c' hc' with ⟨c, hc, hsc⟩ | ⟨hci, -, hcp⟩ <;> rcases hB d' hd' with ⟨d, hd, hsd⟩ | ⟨hdi, -, hdp⟩
    · rw [hsc.2.2.2.1, hsd.2.2.2.1]
      rw [hsc.2.2.2.1, hsd.2.2.2.1, hpt' c hc, hpt' d hd] at hpe
      exact g.inj c hc d hd (by rw [← hsc.2.1]; exact hwc) (by rw [← hsd.2.1]; exact hwd) hpe
    · exfalso
      have h1 := (g.calls c hc).2.1
      have h2 := callsOnExt_resp_le T hc
      rw [hsc.2.2.2.1, hpt' c hc, hdp hwd] at hpe
      omega
    · exfalso
      have h1 := (g.calls d hd).2.1
      have h2 := callsOnExt_resp_le T hd
      rw [hsd.2.2.2.1, hpt' d hd, hcp hwc] at hpe
      omega
    · rw [hci, hdi]

/-- transitions that add no call on `k` and do not change the abstract state of `k` -/
theorem ginv_quiet {k : Nat} {s s' : State} {A : Nat → KSt} {pt : Nat → Nat} {t : Nat}
    {l l' : Local} {hnew : List (Nat × Call)}
    (g : GInv k s A pt) (T : TInv s)
    (hl : s.threads[t]? = some l) (hthr : s'.threads = s.threads.set t l') (hnow : s'.now = s.now + 1)
    (hhist : s'.hist = hnew ++ s.hist) (hnk : ∀ c, (k, c) ∉ hnew)
    (habs : absOf s' k = absOf s k)
    (he : extOf k s.now t l = none) (he' : extOf k (s.now + 1) t l' = none) :
    GInv k s' (nextA A s.now (absOf s' k)) pt := by
  refine g.frame (i0 := 0) T hnow (fun _ _ => rfl) ?_ ?_ (fun h => absurd habs h)
  · intro c hc
    rcases ext_forward hl hthr hnow hhist c hc with h | h
    · exact h
    · rw [he] at h; cases h
  · intro c' hc'
    rcases ext_backward hthr hnow hhist c' hc' with h | h | h
    · exact Or.inl h
    · exact absurd h (hnk c')
    · rw [he'] at h; cases h

/-- transitions that add the call `c0` of thread `t` (to the history or as a stored writer) -/
theorem ginv_new {k : Nat} {s s' : State} {A : Nat → KSt} {pt : Nat → Nat} {t : Nat}
    {l l' : Local} {hnew : List (Nat × Call)} {p : Pending} {c0 : Call} {τ0 : Nat}
    (g : GInv k s A pt) (T : TInv s)
    (hl : s.threads[t]? = some l) (hp : l.call = some p)
    (hthr : s'.threads = s.threads.set t l') (hnow : s'.now = s.now + 1)
    (hhist : s'.hist = hnew ++ s.hist)
    (he : extOf k s.now t l = none)
    (honly : ∀ c', (k, c') ∈ hnew ∨ extOf k (s.now + 1) t l' = some c' → c' = c0)
    (hmem : c0 ∈ callsOnExt s' k)
    (hinv0 : c0.inv = p.inv)
    (hok : CallOK (nextA A s.now (absOf s' k)) (updPt pt p.inv τ0) c0)
    (hw : isRead c0.op = false → τ0 = s.now + 1)
    (hchg : absOf s' k ≠ absOf s k → isRead c0.op = false) :
    GInv k s' (nextA A s.now (absOf s' k)) (updPt pt p.inv τ0) := by
  refine g.frame (i0 := p.inv) T hnow ?_ ?_ ?_ ?_
  · intro c hc
    exact updPt_ne pt τ0 (inv_ne_of_mem_callsOnExt T hl hp he hc)
  · intro c hc
    rcases ext_forward hl hthr hnow hhist c hc with h | h
    · exact h
    · rw [he] at h; cases h
  · intro c' hc'
    rcases ext_backward hthr hnow hhist c' hc' with h | h | h
    · exact Or.inl h
    · have := honly c' (Or.inl h); subst this
      exact Or.inr ⟨hinv0, hok, fun hwr => by rw [hinv0, updPt_self]; exact hw hwr⟩
    · have := honly c' (Or.inr h); subst this
      exact Or.inr ⟨hinv0, hok, fun hwr => by rw [hinv0, updPt_self]; exact hw hwr⟩
  · intro hne
    have hwr := hchg hne
    exact ⟨c0, hmem, hwr, by rw [hinv0, updPt_self]; exact hw hwr⟩

/-- a quiet transition of a thread without a call -/
theorem ginv_quiet_nocall {k : Nat} {s s' : State} {A : Nat → KSt} {pt : Nat → Nat} {t : Nat}
    {l l' : Local}
    (g : GInv k s A pt) (T : TInv s)
    (hl : s.threads[t]? = some l) (hthr : s'.threads = s.threads.set t l') (hnow : s'.now = s.now + 1)
    (hhist : s'.hist = s.hist) (habs : absOf s' k = absOf s k) (hc : l.call = none) (hc' : l'.call = none) :
    GInv k s' (nextA A s.now (absOf s' k)) pt :=
  ginv_quiet (hnew := []) g T hl hthr hnow hhist (by simp) habs (extOf_none_of_call hc)
    (extOf_none_of_call hc')

theorem mem_singleton_key {k k' : Nat} {c c0 : Call} (h : (k, c) ∈ [(k', c0)]) : k = k' ∧ c = c0 := by
  simp only [List.mem_singleton, Prod.mk.injEq] at h
  exact h

end Flurry.Proto.BinNA
