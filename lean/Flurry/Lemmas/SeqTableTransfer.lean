import Flurry.Lemmas.SeqTableLookup
import Flurry.Props.C10Arith
/-! # T3: `transferTable` / `transfer` -/
namespace Flurry.Seq
open Flurry Flurry.Gen

/-- the doubled table: all low halves, then all high halves (the padding of the definition is
empty and nothing is cut off, because `nextTableLen n = 2 * n`) -/
theorem transferTable_eq (t : Table) :
    transferTable t = t.map (fun b => (splitBin t.length b).1) ++ t.map (fun b => (splitBin t.length b).2) := by
  simp only [transferTable, List.map_map, C10.double_exact, List.length_append, List.length_map]
  have h0 : 2 * t.length - (t.length + t.length) = 0 := by omega
  rw [h0]
  simp only [emptyTable, List.replicate_zero, List.append_nil]
  rw [List.take_of_length_le (by simp; omega)]
  rfl

theorem transferTable_length (t : Table) : (transferTable t).length = 2 * t.length := by
  rw [transferTable_eq]; simp; omega

theorem tableBin_transferTable_lo {t : Table} {i : Nat} (hi : i < t.length) :
    tableBin (transferTable t) i = (splitBin t.length (tableBin t i)).1 := by
  rw [transferTable_eq, tableBin_eq_getElem (by simp; omega), tableBin_eq_getElem hi,
    List.getElem_append_left (by simpa using hi)]
  simp

theorem tableBin_transferTable_hi {t : Table} {i : Nat} (hi : i < t.length) :
    tableBin (transferTable t) (i + t.length) = (splitBin t.length (tableBin t i)).2 := by
  rw [transferTable_eq, tableBin_eq_getElem (by simp; omega), tableBin_eq_getElem hi,
    List.getElem_append_right (by simp)]
  simp

/-- the nodes of the doubled table are the old nodes, rearranged (no hypothesis needed) -/
theorem transferTable_nodes_perm (t : Table) :
    ((transferTable t).flatMap Bin.nodes).Perm (t.flatMap Bin.nodes) := by
  rw [transferTable_eq, List.flatMap_append]
  generalize t.length = n
  induction t with
  | nil => exact List.Perm.refl _
  | cons b t ih =>
    simp only [List.map_cons, List.flatMap_cons]
    obtain ⟨p0, p1⟩ := splitBin_nodes_perm n b
    have hb : ((splitBin n b).1.nodes ++ (splitBin n b).2.nodes).Perm b.nodes :=
      (p0.append p1).trans (filter_bits_perm _ _)
    generalize (splitBin n b).1.nodes = X at hb
    generalize (splitBin n b).2.nodes = Y at hb
    generalize List.flatMap Bin.nodes (List.map (fun b => (splitBin n b).1) t) = L at ih
    generalize List.flatMap Bin.nodes (List.map (fun b => (splitBin n b).2) t) = H at ih
    -- (X ++ L) ++ (Y ++ H) ~ b.nodes ++ rest
    have h1 : ((X ++ L) ++ (Y ++ H)).Perm ((X ++ Y) ++ (L ++ H)) := by
      simp only [List.append_assoc]
      refine List.Perm.append_left X ?_
      rw [← List.append_assoc, ← List.append_assoc]
      exact List.Perm.append_right H List.perm_append_comm
    exact h1.trans (hb.append ih)

theorem transferTable_wf {hash : Nat → Nat} {t : Table} (h : TableWF hash t)
    (hlt : t.length < MAXIMUM_CAPACITY) : TableWF hash (transferTable t) := by
  obtain ⟨k, hk⟩ := h.1
  refine ⟨⟨k + 1, ?_⟩, ?_, ?_⟩
  · rw [transferTable_length, hk, two_mul_two_pow]
  · rw [transferTable_length]
    rw [max_cap_eq] at hlt ⊢
    rw [hk] at hlt ⊢
    have : k < 30 := (Nat.pow_lt_pow_iff_right (by decide)).1 hlt
    rw [two_mul_two_pow]
    exact Nat.pow_le_pow_right (by decide) (by omega)
  · intro i hi
    rw [transferTable_length] at hi ⊢
    by_cases hlo : i < t.length
    · rw [tableBin_transferTable_lo hlo]
      exact (splitBin_wf' h.1 (h.bin i)).1
    · obtain ⟨j, rfl⟩ : ∃ j, i = j + t.length := ⟨i - t.length, by omega⟩
      have hj : j < t.length := by omega
      rw [tableBin_transferTable_hi hj]
      exact (splitBin_wf' h.1 (h.bin j)).2.1

/-- the bin that a hash selects in the doubled table holds the half (chosen by the new bit) of
the bin it selected before -/
theorem transferTable_find {hash : Nat → Nat} {t : Table} (h : TableWF hash t) (hs key : Nat) :
    (tableBin (transferTable t) (bini hs (2 * t.length))).find hs key
      = (tableBin t (bini hs t.length)).find hs key := by
  obtain ⟨k, hk⟩ := h.1
  have hi : bini hs t.length < t.length := bini_lt_of_isPow2 hs h.1
  have hd : bini hs (2 * t.length) = bini hs t.length + runBit hs t.length := by
    rw [hk, two_mul_two_pow, bini_double]
  have hf := splitBin_find (hash := hash) (k := k) (i := bini hs t.length)
    (b := tableBin t (bini hs t.length)) (by rw [← hk]; exact h.bin _) hs key
  rw [← hk] at hf
  rw [← hf, hd]
  have hc : runBit hs t.length = 0 ∨ runBit hs t.length = t.length := by
    rw [hk]; exact runBit_cases hs k
  rcases hc with h0 | h1
  · rw [h0, Nat.add_zero, tableBin_transferTable_lo hi]; simp
  · rw [h1, tableBin_transferTable_hi hi]
    have : ¬ t.length = 0 := by have := h.length_pos; omega
    simp [this]

/-! ## `transfer` on maps -/

/-- two states answer every lookup alike and hold the same entries (up to iteration order) -/
def Same (m m' : Map) : Prop :=
  m'.hash = m.hash ∧ (∀ k, get k m' = get k m) ∧ (entries m').Perm (entries m)

theorem Same.refl (m : Map) : Same m m := ⟨rfl, fun _ => rfl, List.Perm.refl _⟩

theorem Same.trans {a b c : Map} (h1 : Same a b) (h2 : Same b c) : Same a c :=
  ⟨h2.1.trans h1.1, fun k => (h2.2.1 k).trans (h1.2.1 k), h2.2.2.trans h1.2.2⟩

theorem Same.of_eq {m m' : Map} (ht : m'.table = m.table) (hh : m'.hash = m.hash) : Same m m' :=
  ⟨hh, get_congr ht hh, by rw [entries_congr ht]⟩

theorem Same.length_eq {m m' : Map} (h : Same m m') : (entries m').length = (entries m).length :=
  h.2.2.length_eq

theorem Same.absMap_eq {m m' : Map} (h : Same m m') : absMap m' = absMap m := by
  funext k; simp only [absMap, h.2.1 k]

theorem transfer_of_some {m : Map} {t : Table} (ht : m.table = some t) :
    transfer m = { m with table := some (transferTable t), sizeCtl := postResizeThreshold t.length,
                          resizes := m.resizes + 1 } := by
  simp only [transfer, ht]

theorem transfer_table {m : Map} {t : Table} (ht : m.table = some t) :
    (transfer m).table = some (transferTable t) := by rw [transfer_of_some ht]

theorem transfer_hash (m : Map) : (transfer m).hash = m.hash := by
  unfold transfer; split <;> rfl

theorem transfer_count (m : Map) : (transfer m).count = m.count := by
  unfold transfer; split <;> rfl

theorem transfer_resizes {m : Map} {t : Table} (ht : m.table = some t) :
    (transfer m).resizes = m.resizes + 1 := by rw [transfer_of_some ht]

theorem transfer_resizes_le (m : Map) : m.resizes ≤ (transfer m).resizes := by
  unfold transfer; split <;> simp

theorem transfer_sizeCtl {m : Map} {t : Table} (ht : m.table = some t) :
    (transfer m).sizeCtl = loadFactor (Int.ofNat (2 * t.length)) := by
  rw [transfer_of_some ht]
  show postResizeThreshold t.length = _
  rw [(C10.threshold_after t.length).1, C10.double_exact]

theorem transfer_tableLen {m : Map} {t : Table} (ht : m.table = some t) :
    tableLen (transfer m) = 2 * t.length := by
  simp only [tableLen, transfer_table ht, transferTable_length]

theorem transfer_tableLen_le (m : Map) : tableLen m ≤ tableLen (transfer m) := by
  cases ht : m.table with
  | none => simp [transfer, ht]
  | some t => rw [transfer_tableLen ht]; simp only [tableLen, ht]; omega

theorem transfer_entries_perm (m : Map) : (entries (transfer m)).Perm (entries m) := by
  cases ht : m.table with
  | none => simp [transfer, ht]
  | some t =>
    rw [entries_eq ht, entries_eq (transfer_table ht)]
    exact transferTable_nodes_perm t

theorem transfer_tableWF {m : Map} {t : Table} (hw : TableWF m.hash t)
    (hlt : t.length < MAXIMUM_CAPACITY) : TableWF (transfer m).hash (transferTable t) := by
  rw [transfer_hash]; exact transferTable_wf hw hlt

/-- **T3**: a lookup is not affected by a resize -/
theorem transfer_get {m : Map} {t : Table} (ht : m.table = some t) (hw : TableWF m.hash t)
    (k : Nat) : get k (transfer m) = get k m := by
  have hpos := hw.length_pos
  rw [get_eq_find ht hw]
  simp only [get, transfer_table ht, transfer_hash, transferTable_length]
  rw [if_neg (by simp only [beq_iff_eq]; omega)]
  exact transferTable_find hw _ _

theorem transfer_same {m : Map} {t : Table} (ht : m.table = some t) (hw : TableWF m.hash t) :
    Same m (transfer m) :=
  ⟨transfer_hash m, transfer_get ht hw, transfer_entries_perm m⟩

end Flurry.Seq
