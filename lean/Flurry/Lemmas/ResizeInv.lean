import Flurry.Lemmas.ResizeBasic
/-! # Proto/Resize: `Inv` is inductive (`Inv.init`, `Inv.step`, `Reachable.inv`) -/
namespace Flurry.Proto.Resize

variable {n0 nthreads stride : Nat} {s s' : State} {t : Nat} {l l' : Local}

/-! ## consequences of `Inv` used in the step proofs -/

theorem S_le_F (s : State) : S s ≤ F s :=
  List.countP_mono_left (fun l _ h => atStore_isFinisher l h)

theorem Inv.F_le (h : Inv n0 nthreads stride s) : F s ≤ 1 := by
  rw [h.fin_eq]; exact finWord_le _

theorem finWord_eq_one {sc : SC} (h : finWord sc = 1) : ∃ g, sc = .resizing g 1 := by
  unfold finWord at h; split at h
  · exact ⟨_, rfl⟩
  · omega

/-- a finisher exists: the word is `resizing g 1` and nobody else participates -/
theorem Inv.fin_facts (h : Inv n0 nthreads stride s) (hl : s.threads[t]? = some l)
    (hf : isFinisher l = true) : (∃ g, s.sizeCtl = .resizing g 1) ∧ P s = 0 ∧ F s = 1 := by
  have h1 : 0 < F s := countP_pos_of_getElem? hl hf
  have h2 := h.F_le
  have h3 : F s = 1 := by omega
  have h4 := h.fin_eq
  rw [h3] at h4
  obtain ⟨g, hg⟩ := finWord_eq_one h4.symm
  have h5 := h.cnt_eq
  rw [hg] at h5; simp [cnt] at h5
  exact ⟨⟨g, hg⟩, by omega, h3⟩

/-- a participant exists: the word is `resizing s.gen c` with `c ≥ 2`, no finisher -/
theorem Inv.part_facts (h : Inv n0 nthreads stride s) (hl : s.threads[t]? = some l)
    (hp : participating l = true) :
    ∃ c, s.sizeCtl = .resizing s.gen c ∧ c = 1 + P s ∧ 2 ≤ c ∧ F s = 0 ∧ S s = 0 := by
  have h1 : 0 < P s := countP_pos_of_getElem? hl hp
  have h5 := h.cnt_eq
  cases hsc : s.sizeCtl with
  | idle thr => rw [hsc] at h5; simp [cnt] at h5; omega
  | resizing g c =>
    rw [hsc] at h5; simp [cnt] at h5
    have h4 := h.fin_eq
    have hF : F s = 0 := by
      rw [h4, hsc]; unfold finWord; split
      · rename_i heq; cases heq; omega
      · rfl
    have hS : S s = 0 := by have := S_le_F s; omega
    have := h.gen_eq g c hsc
    have : g = s.gen := by omega
    subst this
    exact ⟨c, rfl, h5, by omega, hF, hS⟩

theorem Inv.others_quiet (h : Inv n0 nthreads stride s) (hl : s.threads[t]? = some l)
    (hf : isFinisher l = true) {u : Nat} {lu : Local} (hu : u ≠ t)
    (hlu : s.threads[u]? = some lu) : quiet lu = true := by
  obtain ⟨_, hP, hF⟩ := h.fin_facts hl hf
  apply quiet_of_not
  · have : ∀ a ∈ s.threads, ¬ participating a = true := List.countP_eq_zero.mp hP
    have := this lu (List.mem_of_getElem? hlu)
    simpa using this
  · cases hq : isFinisher lu with
    | false => rfl
    | true =>
      have := countP_le_one_unique (p := isFinisher) (by simpa [F] using h.F_le) hlu hl hq hf
      exact absurd this hu

/-! ## frame lemmas for the thread-local part -/

theorem LocalOk.frame (h : LocalOk s l) (hn : s'.n = s.n) (hnt : s'.nextTable = s.nextTable)
    (hm : ∀ idx, s.moved.getD idx false = true → s'.moved.getD idx false = true) :
    LocalOk s' l := by
  have mf : ∀ lo, MovedFrom s lo → MovedFrom s' lo := by
    intro lo H idx h1 h2; exact hm idx (H idx h1 (by omega))
  unfold LocalOk at h ⊢
  split <;> simp_all <;> grind

theorem LocalOk.quiet (h : LocalOk s l) (hq : quiet l = true) : LocalOk s' l := by
  unfold LocalOk at h ⊢; unfold Flurry.Proto.Resize.quiet at hq
  split <;> simp_all

/-- `nextTable` may change under a thread that is not a finisher -/
theorem LocalOk.frame_nf (h : LocalOk s l) (hnf : isFinisher l = false) (hn : s'.n = s.n)
    (hm : ∀ idx, s.moved.getD idx false = true → s'.moved.getD idx false = true) :
    LocalOk s' l := by
  have mf : ∀ lo, MovedFrom s lo → MovedFrom s' lo := by
    intro lo H idx h1 h2; exact hm idx (H idx h1 (by omega))
  unfold LocalOk at h ⊢; unfold isFinisher at hnf
  split <;> simp_all

theorem getD_true_eq_false {m : List Bool} {idx : Nat} (h : idx < m.length) :
    m.getD idx true = m.getD idx false := by
  simp [List.getD, h]

theorem locals_set {ths : List Local} (H1 : LocalOk s' l')
    (H2 : ∀ (u : Nat) (lu : Local), u ≠ t → ths[u]? = some lu → LocalOk s' lu) :
    ∀ (u : Nat) (lu : Local), (ths.set t l')[u]? = some lu → LocalOk s' lu := by
  intro u lu hu
  rw [List.getElem?_set] at hu
  split at hu
  · simp at hu; rw [← hu.2]; exact H1
  · exact H2 u lu (by omega) hu


/-! ## the initial state -/

theorem Inv.init (n0 nthreads stride : Nat) : Inv n0 nthreads stride (init n0 nthreads stride) := by
  have hth : ∀ l ∈ List.replicate nthreads ({} : Local), l = {} := fun l hl => List.eq_of_mem_replicate hl
  refine ⟨rfl, by simp [Resize.init], by simp [Resize.init], rfl, by simp [Resize.init],
    by simp [Resize.init], ?_, ?_, ?_, ?_, ?_⟩
  · simp [Resize.init, cnt, P]; intros; simp [participating]
  · simp [Resize.init, finWord, F]; intros; simp [isFinisher]
  · simp [Resize.init]
  · simp [Resize.init]
  · intro t l hl
    have := hth l (List.mem_of_getElem? hl)
    subst this; simp [LocalOk]

/-! ## master lemma: a step of thread `t` that leaves `n`, `gen`, `moved`, `migrations`,
`published`, `nextTable` alone -/

def b2n (b : Bool) : Nat := if b then 1 else 0

/-- general form: every field of `Inv` for the new state, with the counters resolved -/
theorem Inv.upd' (h : Inv n0 nthreads stride s) (hl : s.threads[t]? = some l)
    (hth : s'.threads = s.threads.set t l') (hstride : s'.stride = s.stride)
    (hn : s'.n = n0 * 2 ^ s'.gen) (hpub : s'.published = List.replicate s'.gen 1)
    (hml : s'.moved.length = s'.n)
    (hmg : s'.migrations = s'.moved.map (fun b => if b then 1 else 0))
    (hcnt : cnt s'.sizeCtl + b2n (participating l) = cnt s.sizeCtl + b2n (participating l'))
    (hfin : finWord s'.sizeCtl + b2n (isFinisher l) = finWord s.sizeCtl + b2n (isFinisher l'))
    (hg : ∀ g c, s'.sizeCtl = .resizing g c → g + S s + b2n (atStore l') = s'.gen + b2n (atStore l))
    (hidle : ∀ thr, s'.sizeCtl = .idle thr → thr = threshold s'.n ∧ s'.nextTable = false)
    (hloc : LocalOk s' l')
    (hothers : ∀ (u : Nat) (lu : Local), u ≠ t → s.threads[u]? = some lu → LocalOk s lu → LocalOk s' lu) :
    Inv n0 nthreads stride s' := by
  have hP := countP_set_add (p := participating) (x := l') hl
  have hF := countP_set_add (p := isFinisher) (x := l') hl
  have hS := countP_set_add (p := atStore) (x := l') hl
  refine ⟨by rw [hstride, h.stride_eq], by rw [hth, List.length_set, h.nthreads_eq],
    hn, hpub, hml, hmg, ?_, ?_, ?_, hidle, ?_⟩
  · have := h.cnt_eq; simp only [P, hth, b2n] at *; omega
  · have := h.fin_eq; simp only [F, hth, b2n] at *; omega
  · intro g c hsc
    have := hg g c hsc; simp only [S, hth, b2n] at *; omega
  · rw [hth]
    refine locals_set hloc ?_
    intro u lu hne hu
    exact hothers u lu hne hu (h.locals u lu hu)

theorem Inv.upd (h : Inv n0 nthreads stride s) (hl : s.threads[t]? = some l)
    (hth : s'.threads = s.threads.set t l') (hstride : s'.stride = s.stride)
    (hn : s'.n = s.n) (hgen : s'.gen = s.gen) (hmv : s'.moved = s.moved)
    (hmg : s'.migrations = s.migrations) (hpub : s'.published = s.published)
    (hnt : s'.nextTable = s.nextTable)
    (hcnt : cnt s'.sizeCtl + b2n (participating l) = cnt s.sizeCtl + b2n (participating l'))
    (hfin : finWord s'.sizeCtl + b2n (isFinisher l) = finWord s.sizeCtl + b2n (isFinisher l'))
    (hg : ∀ g c, s'.sizeCtl = .resizing g c → g + S s + b2n (atStore l') = s.gen + b2n (atStore l))
    (hidle : ∀ thr, s'.sizeCtl = .idle thr → thr = threshold s.n ∧ s.nextTable = false)
    (hloc : LocalOk s' l') : Inv n0 nthreads stride s' := by
  refine h.upd' hl hth hstride (by rw [hn, hgen, h.n_eq]) (by rw [hpub, hgen, h.pub_eq])
    (by rw [hmv, hn, h.moved_len]) (by rw [hmg, hmv, h.migr_eq]) hcnt hfin (by rw [hgen]; exact hg)
    (by rw [hn, hnt]; exact hidle) hloc ?_
  intro u lu _ _ hlu
  exact hlu.frame hn hnt (by rw [hmv]; exact fun _ h => h)

/-! ## the step cases -/

macro "resize_simp" : tactic =>
  `(tactic| simp_all [LocalOk, participating, isFinisher, atStore, b2n, cnt, finWord, setT])

macro "resize_close" : tactic =>
  `(tactic| (resize_simp <;> first | omega | grind))

macro "resize_local" : tactic =>
  `(tactic| (simp [LocalOk, MovedFrom, setT] at * <;> grind))

theorem Inv.facts (h : Inv n0 nthreads stride s) :
    cnt s.sizeCtl = 1 + P s ∧ F s = finWord s.sizeCtl ∧ S s ≤ F s ∧
    (∀ g c, s.sizeCtl = .resizing g c → g + S s = s.gen) ∧
    (∀ thr, s.sizeCtl = .idle thr → thr = threshold s.n ∧ s.nextTable = false) :=
  ⟨h.cnt_eq, h.fin_eq, S_le_F s, h.gen_eq, h.idle_thr⟩

theorem Inv.step_idle {c : Nat} (h : Inv n0 nthreads stride s)
    (hl : s.threads[t]? = some l) (hpc : l.pc = .idle)
    (hs : step s t c = some s') : Inv n0 nthreads stride s' := by
  have hL := h.locals t l hl
  simp only [LocalOk, hpc] at hL
  simp only [step, hl, hpc] at hs
  split at hs
  · injection hs with hs; subst hs
    rename_i thr hsc
    refine h.upd hl rfl rfl rfl rfl rfl rfl rfl rfl ?_ ?_ ?_ ?_ ?_
    · have hfacts := h.facts; resize_close
    · have hfacts := h.facts; resize_close
    · have hfacts := h.facts; resize_close
    · have hfacts := h.facts; resize_close
    · resize_local
  · split at hs
    · injection hs with hs; subst hs
      rename_i g c hsc hcond
      have hc1 : c ≠ 1 := by intro h1; subst h1; simp at hcond
      clear hcond
      refine h.upd hl rfl rfl rfl rfl rfl rfl rfl rfl ?_ ?_ ?_ ?_ ?_
      · have hfacts := h.facts; resize_close
      · have hfacts := h.facts; resize_close
      · have hfacts := h.facts; resize_close
      · have hfacts := h.facts; resize_close
      · resize_local
    · injection hs with hs; subst hs; exact h
  · injection hs with hs; subst hs; exact h

theorem Inv.step_casInit {sc : SC} {c : Nat} (h : Inv n0 nthreads stride s)
    (hl : s.threads[t]? = some l) (hpc : l.pc = .casInit sc)
    (hs : step s t c = some s') : Inv n0 nthreads stride s' := by
  have hL := h.locals t l hl
  simp only [LocalOk, hpc] at hL
  simp only [step, hl, hpc] at hs
  obtain ⟨hfin, thr, rfl⟩ : l.finishing = false ∧ ∃ thr, sc = .idle thr := by simpa [LocalOk, hpc] using hL
  split at hs
  · injection hs with hs; subst hs
    refine h.upd hl rfl rfl rfl rfl rfl rfl rfl rfl ?_ ?_ ?_ ?_ ?_
    · have hfacts := h.facts; resize_close
    · have hfacts := h.facts; resize_close
    · have hfacts := h.facts; resize_close
    · have hfacts := h.facts; resize_close
    · resize_local
  · injection hs with hs; subst hs
    refine h.upd hl rfl rfl rfl rfl rfl rfl rfl rfl ?_ ?_ ?_ ?_ ?_
    · have hfacts := h.facts; resize_close
    · have hfacts := h.facts; resize_close
    · have hfacts := h.facts; resize_close
    · have hfacts := h.facts; resize_close
    · resize_local


theorem Inv.step_storeIndex {c : Nat} (h : Inv n0 nthreads stride s)
    (hl : s.threads[t]? = some l) (hpc : l.pc = .storeIndex)
    (hs : step s t c = some s') : Inv n0 nthreads stride s' := by
  have hL := h.locals t l hl
  simp only [LocalOk, hpc] at hL
  simp only [step, hl, hpc] at hs
  injection hs with hs; subst hs
  refine h.upd hl rfl rfl rfl rfl rfl rfl rfl rfl ?_ ?_ ?_ ?_ ?_
  · have hfacts := h.facts; resize_close
  · have hfacts := h.facts; resize_close
  · have hfacts := h.facts; resize_close
  · have hfacts := h.facts; resize_close
  · resize_local

theorem Inv.step_casJoin {sc : SC} {c : Nat} (h : Inv n0 nthreads stride s)
    (hl : s.threads[t]? = some l) (hpc : l.pc = .casJoin sc)
    (hs : step s t c = some s') : Inv n0 nthreads stride s' := by
  have hL := h.locals t l hl
  simp only [LocalOk, hpc] at hL
  obtain ⟨hfin, g, k, rfl, hk⟩ : l.finishing = false ∧ ∃ g c, sc = .resizing g c ∧ c ≠ 1 := by
    simpa [LocalOk, hpc] using hL
  simp only [step, hl, hpc] at hs
  split at hs
  · injection hs with hs; subst hs
    refine h.upd hl rfl rfl rfl rfl rfl rfl rfl rfl ?_ ?_ ?_ ?_ ?_
    · have hfacts := h.facts; resize_close
    · have hfacts := h.facts; resize_close
    · have hfacts := h.facts; resize_close
    · have hfacts := h.facts; resize_close
    · resize_local
  · injection hs with hs; subst hs
    refine h.upd hl rfl rfl rfl rfl rfl rfl rfl rfl ?_ ?_ ?_ ?_ ?_
    · have hfacts := h.facts; resize_close
    · have hfacts := h.facts; resize_close
    · have hfacts := h.facts; resize_close
    · have hfacts := h.facts; resize_close
    · resize_local

theorem Inv.step_claimLoad {c : Nat} (h : Inv n0 nthreads stride s)
    (hl : s.threads[t]? = some l) (hpc : l.pc = .claimLoad)
    (hs : step s t c = some s') : Inv n0 nthreads stride s' := by
  have hL := h.locals t l hl
  simp only [LocalOk, hpc] at hL
  simp only [step, hl, hpc] at hs
  split at hs
  · injection hs with hs; subst hs
    refine h.upd hl rfl rfl rfl rfl rfl rfl rfl rfl ?_ ?_ ?_ ?_ ?_
    · have hfacts := h.facts; resize_close
    · have hfacts := h.facts; resize_close
    · have hfacts := h.facts; resize_close
    · have hfacts := h.facts; resize_close
    · resize_local
  · split at hs
    · injection hs with hs; subst hs
      refine h.upd hl rfl rfl rfl rfl rfl rfl rfl rfl ?_ ?_ ?_ ?_ ?_
      · have hfacts := h.facts; resize_close
      · have hfacts := h.facts; resize_close
      · have hfacts := h.facts; resize_close
      · have hfacts := h.facts; resize_close
      · resize_local
    · split at hs
      · injection hs with hs; subst hs
        refine h.upd hl rfl rfl rfl rfl rfl rfl rfl rfl ?_ ?_ ?_ ?_ ?_
        · have hfacts := h.facts; resize_close
        · have hfacts := h.facts; resize_close
        · have hfacts := h.facts; resize_close
        · have hfacts := h.facts; resize_close
        · resize_local
      · injection hs with hs; subst hs
        refine h.upd hl rfl rfl rfl rfl rfl rfl rfl rfl ?_ ?_ ?_ ?_ ?_
        · have hfacts := h.facts; resize_close
        · have hfacts := h.facts; resize_close
        · have hfacts := h.facts; resize_close
        · have hfacts := h.facts; resize_close
        · resize_local

theorem Inv.step_claimCas {ni : Int} {c : Nat} (h : Inv n0 nthreads stride s)
    (hl : s.threads[t]? = some l) (hpc : l.pc = .claimCas ni)
    (hs : step s t c = some s') : Inv n0 nthreads stride s' := by
  have hL := h.locals t l hl
  simp only [LocalOk, hpc] at hL
  simp only [step, hl, hpc] at hs
  split at hs
  · injection hs with hs; subst hs
    refine h.upd hl rfl rfl rfl rfl rfl rfl rfl rfl ?_ ?_ ?_ ?_ ?_
    · have hfacts := h.facts; resize_close
    · have hfacts := h.facts; resize_close
    · have hfacts := h.facts; resize_close
    · have hfacts := h.facts; resize_close
    · resize_local
  · injection hs with hs; subst hs
    refine h.upd hl rfl rfl rfl rfl rfl rfl rfl rfl ?_ ?_ ?_ ?_ ?_
    · have hfacts := h.facts; resize_close
    · have hfacts := h.facts; resize_close
    · have hfacts := h.facts; resize_close
    · have hfacts := h.facts; resize_close
    · resize_local

theorem Inv.step_dispatch {c : Nat} (h : Inv n0 nthreads stride s)
    (hl : s.threads[t]? = some l) (hpc : l.pc = .dispatch)
    (hs : step s t c = some s') : Inv n0 nthreads stride s' := by
  have hL := h.locals t l hl
  simp only [LocalOk, hpc] at hL
  simp only [step, hl, hpc] at hs
  split at hs
  · split at hs
    · injection hs with hs; subst hs
      refine h.upd hl rfl rfl rfl rfl rfl rfl rfl rfl ?_ ?_ ?_ ?_ ?_
      · have hfacts := h.facts; resize_close
      · have hfacts := h.facts; resize_close
      · have hfacts := h.facts; resize_close
      · have hfacts := h.facts; resize_close
      · resize_local
    · injection hs with hs; subst hs
      refine h.upd hl rfl rfl rfl rfl rfl rfl rfl rfl ?_ ?_ ?_ ?_ ?_
      · have hfacts := h.facts; resize_close
      · have hfacts := h.facts; resize_close
      · have hfacts := h.facts; resize_close
      · have hfacts := h.facts; resize_close
      · resize_local
  · injection hs with hs; subst hs
    refine h.upd hl rfl rfl rfl rfl rfl rfl rfl rfl ?_ ?_ ?_ ?_ ?_
    · have hfacts := h.facts; resize_close
    · have hfacts := h.facts; resize_close
    · have hfacts := h.facts; resize_close
    · have hfacts := h.facts; resize_close
    · resize_local

theorem Inv.step_leaveLoad {c : Nat} (h : Inv n0 nthreads stride s)
    (hl : s.threads[t]? = some l) (hpc : l.pc = .leaveLoad)
    (hs : step s t c = some s') : Inv n0 nthreads stride s' := by
  have hL := h.locals t l hl
  simp only [LocalOk, hpc] at hL
  simp only [step, hl, hpc] at hs
  injection hs with hs; subst hs
  refine h.upd hl rfl rfl rfl rfl rfl rfl rfl rfl ?_ ?_ ?_ ?_ ?_
  · have hfacts := h.facts; resize_close
  · have hfacts := h.facts; resize_close
  · have hfacts := h.facts; resize_close
  · have hfacts := h.facts; resize_close
  · resize_local


theorem Inv.step_leaveCas {sc : SC} {c : Nat} (h : Inv n0 nthreads stride s)
    (hl : s.threads[t]? = some l) (hpc : l.pc = .leaveCas sc)
    (hs : step s t c = some s') : Inv n0 nthreads stride s' := by
  have hL := h.locals t l hl
  simp only [LocalOk, hpc] at hL
  have hp : participating l = true := by simp [participating, hpc, hL]
  obtain ⟨k, hsc, hk, hk2, hF, hS⟩ := h.part_facts hl hp
  simp only [step, hl, hpc] at hs
  split at hs
  · have : sc = .resizing s.gen k := by simp_all
    subst this
    simp only at hs
    split at hs
    · injection hs with hs; subst hs
      refine h.upd hl rfl rfl rfl rfl rfl rfl rfl rfl ?_ ?_ ?_ ?_ ?_
      · have hfacts := h.facts; resize_close
      · have hfacts := h.facts; resize_close
      · have hfacts := h.facts; resize_close
      · have hfacts := h.facts; resize_close
      · resize_local
    · injection hs with hs; subst hs
      refine h.upd hl rfl rfl rfl rfl rfl rfl rfl rfl ?_ ?_ ?_ ?_ ?_
      · have hfacts := h.facts; resize_close
      · have hfacts := h.facts; resize_close
      · have hfacts := h.facts; resize_close
      · have hfacts := h.facts; resize_close
      · resize_local
  · injection hs with hs; subst hs
    refine h.upd hl rfl rfl rfl rfl rfl rfl rfl rfl ?_ ?_ ?_ ?_ ?_
    · have hfacts := h.facts; resize_close
    · have hfacts := h.facts; resize_close
    · have hfacts := h.facts; resize_close
    · have hfacts := h.facts; resize_close
    · resize_local

theorem Inv.step_pubStoreCtl {c : Nat} (h : Inv n0 nthreads stride s)
    (hl : s.threads[t]? = some l) (hpc : l.pc = .pubStoreCtl)
    (hs : step s t c = some s') : Inv n0 nthreads stride s' := by
  have hL := h.locals t l hl
  simp only [LocalOk, hpc] at hL
  have hp : isFinisher l = true := by simp [isFinisher, hpc]
  obtain ⟨⟨g, hsc⟩, hP, hF⟩ := h.fin_facts hl hp
  simp only [step, hl, hpc] at hs
  injection hs with hs; subst hs
  refine h.upd hl rfl rfl rfl rfl rfl rfl rfl rfl ?_ ?_ ?_ ?_ ?_
  · have hfacts := h.facts; resize_close
  · have hfacts := h.facts; resize_close
  · have hfacts := h.facts; resize_close
  · have hfacts := h.facts; resize_close
  · resize_local


theorem Inv.step_swapNext {c : Nat} (h : Inv n0 nthreads stride s)
    (hl : s.threads[t]? = some l) (hpc : l.pc = .swapNext)
    (hs : step s t c = some s') : Inv n0 nthreads stride s' := by
  have hL := h.locals t l hl
  simp only [LocalOk, hpc] at hL
  have hp : participating l = true := by simp [participating, hpc, hL]
  obtain ⟨k, hsc, hk, hk2, hF, hS⟩ := h.part_facts hl hp
  simp only [step, hl, hpc] at hs
  injection hs with hs; subst hs
  refine h.upd' hl rfl rfl h.n_eq h.pub_eq h.moved_len h.migr_eq ?_ ?_ ?_ ?_ ?_ ?_
  · have hfacts := h.facts; resize_close
  · have hfacts := h.facts; resize_close
  · have hfacts := h.facts; resize_close
  · have hfacts := h.facts; resize_close
  · resize_local
  · intro u lu _ hu hlu
    have hnf : isFinisher lu = false := by
      have : ∀ a ∈ s.threads, ¬ isFinisher a = true := List.countP_eq_zero.mp hF
      simpa using this lu (List.mem_of_getElem? hu)
    exact hlu.frame_nf hnf rfl (fun _ h => h)

theorem Inv.step_pubClearNext {c : Nat} (h : Inv n0 nthreads stride s)
    (hl : s.threads[t]? = some l) (hpc : l.pc = .pubClearNext)
    (hs : step s t c = some s') : Inv n0 nthreads stride s' := by
  have hL := h.locals t l hl
  simp only [LocalOk, hpc] at hL
  have hp : isFinisher l = true := by simp [isFinisher, hpc]
  obtain ⟨⟨g, hsc⟩, hP, hF⟩ := h.fin_facts hl hp
  simp only [step, hl, hpc] at hs
  injection hs with hs; subst hs
  refine h.upd' hl rfl rfl h.n_eq h.pub_eq h.moved_len h.migr_eq ?_ ?_ ?_ ?_ ?_ ?_
  · have hfacts := h.facts; resize_close
  · have hfacts := h.facts; resize_close
  · have hfacts := h.facts; resize_close
  · have hfacts := h.facts; resize_close
  · resize_local
  · intro u lu hne hu hlu
    exact hlu.quiet (h.others_quiet hl hp hne hu)

theorem Inv.step_pubSwapTable {c : Nat} (h : Inv n0 nthreads stride s)
    (hl : s.threads[t]? = some l) (hpc : l.pc = .pubSwapTable)
    (hs : step s t c = some s') : Inv n0 nthreads stride s' := by
  have hL := h.locals t l hl
  simp only [LocalOk, hpc] at hL
  have hp : isFinisher l = true := by simp [isFinisher, hpc]
  obtain ⟨⟨g, hsc⟩, hP, hF⟩ := h.fin_facts hl hp
  simp only [step, hl, hpc] at hs
  injection hs with hs; subst hs
  refine h.upd' hl rfl rfl ?_ ?_ ?_ ?_ ?_ ?_ ?_ ?_ ?_ ?_
  · show 2 * s.n = n0 * 2 ^ (s.gen + 1)
    rw [h.n_eq, Nat.pow_succ]; simp [Nat.mul_comm, Nat.mul_left_comm]
  · show bumpPublished s.published s.gen = List.replicate (s.gen + 1) 1
    simp only [h.pub_eq, bumpPublished]
    simp [List.replicate_succ']
  · simp
  · simp
  · have hfacts := h.facts; resize_close
  · have hfacts := h.facts; resize_close
  · have hfacts := h.facts; resize_close
  · have hfacts := h.facts; resize_close
  · resize_local
  · intro u lu hne hu hlu
    exact hlu.quiet (h.others_quiet hl hp hne hu)

theorem Inv.step_processBin {c : Nat} (h : Inv n0 nthreads stride s)
    (hl : s.threads[t]? = some l) (hpc : l.pc = .processBin)
    (hs : step s t c = some s') : Inv n0 nthreads stride s' := by
  have hL := h.locals t l hl
  simp only [LocalOk, hpc] at hL
  obtain ⟨hi0, hin, hmf⟩ := hL
  have hlen := h.moved_len
  have hidx : l.i.toNat < s.moved.length := by omega
  have hdd := getD_true_eq_false hidx
  simp only [step, hl, hpc] at hs
  split at hs
  · injection hs with hs; subst hs
    refine h.upd hl rfl rfl rfl rfl rfl rfl rfl rfl ?_ ?_ ?_ ?_ ?_
    · have hfacts := h.facts; resize_close
    · have hfacts := h.facts; resize_close
    · have hfacts := h.facts; resize_close
    · have hfacts := h.facts; resize_close
    · simp only [LocalOk, MovedFrom, setT] at *
      intro hf
      refine ⟨trivial, by omega, ?_⟩
      intro idx h1 h2
      by_cases h3 : l.i < (idx : Int)
      · exact hmf hf idx (by omega) h2
      · have : idx = l.i.toNat := by omega
        subst this; rw [← hdd]; assumption
  · injection hs with hs; subst hs
    have hmono : ∀ idx, s.moved.getD idx false = true →
        (s.moved.set l.i.toNat true).getD idx false = true := by
      intro idx; simp [List.getD, List.getElem?_set]; grind
    refine h.upd' hl rfl rfl h.n_eq h.pub_eq (by simp [setT, h.moved_len]) ?_ ?_ ?_ ?_ ?_ ?_ ?_
    · simp only [h.migr_eq, List.map_set]
      congr 1
      rename_i hnm
      rw [hdd] at hnm
      simp [List.getD, hidx] at hnm ⊢
      simp [hnm]
    · have hfacts := h.facts; resize_close
    · have hfacts := h.facts; resize_close
    · have hfacts := h.facts; resize_close
    · have hfacts := h.facts; resize_close
    · simp only [LocalOk, MovedFrom, setT] at *
      intro hf
      refine ⟨trivial, by omega, ?_⟩
      intro idx h1 h2
      by_cases h3 : l.i < (idx : Int)
      · exact hmono idx (hmf hf idx (by omega) h2)
      · have : idx = l.i.toNat := by omega
        subst this; simp [List.getD, hidx]
    · intro u lu _ _ hlu
      exact hlu.frame rfl rfl hmono


/-! ## `Inv` is inductive -/

theorem Inv.step {c : Nat} (h : Inv n0 nthreads stride s) (hs : step s t c = some s') :
    Inv n0 nthreads stride s' := by
  cases hl : s.threads[t]? with
  | none => simp [Resize.step, hl] at hs
  | some l =>
    cases hpc : l.pc with
    | idle => exact h.step_idle hl hpc hs
    | casInit sc => exact h.step_casInit hl hpc hs
    | swapNext => exact h.step_swapNext hl hpc hs
    | storeIndex => exact h.step_storeIndex hl hpc hs
    | casJoin sc => exact h.step_casJoin hl hpc hs
    | claimLoad => exact h.step_claimLoad hl hpc hs
    | claimCas ni => exact h.step_claimCas hl hpc hs
    | dispatch => exact h.step_dispatch hl hpc hs
    | processBin => exact h.step_processBin hl hpc hs
    | leaveLoad => exact h.step_leaveLoad hl hpc hs
    | leaveCas sc => exact h.step_leaveCas hl hpc hs
    | pubClearNext => exact h.step_pubClearNext hl hpc hs
    | pubSwapTable => exact h.step_pubSwapTable hl hpc hs
    | pubStoreCtl => exact h.step_pubStoreCtl hl hpc hs

theorem Reachable.inv {n nthreads stride : Nat} {s : State} (h : Reachable n nthreads stride s) :
    Inv n nthreads stride s := by
  induction h with
  | init => exact Inv.init n nthreads stride
  | step t c _ hs ih => exact ih.step hs

end Flurry.Proto.Resize
