import Flurry.Lemmas.ResizeBasic
/-! # Proto/Resize: `Inv` is inductive (`Inv.init`, `Inv.step`, `Reachable.inv`) -/
namespace Flurry.Proto.Resize

variable {n0 nthreads stride : Nat} {s s' : State} {t : Nat} {l l' : Local}

/-! ## consequences of `Inv` used in the step proofs -/

theorem S_le_F (s : State) : S s ≤ F s :=
  List.countP_mono_left (fun l _ h => atStore_isFinisher l h)

theorem Inv.F_le (h : Inv n0 nthreads stride s) : F s ≤ 1 := by
  rw [h.fin_eq]; exact finWord_le _

theorem finWord_eq_one {sc : SC} (h : finWord sc = 1) : ∃ g, sc = .resizing g 1 := by
  unfold finWord at h; split at h
  · exact ⟨_, rfl⟩
  · omega

/-- a finisher exists: the word is `resizing g 1` and nobody else participates -/
theorem Inv.fin_facts (h : Inv n0 nthreads stride s) (hl : s.threads[t]? = some l)
    (hf : isFinisher l = true) : (∃ g, s.sizeCtl = .resizing g 1) ∧ P s = 0 ∧ F s = 1 := by
  have h1 : 0 < F s := countP_pos_of_getElem? hl hf
  have h2 := h.F_le
  have h3 : F s = 1 := by omega
  have h4 := h.fin_eq
  rw [h3] at h4
  obtain ⟨g, hg⟩ := finWord_eq_one h4.symm
  have h5 := h.cnt_eq
  rw [hg] at h5; simp [cnt] at h5
  exact ⟨⟨g, hg⟩, by omega, h3⟩

/-- a participant exists: the word is `resizing s.gen c` with `c ≥ 2`, no finisher -/
theorem Inv.part_facts (h : Inv n0 nthreads stride s) (hl : s.threads[t]? = some l)
    (hp : participating l = true) :
    ∃ c, s.sizeCtl = .resizing s.gen c ∧ c = 1 + P s ∧ 2 ≤ c ∧ F s = 0 ∧ S s = 0 := by
  have h1 : 0 < P s := countP_pos_of_getElem? hl hp
  have h5 := h.cnt_eq
  cases hsc : s.sizeCtl with
  | idle thr => rw [hsc] at h5; simp [cnt] at h5; omega
  | resizing g c =>
    rw [hsc] at h5; simp [cnt] at h5
    have h4 := h.fin_eq
    have hF : F s = 0 := by
      rw [h4, hsc]; unfold finWord; split
      · rename_i heq; cases heq; omega
      · rfl
    have hS : S s = 0 := by have := S_le_F s; omega
    have := h.gen_eq g c hsc
    have : g = s.gen := by omega
    subst this
    exact ⟨c, rfl, h5, by omega, hF, hS⟩

theorem Inv.others_quiet (h : Inv n0 nthreads stride s) (hl : s.threads[t]? = some l)
    (hf : isFinisher l = true) {u : Nat} {lu : Local} (hu : u ≠ t)
    (hlu : s.threads[u]? = some lu) : quiet lu = true := by
  obtain ⟨_, hP, hF⟩ := h.fin_facts hl hf
  apply quiet_of_not
  · have : ∀ a ∈ s.threads, ¬ participating a = true := List.countP_eq_zero.mp hP
    have := this lu (List.mem_of_getElem? hlu)
    simpa using this
  · cases hq : isFinisher lu with
    | false => rfl
    | true =>
      have := countP_le_one_unique (p := isFinisher) (by simpa [F] using h.F_le) hlu hl hq hf
      exact absurd this hu

/-! ## frame lemmas for the thread-local part -/

/-- the only way the word of a *past* generation can show up is by staying -/
def WordFrame (s s' : State) : Prop :=
  ∀ g, g < s.gen → s'.sizeCtl = .resizing g 1 → s.sizeCtl = .resizing g 1

theorem WordFrame.of_eq (h : s'.sizeCtl = s.sizeCtl) : WordFrame s s' := by
  intro g _ hw; rw [← h]; exact hw

theorem JoinOk.frame {sc : SC} (h : JoinOk s l sc) (hheld : l.heldGen ≤ s.gen)
    (hw : WordFrame s s') : JoinOk s' l sc := by
  obtain ⟨hf, g, c, rfl, hg, hc⟩ := h
  refine ⟨hf, g, c, rfl, hg, fun h1 => ⟨(hc h1).1, fun h2 => (hc h1).2 (hw g ?_ h2)⟩⟩
  have := (hc h1).1; omega

theorem LocalOk.frame (h : LocalOk s l) (hn : s'.n = s.n) (hnt : s'.nextTable = s.nextTable)
    (hm : ∀ idx, s.moved.getD idx false = true → s'.moved.getD idx false = true)
    (hgen : s'.gen = s.gen) (hheld : l.heldGen ≤ s.gen) (hw : WordFrame s s') :
    LocalOk s' l := by
  have mf : ∀ lo, MovedFrom s lo → MovedFrom s' lo := by
    intro lo H idx h1 h2; exact hm idx (H idx h1 (by omega))
  have jf : ∀ sc, JoinOk s l sc → JoinOk s' l sc := fun sc H => H.frame hheld hw
  clear hw
  unfold LocalOk at h ⊢
  split <;> simp_all <;> grind

/-- a thread outside the machinery: only the generation (which grows) and the word matter -/
theorem LocalOk.quiet (h : LocalOk s l) (hq : quiet l = true) (hgen : s.gen ≤ s'.gen)
    (hheld : l.heldGen ≤ s.gen) (hw : WordFrame s s') : LocalOk s' l := by
  have jf : ∀ sc, JoinOk s l sc → JoinOk s' l sc := fun sc H => H.frame hheld hw
  clear hw
  unfold LocalOk at h ⊢; unfold Flurry.Proto.Resize.quiet at hq
  split <;> simp_all <;> grind

/-- `nextTable` may change under a thread that is not a finisher -/
theorem LocalOk.frame_nf (h : LocalOk s l) (hnf : isFinisher l = false) (hn : s'.n = s.n)
    (hm : ∀ idx, s.moved.getD idx false = true → s'.moved.getD idx false = true)
    (hgen : s'.gen = s.gen) (hheld : l.heldGen ≤ s.gen) (hw : WordFrame s s') :
    LocalOk s' l := by
  have mf : ∀ lo, MovedFrom s lo → MovedFrom s' lo := by
    intro lo H idx h1 h2; exact hm idx (H idx h1 (by omega))
  have jf : ∀ sc, JoinOk s l sc → JoinOk s' l sc := fun sc H => H.frame hheld hw
  clear hw
  unfold LocalOk at h ⊢; unfold isFinisher at hnf
  split <;> simp_all <;> grind

theorem getD_true_eq_false {m : List Bool} {idx : Nat} (h : idx < m.length) :
    m.getD idx true = m.getD idx false := by
  simp [List.getD, h]

theorem locals_set {ths : List Local} (H1 : LocalOk s' l')
    (H2 : ∀ (u : Nat) (lu : Local), u ≠ t → ths[u]? = some lu → LocalOk s' lu) :
    ∀ (u : Nat) (lu : Local), (ths.set t l')[u]? = some lu → LocalOk s' lu := by
  intro u lu hu
  rw [List.getElem?_set] at hu
  split at hu
  · simp at hu; rw [← hu.2]; exact H1
  · exact H2 u lu (by omega) hu


/-! ## the initial state -/

theorem Inv.init (n0 nthreads stride : Nat) : Inv n0 nthreads stride (init n0 nthreads stride true) := by
  have hth : ∀ l ∈ List.replicate nthreads ({} : Local), l = {} := fun l hl => List.eq_of_mem_replicate hl
  refine ⟨rfl, by simp [Resize.init], by simp [Resize.init], rfl, by simp [Resize.init],
    by simp [Resize.init], ?_, ?_, ?_, ?_, ?_, rfl, rfl, ?_⟩
  · simp [Resize.init, cnt, P]; intros; simp [participating]
  · simp [Resize.init, finWord, F]; intros; simp [isFinisher]
  · simp [Resize.init]
  · simp [Resize.init]
  · intro t l hl
    have := hth l (List.mem_of_getElem? hl)
    subst this; simp [LocalOk]
  · intro t l hl
    have := hth l (List.mem_of_getElem? hl)
    subst this; simp [Resize.init]

/-! ## master lemma: a step of thread `t` that leaves `n`, `gen`, `moved`, `migrations`,
`published`, `nextTable` alone -/

def b2n (b : Bool) : Nat := if b then 1 else 0

/-- general form: every field of `Inv` for the new state, with the counters resolved -/
theorem Inv.upd' (h : Inv n0 nthreads stride s) (hl : s.threads[t]? = some l)
    (hth : s'.threads = s.threads.set t l') (hstride : s'.stride = s.stride)
    (hck : s'.checkGen = s.checkGen) (hsj : s'.staleJoins = s.staleJoins)
    (hn : s'.n = n0 * 2 ^ s'.gen) (hpub : s'.published = List.replicate s'.gen 1)
    (hml : s'.moved.length = s'.n)
    (hmg : s'.migrations = s'.moved.map (fun b => if b then 1 else 0))
    (hcnt : cnt s'.sizeCtl + b2n (participating l) = cnt s.sizeCtl + b2n (participating l'))
    (hfin : finWord s'.sizeCtl + b2n (isFinisher l) = finWord s.sizeCtl + b2n (isFinisher l'))
    (hg : ∀ g c, s'.sizeCtl = .resizing g c → g + S s + b2n (atStore l') = s'.gen + b2n (atStore l))
    (hidle : ∀ thr, s'.sizeCtl = .idle thr → thr = threshold s'.n ∧ s'.nextTable = false)
    (hloc : LocalOk s' l')
    (hothers : ∀ (u : Nat) (lu : Local), u ≠ t → s.threads[u]? = some lu → LocalOk s lu → LocalOk s' lu)
    (hgen : s.gen ≤ s'.gen) (hheld : l'.heldGen ≤ s'.gen) :
    Inv n0 nthreads stride s' := by
  have hP := countP_set_add (p := participating) (x := l') hl
  have hF := countP_set_add (p := isFinisher) (x := l') hl
  have hS := countP_set_add (p := atStore) (x := l') hl
  refine ⟨by rw [hstride, h.stride_eq], by rw [hth, List.length_set, h.nthreads_eq],
    hn, hpub, hml, hmg, ?_, ?_, ?_, hidle, ?_, by rw [hck, h.check_eq], by rw [hsj, h.stale_eq], ?_⟩
  · have := h.cnt_eq; simp only [P, hth, b2n] at *; omega
  · have := h.fin_eq; simp only [F, hth, b2n] at *; omega
  · intro g c hsc
    have := hg g c hsc; simp only [S, hth, b2n] at *; omega
  · rw [hth]
    refine locals_set hloc ?_
    intro u lu hne hu
    exact hothers u lu hne hu (h.locals u lu hu)
  · intro u lu hu
    rw [hth, List.getElem?_set] at hu
    split at hu
    · simp at hu; rw [← hu.2]; exact hheld
    · exact Nat.le_trans (h.held_le u lu hu) hgen

theorem Inv.upd (h : Inv n0 nthreads stride s) (hl : s.threads[t]? = some l)
    (hth : s'.threads = s.threads.set t l') (hstride : s'.stride = s.stride)
    (hck : s'.checkGen = s.checkGen) (hsj : s'.staleJoins = s.staleJoins)
    (hn : s'.n = s.n) (hgen : s'.gen = s.gen) (hmv : s'.moved = s.moved)
    (hmg : s'.migrations = s.migrations) (hpub : s'.published = s.published)
    (hnt : s'.nextTable = s.nextTable)
    (hcnt : cnt s'.sizeCtl + b2n (participating l) = cnt s.sizeCtl + b2n (participating l'))
    (hfin : finWord s'.sizeCtl + b2n (isFinisher l) = finWord s.sizeCtl + b2n (isFinisher l'))
    (hg : ∀ g c, s'.sizeCtl = .resizing g c → g + S s + b2n (atStore l') = s.gen + b2n (atStore l))
    (hidle : ∀ thr, s'.sizeCtl = .idle thr → thr = threshold s.n ∧ s.nextTable = false)
    (hloc : LocalOk s' l') (hw : WordFrame s s')
    (hheld : l'.heldGen = l.heldGen ∨ l'.heldGen = s.gen) : Inv n0 nthreads stride s' := by
  refine h.upd' hl hth hstride hck hsj (by rw [hn, hgen, h.n_eq]) (by rw [hpub, hgen, h.pub_eq])
    (by rw [hmv, hn, h.moved_len]) (by rw [hmg, hmv, h.migr_eq]) hcnt hfin (by rw [hgen]; exact hg)
    (by rw [hn, hnt]; exact hidle) hloc ?_ (by omega) ?_
  · intro u lu _ hu hlu
    exact hlu.frame hn hnt (by rw [hmv]; exact fun _ h => h) hgen (h.held_le u lu hu) hw
  · have := h.held_le t l hl
    omega

/-! ## the step cases -/

macro "resize_simp" : tactic =>
  `(tactic| simp_all [LocalOk, participating, isFinisher, atStore, b2n, cnt, finWord, setT])

macro "resize_close" : tactic =>
  `(tactic| (resize_simp <;> first | omega | grind))

macro "resize_local" : tactic =>
  `(tactic| (simp [LocalOk, MovedFrom, setT] at * <;> grind))

theorem Inv.facts (h : Inv n0 nthreads stride s) :
    cnt s.sizeCtl = 1 + P s ∧ F s = finWord s.sizeCtl ∧ S s ≤ F s ∧
    (∀ g c, s.sizeCtl = .resizing g c → g + S s = s.gen) ∧
    (∀ thr, s.sizeCtl = .idle thr → thr = threshold s.n ∧ s.nextTable = false) :=
  ⟨h.cnt_eq, h.fin_eq, S_le_F s, h.gen_eq, h.idle_thr⟩

/-- a thread at `pubStoreCtl` exists: the next table has been cleared -/
theorem Inv.S_pos_nextTable (h : Inv n0 nthreads stride s) (hS : 0 < S s) : s.nextTable = false := by
  obtain ⟨l, hl, hp⟩ := List.countP_pos_iff.mp (show 0 < s.threads.countP atStore from hS)
  obtain ⟨t, ht⟩ := List.mem_iff_getElem?.mp hl
  have hL := h.locals t l ht
  simp only [LocalOk, (atStore_iff l).mp hp] at hL
  exact hL

/-- the stamp of the word is never ahead of the table -/
theorem Inv.word_gen_le (h : Inv n0 nthreads stride s) {g c : Nat} (hsc : s.sizeCtl = .resizing g c) :
    g ≤ s.gen := by
  have := h.gen_eq g c hsc; omega

/-- a word counting more than the finisher carries the stamp of the current table -/
theorem Inv.word_gen_eq (h : Inv n0 nthreads stride s) {g c : Nat} (hsc : s.sizeCtl = .resizing g c)
    (hc : c ≠ 1) : g = s.gen := by
  have h1 := h.gen_eq g c hsc
  have h2 := S_le_F s
  have h3 := h.fin_eq
  rw [hsc] at h3
  have : finWord (.resizing g c) = 0 := by
    unfold finWord; split
    · rename_i heq; cases heq; omega
    · rfl
  omega

theorem Inv.step_idle {c : Nat} (h : Inv n0 nthreads stride s)
    (hl : s.threads[t]? = some l) (hpc : l.pc = .idle)
    (hs : step s t c = some s') : Inv n0 nthreads stride s' := by
  have hL := h.locals t l hl
  simp only [LocalOk, hpc] at hL
  simp only [step, hl, hpc] at hs
  split at hs
  · injection hs with hs; subst hs
    rename_i thr hsc
    refine h.upd hl rfl rfl rfl rfl rfl rfl rfl rfl rfl rfl ?_ ?_ ?_ ?_ ?_ (.of_eq rfl) (.inl rfl)
    · have hfacts := h.facts; resize_close
    · have hfacts := h.facts; resize_close
    · have hfacts := h.facts; resize_close
    · have hfacts := h.facts; resize_close
    · resize_local
  · injection hs with hs; subst hs
    rename_i g k hsc
    have hgk := h.word_gen_le hsc
    refine h.upd hl rfl rfl rfl rfl rfl rfl rfl rfl rfl rfl ?_ ?_ ?_ ?_ ?_ (.of_eq rfl) (.inl rfl)
    · have hfacts := h.facts; resize_close
    · have hfacts := h.facts; resize_close
    · have hfacts := h.facts; resize_close
    · have hfacts := h.facts; resize_close
    · resize_local
  · split at hs
    · injection hs with hs; subst hs
      refine h.upd hl rfl rfl rfl rfl rfl rfl rfl rfl rfl rfl ?_ ?_ ?_ ?_ ?_ (.of_eq rfl) (.inr rfl)
      · have hfacts := h.facts; resize_close
      · have hfacts := h.facts; resize_close
      · have hfacts := h.facts; resize_close
      · have hfacts := h.facts; resize_close
      · resize_local
    · injection hs with hs; subst hs; exact h
  · injection hs with hs; subst hs; exact h

theorem Inv.step_casInit {sc : SC} {c : Nat} (h : Inv n0 nthreads stride s)
    (hl : s.threads[t]? = some l) (hpc : l.pc = .casInit sc)
    (hs : step s t c = some s') : Inv n0 nthreads stride s' := by
  have hL := h.locals t l hl
  simp only [LocalOk, hpc] at hL
  simp only [step, hl, hpc] at hs
  obtain ⟨hfin, thr, rfl⟩ : l.finishing = false ∧ ∃ thr, sc = .idle thr := by simpa [LocalOk, hpc] using hL
  split at hs
  · injection hs with hs; subst hs
    refine h.upd hl rfl rfl rfl rfl rfl rfl rfl rfl rfl rfl ?_ ?_ ?_ ?_ ?_ (by intro g _ hw; simp at hw) (.inl rfl)
    · have hfacts := h.facts; resize_close
    · have hfacts := h.facts; resize_close
    · have hfacts := h.facts; resize_close
    · have hfacts := h.facts; resize_close
    · resize_local
  · injection hs with hs; subst hs
    refine h.upd hl rfl rfl rfl rfl rfl rfl rfl rfl rfl rfl ?_ ?_ ?_ ?_ ?_ (.of_eq rfl) (.inl rfl)
    · have hfacts := h.facts; resize_close
    · have hfacts := h.facts; resize_close
    · have hfacts := h.facts; resize_close
    · have hfacts := h.facts; resize_close
    · resize_local


theorem Inv.step_storeIndex {c : Nat} (h : Inv n0 nthreads stride s)
    (hl : s.threads[t]? = some l) (hpc : l.pc = .storeIndex)
    (hs : step s t c = some s') : Inv n0 nthreads stride s' := by
  have hL := h.locals t l hl
  simp only [LocalOk, hpc] at hL
  simp only [step, hl, hpc] at hs
  injection hs with hs; subst hs
  refine h.upd hl rfl rfl rfl rfl rfl rfl rfl rfl rfl rfl ?_ ?_ ?_ ?_ ?_ (.of_eq rfl) (.inl rfl)
  · have hfacts := h.facts; resize_close
  · have hfacts := h.facts; resize_close
  · have hfacts := h.facts; resize_close
  · have hfacts := h.facts; resize_close
  · resize_local

theorem Inv.step_casJoin {sc : SC} {c : Nat} (h : Inv n0 nthreads stride s)
    (hl : s.threads[t]? = some l) (hpc : l.pc = .casJoin sc)
    (hs : step s t c = some s') : Inv n0 nthreads stride s' := by
  have hL := h.locals t l hl
  simp only [LocalOk, hpc] at hL
  obtain ⟨hfin, g, k, rfl, hgh, hk1⟩ := hL
  have hheld := h.held_le t l hl
  simp only [step, hl, hpc] at hs
  split at hs
  · rename_i hword
    have hword : s.sizeCtl = .resizing g k := by simpa using hword
    have hk : k ≠ 1 := by
      intro h1; subst h1; exact (hk1 rfl).2 hword
    have hg : g = s.gen := h.word_gen_eq hword hk
    have hk0 : k ≠ 0 := by
      have := h.cnt_eq; rw [hword] at this; simp only [cnt] at this; omega
    split at hs
    · injection hs with hs; subst hs
      refine h.upd hl rfl rfl rfl rfl rfl rfl rfl rfl rfl rfl ?_ ?_ ?_ ?_ ?_ (by intro g _ hw; simp at hw; omega) (.inl rfl)
      · have hfacts := h.facts; resize_close
      · have hfacts := h.facts; resize_close
      · have hfacts := h.facts; resize_close
      · have hfacts := h.facts; resize_close
      · resize_local
    · rename_i hne
      exact absurd (by simp; omega) hne
  · injection hs with hs; subst hs
    refine h.upd hl rfl rfl rfl rfl rfl rfl rfl rfl rfl rfl ?_ ?_ ?_ ?_ ?_ (.of_eq rfl) (.inl rfl)
    · have hfacts := h.facts; resize_close
    · have hfacts := h.facts; resize_close
    · have hfacts := h.facts; resize_close
    · have hfacts := h.facts; resize_close
    · resize_local

/-! ### the two join paths -/

theorem Inv.step_helpCheckNext {c : Nat} (h : Inv n0 nthreads stride s)
    (hl : s.threads[t]? = some l) (hpc : l.pc = .helpCheckNext)
    (hs : step s t c = some s') : Inv n0 nthreads stride s' := by
  have hL := h.locals t l hl
  simp only [LocalOk, hpc] at hL
  simp only [step, hl, hpc] at hs
  split at hs
  · injection hs with hs; subst hs
    refine h.upd hl rfl rfl rfl rfl rfl rfl rfl rfl rfl rfl ?_ ?_ ?_ ?_ ?_ (.of_eq rfl) (.inl rfl)
    · have hfacts := h.facts; resize_close
    · have hfacts := h.facts; resize_close
    · have hfacts := h.facts; resize_close
    · have hfacts := h.facts; resize_close
    · resize_local
  · injection hs with hs; subst hs
    refine h.upd hl rfl rfl rfl rfl rfl rfl rfl rfl rfl rfl ?_ ?_ ?_ ?_ ?_ (.of_eq rfl) (.inl rfl)
    · have hfacts := h.facts; resize_close
    · have hfacts := h.facts; resize_close
    · have hfacts := h.facts; resize_close
    · have hfacts := h.facts; resize_close
    · resize_local

theorem Inv.step_helpCheckTable {c : Nat} (h : Inv n0 nthreads stride s)
    (hl : s.threads[t]? = some l) (hpc : l.pc = .helpCheckTable)
    (hs : step s t c = some s') : Inv n0 nthreads stride s' := by
  have hL := h.locals t l hl
  simp only [LocalOk, hpc] at hL
  simp only [step, hl, hpc] at hs
  split at hs
  · injection hs with hs; subst hs
    refine h.upd hl rfl rfl rfl rfl rfl rfl rfl rfl rfl rfl ?_ ?_ ?_ ?_ ?_ (.of_eq rfl) (.inl rfl)
    · have hfacts := h.facts; resize_close
    · have hfacts := h.facts; resize_close
    · have hfacts := h.facts; resize_close
    · have hfacts := h.facts; resize_close
    · resize_local
  · injection hs with hs; subst hs
    refine h.upd hl rfl rfl rfl rfl rfl rfl rfl rfl rfl rfl ?_ ?_ ?_ ?_ ?_ (.of_eq rfl) (.inl rfl)
    · have hfacts := h.facts; resize_close
    · have hfacts := h.facts; resize_close
    · have hfacts := h.facts; resize_close
    · have hfacts := h.facts; resize_close
    · resize_local

theorem Inv.step_helpLoadSc {c : Nat} (h : Inv n0 nthreads stride s)
    (hl : s.threads[t]? = some l) (hpc : l.pc = .helpLoadSc)
    (hs : step s t c = some s') : Inv n0 nthreads stride s' := by
  have hL := h.locals t l hl
  simp only [LocalOk, hpc] at hL
  simp only [step, hl, hpc, h.check_eq] at hs
  split at hs
  · injection hs with hs; subst hs
    refine h.upd hl rfl rfl rfl rfl rfl rfl rfl rfl rfl rfl ?_ ?_ ?_ ?_ ?_ (.of_eq rfl) (.inl rfl)
    · have hfacts := h.facts; resize_close
    · have hfacts := h.facts; resize_close
    · have hfacts := h.facts; resize_close
    · have hfacts := h.facts; resize_close
    · resize_local
  · split at hs
    · injection hs with hs; subst hs
      refine h.upd hl rfl rfl rfl rfl rfl rfl rfl rfl rfl rfl ?_ ?_ ?_ ?_ ?_ (.of_eq rfl) (.inl rfl)
      · have hfacts := h.facts; resize_close
      · have hfacts := h.facts; resize_close
      · have hfacts := h.facts; resize_close
      · have hfacts := h.facts; resize_close
      · resize_local
    · injection hs with hs; subst hs
      rename_i g k hsc href
      have href : g = l.heldGen ∧ k ≠ 1 := by
        simp [helpRefuses] at href; exact ⟨href.1, (href.2 href.1).2⟩
      refine h.upd hl rfl rfl rfl rfl rfl rfl rfl rfl rfl rfl ?_ ?_ ?_ ?_ ?_ (.of_eq rfl) (.inl rfl)
      · have hfacts := h.facts; resize_close
      · have hfacts := h.facts; resize_close
      · have hfacts := h.facts; resize_close
      · have hfacts := h.facts; resize_close
      · exact ⟨hL, g, k, rfl, Nat.le_of_eq href.1, fun h1 => absurd h1 href.2⟩

theorem Inv.step_helpLoadIndex {sc : SC} {c : Nat} (h : Inv n0 nthreads stride s)
    (hl : s.threads[t]? = some l) (hpc : l.pc = .helpLoadIndex sc)
    (hs : step s t c = some s') : Inv n0 nthreads stride s' := by
  have hL := h.locals t l hl
  simp only [LocalOk, hpc] at hL
  have hfin := hL.1
  simp only [step, hl, hpc] at hs
  split at hs
  · injection hs with hs; subst hs
    refine h.upd hl rfl rfl rfl rfl rfl rfl rfl rfl rfl rfl ?_ ?_ ?_ ?_ ?_ (.of_eq rfl) (.inl rfl)
    · have hfacts := h.facts; resize_close
    · have hfacts := h.facts; resize_close
    · have hfacts := h.facts; resize_close
    · have hfacts := h.facts; resize_close
    · resize_local
  · injection hs with hs; subst hs
    refine h.upd hl rfl rfl rfl rfl rfl rfl rfl rfl rfl rfl ?_ ?_ ?_ ?_ ?_ (.of_eq rfl) (.inl rfl)
    · have hfacts := h.facts; resize_close
    · have hfacts := h.facts; resize_close
    · have hfacts := h.facts; resize_close
    · have hfacts := h.facts; resize_close
    · exact hL

theorem Inv.step_acLoadTable {sc : SC} {c : Nat} (h : Inv n0 nthreads stride s)
    (hl : s.threads[t]? = some l) (hpc : l.pc = .acLoadTable sc)
    (hs : step s t c = some s') : Inv n0 nthreads stride s' := by
  have hL := h.locals t l hl
  simp only [LocalOk, hpc] at hL
  obtain ⟨hfin, g, k, rfl, hgk⟩ := hL
  simp only [step, hl, hpc] at hs
  split at hs
  · injection hs with hs; subst hs
    refine h.upd hl rfl rfl rfl rfl rfl rfl rfl rfl rfl rfl ?_ ?_ ?_ ?_ ?_ (.of_eq rfl) (.inr rfl)
    · have hfacts := h.facts; resize_close
    · have hfacts := h.facts; resize_close
    · have hfacts := h.facts; resize_close
    · have hfacts := h.facts; resize_close
    · resize_local
  · injection hs with hs; subst hs
    rename_i href
    have href : k = 1 → g < s.gen := by
      intro h1; simp [acRefuses, h1] at href; omega
    refine h.upd hl rfl rfl rfl rfl rfl rfl rfl rfl rfl rfl ?_ ?_ ?_ ?_ ?_ (.of_eq rfl) (.inr rfl)
    · have hfacts := h.facts; resize_close
    · have hfacts := h.facts; resize_close
    · have hfacts := h.facts; resize_close
    · have hfacts := h.facts; resize_close
    · exact ⟨hfin, g, k, rfl, hgk, href⟩

theorem Inv.step_acLoadNext {sc : SC} {c : Nat} (h : Inv n0 nthreads stride s)
    (hl : s.threads[t]? = some l) (hpc : l.pc = .acLoadNext sc)
    (hs : step s t c = some s') : Inv n0 nthreads stride s' := by
  have hL := h.locals t l hl
  simp only [LocalOk, hpc] at hL
  obtain ⟨hfin, g, k, rfl, hgk, hk1⟩ := hL
  have hheld := h.held_le t l hl
  simp only [step, hl, hpc] at hs
  split at hs
  · injection hs with hs; subst hs
    rename_i hnt
    have hw : k = 1 → s.sizeCtl ≠ .resizing g 1 := by
      intro h1 hword
      have h2 := h.gen_eq g 1 hword
      have h3 := hk1 h1
      have := h.S_pos_nextTable (by omega)
      simp [this] at hnt
    refine h.upd hl rfl rfl rfl rfl rfl rfl rfl rfl rfl rfl ?_ ?_ ?_ ?_ ?_ (.of_eq rfl) (.inl rfl)
    · have hfacts := h.facts; resize_close
    · have hfacts := h.facts; resize_close
    · have hfacts := h.facts; resize_close
    · have hfacts := h.facts; resize_close
    · exact ⟨hfin, g, k, rfl, hgk, fun h1 => ⟨hk1 h1, hw h1⟩⟩
  · injection hs with hs; subst hs
    refine h.upd hl rfl rfl rfl rfl rfl rfl rfl rfl rfl rfl ?_ ?_ ?_ ?_ ?_ (.of_eq rfl) (.inl rfl)
    · have hfacts := h.facts; resize_close
    · have hfacts := h.facts; resize_close
    · have hfacts := h.facts; resize_close
    · have hfacts := h.facts; resize_close
    · resize_local

theorem Inv.step_acLoadIndex {sc : SC} {c : Nat} (h : Inv n0 nthreads stride s)
    (hl : s.threads[t]? = some l) (hpc : l.pc = .acLoadIndex sc)
    (hs : step s t c = some s') : Inv n0 nthreads stride s' := by
  have hL := h.locals t l hl
  simp only [LocalOk, hpc] at hL
  have hfin := hL.1
  simp only [step, hl, hpc] at hs
  split at hs
  · injection hs with hs; subst hs
    refine h.upd hl rfl rfl rfl rfl rfl rfl rfl rfl rfl rfl ?_ ?_ ?_ ?_ ?_ (.of_eq rfl) (.inl rfl)
    · have hfacts := h.facts; resize_close
    · have hfacts := h.facts; resize_close
    · have hfacts := h.facts; resize_close
    · have hfacts := h.facts; resize_close
    · resize_local
  · injection hs with hs; subst hs
    refine h.upd hl rfl rfl rfl rfl rfl rfl rfl rfl rfl rfl ?_ ?_ ?_ ?_ ?_ (.of_eq rfl) (.inl rfl)
    · have hfacts := h.facts; resize_close
    · have hfacts := h.facts; resize_close
    · have hfacts := h.facts; resize_close
    · have hfacts := h.facts; resize_close
    · exact hL

theorem Inv.step_claimLoad {c : Nat} (h : Inv n0 nthreads stride s)
    (hl : s.threads[t]? = some l) (hpc : l.pc = .claimLoad)
    (hs : step s t c = some s') : Inv n0 nthreads stride s' := by
  have hL := h.locals t l hl
  simp only [LocalOk, hpc] at hL
  simp only [step, hl, hpc] at hs
  split at hs
  · injection hs with hs; subst hs
    refine h.upd hl rfl rfl rfl rfl rfl rfl rfl rfl rfl rfl ?_ ?_ ?_ ?_ ?_ (.of_eq rfl) (.inl rfl)
    · have hfacts := h.facts; resize_close
    · have hfacts := h.facts; resize_close
    · have hfacts := h.facts; resize_close
    · have hfacts := h.facts; resize_close
    · resize_local
  · split at hs
    · injection hs with hs; subst hs
      refine h.upd hl rfl rfl rfl rfl rfl rfl rfl rfl rfl rfl ?_ ?_ ?_ ?_ ?_ (.of_eq rfl) (.inl rfl)
      · have hfacts := h.facts; resize_close
      · have hfacts := h.facts; resize_close
      · have hfacts := h.facts; resize_close
      · have hfacts := h.facts; resize_close
      · resize_local
    · split at hs
      · injection hs with hs; subst hs
        refine h.upd hl rfl rfl rfl rfl rfl rfl rfl rfl rfl rfl ?_ ?_ ?_ ?_ ?_ (.of_eq rfl) (.inl rfl)
        · have hfacts := h.facts; resize_close
        · have hfacts := h.facts; resize_close
        · have hfacts := h.facts; resize_close
        · have hfacts := h.facts; resize_close
        · resize_local
      · injection hs with hs; subst hs
        refine h.upd hl rfl rfl rfl rfl rfl rfl rfl rfl rfl rfl ?_ ?_ ?_ ?_ ?_ (.of_eq rfl) (.inl rfl)
        · have hfacts := h.facts; resize_close
        · have hfacts := h.facts; resize_close
        · have hfacts := h.facts; resize_close
        · have hfacts := h.facts; resize_close
        · resize_local

theorem Inv.step_claimCas {ni : Int} {c : Nat} (h : Inv n0 nthreads stride s)
    (hl : s.threads[t]? = some l) (hpc : l.pc = .claimCas ni)
    (hs : step s t c = some s') : Inv n0 nthreads stride s' := by
  have hL := h.locals t l hl
  simp only [LocalOk, hpc] at hL
  simp only [step, hl, hpc] at hs
  split at hs
  · injection hs with hs; subst hs
    refine h.upd hl rfl rfl rfl rfl rfl rfl rfl rfl rfl rfl ?_ ?_ ?_ ?_ ?_ (.of_eq rfl) (.inl rfl)
    · have hfacts := h.facts; resize_close
    · have hfacts := h.facts; resize_close
    · have hfacts := h.facts; resize_close
    · have hfacts := h.facts; resize_close
    · resize_local
  · injection hs with hs; subst hs
    refine h.upd hl rfl rfl rfl rfl rfl rfl rfl rfl rfl rfl ?_ ?_ ?_ ?_ ?_ (.of_eq rfl) (.inl rfl)
    · have hfacts := h.facts; resize_close
    · have hfacts := h.facts; resize_close
    · have hfacts := h.facts; resize_close
    · have hfacts := h.facts; resize_close
    · resize_local

theorem Inv.step_dispatch {c : Nat} (h : Inv n0 nthreads stride s)
    (hl : s.threads[t]? = some l) (hpc : l.pc = .dispatch)
    (hs : step s t c = some s') : Inv n0 nthreads stride s' := by
  have hL := h.locals t l hl
  simp only [LocalOk, hpc] at hL
  simp only [step, hl, hpc] at hs
  split at hs
  · split at hs
    · injection hs with hs; subst hs
      refine h.upd hl rfl rfl rfl rfl rfl rfl rfl rfl rfl rfl ?_ ?_ ?_ ?_ ?_ (.of_eq rfl) (.inl rfl)
      · have hfacts := h.facts; resize_close
      · have hfacts := h.facts; resize_close
      · have hfacts := h.facts; resize_close
      · have hfacts := h.facts; resize_close
      · resize_local
    · injection hs with hs; subst hs
      refine h.upd hl rfl rfl rfl rfl rfl rfl rfl rfl rfl rfl ?_ ?_ ?_ ?_ ?_ (.of_eq rfl) (.inl rfl)
      · have hfacts := h.facts; resize_close
      · have hfacts := h.facts; resize_close
      · have hfacts := h.facts; resize_close
      · have hfacts := h.facts; resize_close
      · resize_local
  · injection hs with hs; subst hs
    refine h.upd hl rfl rfl rfl rfl rfl rfl rfl rfl rfl rfl ?_ ?_ ?_ ?_ ?_ (.of_eq rfl) (.inl rfl)
    · have hfacts := h.facts; resize_close
    · have hfacts := h.facts; resize_close
    · have hfacts := h.facts; resize_close
    · have hfacts := h.facts; resize_close
    · resize_local

theorem Inv.step_leaveLoad {c : Nat} (h : Inv n0 nthreads stride s)
    (hl : s.threads[t]? = some l) (hpc : l.pc = .leaveLoad)
    (hs : step s t c = some s') : Inv n0 nthreads stride s' := by
  have hL := h.locals t l hl
  simp only [LocalOk, hpc] at hL
  simp only [step, hl, hpc] at hs
  injection hs with hs; subst hs
  refine h.upd hl rfl rfl rfl rfl rfl rfl rfl rfl rfl rfl ?_ ?_ ?_ ?_ ?_ (.of_eq rfl) (.inl rfl)
  · have hfacts := h.facts; resize_close
  · have hfacts := h.facts; resize_close
  · have hfacts := h.facts; resize_close
  · have hfacts := h.facts; resize_close
  · resize_local


theorem Inv.step_leaveCas {sc : SC} {c : Nat} (h : Inv n0 nthreads stride s)
    (hl : s.threads[t]? = some l) (hpc : l.pc = .leaveCas sc)
    (hs : step s t c = some s') : Inv n0 nthreads stride s' := by
  have hL := h.locals t l hl
  simp only [LocalOk, hpc] at hL
  have hp : participating l = true := by simp [participating, hpc, hL]
  obtain ⟨k, hsc, hk, hk2, hF, hS⟩ := h.part_facts hl hp
  simp only [step, hl, hpc] at hs
  split at hs
  · have : sc = .resizing s.gen k := by simp_all
    subst this
    simp only at hs
    split at hs
    · injection hs with hs; subst hs
      refine h.upd hl rfl rfl rfl rfl rfl rfl rfl rfl rfl rfl ?_ ?_ ?_ ?_ ?_ (by intro g hg hw; simp at hw; omega) (.inl rfl)
      · have hfacts := h.facts; resize_close
      · have hfacts := h.facts; resize_close
      · have hfacts := h.facts; resize_close
      · have hfacts := h.facts; resize_close
      · resize_local
    · injection hs with hs; subst hs
      refine h.upd hl rfl rfl rfl rfl rfl rfl rfl rfl rfl rfl ?_ ?_ ?_ ?_ ?_ (by intro g hg hw; simp at hw; omega) (.inl rfl)
      · have hfacts := h.facts; resize_close
      · have hfacts := h.facts; resize_close
      · have hfacts := h.facts; resize_close
      · have hfacts := h.facts; resize_close
      · resize_local
  · injection hs with hs; subst hs
    refine h.upd hl rfl rfl rfl rfl rfl rfl rfl rfl rfl rfl ?_ ?_ ?_ ?_ ?_ (.of_eq rfl) (.inl rfl)
    · have hfacts := h.facts; resize_close
    · have hfacts := h.facts; resize_close
    · have hfacts := h.facts; resize_close
    · have hfacts := h.facts; resize_close
    · resize_local

theorem Inv.step_pubStoreCtl {c : Nat} (h : Inv n0 nthreads stride s)
    (hl : s.threads[t]? = some l) (hpc : l.pc = .pubStoreCtl)
    (hs : step s t c = some s') : Inv n0 nthreads stride s' := by
  have hL := h.locals t l hl
  simp only [LocalOk, hpc] at hL
  have hp : isFinisher l = true := by simp [isFinisher, hpc]
  obtain ⟨⟨g, hsc⟩, hP, hF⟩ := h.fin_facts hl hp
  simp only [step, hl, hpc] at hs
  injection hs with hs; subst hs
  refine h.upd hl rfl rfl rfl rfl rfl rfl rfl rfl rfl rfl ?_ ?_ ?_ ?_ ?_ (by intro g hg hw; simp at hw) (.inl rfl)
  · have hfacts := h.facts; resize_close
  · have hfacts := h.facts; resize_close
  · have hfacts := h.facts; resize_close
  · have hfacts := h.facts; resize_close
  · resize_local


theorem Inv.step_swapNext {c : Nat} (h : Inv n0 nthreads stride s)
    (hl : s.threads[t]? = some l) (hpc : l.pc = .swapNext)
    (hs : step s t c = some s') : Inv n0 nthreads stride s' := by
  have hL := h.locals t l hl
  simp only [LocalOk, hpc] at hL
  have hp : participating l = true := by simp [participating, hpc, hL]
  obtain ⟨k, hsc, hk, hk2, hF, hS⟩ := h.part_facts hl hp
  simp only [step, hl, hpc] at hs
  injection hs with hs; subst hs
  refine h.upd' hl rfl rfl rfl rfl h.n_eq h.pub_eq h.moved_len h.migr_eq ?_ ?_ ?_ ?_ ?_ ?_
    (Nat.le_refl _) (h.held_le t l hl)
  · have hfacts := h.facts; resize_close
  · have hfacts := h.facts; resize_close
  · have hfacts := h.facts; resize_close
  · have hfacts := h.facts; resize_close
  · resize_local
  · intro u lu _ hu hlu
    have hnf : isFinisher lu = false := by
      have : ∀ a ∈ s.threads, ¬ isFinisher a = true := List.countP_eq_zero.mp hF
      simpa using this lu (List.mem_of_getElem? hu)
    exact hlu.frame_nf hnf rfl (fun _ h => h) rfl (h.held_le u lu hu) (.of_eq rfl)

theorem Inv.step_pubClearNext {c : Nat} (h : Inv n0 nthreads stride s)
    (hl : s.threads[t]? = some l) (hpc : l.pc = .pubClearNext)
    (hs : step s t c = some s') : Inv n0 nthreads stride s' := by
  have hL := h.locals t l hl
  simp only [LocalOk, hpc] at hL
  have hp : isFinisher l = true := by simp [isFinisher, hpc]
  obtain ⟨⟨g, hsc⟩, hP, hF⟩ := h.fin_facts hl hp
  simp only [step, hl, hpc] at hs
  injection hs with hs; subst hs
  refine h.upd' hl rfl rfl rfl rfl h.n_eq h.pub_eq h.moved_len h.migr_eq ?_ ?_ ?_ ?_ ?_ ?_
    (Nat.le_refl _) (h.held_le t l hl)
  · have hfacts := h.facts; resize_close
  · have hfacts := h.facts; resize_close
  · have hfacts := h.facts; resize_close
  · have hfacts := h.facts; resize_close
  · resize_local
  · intro u lu hne hu hlu
    exact hlu.quiet (h.others_quiet hl hp hne hu) (Nat.le_refl _) (h.held_le u lu hu) (.of_eq rfl)

theorem Inv.step_pubSwapTable {c : Nat} (h : Inv n0 nthreads stride s)
    (hl : s.threads[t]? = some l) (hpc : l.pc = .pubSwapTable)
    (hs : step s t c = some s') : Inv n0 nthreads stride s' := by
  have hL := h.locals t l hl
  simp only [LocalOk, hpc] at hL
  have hp : isFinisher l = true := by simp [isFinisher, hpc]
  obtain ⟨⟨g, hsc⟩, hP, hF⟩ := h.fin_facts hl hp
  simp only [step, hl, hpc] at hs
  injection hs with hs; subst hs
  refine h.upd' hl rfl rfl rfl rfl ?_ ?_ ?_ ?_ ?_ ?_ ?_ ?_ ?_ ?_ (Nat.le_succ _)
    (Nat.le_succ_of_le (h.held_le t l hl))
  · show 2 * s.n = n0 * 2 ^ (s.gen + 1)
    rw [h.n_eq, Nat.pow_succ]; simp [Nat.mul_comm, Nat.mul_left_comm]
  · show bumpPublished s.published s.gen = List.replicate (s.gen + 1) 1
    simp only [h.pub_eq, bumpPublished]
    simp [List.replicate_succ']
  · simp
  · simp
  · have hfacts := h.facts; resize_close
  · have hfacts := h.facts; resize_close
  · have hfacts := h.facts; resize_close
  · have hfacts := h.facts; resize_close
  · resize_local
  · intro u lu hne hu hlu
    exact hlu.quiet (h.others_quiet hl hp hne hu) (Nat.le_succ _) (h.held_le u lu hu) (.of_eq rfl)

theorem Inv.step_processBin {c : Nat} (h : Inv n0 nthreads stride s)
    (hl : s.threads[t]? = some l) (hpc : l.pc = .processBin)
    (hs : step s t c = some s') : Inv n0 nthreads stride s' := by
  have hL := h.locals t l hl
  simp only [LocalOk, hpc] at hL
  obtain ⟨hi0, hin, hmf⟩ := hL
  have hlen := h.moved_len
  have hidx : l.i.toNat < s.moved.length := by omega
  have hdd := getD_true_eq_false hidx
  simp only [step, hl, hpc] at hs
  split at hs
  · injection hs with hs; subst hs
    refine h.upd hl rfl rfl rfl rfl rfl rfl rfl rfl rfl rfl ?_ ?_ ?_ ?_ ?_ (.of_eq rfl) (.inl rfl)
    · have hfacts := h.facts; resize_close
    · have hfacts := h.facts; resize_close
    · have hfacts := h.facts; resize_close
    · have hfacts := h.facts; resize_close
    · simp only [LocalOk, MovedFrom, setT] at *
      intro hf
      refine ⟨trivial, by omega, ?_⟩
      intro idx h1 h2
      by_cases h3 : l.i < (idx : Int)
      · exact hmf hf idx (by omega) h2
      · have : idx = l.i.toNat := by omega
        subst this; rw [← hdd]; assumption
  · injection hs with hs; subst hs
    have hmono : ∀ idx, s.moved.getD idx false = true →
        (s.moved.set l.i.toNat true).getD idx false = true := by
      intro idx; simp [List.getD, List.getElem?_set]; grind
    refine h.upd' hl rfl rfl rfl rfl h.n_eq h.pub_eq (by simp [setT, h.moved_len]) ?_ ?_ ?_ ?_ ?_ ?_ ?_
      (Nat.le_refl _) (h.held_le t l hl)
    · simp only [h.migr_eq, List.map_set]
      congr 1
      rename_i hnm
      rw [hdd] at hnm
      simp [List.getD, hidx] at hnm ⊢
      simp [hnm]
    · have hfacts := h.facts; resize_close
    · have hfacts := h.facts; resize_close
    · have hfacts := h.facts; resize_close
    · have hfacts := h.facts; resize_close
    · simp only [LocalOk, MovedFrom, setT] at *
      intro hf
      refine ⟨trivial, by omega, ?_⟩
      intro idx h1 h2
      by_cases h3 : l.i < (idx : Int)
      · exact hmono idx (hmf hf idx (by omega) h2)
      · have : idx = l.i.toNat := by omega
        subst this; simp [List.getD, hidx]
    · intro u lu _ hu hlu
      exact hlu.frame rfl rfl hmono rfl (h.held_le u lu hu) (.of_eq rfl)


/-! ## `Inv` is inductive -/

theorem Inv.step {c : Nat} (h : Inv n0 nthreads stride s) (hs : step s t c = some s') :
    Inv n0 nthreads stride s' := by
  cases hl : s.threads[t]? with
  | none => simp [Resize.step, hl] at hs
  | some l =>
    cases hpc : l.pc with
    | idle => exact h.step_idle hl hpc hs
    | casInit sc => exact h.step_casInit hl hpc hs
    | swapNext => exact h.step_swapNext hl hpc hs
    | storeIndex => exact h.step_storeIndex hl hpc hs
    | casJoin sc => exact h.step_casJoin hl hpc hs
    | helpCheckNext => exact h.step_helpCheckNext hl hpc hs
    | helpCheckTable => exact h.step_helpCheckTable hl hpc hs
    | helpLoadSc => exact h.step_helpLoadSc hl hpc hs
    | helpLoadIndex sc => exact h.step_helpLoadIndex hl hpc hs
    | acLoadTable sc => exact h.step_acLoadTable hl hpc hs
    | acLoadNext sc => exact h.step_acLoadNext hl hpc hs
    | acLoadIndex sc => exact h.step_acLoadIndex hl hpc hs
    | claimLoad => exact h.step_claimLoad hl hpc hs
    | claimCas ni => exact h.step_claimCas hl hpc hs
    | dispatch => exact h.step_dispatch hl hpc hs
    | processBin => exact h.step_processBin hl hpc hs
    | leaveLoad => exact h.step_leaveLoad hl hpc hs
    | leaveCas sc => exact h.step_leaveCas hl hpc hs
    | pubClearNext => exact h.step_pubClearNext hl hpc hs
    | pubSwapTable => exact h.step_pubSwapTable hl hpc hs
    | pubStoreCtl => exact h.step_pubStoreCtl hl hpc hs

theorem Reachable.inv {n nthreads stride : Nat} {s : State} (h : Reachable n nthreads stride s) :
    Inv n nthreads stride s := by
  induction h with
  | init => exact Inv.init n nthreads stride
  | step t c _ hs ih => exact ih.step hs

end Flurry.Proto.Resize
