import Flurry.Lemmas.BinGNPStep
/-! # Proto/BinGN: `step` in normal form (port of `Lemmas/BinGStepN.lean`)

`step_stepN`: every transition of `step = stepG true` is one of the transitions listed by `StepN`
(`Lemmas/BinGNPStep.lean`). The proof dissects `stepG` program counter by program counter, as
`step_stepK` (`Lemmas/BinKStep.lean`) does for `Proto/BinK`. -/
namespace Flurry.Proto.BinGNP
open Flurry.Lin
open Flurry.Proto.BinK (nodeAt binAt lockSet isInsert)

theorem setT_self {s : State} {t : Nat} {l : Local} (hl : s.threads[t]? = some l) : setT s t l = s := by
  unfold setT
  obtain ⟨ht, rfl⟩ := List.getElem?_eq_some_iff.1 hl
  rw [List.set_getElem_self]

/-- the cell of a key does not depend on the clock -/
theorem cellOf_tick (s : State) (g : Nat) (k : Nat) : cellOf (tick s) g k = cellOf s g k := rfl

theorem step_stepN {s s' : State} {t : Nat} {l : Local} {inv : Option (Nat × KOp)} {lo : Bool}
    {mt : Option Nat} {rz sm sm2 : Bool} {pick : Nat}
    (hl : s.threads[t]? = some l) (hs : step s t inv lo mt rz sm sm2 pick = some s') : StepN s t l s' := by
  obtain ⟨heap, tbins, tabs, cur, resizing, threads, hist, now⟩ := s
  unfold step stepG at hs
  simp only at hl
  simp only [hl] at hs
  obtain ⟨pc, call⟩ := l
  cases pc with
  | idle =>
    simp only at hs
    cases rz with
    | true =>
      simp only [if_true] at hs
      cases resizing with
      | true =>
        simp only [if_true, Option.some.injEq] at hs
        subst hs
        have : tick (⟨heap, tbins, tabs, cur, true, threads, hist, now⟩ : State) = setT (tick (⟨heap, tbins, tabs, cur, true, threads, hist, now⟩ : State)) t ⟨.idle, call⟩ :=
          (setT_self (s := tick (⟨heap, tbins, tabs, cur, true, threads, hist, now⟩ : State)) hl).symm
        show StepN _ t _ (tick (⟨heap, tbins, tabs, cur, true, threads, hist, now⟩ : State))
        rw [this]
        exact .idle rfl
      | false =>
        simp only [Bool.false_eq_true, if_false, Option.some.injEq] at hs
        subst hs
        exact .resizeStart rfl rfl
    | false =>
      simp only [Bool.false_eq_true, if_false] at hs
      cases mt with
      | some k =>
        simp only [Option.some.injEq] at hs
        subst hs
        exact .maint k rfl
      | none =>
        simp only at hs
        cases inv with
        | none =>
          simp only [Option.some.injEq] at hs
          subst hs
          have : tick (⟨heap, tbins, tabs, cur, resizing, threads, hist, now⟩ : State) = setT (tick (⟨heap, tbins, tabs, cur, resizing, threads, hist, now⟩ : State)) t ⟨.idle, call⟩ :=
            (setT_self (s := tick (⟨heap, tbins, tabs, cur, resizing, threads, hist, now⟩ : State)) hl).symm
          show StepN _ t _ (tick (⟨heap, tbins, tabs, cur, resizing, threads, hist, now⟩ : State))
          rw [this]
          exact .idle rfl
        | some ko =>
          obtain ⟨k, op⟩ := ko
          simp only [Option.some.injEq] at hs
          subst hs
          exact .invoke k op lo rfl
  | rTable lo' =>
    cases call with
    | none => simp at hs
    | some p =>
      simp only [Option.some.injEq] at hs
      subst hs
      exact StepN.move p _ _ rfl (by exact .rTable)
  | rCell lo' g =>
    cases call with
    | none => simp at hs
    | some p =>
      simp only at hs
      cases hc : cellOf (⟨heap, tbins, tabs, cur, resizing, threads, hist, now + 1⟩ : State) g p.key with
      | empty =>
        rw [hc] at hs
        simp only [Option.some.injEq] at hs
        subst hs
        exact StepN.fin p _ _ rfl (by exact .rCellEmpty hc)
      | moved =>
        rw [hc] at hs
        simp only [Option.some.injEq] at hs
        subst hs
        exact StepN.move p _ _ rfl (by exact .rCellMoved hc)
      | list h =>
        rw [hc] at hs
        simp only [Option.some.injEq] at hs
        subst hs
        exact StepN.move p _ _ rfl (by exact .rCellList hc)
      | tree b =>
        rw [hc] at hs
        simp only [Option.some.injEq] at hs
        subst hs
        exact StepN.move p _ _ rfl (by exact .rCellTree hc)
  | rNode cur' =>
    cases call with
    | none => simp at hs
    | some p =>
      cases cur' with
      | none =>
        simp only [Option.some.injEq] at hs
        subst hs
        exact StepN.fin p _ _ rfl (by exact .rNodeMiss)
      | some c =>
        simp only at hs
        cases hn : heap[c]? with
        | none => rw [hn] at hs; simp at hs
        | some n =>
          rw [hn] at hs
          simp only at hs
          by_cases hk : n.key = p.key
          · rw [if_pos (by simpa using hk)] at hs
            simp only [Option.some.injEq] at hs
            subst hs
            exact StepN.fin p _ _ rfl (by exact .rNodeHit hn hk)
          · rw [if_neg (by simpa using hk)] at hs
            simp only [Option.some.injEq] at hs
            subst hs
            exact StepN.move p _ _ rfl (by exact .rNodeNext hn hk)
  | rFirst b =>
    cases call with
    | none => simp at hs
    | some p =>
      simp only [Option.some.injEq] at hs
      subst hs
      exact StepN.move p _ _ rfl (by exact .rFirst)
  | rState b cur' =>
    cases call with
    | none => simp at hs
    | some p =>
      cases cur' with
      | none =>
        simp only [Option.some.injEq] at hs
        subst hs
        exact StepN.fin p _ _ rfl (by exact .rMiss)
      | some c =>
        simp only at hs
        by_cases hb : ((tbins.getD b dfltB).writer || (tbins.getD b dfltB).waiter) = true
        · rw [if_pos hb] at hs
          simp only [Option.some.injEq] at hs
          subst hs
          exact StepN.move p _ _ rfl (by exact .rLinMode hb)
        · rw [if_neg hb] at hs
          simp only [Option.some.injEq] at hs
          subst hs
          exact StepN.move p _ _ rfl (by exact .rTreeMode (Bool.eq_false_iff.2 hb))
  | rLin b c =>
    cases call with
    | none => simp at hs
    | some p =>
      simp only at hs
      cases hn : heap[c]? with
      | none => rw [hn] at hs; simp at hs
      | some n =>
        rw [hn] at hs
        simp only at hs
        by_cases hk : n.key = p.key
        · rw [if_pos (by simpa using hk)] at hs
          by_cases hop : p.op = .has
          · rw [hop] at hs
            simp only [Option.some.injEq] at hs
            subst hs
            exact StepN.fin p _ _ rfl (by exact .rLinHas hn hk hop)
          · have : some s' = some (setT (qst (⟨heap, tbins, tabs, cur, resizing, threads, hist, now⟩ : State) heap tbins) t
                { pc := .rVal c, call := some p }) := by
              rw [← hs]
              cases hop' : p.op <;> first | rfl | exact absurd hop' hop
            cases this
            exact StepN.move p _ _ rfl (by exact .rLinHit hn hk hop)
        · rw [if_neg (by simpa using hk)] at hs
          simp only [Option.some.injEq] at hs
          subst hs
          exact StepN.move p _ _ rfl (by exact .rLinNext hn hk)
  | rCas b c r =>
    cases call with
    | none => simp at hs
    | some p =>
      simp only at hs
      by_cases hb : (!(tbins.getD b dfltB).writer && !(tbins.getD b dfltB).waiter &&
          (tbins.getD b dfltB).readers == r) = true
      · rw [if_pos hb] at hs
        simp only [Option.some.injEq] at hs
        subst hs
        simp only [Bool.and_eq_true, Bool.not_eq_eq_eq_not, Bool.not_true, beq_iff_eq] at hb
        exact StepN.bmove p _ _ rfl (by exact .rCasOk hb.1.1 hb.1.2 hb.2)
      · rw [if_neg hb] at hs
        simp only [Option.some.injEq] at hs
        subst hs
        exact StepN.move p _ _ rfl (by exact .rCasFail)
  | rTree b =>
    cases call with
    | none => simp at hs
    | some p =>
      simp only [Option.some.injEq] at hs
      subst hs
      exact StepN.move p _ _ rfl (by exact .rTree)
  | rRelease b hit =>
    cases call with
    | none => simp at hs
    | some p =>
      simp only at hs
      cases hit with
      | none =>
        have : some s' = some (finish (qst (⟨heap, tbins, tabs, cur, resizing, threads, hist, now⟩ : State) heap
            (tbins.modify b (fun x => { x with readers := x.readers - 1 }))) t p (absentRes p.op)) := by
          rw [← hs]
          cases p.op <;> rfl
        cases this
        exact StepN.bfin p _ _ rfl (by exact .rRelNone)
      | some i =>
        by_cases hop : p.op = .has
        · rw [hop] at hs
          simp only [Option.some.injEq] at hs
          subst hs
          exact StepN.bfin p _ _ rfl (by exact .rRelHas hop)
        · have : some s' = some (setT (qst (⟨heap, tbins, tabs, cur, resizing, threads, hist, now⟩ : State) heap
              (tbins.modify b (fun x => { x with readers := x.readers - 1 }))) t
              { pc := .rVal i, call := some p }) := by
            rw [← hs]
            cases hop' : p.op <;> first | rfl | exact absurd hop' hop
          cases this
          exact StepN.bmove p _ _ rfl (by exact .rRelVal hop)
  | rVal i =>
    cases call with
    | none => simp at hs
    | some p =>
      simp only at hs
      cases hn : heap[i]? with
      | none => rw [hn] at hs; simp at hs
      | some n =>
        rw [hn] at hs
        simp only [Option.some.injEq] at hs
        subst hs
        exact StepN.fin p _ _ rfl (by exact .rVal hn)
  | lFirst b =>
    cases call with
    | none => simp at hs
    | some p =>
      simp only [Option.some.injEq] at hs
      subst hs
      exact StepN.move p _ _ rfl (by exact .lFirst)
  | lNode cur' =>
    cases call with
    | none => simp at hs
    | some p =>
      cases cur' with
      | none =>
        simp only [Option.some.injEq] at hs
        subst hs
        exact StepN.fin p _ _ rfl (by exact .lMiss)
      | some c =>
        simp only at hs
        cases hn : heap[c]? with
        | none => rw [hn] at hs; simp at hs
        | some n =>
          rw [hn] at hs
          simp only at hs
          by_cases hk : n.key = p.key
          · rw [if_pos (by simpa using hk)] at hs
            by_cases hop : p.op = .has
            · rw [hop] at hs
              simp only [Option.some.injEq] at hs
              subst hs
              exact StepN.fin p _ _ rfl (by exact .lHas hn hk hop)
            · have : some s' = some (setT (qst (⟨heap, tbins, tabs, cur, resizing, threads, hist, now⟩ : State) heap tbins) t
                  { pc := .rVal c, call := some p }) := by
                rw [← hs]
                cases hop' : p.op <;> first | rfl | exact absurd hop' hop
              cases this
              exact StepN.move p _ _ rfl (by exact .lHit hn hk hop)
          · rw [if_neg (by simpa using hk)] at hs
            simp only [Option.some.injEq] at hs
            subst hs
            exact StepN.move p _ _ rfl (by exact .lNext hn hk)
  | wTable =>
    cases call with
    | none => simp at hs
    | some p =>
      simp only [Option.some.injEq] at hs
      subst hs
      exact StepN.move p _ _ rfl (by exact .wTable)
  | wCell g =>
    cases call with
    | none => simp at hs
    | some p =>
      simp only at hs
      cases hc : cellOf (⟨heap, tbins, tabs, cur, resizing, threads, hist, now + 1⟩ : State) g p.key with
      | empty =>
        rw [hc] at hs
        simp only at hs
        cases hop : p.op <;> rw [hop] at hs <;> simp only [Option.some.injEq] at hs <;> subst hs <;>
          first
          | exact StepN.move p _ _ rfl (by exact .wCellCas hc (by rw [hop]; rfl))
          | exact StepN.fin p _ _ rfl (by exact .wCellEmpty hc (by rw [hop]; rfl))
      | moved =>
        rw [hc] at hs
        simp only [Option.some.injEq] at hs
        subst hs
        exact StepN.move p _ _ rfl (by exact .wCellMoved hc)
      | list h =>
        rw [hc] at hs
        simp only [Option.some.injEq] at hs
        subst hs
        exact StepN.move p _ _ rfl (by exact .wCellList hc)
      | tree b =>
        rw [hc] at hs
        simp only [Option.some.injEq] at hs
        subst hs
        exact StepN.move p _ _ rfl (by exact .wCellTree hc)
  | wCas g =>
    cases call with
    | none => simp at hs
    | some p =>
      simp only at hs
      cases hc : cellOf (⟨heap, tbins, tabs, cur, resizing, threads, hist, now + 1⟩ : State) g p.key with
      | empty =>
        rw [hc] at hs
        cases hop : p.op with
        | ins v vi =>
          rw [hop] at hs
          simp only [Option.some.injEq] at hs
          subst hs
          exact .cas p g v vi rfl rfl hc (Or.inl hop)
        | tryIns v vi =>
          rw [hop] at hs
          simp only [Option.some.injEq] at hs
          subst hs
          exact .cas p g v vi rfl rfl hc (Or.inr hop)
        | get | has | rm | cipInc _ | cipRm =>
          rw [hop] at hs
          simp only [Option.some.injEq] at hs
          subst hs
          exact StepN.move p _ _ rfl (by exact .wCasFail (Or.inr (by rw [hop]; rfl)))
      | moved =>
        have hc' : cellOf (⟨heap, tbins, tabs, cur, resizing, threads, hist, now⟩ : State) g p.key = .moved := hc
        rw [hc] at hs
        cases hop : p.op <;> rw [hop] at hs <;> simp only [Option.some.injEq] at hs <;> subst hs <;>
          exact StepN.move p _ _ rfl (by exact .wCasFail (Or.inl (by rw [hc']; simp)))
      | list h =>
        have hc' : cellOf (⟨heap, tbins, tabs, cur, resizing, threads, hist, now⟩ : State) g p.key = .list h := hc
        rw [hc] at hs
        cases hop : p.op <;> rw [hop] at hs <;> simp only [Option.some.injEq] at hs <;> subst hs <;>
          exact StepN.move p _ _ rfl (by exact .wCasFail (Or.inl (by rw [hc']; simp)))
      | tree b =>
        have hc' : cellOf (⟨heap, tbins, tabs, cur, resizing, threads, hist, now⟩ : State) g p.key = .tree b := hc
        rw [hc] at hs
        cases hop : p.op <;> rw [hop] at hs <;> simp only [Option.some.injEq] at hs <;> subst hs <;>
          exact StepN.move p _ _ rfl (by exact .wCasFail (Or.inl (by rw [hc']; simp)))
  | wLock g h =>
    cases call with
    | none => simp at hs
    | some p =>
      simp only at hs
      cases hn : heap[h]? with
      | none => rw [hn] at hs; simp at hs
      | some n =>
        rw [hn] at hs
        simp only at hs
        cases hlk : n.lock with
        | some x => rw [hlk] at hs; simp at hs
        | none =>
          rw [hlk] at hs
          simp only [Option.isSome_none, Bool.false_eq_true, if_false, Option.some.injEq] at hs
          subst hs
          exact StepN.move p _ _ rfl (by exact .wLock hn hlk)
  | wCheck g h =>
    cases call with
    | none => simp at hs
    | some p =>
      simp only [Bool.not_true, Bool.false_or, beq_iff_eq] at hs
      by_cases hc : cellOf (⟨heap, tbins, tabs, cur, resizing, threads, hist, now + 1⟩ : State) g p.key = .list h
      · rw [if_pos hc] at hs
        simp only [Option.some.injEq] at hs
        subst hs
        exact StepN.move p _ _ rfl (by exact .wCheckOk hc)
      · rw [if_neg hc] at hs
        simp only [Option.some.injEq] at hs
        subst hs
        exact StepN.move p _ _ rfl (by exact .wCheckFail hc)
  | wFind g h pred cur' =>
    cases call with
    | none => simp at hs
    | some p =>
      cases cur' with
      | none =>
        simp only [Option.some.injEq] at hs
        subst hs
        exact StepN.move p _ _ rfl (by exact .wFindEnd)
      | some c =>
        simp only at hs
        cases hn : heap[c]? with
        | none => rw [hn] at hs; simp at hs
        | some n =>
          rw [hn] at hs
          simp only at hs
          by_cases hk : n.key = p.key
          · rw [if_pos (by simpa using hk)] at hs
            simp only [Option.some.injEq] at hs
            subst hs
            exact StepN.move p _ _ rfl (by exact .wFindHit hn hk)
          · rw [if_neg (by simpa using hk)] at hs
            simp only [Option.some.injEq] at hs
            subst hs
            exact StepN.move p _ _ rfl (by exact .wFindNext hn hk)
  | wStore g h pred hit hnext =>
    cases call with
    | none => simp at hs
    | some p =>
      simp only [Option.some.injEq] at hs
      subst hs
      exact .store p g h pred hit hnext rfl rfl
  | wUnlock g h res retry =>
    cases call with
    | none => simp at hs
    | some p =>
      cases retry with
      | true =>
        simp only [if_true, Option.some.injEq] at hs
        subst hs
        exact StepN.move p _ _ rfl (by exact .wUnlockRetry)
      | false =>
        simp only [Bool.false_eq_true, if_false, Option.some.injEq] at hs
        subst hs
        exact StepN.fin p _ _ rfl (by exact .wUnlockFin)
  | tMutex g b =>
    cases call with
    | none => simp at hs
    | some p =>
      simp only at hs
      cases hm : (tbins.getD b dfltB).mutex with
      | some x => rw [hm] at hs; simp at hs
      | none =>
        rw [hm] at hs
        simp only [Option.isSome_none, Bool.false_eq_true, if_false, Option.some.injEq] at hs
        subst hs
        exact StepN.bmove p _ _ rfl (by exact .tMutex hm)
  | tCheck g b =>
    cases call with
    | none => simp at hs
    | some p =>
      simp only [Bool.not_true, Bool.false_or, beq_iff_eq] at hs
      by_cases hc : cellOf (⟨heap, tbins, tabs, cur, resizing, threads, hist, now + 1⟩ : State) g p.key = .tree b
      · rw [if_pos hc] at hs
        simp only [Option.some.injEq] at hs
        subst hs
        exact StepN.move p _ _ rfl (by exact .tCheckOk hc)
      · rw [if_neg hc] at hs
        simp only [Option.some.injEq] at hs
        subst hs
        exact StepN.move p _ _ rfl (by exact .tCheckFail hc)
  | tFind g b =>
    cases call with
    | none => simp at hs
    | some p =>
      simp only at hs
      have htf : treeFind (⟨heap, tbins, tabs, cur, resizing, threads, hist, now + 1⟩ : State) b p.key = treeFind (⟨heap, tbins, tabs, cur, resizing, threads, hist, now⟩ : State) b p.key := rfl
      rw [htf] at hs
      generalize hS : (⟨heap, tbins, tabs, cur, resizing, threads, hist, now⟩ : State) = S at hs htf ⊢
      have habs : ∀ i, treeFind S b p.key = some i → absTree S b p.key = some (nodeAt S.heap i).val := by
        intro i h; unfold absTree; rw [h]
      have habsN : treeFind S b p.key = none → absTree S b p.key = none := by
        intro h; unfold absTree; rw [h]
      cases hop : p.op with
      | get => rw [hop] at hs; cases hs
      | has => rw [hop] at hs; cases hs
      | ins v vi =>
        rw [hop] at hs
        cases hf : treeFind S b p.key with
        | some i =>
          rw [hf] at hs
          simp only [Option.some.injEq] at hs
          subst hs hS
          exact StepN.move p _ _ rfl (by exact .findVal hf (by rw [hop]; rfl))
        | none =>
          rw [hf] at hs
          simp only [Option.some.injEq] at hs
          subst hs hS
          exact StepN.move p _ _ rfl (by exact .findInsert hf (by rw [hop]; rfl))
      | tryIns v vi =>
        rw [hop] at hs
        cases hf : treeFind S b p.key with
        | some i =>
          rw [hf] at hs
          simp only [Option.some.injEq] at hs
          subst hs hS
          refine StepN.move p _ _ rfl (by
            refine .findDone ?_
            rw [habs i hf, hop]
            have : ∀ x : Nat × Nat, specStep (some x) (.tryIns v vi) = (some x, .exists_ x.1 x.2) :=
              fun ⟨_, _⟩ => rfl
            exact this _)
        | none =>
          rw [hf] at hs
          simp only [Option.some.injEq] at hs
          subst hs hS
          exact StepN.move p _ _ rfl (by exact .findInsert hf (by rw [hop]; rfl))
      | rm =>
        rw [hop] at hs
        cases hf : treeFind S b p.key with
        | some i =>
          rw [hf] at hs
          simp only [Option.some.injEq] at hs
          subst hs hS
          exact StepN.move p _ _ rfl (by exact .findRemove hf (by rw [hop]; rfl))
        | none =>
          rw [hf] at hs
          simp only [Option.some.injEq] at hs
          subst hs hS
          exact StepN.move p _ _ rfl (by exact .findDone (by rw [habsN hf, hop]; rfl))
      | cipInc nvi =>
        rw [hop] at hs
        cases hf : treeFind S b p.key with
        | some i =>
          rw [hf] at hs
          simp only [Option.some.injEq] at hs
          subst hs hS
          refine StepN.move p _ _ rfl (by
            refine .findVal hf ?_
            rw [hop]
            have : ∀ x : Nat × Nat, specStep (some x) (.cipInc nvi) =
                (some (x.1 + 1, nvi), .some (x.1 + 1) nvi) := fun ⟨_, _⟩ => rfl
            exact this _)
        | none =>
          rw [hf] at hs
          simp only [Option.some.injEq] at hs
          subst hs hS
          exact StepN.move p _ _ rfl (by exact .findDone (by rw [habsN hf, hop]; rfl))
      | cipRm =>
        rw [hop] at hs
        cases hf : treeFind S b p.key with
        | some i =>
          rw [hf] at hs
          simp only [Option.some.injEq] at hs
          subst hs hS
          exact StepN.move p _ _ rfl (by exact .findRemove hf (by rw [hop]; rfl))
        | none =>
          rw [hf] at hs
          simp only [Option.some.injEq] at hs
          subst hs hS
          exact StepN.move p _ _ rfl (by exact .findDone (by rw [habsN hf, hop]; rfl))
  | tVal g b i v res =>
    cases call with
    | none => simp at hs
    | some p =>
      simp only [Option.some.injEq] at hs
      subst hs
      exact .tval p g b i v res rfl rfl
  | lrTry g b k res =>
    cases call with
    | none => simp at hs
    | some p =>
      simp only at hs
      by_cases hb : (!(tbins.getD b dfltB).writer && !(tbins.getD b dfltB).waiter &&
          (tbins.getD b dfltB).readers == 0) = true
      · rw [if_pos hb] at hs
        simp only [Option.some.injEq] at hs
        subst hs
        simp only [Bool.and_eq_true, Bool.not_eq_eq_eq_not, Bool.not_true, beq_iff_eq] at hb
        exact StepN.bmove p _ _ rfl (by exact .lrTryOk hb.1.1 hb.1.2 hb.2)
      · rw [if_neg hb] at hs
        simp only [Option.some.injEq] at hs
        subst hs
        exact StepN.move p _ _ rfl (by exact .lrTryFail)
  | lrLoop g b k res =>
    cases call with
    | none => simp at hs
    | some p =>
      simp only at hs
      by_cases hb : (!(tbins.getD b dfltB).writer && (tbins.getD b dfltB).readers == 0) = true
      · rw [if_pos hb] at hs
        simp only [Option.some.injEq] at hs
        subst hs
        simp only [Bool.and_eq_true, Bool.not_eq_eq_eq_not, Bool.not_true, beq_iff_eq] at hb
        exact StepN.bmove p _ _ rfl (by exact .lrLoopOk hb.1 hb.2)
      · rw [if_neg hb] at hs
        cases hw : (tbins.getD b dfltB).waiter with
        | true => rw [hw] at hs; simp at hs
        | false =>
          rw [hw] at hs
          simp only [Bool.not_false, if_true, Option.some.injEq] at hs
          subst hs
          exact StepN.bmove p _ _ rfl (by exact .lrLoopWait hw)
  | tPrependLocked g b =>
    cases call with
    | none => simp at hs
    | some p =>
      simp only at hs
      split at hs
      · rename_i v vi hop
        simp only [Option.some.injEq] at hs; subst hs
        exact .prepend p g b v vi rfl rfl (Or.inl hop)
      · rename_i v vi hop
        simp only [Option.some.injEq] at hs; subst hs
        exact .prepend p g b v vi rfl rfl (Or.inr hop)
      · cases hs
  | tTreeLinkLocked g b x =>
    cases call with
    | none => simp at hs
    | some p =>
      simp only [Option.some.injEq] at hs
      subst hs
      exact .treeLink p g b x rfl rfl
  | tUnlinkLocked g b i res =>
    cases call with
    | none => simp at hs
    | some p =>
      simp only [Option.some.injEq] at hs
      subst hs
      exact .unlink p g b i res sm rfl rfl
  | tRestructure g b i res =>
    cases call with
    | none => simp at hs
    | some p =>
      simp only [Option.some.injEq] at hs
      subst hs
      exact .untree p g b i res rfl rfl
  | tUnlockRoot g b res =>
    cases call with
    | none => simp at hs
    | some p =>
      simp only [Option.some.injEq] at hs
      subst hs
      exact StepN.bmove p _ _ rfl (by exact .unlockRoot)
  | tUntreeify g b res =>
    cases call with
    | none => simp at hs
    | some p =>
      simp only [Option.some.injEq] at hs
      subst hs
      exact .untreeify p g b res rfl rfl
  | tUnlockM g b res retry =>
    cases call with
    | none => simp at hs
    | some p =>
      cases retry with
      | true =>
        simp only [if_true, Option.some.injEq] at hs
        subst hs
        exact StepN.bmove p _ _ rfl (by exact .tUnlockMRetry)
      | false =>
        simp only [Bool.false_eq_true, if_false, Option.some.injEq] at hs
        subst hs
        exact StepN.bfin p _ _ rfl (by exact .tUnlockMFin)
  | kTable k =>
    cases call with
    | some p => simp at hs
    | none =>
      simp only [Option.some.injEq] at hs
      subst hs
      exact StepN.kmove _ _ rfl (by exact .kTable)
  | kCell g k =>
    cases call with
    | some p => simp at hs
    | none =>
      simp only at hs
      cases hc : cellOf (⟨heap, tbins, tabs, cur, resizing, threads, hist, now + 1⟩ : State) g k with
      | list h =>
        rw [hc] at hs
        simp only [Option.some.injEq] at hs
        subst hs
        exact StepN.kmove _ _ rfl (by exact .kCellList hc)
      | moved =>
        rw [hc] at hs
        simp only [Option.some.injEq] at hs
        subst hs
        exact StepN.kmove _ _ rfl (by exact .kCellMoved hc)
      | empty =>
        have hc' : cellOf (⟨heap, tbins, tabs, cur, resizing, threads, hist, now⟩ : State) g k = .empty := hc
        rw [hc] at hs
        simp only [Option.some.injEq] at hs
        subst hs
        exact StepN.kmove _ _ rfl (by exact .kCellOther (by intro h; rw [hc']; simp) (by rw [hc']; simp))
      | tree b =>
        have hc' : cellOf (⟨heap, tbins, tabs, cur, resizing, threads, hist, now⟩ : State) g k = .tree b := hc
        rw [hc] at hs
        simp only [Option.some.injEq] at hs
        subst hs
        exact StepN.kmove _ _ rfl (by exact .kCellOther (by intro h; rw [hc']; simp) (by rw [hc']; simp))
  | kLock g k h =>
    cases call with
    | some p => simp at hs
    | none =>
      simp only at hs
      cases hn : heap[h]? with
      | none => rw [hn] at hs; simp at hs
      | some n =>
        rw [hn] at hs
        simp only at hs
        cases hlk : n.lock with
        | some x => rw [hlk] at hs; simp at hs
        | none =>
          rw [hlk] at hs
          simp only [Option.isSome_none, Bool.false_eq_true, if_false, Option.some.injEq] at hs
          subst hs
          exact StepN.kmove _ _ rfl (by exact .kLock hn hlk)
  | kCheck g k h =>
    cases call with
    | some p => simp at hs
    | none =>
      simp only [Bool.not_true, Bool.false_or, beq_iff_eq] at hs
      by_cases hc : cellOf (⟨heap, tbins, tabs, cur, resizing, threads, hist, now + 1⟩ : State) g k = .list h
      · rw [if_pos hc] at hs
        simp only [Option.some.injEq] at hs
        subst hs
        exact StepN.kmove _ _ rfl (by exact .kCheckOk hc)
      · rw [if_neg hc] at hs
        simp only [Option.some.injEq] at hs
        subst hs
        exact StepN.kmove _ _ rfl (by exact .kCheckFail hc)
  | kBuild g k h =>
    cases call with
    | some p => simp at hs
    | none =>
      simp only [Option.some.injEq] at hs
      subst hs
      exact .kbuild g k h rfl rfl
  | kStore g k h b =>
    cases call with
    | some p => simp at hs
    | none =>
      simp only [Option.some.injEq] at hs
      subst hs
      exact .kstore g k h b rfl rfl
  | kUnlock h =>
    cases call with
    | some p => simp at hs
    | none =>
      simp only [Option.some.injEq] at hs
      subst hs
      exact StepN.kmove _ _ rfl (by exact .kUnlock)
  | xNext =>
    cases call with
    | some p => simp at hs
    | none =>
      simp only at hs
      cases ha : allMoved (⟨heap, tbins, tabs, cur, resizing, threads, hist, now + 1⟩ : State) cur with
      | true =>
        rw [ha] at hs
        simp only [if_true, Option.some.injEq] at hs
        subst hs
        exact StepN.kmove _ _ rfl (by exact .xNextCommit ha)
      | false =>
        rw [ha] at hs
        simp only [Bool.false_eq_true, if_false, Option.some.injEq] at hs
        subst hs
        exact StepN.kmove _ _ rfl (by exact .xNextCell ha)
  | xCell j =>
    cases call with
    | some p => simp at hs
    | none =>
      simp only at hs
      cases hc : Flurry.Proto.BinGN.cellAt (⟨heap, tbins, tabs, cur, resizing, threads, hist, now + 1⟩ : State) cur j with
      | empty =>
        rw [hc] at hs
        simp only [Option.some.injEq] at hs
        subst hs
        exact StepN.kmove _ _ rfl (by exact .xCellEmpty hc)
      | list h =>
        rw [hc] at hs
        simp only [Option.some.injEq] at hs
        subst hs
        exact StepN.kmove _ _ rfl (by exact .xCellList hc)
      | tree b =>
        rw [hc] at hs
        simp only [Option.some.injEq] at hs
        subst hs
        exact StepN.kmove _ _ rfl (by exact .xCellTree hc)
      | moved =>
        rw [hc] at hs
        simp only [Option.some.injEq] at hs
        subst hs
        exact StepN.kmove _ _ rfl (by exact .xCellMoved hc)
  | xCasMoved j =>
    cases call with
    | some p => simp at hs
    | none =>
      simp only [beq_iff_eq] at hs
      by_cases hc : Flurry.Proto.BinGN.cellAt (⟨heap, tbins, tabs, cur, resizing, threads, hist, now + 1⟩ : State) cur j = .empty
      · rw [if_pos hc] at hs
        simp only [Option.some.injEq] at hs
        subst hs
        exact .xcasMoved j rfl rfl hc
      · rw [if_neg hc] at hs
        simp only [Option.some.injEq] at hs
        subst hs
        exact StepN.kmove _ _ rfl (by exact .xCasFail hc)
  | xLock j h =>
    cases call with
    | some p => simp at hs
    | none =>
      simp only at hs
      cases hn : heap[h]? with
      | none => rw [hn] at hs; simp at hs
      | some n =>
        rw [hn] at hs
        simp only at hs
        cases hlk : n.lock with
        | some x => rw [hlk] at hs; simp at hs
        | none =>
          rw [hlk] at hs
          simp only [Option.isSome_none, Bool.false_eq_true, if_false, Option.some.injEq] at hs
          subst hs
          exact StepN.kmove _ _ rfl (by exact .xLock hn hlk)
  | xCheck j h =>
    cases call with
    | some p => simp at hs
    | none =>
      simp only [Bool.not_true, Bool.false_or, beq_iff_eq] at hs
      by_cases hc : Flurry.Proto.BinGN.cellAt (⟨heap, tbins, tabs, cur, resizing, threads, hist, now + 1⟩ : State) cur j = .list h
      · rw [if_pos hc] at hs
        simp only [Option.some.injEq] at hs
        subst hs
        exact StepN.kmove _ _ rfl (by exact .xCheckOk hc)
      · rw [if_neg hc] at hs
        simp only [Option.some.injEq] at hs
        subst hs
        exact StepN.kmove _ _ rfl (by exact .xCheckFail hc)
  | xBuild j h =>
    cases call with
    | some p => simp at hs
    | none =>
      simp only [Option.some.injEq] at hs
      subst hs
      exact .xbuild j h rfl rfl
  | yMutex j b =>
    cases call with
    | some p => simp at hs
    | none =>
      simp only at hs
      cases hm : (tbins.getD b dfltB).mutex with
      | some x => rw [hm] at hs; simp at hs
      | none =>
        rw [hm] at hs
        simp only [Option.isSome_none, Bool.false_eq_true, if_false, Option.some.injEq] at hs
        subst hs
        exact StepN.kbmove _ _ rfl (by exact .yMutex hm)
  | yCheck j b =>
    cases call with
    | some p => simp at hs
    | none =>
      simp only [Bool.not_true, Bool.false_or, beq_iff_eq] at hs
      by_cases hc : Flurry.Proto.BinGN.cellAt (⟨heap, tbins, tabs, cur, resizing, threads, hist, now + 1⟩ : State) cur j = .tree b
      · rw [if_pos hc] at hs
        simp only [Option.some.injEq] at hs
        subst hs
        exact StepN.kmove _ _ rfl (by exact .yCheckOk hc)
      · rw [if_neg hc] at hs
        simp only [Option.some.injEq] at hs
        subst hs
        exact StepN.kbmove _ _ rfl (by exact .yCheckFail hc)
  | yBuild j b =>
    cases call with
    | some p => simp at hs
    | none =>
      simp only [Option.some.injEq] at hs
      subst hs
      exact .ybuild j b sm sm2 rfl rfl
  | xStoreLow j unl lo' hi' =>
    cases call with
    | some p => simp at hs
    | none =>
      simp only [Option.some.injEq] at hs
      subst hs
      exact .xstoreLow j unl lo' hi' rfl rfl
  | xStoreHigh j unl hi' =>
    cases call with
    | some p => simp at hs
    | none =>
      simp only [Option.some.injEq] at hs
      subst hs
      exact .xstoreHigh j unl hi' rfl rfl
  | xStoreMoved j unl =>
    cases call with
    | some p => simp at hs
    | none =>
      simp only [Option.some.injEq] at hs
      subst hs
      exact .xstoreMoved j unl rfl rfl
  | xUnlock unl =>
    cases call with
    | some p => simp at hs
    | none =>
      cases unl with
      | inl h =>
        simp only [Option.some.injEq] at hs
        subst hs
        exact StepN.kmove _ _ rfl (by exact .xUnlockL)
      | inr b =>
        simp only [Option.some.injEq] at hs
        subst hs
        exact StepN.kbmove _ _ rfl (by exact .xUnlockT)
  | xCommit =>
    cases call with
    | some p => simp at hs
    | none =>
      simp only [Option.some.injEq] at hs
      subst hs
      exact .xcommit rfl rfl

end Flurry.Proto.BinGNP
