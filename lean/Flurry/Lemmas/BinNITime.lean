import Flurry.Lemmas.BinNITerm
/-! # Proto/BinNI: clocks of the ghost logs; a key that is absent throughout is not yielded (C07)

`TimeInv`: every yield and every end lies in the past; an iteration is identified by its thread and its
creation time (a live iterator was created after every completed iteration of its thread); all yields of a
completed iteration happened before its end. -/
namespace Flurry.Proto.BinNI
open Flurry.Lin
open Flurry.Proto.BinX (NodeS Cell Pending isReader dflt chainFrom cellHead cellOfHead nodeAt nodeAt_of_some get_set chainH)
open Flurry.Proto.BinN (Ghost Inv HInv cellAt)

/-- every transition advances the clock by one -/
theorem step_now {s s' : State} {t : Nat} {mk : Bool} {inv : Option (Nat × KOp)} {rz : Bool} {pick : Nat}
    (hs : step s t mk inv rz pick = some s') : s'.n.now = s.n.now + 1 := by
  obtain ⟨inv', rz', pick', hn⟩ := step_n hs
  cases hl : s.n.threads[t]? with
  | none => unfold BinN.step BinN.stepG at hn; rw [hl] at hn; cases hn
  | some l => exact (stepK_frame (BinN.step_stepK hl hn)).1

theorem Steps.now_le {a b : State} (h : Steps a b) : a.n.now ≤ b.n.now := by
  induction h with
  | refl => exact Nat.le_refl _
  | tail t mk inv rz pick _ hs ih => have := step_now hs; omega

/-- the yields only grow -/
theorem yields_mono {s s' : State} {t : Nat} {mk : Bool} {inv : Option (Nat × KOp)} {rz : Bool} {pick : Nat}
    (hs : step s t mk inv rz pick = some s') : ∀ y ∈ s.yields, y ∈ s'.yields := by
  intro y hy
  rcases step_cases hs with ⟨-, -, n', -, rfl⟩ | ⟨-, -, l, -, -, rfl⟩ | ⟨it, n', -, -, hit⟩
  · exact hy
  · exact hy
  · rcases (iterStep_cases hit).2 with ⟨c, nd, -, -, -, h, -⟩ | ⟨-, -, -, h, -⟩ | ⟨g, j, rest, p, td, -, -, -, h, -⟩
    · rw [h]; exact List.mem_cons_of_mem _ hy
    · rw [h]; exact hy
    · rw [h]; exact hy

structure TimeInv (s : State) : Prop where
  yt : ∀ y ∈ s.yields, y.time ≤ s.n.now
  et : ∀ e ∈ s.ends, e.2.1 ≤ e.2.2 ∧ e.2.2 ≤ s.n.now
  live : ∀ (t : Nat) (it : Iter), s.its[t]? = some (some it) → it.t0 ≤ s.n.now ∧ ∀ e ∈ s.ends, e.1 = t → e.2.2 < it.t0
  ye : ∀ e ∈ s.ends, ∀ y ∈ s.yields, y.tid = e.1 → y.t0 = e.2.1 → y.time ≤ e.2.2

theorem init_time (nt : Nat) : TimeInv (init nt) := by
  refine ⟨(fun y hy => by cases hy), (fun e he => by cases he), ?_, (fun e he => by cases he)⟩
  intro t it h
  have : (List.replicate nt (none : Option Iter))[t]? = some (some it) := h
  rw [List.getElem?_replicate] at this
  split at this <;> cases this

theorem time_step {s s' : State} {t : Nat} {mk : Bool} {inv : Option (Nat × KOp)} {rz : Bool} {pick : Nat}
    (T : TimeInv s) (hs : step s t mk inv rz pick = some s') : TimeInv s' := by
  have hnow := step_now hs
  rcases step_cases hs with ⟨hi, -, n', -, rfl⟩ | ⟨hi, -, l, -, -, rfl⟩ | ⟨it, n', hi, -, hit⟩
  · have hnow' : n'.now = s.n.now + 1 := hnow
    refine ⟨fun y hy => ?_, fun e he => ?_, fun t' it' h => ?_, T.ye⟩
    · have := T.yt y hy; show y.time ≤ n'.now; omega
    · have := T.et e he; exact ⟨this.1, by show e.2.2 ≤ n'.now; omega⟩
    · have := T.live t' it' h; exact ⟨by show it'.t0 ≤ n'.now; omega, this.2⟩
  · refine ⟨fun y hy => ?_, fun e he => ?_, fun t' it' h => ?_, T.ye⟩
    · have := T.yt y hy; show y.time ≤ s.n.now + 1; omega
    · have := T.et e he; exact ⟨this.1, by show e.2.2 ≤ s.n.now + 1; omega⟩
    · rcases get_set h with ⟨rfl, e⟩ | ⟨hne, h⟩
      · cases e
        exact ⟨Nat.le_refl _, fun e he _ => by have := (T.et e he).2; show e.2.2 < s.n.now + 1; omega⟩
      · have := T.live t' it' h; exact ⟨by show it'.t0 ≤ s.n.now + 1; omega, this.2⟩
  · obtain ⟨hsn, hcase⟩ := iterStep_cases hit
    have hL := T.live t it hi
    rcases hcase with ⟨c, nd, hptr, hnd, hits, hyl, hen⟩ | ⟨hptr, htodo, hits, hyl, hen⟩ |
      ⟨g, j, rest, ptr', todo', hptr, htodo, hits, hyl, hen, hcell⟩
    · refine ⟨fun y hy => ?_, fun e he => ?_, fun t' it' h => ?_, fun e he y hy h1 h2 => ?_⟩
      · rw [hyl] at hy
        rcases List.mem_cons.1 hy with rfl | hy
        · show n'.now ≤ s'.n.now; rw [hsn]; exact Nat.le_refl _
        · have := T.yt y hy; omega
      · rw [hen] at he; have := T.et e he; exact ⟨this.1, by omega⟩
      · rw [hits] at h; rw [hen]
        rcases get_set h with ⟨rfl, e⟩ | ⟨hne, h⟩
        · cases e; exact ⟨by show it.t0 ≤ _; omega, hL.2⟩
        · have := T.live t' it' h; exact ⟨by omega, this.2⟩
      · rw [hen] at he; rw [hyl] at hy
        rcases List.mem_cons.1 hy with rfl | hy
        · exfalso
          have k1 := hL.2 e he h1.symm
          have k2 := (T.et e he).1
          have k3 : it.t0 = e.2.1 := h2
          omega
        · exact T.ye e he y hy h1 h2
    · refine ⟨fun y hy => ?_, fun e he => ?_, fun t' it' h => ?_, fun e he y hy h1 h2 => ?_⟩
      · rw [hyl] at hy; have := T.yt y hy; omega
      · rw [hen] at he
        rcases List.mem_cons.1 he with rfl | he
        · exact ⟨by show it.t0 ≤ n'.now; rw [← hsn]; omega, by show n'.now ≤ _; rw [hsn]; exact Nat.le_refl _⟩
        · have := T.et e he; exact ⟨this.1, by omega⟩
      · rw [hits] at h
        rcases get_set h with ⟨rfl, e⟩ | ⟨hne, h⟩
        · cases e
        · have := T.live t' it' h
          refine ⟨by omega, fun e he h1 => ?_⟩
          rw [hen] at he
          rcases List.mem_cons.1 he with rfl | he
          · exact absurd h1.symm hne
          · exact this.2 e he h1
      · rw [hen] at he; rw [hyl] at hy
        rcases List.mem_cons.1 he with rfl | he
        · have := T.yt y hy; show y.time ≤ n'.now; rw [← hsn]; omega
        · exact T.ye e he y hy h1 h2
    · refine ⟨fun y hy => ?_, fun e he => ?_, fun t' it' h => ?_, fun e he y hy h1 h2 => ?_⟩
      · rw [hyl] at hy; have := T.yt y hy; omega
      · rw [hen] at he; have := T.et e he; exact ⟨this.1, by omega⟩
      · rw [hits] at h; rw [hen]
        rcases get_set h with ⟨rfl, e⟩ | ⟨hne, h⟩
        · cases e; exact ⟨by show it.t0 ≤ _; omega, hL.2⟩
        · have := T.live t' it' h; exact ⟨by omega, this.2⟩
      · rw [hen] at he; rw [hyl] at hy; exact T.ye e he y hy h1 h2

theorem reachable_time {nt : Nat} {s : State} (hr : Reachable nt s) : TimeInv s := by
  induction hr with
  | init => exact init_time nt
  | step t mk inv rz pick _ hs ih => exact time_step ih hs

/-- a key that is absent during the whole iteration is not yielded by it -/
theorem absent_not_yielded {nt : Nat} {s : State} (hr : Reachable nt s) {t τ0 τ1 k : Nat}
    (he : (t, τ0, τ1) ∈ s.ends)
    (habs : ∀ s₁, Reachable nt s₁ → Steps s₁ s → τ0 ≤ s₁.n.now → s₁.n.now ≤ τ1 → absOf s₁ k = none) :
    ∀ y ∈ s.yields, y.tid = t → y.t0 = τ0 → y.key ≠ k := by
  intro y hy h1 h2 h3
  obtain ⟨G, I⟩ := reachable_iinv hr
  obtain ⟨τ, k1, k2, s₁, k3, k4, k5, k6⟩ := I.yl y hy
  have := (reachable_time hr).ye _ he y hy h1 h2
  have hn := habs s₁ k3 k4 (by omega) (by show s₁.n.now ≤ τ1; have : y.time ≤ τ1 := this; omega)
  rw [h3] at k6; rw [hn] at k6; cases k6

/-- every yield of key `k` by an iteration during which `k ↦ v` throughout carries `v` -/
theorem yield_of_untouched_val {nt : Nat} {s : State} (hr : Reachable nt s) {t τ0 τ1 k : Nat} {v : Nat × Nat}
    (he : (t, τ0, τ1) ∈ s.ends)
    (hun : ∀ s₁, Reachable nt s₁ → Steps s₁ s → τ0 ≤ s₁.n.now → s₁.n.now ≤ τ1 → absOf s₁ k = some v) :
    ∀ y ∈ s.yields, y.tid = t → y.t0 = τ0 → y.key = k → y.val = v := by
  intro y hy h1 h2 h3
  obtain ⟨G, I⟩ := reachable_iinv hr
  obtain ⟨τ, k1, k2, s₁, k3, k4, k5, k6⟩ := I.yl y hy
  have := (reachable_time hr).ye _ he y hy h1 h2
  have hn := hun s₁ k3 k4 (by omega) (by show s₁.n.now ≤ τ1; have : y.time ≤ τ1 := this; omega)
  rw [h3] at k6; rw [hn] at k6; cases k6; rfl

end Flurry.Proto.BinNI
