import Flurry.Lemmas.BinGNTimeDefs
import Flurry.Lemmas.BinGNStepTools
/-! # Proto/BinGN: threads, calls and times — every reachable state -/
namespace Flurry.Proto.BinGN
open Flurry.Lin

macro "tm_one" T:ident hl:ident : tactic =>
  `(tactic| first
    | exact tinv_move $T $hl rfl rfl rfl rfl ⟨rfl, fun _ => rfl⟩
    | exact tinv_finish $T $hl rfl rfl rfl rfl
    | (split <;> first
        | exact tinv_move $T $hl rfl rfl rfl rfl ⟨rfl, fun _ => rfl⟩
        | (split <;> exact tinv_move $T $hl rfl rfl rfl rfl ⟨rfl, fun _ => rfl⟩)))

macro "tm_all" T:ident hl:ident hs:ident : tactic =>
  `(tactic| (open_step $hs $hl; (try simp only [afterLock] at $hs:ident); repeat' split at $hs:ident
             all_goals first
               | (cases $hs:ident; done)
               | (cases $hs:ident; tm_one $T $hl)))

section
variable {s s' : State} {t : Nat} {inv : Option (Nat × KOp)} {lo : Bool} {mt : Option Nat} {rz sm sm2 : Bool}
  {pick : Nat} {p : Pending} {c : Option Pending}

theorem tm_rTable {x : Bool} (T : TInv s)
    (hl : s.threads[t]? = some { pc := .rTable x, call := some p })
    (hs : step s t inv lo mt rz sm sm2 pick = some s') : TInv s' := by
  tm_all T hl hs

theorem tm_rCell {x : Bool} {g : Nat} (T : TInv s)
    (hl : s.threads[t]? = some { pc := .rCell x g, call := some p })
    (hs : step s t inv lo mt rz sm sm2 pick = some s') : TInv s' := by
  tm_all T hl hs

theorem tm_rFirst {b : Nat} (T : TInv s)
    (hl : s.threads[t]? = some { pc := .rFirst b, call := some p })
    (hs : step s t inv lo mt rz sm sm2 pick = some s') : TInv s' := by
  tm_all T hl hs

theorem tm_rLin {b x : Nat} (T : TInv s)
    (hl : s.threads[t]? = some { pc := .rLin b x, call := some p })
    (hs : step s t inv lo mt rz sm sm2 pick = some s') : TInv s' := by
  tm_all T hl hs

theorem tm_rCas {b x r : Nat} (T : TInv s)
    (hl : s.threads[t]? = some { pc := .rCas b x r, call := some p })
    (hs : step s t inv lo mt rz sm sm2 pick = some s') : TInv s' := by
  tm_all T hl hs

theorem tm_rTree {b : Nat} (T : TInv s)
    (hl : s.threads[t]? = some { pc := .rTree b, call := some p })
    (hs : step s t inv lo mt rz sm sm2 pick = some s') : TInv s' := by
  tm_all T hl hs

theorem tm_rRelease {b : Nat} {x : Option Nat} (T : TInv s)
    (hl : s.threads[t]? = some { pc := .rRelease b x, call := some p })
    (hs : step s t inv lo mt rz sm sm2 pick = some s') : TInv s' := by
  tm_all T hl hs

theorem tm_rVal {x : Nat} (T : TInv s)
    (hl : s.threads[t]? = some { pc := .rVal x, call := some p })
    (hs : step s t inv lo mt rz sm sm2 pick = some s') : TInv s' := by
  tm_all T hl hs

theorem tm_lFirst {b : Nat} (T : TInv s)
    (hl : s.threads[t]? = some { pc := .lFirst b, call := some p })
    (hs : step s t inv lo mt rz sm sm2 pick = some s') : TInv s' := by
  tm_all T hl hs

theorem tm_wTable  (T : TInv s)
    (hl : s.threads[t]? = some { pc := .wTable, call := some p })
    (hs : step s t inv lo mt rz sm sm2 pick = some s') : TInv s' := by
  tm_all T hl hs

theorem tm_wCell {g : Nat} (T : TInv s)
    (hl : s.threads[t]? = some { pc := .wCell g, call := some p })
    (hs : step s t inv lo mt rz sm sm2 pick = some s') : TInv s' := by
  tm_all T hl hs

theorem tm_wCas {g : Nat} (T : TInv s)
    (hl : s.threads[t]? = some { pc := .wCas g, call := some p })
    (hs : step s t inv lo mt rz sm sm2 pick = some s') : TInv s' := by
  tm_all T hl hs

theorem tm_wLock {g h : Nat} (T : TInv s)
    (hl : s.threads[t]? = some { pc := .wLock g h, call := some p })
    (hs : step s t inv lo mt rz sm sm2 pick = some s') : TInv s' := by
  tm_all T hl hs

theorem tm_wCheck {g h : Nat} (T : TInv s)
    (hl : s.threads[t]? = some { pc := .wCheck g h, call := some p })
    (hs : step s t inv lo mt rz sm sm2 pick = some s') : TInv s' := by
  tm_all T hl hs

theorem tm_wUnlock {g h : Nat} {res : KRes} {retry : Bool} (T : TInv s)
    (hl : s.threads[t]? = some { pc := .wUnlock g h res retry, call := some p })
    (hs : step s t inv lo mt rz sm sm2 pick = some s') : TInv s' := by
  tm_all T hl hs

theorem tm_tMutex {g b : Nat} (T : TInv s)
    (hl : s.threads[t]? = some { pc := .tMutex g b, call := some p })
    (hs : step s t inv lo mt rz sm sm2 pick = some s') : TInv s' := by
  tm_all T hl hs

theorem tm_tCheck {g b : Nat} (T : TInv s)
    (hl : s.threads[t]? = some { pc := .tCheck g b, call := some p })
    (hs : step s t inv lo mt rz sm sm2 pick = some s') : TInv s' := by
  tm_all T hl hs

theorem tm_tFind {g b : Nat} (T : TInv s)
    (hl : s.threads[t]? = some { pc := .tFind g b, call := some p })
    (hs : step s t inv lo mt rz sm sm2 pick = some s') : TInv s' := by
  tm_all T hl hs

theorem tm_tVal {g b i : Nat} {v : Nat × Nat} {res : KRes} (T : TInv s)
    (hl : s.threads[t]? = some { pc := .tVal g b i v res, call := some p })
    (hs : step s t inv lo mt rz sm sm2 pick = some s') : TInv s' := by
  tm_all T hl hs

theorem tm_tPrependLocked {g b : Nat} (T : TInv s)
    (hl : s.threads[t]? = some { pc := .tPrependLocked g b, call := some p })
    (hs : step s t inv lo mt rz sm sm2 pick = some s') : TInv s' := by
  tm_all T hl hs

theorem tm_tTreeLinkLocked {g b x : Nat} (T : TInv s)
    (hl : s.threads[t]? = some { pc := .tTreeLinkLocked g b x, call := some p })
    (hs : step s t inv lo mt rz sm sm2 pick = some s') : TInv s' := by
  tm_all T hl hs

theorem tm_tUnlinkLocked {g b i : Nat} {res : KRes} (T : TInv s)
    (hl : s.threads[t]? = some { pc := .tUnlinkLocked g b i res, call := some p })
    (hs : step s t inv lo mt rz sm sm2 pick = some s') : TInv s' := by
  tm_all T hl hs

theorem tm_tRestructure {g b i : Nat} {res : KRes} (T : TInv s)
    (hl : s.threads[t]? = some { pc := .tRestructure g b i res, call := some p })
    (hs : step s t inv lo mt rz sm sm2 pick = some s') : TInv s' := by
  tm_all T hl hs

theorem tm_tUnlockRoot {g b : Nat} {res : KRes} (T : TInv s)
    (hl : s.threads[t]? = some { pc := .tUnlockRoot g b res, call := some p })
    (hs : step s t inv lo mt rz sm sm2 pick = some s') : TInv s' := by
  tm_all T hl hs

theorem tm_tUntreeify {g b : Nat} {res : KRes} (T : TInv s)
    (hl : s.threads[t]? = some { pc := .tUntreeify g b res, call := some p })
    (hs : step s t inv lo mt rz sm sm2 pick = some s') : TInv s' := by
  tm_all T hl hs

theorem tm_tUnlockM {g b : Nat} {res : KRes} {retry : Bool} (T : TInv s)
    (hl : s.threads[t]? = some { pc := .tUnlockM g b res retry, call := some p })
    (hs : step s t inv lo mt rz sm sm2 pick = some s') : TInv s' := by
  tm_all T hl hs

theorem tm_kTable {k : Nat} (T : TInv s)
    (hl : s.threads[t]? = some { pc := .kTable k, call := none })
    (hs : step s t inv lo mt rz sm sm2 pick = some s') : TInv s' := by
  tm_all T hl hs

theorem tm_kCell {g k : Nat} (T : TInv s)
    (hl : s.threads[t]? = some { pc := .kCell g k, call := none })
    (hs : step s t inv lo mt rz sm sm2 pick = some s') : TInv s' := by
  tm_all T hl hs

theorem tm_kLock {g k h : Nat} (T : TInv s)
    (hl : s.threads[t]? = some { pc := .kLock g k h, call := none })
    (hs : step s t inv lo mt rz sm sm2 pick = some s') : TInv s' := by
  tm_all T hl hs

theorem tm_kCheck {g k h : Nat} (T : TInv s)
    (hl : s.threads[t]? = some { pc := .kCheck g k h, call := none })
    (hs : step s t inv lo mt rz sm sm2 pick = some s') : TInv s' := by
  tm_all T hl hs

theorem tm_kBuild {g k h : Nat} (T : TInv s)
    (hl : s.threads[t]? = some { pc := .kBuild g k h, call := none })
    (hs : step s t inv lo mt rz sm sm2 pick = some s') : TInv s' := by
  tm_all T hl hs

theorem tm_kStore {g k h b : Nat} (T : TInv s)
    (hl : s.threads[t]? = some { pc := .kStore g k h b, call := none })
    (hs : step s t inv lo mt rz sm sm2 pick = some s') : TInv s' := by
  tm_all T hl hs

theorem tm_kUnlock {h : Nat} (T : TInv s)
    (hl : s.threads[t]? = some { pc := .kUnlock h, call := none })
    (hs : step s t inv lo mt rz sm sm2 pick = some s') : TInv s' := by
  tm_all T hl hs

theorem tm_xNext  (T : TInv s)
    (hl : s.threads[t]? = some { pc := .xNext, call := none })
    (hs : step s t inv lo mt rz sm sm2 pick = some s') : TInv s' := by
  tm_all T hl hs

theorem tm_xCell {j : Nat} (T : TInv s)
    (hl : s.threads[t]? = some { pc := .xCell j, call := none })
    (hs : step s t inv lo mt rz sm sm2 pick = some s') : TInv s' := by
  tm_all T hl hs

theorem tm_xCasMoved {j : Nat} (T : TInv s)
    (hl : s.threads[t]? = some { pc := .xCasMoved j, call := none })
    (hs : step s t inv lo mt rz sm sm2 pick = some s') : TInv s' := by
  tm_all T hl hs

theorem tm_xLock {j h : Nat} (T : TInv s)
    (hl : s.threads[t]? = some { pc := .xLock j h, call := none })
    (hs : step s t inv lo mt rz sm sm2 pick = some s') : TInv s' := by
  tm_all T hl hs

theorem tm_xCheck {j h : Nat} (T : TInv s)
    (hl : s.threads[t]? = some { pc := .xCheck j h, call := none })
    (hs : step s t inv lo mt rz sm sm2 pick = some s') : TInv s' := by
  tm_all T hl hs

theorem tm_xBuild {j h : Nat} (T : TInv s)
    (hl : s.threads[t]? = some { pc := .xBuild j h, call := none })
    (hs : step s t inv lo mt rz sm sm2 pick = some s') : TInv s' := by
  tm_all T hl hs

theorem tm_yMutex {j b : Nat} (T : TInv s)
    (hl : s.threads[t]? = some { pc := .yMutex j b, call := none })
    (hs : step s t inv lo mt rz sm sm2 pick = some s') : TInv s' := by
  tm_all T hl hs

theorem tm_yCheck {j b : Nat} (T : TInv s)
    (hl : s.threads[t]? = some { pc := .yCheck j b, call := none })
    (hs : step s t inv lo mt rz sm sm2 pick = some s') : TInv s' := by
  tm_all T hl hs

theorem tm_xStoreLow {j : Nat} {unl : Nat ⊕ Nat} {c1 c2 : Cell} (T : TInv s)
    (hl : s.threads[t]? = some { pc := .xStoreLow j unl c1 c2, call := none })
    (hs : step s t inv lo mt rz sm sm2 pick = some s') : TInv s' := by
  tm_all T hl hs

theorem tm_xStoreHigh {j : Nat} {unl : Nat ⊕ Nat} {c2 : Cell} (T : TInv s)
    (hl : s.threads[t]? = some { pc := .xStoreHigh j unl c2, call := none })
    (hs : step s t inv lo mt rz sm sm2 pick = some s') : TInv s' := by
  tm_all T hl hs

theorem tm_xStoreMoved {j : Nat} {unl : Nat ⊕ Nat} (T : TInv s)
    (hl : s.threads[t]? = some { pc := .xStoreMoved j unl, call := none })
    (hs : step s t inv lo mt rz sm sm2 pick = some s') : TInv s' := by
  tm_all T hl hs

theorem tm_xCommit  (T : TInv s)
    (hl : s.threads[t]? = some { pc := .xCommit, call := none })
    (hs : step s t inv lo mt rz sm sm2 pick = some s') : TInv s' := by
  tm_all T hl hs

theorem tm_rNode {x : Option Nat} (T : TInv s)
    (hl : s.threads[t]? = some { pc := .rNode x, call := some p })
    (hs : step s t inv lo mt rz sm sm2 pick = some s') : TInv s' := by
  cases x <;> tm_all T hl hs

theorem tm_rState {b : Nat} {x : Option Nat} (T : TInv s)
    (hl : s.threads[t]? = some { pc := .rState b x, call := some p })
    (hs : step s t inv lo mt rz sm sm2 pick = some s') : TInv s' := by
  cases x <;> tm_all T hl hs

theorem tm_lNode {x : Option Nat} (T : TInv s)
    (hl : s.threads[t]? = some { pc := .lNode x, call := some p })
    (hs : step s t inv lo mt rz sm sm2 pick = some s') : TInv s' := by
  cases x <;> tm_all T hl hs

theorem tm_wFind {g h : Nat} {pred cur : Option Nat} (T : TInv s)
    (hl : s.threads[t]? = some { pc := .wFind g h pred cur, call := some p })
    (hs : step s t inv lo mt rz sm sm2 pick = some s') : TInv s' := by
  cases cur <;> tm_all T hl hs

theorem tm_xUnlock {unl : Nat ⊕ Nat} (T : TInv s)
    (hl : s.threads[t]? = some { pc := .xUnlock unl, call := none })
    (hs : step s t inv lo mt rz sm sm2 pick = some s') : TInv s' := by
  cases unl <;> tm_all T hl hs

theorem tm_lrTry {g b : Nat} {k : After} {res : KRes} (T : TInv s)
    (hl : s.threads[t]? = some { pc := .lrTry g b k res, call := some p })
    (hs : step s t inv lo mt rz sm sm2 pick = some s') : TInv s' := by
  cases k <;> tm_all T hl hs

theorem tm_lrLoop {g b : Nat} {k : After} {res : KRes} (T : TInv s)
    (hl : s.threads[t]? = some { pc := .lrLoop g b k res, call := some p })
    (hs : step s t inv lo mt rz sm sm2 pick = some s') : TInv s' := by
  cases k <;> tm_all T hl hs

theorem tm_wStore {g h : Nat} {pred hit hnext : Option Nat} (T : TInv s)
    (hl : s.threads[t]? = some { pc := .wStore g h pred hit hnext, call := some p })
    (hs : step s t inv lo mt rz sm sm2 pick = some s') : TInv s' := by
  open_step hs hl
  cases hs
  have e := storeAt_frame (tick s) g p pred hit hnext
  refine tinv_move (l' := { pc := .wUnlock g h (storeAt (tick s) g p pred hit hnext).2 false, call := some p })
    T hl ?_ ?_ ?_ rfl ⟨rfl, fun _ => rfl⟩
  · show ((storeAt (tick s) g p pred hit hnext).1.threads).set _ _ = _
    rw [e.1]; rfl
  · show (storeAt (tick s) g p pred hit hnext).1.hist = _
    rw [e.2.1]; rfl
  · show (storeAt (tick s) g p pred hit hnext).1.now = _
    rw [e.2.2]; rfl

theorem tm_yBuild {j b : Nat} (T : TInv s)
    (hl : s.threads[t]? = some { pc := .yBuild j b, call := none })
    (hs : step s t inv lo mt rz sm sm2 pick = some s') : TInv s' := by
  open_step hs hl
  generalize h1 : splitSide _ b _ sm _ = r1 at hs
  obtain ⟨s1, lo1⟩ := r1
  simp only at hs
  generalize h2 : splitSide s1 b _ sm2 _ = r2 at hs
  obtain ⟨s2, hi2⟩ := r2
  simp only at hs
  cases hs
  obtain ⟨a1, a2, a3⟩ := splitSide_frame' h1
  obtain ⟨b1, b2, b3⟩ := splitSide_frame' h2
  exact tinv_move (l' := { pc := .xStoreLow j (.inr b) lo1 hi2, call := none }) T hl
    (by show s2.threads.set _ _ = _; rw [b1, a1]) (b2.trans a2) (b3.trans a3) rfl ⟨rfl, fun _ => rfl⟩

theorem tm_idle (T : TInv s) (hl : s.threads[t]? = some { pc := .idle, call := c })
    (hs : step s t inv lo mt rz sm sm2 pick = some s') : TInv s' := by
  unfold step stepG at hs; rw [hl] at hs; simp only at hs
  split at hs
  · split at hs
    · cases hs
      exact tinv_move (l' := { pc := .idle, call := c }) T hl (set_same hl) rfl rfl rfl ⟨rfl, fun _ => rfl⟩
    · cases hs
      exact tinv_move T hl rfl rfl rfl rfl ⟨rfl, fun _ => rfl⟩
  · split at hs
    · cases hs
      exact tinv_move T hl rfl rfl rfl rfl ⟨rfl, fun _ => rfl⟩
    · split at hs
      · cases hs
        exact tinv_move (l' := { pc := .idle, call := c }) T hl (set_same hl) rfl rfl rfl ⟨rfl, fun _ => rfl⟩
      · cases hs
        exact tinv_invoke T hl

end

theorem init_tinv (n : Nat) : TInv (init n) := by
  have hl : ∀ (t : Nat) (l : Local), (init n).threads[t]? = some l → l = {} := by
    intro t l h1
    exact List.eq_of_mem_replicate (List.mem_of_getElem? h1)
  refine ⟨?_, ?_, ?_, ?_, ?_, ?_, List.Pairwise.nil⟩
  · intro t l p h hp; rw [hl t l h] at hp; cases hp
  · intro t l h; rw [hl t l h]; exact ⟨fun _ => rfl, fun _ => rfl⟩
  · intro x hx; cases hx
  · intro t l p h hp; rw [hl t l h] at hp; cases hp
  · intro x hx; cases hx
  · intro t t' l l' p p' h _ hp; rw [hl t l h] at hp; cases hp

theorem step_tinv {s s' : State} {t : Nat} {inv : Option (Nat × KOp)} {lo : Bool} {mt : Option Nat}
    {rz sm sm2 : Bool} {pick : Nat} (T : TInv s)
    (hs : step s t inv lo mt rz sm sm2 pick = some s') : TInv s' := by
  cases hl : s.threads[t]? with
  | none => unfold step stepG at hs; rw [hl] at hs; cases hs
  | some l =>
    obtain ⟨pc, call⟩ := l
    cases pc with
    | idle => exact tm_idle T hl hs
    | rTable x => cases call with
      | none => unfold step stepG at hs; rw [hl] at hs; simp at hs
      | some p => exact tm_rTable T hl hs
    | rCell x g => cases call with
      | none => unfold step stepG at hs; rw [hl] at hs; simp at hs
      | some p => exact tm_rCell T hl hs
    | rFirst b => cases call with
      | none => unfold step stepG at hs; rw [hl] at hs; simp at hs
      | some p => exact tm_rFirst T hl hs
    | rLin b x => cases call with
      | none => unfold step stepG at hs; rw [hl] at hs; simp at hs
      | some p => exact tm_rLin T hl hs
    | rCas b x r => cases call with
      | none => unfold step stepG at hs; rw [hl] at hs; simp at hs
      | some p => exact tm_rCas T hl hs
    | rTree b => cases call with
      | none => unfold step stepG at hs; rw [hl] at hs; simp at hs
      | some p => exact tm_rTree T hl hs
    | rRelease b x => cases call with
      | none => unfold step stepG at hs; rw [hl] at hs; simp at hs
      | some p => exact tm_rRelease T hl hs
    | rVal x => cases call with
      | none => unfold step stepG at hs; rw [hl] at hs; simp at hs
      | some p => exact tm_rVal T hl hs
    | lFirst b => cases call with
      | none => unfold step stepG at hs; rw [hl] at hs; simp at hs
      | some p => exact tm_lFirst T hl hs
    | wTable => cases call with
      | none => unfold step stepG at hs; rw [hl] at hs; simp at hs
      | some p => exact tm_wTable T hl hs
    | wCell g => cases call with
      | none => unfold step stepG at hs; rw [hl] at hs; simp at hs
      | some p => exact tm_wCell T hl hs
    | wCas g => cases call with
      | none => unfold step stepG at hs; rw [hl] at hs; simp at hs
      | some p => exact tm_wCas T hl hs
    | wLock g h => cases call with
      | none => unfold step stepG at hs; rw [hl] at hs; simp at hs
      | some p => exact tm_wLock T hl hs
    | wCheck g h => cases call with
      | none => unfold step stepG at hs; rw [hl] at hs; simp at hs
      | some p => exact tm_wCheck T hl hs
    | wUnlock g h res retry => cases call with
      | none => unfold step stepG at hs; rw [hl] at hs; simp at hs
      | some p => exact tm_wUnlock T hl hs
    | tMutex g b => cases call with
      | none => unfold step stepG at hs; rw [hl] at hs; simp at hs
      | some p => exact tm_tMutex T hl hs
    | tCheck g b => cases call with
      | none => unfold step stepG at hs; rw [hl] at hs; simp at hs
      | some p => exact tm_tCheck T hl hs
    | tFind g b => cases call with
      | none => unfold step stepG at hs; rw [hl] at hs; simp at hs
      | some p => exact tm_tFind T hl hs
    | tVal g b i v res => cases call with
      | none => unfold step stepG at hs; rw [hl] at hs; simp at hs
      | some p => exact tm_tVal T hl hs
    | tPrependLocked g b => cases call with
      | none => unfold step stepG at hs; rw [hl] at hs; simp at hs
      | some p => exact tm_tPrependLocked T hl hs
    | tTreeLinkLocked g b x => cases call with
      | none => unfold step stepG at hs; rw [hl] at hs; simp at hs
      | some p => exact tm_tTreeLinkLocked T hl hs
    | tUnlinkLocked g b i res => cases call with
      | none => unfold step stepG at hs; rw [hl] at hs; simp at hs
      | some p => exact tm_tUnlinkLocked T hl hs
    | tRestructure g b i res => cases call with
      | none => unfold step stepG at hs; rw [hl] at hs; simp at hs
      | some p => exact tm_tRestructure T hl hs
    | tUnlockRoot g b res => cases call with
      | none => unfold step stepG at hs; rw [hl] at hs; simp at hs
      | some p => exact tm_tUnlockRoot T hl hs
    | tUntreeify g b res => cases call with
      | none => unfold step stepG at hs; rw [hl] at hs; simp at hs
      | some p => exact tm_tUntreeify T hl hs
    | tUnlockM g b res retry => cases call with
      | none => unfold step stepG at hs; rw [hl] at hs; simp at hs
      | some p => exact tm_tUnlockM T hl hs
    | kTable k => cases call with
      | some p => unfold step stepG at hs; rw [hl] at hs; simp at hs
      | none => exact tm_kTable T hl hs
    | kCell g k => cases call with
      | some p => unfold step stepG at hs; rw [hl] at hs; simp at hs
      | none => exact tm_kCell T hl hs
    | kLock g k h => cases call with
      | some p => unfold step stepG at hs; rw [hl] at hs; simp at hs
      | none => exact tm_kLock T hl hs
    | kCheck g k h => cases call with
      | some p => unfold step stepG at hs; rw [hl] at hs; simp at hs
      | none => exact tm_kCheck T hl hs
    | kBuild g k h => cases call with
      | some p => unfold step stepG at hs; rw [hl] at hs; simp at hs
      | none => exact tm_kBuild T hl hs
    | kStore g k h b => cases call with
      | some p => unfold step stepG at hs; rw [hl] at hs; simp at hs
      | none => exact tm_kStore T hl hs
    | kUnlock h => cases call with
      | some p => unfold step stepG at hs; rw [hl] at hs; simp at hs
      | none => exact tm_kUnlock T hl hs
    | xNext => cases call with
      | some p => unfold step stepG at hs; rw [hl] at hs; simp at hs
      | none => exact tm_xNext T hl hs
    | xCell j => cases call with
      | some p => unfold step stepG at hs; rw [hl] at hs; simp at hs
      | none => exact tm_xCell T hl hs
    | xCasMoved j => cases call with
      | some p => unfold step stepG at hs; rw [hl] at hs; simp at hs
      | none => exact tm_xCasMoved T hl hs
    | xLock j h => cases call with
      | some p => unfold step stepG at hs; rw [hl] at hs; simp at hs
      | none => exact tm_xLock T hl hs
    | xCheck j h => cases call with
      | some p => unfold step stepG at hs; rw [hl] at hs; simp at hs
      | none => exact tm_xCheck T hl hs
    | xBuild j h => cases call with
      | some p => unfold step stepG at hs; rw [hl] at hs; simp at hs
      | none => exact tm_xBuild T hl hs
    | yMutex j b => cases call with
      | some p => unfold step stepG at hs; rw [hl] at hs; simp at hs
      | none => exact tm_yMutex T hl hs
    | yCheck j b => cases call with
      | some p => unfold step stepG at hs; rw [hl] at hs; simp at hs
      | none => exact tm_yCheck T hl hs
    | xStoreLow j unl c1 c2 => cases call with
      | some p => unfold step stepG at hs; rw [hl] at hs; simp at hs
      | none => exact tm_xStoreLow T hl hs
    | xStoreHigh j unl c2 => cases call with
      | some p => unfold step stepG at hs; rw [hl] at hs; simp at hs
      | none => exact tm_xStoreHigh T hl hs
    | xStoreMoved j unl => cases call with
      | some p => unfold step stepG at hs; rw [hl] at hs; simp at hs
      | none => exact tm_xStoreMoved T hl hs
    | xCommit => cases call with
      | some p => unfold step stepG at hs; rw [hl] at hs; simp at hs
      | none => exact tm_xCommit T hl hs
    | rNode x => cases call with
      | none => unfold step stepG at hs; rw [hl] at hs; simp at hs
      | some p => exact tm_rNode T hl hs
    | rState b x => cases call with
      | none => unfold step stepG at hs; rw [hl] at hs; simp at hs
      | some p => exact tm_rState T hl hs
    | lNode x => cases call with
      | none => unfold step stepG at hs; rw [hl] at hs; simp at hs
      | some p => exact tm_lNode T hl hs
    | wFind g h pred cur => cases call with
      | none => unfold step stepG at hs; rw [hl] at hs; simp at hs
      | some p => exact tm_wFind T hl hs
    | xUnlock unl => cases call with
      | some p => unfold step stepG at hs; rw [hl] at hs; simp at hs
      | none => exact tm_xUnlock T hl hs
    | lrTry g b k res => cases call with
      | none => unfold step stepG at hs; rw [hl] at hs; simp at hs
      | some p => exact tm_lrTry T hl hs
    | lrLoop g b k res => cases call with
      | none => unfold step stepG at hs; rw [hl] at hs; simp at hs
      | some p => exact tm_lrLoop T hl hs
    | wStore g h pred hit hnext => cases call with
      | none => unfold step stepG at hs; rw [hl] at hs; simp at hs
      | some p => exact tm_wStore T hl hs
    | yBuild j b => cases call with
      | some p => unfold step stepG at hs; rw [hl] at hs; simp at hs
      | none => exact tm_yBuild T hl hs

theorem reachable_tinv {n : Nat} {s : State} (hr : Reachable n s) : TInv s := by
  induction hr with
  | init => exact init_tinv n
  | step t inv lo mt rz sm sm2 pick _ hs ih => exact step_tinv ih hs

end Flurry.Proto.BinGN
