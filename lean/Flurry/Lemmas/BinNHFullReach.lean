import Flurry.Lemmas.BinNHFullCases
/-! # Proto/BinNH: the complete invariant and the ghost invariant hold in every reachable state (C01, C10) -/
namespace Flurry.Proto.BinNH
open Flurry.Lin
open Flurry.Proto.BinX (NodeS Cell Pending isReader dflt chainFrom cellHead cellOfHead get_set get_set_self get_set_ne
  cellOfHead_ne_moved nodeAt chainH nextA nodeAt_append_left)
open Flurry.Proto.BinN (cellAt cellOf putCell setNode allMoved splitBinB bitAt lockAt LockSame GenInv ThrOK isT
  Holds vcell genOfPc cellT StepK tick setT finish TInv WInv getCell chId CellId)
open Flurry.Proto.BinNHM (Ghost IsMid HInv MemStep GInv Good buildG)

/-- an idle thread becomes a resizing thread: it joins the running resize (`n' = tickN`) or starts one
(`n' = allocN`) -/
theorem full_start {k : Nat} {s : State} {G : Ghost} {A : Nat → KSt} {pt : Nat → Nat} {t : Nat} {l : BinN.Local}
    {n' : BinN.State} (F : Full s G) (g : GInv k s.n G A pt)
    (hl : s.n.threads[t]? = some l) (hidle : l.pc = .idle) (hh : s.hs[t]? = some none)
    (hn' : (n' = tickN s.n) ∨ (s.n.resizing = false ∧ n' = allocN s.n))
    (B' : Inv (setH s t n' (some ⟨s.n.cur, .next⟩))) :
    ∃ A', Full (setH s t n' (some ⟨s.n.cur, .next⟩)) G ∧ GInv k n' G A' pt ∧
      ∀ k', BinN.absOf n' k' = BinN.absOf s.n k' := by
  have HI := F.inv.heap
  have S' : BinN.Shape n' := B'.gen.shape
  have key : n'.threads = s.n.threads ∧ n'.now = s.n.now + 1 ∧ n'.hist = s.n.hist ∧ n'.cur = s.n.cur ∧
      n'.heap = s.n.heap ∧ (∀ g j, cellAt n' g j = cellAt s.n g j) ∧ HInv n' G ∧ MemStep s.n n' G G ∧
      ∀ k', BinN.absOf n' k' = BinN.absOf s.n k' := by
    rcases hn' with rfl | ⟨hr, rfl⟩
    · exact ⟨rfl, rfl, rfl, rfl, rfl, fun _ _ => rfl, HI.congr rfl rfl rfl rfl,
        .heap (BinNHM.HeapStep.of_same rfl rfl rfl), BinNHM.absOf_congr' rfl rfl rfl⟩
    · obtain ⟨H', hstep, habs⟩ := BinNHM.alloc_effect (s' := allocN s.n) HI S' (F.mid_none_of_not_resizing hr)
        rfl rfl rfl rfl hr
      exact ⟨rfl, rfl, rfl, rfl, rfl, fun g j => BinN.cellT_alloc _ _ _ _, H', .heap hstep, habs⟩
  obtain ⟨hthr, hnow, hhist, hc, hheap, hcell, H', m, habs⟩ := key
  refine full_helper F g hl hidle B' hthr hnow hhist H' m habs ?_ ?_ ?_ ?_
  · intro t1 l1 g1 j' h' _ _ _ _
    exact ⟨hcell _ _, by rw [hheap], fun i _ => by rw [hheap]; exact ⟨rfl, rfl⟩⟩
  · intro j hm t1 l1 h h1
    rw [hc]; exact F.inv.midw j hm t1 l1 h h1
  · intro t1 hp1 h1
    rcases get_set h1 with ⟨-, e⟩ | ⟨-, h1⟩
    · cases e; trivial
    · exact (F.pcMid t1 hp1 h1).frame hc (fun j lo hg fr _ hm => ⟨hm, hcell _ _, hcell _ _⟩)
  · intro j hm
    obtain ⟨t1, hp1, h1, hm1⟩ := F.midHas j hm
    have ne : t1 ≠ t := by
      rintro rfl
      rw [hh] at h1; cases h1
    exact ⟨t1, hp1, by rw [get_set_ne ne]; exact h1, hm1⟩

/-- the transitions of a helper part -/
theorem full_hstep {k : Nat} {s : State} {G : Ghost} {A : Nat → KSt} {pt : Nat → Nat} {t : Nat} {l : BinN.Local}
    {hp : Helper} {n' : BinN.State} {po : Option HPc} (F : Full s G) (g : GInv k s.n G A pt)
    (hl : s.n.threads[t]? = some l) (hh : s.hs[t]? = some (some hp)) (hs : HStep s.n t hp.g hp.pc n' po)
    (B' : Inv (setH s t n' (po.map fun pc' => ⟨hp.g, pc'⟩))) :
    ∃ G' A', Full (setH s t n' (po.map fun pc' => ⟨hp.g, pc'⟩)) G' ∧ GInv k n' G' A' pt ∧
      ∀ k', BinN.absOf n' k' = BinN.absOf s.n k' := by
  have HI := F.inv.heap
  obtain ⟨g0, pc⟩ := hp
  cases hs with
  | tick po hnm hnm' _ =>
    exact ⟨G, full_quiet F g hl hh B' hnm hnm' rfl rfl rfl rfl rfl (HI.congr rfl rfl rfl rfl)
      (.heap (BinNHM.HeapStep.of_same rfl rfl rfl)) (BinNHM.absOf_congr' rfl rfl rfl) (BinNHM.chId_congr rfl rfl)
      (fun j => ⟨rfl, rfl⟩)⟩
  | lock j h =>
    obtain ⟨H', hstep, hch, habs, -, hn⟩ := BinNHM.lock_effect
      (s' := setNode (tickN s.n) h (fun m => { m with lock := some t })) HI rfl rfl rfl rfl
    exact ⟨G, full_quiet (po := some (.check j h)) F g hl hh B' (fun h => h) (fun _ e => by cases e; exact fun h => h)
      rfl rfl rfl rfl rfl H' (.heap hstep) habs hch (fun i => ⟨(hn i).1, (hn i).2.2⟩)⟩
  | unlockC j h =>
    obtain ⟨H', hstep, hch, habs, -, hn⟩ := BinNHM.lock_effect
      (s' := setNode (tickN s.n) h (fun m => { m with lock := none })) HI rfl rfl rfl rfl
    exact ⟨G, full_quiet (po := some (.cell j)) F g hl hh B' (fun h => h) (fun _ e => by cases e; exact fun h => h)
      rfl rfl rfl rfl rfl H' (.heap hstep) habs hch (fun i => ⟨(hn i).1, (hn i).2.2⟩)⟩
  | unlockU j h =>
    obtain ⟨H', hstep, hch, habs, -, hn⟩ := BinNHM.lock_effect
      (s' := setNode (tickN s.n) h (fun m => { m with lock := none })) HI rfl rfl rfl rfl
    exact ⟨G, full_quiet (po := some .next) F g hl hh B' (fun h => h) (fun _ e => by cases e; exact fun h => h)
      rfl rfl rfl rfl rfl H' (.heap hstep) habs hch (fun i => ⟨(hn i).1, (hn i).2.2⟩)⟩
  | build j h => exact full_build F g hl hh rfl rfl rfl B'
  | cas j hc => exact full_cas F g hl hh hc B'
  | low j h lo hg => exact full_low F g hl hh B'
  | high j h hg => exact full_high F g hl hh B'
  | marker j h => exact full_marker F g hl hh B'
  | commit hg R => exact full_commit F g hl hh hg R B'

/-- **every transition preserves the complete invariant and the ghost invariant**; the transitions of the
resizing threads (and the start of a resize) change the abstract state of no key -/
theorem full_step {k : Nat} {s s' : State} {G : Ghost} {A : Nat → KSt} {pt : Nat → Nat} {t : Nat}
    {inv : Option (Nat × KOp)} {rz leave : Bool} {pick : Nat} (F : Full s G) (g : GInv k s.n G A pt)
    (hs : step s t inv rz leave pick = some s') :
    (∃ G' A' pt', Full s' G' ∧ GInv k s'.n G' A' pt') ∧
    ((∃ hp, s.hs[t]? = some (some hp)) ∨ (s.hs[t]? = some none ∧ s'.hs[t]? ≠ some none) →
      ∀ k', absOf s' k' = absOf s k') := by
  have B' := step_inv F.base hs
  unfold step stepG at hs
  cases hl : s.n.threads[t]? with
  | none => rw [hl] at hs; simp only at hs; cases hs
  | some l =>
    cases hh : s.hs[t]? with
    | none => rw [hl, hh] at hs; simp only at hs; cases hs
    | some ho =>
      rw [hl, hh] at hs
      have ht : t < s.hs.length := (List.getElem?_eq_some_iff.1 hh).1
      cases ho with
      | some hp =>
        obtain ⟨po, hst, hhs⟩ := helperStep_hstep hs
        have es : s' = setH s t s'.n (po.map fun pc' => ⟨hp.g, pc'⟩) := by
          obtain ⟨n', hs'⟩ := s'
          simp only at hhs
          subst hhs
          rfl
        rw [es] at B'
        obtain ⟨G', A', F', g', habs⟩ := full_hstep F g hl hh hst B'
        refine ⟨⟨G', A', pt, by rw [es]; exact F', g'⟩, fun _ k' => habs k'⟩
      | none =>
        simp only at hs
        have hnT := F.base.noT t l hl
        have hset : s.hs.set t none = s.hs := set_self_of_get hh
        split at hs
        · rename_i hi
          split at hs
          · -- becomes a resizing thread
            split at hs
            · cases hs
              obtain ⟨A', F', g', habs⟩ := full_start F g hl hi hh (Or.inl rfl) B'
              exact ⟨⟨G, A', pt, F', g'⟩, fun _ k' => habs k'⟩
            · rename_i R
              cases hs
              have R' : s.n.resizing = false := by
                have : (tickN s.n).resizing = false := by simpa using R
                exact this
              obtain ⟨A', F', g', habs⟩ := full_start (n' := allocN s.n) F g hl hi hh (Or.inr ⟨R', rfl⟩) B'
              exact ⟨⟨G, A', pt, F', g'⟩, fun _ k' => habs k'⟩
          · split at hs
            · -- an idle step
              cases hs
              have e : tickN s.n = setT (tick s.n) t l := (BinN.setT_self (s := tick s.n) hl).symm
              have K : StepK s.n t l 0 (tickN s.n) := by rw [e]; exact StepK.idle hi
              have E : RWEff s.n t (tickN s.n) :=
                rwEff_of (l' := l) rfl rfl (LockSame.refl _) rfl (set_self_of_get hl).symm hnT
              obtain ⟨A', pt', F', g'⟩ := full_rw F g hl hh K E B'
              refine ⟨⟨G, A', pt', F', g'⟩, ?_⟩
              rintro (⟨hp, h⟩ | ⟨-, h⟩)
              · cases h
              · exact absurd hh h
            · -- an invocation
              rename_i k0 op
              cases hs
              obtain ⟨pc, call⟩ := l
              simp only at hi; subst hi
              have K : StepK s.n t ⟨.idle, call⟩ 0 _ := StepK.invoke k0 op rfl
              have E := rwEff_of (n := s.n)
                (n' := setT (tick s.n) t ⟨if isReader op then .rTable else .wTable, some ⟨k0, op, s.n.now + 1⟩⟩) (t := t)
                rfl rfl (LockSame.refl _) rfl rfl (by cases isReader op <;> exact fun h => h)
              obtain ⟨A', pt', F', g'⟩ := full_rw F g hl hh K E B'
              refine ⟨⟨G, A', pt', F', g'⟩, ?_⟩
              rintro (⟨hp, h⟩ | ⟨-, h⟩)
              · cases h
              · exact absurd hh h
        · rename_i hni
          cases hn : BinN.stepG true s.n t none false 0 with
          | none => rw [hn] at hs; cases hs
          | some n' =>
            rw [hn] at hs
            cases hs
            have K := BinN.step_stepK hl (show BinN.step s.n t none false 0 = some n' from hn)
            have E := stepK_rwEff F.base.gen hl hni hnT K
            obtain ⟨A', pt', F', g'⟩ := full_rw F g hl hh K E B'
            refine ⟨⟨G, A', pt', F', g'⟩, ?_⟩
            rintro (⟨hp, h⟩ | ⟨-, h⟩)
            · cases h
            · exact absurd hh h

theorem init_full (n : Nat) : Full (init n) {} := by
  refine ⟨init_inv n, BinNHM.init_inv n, ?_, ?_⟩
  · intro t hp h0
    have := List.eq_of_mem_replicate (List.mem_of_getElem? (show (List.replicate n none)[t]? = some (some hp) from h0))
    cases this
  · intro j hm; cases hm

/-- the complete invariant and the ghost invariant hold in every reachable state -/
theorem reachable_full {n : Nat} {s : State} (hr : Reachable n s) (k : Nat) :
    ∃ G A pt, Full s G ∧ GInv k s.n G A pt := by
  induction hr with
  | init => exact ⟨_, _, _, init_full n, BinNHM.init_ginv n k⟩
  | step t inv rz leave pick _ hs ih =>
    obtain ⟨G, A, pt, F, g⟩ := ih
    exact (full_step F g hs).1

end Flurry.Proto.BinNH
