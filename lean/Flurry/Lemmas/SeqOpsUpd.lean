import Flurry.Lemmas.SeqOpsCore
/-! # O0: the three single-key updates on a well-formed state with a table

`UpdPost m r k new dc G`: `r` is `m` with the lookup of `k` changed to `new`, every other lookup
kept, the count moved by `dc`; the table never shrinks; and under the side condition `G` neither
the table nor the threshold nor the resize counter moves. -/
namespace Flurry.Seq
open Flurry Flurry.Gen
open Flurry.RB (upd)

structure UpdPost (m r : Map) (k : Nat) (new : Option Node) (dc : Int) (G : Prop) : Prop where
  good : Good r
  hash : r.hash = m.hash
  get_same : get k r = new
  get_other : ∀ k', k' ≠ k → get k' r = get k' m
  count : r.count = m.count + dc
  len_le : tableLen m ≤ tableLen r
  resizes_le : m.resizes ≤ r.resizes
  noGrow : G → tableLen r = tableLen m ∧ r.resizes = m.resizes ∧ r.sizeCtl = m.sizeCtl

theorem UpdPost.refl {m : Map} (hg : Good m) (k : Nat) (G : Prop) : UpdPost m m k (get k m) 0 G :=
  ⟨hg, rfl, rfl, fun _ _ => rfl, by omega, Nat.le_refl _, Nat.le_refl _, fun _ => ⟨rfl, rfl, rfl⟩⟩

theorem UpdPost.mono {m r : Map} {k : Nat} {new : Option Node} {dc : Int} {G G' : Prop}
    (h : UpdPost m r k new dc G) (hgg : G' → G) : UpdPost m r k new dc G' :=
  { h with noGrow := fun g => h.noGrow (hgg g) }

section
variable {m : Map} {t : Table}

/-- insertion of a new node for an absent key, then (maybe) `treeifyBin`, then `addCount 1` -/
theorem insert_post (hw : WF m) (ht : m.table = some t) {k : Nat} {nd : Node}
    (hf : (tableBin t (bini (m.hash k) t.length)).find (m.hash k) k = none)
    (hh : nd.hash = m.hash k) (hk : nd.key = k) (c : Bool) (bc : Nat) :
    let i := bini (m.hash k) t.length
    let m2 : Map := { m with table := some (t.set i (insertBin nd (tableBin t i))) }
    UpdPost m (addCount 1 (some bc) (if c then treeifyBin i m2 else m2)) k (some nd) 1
      ((c = false ∨ treeifyTooSmall t.length = false) ∧
        (m.count + 1 < m.sizeCtl ∨ t.length = MAXIMUM_CAPACITY)) := by
  intro i m2
  obtain ⟨htw, hc, hs, hlt⟩ := (wf_some_iff ht).1 hw
  have hi : i < t.length := bini_lt_of_isPow2 _ htw.1
  have hbw : BinWF m.hash t.length i (tableBin t i) := htw.bin i
  have hok : NodeOk m.hash t.length i nd := ⟨by rw [hh, hk], by rw [hh]⟩
  have hb'w := insertBin_wf hbw hf hh hk hok
  have hp2 : PreWF m2 (t.set i (insertBin nd (tableBin t i))) :=
    ⟨rfl, tableWF_set htw hb'w, by rw [table_length_set]; exact hs⟩
  have hlen2 : (entries m2).length = (entries m).length + 1 := by
    have := entries_set_length (m' := m2) ht hi rfl
    rw [insertBin_nodes_length] at this; omega
  have hget2s : get k m2 = some nd := by
    rw [get_set_bin_same (m' := m2) ht htw rfl rfl]
    exact insertBin_find hbw hf hh hk hok
  have hget2o : ∀ k', k' ≠ k → get k' m2 = get k' m := by
    intro k' hne
    exact get_set_bin_other (m' := m2) ht htw hi rfl rfl (insertBin_find_other hbw hf hh hk hok hne)
  -- the optional treeify
  generalize hm3 : (if c then treeifyBin i m2 else m2) = m3
  have h3 : (∃ t3, PreWF m3 t3) ∧ Same m2 m3 ∧ m3.count = m2.count ∧ m3.hash = m2.hash ∧
      tableLen m2 ≤ tableLen m3 ∧ m2.resizes ≤ m3.resizes := by
    subst hm3
    cases c with
    | false => exact ⟨⟨_, hp2⟩, Same.refl _, rfl, rfl, Nat.le_refl _, Nat.le_refl _⟩
    | true =>
      obtain ⟨h1, h2⟩ := treeifyBin_preWF i hp2
      simp only [↓reduceIte]
      exact ⟨h1, h2, treeifyBin_count _ _, treeifyBin_hash _ _, treeifyBin_tableLen_le _ _,
        treeifyBin_resizes_le _ _⟩
  obtain ⟨⟨t3, hp3⟩, hs3, hc3, hh3, hl3, hr3⟩ := h3
  have hcnt : m3.count + 1 = Int.ofNat (entries m3).length := by
    rw [hs3.length_eq, hlen2, hc3]
    show m.count + 1 = _
    rw [hc]; simp only [Int.ofNat_eq_natCast]; omega
  obtain ⟨hwr, hsr, hcr⟩ := addCount_some_wf (h := bc) hp3 hcnt
  have hl2 : tableLen m2 = tableLen m := by
    rw [tableLen_of_some (m := m2) rfl, tableLen_of_some ht, table_length_set]
  have hpos3 : 0 < tableLen m3 := by
    rw [tableLen_of_some hp3.table]; exact hp3.twf.length_pos
  refine ⟨Good.of_tableLen_pos hwr ?_, ?_, ?_, ?_, ?_, ?_, ?_, ?_⟩
  · exact Nat.lt_of_lt_of_le hpos3 (addCount_tableLen_le _ _ _)
  · rw [addCount_hash, hh3]
  · rw [hsr.2.1, hs3.2.1, hget2s]
  · intro k' hne; rw [hsr.2.1, hs3.2.1, hget2o k' hne]
  · rw [hcr, hc3]
  · exact Nat.le_trans (by rw [← hl2]; exact hl3) (addCount_tableLen_le _ _ _)
  · exact Nat.le_trans hr3 (addCount_resizes_le _ _ _)
  · rintro ⟨hg1, hg2⟩
    have h3' : ∃ t3', m3.table = some t3' ∧ t3'.length = t.length ∧ m3.sizeCtl = m.sizeCtl ∧
        m3.resizes = m.resizes := by
      subst hm3
      cases c with
      | false => exact ⟨_, rfl, table_length_set _ _ _, rfl, rfl⟩
      | true =>
        have hbig : treeifyTooSmall (t.set i (insertBin nd (tableBin t i))).length = false := by
          rw [table_length_set]; rcases hg1 with h | h
          · cases h
          · exact h
        obtain ⟨t', h1, h2, h3, h4⟩ := treeifyBin_table_length (i := i) (m := m2) rfl hbig
        exact ⟨t', h1, by rw [h2, table_length_set], h3, h4⟩
    obtain ⟨t3', ht3', hlen3', hsc3', hres3'⟩ := h3'
    have hb : m3.count + 1 < m3.sizeCtl ∨ t3'.length = MAXIMUM_CAPACITY := by
      rw [hc3, hsc3', hlen3']; exact hg2
    rw [addCount_of_below ht3' hb]
    refine ⟨?_, hres3', hsc3'⟩
    rw [tableLen_of_some (m := { m3 with count := m3.count + 1 }) ht3', tableLen_of_some ht, hlen3']

/-- update of the value of a present key, then (maybe) `treeifyBin` -/
theorem update_post (hw : WF m) (ht : m.table = some t) {k : Nat} {old : Node} (v vi : Nat)
    (hf : (tableBin t (bini (m.hash k) t.length)).find (m.hash k) k = some old) (c : Bool) :
    let i := bini (m.hash k) t.length
    let m2 : Map := { m with table := some (t.set i (setValBin (m.hash k) k v vi (tableBin t i))) }
    UpdPost m (if c then treeifyBin i m2 else m2) k (some { old with val := v, vi := vi }) 0
      (c = false ∨ treeifyTooSmall t.length = false) := by
  intro i m2
  obtain ⟨htw, hc, hs, hlt⟩ := (wf_some_iff ht).1 hw
  have hi : i < t.length := bini_lt_of_isPow2 _ htw.1
  have hbw : BinWF m.hash t.length i (tableBin t i) := htw.bin i
  have hb'w := setValBin_wf (m.hash k) k v vi hbw
  have hlen2 : (entries m2).length = (entries m).length := by
    have := entries_set_length (m' := m2) ht hi rfl
    rw [setValBin_nodes_length _ _ _ _ hbw] at this; omega
  have hw2 : WF m2 := by
    refine (wf_some_iff (m := m2) rfl).2 ⟨tableWF_set htw hb'w, ?_, ?_, ?_⟩
    · rw [hlen2]; exact hc
    · rw [table_length_set]; exact hs
    · rw [table_length_set]; exact hlt
  have hget2s : get k m2 = some { old with val := v, vi := vi } := by
    rw [get_set_bin_same (m' := m2) ht htw rfl rfl]
    exact setValBin_find_same hbw hf
  have hget2o : ∀ k', k' ≠ k → get k' m2 = get k' m := by
    intro k' hne
    exact get_set_bin_other (m' := m2) ht htw hi rfl rfl (setValBin_find_other _ _ _ _ hbw hne)
  have hl2 : tableLen m2 = tableLen m := by
    rw [tableLen_of_some (m := m2) rfl, tableLen_of_some ht, table_length_set]
  cases c with
  | false =>
    simp only [Bool.false_eq_true, ↓reduceIte]
    exact ⟨Good.of_some hw2 rfl, rfl, hget2s, hget2o, by show m.count = _; omega,
      by rw [hl2]; exact Nat.le_refl _, Nat.le_refl _, fun _ => ⟨hl2, rfl, rfl⟩⟩
  | true =>
    obtain ⟨hw3, hs3, hc3, hl3, hr3⟩ := treeifyBin_spec i hw2
    simp only [↓reduceIte]
    refine ⟨Good.of_tableLen_pos hw3 ?_, treeifyBin_hash _ _, ?_, ?_, ?_, ?_, hr3, ?_⟩
    · exact Nat.lt_of_lt_of_le (hw2.tableLen_pos rfl) hl3
    · rw [hs3.2.1, hget2s]
    · intro k' hne; rw [hs3.2.1, hget2o k' hne]
    · rw [hc3]; show m.count = _; omega
    · rw [← hl2]; exact hl3
    · intro hg
      have hbig : treeifyTooSmall (t.set i (setValBin (m.hash k) k v vi (tableBin t i))).length = false := by
        rw [table_length_set]; rcases hg with h | h
        · cases h
        · exact h
      obtain ⟨t', h1, h2, h3, h4⟩ := treeifyBin_table_length (i := i) (m := m2) rfl hbig
      refine ⟨?_, h4, h3⟩
      rw [tableLen_of_some h1, h2, table_length_set, tableLen_of_some ht]

/-- removal of a present key, then `addCount (-1)`: never grows -/
theorem remove_post (hw : WF m) (ht : m.table = some t) {k : Nat} {old : Node}
    (hf : (tableBin t (bini (m.hash k) t.length)).find (m.hash k) k = some old) (hint : Option Nat) :
    let i := bini (m.hash k) t.length
    let m2 : Map := { m with table := some (t.set i (removeBin (m.hash k) k (tableBin t i))) }
    UpdPost m (addCount (-1) hint m2) k none (-1) True := by
  intro i m2
  obtain ⟨htw, hc, hs, hlt⟩ := (wf_some_iff ht).1 hw
  have hi : i < t.length := bini_lt_of_isPow2 _ htw.1
  have hbw : BinWF m.hash t.length i (tableBin t i) := htw.bin i
  have hb'w := removeBin_wf hbw hf
  have hp2 : PreWF m2 (t.set i (removeBin (m.hash k) k (tableBin t i))) :=
    ⟨rfl, tableWF_set htw hb'w, by rw [table_length_set]; exact hs⟩
  have hlen2 : (entries m2).length + 1 = (entries m).length := by
    have := entries_set_length (m' := m2) ht hi rfl
    have := removeBin_length hbw hf
    omega
  have hget2s : get k m2 = none := by
    rw [get_set_bin_same (m' := m2) ht htw rfl rfl]
    exact removeBin_find_same hbw hf
  have hget2o : ∀ k', k' ≠ k → get k' m2 = get k' m := by
    intro k' hne
    exact get_set_bin_other (m' := m2) ht htw hi rfl rfl (removeBin_find_other hbw hf hne)
  have hl2 : tableLen m2 = tableLen m := by
    rw [tableLen_of_some (m := m2) rfl, tableLen_of_some ht, table_length_set]
  have hcnt : m2.count + -1 = Int.ofNat (entries m2).length := by
    show m.count + -1 = _
    rw [hc]; simp only [Int.ofNat_eq_natCast]; omega
  have hold : m2.count < m2.sizeCtl ∨ (t.set i (removeBin (m.hash k) k (tableBin t i))).length = MAXIMUM_CAPACITY := by
    rw [table_length_set]; exact hlt
  obtain ⟨hwr, hsr, hcr, htr, hlr, hrr⟩ := addCount_removal (hint := hint) hp2 (by omega) hcnt hold
  have hsc : (addCount (-1) hint m2).sizeCtl = m.sizeCtl := by
    have hb : m2.count + -1 < m2.sizeCtl ∨
        (t.set i (removeBin (m.hash k) k (tableBin t i))).length = MAXIMUM_CAPACITY := by
      rcases hold with h | h
      · left; omega
      · exact Or.inr h
    exact (addCount_below_wf (hint := hint) hp2 hcnt hb).2.2.2.2.1
  refine ⟨Good.of_some hwr (htr.trans rfl), by rw [addCount_hash], ?_, ?_, hcr, ?_, ?_, ?_⟩
  · rw [hsr.2.1, hget2s]
  · intro k' hne; rw [hsr.2.1, hget2o k' hne]
  · rw [hlr, hl2]; exact Nat.le_refl _
  · rw [hrr]; exact Nat.le_refl _
  · intro _; exact ⟨by rw [hlr, hl2], hrr, hsc⟩

end

end Flurry.Seq
