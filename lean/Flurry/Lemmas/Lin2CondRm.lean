import Flurry.Lemmas.Lin2Points
/-! # `condRm`: what the sequential specification of `retain`'s conditional removal implies (C13)

`condRm vi` removes the key iff its current value is the one with id `vi`. Since every `ins` /
`cipInc` gives the new value a fresh id, "id `vi`" is "the very value the predicate inspected".

* `spec_condRm`: one specification step: the result is `.none`, and the state is unchanged unless it
  was `some (v, vi)`, in which case the key becomes absent.
* `condRm_removes_only_observed`: along the witness order of any linearizable history, each
  `condRm vi` call changes the state only from `some (v, vi)`.
* `replaced_value_survives`: `ins k (v,a)`, then `condRm a ∥ ins k (w,b)`: the key always ends as
  `(w,b)`. -/
namespace Flurry.Lin2

theorem spec_condRm_same (v vi : Nat) : specStep2 (some (v, vi)) (.condRm vi) = (none, .none) := by
  simp [specStep2]

theorem spec_condRm_other {v vi0 vi : Nat} (h : vi0 ≠ vi) :
    specStep2 (some (v, vi0)) (.condRm vi) = (some (v, vi0), .none) := by
  simp [specStep2, h]

theorem spec_condRm_absent (vi : Nat) : specStep2 none (.condRm vi) = (none, .none) := rfl

/-- one step of the specification: `condRm vi` reports nothing, and it leaves the state alone unless
the state is `some (v, vi)` — exactly the observed value — in which case the key becomes absent -/
theorem spec_condRm (st : KSt) (vi : Nat) :
    (specStep2 st (.condRm vi)).2 = .none ∧
    ((specStep2 st (.condRm vi)).1 = st ∨
      ∃ v, st = some (v, vi) ∧ (specStep2 st (.condRm vi)).1 = none) := by
  cases st with
  | none => exact ⟨rfl, Or.inl rfl⟩
  | some p =>
    obtain ⟨v, vi0⟩ := p
    by_cases h : vi0 = vi
    · subst h
      rw [spec_condRm_same]
      exact ⟨rfl, Or.inr ⟨v, rfl, rfl⟩⟩
    · rw [spec_condRm_other h]
      exact ⟨rfl, Or.inl rfl⟩

/-- a value with another id than the observed one is never removed by `condRm` -/
theorem spec_condRm_keeps_other {v vi0 vi : Nat} (h : vi0 ≠ vi) :
    (specStep2 (some (v, vi0)) (.condRm vi)).1 = some (v, vi0) := by
  rw [spec_condRm_other h]

/-- **along the witness order of a linearizable history, every `condRm vi` call changes the state
only if the state just before it is `some (v, vi)`**: the order can be cut at any `condRm vi` call
`c`; the calls before it lead from `init` to some state `st`, `c` reports `.none`, and either `c`
leaves `st` as it is or `st = some (v, vi)` (the observed id, not a replacement) and `c` makes the
key absent; the calls after it lead on to `fin`. -/
theorem condRm_removes_only_observed {h : History2} {init fin : KSt} (hl : Linearizable2 h init fin) :
    ∃ order : List Nat, order.Perm (List.range h.length) ∧
      (∀ (p q : Nat) (a b : Call2), p < q → order[p]? >>= (h[·]?) = some a →
        order[q]? >>= (h[·]?) = some b → ¬ (b.resp < a.inv)) ∧
      replay2 h order init = some fin ∧
      ∀ (pre post : List Nat) (i : Nat) (c : Call2) (vi : Nat),
        order = pre ++ i :: post → h[i]? = some c → c.op = .condRm vi →
        ∃ st, replay2 h pre init = some st ∧ c.res = .none ∧
          replay2 h post (specStep2 st (.condRm vi)).1 = some fin ∧
          ((specStep2 st (.condRm vi)).1 = st ∨
            ∃ v, st = some (v, vi) ∧ (specStep2 st (.condRm vi)).1 = none) := by
  obtain ⟨order, hperm, hrt, hrep⟩ := hl
  refine ⟨order, hperm, hrt, hrep, ?_⟩
  intro pre post i c vi ho hc hop
  subst ho
  rw [replay_append] at hrep
  cases hpre : replay2 h pre init with
  | none => rw [hpre] at hrep; cases hrep
  | some st =>
    rw [hpre] at hrep
    simp only [Option.bind_some] at hrep
    obtain ⟨c', hc', hres, hr'⟩ := replay_cons_eq_some hrep
    rw [hc] at hc'
    cases hc'
    rw [hop] at hres hr'
    exact ⟨st, rfl, by rw [← hres]; exact (spec_condRm st vi).1, hr', (spec_condRm st vi).2⟩

/-- **a value that replaced the observed one survives.** `ins (v, a)` completes; then a `retain`
whose predicate saw the value with id `a` removes conditionally (`condRm a`) while a concurrent
`ins (w, b)` (fresh id `b ≠ a`) replaces the value. In every linearizable outcome the key ends up
holding `(w, b)` — never absent with the insert's effect lost — and there are exactly two ways: the
insert came first (it reports the old value `(v, a)`, the conditional removal then finds another id
and does nothing), or the removal came first (it removed `(v, a)`, the insert reports `none` and
re-inserts). -/
theorem replaced_value_survives {v w a b : Nat} {c0 c1 c2 : Call2} {init fin : KSt} (hab : a ≠ b)
    (h0 : c0.op = .ins v a) (h1 : c1.op = .condRm a) (h2 : c2.op = .ins w b)
    (hb1 : c0.resp < c1.inv) (hb2 : c0.resp < c2.inv)
    (hl : Linearizable2 [c0, c1, c2] init fin) :
    fin = some (w, b) ∧ c0.res = resOf init ∧ c1.res = .none ∧
      (c2.res = .some v a ∨ c2.res = .none) := by
  obtain ⟨order, hperm, hpw, hrep⟩ := linearizable_iff_pairwise.1 hl
  have hr3 : List.range ([c0, c1, c2] : History2).length = [0, 1, 2] := by simp [List.range_succ]
  rw [hr3] at hperm
  have hlen : order.length = 3 := by simpa using hperm.length_eq
  have hnd : order.Nodup := hperm.nodup_iff.2 (by decide)
  have r10 : rtOk [c0, c1, c2] 1 0 = false := by simp [rtOk, mayPrecede, hb1]
  have r20 : rtOk [c0, c1, c2] 2 0 = false := by simp [rtOk, mayPrecede, hb2]
  match order, hlen with
  | [x, y, z], _ =>
    have hx : x ∈ [0, 1, 2] := hperm.subset (by simp)
    have hy : y ∈ [0, 1, 2] := hperm.subset (by simp)
    have hz : z ∈ [0, 1, 2] := hperm.subset (by simp)
    simp only [List.mem_cons, List.not_mem_nil, or_false] at hx hy hz
    have hxy : x ≠ y := by intro e; subst e; simp at hnd
    have hxz : x ≠ z := by intro e; subst e; simp at hnd
    have hyz : y ≠ z := by intro e; subst e; simp at hnd
    have hp1 : rtOk [c0, c1, c2] x y = true := by simpa using (List.pairwise_cons.1 hpw).1 y (by simp)
    have hp2 : rtOk [c0, c1, c2] x z = true := by simpa using (List.pairwise_cons.1 hpw).1 z (by simp)
    have hx0 : x = 0 := by
      rcases hx with rfl | rfl | rfl
      · rfl
      · rcases hy with rfl | rfl | rfl
        · rw [r10] at hp1; cases hp1
        · exact absurd rfl hxy
        · rcases hz with rfl | rfl | rfl
          · rw [r10] at hp2; cases hp2
          · exact absurd rfl hxz
          · exact absurd rfl hyz
      · rcases hy with rfl | rfl | rfl
        · rw [r20] at hp1; cases hp1
        · rcases hz with rfl | rfl | rfl
          · rw [r20] at hp2; cases hp2
          · exact absurd rfl hyz
          · exact absurd rfl hxz
        · exact absurd rfl hxy
    subst hx0
    obtain ⟨d0, hd0, hres0, hr0⟩ := replay_cons_eq_some hrep
    have e0 : d0 = c0 := by simpa using hd0.symm
    subst e0
    rw [h0] at hres0 hr0
    have hy' : y = 1 ∨ y = 2 := by rcases hy with rfl | h | h; exact absurd rfl hxy; exact Or.inl h; exact Or.inr h
    have hz' : z = 1 ∨ z = 2 := by rcases hz with rfl | h | h; exact absurd rfl hxz; exact Or.inl h; exact Or.inr h
    rcases hy' with rfl | rfl
    · rcases hz' with rfl | rfl
      · exact absurd rfl hyz
      · -- the removal first, then the insert
        obtain ⟨d1, hd1, hres1, hr1⟩ := replay_cons_eq_some hr0
        have e1 : d1 = c1 := by simpa using hd1.symm
        subst e1
        rw [h1] at hres1 hr1
        have hs : specStep2 (specStep2 init (.ins v a)).1 (.condRm a) = (none, .none) := spec_condRm_same v a
        rw [hs] at hres1 hr1
        obtain ⟨d2, hd2, hres2, hr2⟩ := replay_cons_eq_some hr1
        have e2 : d2 = c2 := by simpa using hd2.symm
        subst e2
        rw [h2] at hres2 hr2
        simp only [replay2, Option.some.injEq] at hr2
        exact ⟨hr2.symm, hres0.symm, hres1.symm, Or.inr hres2.symm⟩
    · rcases hz' with rfl | rfl
      · -- the insert first: the conditional removal finds another id
        obtain ⟨d2, hd2, hres2, hr2⟩ := replay_cons_eq_some hr0
        have e2 : d2 = c2 := by simpa using hd2.symm
        subst e2
        rw [h2] at hres2 hr2
        obtain ⟨d1, hd1, hres1, hr1⟩ := replay_cons_eq_some hr2
        have e1 : d1 = c1 := by simpa using hd1.symm
        subst e1
        rw [h1] at hres1 hr1
        have hs : specStep2 (specStep2 (specStep2 init (.ins v a)).1 (.ins w b)).1 (.condRm a)
            = (some (w, b), .none) := spec_condRm_other (Ne.symm hab)
        rw [hs] at hres1 hr1
        simp only [replay2, Option.some.injEq] at hr1
        exact ⟨hr1.symm, hres0.symm, hres1.symm, Or.inl hres2.symm⟩
      · exact absurd rfl hyz

end Flurry.Lin2
