import Flurry.Lemmas.BinGLin
import Flurry.Lemmas.TableG
/-! # Proto/BinG: the keys stored in the nodes are keys some call carried (in EVERY reachable state)

`HK Q heap`: every node of the heap has a key that satisfies `Q`. A transition preserves it provided the
keys of the calls in flight satisfy `Q` (`KeysIn Q s`, `Lemmas/TableG.lean`): nodes are created only by
the stores of `insert` (`cas`, `store`, `prepend`: the key of the call) and by the copies made by
treeify, untreeify and transfer (`copyChain`, `splitBin`: the key of the source node, which is a node of
the list of a validated structure and hence inside the heap); every other store keeps the key of the
node it modifies. Used by `Lemmas/TableGHeapKeys.lean`: every node of lineage `i` of a table holds a key
of lineage `i`, quiescent or not. -/
namespace Flurry.Proto.BinG
open Flurry.Lin
open Flurry.Proto.BinK (nodeAt binAt lockSet chainOf CInv copiesOf copyChain_eq copiesOf_length copiesOf_get
  nodeAt_modify nodeAt_append_left nodeAt_append_new)

/-- every node of the heap has a key that satisfies `Q` -/
def HK (Q : Nat → Prop) (heap : List NodeS) : Prop := ∀ j, j < heap.length → Q (nodeAt heap j).key

namespace HK
variable {Q : Nat → Prop} {heap : List NodeS}

theorem modify (K : HK Q heap) (i : Nat) {f : NodeS → NodeS} (hf : ∀ n, (f n).key = n.key) :
    HK Q (heap.modify i f) := by
  intro j hj
  rw [List.length_modify] at hj
  rw [nodeAt_modify]
  split
  · rw [hf]; exact K j hj
  · exact K j hj

theorem lockSet (K : HK Q heap) (h : Nat) (x : Option Nat) : HK Q (lockSet heap h x) :=
  K.modify h (fun _ => rfl)

theorem append_one (K : HK Q heap) {n : NodeS} (hn : Q n.key) : HK Q (heap ++ [n]) := by
  intro j hj
  rw [List.length_append, List.length_singleton] at hj
  by_cases h : j < heap.length
  · rw [nodeAt_append_left _ h]; exact K j h
  · have : j = heap.length := by omega
    subst this
    rw [nodeAt_append_new]; exact hn

theorem copyChain (K : HK Q heap) {c : List Nat} (hc : ∀ i ∈ c, i < heap.length) {mk : NodeS → Option Nat → NodeS}
    (hmk : ∀ src nx, (mk src nx).key = src.key) : HK Q (BinK.copyChain heap c mk).1 := by
  rw [copyChain_eq]
  intro j hj
  simp only [List.length_append, copiesOf_length] at hj
  by_cases h : j < heap.length
  · rw [nodeAt_append_left _ h]; exact K j h
  · obtain ⟨d, rfl⟩ : ∃ d, j = heap.length + d := ⟨j - heap.length, by omega⟩
    have hd : d < c.length := by omega
    rw [copiesOf_get heap c mk hd, hmk]
    apply K
    apply hc
    rw [List.getD_eq_getElem?_getD, List.getElem?_eq_getElem hd]
    exact List.getElem_mem hd

theorem copyChain_len (c : List Nat) (mk : NodeS → Option Nat → NodeS) :
    heap.length ≤ (BinK.copyChain heap c mk).1.length := by
  rw [copyChain_eq]
  simp

theorem splitStep {acc : List NodeS × Option Nat × Option Nat} (K : HK Q acc.1) {i : Nat} (hi : i < acc.1.length) :
    HK Q (splitStep acc i).1 ∧ acc.1.length ≤ (BinG.splitStep acc i).1.length := by
  have hq : Q (acc.1.getD i dflt).key := K i hi
  unfold BinG.splitStep
  split
  · exact ⟨K.append_one hq, by simp⟩
  · exact ⟨K.append_one hq, by simp⟩

theorem splitFold : ∀ (l : List Nat) (acc : List NodeS × Option Nat × Option Nat), HK Q acc.1 →
    (∀ i ∈ l, i < acc.1.length) → HK Q (l.foldl BinG.splitStep acc).1
  | [], _, K, _ => K
  | i :: l, acc, K, hl => by
    rw [List.foldl_cons]
    obtain ⟨K', hle⟩ := K.splitStep (hl i List.mem_cons_self)
    refine splitFold l _ K' ?_
    intro j hj
    exact Nat.lt_of_lt_of_le (hl j (List.mem_cons_of_mem _ hj)) hle

theorem splitBin (K : HK Q heap) {c : List Nat} (hc : ∀ i ∈ c, i < heap.length) : HK Q (splitBin heap c).1 := by
  rw [splitBin_eq]
  refine splitFold _ _ K ?_
  intro i hi
  exact hc i (List.mem_of_mem_take hi)

end HK

/-- every node of the lineage has a key that satisfies `Q` -/
def HeapKeysIn (Q : Nat → Prop) (s : State) : Prop := HK Q s.heap

namespace HeapKeys
variable {Q : Nat → Prop}

theorem of_move {s : State} {t : Nat} {p : Pending} {pc pc' : Pc} {hp : List NodeS} (h : Move s t p pc pc' hp)
    (K : HK Q s.heap) : HK Q hp := by
  cases h <;> first | exact K | exact K.lockSet _ _

theorem of_fin {s : State} {p : Pending} {pc : Pc} {res : KRes} {hp : List NodeS} (h : Fin s p pc res hp)
    (K : HK Q s.heap) : HK Q hp := by
  cases h <;> first | exact K | exact K.lockSet _ _

theorem of_kmove {s : State} {t : Nat} {pc pc' : Pc} {hp : List NodeS} (h : KMove s t pc pc' hp)
    (K : HK Q s.heap) : HK Q hp := by
  cases h <;> first | exact K | exact K.lockSet _ _

theorem storeAt_hk (s : State) (tab : Tab) (p : Pending) (pred hit hnext : Option Nat) (K : HK Q s.heap)
    (hp : Q p.key) : HK Q (storeAt s tab p pred hit hnext).1.heap := by
  have hnew : ∀ v vi : Nat, HK Q (s.heap ++ [⟨p.key, (v, vi), none, none, false, none⟩]) :=
    fun v vi => K.append_one hp
  unfold storeAt
  cases p.op <;> cases hit <;> cases pred <;> simp only [setNode, setCell_heap] <;>
    first
    | exact K
    | exact K.modify _ (fun _ => rfl)
    | exact hnew _ _
    | exact (hnew _ _).modify _ (fun _ => rfl)

theorem unlinkOf_hk (s : State) (b i : Nat) (K : HK Q s.heap) : HK Q (unlinkOf s b i).heap := by
  unfold unlinkOf
  split
  · exact K.modify _ (fun _ => rfl)
  · exact K

theorem splitSide_hk (s : State) (b : Nat) (c : List Nat) (small reuse : Bool) (K : HK Q s.heap)
    (hc : ∀ i ∈ c, i < s.heap.length) :
    HK Q (splitSide s b c small reuse).1.heap ∧ s.heap.length ≤ (splitSide s b c small reuse).1.heap.length := by
  cases c with
  | nil => exact ⟨K, Nat.le_refl _⟩
  | cons a c =>
    cases small with
    | true =>
      refine ⟨?_, ?_⟩
      · show HK Q (BinK.copyChain s.heap (a :: c)
          (fun src nx => (⟨src.key, src.val, nx, none, false, none⟩ : NodeS))).1
        exact K.copyChain hc (by intros; rfl)
      · show s.heap.length ≤ (BinK.copyChain s.heap (a :: c)
          (fun src nx => (⟨src.key, src.val, nx, none, false, none⟩ : NodeS))).1.length
        exact HK.copyChain_len _ _
    | false =>
      cases reuse with
      | true => exact ⟨K, Nat.le_refl _⟩
      | false =>
        refine ⟨?_, ?_⟩
        · show HK Q (BinK.copyChain s.heap (a :: c)
            (fun src nx => (⟨src.key, src.val, nx, none, true, some s.tbins.length⟩ : NodeS))).1
          exact K.copyChain hc (by intros; rfl)
        · show s.heap.length ≤ (BinK.copyChain s.heap (a :: c)
            (fun src nx => (⟨src.key, src.val, nx, none, true, some s.tbins.length⟩ : NodeS))).1.length
          exact HK.copyChain_len _ _

theorem ysplitOf_hk (s : State) (b : Nat) (small small2 : Bool) (K : HK Q s.heap)
    (hc : ∀ i ∈ chainOfBin s b, i < s.heap.length) : HK Q (ysplitOf s b small small2).1.heap := by
  unfold ysplitOf
  dsimp only
  have hlo : ∀ i ∈ lowOf s b, i < s.heap.length := fun i hi => hc i (List.mem_filter.1 hi).1
  have hhi : ∀ i ∈ highOf s b, i < s.heap.length := fun i hi => hc i (List.mem_filter.1 hi).1
  obtain ⟨K1, hle⟩ := splitSide_hk s b (lowOf s b) small (highOf s b).isEmpty K hlo
  exact (splitSide_hk _ b (highOf s b) small2 (lowOf s b).isEmpty K1
    (fun i hi => Nat.lt_of_lt_of_le (hhi i hi) hle)).1

/-- the list of the structure in a cell lies inside the heap -/
theorem chain_lt_of_cell {s : State} (H : HInv s) {id : Cid} {c : Cell} (hc : cellAt s id = c) :
    ∀ i ∈ chainC s c, i < s.heap.length := by
  subst hc
  exact fun i hi => (H.cinv id).chain_lt hi

end HeapKeys

open HeapKeys in
/-- **the keys in the nodes stay in their class**: a transition of a lineage in which the keys of all
calls in flight satisfy `Q` keeps "every node has a key that satisfies `Q`" -/
theorem StepN.heapKeys {Q : Nat → Prop} {s s' : State} {t : Nat} {l : Local} (I : Inv s) (hl : s.threads[t]? = some l)
    (KP : ∀ p, l.call = some p → Q p.key) (K : HeapKeysIn Q s) (h : StepN s t l s') : HeapKeysIn Q s' := by
  unfold HeapKeysIn at K ⊢
  cases h with
  | idle h => exact K
  | maint k h => exact K
  | resizeStart h _ => exact K
  | invoke k op lo h => exact K
  | move p pc' hp hc hm => exact of_move hm K
  | bmove p pc' tb hc _ => exact K
  | kmove pc' hp hc hm => exact of_kmove hm K
  | kbmove pc' tb hc _ => exact K
  | fin p res hp hc hm => exact of_fin hm K
  | bfin p res tb hc _ => exact K
  | cas p tab v vi hc _ _ _ =>
    show HK Q (setCell _ tab p.key _).heap
    rw [setCell_heap]
    exact K.append_one (KP p hc)
  | store p tab h pred hit hnext hc _ => exact storeAt_hk (tick s) tab p pred hit hnext K (KP p hc)
  | tval p tab b i v res hc _ => exact K.modify _ (fun _ => rfl)
  | prepend p tab b v vi hc _ _ => exact K.append_one (KP p hc)
  | treeLink p tab b x hc _ => exact K.modify _ (fun _ => rfl)
  | unlink p tab b i res small hc _ => exact unlinkOf_hk (tick s) b i K
  | untree p tab b i res hc _ => exact K.modify _ (fun _ => rfl)
  | untreeify p tab b res hc hpc =>
    show HK Q (setCell _ tab p.key _).heap
    rw [setCell_heap]
    have hcell := I.lock.vT t l b hl (by rw [hpc]; rfl)
    exact K.copyChain (mk := fun src nx => (⟨src.key, src.val, nx, none, false, none⟩ : NodeS))
      (chain_lt_of_cell I.heap hcell) (by intros; rfl)
  | kbuild tab k h hc hpc =>
    have hcell := I.lock.vL t l h hl (by rw [hpc]; rfl)
    exact K.copyChain (mk := fun src nx => (⟨src.key, src.val, nx, none, true, some s.tbins.length⟩ : NodeS))
      (chain_lt_of_cell I.heap hcell) (by intros; rfl)
  | kstore tab k h b hc _ =>
    show HK Q (setCell (tick s) tab k (.tree b)).heap
    rw [setCell_heap]
    exact K
  | xcasMoved hc _ _ => exact K
  | xbuild h hc hpc =>
    have hcell := I.lock.vL t l h hl (by rw [hpc]; rfl)
    exact K.splitBin (chain_lt_of_cell I.heap hcell)
  | ybuild b small small2 hc hpc =>
    have hcell := I.lock.vT t l b hl (by rw [hpc]; rfl)
    exact ysplitOf_hk (tick s) b small small2 K (chain_lt_of_cell I.heap hcell)
  | xstoreLow unl lo hi hc _ => exact K
  | xstoreHigh unl hi hc _ => exact K
  | xstoreMoved unl hc _ => exact K
  | xcommit hc _ => exact K

theorem init_heapKeysIn (Q : Nat → Prop) (n : Nat) : HeapKeysIn Q (init n) := by
  intro j hj
  simp [init] at hj

/-- a step preserves "every node has a key that satisfies `Q`" if the calls in flight have such keys
(an idle thread's step changes no node) -/
theorem step_heapKeysIn {Q : Nat → Prop} {s s' : State} {t : Nat} {inv : Option (Nat × KOp)} {lo : Bool}
    {mt : Option Nat} {rz sm sm2 : Bool} (I : Inv s) (KI : KeysIn Q s) (K : HeapKeysIn Q s)
    (hs : step s t inv lo mt rz sm sm2 = some s') : HeapKeysIn Q s' := by
  cases hl : s.threads[t]? with
  | none =>
    unfold step stepG at hs
    simp only [hl] at hs
    cases hs
  | some l => exact (step_stepN hl hs).heapKeys I hl (fun p hp => KI.pend t l p hl hp) K

end Flurry.Proto.BinG
