import Flurry.Lemmas.BinGNPInvW
/-! # Proto/BinGN (port of `Lemmas/BinGFactsT1.lean`): the stores of a tree-bin writer that change one field of one node

`tval_facts` (the value store, a linearization point), `treeLink_facts` (the freshly prepended node is linked into
the tree), `untree_facts` (the unlinked node is taken out of the tree): each establishes `Eff s s'` and describes
the abstract states.

* `T1.TW tab b pc`: what the three program counters and their successors have in common (a tree-form writer of
  generation `tab` that holds the mutex of `b`);
* `T1.treeSub_self`, `T1.chainSub_self`: the exceptions of `DInv.treeSub` / `DInv.chainSub` for the bin whose mutex
  the acting thread holds are about the acting thread itself;
* `T1.eff_tree_store`: the common assembly (`TInv`, `LInv`, `inv_store`, `kstep_of_store`, `eff_store`).

Differences from the BinG original: `tab : Nat` (a generation); `TW.cid` quantifies over the state (`cidOf s`);
`T1.privBin_back` and `T1.eff_tree_store` take `hcur : s'.cur = s.cur`; `T1.eff_tree_store` takes
`XS' : XShape s'` and no `hres`; every `_facts` lemma concludes
`XShape s' → (Eff s s' ∧ …)` (as in `Lemmas/BinGNPFactsX.lean`). -/
namespace Flurry.Proto.BinGNP
open Flurry.Lin
open Flurry.Proto.BinK (nodeAt binAt NextOK IsChain IsSeg chainOf CInv absL HeapStep get_set get_set_self get_set_ne
  absL_eq_some_iff)
open Store InvW

namespace T1

/-- a tree-form writer of table `tab` holding the mutex of `b` -/
structure TW (tab : Nat) (b : Nat) (pc : Pc) : Prop where
  cid : ∀ (s : State) (p : Pending), cidOf s ⟨pc, some p⟩ = idOf tab p.key
  tab : tabOf pc = some tab
  x : xPc pc = false
  nc : noCallPc pc = false
  rd : readerPc pc = false
  lk : holdsLock pc = none
  vL : validL pc = none
  mx : holdsMutex pc = some b
  hr : holdsRead pc = none
  br : binRef pc = some b
  lp : isLoop pc = false
  pend : ∀ s : State, pend s pc = []
  nk : ∀ tab k h b, pc ≠ .kStore tab k h b

theorem tw_tVal (tab : Nat) (b i : Nat) (v : Nat × Nat) (res : KRes) : TW tab b (.tVal tab b i v res) :=
  ⟨fun _ _ => rfl, rfl, rfl, rfl, rfl, rfl, rfl, rfl, rfl, rfl, rfl, fun _ => rfl, fun _ _ _ _ h => by cases h⟩

theorem tw_tTreeLinkLocked (tab : Nat) (b x : Nat) : TW tab b (.tTreeLinkLocked tab b x) :=
  ⟨fun _ _ => rfl, rfl, rfl, rfl, rfl, rfl, rfl, rfl, rfl, rfl, rfl, fun _ => rfl, fun _ _ _ _ h => by cases h⟩

theorem tw_tRestructure (tab : Nat) (b i : Nat) (res : KRes) : TW tab b (.tRestructure tab b i res) :=
  ⟨fun _ _ => rfl, rfl, rfl, rfl, rfl, rfl, rfl, rfl, rfl, rfl, rfl, fun _ => rfl, fun _ _ _ _ h => by cases h⟩

theorem tw_tUnlockM (tab : Nat) (b : Nat) (res : KRes) (retry : Bool) : TW tab b (.tUnlockM tab b res retry) :=
  ⟨fun _ _ => rfl, rfl, rfl, rfl, rfl, rfl, rfl, rfl, rfl, rfl, rfl, fun _ => rfl, fun _ _ _ _ h => by cases h⟩

theorem tw_tUnlockRoot (tab : Nat) (b : Nat) (res : KRes) : TW tab b (.tUnlockRoot tab b res) :=
  ⟨fun _ _ => rfl, rfl, rfl, rfl, rfl, rfl, rfl, rfl, rfl, rfl, rfl, fun _ => rfl, fun _ _ _ _ h => by cases h⟩

/-- the holder of a mutex is unique -/
theorem mutex_unique {s : State} (L : LInv s) {t t0 : Nat} {l l0 : Local} {b : Nat}
    (hl : s.threads[t]? = some l) (hl0 : s.threads[t0]? = some l0)
    (h : holdsMutex l.pc = some b) (h0 : holdsMutex l0.pc = some b) : t0 = t := by
  have e1 := (L.mx t l b hl).1 h
  have e2 := (L.mx t0 l0 b hl0).1 h0
  rw [e1] at e2
  exact (Option.some.inj e2).symm

/-- a node in the tree of the bin whose mutex thread `t` holds that is not on its list: thread `t` itself is
about to take it out of the tree (or to untreeify) -/
theorem treeSub_self {s : State} {t : Nat} {l : Local} {id : Cid} {b j : Nat} (I : Inv s)
    (hl : s.threads[t]? = some l) (hm : holdsMutex l.pc = some b) (hcell : cellAt s id = .tree b)
    (hj : j < s.heap.length) (ho : (nodeAt s.heap j).owner = some b) (hin : (nodeAt s.heap j).inTree = true)
    (hnc : j ∉ chainOfBin s b) :
    (∃ tab res, l.pc = .tRestructure tab b j res) ∨ (∃ tab res, l.pc = .tUntreeify tab b res) := by
  obtain ⟨t0, l0, h0, hw⟩ := I.data.treeSub id b hcell j hj ho hin hnc
  have hm0 : holdsMutex l0.pc = some b := by
    rcases hw with ⟨tab, res, e⟩ | ⟨tab, res, e⟩ <;> rw [e] <;> rfl
  have := mutex_unique I.lock hl h0 hm hm0
  subst this
  rw [hl] at h0; cases h0
  exact hw

/-- a node on the list of the bin whose mutex thread `t` holds that is not in its tree: thread `t` itself is
about to link it -/
theorem chainSub_self {s : State} {t : Nat} {l : Local} {id : Cid} {b j : Nat} (I : Inv s)
    (hl : s.threads[t]? = some l) (hm : holdsMutex l.pc = some b) (hcell : cellAt s id = .tree b)
    (hj : j ∈ chainOfBin s b) (hin : (nodeAt s.heap j).inTree = false) :
    ∃ tab, l.pc = .tTreeLinkLocked tab b j := by
  obtain ⟨t0, l0, tab, h0, hw⟩ := I.data.chainSub id b hcell j hj hin
  have hm0 : holdsMutex l0.pc = some b := by rw [hw]; rfl
  have := mutex_unique I.lock hl h0 hm hm0
  subst this
  rw [hl] at h0; cases h0
  exact ⟨tab, hw⟩

/-- no `TreeBin` becomes private when a thread moves to a program counter without pending structures -/
theorem privBin_back {s s' : State} {t : Nat} {l' : Local} (hthr : s'.threads = s.threads.set t l')
    (hcells : ∀ id', cellAt s' id' = cellAt s id') (hcur : s'.cur = s.cur) (hpend : pend s' l'.pc = []) {b : Nat}
    (h : PrivBin s' b) : PrivBin s b := by
  obtain ⟨t1, l1, h1, hp1, hc⟩ := h
  rw [hthr] at h1
  rcases get_set h1 with ⟨rfl, rfl⟩ | ⟨_, h1⟩
  · rw [hpend] at hp1; cases hp1
  · rw [pend_congr hcur (fun j0 _ => ⟨hcells _, hcells _⟩)] at hp1
    exact ⟨t1, l1, h1, hp1, fun j hj => by rw [← hcur, ← hcells]; exact hc j hj⟩

/-- the common assembly: a store of a tree-form writer into one node of the structure of its cell that leaves
`next` fields, lock words, the `TreeBin` table and the cells alone -/
theorem eff_tree_store {s s' : State} {t : Nat} {p : Pending} {tab : Nat} {b : Nat} {pc pc' : Pc}
    (I : Inv s) (hl : s.threads[t]? = some ⟨pc, some p⟩)
    (P : TW tab b pc) (P' : TW tab b pc') (hvT : validT pc = some b)
    (hvT' : validT pc' = none ∨ validT pc' = some b) (hwr : wr pc' = wr pc)
    (hself : PcInv s' p pc')
    (W : Writable s (idOf tab p.key))
    (hthr : s'.threads = s.threads.set t ⟨pc', some p⟩)
    (hnow : s'.now = s.now + 1) (hhist : s'.hist = s.hist) (htb : s'.tbins = s.tbins)
    (hcells : ∀ id', cellAt s' id' = cellAt s id') (hcur : s'.cur = s.cur)
    (H' : HInv s') (XS' : XShape s') (T : Touch s s' (idOf tab p.key))
    (hs : HeapStep s.heap (chainC s (cellAt s (idOf tab p.key))) (fun _ => False) s'.heap
      (chainC s' (cellAt s' (idOf tab p.key))) (fun _ => False))
    (hlock : ∀ h, (nodeAt s'.heap h).lock = (nodeAt s.heap h).lock)
    (htree : ∀ j, j < s'.heap.length → (nodeAt s'.heap j).owner = some b → (nodeAt s'.heap j).inTree = true →
      j ∈ chainOfBin s' b)
    (hchain : ∀ j ∈ chainOfBin s' b, (nodeAt s'.heap j).inTree = true) : Eff s s' := by
  have H := I.heap
  have X := I.rsz
  have hcid : cidOf s ⟨pc, some p⟩ = idOf tab p.key := P.cid s p
  have hcid' : cidOf s ⟨pc', some p⟩ = idOf tab p.key := P'.cid s p
  have hcellb : cellAt s (idOf tab p.key) = .tree b := by
    have := I.lock.vT t ⟨pc, some p⟩ b hl hvT
    rw [hcid] at this; exact this
  have hnm : cellAt s' (idOf tab p.key) ≠ .moved := by rw [hcells]; exact W.not_moved X
  have hpend' : pend s' (⟨pc', some p⟩ : Local).pc = [] := P'.pend s'
  -- threads and times
  have T' : TInv s' := by
    refine tinv_keep (l' := ⟨pc', some p⟩) I.thr hl hthr hnow hhist rfl ?_ ?_
    · show (some p = none) ↔ noCallPc pc' = true
      rw [P'.nc]; simp
    · intro p1 hp1 _
      cases hp1
      have := I.thr.opOK t ⟨pc, some p⟩ p hl rfl P.nc
      show isReader p.op = readerPc pc'
      rw [P'.rd, this]; exact P.rd
  -- the locks
  have L' : LInv s' := by
    refine linv_same (l' := ⟨pc', some p⟩) I.lock hl hcells hthr hcur (by rw [htb]) (fun b' => by rw [htb]; exact ⟨rfl, rfl, rfl, rfl⟩)
      (lockfun_same I.lock hl (by show holdsLock pc' = holdsLock pc; rw [P'.lk, P.lk]) hlock) ?_ ?_ ?_ ?_ ?_ ?_ ?_ ?_
    · intro h hh
      have : holdsLock pc' = some h := hh
      rw [P'.lk] at this; cases this
    · intro h hh
      have : validL pc' = some h := hh
      rw [P'.vL] at this; cases this
    · intro b' hb'
      have hb'' : validT pc' = some b' := hb'
      rw [hcid']
      rcases hvT' with h | h
      · rw [h] at hb''; cases hb''
      · rw [h] at hb''; cases hb''; exact hcellb
    · show holdsMutex pc' = holdsMutex pc
      rw [P'.mx, P.mx]
    · show holdsRead pc' = holdsRead pc
      rw [P'.hr, P.hr]
    · intro b' _ _
      refine ⟨hwr, fun h => ?_⟩
      have : isLoop pc = true := h
      rw [P.lp] at this; cases this
    · intro b' hb'
      have hb'' : binRef pc' = some b' := hb'
      left
      show binRef pc = some b'
      rw [P.br]; rw [P'.br] at hb''; exact hb''
    · intro b' _ hpb
      exact privBin_back hthr hcells hcur hpend' hpb
  -- the structural invariant
  have hcb' : ∀ b', cellAt s' (idOf tab p.key) = .tree b' → b' = b := by
    intro b' h
    rw [hcells, hcellb] at h
    cases h; rfl
  have Iv' : Inv s' := by
    refine inv_store (l' := ⟨pc', some p⟩) I W T hl (Or.inl ⟨validated_of_validT hvT, hcid⟩) hthr H' T' L' XS' P'.x
      ?_ ?_ (KInv_of_not_kStore P'.nk) ?_ ?_
    · intro b' h
      left; rw [hcells] at h; exact h
    · intro p1 hp1
      cases hp1
      exact hself
    · intro b' hc j hj ho hin hnc
      have := hcb' b' hc
      subst this
      exact absurd (htree j hj ho hin) hnc
    · intro b' hc j hj hin
      have := hcb' b' hc
      subst this
      rw [hchain j hj] at hin; cases hin
  -- the walkers
  have ks : ∀ k, KStep s s' k :=
    kstep_of_store (l' := ⟨pc', some p⟩) I W H' T hs (fun _ h => h.elim) (fun id' => by rw [hcells]) hl hthr
      (fun tab1 k1 h1 b1 e => absurd e (P'.nk tab1 k1 h1 b1))
      (fun h => by
        have : xPc pc' = true := h
        rw [P'.x] at this; cases this)
  refine eff_store Iv' I W T ks hnm ?_ ?_ ?_ ?_ ?_
  · intro b' _ hne
    rw [htb] at hne; exact absurd rfl hne
  · intro b' k hc _
    rw [hcells]; exact hc
  · intro b' _ hw
    left; rw [htb]; exact hw
  · intro b' hc
    left; rw [hcells]; exact hc
  · intro b' hc
    left; rw [hcells] at hc; exact hc

end T1

/-! ## the three stores -/

/-- the value store of a tree-bin writer (`tVal`): the linearization point of a replace / update of a present key -/
theorem tval_facts {s : State} {t : Nat} {l : Local} {p : Pending} {tab : Nat} {b i : Nat} {v : Nat × Nat} {res : KRes}
    (I : Inv s) (hl : s.threads[t]? = some l) (hp : l.call = some p) (hpc : l.pc = .tVal tab b i v res) :
    let s' := setT (setNode (tick s) i (fun n => { n with val := v })) t { l with pc := .tUnlockM tab b res false }
    XShape s' →
      (Eff s s' ∧ specStep (absOf s p.key) p.op = (absOf s' p.key, res) ∧ ∀ k, k ≠ p.key → absOf s' k = absOf s k) := by
  intro s' XS'
  obtain ⟨pc0, call0⟩ := l
  simp only at hp hpc
  subst hp hpc
  have H := I.heap
  have X := I.rsz
  have P := T1.tw_tVal tab b i v res
  have h0 := I.data.pcInv t _ p hl rfl
  simp only [PcInv] at h0
  obtain ⟨hi, hkey0, hspec⟩ := h0
  have hvT : validT (.tVal tab b i v res) = some b := rfl
  have hcellb : cellAt s (idOf tab p.key) = .tree b := I.lock.vT t _ b hl hvT
  have W : Writable s (idOf tab p.key) := I.writable_valid hl (validated_of_validT hvT) rfl
  have hre : ∀ b' j0, Reusing s b' j0 → Reusing s' b' j0 :=
    reusing_of_set_pc (s' := s') (l' := ⟨_, some p⟩) rfl hl ⟨fun _ _ _ h => (by cases h), fun _ _ h => (by cases h)⟩
  have hi' : i ∈ chainC s (cellAt s (idOf tab p.key)) := by rw [hcellb]; exact hi
  obtain ⟨H', T, hs, hlc, hnode, habs⟩ := sval_store (s' := s') H X W hi' rfl rfl (fun _ => rfl) rfl hre
  have hlen : s'.heap.length = s.heap.length := by
    show (s.heap.modify i _).length = _
    rw [List.length_modify]
  have hfield : ∀ j, (nodeAt s'.heap j).inTree = (nodeAt s.heap j).inTree ∧
      (nodeAt s'.heap j).owner = (nodeAt s.heap j).owner ∧ (nodeAt s'.heap j).lock = (nodeAt s.heap j).lock := by
    intro j; rw [hnode]; split <;> exact ⟨rfl, rfl, rfl⟩
  have hcb' : chainOfBin s' b = chainOfBin s b := by
    have h1 : cellAt s' (idOf tab p.key) = .tree b := hcellb
    rw [h1, hcellb] at hlc; exact hlc
  refine ⟨?_, ?_, ?_⟩
  · refine T1.eff_tree_store (pc' := .tUnlockM tab b res false) I hl P (T1.tw_tUnlockM tab b res false) hvT (Or.inl rfl) rfl
      (by simp only [PcInv]) W rfl rfl rfl rfl (fun _ => rfl) rfl H' XS' T hs (fun h => (hfield h).2.2) ?_ ?_
    · intro j hj ho hin
      rw [(hfield j).1] at hin; rw [(hfield j).2.1] at ho; rw [hlen] at hj; rw [hcb']
      apply Classical.byContradiction
      intro hnc
      rcases T1.treeSub_self I hl P.mx hcellb hj ho hin hnc with ⟨_, _, e⟩ | ⟨_, _, e⟩ <;> cases e
    · intro j hj
      rw [hcb'] at hj
      rw [(hfield j).1]
      cases hin : (nodeAt s.heap j).inTree with
      | true => rfl
      | false =>
        obtain ⟨_, e⟩ := T1.chainSub_self I hl P.mx hcellb hj hin
        cases e
  · have hlive : liveId s p.key = idOf tab p.key := by
      have := W.liveId_of_mem H (Or.inl hi')
      rw [hkey0] at this; exact this
    have habs0 : absOf s p.key = some (nodeAt s.heap i).val := by
      rw [absOf_eq, LC_eq_live X.newNotMoved, hlive]
      exact (absL_eq_some_iff (H.cinv (idOf tab p.key)).distinct).2 ⟨i, hi', hkey0, rfl⟩
    rw [habs p.key, if_pos hkey0, habs0]
    exact hspec
  · intro k hk
    rw [habs k, if_neg (by rw [hkey0]; exact fun e => hk e.symm)]

/-- linking the freshly prepended node into the tree (`tTreeLinkLocked`) -/
theorem treeLink_facts {s : State} {t : Nat} {l : Local} {p : Pending} {tab : Nat} {b x : Nat}
    (I : Inv s) (hl : s.threads[t]? = some l) (hp : l.call = some p) (hpc : l.pc = .tTreeLinkLocked tab b x) :
    let s' := setT (setNode (tick s) x (fun n => { n with inTree := true })) t { l with pc := .tUnlockRoot tab b .none }
    XShape s' → (Eff s s' ∧ ∀ k, absOf s' k = absOf s k) := by
  intro s' XS'
  obtain ⟨pc0, call0⟩ := l
  simp only at hp hpc
  subst hp hpc
  have H := I.heap
  have X := I.rsz
  have P := T1.tw_tTreeLinkLocked tab b x
  have h0 := I.data.pcInv t _ p hl rfl
  simp only [PcInv] at h0
  obtain ⟨hx, hxin, hxk, hfresh⟩ := h0
  have hvT : validT (.tTreeLinkLocked tab b x) = some b := rfl
  have hcellb : cellAt s (idOf tab p.key) = .tree b := I.lock.vT t _ b hl hvT
  have W : Writable s (idOf tab p.key) := I.writable_valid hl (validated_of_validT hvT) rfl
  have hre : ∀ b' j0, Reusing s b' j0 → Reusing s' b' j0 :=
    reusing_of_set_pc (s' := s') (l' := ⟨_, some p⟩) rfl hl ⟨fun _ _ _ h => (by cases h), fun _ _ h => (by cases h)⟩
  have hx' : x ∈ chainC s (cellAt s (idOf tab p.key)) := by rw [hcellb]; exact hx
  have hxl : x < s.heap.length := (H.cinv (idOf tab p.key)).chain_lt hx'
  obtain ⟨H', T, hs, hlc, hlen, hnode, habs⟩ := sflag_store (s' := s') (x := true) H X W (Or.inl hx') rfl rfl
    (fun _ => rfl) rfl hre (fun _ => hx')
  have hfield : ∀ j, (nodeAt s'.heap j).owner = (nodeAt s.heap j).owner ∧ (nodeAt s'.heap j).lock = (nodeAt s.heap j).lock ∧
      (j ≠ x → (nodeAt s'.heap j).inTree = (nodeAt s.heap j).inTree) := by
    intro j; rw [hnode]; split
    · rename_i h; exact ⟨rfl, rfl, fun hne => absurd h.1 hne⟩
    · exact ⟨rfl, rfl, fun _ => rfl⟩
  have hcb' : chainOfBin s' b = chainOfBin s b := by
    have h1 : cellAt s' (idOf tab p.key) = .tree b := hcellb
    rw [h1, hcellb] at hlc; exact hlc
  refine ⟨?_, habs⟩
  refine T1.eff_tree_store (pc' := .tUnlockRoot tab b .none) I hl P (T1.tw_tUnlockRoot tab b .none) hvT (Or.inr rfl) rfl
    (by simp only [PcInv]) W rfl rfl rfl rfl (fun _ => rfl) rfl H' XS' T hs (fun h => (hfield h).2.1) ?_ ?_
  · intro j hj ho hin
    rw [hlen] at hj; rw [hcb']
    by_cases hjx : j = x
    · subst hjx; exact hx
    · rw [(hfield j).2.2 hjx] at hin; rw [(hfield j).1] at ho
      apply Classical.byContradiction
      intro hnc
      rcases T1.treeSub_self I hl P.mx hcellb hj ho hin hnc with ⟨_, _, e⟩ | ⟨_, _, e⟩ <;> cases e
  · intro j hj
    rw [hcb'] at hj
    by_cases hjx : j = x
    · subst hjx
      rw [hnode, if_pos ⟨rfl, hxl⟩]
    · rw [(hfield j).2.2 hjx]
      cases hin : (nodeAt s.heap j).inTree with
      | true => rfl
      | false =>
        obtain ⟨_, e⟩ := T1.chainSub_self I hl P.mx hcellb hj hin
        cases e
        exact absurd rfl hjx

/-- taking the unlinked node out of the tree (`tRestructure`) -/
theorem untree_facts {s : State} {t : Nat} {l : Local} {p : Pending} {tab : Nat} {b i : Nat} {res : KRes}
    (I : Inv s) (hl : s.threads[t]? = some l) (hp : l.call = some p) (hpc : l.pc = .tRestructure tab b i res) :
    let s' := setT (setNode (tick s) i (fun n => { n with inTree := false })) t { l with pc := .tUnlockRoot tab b res }
    XShape s' → (Eff s s' ∧ ∀ k, absOf s' k = absOf s k) := by
  intro s' XS'
  obtain ⟨pc0, call0⟩ := l
  simp only at hp hpc
  subst hp hpc
  have H := I.heap
  have X := I.rsz
  have P := T1.tw_tRestructure tab b i res
  have h0 := I.data.pcInv t _ p hl rfl
  simp only [PcInv] at h0
  obtain ⟨hi, hin0, hil, hio⟩ := h0
  have hvT : validT (.tRestructure tab b i res) = some b := rfl
  have hcellb : cellAt s (idOf tab p.key) = .tree b := I.lock.vT t _ b hl hvT
  have W : Writable s (idOf tab p.key) := I.writable_valid hl (validated_of_validT hvT) rfl
  have hre : ∀ b' j0, Reusing s b' j0 → Reusing s' b' j0 :=
    reusing_of_set_pc (s' := s') (l' := ⟨_, some p⟩) rfl hl ⟨fun _ _ _ h => (by cases h), fun _ _ h => (by cases h)⟩
  have hit : treeOf s (cellAt s (idOf tab p.key)) i := ⟨hil, hin0, b, hcellb, hio⟩
  obtain ⟨H', T, hs, hlc, hlen, hnode, habs⟩ := sflag_store (s' := s') (x := false) H X W (Or.inr hit) rfl rfl
    (fun _ => rfl) rfl hre (fun h => by cases h)
  have hfield : ∀ j, (nodeAt s'.heap j).owner = (nodeAt s.heap j).owner ∧ (nodeAt s'.heap j).lock = (nodeAt s.heap j).lock ∧
      (j ≠ i → (nodeAt s'.heap j).inTree = (nodeAt s.heap j).inTree) := by
    intro j; rw [hnode]; split
    · rename_i h; exact ⟨rfl, rfl, fun hne => absurd h.1 hne⟩
    · exact ⟨rfl, rfl, fun _ => rfl⟩
  have hcb' : chainOfBin s' b = chainOfBin s b := by
    have h1 : cellAt s' (idOf tab p.key) = .tree b := hcellb
    rw [h1, hcellb] at hlc; exact hlc
  refine ⟨?_, habs⟩
  refine T1.eff_tree_store (pc' := .tUnlockRoot tab b res) I hl P (T1.tw_tUnlockRoot tab b res) hvT (Or.inr rfl) rfl
    (by simp only [PcInv]) W rfl rfl rfl rfl (fun _ => rfl) rfl H' XS' T hs (fun h => (hfield h).2.1) ?_ ?_
  · intro j hj ho hin
    rw [hlen] at hj; rw [hcb']
    by_cases hji : j = i
    · subst hji
      rw [hnode, if_pos ⟨rfl, hil⟩] at hin
      cases hin
    · rw [(hfield j).2.2 hji] at hin; rw [(hfield j).1] at ho
      apply Classical.byContradiction
      intro hnc
      rcases T1.treeSub_self I hl P.mx hcellb hj ho hin hnc with ⟨_, _, e⟩ | ⟨_, _, e⟩
      · cases e; exact hji rfl
      · cases e
  · intro j hj
    rw [hcb'] at hj
    have hji : j ≠ i := fun e => hi (e ▸ hj)
    rw [(hfield j).2.2 hji]
    cases hin : (nodeAt s.heap j).inTree with
    | true => rfl
    | false =>
      obtain ⟨_, e⟩ := T1.chainSub_self I hl P.mx hcellb hj hin
      cases e

end Flurry.Proto.BinGNP
