import Flurry.Lemmas.BinXGhost
/-! # Proto/BinX: the ghost invariant holds in every reachable state (C01, C10)

`GInv`: the ghost invariant (trace `A`, points `pt`, hindsight justification of every reader);
`ginv_step`: every transition preserves `∃ A pt, GInv`. Linearization points: lock-holding writers at
their single store (`wStore`), the lock-free insert at its successful CAS, writers and readers that see
an empty cell at that load, readers *in hindsight* (`Good`). The transfer has no point: none of its
steps changes the abstract state of any key. -/
namespace Flurry.Proto.BinX
open Flurry.Lin

/-- the call has a linearization point in its interval at which the trace `A` justifies it -/
def CallOK (A : Nat → KSt) (pt : Nat → Nat) (c : Call) : Prop :=
  c.inv ≤ pt c.inv ∧ pt c.inv ≤ c.resp ∧
  (isRead c.op = true → specStep (A (pt c.inv)) c.op = (A (pt c.inv), c.res)) ∧
  (isRead c.op = false → 1 ≤ pt c.inv ∧ specStep (A (pt c.inv - 1)) c.op = (A (pt c.inv), c.res))

theorem CallOK.sim {A A' : Nat → KSt} {pt pt' : Nat → Nat} {c c' : Call} {T : Nat}
    (h : CallOK A pt c) (hs : Sim c c') (hresp : c.resp ≤ T) (hA' : ∀ τ, τ ≤ T → A' τ = A τ)
    (hpt' : pt' c.inv = pt c.inv) : CallOK A' pt' c' := by
  obtain ⟨h1, h2, h3, h4⟩ := h
  obtain ⟨_, s2, s3, s4, s5⟩ := hs
  unfold CallOK
  rw [s4, s2, s3, hpt', hA' _ (by omega : pt c.inv ≤ T), hA' _ (by omega : pt c.inv - 1 ≤ T)]
  exact ⟨h1, by omega, h3, h4⟩

structure GInv (k : Nat) (s : State) (G : Ghost) (A : Nat → KSt) (pt : Nat → Nat) : Prop where
  h0 : A 0 = none
  hA : A s.now = absOf s k
  calls : ∀ c ∈ callsOnExt s k, CallOK A pt c
  stab : ∀ τ, 1 ≤ τ → τ ≤ s.now → A τ ≠ A (τ - 1) →
    ∃ c ∈ callsOnExt s k, isRead c.op = false ∧ pt c.inv = τ
  inj : ∀ c ∈ callsOnExt s k, ∀ d ∈ callsOnExt s k, isRead c.op = false → isRead d.op = false →
    pt c.inv = pt d.inv → c.inv = d.inv
  readers : ∀ (t : Nat) (l : Local) (p : Pending) (cur : Option Nat), s.threads[t]? = some l →
    l.call = some p → p.key = k → l.pc = .rNode cur → Good G.cr A k p.inv s cur

/-- the trace extended by the abstract state after the step -/
def nextA (A : Nat → KSt) (now : Nat) (x : KSt) : Nat → KSt := fun τ => if τ = now + 1 then x else A τ

theorem nextA_old {A : Nat → KSt} {now : Nat} {x : KSt} {τ : Nat} (h : τ ≤ now) : nextA A now x τ = A τ := by
  unfold nextA; rw [if_neg (by omega)]

theorem nextA_new {A : Nat → KSt} {now : Nat} {x : KSt} : nextA A now x (now + 1) = x := by
  unfold nextA; rw [if_pos rfl]

/-- point-wise update of the point assignment -/
def updPt (pt : Nat → Nat) (i τ : Nat) : Nat → Nat := fun j => if j = i then τ else pt j

theorem updPt_self (pt : Nat → Nat) (i τ : Nat) : updPt pt i τ i = τ := by
  unfold updPt; rw [if_pos rfl]

theorem updPt_ne (pt : Nat → Nat) {i j : Nat} (τ : Nat) (h : j ≠ i) : updPt pt i τ j = pt j := by
  unfold updPt; rw [if_neg h]

/-- the generic part of the preservation of `GInv` -/
theorem GInv.frame {k : Nat} {s s' : State} {G G' : Ghost} {A : Nat → KSt} {pt pt' : Nat → Nat} {i0 : Nat}
    (g : GInv k s G A pt) (T : TInv s) (hnow : s'.now = s.now + 1)
    (hpt' : ∀ c ∈ callsOnExt s k, pt' c.inv = pt c.inv)
    (hF : ∀ c ∈ callsOnExt s k, ∃ c' ∈ callsOnExt s' k, Sim c c')
    (hB : ∀ c' ∈ callsOnExt s' k, (∃ c ∈ callsOnExt s k, Sim c c') ∨
      (c'.inv = i0 ∧ CallOK (nextA A s.now (absOf s' k)) pt' c' ∧ (isRead c'.op = false → pt' c'.inv = s.now + 1)))
    (hchg : absOf s' k ≠ absOf s k → ∃ c' ∈ callsOnExt s' k, isRead c'.op = false ∧ pt' c'.inv = s.now + 1)
    (hreaders : ∀ (t : Nat) (l : Local) (p : Pending) (cur : Option Nat), s'.threads[t]? = some l →
      l.call = some p → p.key = k → l.pc = .rNode cur → Good G'.cr (nextA A s.now (absOf s' k)) k p.inv s' cur) :
    GInv k s' G' (nextA A s.now (absOf s' k)) pt' := by
  have hold : ∀ τ, τ ≤ s.now → nextA A s.now (absOf s' k) τ = A τ := fun τ h => nextA_old h
  refine ⟨?_, ?_, ?_, ?_, ?_, hreaders⟩
  · rw [hold 0 (Nat.zero_le _)]; exact g.h0
  · rw [hnow, nextA_new]
  · intro c' hc'
    rcases hB c' hc' with ⟨c, hc, hsim⟩ | ⟨-, hok, -⟩
    · exact (g.calls c hc).sim hsim (callsOnExt_resp_le T hc) hold (hpt' c hc)
    · exact hok
  · intro τ h1 h2 hne
    rw [hnow] at h2
    rcases Nat.lt_or_ge τ (s.now + 1) with hlt | hge
    · rw [hold τ (by omega), hold (τ - 1) (by omega)] at hne
      obtain ⟨c, hc, hw, hp⟩ := g.stab τ h1 (by omega) hne
      obtain ⟨c', hc', hsim⟩ := hF c hc
      refine ⟨c', hc', by rw [hsim.2.1]; exact hw, ?_⟩
      rw [hsim.2.2.2.1, hpt' c hc]; exact hp
    · have hτ : τ = s.now + 1 := by omega
      subst hτ
      rw [nextA_new, Nat.add_sub_cancel, hold s.now (Nat.le_refl _), g.hA] at hne
      exact hchg hne
  · intro c' hc' d' hd' hwc hwd hpe
    rcases hB c' hc' with ⟨c, hc, hsc⟩ | ⟨hci, -, hcp⟩ <;> rcases hB d' hd' with ⟨d, hd, hsd⟩ | ⟨hdi, -, hdp⟩
    · rw [hsc.2.2.2.1, hsd.2.2.2.1]
      rw [hsc.2.2.2.1, hsd.2.2.2.1, hpt' c hc, hpt' d hd] at hpe
      exact g.inj c hc d hd (by rw [← hsc.2.1]; exact hwc) (by rw [← hsd.2.1]; exact hwd) hpe
    · exfalso
      have h1 := (g.calls c hc).2.1
      have h2 := callsOnExt_resp_le T hc
      rw [hsc.2.2.2.1, hpt' c hc, hdp hwd] at hpe
      omega
    · exfalso
      have h1 := (g.calls d hd).2.1
      have h2 := callsOnExt_resp_le T hd
      rw [hsd.2.2.2.1, hpt' d hd, hcp hwc] at hpe
      omega
    · rw [hci, hdi]

/-- how the justification of a reader is carried over a transition -/
def Carries (k : Nat) (s s' : State) (G G' : Ghost) (A A' : Nat → KSt) : Prop :=
  ∀ (inv : Nat) (cur : Option Nat), inv ≤ s.now → Good G.cr A k inv s cur → Good G'.cr A' k inv s' cur

/-- **every transition carries the justifications of the readers** -/
theorem MemStep.carries {k : Nat} {s s' : State} {v : Option (CellId × Nat)} {G G' : Ghost} {A : Nat → KSt} {x : KSt}
    (m : MemStep s s' v G G') (H : HInv s G) (H' : HInv s' G')
    (hnow : s'.now = s.now + 1) (hA : A s.now = absOf s k) : Carries k s s' G G' A (nextA A s.now x) := by
  intro inv cur hinv hg
  have hold : ∀ τ, τ ≤ s.now → nextA A s.now x τ = A τ := fun τ h => nextA_old h
  cases m with
  | same hh h0 hL hH hc => exact hg.step H H' (.of_same hh h0 hL hH hc) hnow hold hA hinv
  | lock i y hh h0 hL hH hc => exact hg.step H H' (lock_effect H hh h0 hL hH hc).2.1 hnow hold hA hinv
  | upd id act he _ =>
    obtain ⟨C', -, hs, -⟩ := he
    exact hg.step H H' hs hnow hold hA hinv
  | clear id h act u hh hv => exact hg.cleared H act u hh hnow hold hA hinv
  | build h hp hv hc0 hh h0 hL hH hc =>
    exact hg.step H H' (build_effect H hp hc0 hh h0 hL hH hc).2.1 hnow hold hA hinv
  | storeNew lo hg' hp hh h0 hL hH hc =>
    exact hg.step H H' (storeNew_effect H hp hh h0 hL hH hc).2.1 hnow hold hA hinv
  | casMoved hp hc0 hh h0 hL hH hc =>
    exact hg.step H H' (casMoved_effect H hp hc0 hh h0 hL hH hc).2.1 hnow hold hA hinv
  | commit hp hh h0 hL hH => exact hg.step H H' (commit_effect H hp hh h0 hL hH).2.1 hnow hold hA hinv
  | moved h lo hg' hp hv hlow hhigh hh h0 hL hH hc =>
    exact hg.moved H hp hlow hhigh hh h0 hL hH hc hnow hold hA hinv

/-- the readers' justifications survive a transition -/
theorem readers_step {k : Nat} {s s' : State} {G G' : Ghost} {A A' : Nat → KSt} {pt : Nat → Nat} {t : Nat}
    {l' : Local} (g : GInv k s G A pt) (I : Inv s G) (hcar : Carries k s s' G G' A A')
    (hthr : s'.threads = s.threads.set t l')
    (hself : ∀ (p : Pending) (cur : Option Nat), l'.call = some p → p.key = k → l'.pc = .rNode cur →
      p.inv ≤ s.now ∧ Good G.cr A k p.inv s cur) :
    ∀ (t1 : Nat) (l1 : Local) (p1 : Pending) (cur : Option Nat), s'.threads[t1]? = some l1 →
      l1.call = some p1 → p1.key = k → l1.pc = .rNode cur → Good G'.cr A' k p1.inv s' cur := by
  intro t1 l1 p1 cur h1 hc1 hk1 hpc1
  rw [hthr] at h1
  rcases get_set h1 with ⟨rfl, rfl⟩ | ⟨_, h1⟩
  · obtain ⟨hi, hg⟩ := hself p1 cur hc1 hk1 hpc1
    exact hcar _ _ hi hg
  · exact hcar _ _ (I.thr.pendTime t1 l1 p1 h1 hc1) (g.readers t1 l1 p1 cur h1 hc1 hk1 hpc1)

/-- transitions that add no call on `k` and do not change the abstract state of `k` -/
theorem ginv_quiet {k : Nat} {s s' : State} {G G' : Ghost} {A : Nat → KSt} {pt : Nat → Nat} {t : Nat}
    {l l' : Local} {hnew : List (Nat × Call)}
    (g : GInv k s G A pt) (I : Inv s G) (hcar : Carries k s s' G G' A (nextA A s.now (absOf s' k)))
    (hl : s.threads[t]? = some l) (hthr : s'.threads = s.threads.set t l') (hnow : s'.now = s.now + 1)
    (hhist : s'.hist = hnew ++ s.hist) (hnk : ∀ c, (k, c) ∉ hnew)
    (habs : absOf s' k = absOf s k)
    (he : extOf k s.now t l = none) (he' : extOf k (s.now + 1) t l' = none)
    (hself : ∀ (p : Pending) (cur : Option Nat), l'.call = some p → p.key = k → l'.pc = .rNode cur →
      p.inv ≤ s.now ∧ Good G.cr A k p.inv s cur) :
    GInv k s' G' (nextA A s.now (absOf s' k)) pt := by
  refine g.frame (i0 := 0) I.thr hnow (fun _ _ => rfl) ?_ ?_ (fun h => absurd habs h)
    (readers_step g I hcar hthr hself)
  · intro c hc
    rcases ext_forward hl hthr hnow hhist c hc with h | h
    · exact h
    · rw [he] at h; cases h
  · intro c' hc'
    rcases ext_backward hthr hnow hhist c' hc' with h | h | h
    · exact Or.inl h
    · exact absurd h (hnk c')
    · rw [he'] at h; cases h

/-- transitions that add the call `c0` of thread `t` (to the history or as a stored writer) -/
theorem ginv_new {k : Nat} {s s' : State} {G G' : Ghost} {A : Nat → KSt} {pt : Nat → Nat} {t : Nat}
    {l l' : Local} {hnew : List (Nat × Call)} {p : Pending} {c0 : Call} {τ0 : Nat}
    (g : GInv k s G A pt) (I : Inv s G) (hcar : Carries k s s' G G' A (nextA A s.now (absOf s' k)))
    (hl : s.threads[t]? = some l) (hp : l.call = some p)
    (hthr : s'.threads = s.threads.set t l') (hnow : s'.now = s.now + 1)
    (hhist : s'.hist = hnew ++ s.hist)
    (he : extOf k s.now t l = none)
    (honly : ∀ c', (k, c') ∈ hnew ∨ extOf k (s.now + 1) t l' = some c' → c' = c0)
    (hmem : c0 ∈ callsOnExt s' k)
    (hinv0 : c0.inv = p.inv)
    (hok : CallOK (nextA A s.now (absOf s' k)) (updPt pt p.inv τ0) c0)
    (hw : isRead c0.op = false → τ0 = s.now + 1)
    (hchg : absOf s' k ≠ absOf s k → isRead c0.op = false)
    (hself : ∀ (p : Pending) (cur : Option Nat), l'.call = some p → p.key = k → l'.pc = .rNode cur →
      p.inv ≤ s.now ∧ Good G.cr A k p.inv s cur) :
    GInv k s' G' (nextA A s.now (absOf s' k)) (updPt pt p.inv τ0) := by
  refine g.frame (i0 := p.inv) I.thr hnow ?_ ?_ ?_ ?_ (readers_step g I hcar hthr hself)
  · intro c hc
    exact updPt_ne pt τ0 (inv_ne_of_mem_callsOnExt I.thr hl hp he hc)
  · intro c hc
    rcases ext_forward hl hthr hnow hhist c hc with h | h
    · exact h
    · rw [he] at h; cases h
  · intro c' hc'
    rcases ext_backward hthr hnow hhist c' hc' with h | h | h
    · exact Or.inl h
    · have := honly c' (Or.inl h); subst this
      exact Or.inr ⟨hinv0, hok, fun hwr => by rw [hinv0, updPt_self]; exact hw hwr⟩
    · have := honly c' (Or.inr h); subst this
      exact Or.inr ⟨hinv0, hok, fun hwr => by rw [hinv0, updPt_self]; exact hw hwr⟩
  · intro hne
    have hwr := hchg hne
    exact ⟨c0, hmem, hwr, by rw [hinv0, updPt_self]; exact hw hwr⟩

/-- the cell a thread looks at (after following the forwarding marker) is the live cell of its key -/
theorem Inv.liveCell_of_tab {s : State} {G : Ghost} (I : Inv s G) {t : Nat} {l : Local} {tab : Tab} {k : Nat}
    (hl : s.threads[t]? = some l) (hT : ¬ isT l.pc) (htab : tabOf l.pc = some tab)
    (hnm : cellOf s tab k ≠ .moved) : liveCell s k = cellOf s tab k := by
  cases tab with
  | old =>
    have hnm' : s.cell0 ≠ .moved := hnm
    unfold liveCell
    rw [if_neg (by simpa using hnm')]
    have : s.cur ≠ .new := fun hc => hnm' (I.heap.post (I.heap.curNew hc))
    rw [if_neg (by simpa using this)]
    rfl
  | new =>
    have hm := I.heap.post (I.post_of_new hl hT htab)
    unfold liveCell
    rw [if_pos (by rw [hm]; rfl)]

theorem absOf_of_empty {s : State} {k : Nat} (h : liveCell s k = .empty) : absOf s k = none := by
  rw [absOf_eq, h, chainOfCell_eq, chainH_empty]; rfl

theorem Move.not_ext {s : State} {p : Pending} {pc pc' : Pc} (h : Move s p pc pc') :
    (∀ tab h res, pc ≠ .wUnlock tab h res false) ∧ (∀ tab h res, pc' ≠ .wUnlock tab h res false) := by
  cases h <;> exact ⟨by intro tab h res; simp, by intro tab h res; simp⟩

theorem Fin.not_ext {s : State} {p : Pending} {pc : Pc} {res : KRes} (h : Fin s p pc res) :
    ∀ tab h res, pc ≠ .wUnlock tab h res false := by
  cases h <;> (intro tab h res; simp)

theorem Move.good {s : State} {p : Pending} {pc pc' : Pc} (h : Move s p pc pc') {cur : Option Nat}
    (hc : pc' = .rNode cur) :
    (∃ tab h, pc = .rCell tab ∧ cellOf s tab p.key = .node h ∧ cur = some h) ∨
    (∃ c n, pc = .rNode (some c) ∧ s.heap[c]? = some n ∧ n.key ≠ p.key ∧ cur = n.next) := by
  cases h with
  | rCellNode hcell => cases hc; exact Or.inl ⟨_, _, rfl, hcell, rfl⟩
  | rNext hn hk => cases hc; exact Or.inr ⟨_, _, rfl, hn, hk, rfl⟩
  | rTable => cases hc
  | rCellMoved _ => cases hc
  | wTable => cases hc
  | wCellEmpty _ _ => cases hc
  | wCellMoved _ => cases hc
  | wCellNode _ => cases hc
  | casFail => cases hc
  | checkOk _ => cases hc
  | checkFail _ => cases hc
  | findEnd => cases hc
  | findHit _ _ => cases hc
  | findNext _ _ => cases hc

theorem extOf_idle (k now t : Nat) : extOf k now t { pc := .idle, call := none } = none := rfl

theorem extOf_none_of_call {k now t : Nat} {l : Local} (h : l.call = none) : extOf k now t l = none := by
  cases he : extOf k now t l with
  | none => rfl
  | some c =>
    obtain ⟨_, _, _, p, -, hcall, -⟩ := extOf_eq_some.1 he
    rw [h] at hcall; cases hcall

theorem extOf_none_of_key {k now t : Nat} {l : Local} {p : Pending} (h : l.call = some p) (hk : p.key ≠ k) :
    extOf k now t l = none := by
  cases he : extOf k now t l with
  | none => rfl
  | some c =>
    obtain ⟨_, _, _, p', -, hcall, hk', -⟩ := extOf_eq_some.1 he
    rw [h] at hcall; cases hcall
    exact absurd hk' hk

theorem missRes_spec {op : KOp} (h : isRead op = true) : specStep none op = (none, missRes op) := by
  cases op <;> first | rfl | cases h

theorem hitRes_spec {op : KOp} (h : isRead op = true) (n : NodeS) :
    specStep (some n.val) op = (some n.val, hitRes op n) := by
  cases op <;> first | rfl | cases h

/-- the point of a call that completes without a store of its own -/
theorem fin_point {k : Nat} {s : State} {G : Ghost} {A : Nat → KSt} {pt : Nat → Nat} {t : Nat} {l : Local}
    {p : Pending} {res : KRes}
    (g : GInv k s G A pt) (I : Inv s G) (hl : s.threads[t]? = some l) (hp : l.call = some p)
    (hk : p.key = k) (hf : Fin s p l.pc res) :
    ∃ τ0, p.inv ≤ τ0 ∧ τ0 ≤ s.now + 1 ∧
      (isRead p.op = true →
        specStep (nextA A s.now (absOf s k) τ0) p.op = (nextA A s.now (absOf s k) τ0, res)) ∧
      (isRead p.op = false → τ0 = s.now + 1 ∧
        specStep (nextA A s.now (absOf s k) s.now) p.op = (nextA A s.now (absOf s k) (s.now + 1), res)) := by
  have hop := I.thr.opOK t l p hl hp
  have hpi := I.thr.pendTime t l p hl hp
  obtain ⟨pc, call⟩ := l
  simp only at hp hf hop
  subst hp
  cases hf with
  | @rEmpty tab hc =>
    have hrd : isRead p.op = true := by rw [← isReader_eq_isRead]; exact hop
    have hlive := I.liveCell_of_tab (k := p.key) hl id rfl (by rw [hc]; simp)
    rw [hc] at hlive
    have hnone : absOf s k = none := by rw [← hk]; exact absOf_of_empty hlive
    refine ⟨s.now, hpi, by omega, ?_, fun h => by rw [hrd] at h; cases h⟩
    intro _
    rw [nextA_old (Nat.le_refl _), g.hA, hnone]
    exact missRes_spec hrd
  | miss =>
    have hrd : isRead p.op = true := by rw [← isReader_eq_isRead]; exact hop
    obtain ⟨τ, h1, h2, h3⟩ := (g.readers t _ p none hl rfl hk rfl).miss
    refine ⟨τ, h1, by omega, ?_, fun h => by rw [hrd] at h; cases h⟩
    intro _
    rw [nextA_old h2, h3]
    exact missRes_spec hrd
  | @hit c n hn hkey =>
    have hrd : isRead p.op = true := by rw [← isReader_eq_isRead]; exact hop
    have hnode := nodeAt_of_some hn
    obtain ⟨τ, h1, h2, h3⟩ := (g.readers t _ p (some c) hl rfl hk rfl).hit I.heap g.hA hpi
      (by rw [hnode, hkey, hk])
    refine ⟨τ, h1, by omega, ?_, fun h => by rw [hrd] at h; cases h⟩
    intro _
    rw [nextA_old h2, h3, hnode]
    exact hitRes_spec hrd n
  | @wEmpty tab hc hnot =>
    have hwr : isRead p.op = false := by rw [← isReader_eq_isRead]; exact hop
    have hlive := I.liveCell_of_tab (k := p.key) hl id rfl (by rw [hc]; simp)
    rw [hc] at hlive
    have hnone : absOf s k = none := by rw [← hk]; exact absOf_of_empty hlive
    refine ⟨s.now + 1, by omega, Nat.le_refl _, fun h => (by rw [hwr] at h; cases h), fun _ => ⟨rfl, ?_⟩⟩
    rw [nextA_old (Nat.le_refl _), nextA_new, g.hA, hnone]
    cases hop' : p.op with
    | ins v vi => exact absurd ⟨v, vi, Or.inl hop'⟩ hnot
    | tryIns v vi => exact absurd ⟨v, vi, Or.inr hop'⟩ hnot
    | get => rw [hop'] at hwr; cases hwr
    | has => rw [hop'] at hwr; cases hwr
    | rm => rfl
    | cipInc nvi => rfl
    | cipRm => rfl

theorem mem_singleton_key {k k' : Nat} {c c0 : Call} (h : (k, c) ∈ [(k', c0)]) : k = k' ∧ c = c0 := by
  simp only [List.mem_singleton, Prod.mk.injEq] at h
  exact h

theorem LockMove.not_ext {s : State} {t h : Nat} {x : Option Nat} {pc pc' : Pc}
    (hm : LockMove s t pc h x pc') :
    (∀ tab h res, pc ≠ .wUnlock tab h res false) ∧ (∀ tab h res, pc' ≠ .wUnlock tab h res false) ∧
      ∀ cur, pc' ≠ .rNode cur := by
  cases hm <;> exact ⟨by intro tab h res; simp, by intro tab h res; simp, by intro cur; simp⟩

/-- a quiet transition of the resizing thread (or any thread without a call) -/
theorem ginv_quiet_nocall {k : Nat} {s s' : State} {G G' : Ghost} {A : Nat → KSt} {pt : Nat → Nat} {t : Nat}
    {l l' : Local}
    (g : GInv k s G A pt) (I : Inv s G) (hcar : Carries k s s' G G' A (nextA A s.now (absOf s' k)))
    (hl : s.threads[t]? = some l) (hthr : s'.threads = s.threads.set t l') (hnow : s'.now = s.now + 1)
    (hhist : s'.hist = s.hist) (habs : absOf s' k = absOf s k) (hc : l.call = none) (hc' : l'.call = none) :
    GInv k s' G' (nextA A s.now (absOf s' k)) pt :=
  ginv_quiet (hnew := []) g I hcar hl hthr hnow hhist (by simp) habs (extOf_none_of_call hc)
    (extOf_none_of_call hc') (fun p cur h => by rw [hc'] at h; cases h)

/-- **every transition preserves the structural and the ghost invariant** -/
theorem ginv_step {k : Nat} {s s' : State} {G : Ghost} {A : Nat → KSt} {pt : Nat → Nat} {t : Nat} {l : Local}
    (g : GInv k s G A pt) (I : Inv s G) (hl : s.threads[t]? = some l) (hstep : StepK s t l s') :
    ∃ G' A' pt', Inv s' G' ∧ GInv k s' G' A' pt' := by
  obtain ⟨G', m, I'⟩ := stepK_inv I hl hstep
  have H := I.heap
  have hcar := fun hnow => m.carries (k := k) (A := A) (x := absOf s' k) H I'.heap hnow g.hA
  cases hstep with
  | idle hpc =>
    have he : ∀ now, extOf k now t l = none := fun now =>
      extOf_none_of_pc (by rw [hpc]; intro tab h res; simp)
    refine ⟨G', _, _, I', ginv_quiet (hnew := []) g I (hcar rfl) hl rfl rfl rfl (by simp)
      (absOf_congr rfl rfl rfl rfl rfl k) (he _) (he _) ?_⟩
    intro p cur _ _ hc
    rw [hpc] at hc; cases hc
  | invoke k' op hpc =>
    refine ⟨G', _, _, I', ginv_quiet (hnew := []) g I (hcar rfl) hl rfl rfl rfl (by simp)
      (absOf_congr rfl rfl rfl rfl rfl k)
      (extOf_none_of_pc (by rw [hpc]; intro tab h res; simp))
      (extOf_none_of_pc (by intro tab h res; cases isReader op <;> simp)) ?_⟩
    intro p cur _ _ hc
    cases hr : isReader op <;> simp [hr] at hc
  | resize hpc hr =>
    refine ⟨G', _, _, I', ginv_quiet (hnew := []) (l' := { l with pc := .tCell }) g I (hcar rfl) hl rfl rfl rfl (by simp)
      (absOf_congr rfl rfl rfl rfl rfl k)
      (extOf_none_of_pc (by rw [hpc]; intro tab h res; simp))
      (extOf_none_of_pc (by intro tab h res; simp)) ?_⟩
    intro p cur _ _ hc
    cases hc
  | move p pc' hp hm =>
    refine ⟨G', _, _, I', ginv_quiet (hnew := []) g I (hcar rfl) hl rfl rfl rfl (by simp)
      (absOf_congr rfl rfl rfl rfl rfl k)
      (extOf_none_of_pc hm.not_ext.1) (extOf_none_of_pc hm.not_ext.2) ?_⟩
    intro p1 cur hc1 hk1 hpc1
    simp only at hc1 hpc1
    have hpp : p1 = p := by rw [hp] at hc1; exact (Option.some.inj hc1).symm
    subst hpp
    have hpi := I.thr.pendTime t l p1 hl hp
    refine ⟨hpi, ?_⟩
    rcases hm.good hpc1 with ⟨tab, h, hpc, hcell, rfl⟩ | ⟨c, n, hpc, hn, hne, rfl⟩
    · have hlive := I.liveCell_of_tab (k := p1.key) hl (by rw [hpc]; exact id) (by rw [hpc]; rfl)
        (by rw [hcell]; simp)
      rw [hcell, hk1] at hlive
      exact Good.cell H hlive
    · have hnode := nodeAt_of_some hn
      have := (g.readers t l p1 (some c) hl hp hk1 hpc).next H g.hA hpi (by rw [hnode, ← hk1]; exact hne)
      rw [hnode] at this
      exact this
  | tmove pc' hp hm =>
    exact ⟨G', _, _, I', ginv_quiet_nocall g I (hcar rfl) hl rfl rfl rfl (absOf_congr rfl rfl rfl rfl rfl k) hp hp⟩
  | lockMove p h x pc' hp hm =>
    refine ⟨G', _, _, I', ginv_quiet (hnew := []) g I (hcar rfl) hl rfl rfl rfl (by simp)
      ((lock_effect (s' := setT (setNode (tick s) h (fun m => { m with lock := x })) t { l with pc := pc' })
        H rfl rfl rfl rfl rfl).2.2.2.1 k)
      (extOf_none_of_pc hm.not_ext.1) (extOf_none_of_pc hm.not_ext.2.1) ?_⟩
    intro p1 cur _ _ hpc1
    exact absurd hpc1 (hm.not_ext.2.2 cur)
  | tlockMove h x pc' hp hm =>
    exact ⟨G', _, _, I', ginv_quiet_nocall g I (hcar rfl) hl rfl rfl rfl
      ((lock_effect (s' := setT (setNode (tick s) h (fun m => { m with lock := x })) t { l with pc := pc' })
        H rfl rfl rfl rfl rfl).2.2.2.1 k) hp hp⟩
  | fin p res hp hf =>
    have habs : ∀ k, absOf (finish (tick s) t p res) k = absOf s k := absOf_congr rfl rfl rfl rfl rfl
    by_cases hk : p.key = k
    · obtain ⟨τ0, h1, h2, h3, h4⟩ := fin_point g I hl hp hk hf
      refine ⟨G', _, _, I', ginv_new (hnew := [(p.key, ⟨t, p.op, res, p.inv, s.now + 1⟩)]) (τ0 := τ0)
        (c0 := ⟨t, p.op, res, p.inv, s.now + 1⟩) g I (hcar rfl) hl hp rfl rfl rfl
        (extOf_none_of_pc hf.not_ext) ?_ ?_ rfl ?_ ?_ ?_ ?_⟩
      · rintro c' (hc' | hc')
        · exact (mem_singleton_key hc').2
        · rw [extOf_idle] at hc'; cases hc'
      · refine mem_callsOnExt.2 (Or.inl ?_)
        show (k, _) ∈ (p.key, _) :: s.hist
        rw [hk]; exact List.mem_cons_self
      · rw [habs k]
        refine ⟨?_, ?_, ?_, ?_⟩
        · show p.inv ≤ updPt pt p.inv τ0 p.inv
          rw [updPt_self]; exact h1
        · show updPt pt p.inv τ0 p.inv ≤ s.now + 1
          rw [updPt_self]; exact h2
        · show isRead p.op = true → specStep (nextA A s.now (absOf s k) (updPt pt p.inv τ0 p.inv)) p.op = (_, res)
          rw [updPt_self]; exact h3
        · show isRead p.op = false → 1 ≤ updPt pt p.inv τ0 p.inv ∧
            specStep (nextA A s.now (absOf s k) (updPt pt p.inv τ0 p.inv - 1)) p.op = (nextA A s.now (absOf s k) (updPt pt p.inv τ0 p.inv), res)
          rw [updPt_self]
          intro hw
          obtain ⟨rfl, h5⟩ := h4 hw
          exact ⟨by omega, by rw [Nat.add_sub_cancel]; exact h5⟩
      · intro hw; exact (h4 hw).1
      · intro hne; exact absurd (habs k) hne
      · intro p1 cur hc1; cases hc1
    · refine ⟨G', _, _, I', ginv_quiet (hnew := [(p.key, ⟨t, p.op, res, p.inv, s.now + 1⟩)]) g I (hcar rfl) hl rfl rfl rfl
        ?_ (habs k) (extOf_none_of_pc hf.not_ext) (extOf_idle _ _ _) ?_⟩
      · intro c hc; exact hk (mem_singleton_key hc).1.symm
      · intro p1 cur hc1; cases hc1
  | cas p tab v vi hp hpc hc hop =>
    rw [cellOf_eq] at hc
    have act := I.active_of_empty (k := p.key) hl (by rw [hpc]; exact id) (by rw [hpc]; rfl) hc
    obtain ⟨f1, f2, f3, f4, f5, f6⟩ := setCell_frame { tick s with heap := s.heap ++ [⟨p.key, (v, vi), none, none⟩] }
      tab p.key (.node s.heap.length)
    obtain ⟨-, habs⟩ := cas_effect (s := s) (s' := finish (setCell { tick s with heap := s.heap ++ [⟨p.key, (v, vi), none, none⟩] }
      tab p.key (.node s.heap.length)) t p .none) (new := ⟨p.key, (v, vi), none, none⟩) H act hc rfl
      (keyOn_cellId tab p.key) f1 (by
        intro id'
        have := getCell_setCell { tick s with heap := s.heap ++ [⟨p.key, (v, vi), none, none⟩] } tab p.key
          (.node s.heap.length) id'
        have e2 : getCell { tick s with heap := s.heap ++ [⟨p.key, (v, vi), none, none⟩] } id' = getCell s id' := by
          cases id' <;> rfl
        rw [e2] at this
        rw [← this]
        cases id' <;> rfl) f5
    have hthr : (finish (setCell { tick s with heap := s.heap ++ [⟨p.key, (v, vi), none, none⟩] }
        tab p.key (.node s.heap.length)) t p .none).threads = s.threads.set t { pc := .idle, call := none } := by
      show (setCell _ tab p.key _).threads.set t _ = _; rw [f2]; rfl
    have hnow : (finish (setCell { tick s with heap := s.heap ++ [⟨p.key, (v, vi), none, none⟩] }
        tab p.key (.node s.heap.length)) t p .none).now = s.now + 1 := by
      show (setCell _ tab p.key _).now = _; rw [f4]; rfl
    have hhist : (finish (setCell { tick s with heap := s.heap ++ [⟨p.key, (v, vi), none, none⟩] }
        tab p.key (.node s.heap.length)) t p .none).hist = [(p.key, ⟨t, p.op, .none, p.inv, s.now + 1⟩)] ++ s.hist := by
      show _ :: (setCell _ tab p.key _).hist = _; rw [f3, f4]; rfl
    have hwr : isRead p.op = false := by
      rw [← isReader_eq_isRead]; rcases hop with h | h <;> rw [h] <;> rfl
    have hpi := I.thr.pendTime t l p hl hp
    by_cases hk : p.key = k
    · have hnone : absOf s k = none := by
        have hlive := I.liveCell_of_tab (k := p.key) hl (by rw [hpc]; exact id) (by rw [hpc]; rfl)
          (by rw [cellOf_eq, hc]; simp)
        rw [cellOf_eq, hc] at hlive
        rw [← hk]; exact absOf_of_empty hlive
      refine ⟨G', _, _, I', ginv_new (hnew := [(p.key, ⟨t, p.op, .none, p.inv, s.now + 1⟩)]) (τ0 := s.now + 1)
        (c0 := ⟨t, p.op, .none, p.inv, s.now + 1⟩) g I (hcar hnow) hl hp hthr hnow hhist
        (extOf_none_of_pc (by rw [hpc]; intro tab h res; simp)) ?_ ?_ rfl ?_ (fun _ => rfl) (fun _ => hwr) ?_⟩
      · rintro c' (hc' | hc')
        · exact (mem_singleton_key hc').2
        · rw [extOf_idle] at hc'; cases hc'
      · refine mem_callsOnExt.2 (Or.inl ?_)
        rw [hhist, hk]; exact List.mem_cons_self
      · rw [habs k, if_pos hk]
        refine ⟨?_, ?_, ?_, ?_⟩
        · show p.inv ≤ updPt pt p.inv (s.now + 1) p.inv
          rw [updPt_self]; omega
        · show updPt pt p.inv (s.now + 1) p.inv ≤ s.now + 1
          rw [updPt_self]; exact Nat.le_refl _
        · intro hr; rw [hwr] at hr; cases hr
        · show isRead p.op = false → 1 ≤ updPt pt p.inv (s.now + 1) p.inv ∧
            specStep (nextA A s.now (some (v, vi)) (updPt pt p.inv (s.now + 1) p.inv - 1)) p.op =
              (nextA A s.now (some (v, vi)) (updPt pt p.inv (s.now + 1) p.inv), .none)
          rw [updPt_self]
          intro _
          refine ⟨by omega, ?_⟩
          rw [Nat.add_sub_cancel, nextA_old (Nat.le_refl _), nextA_new, g.hA, hnone]
          rcases hop with hop | hop <;> rw [hop] <;> rfl
      · intro p1 cur hc1; cases hc1
    · refine ⟨G', _, _, I', ginv_quiet (hnew := [(p.key, ⟨t, p.op, .none, p.inv, s.now + 1⟩)]) g I (hcar hnow) hl hthr hnow hhist
        ?_ (by rw [habs k, if_neg hk]) (extOf_none_of_pc (by rw [hpc]; intro tab h res; simp)) (extOf_idle _ _ _) ?_⟩
      · intro c hc; exact hk (mem_singleton_key hc).1.symm
      · intro p1 cur hc1; cases hc1
  | store p tab h pred hit hnext hp hpc =>
    obtain ⟨act, -, hthr, hhist, hnow, -, hspec, hother⟩ := I.store_ok hl hp hpc
    have hop := I.thr.opOK t l p hl hp
    rw [hpc] at hop
    have hwr : isRead p.op = false := by rw [← isReader_eq_isRead]; exact hop
    have hpi := I.thr.pendTime t l p hl hp
    have hthr' : (setT (storeAt (tick s) tab p pred hit hnext).1 t
        { l with pc := .wUnlock tab h (storeAt (tick s) tab p pred hit hnext).2 false }).threads =
        s.threads.set t { l with pc := .wUnlock tab h (storeAt (tick s) tab p pred hit hnext).2 false } := by
      show (storeAt (tick s) tab p pred hit hnext).1.threads.set t _ = _
      rw [hthr]; rfl
    have hnow' : (setT (storeAt (tick s) tab p pred hit hnext).1 t
        { l with pc := .wUnlock tab h (storeAt (tick s) tab p pred hit hnext).2 false }).now = s.now + 1 := hnow
    have hhist' : (setT (storeAt (tick s) tab p pred hit hnext).1 t
        { l with pc := .wUnlock tab h (storeAt (tick s) tab p pred hit hnext).2 false }).hist = [] ++ s.hist := hhist
    have habs : ∀ k, absOf (setT (storeAt (tick s) tab p pred hit hnext).1 t
        { l with pc := .wUnlock tab h (storeAt (tick s) tab p pred hit hnext).2 false }) k =
        absOf (storeAt (tick s) tab p pred hit hnext).1 k :=
      absOf_congr rfl rfl rfl rfl rfl
    have hat : ∀ k, absOf (tick s) k = absOf s k := absOf_congr rfl rfl rfl rfl rfl
    by_cases hk : p.key = k
    · have hext : extOf k (s.now + 1) t { l with pc := .wUnlock tab h (storeAt (tick s) tab p pred hit hnext).2 false } =
          some ⟨t, p.op, (storeAt (tick s) tab p pred hit hnext).2, p.inv, s.now + 1⟩ :=
        extOf_eq_some.2 ⟨tab, h, _, p, rfl, hp, hk, rfl⟩
      refine ⟨G', _, _, I', ginv_new (hnew := []) (τ0 := s.now + 1)
        (c0 := ⟨t, p.op, (storeAt (tick s) tab p pred hit hnext).2, p.inv, s.now + 1⟩) g I (hcar hnow') hl hp hthr' hnow' hhist'
        (extOf_none_of_pc (by rw [hpc]; intro tab h res; simp)) ?_ ?_ rfl ?_ (fun _ => rfl) (fun _ => hwr) ?_⟩
      · rintro c' (hc' | hc')
        · cases hc'
        · rw [hext] at hc'; cases hc'; rfl
      · refine mem_callsOnExt.2 (Or.inr ⟨t, { l with pc := .wUnlock tab h (storeAt (tick s) tab p pred hit hnext).2 false }, ?_, ?_⟩)
        · rw [hthr']; exact get_set_self hl
        · rw [hnow']; exact hext
      · rw [habs k]
        refine ⟨?_, ?_, ?_, ?_⟩
        · show p.inv ≤ updPt pt p.inv (s.now + 1) p.inv
          rw [updPt_self]; omega
        · show updPt pt p.inv (s.now + 1) p.inv ≤ s.now + 1
          rw [updPt_self]; exact Nat.le_refl _
        · intro hr; rw [hwr] at hr; cases hr
        · show isRead p.op = false → 1 ≤ updPt pt p.inv (s.now + 1) p.inv ∧
            specStep (nextA A s.now _ (updPt pt p.inv (s.now + 1) p.inv - 1)) p.op =
              (nextA A s.now _ (updPt pt p.inv (s.now + 1) p.inv), (storeAt (tick s) tab p pred hit hnext).2)
          rw [updPt_self]
          intro _
          refine ⟨by omega, ?_⟩
          rw [Nat.add_sub_cancel, nextA_old (Nat.le_refl _), nextA_new, g.hA, ← hk, ← hat]
          exact hspec
      · intro p1 cur _ _ hc1; cases hc1
    · refine ⟨G', _, _, I', ginv_quiet (hnew := []) g I (hcar hnow') hl hthr' hnow' hhist' (by simp)
        (by rw [habs k, ← hat]; exact hother k (fun h => hk h.symm))
        (extOf_none_of_pc (by rw [hpc]; intro tab h res; simp)) (extOf_none_of_key (p := p) hp hk) ?_⟩
      intro p1 cur _ _ hc1; cases hc1
  | unlockFin p tab h res hp hpc =>
    have habs : ∀ k, absOf (finish (setNode (tick s) h (fun m => { m with lock := none })) t p res) k = absOf s k :=
      (lock_effect (s' := finish (setNode (tick s) h (fun m => { m with lock := none })) t p res)
        H rfl rfl rfl rfl rfl).2.2.2.1
    by_cases hk : p.key = k
    · have hext : extOf k s.now t l = some ⟨t, p.op, res, p.inv, s.now⟩ :=
        extOf_eq_some.2 ⟨tab, h, res, p, hpc, hp, hk, rfl⟩
      have hsim : Sim ⟨t, p.op, res, p.inv, s.now⟩ ⟨t, p.op, res, p.inv, s.now + 1⟩ :=
        ⟨rfl, rfl, rfl, rfl, Nat.le_succ _⟩
      have hold : (⟨t, p.op, res, p.inv, s.now⟩ : Call) ∈ callsOnExt s k :=
        mem_callsOnExt.2 (Or.inr ⟨t, l, hl, hext⟩)
      have hnew : (⟨t, p.op, res, p.inv, s.now + 1⟩ : Call) ∈
          callsOnExt (finish (setNode (tick s) h (fun m => { m with lock := none })) t p res) k := by
        refine mem_callsOnExt.2 (Or.inl ?_)
        show (k, _) ∈ (p.key, _) :: s.hist
        rw [hk]; exact List.mem_cons_self
      refine ⟨G', _, _, I', g.frame (i0 := 0) (pt' := pt) I.thr rfl (fun _ _ => rfl) ?_ ?_ (fun hne => absurd (habs k) hne)
        (readers_step (l' := { pc := .idle, call := none }) g I (hcar rfl) rfl ?_)⟩
      · intro c hc
        rcases ext_forward (s' := finish (setNode (tick s) h (fun m => { m with lock := none })) t p res)
          (l' := { pc := .idle, call := none })
          (hnew := [(p.key, ⟨t, p.op, res, p.inv, s.now + 1⟩)]) hl rfl rfl rfl c hc with h | h
        · exact h
        · rw [hext] at h; cases h
          exact ⟨_, hnew, hsim⟩
      · intro c' hc'
        rcases ext_backward (s := s) (l' := { pc := .idle, call := none })
          (hnew := [(p.key, ⟨t, p.op, res, p.inv, s.now + 1⟩)]) rfl rfl rfl c' hc' with h | h | h
        · exact Or.inl h
        · have := (mem_singleton_key h).2; subst this
          exact Or.inl ⟨_, hold, hsim⟩
        · rw [extOf_idle] at h; cases h
      · intro p1 cur hc1; cases hc1
    · refine ⟨G', _, _, I', ginv_quiet (hnew := [(p.key, ⟨t, p.op, res, p.inv, s.now + 1⟩)])
        (l' := { pc := .idle, call := none }) g I (hcar rfl) hl rfl rfl rfl
        ?_ (habs k) (extOf_none_of_key (p := p) hp hk) (extOf_idle _ _ _) ?_⟩
      · intro c hc; exact hk (mem_singleton_key hc).1.symm
      · intro p1 cur hc1; cases hc1
  | casMoved hp hpc hc =>
    have hph := I.ph.pcPh t l hl
    rw [hpc] at hph
    exact ⟨G', _, _, I', ginv_quiet_nocall (l' := { l with pc := .tCommit }) g I (hcar rfl) hl rfl rfl rfl
      ((casMoved_effect (s' := { (setT (tick s) t { l with pc := .tCommit }) with cell0 := .moved })
        H hph hc rfl rfl rfl rfl rfl).2.2 k) hp hp⟩
  | build h hp hpc =>
    have hph := I.ph.pcPh t l hl
    rw [hpc] at hph
    have hv : vcell l = some (.c0, h) := by
      obtain ⟨pc, call⟩ := l
      simp only at hpc; subst hpc; rfl
    obtain ⟨hc, -⟩ := I.lock.validated t l _ h hl hv
    exact ⟨G', _, _, I', ginv_quiet_nocall (l' := { l with pc := .tStoreLow h _ _ }) g I (hcar rfl) hl rfl rfl rfl
      ((build_effect (s' := setT { tick s with heap := (splitBin s.heap (chainFrom s.heap s.heap.length (some h))).1 } t
        { l with pc := .tStoreLow h (splitBin s.heap (chainFrom s.heap s.heap.length (some h))).2.1 (splitBin s.heap (chainFrom s.heap s.heap.length (some h))).2.2 })
        H hph hc rfl rfl rfl rfl rfl).2.2.1 k) hp hp⟩
  | storeLow h lo hg hp hpc =>
    have hph := I.ph.pcPh t l hl
    rw [hpc] at hph
    exact ⟨G', _, _, I', ginv_quiet_nocall (l' := { l with pc := .tStoreHigh h hg }) g I (hcar rfl) hl rfl rfl rfl
      ((storeNew_effect (s' := { (setT (tick s) t { l with pc := .tStoreHigh h hg }) with lowCell := cellOfHead lo })
        H hph.1 rfl rfl (Or.inr ⟨hph.2.1, rfl⟩) (Or.inl rfl) rfl).2.2 k) hp hp⟩
  | storeHigh h hg hp hpc =>
    have hph := I.ph.pcPh t l hl
    rw [hpc] at hph
    obtain ⟨lo, h1, h2, h3⟩ := hph
    exact ⟨G', _, _, I', ginv_quiet_nocall (l' := { l with pc := .tStoreMoved h }) g I (hcar rfl) hl rfl rfl rfl
      ((storeNew_effect (s' := { (setT (tick s) t { l with pc := .tStoreMoved h }) with highCell := cellOfHead hg })
        H h1 rfl rfl (Or.inl rfl) (Or.inr ⟨h3, rfl⟩) rfl).2.2 k) hp hp⟩
  | storeMoved h hp hpc =>
    have hph := I.ph.pcPh t l hl
    rw [hpc] at hph
    obtain ⟨lo, hg, h1, h2, h3⟩ := hph
    exact ⟨G', _, _, I', ginv_quiet_nocall (l' := { l with pc := .tUnlock h }) g I (hcar rfl) hl rfl rfl rfl
      ((moved_effect (s' := { (setT (tick s) t { l with pc := .tUnlock h }) with cell0 := .moved })
        H h1 h2 h3 rfl rfl rfl rfl rfl).2 k) hp hp⟩
  | commit hp hpc =>
    have hph := I.ph.pcPh t l hl
    rw [hpc] at hph
    exact ⟨G', _, _, I', ginv_quiet_nocall (l' := { l with pc := .idle }) g I (hcar rfl) hl rfl rfl rfl
      ((commit_effect (s' := { (setT (tick s) t { l with pc := .idle }) with cur := .new })
        H hph rfl rfl rfl rfl).2.2 k) hp hp⟩

end Flurry.Proto.BinX
