import Flurry.Lemmas.BinTInvStep
/-! # C12 at the tree-bin level: what a reader's program counter knows (Proto/BinT)

`RInv`: in every reachable state of `Proto/BinT`
* a thread that is not `idle` has a call in flight (so its step is never disabled for lack of one);
* every heap index a reader's program counter holds (`rState (some c)`, `rLin c`, `rCas c _`,
  `rRelease (some i)`, `rVal i`) is inside the heap (nodes are never freed in the model, and `first`,
  `next` and the tree only ever point to allocated nodes).
Neither fact depends on what the *other* threads are doing. -/
namespace Flurry.Proto.BinT
open Flurry.Lin

/-- the heap indices a program counter of a reader holds are below `n` -/
def RdBound (n : Nat) : Pc → Prop
  | .rState (some c) => c < n
  | .rLin c => c < n
  | .rCas c _ => c < n
  | .rRelease (some i) => i < n
  | .rVal i => i < n
  | _ => True

theorem RdBound.mono {n m : Nat} (h : n ≤ m) {pc : Pc} (hb : RdBound n pc) : RdBound m pc := by
  unfold RdBound at *
  split <;> simp_all <;> omega

structure RInv (s : State) : Prop where
  callSome : ∀ (t : Nat) (l : Local), s.threads[t]? = some l → l.pc ≠ .idle → l.call.isSome = true
  bound : ∀ (t : Nat) (l : Local), s.threads[t]? = some l → RdBound s.heap.length l.pc

/-- the generic preservation lemma: thread `t` gets the local state `l'`, the heap does not shrink -/
theorem rinv_step {s s' : State} {t : Nat} {l' : Local} (R : RInv s)
    (hthr : s'.threads = s.threads.set t l') (hlen : s.heap.length ≤ s'.heap.length)
    (hc : l'.pc ≠ .idle → l'.call.isSome = true) (hb : RdBound s'.heap.length l'.pc) : RInv s' := by
  constructor
  · intro t1 l1 h1 hne
    rw [hthr] at h1
    rcases get_set h1 with ⟨_, rfl⟩ | ⟨_, h1⟩
    · exact hc hne
    · exact R.callSome t1 l1 h1 hne
  · intro t1 l1 h1
    rw [hthr] at h1
    rcases get_set h1 with ⟨_, rfl⟩ | ⟨_, h1⟩
    · exact hb
    · exact (R.bound t1 l1 h1).mono hlen

/-- a `Move` keeps the reader's indices inside the heap -/
theorem Move.rdBound {s : State} {t : Nat} {p : Pending} {pc pc' : Pc} {m : Option Nat} {w a : Bool} {r : Nat}
    (hm : Move s t p pc pc' m w a r) (H : HInv s) (hb : RdBound s.heap.length pc) :
    RdBound s.heap.length pc' := by
  cases hm with
  | rFirst =>
    cases hf : s.first with
    | none => trivial
    | some h => exact H.firstOK h hf
  | rLinMode _ => exact hb
  | rTreeMode _ => exact hb
  | @rLinNext c n hn _ =>
    cases hx : n.next with
    | none => trivial
    | some j =>
      have h1 := H.nextOK c n j hn hx
      have h2 : c < s.heap.length := (List.getElem?_eq_some_iff.1 hn).1
      show j < s.heap.length
      omega
  | rLinHit _ _ _ => exact hb
  | rCasOk _ _ _ => trivial
  | rCasFail => exact hb
  | rTree =>
    cases hf : treeFind s p.key with
    | none => trivial
    | some i => exact (treeFind_some hf).1
  | rRelVal _ => exact hb
  | @lrTryOk rmv _ _ _ _ => cases rmv <;> trivial
  | @lrLoopOk rmv _ _ _ => cases rmv <;> trivial
  | _ => trivial

theorem stepK_rinv {s s' : State} {t : Nat} {l : Local} (I : Inv s) (R : RInv s) (hl : s.threads[t]? = some l)
    (hk : StepK s t l s') : RInv s' := by
  have hcs : ∀ {p : Pending}, l.call = some p → l.call.isSome = true := fun h => by rw [h]; rfl
  cases hk with
  | idle hpc => exact rinv_step (l' := l) R rfl (Nat.le_refl _) (R.callSome t l hl) (R.bound t l hl)
  | invoke k op hpc =>
    refine rinv_step (l' := { pc := if isReader op then .rFirst else .wMutex, call := some ⟨k, op, s.now + 1⟩ })
      R rfl (Nat.le_refl _) (fun _ => rfl) ?_
    show RdBound s.heap.length (if isReader op then .rFirst else .wMutex)
    cases isReader op <;> trivial
  | move p pc' m w a r hp hm =>
    exact rinv_step (l' := { l with pc := pc' }) R rfl (Nat.le_refl _) (fun _ => hcs hp)
      (hm.rdBound I.heap (R.bound t l hl))
  | fin p res m r hp hf =>
    exact rinv_step (l' := { pc := .idle, call := none }) R rfl (Nat.le_refl _) (fun h => absurd rfl h) trivial
  | val p i v res hp hpc =>
    refine rinv_step (l' := { l with pc := .wUnlockM res }) R rfl ?_ (fun _ => hcs hp) trivial
    show s.heap.length ≤ (s.heap.modify i _).length
    rw [List.length_modify]; exact Nat.le_refl _
  | prepend p v vi hp hpc hop =>
    refine rinv_step (l' := { l with pc := .wTreeLink s.heap.length }) R rfl ?_ (fun _ => hcs hp) trivial
    show s.heap.length ≤ (s.heap ++ [_]).length
    rw [List.length_append]; exact Nat.le_add_right _ _
  | treeLink p x bal hp hpc =>
    refine rinv_step (l' := { l with pc := if bal then .lrTry none .none else .wUnlockM .none }) R rfl ?_
      (fun _ => hcs hp) ?_
    · show s.heap.length ≤ (s.heap.modify x _).length
      rw [List.length_modify]; exact Nat.le_refl _
    · show RdBound _ (if bal then .lrTry none .none else .wUnlockM .none)
      cases bal <;> trivial
  | unlink p i res hp hpc =>
    obtain ⟨_, _, hthr, _⟩ := unlinkOf_tick s i
    refine rinv_step (t := t) (l' := { l with pc := .wRestructure (some i) res }) R ?_ ?_ (fun _ => hcs hp) trivial
    · show (unlinkOf (tick s) i).threads.set t _ = _
      rw [hthr]
    · show s.heap.length ≤ (unlinkOf (tick s) i).heap.length
      unfold unlinkOf
      split
      · show s.heap.length ≤ (List.modify _ _ _).length
        rw [List.length_modify]; exact Nat.le_refl _
      · exact Nat.le_refl _
  | untree p i res hp hpc =>
    refine rinv_step (l' := { l with pc := .wUnlockRoot res }) R rfl ?_ (fun _ => hcs hp) trivial
    show s.heap.length ≤ (s.heap.modify i _).length
    rw [List.length_modify]; exact Nat.le_refl _
  | dead p i res s' hp hpc =>
    have h0 := I.data.pcInv t l p hl hp
    rw [hpc] at h0
    exact absurd h0 (by simp [PcInv])

theorem init_rinv (n : Nat) : RInv (init n) := by
  constructor
  · intro t l hl hne
    rw [init_threads hl] at hne
    exact absurd rfl hne
  · intro t l hl
    rw [init_threads hl]
    trivial

theorem reachable_rinv {n : Nat} {s : State} (hr : Reachable n s) : RInv s := by
  induction hr with
  | init => exact init_rinv n
  | @step s s' t inv bal hr hs ih =>
    cases hl : s.threads[t]? with
    | none => unfold step stepG at hs; rw [hl] at hs; cases hs
    | some l => exact stepK_rinv (reachable_inv hr) ih hl (step_stepK hl hs)

end Flurry.Proto.BinT
