import Flurry.Lemmas.BinKStep
/-! # Proto/BinK: the structural invariant (C01, a bin that changes its kind) — definitions

* `HInv`: the chain invariant `CInv` of the **live** structure (`liveStart`, `liveTree`), owners and
  `first` fields are valid, the nodes of the live chain belong to the live structure.
* `TInv`: program counters fit the pending operation; times and uniqueness of invocation times.
* `LInv`: the lock word of a node says who is between `wCheck`/`kCheck` and `wUnlock`/`kUnlock` of it; a
  thread past a successful re-check (`validL`, `validT`) sees its structure in the cell (**validated
  holders are unique**); the mutex of a `TreeBin`; for the live `TreeBin` the lock bits of `Proto/BinU`;
  `readers` counts the threads inside the tree; a `TreeBin` that is neither in the cell nor private
  (dead) keeps `writer = true`; nobody refers to a private `TreeBin`.
* `DInv`: what the program counters know (`PcInv`, `KInv`), and for the live `TreeBin` the relation of
  list and tree (`treeSub`, `chainSub`). -/
namespace Flurry.Proto.BinK
open Flurry.Lin

/-! ## the live structure -/

/-- the start of the list of the structure the cell holds -/
def liveStart (s : State) : Option Nat :=
  match s.cell with
  | .empty => none
  | .list h => some h
  | .tree b => (binAt s.tbins b).first

theorem liveChain_eq (s : State) : liveChain s = chainOf s.heap (liveStart s) := by
  unfold liveChain liveStart chainOf chainOfBin binAt
  cases s.cell with
  | empty => simp only; rw [chainFrom_none]
  | list h => rfl
  | tree b => rfl

theorem chainOfBin_eq (s : State) (b : Nat) : chainOfBin s b = chainOf s.heap (binAt s.tbins b).first := rfl

/-- the nodes in the tree of the live `TreeBin` -/
def liveTree (s : State) (j : Nat) : Prop :=
  j < s.heap.length ∧ (nodeAt s.heap j).inTree = true ∧ ∃ b, s.cell = .tree b ∧ (nodeAt s.heap j).owner = some b

/-- the owner of the nodes of the live chain -/
def liveOwner (s : State) : Option Nat :=
  match s.cell with
  | .tree b => some b
  | _ => none

/-- private nodes: allocated by a treeify that has not yet stored its `TreeBin` into the cell -/
def Priv (s : State) (j : Nat) : Prop :=
  ∃ (t : Nat) (l : Local) (h b : Nat), s.threads[t]? = some l ∧ l.pc = .kStore h b ∧ (nodeAt s.heap j).owner = some b

structure HInv (s : State) : Prop where
  cinv : CInv s.heap (liveStart s) (liveTree s)
  ownerOK : ∀ j b, (nodeAt s.heap j).owner = some b → b < s.tbins.length
  firstOK : ∀ b h, (binAt s.tbins b).first = some h → h < s.heap.length
  cellOK : ∀ b, s.cell = .tree b → b < s.tbins.length
  chainOwner : ∀ j ∈ liveChain s, (nodeAt s.heap j).owner = liveOwner s

theorem HInv.chain_lt {s : State} (H : HInv s) {i : Nat} (hi : i ∈ liveChain s) : i < s.heap.length := by
  rw [liveChain_eq] at hi; exact H.cinv.chain_lt hi

theorem HInv.nodup {s : State} (H : HInv s) : (liveChain s).Nodup := by
  rw [liveChain_eq]; exact H.cinv.nodup

theorem HInv.isChain {s : State} (H : HInv s) : IsChain s.heap (liveStart s) (liveChain s) := by
  rw [liveChain_eq]; exact H.cinv.isChain

theorem HInv.distinct {s : State} (H : HInv s) :
    ∀ i j, i ∈ liveChain s → j ∈ liveChain s → (nodeAt s.heap i).key = (nodeAt s.heap j).key → i = j := by
  rw [liveChain_eq]; exact H.cinv.distinct

theorem HInv.binChain {s : State} (H : HInv s) (b : Nat) :
    IsChain s.heap (binAt s.tbins b).first (chainOfBin s b) :=
  chainOf_isChain H.cinv.nextOK _ (H.firstOK b)

/-! ## classification of program counters -/

def readerPc : Pc → Bool
  | .rCell _ | .rNode _ | .rFirst _ | .rState _ _ | .rLin _ _ | .rCas _ _ _ | .rTree _ | .rRelease _ _
  | .rVal _ | .lFirst _ | .lNode _ => true
  | _ => false

def kPc : Pc → Bool
  | .kCell | .kLock _ | .kCheck _ | .kBuild _ | .kStore _ _ | .kUnlock _ => true
  | _ => false

/-- holds the lock word of node `h` -/
def holdsLock : Pc → Option Nat
  | .wCheck h | .wFind h _ _ | .wStore h _ _ _ | .wUnlock h _ _ => some h
  | .kCheck h | .kBuild h | .kStore h _ | .kUnlock h => some h
  | _ => none

/-- past the successful re-check of the cell against `list h`, before its store -/
def validL : Pc → Option Nat
  | .wFind h _ _ | .wStore h _ _ _ | .kBuild h | .kStore h _ => some h
  | _ => none

/-- holds the mutex of `TreeBin` `b` -/
def holdsMutex : Pc → Option Nat
  | .tCheck b | .tFind b | .tVal b _ _ _ | .lrTry b _ _ | .lrLoop b _ _ | .tPrependLocked b
  | .tTreeLinkLocked b _ | .tUnlinkLocked b _ _ | .tRestructure b _ _ | .tUnlockRoot b _ | .tUntreeify b _
  | .tUnlockM b _ _ => some b
  | _ => none

/-- past the successful re-check of the cell against `tree b`, before the untreeify store -/
def validT : Pc → Option Nat
  | .tFind b | .tVal b _ _ _ | .lrTry b _ _ | .lrLoop b _ _ | .tPrependLocked b
  | .tTreeLinkLocked b _ | .tUnlinkLocked b _ _ | .tRestructure b _ _ | .tUnlockRoot b _ | .tUntreeify b _ => some b
  | _ => none

/-- holds the write lock of its `TreeBin` -/
def wr : Pc → Bool
  | .tPrependLocked _ | .tTreeLinkLocked _ _ | .tUnlinkLocked _ _ _ | .tRestructure _ _ _ | .tUnlockRoot _ _
  | .tUntreeify _ _ => true
  | _ => false

def isLoop : Pc → Bool
  | .lrLoop _ _ _ => true
  | _ => false

/-- holds a read lock of `TreeBin` `b` -/
def holdsRead : Pc → Option Nat
  | .rTree b | .rRelease b _ => some b
  | _ => none

/-- the `TreeBin` a program counter refers to (but for `kStore`, whose `TreeBin` is private) -/
def binRef : Pc → Option Nat
  | .rFirst b | .rState b _ | .rLin b _ | .rCas b _ _ | .rTree b | .rRelease b _ | .lFirst b | .tMutex b => some b
  | .tCheck b | .tFind b | .tVal b _ _ _ | .lrTry b _ _ | .lrLoop b _ _ | .tPrependLocked b
  | .tTreeLinkLocked b _ | .tUnlinkLocked b _ _ | .tRestructure b _ _ | .tUnlockRoot b _ | .tUntreeify b _
  | .tUnlockM b _ _ => some b
  | _ => none

def isKStore : Pc → Option Nat
  | .kStore _ b => some b
  | _ => none

/-- number of threads whose pc satisfies `q` -/
def cnt (q : Pc → Bool) (ls : List Local) : Nat := (ls.filter (fun l => q l.pc)).length

theorem cnt_set (q : Pc → Bool) (ls : List Local) (i : Nat) (old new : Local) (h : ls[i]? = some old) :
    cnt q (ls.set i new) + (if q old.pc then 1 else 0) = cnt q ls + (if q new.pc then 1 else 0) := by
  induction ls generalizing i with
  | nil => simp at h
  | cons a t ih =>
    cases i with
    | zero =>
      simp at h; subst h
      simp only [cnt, List.set_cons_zero, List.filter_cons]
      cases q a.pc <;> cases q new.pc <;> simp
    | succ j =>
      simp at h
      have := ih j h
      simp only [cnt, List.set_cons_succ, List.filter_cons] at this ⊢
      cases q a.pc <;> simp <;> omega

theorem cnt_pos_of {q : Pc → Bool} {ls : List Local} {i : Nat} {l : Local} (h : ls[i]? = some l)
    (hq : q l.pc = true) : 1 ≤ cnt q ls := by
  unfold cnt
  have hm : l ∈ ls.filter (fun l => q l.pc) :=
    List.mem_filter.mpr ⟨List.mem_iff_getElem?.mpr ⟨i, h⟩, hq⟩
  exact List.length_pos_of_mem hm

theorem cnt_zero_of {q : Pc → Bool} {ls : List Local} (h : ∀ l ∈ ls, q l.pc = false) : cnt q ls = 0 := by
  unfold cnt
  rw [List.length_eq_zero_iff, List.filter_eq_nil_iff]
  intro l hl
  rw [h l hl]; simp

/-! ## list access -/

theorem get_set {α : Type} {l : List α} {t t' : Nat} {a b : α} (h : (l.set t a)[t']? = some b) :
    (t' = t ∧ b = a) ∨ (t' ≠ t ∧ l[t']? = some b) := by
  rw [List.getElem?_set] at h
  by_cases htt : t = t'
  · rw [if_pos htt] at h
    split at h
    · cases h; exact Or.inl ⟨htt.symm, rfl⟩
    · cases h
  · rw [if_neg htt] at h
    exact Or.inr ⟨fun e => htt e.symm, h⟩

theorem get_set_self {α : Type} {l : List α} {t : Nat} {a b : α} (h : l[t]? = some b) :
    (l.set t a)[t]? = some a := by
  rw [List.getElem?_set, if_pos rfl, if_pos (List.getElem?_eq_some_iff.1 h).1]

theorem get_set_ne {α : Type} {l : List α} {t t' : Nat} {a : α} (h : t' ≠ t) :
    (l.set t a)[t']? = l[t']? := by
  rw [List.getElem?_set, if_neg (fun e => h e.symm)]

/-! ## threads and times -/

def PcOp (pc : Pc) (op : KOp) : Prop := pc ≠ .idle → kPc pc = false → isReader op = readerPc pc

structure TInv (s : State) : Prop where
  opOK : ∀ (t : Nat) (l : Local) (p : Pending), s.threads[t]? = some l → l.call = some p → PcOp l.pc p.op
  histTime : ∀ x ∈ s.hist, x.2.inv ≤ x.2.resp ∧ x.2.resp ≤ s.now
  pendTime : ∀ (t : Nat) (l : Local) (p : Pending), s.threads[t]? = some l → l.call = some p → p.inv ≤ s.now
  uniqHP : ∀ x ∈ s.hist, ∀ (t : Nat) (l : Local) (p : Pending), s.threads[t]? = some l → l.call = some p →
    x.2.inv ≠ p.inv
  uniqPP : ∀ (t t' : Nat) (l l' : Local) (p p' : Pending), s.threads[t]? = some l → s.threads[t']? = some l' →
    l.call = some p → l'.call = some p' → p.inv = p'.inv → t = t'
  uniqHH : s.hist.Pairwise (fun x y => x.2.inv ≠ y.2.inv)

/-- a transition that keeps the pending call of the thread -/
theorem tinv_keep {s s' : State} {t : Nat} {l l' : Local} (T : TInv s)
    (hl : s.threads[t]? = some l) (hthr : s'.threads = s.threads.set t l') (hnow : s'.now = s.now + 1)
    (hhist : s'.hist = s.hist) (hcall : l'.call = l.call)
    (hpc : ∀ p, l.call = some p → PcOp l'.pc p.op) : TInv s' := by
  have key : ∀ (t1 : Nat) (l1 : Local) (p1 : Pending), s'.threads[t1]? = some l1 → l1.call = some p1 →
      ∃ l0, s.threads[t1]? = some l0 ∧ l0.call = some p1 ∧ (PcOp l0.pc p1.op → PcOp l1.pc p1.op) := by
    intro t1 l1 p1 h1 hc1
    rw [hthr] at h1
    rcases get_set h1 with ⟨rfl, rfl⟩ | ⟨_, h1⟩
    · exact ⟨l, hl, hcall ▸ hc1, fun _ => hpc p1 (hcall ▸ hc1)⟩
    · exact ⟨l1, h1, hc1, id⟩
  refine ⟨?_, ?_, ?_, ?_, ?_, ?_⟩
  · intro t1 l1 p1 h1 hc1
    obtain ⟨l0, h0, hc0, himp⟩ := key t1 l1 p1 h1 hc1
    exact himp (T.opOK t1 l0 p1 h0 hc0)
  · intro x hx
    rw [hhist] at hx
    have := T.histTime x hx
    omega
  · intro t1 l1 p1 h1 hc1
    obtain ⟨l0, h0, hc0, -⟩ := key t1 l1 p1 h1 hc1
    have := T.pendTime t1 l0 p1 h0 hc0
    omega
  · intro x hx t1 l1 p1 h1 hc1
    rw [hhist] at hx
    obtain ⟨l0, h0, hc0, -⟩ := key t1 l1 p1 h1 hc1
    exact T.uniqHP x hx t1 l0 p1 h0 hc0
  · intro t1 t2 l1 l2 p1 p2 h1 h2 hc1 hc2 he
    obtain ⟨l01, h01, hc01, -⟩ := key t1 l1 p1 h1 hc1
    obtain ⟨l02, h02, hc02, -⟩ := key t2 l2 p2 h2 hc2
    exact T.uniqPP t1 t2 l01 l02 p1 p2 h01 h02 hc01 hc02 he
  · rw [hhist]; exact T.uniqHH

/-- an invocation -/
theorem tinv_invoke {s s' : State} {t : Nat} {l l' : Local} {k : Nat} {op : KOp} (T : TInv s)
    (hl : s.threads[t]? = some l) (hthr : s'.threads = s.threads.set t l') (hnow : s'.now = s.now + 1)
    (hhist : s'.hist = s.hist) (hcall : l'.call = some ⟨k, op, s.now + 1⟩)
    (hpc : PcOp l'.pc op) : TInv s' := by
  have key : ∀ (t1 : Nat) (l1 : Local) (p1 : Pending), s'.threads[t1]? = some l1 → l1.call = some p1 →
      (t1 = t ∧ l1 = l' ∧ p1 = ⟨k, op, s.now + 1⟩) ∨ (t1 ≠ t ∧ s.threads[t1]? = some l1) := by
    intro t1 l1 p1 h1 hc1
    rw [hthr] at h1
    rcases get_set h1 with ⟨rfl, rfl⟩ | ⟨hne, h1⟩
    · rw [hcall] at hc1; cases hc1
      exact Or.inl ⟨rfl, rfl, rfl⟩
    · exact Or.inr ⟨hne, h1⟩
  refine ⟨?_, ?_, ?_, ?_, ?_, ?_⟩
  · intro t1 l1 p1 h1 hc1
    rcases key t1 l1 p1 h1 hc1 with ⟨rfl, rfl, rfl⟩ | ⟨_, h0⟩
    · exact hpc
    · exact T.opOK t1 l1 p1 h0 hc1
  · intro x hx
    rw [hhist] at hx
    have := T.histTime x hx
    omega
  · intro t1 l1 p1 h1 hc1
    rcases key t1 l1 p1 h1 hc1 with ⟨rfl, rfl, rfl⟩ | ⟨_, h0⟩
    · simp only; omega
    · have := T.pendTime t1 l1 p1 h0 hc1
      omega
  · intro x hx t1 l1 p1 h1 hc1
    rw [hhist] at hx
    rcases key t1 l1 p1 h1 hc1 with ⟨rfl, rfl, rfl⟩ | ⟨_, h0⟩
    · have := T.histTime x hx
      simp only; omega
    · exact T.uniqHP x hx t1 l1 p1 h0 hc1
  · intro t1 t2 l1 l2 p1 p2 h1 h2 hc1 hc2 he
    rcases key t1 l1 p1 h1 hc1 with ⟨rfl, rfl, rfl⟩ | ⟨hne1, h01⟩ <;>
      rcases key t2 l2 p2 h2 hc2 with ⟨rfl, rfl, rfl⟩ | ⟨hne2, h02⟩
    · rfl
    · have := T.pendTime t2 l2 p2 h02 hc2
      simp only at he; omega
    · have := T.pendTime t1 l1 p1 h01 hc1
      simp only at he; omega
    · exact T.uniqPP t1 t2 l1 l2 p1 p2 h01 h02 hc1 hc2 he
  · rw [hhist]; exact T.uniqHH

/-- a call completes -/
theorem tinv_finish {s s' : State} {t : Nat} {l l' : Local} {p : Pending} {res : KRes} (T : TInv s)
    (hl : s.threads[t]? = some l) (hp : l.call = some p)
    (hthr : s'.threads = s.threads.set t l') (hnow : s'.now = s.now + 1)
    (hhist : s'.hist = (p.key, ⟨t, p.op, res, p.inv, s.now + 1⟩) :: s.hist) (hcall : l'.call = none) :
    TInv s' := by
  have key : ∀ (t1 : Nat) (l1 : Local) (p1 : Pending), s'.threads[t1]? = some l1 → l1.call = some p1 →
      t1 ≠ t ∧ s.threads[t1]? = some l1 := by
    intro t1 l1 p1 h1 hc1
    rw [hthr] at h1
    rcases get_set h1 with ⟨rfl, rfl⟩ | ⟨hne, h1⟩
    · rw [hcall] at hc1; cases hc1
    · exact ⟨hne, h1⟩
  have hpi := T.pendTime t l p hl hp
  refine ⟨?_, ?_, ?_, ?_, ?_, ?_⟩
  · intro t1 l1 p1 h1 hc1
    exact T.opOK t1 l1 p1 (key t1 l1 p1 h1 hc1).2 hc1
  · intro x hx
    rw [hhist] at hx
    rcases List.mem_cons.1 hx with rfl | hx
    · simp only; omega
    · have := T.histTime x hx
      omega
  · intro t1 l1 p1 h1 hc1
    have := T.pendTime t1 l1 p1 (key t1 l1 p1 h1 hc1).2 hc1
    omega
  · intro x hx t1 l1 p1 h1 hc1
    obtain ⟨hne, h0⟩ := key t1 l1 p1 h1 hc1
    rw [hhist] at hx
    rcases List.mem_cons.1 hx with rfl | hx
    · simp only
      intro he
      exact hne (T.uniqPP t1 t l1 l p1 p h0 hl hc1 hp he.symm)
    · exact T.uniqHP x hx t1 l1 p1 h0 hc1
  · intro t1 t2 l1 l2 p1 p2 h1 h2 hc1 hc2 he
    exact T.uniqPP t1 t2 l1 l2 p1 p2 (key t1 l1 p1 h1 hc1).2 (key t2 l2 p2 h2 hc2).2 hc1 hc2 he
  · rw [hhist]
    refine List.pairwise_cons.2 ⟨?_, T.uniqHH⟩
    intro y hy
    simp only
    exact fun he => T.uniqHP y hy t l p hl hp he.symm

/-! ## the locks -/

structure LInv (s : State) : Prop where
  lk : ∀ (t : Nat) (l : Local) (h : Nat), s.threads[t]? = some l →
    (holdsLock l.pc = some h ↔ (nodeAt s.heap h).lock = some t)
  lkValid : ∀ h x, (nodeAt s.heap h).lock = some x → x < s.threads.length
  vL : ∀ (t : Nat) (l : Local) (h : Nat), s.threads[t]? = some l → validL l.pc = some h → s.cell = .list h
  mx : ∀ (t : Nat) (l : Local) (b : Nat), s.threads[t]? = some l →
    (holdsMutex l.pc = some b ↔ (binAt s.tbins b).mutex = some t)
  mxValid : ∀ b x, (binAt s.tbins b).mutex = some x → x < s.threads.length
  vT : ∀ (t : Nat) (l : Local) (b : Nat), s.threads[t]? = some l → validT l.pc = some b → s.cell = .tree b
  bitsNone : ∀ b, s.cell = .tree b → (binAt s.tbins b).mutex = none →
    (binAt s.tbins b).writer = false ∧ (binAt s.tbins b).waiter = false
  bitsSome : ∀ (b t : Nat) (l : Local), s.cell = .tree b → s.threads[t]? = some l →
    (binAt s.tbins b).mutex = some t →
    (binAt s.tbins b).writer = wr l.pc ∧ ((binAt s.tbins b).waiter = true → isLoop l.pc = true)
  rd : ∀ b, b < s.tbins.length →
    (binAt s.tbins b).readers = cnt (fun pc => holdsRead pc == some b) s.threads
  wrd : ∀ b, (binAt s.tbins b).writer = true → (binAt s.tbins b).readers = 0
  dead : ∀ b, b < s.tbins.length → s.cell ≠ .tree b →
    (binAt s.tbins b).writer = true ∨ ∃ (t : Nat) (l : Local) (h : Nat), s.threads[t]? = some l ∧ l.pc = .kStore h b
  refOK : ∀ (t : Nat) (l : Local) (b : Nat), s.threads[t]? = some l → binRef l.pc = some b →
    b < s.tbins.length ∧ ∀ (t' : Nat) (l' : Local) (h : Nat), s.threads[t']? = some l' → l'.pc ≠ .kStore h b

theorem holdsLock_of_validL {pc : Pc} {h : Nat} (hv : validL pc = some h) : holdsLock pc = some h := by
  cases pc <;> simp [validL] at hv <;> simp [holdsLock, hv]

theorem holdsMutex_of_validT {pc : Pc} {b : Nat} (hv : validT pc = some b) : holdsMutex pc = some b := by
  cases pc <;> simp [validT] at hv <;> simp [holdsMutex, hv]

theorem holdsMutex_of_wr {pc : Pc} (hw : wr pc = true) : ∃ b, validT pc = some b := by
  cases pc <;> simp [wr] at hw <;> simp [validT]

theorem binRef_of_holdsMutex {pc : Pc} {b : Nat} (h : holdsMutex pc = some b) : binRef pc = some b := by
  cases pc <;> simp [holdsMutex] at h <;> simp [binRef, h]

theorem binRef_of_holdsRead {pc : Pc} {b : Nat} (h : holdsRead pc = some b) : binRef pc = some b := by
  cases pc <;> simp [holdsRead] at h <;> simp [binRef, h]

/-- the thread is past a successful re-check of the cell -/
def validated (pc : Pc) : Bool := (validL pc).isSome || (validT pc).isSome

/-- **validated holders are unique** -/
theorem LInv.valid_unique {s : State} (L : LInv s) {t t' : Nat} {l l' : Local}
    (hl : s.threads[t]? = some l) (hl' : s.threads[t']? = some l')
    (h : validated l.pc = true) (h' : validated l'.pc = true) : t = t' := by
  unfold validated at h h'
  cases hv : validL l.pc with
  | some a =>
    have hc := L.vL t l a hl hv
    cases hv' : validL l'.pc with
    | some a' =>
      have hc' := L.vL t' l' a' hl' hv'
      rw [hc] at hc'; cases hc'
      have e1 := (L.lk t l a hl).1 (holdsLock_of_validL hv)
      have e2 := (L.lk t' l' a hl').1 (holdsLock_of_validL hv')
      rw [e1] at e2; exact Option.some.inj e2
    | none =>
      rw [hv'] at h'
      cases hw' : validT l'.pc with
      | none => rw [hw'] at h'; cases h'
      | some b' =>
        have hc' := L.vT t' l' b' hl' hw'
        rw [hc] at hc'; cases hc'
  | none =>
    rw [hv] at h
    cases hw : validT l.pc with
    | none => rw [hw] at h; cases h
    | some b =>
      have hc := L.vT t l b hl hw
      cases hv' : validL l'.pc with
      | some a' =>
        have hc' := L.vL t' l' a' hl' hv'
        rw [hc] at hc'; cases hc'
      | none =>
        rw [hv'] at h'
        cases hw' : validT l'.pc with
        | none => rw [hw'] at h'; cases h'
        | some b' =>
          have hc' := L.vT t' l' b' hl' hw'
          rw [hc] at hc'; cases hc'
          have e1 := (L.mx t l b hl).1 (holdsMutex_of_validT hw)
          have e2 := (L.mx t' l' b hl').1 (holdsMutex_of_validT hw')
          rw [e1] at e2; exact Option.some.inj e2

theorem LInv.reader_pos {s : State} (L : LInv s) {t : Nat} {l : Local} {b : Nat} (hl : s.threads[t]? = some l)
    (h : holdsRead l.pc = some b) : 1 ≤ (binAt s.tbins b).readers := by
  have hb := (L.refOK t l b hl (binRef_of_holdsRead h)).1
  rw [L.rd b hb]
  exact cnt_pos_of hl (by simp [h])

/-! ## what the program counters know -/

/-- the walk of a validated list-bin writer looking for `key`, seen on the live chain: the nodes
passed are the prefix `l1` (none of them has the key), `pred` is the last of them, `cur` the next -/
def Walk (s : State) (key : Nat) (pred cur : Option Nat) : Prop :=
  ∃ l1 l2, liveChain s = l1 ++ l2 ∧ cur = l2.head? ∧ pred = l1.getLast? ∧
    ∀ j ∈ l1, (nodeAt s.heap j).key ≠ key

/-- the writer has found the live node `i` and will make `p`'s result `res` by removing it -/
def RemOK (s : State) (p : Pending) (i : Nat) (res : KRes) : Prop :=
  i ∈ liveChain s ∧ (nodeAt s.heap i).inTree = true ∧ (nodeAt s.heap i).key = p.key ∧
    specStep (some (nodeAt s.heap i).val) p.op = (none, res)

/-- no node of the tree of `b` has the key of `p` -/
def FreshOK (s : State) (b : Nat) (p : Pending) : Prop :=
  ∀ j, j < s.heap.length → (nodeAt s.heap j).owner = some b → (nodeAt s.heap j).inTree = true →
    (nodeAt s.heap j).key ≠ p.key

def PcInv (s : State) (p : Pending) : Pc → Prop
  | .rNode (some c) => c < s.heap.length
  | .rState _ (some c) => c < s.heap.length
  | .rCas _ c _ => c < s.heap.length
  | .rLin _ c => c < s.heap.length
  | .lNode (some c) => c < s.heap.length
  | .rVal _ => p.op ≠ .has
  | .wFind _ pred cur => Walk s p.key pred cur
  | .wStore _ pred hit hnext => Walk s p.key pred hit ∧
      ∀ i, hit = some i → (nodeAt s.heap i).key = p.key ∧ hnext = (nodeAt s.heap i).next
  | .tVal _ i v res => i ∈ liveChain s ∧ (nodeAt s.heap i).key = p.key ∧
      specStep (some (nodeAt s.heap i).val) p.op = (some v, res)
  | .lrTry b .insert _ => FreshOK s b p
  | .lrLoop b .insert _ => FreshOK s b p
  | .tPrependLocked b => FreshOK s b p
  | .tTreeLinkLocked b x => x ∈ liveChain s ∧ (nodeAt s.heap x).inTree = false ∧ (nodeAt s.heap x).key = p.key ∧
      FreshOK s b p
  | .lrTry _ (.remove i) res => RemOK s p i res
  | .lrLoop _ (.remove i) res => RemOK s p i res
  | .tUnlinkLocked _ i res => RemOK s p i res
  | .tRestructure b i _ => i ∉ liveChain s ∧ (nodeAt s.heap i).inTree = true ∧ i < s.heap.length ∧
      (nodeAt s.heap i).owner = some b
  | _ => True

/-- the private `TreeBin` `b` is a copy of the live list -/
structure BuiltOK (s : State) (b : Nat) : Prop where
  lt : b < s.tbins.length
  fresh : binAt s.tbins b = { first := (binAt s.tbins b).first }
  len : (chainOfBin s b).length = (liveChain s).length
  kv : ∀ j, j < (liveChain s).length →
    (nodeAt s.heap ((chainOfBin s b).getD j 0)).key = (nodeAt s.heap ((liveChain s).getD j 0)).key ∧
    (nodeAt s.heap ((chainOfBin s b).getD j 0)).val = (nodeAt s.heap ((liveChain s).getD j 0)).val
  own : ∀ j, j < s.heap.length → ((nodeAt s.heap j).owner = some b ↔ j ∈ chainOfBin s b)
  inTree : ∀ j ∈ chainOfBin s b, (nodeAt s.heap j).inTree = true

def KInv (s : State) : Pc → Prop
  | .kStore _ b => BuiltOK s b
  | _ => True

structure DInv (s : State) : Prop where
  pcInv : ∀ (t : Nat) (l : Local) (p : Pending), s.threads[t]? = some l → l.call = some p → PcInv s p l.pc
  kInv : ∀ (t : Nat) (l : Local), s.threads[t]? = some l → KInv s l.pc
  treeSub : ∀ b, s.cell = .tree b → ∀ j, j < s.heap.length → (nodeAt s.heap j).owner = some b →
    (nodeAt s.heap j).inTree = true → j ∉ liveChain s →
    ∃ (t : Nat) (l : Local), s.threads[t]? = some l ∧
      ((∃ res, l.pc = .tRestructure b j res) ∨ (∃ res, l.pc = .tUntreeify b res))
  chainSub : ∀ b, s.cell = .tree b → ∀ j ∈ liveChain s, (nodeAt s.heap j).inTree = false →
    ∃ (t : Nat) (l : Local), s.threads[t]? = some l ∧ l.pc = .tTreeLinkLocked b j

/-- the structural invariant -/
structure Inv (s : State) : Prop where
  heap : HInv s
  thr : TInv s
  lock : LInv s
  data : DInv s

/-! ## transitions that touch lock words and synchronisation words only -/

/-- heaps that differ in lock words only -/
def HeapEqv (heap heap' : List NodeS) : Prop :=
  heap'.length = heap.length ∧ ∀ j, (nodeAt heap' j).key = (nodeAt heap j).key ∧
    (nodeAt heap' j).val = (nodeAt heap j).val ∧ (nodeAt heap' j).next = (nodeAt heap j).next ∧
    (nodeAt heap' j).inTree = (nodeAt heap j).inTree ∧ (nodeAt heap' j).owner = (nodeAt heap j).owner

theorem HeapEqv.refl (heap : List NodeS) : HeapEqv heap heap := ⟨rfl, fun _ => ⟨rfl, rfl, rfl, rfl, rfl⟩⟩

theorem heapEqv_lockSet (heap : List NodeS) (h : Nat) (x : Option Nat) : HeapEqv heap (lockSet heap h x) := by
  refine ⟨by simp [lockSet], ?_⟩
  intro j
  unfold lockSet
  rw [nodeAt_modify]
  split <;> exact ⟨rfl, rfl, rfl, rfl, rfl⟩

theorem nodeAt_lockSet (heap : List NodeS) (h : Nat) (x : Option Nat) (j : Nat) :
    (nodeAt (lockSet heap h x) j).lock = if h = j ∧ j < heap.length then x else (nodeAt heap j).lock := by
  unfold lockSet
  rw [nodeAt_modify]
  split <;> rfl

theorem NextOK.congr {heap heap' : List NodeS} (hok : NextOK heap) (e : HeapEqv heap heap') : NextOK heap' := by
  have hget : ∀ (a : Nat) (n : NodeS), heap'[a]? = some n → heap[a]? = some (nodeAt heap a) ∧ n.next = (nodeAt heap a).next := by
    intro a n hn
    have hal : a < heap'.length := (List.getElem?_eq_some_iff.1 hn).1
    refine ⟨getElem?_nodeAt (e.1 ▸ hal), ?_⟩
    rw [← nodeAt_of_some hn]
    exact (e.2 a).2.2.1
  intro a n b hn hb
  obtain ⟨hn0, hnx⟩ := hget a n hn
  obtain ⟨h1, h2, h3⟩ := hok a _ b hn0 (hnx ▸ hb)
  refine ⟨by rw [e.1]; exact h1, h2, ?_⟩
  intro hab m b' hm hb'
  obtain ⟨hm0, hmx⟩ := hget b m hm
  exact h3 hab _ b' hm0 (hmx ▸ hb')

theorem chainOf_congr {heap heap' : List NodeS} (hok : NextOK heap) (e : HeapEqv heap heap') (st : Option Nat)
    (hst : ∀ i, st = some i → i < heap.length) : chainOf heap' st = chainOf heap st := by
  refine chainOf_eq (hok.congr e) ((chainOf_isChain hok st hst).congr ?_)
  intro j _ n hn
  have hjl : j < heap.length := (List.getElem?_eq_some_iff.1 hn).1
  refine ⟨nodeAt heap' j, getElem?_nodeAt (by rw [e.1]; exact hjl), ?_⟩
  rw [(e.2 j).2.2.1, nodeAt_of_some hn]

structure Quiet (s s' : State) : Prop where
  cell : s'.cell = s.cell
  heap : HeapEqv s.heap s'.heap
  tlen : s'.tbins.length = s.tbins.length
  first : ∀ b, (binAt s'.tbins b).first = (binAt s.tbins b).first

theorem Quiet.start_eq {s s' : State} (q : Quiet s s') : liveStart s' = liveStart s := by
  unfold liveStart
  rw [q.cell]
  cases s.cell with
  | empty => rfl
  | list h => rfl
  | tree b => exact q.first b

theorem Quiet.chain_eq {s s' : State} (q : Quiet s s') (H : HInv s) : liveChain s' = liveChain s := by
  rw [liveChain_eq, liveChain_eq, q.start_eq]
  exact chainOf_congr H.cinv.nextOK q.heap _ H.cinv.startOK

theorem Quiet.binChain_eq {s s' : State} (q : Quiet s s') (H : HInv s) (b : Nat) : chainOfBin s' b = chainOfBin s b := by
  rw [chainOfBin_eq, chainOfBin_eq, q.first]
  exact chainOf_congr H.cinv.nextOK q.heap _ (H.firstOK b)

theorem Quiet.tree_iff {s s' : State} (q : Quiet s s') (j : Nat) : liveTree s' j ↔ liveTree s j := by
  unfold liveTree
  rw [q.heap.1, (q.heap.2 j).2.2.2.1, (q.heap.2 j).2.2.2.2, q.cell]

theorem Quiet.owner_eq {s s' : State} (q : Quiet s s') : liveOwner s' = liveOwner s := by
  unfold liveOwner; rw [q.cell]

theorem Quiet.hinv {s s' : State} (q : Quiet s s') (H : HInv s) : HInv s' := by
  have hc : chainOf s'.heap (liveStart s) = chainOf s.heap (liveStart s) :=
    chainOf_congr H.cinv.nextOK q.heap _ H.cinv.startOK
  refine ⟨⟨H.cinv.nextOK.congr q.heap, ?_, ?_⟩, ?_, ?_, ?_, ?_⟩
  · intro h hh; rw [q.start_eq] at hh; rw [q.heap.1]; exact H.cinv.startOK h hh
  · intro a b ha hb hab
    rw [q.start_eq, hc] at ha hb
    rw [(q.heap.2 a).1, (q.heap.2 b).1] at hab
    refine H.cinv.keysDistinct a b ?_ ?_ hab
    · rcases ha with h | h
      · exact Or.inl h
      · exact Or.inr ((q.tree_iff a).1 h)
    · rcases hb with h | h
      · exact Or.inl h
      · exact Or.inr ((q.tree_iff b).1 h)
  · intro j b hj
    rw [(q.heap.2 j).2.2.2.2] at hj
    rw [q.tlen]; exact H.ownerOK j b hj
  · intro b h hh
    rw [q.first] at hh
    rw [q.heap.1]; exact H.firstOK b h hh
  · intro b hb
    rw [q.cell] at hb
    rw [q.tlen]; exact H.cellOK b hb
  · intro j hj
    rw [q.chain_eq H] at hj
    rw [(q.heap.2 j).2.2.2.2, q.owner_eq]
    exact H.chainOwner j hj

theorem Quiet.abs_eq {s s' : State} (q : Quiet s s') (H : HInv s) (k : Nat) : absOf s' k = absOf s k := by
  rw [absOf_eq, absOf_eq, q.chain_eq H]
  unfold absL
  have : (fun i => (nodeAt s'.heap i).key == k) = (fun i => (nodeAt s.heap i).key == k) := by
    funext i; rw [(q.heap.2 i).1]
  rw [this]
  cases (liveChain s).find? (fun i => (nodeAt s.heap i).key == k) with
  | none => rfl
  | some i => simp only [Option.map_some]; rw [(q.heap.2 i).2.1]

theorem treeFind_def (s : State) (b k : Nat) :
    treeFind s b k = (List.range s.heap.length).find? fun i =>
      (nodeAt s.heap i).owner == some b && (nodeAt s.heap i).inTree && (nodeAt s.heap i).key == k := rfl

theorem Quiet.find_eq {s s' : State} (q : Quiet s s') (b k : Nat) : treeFind s' b k = treeFind s b k := by
  rw [treeFind_def, treeFind_def, q.heap.1]
  congr 1
  funext i
  rw [(q.heap.2 i).1, (q.heap.2 i).2.2.2.1, (q.heap.2 i).2.2.2.2]

theorem Walk.quiet {s s' : State} (q : Quiet s s') (H : HInv s) {key : Nat} {pred cur : Option Nat}
    (w : Walk s key pred cur) : Walk s' key pred cur := by
  obtain ⟨l1, l2, hch, hcur, hpred, hkeys⟩ := w
  refine ⟨l1, l2, by rw [q.chain_eq H, hch], hcur, hpred, ?_⟩
  intro j hj
  rw [(q.heap.2 j).1]
  exact hkeys j hj

theorem FreshOK.quiet {s s' : State} (q : Quiet s s') {b : Nat} {p : Pending} (h : FreshOK s b p) : FreshOK s' b p := by
  intro j hj ho hin
  rw [q.heap.1] at hj
  rw [(q.heap.2 j).2.2.2.2] at ho
  rw [(q.heap.2 j).2.2.2.1] at hin
  rw [(q.heap.2 j).1]
  exact h j hj ho hin

theorem RemOK.quiet {s s' : State} (q : Quiet s s') (H : HInv s) {p : Pending} {i : Nat} {res : KRes}
    (h : RemOK s p i res) : RemOK s' p i res := by
  obtain ⟨h1, h2, h3, h4⟩ := h
  refine ⟨by rw [q.chain_eq H]; exact h1, by rw [(q.heap.2 i).2.2.2.1]; exact h2,
    by rw [(q.heap.2 i).1]; exact h3, by rw [(q.heap.2 i).2.1]; exact h4⟩

theorem PcInv.quiet {s s' : State} (q : Quiet s s') (H : HInv s) {p : Pending} {pc : Pc} (h : PcInv s p pc) :
    PcInv s' p pc := by
  cases pc <;> try exact trivial
  case rNode cur =>
    cases cur with
    | none => trivial
    | some c => simp only [PcInv] at h ⊢; rw [q.heap.1]; exact h
  case rState b cur =>
    cases cur with
    | none => trivial
    | some c => simp only [PcInv] at h ⊢; rw [q.heap.1]; exact h
  case rLin b c => simp only [PcInv] at h ⊢; rw [q.heap.1]; exact h
  case rCas b c r => simp only [PcInv] at h ⊢; rw [q.heap.1]; exact h
  case lNode cur =>
    cases cur with
    | none => trivial
    | some c => simp only [PcInv] at h ⊢; rw [q.heap.1]; exact h
  case rVal i => exact h
  case wFind h0 pred cur => exact Walk.quiet q H h
  case wStore h0 pred hit hnext =>
    simp only [PcInv] at h ⊢
    refine ⟨Walk.quiet q H h.1, ?_⟩
    intro i hi
    rw [(q.heap.2 i).1, (q.heap.2 i).2.2.1]
    exact h.2 i hi
  case tVal b i v res =>
    simp only [PcInv] at h ⊢
    rw [q.chain_eq H, (q.heap.2 i).1, (q.heap.2 i).2.1]
    exact h
  case lrTry b k res =>
    cases k with
    | insert => exact FreshOK.quiet q h
    | remove i => exact RemOK.quiet q H h
  case lrLoop b k res =>
    cases k with
    | insert => exact FreshOK.quiet q h
    | remove i => exact RemOK.quiet q H h
  case tPrependLocked b => exact FreshOK.quiet q h
  case tTreeLinkLocked b x =>
    simp only [PcInv] at h ⊢
    rw [q.chain_eq H, (q.heap.2 x).1, (q.heap.2 x).2.2.2.1]
    exact ⟨h.1, h.2.1, h.2.2.1, FreshOK.quiet q h.2.2.2⟩
  case tUnlinkLocked b i res => exact RemOK.quiet q H h
  case tRestructure b i res =>
    simp only [PcInv] at h ⊢
    rw [q.chain_eq H, q.heap.1, (q.heap.2 i).2.2.2.1, (q.heap.2 i).2.2.2.2]
    exact h

theorem BuiltOK.quiet {s s' : State} (q : Quiet s s') (H : HInv s) {b : Nat}
    (hb : binAt s'.tbins b = binAt s.tbins b) (h : BuiltOK s b) : BuiltOK s' b := by
  obtain ⟨h1, h2, h3, h4, h5, h6⟩ := h
  refine ⟨by rw [q.tlen]; exact h1, by rw [hb]; exact h2, by rw [q.binChain_eq H, q.chain_eq H]; exact h3, ?_, ?_, ?_⟩
  · intro j hj
    rw [q.chain_eq H] at hj ⊢
    rw [q.binChain_eq H, (q.heap.2 _).1, (q.heap.2 _).1, (q.heap.2 _).2.1, (q.heap.2 _).2.1]
    exact h4 j hj
  · intro j hj
    rw [q.heap.1] at hj
    rw [q.binChain_eq H, (q.heap.2 j).2.2.2.2]
    exact h5 j hj
  · intro j hj
    rw [q.binChain_eq H] at hj
    rw [(q.heap.2 j).2.2.2.1]
    exact h6 j hj

/-- live nodes are not private -/
theorem not_priv_of_live {s : State} (H : HInv s) (L : LInv s) {j : Nat} (hj : j ∈ liveChain s) : ¬ Priv s j := by
  rintro ⟨t, l, h, b, hl, hpc, ho⟩
  have hc := L.vL t l h hl (by rw [hpc]; rfl)
  have := H.chainOwner j hj
  rw [ho] at this
  unfold liveOwner at this
  rw [hc] at this
  cases this

/-- a step of thread `t` that does not put it at `kStore` makes no old node private -/
theorem priv_mono {s s' : State} {t : Nat} {l l' : Local} (hl : s.threads[t]? = some l)
    (hthr : s'.threads = s.threads.set t l')
    (hpc : ∀ h b, l'.pc = .kStore h b → l.pc = .kStore h b)
    (hown : ∀ j, j < s.heap.length → (nodeAt s'.heap j).owner = (nodeAt s.heap j).owner) :
    ∀ j, j < s.heap.length → Priv s' j → Priv s j := by
  rintro j hj ⟨t1, l1, h, b, hl1, hpc1, ho⟩
  rw [hown j hj] at ho
  rw [hthr] at hl1
  rcases get_set hl1 with ⟨rfl, rfl⟩ | ⟨_, hl1⟩
  · exact ⟨t1, l, h, b, hl, hpc h b hpc1, ho⟩
  · exact ⟨t1, l1, h, b, hl1, hpc1, ho⟩

end Flurry.Proto.BinK
