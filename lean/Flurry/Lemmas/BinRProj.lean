import Flurry.Proto.BinR
import Flurry.Lemmas.BinRB
/-! # Proto/BinW → Proto/Bin: the projection (C01)

(C13 port of `Flurry/Lemmas/BinWProj.lean` to the per-key operations of `Flurry/Lin2.lean`, i.e. with `retain`'s conditional removal `condRm`; below, "`Proto/Bin`" / `Base.` is `Flurry.Proto.BinR.Base` (`Proto/BinRBase.lean`) and "`Proto/BinW`" is `Flurry.Proto.BinR` (`Proto/BinR.lean`), which in addition has the `retain` visit steps.)

`proj : BinW.State → Base.State` forgets the positions a walking writer remembers: `wFind h _ _` and
`wStore h _ _ _` both become `Bin`'s `wWrite h`. Heap, bin cell, history and clock are kept.
This file: the conversion functions and how they commute with the state updates. -/
namespace Flurry.Proto.BinR
open Flurry.Lin2

def cN (n : NodeS) : Base.NodeS := ⟨n.key, n.val, n.next, n.lock⟩

def cP (p : Pending) : Base.Pending := ⟨p.key, p.op, p.inv⟩

def cPc : Pc → Base.Pc
  | .idle => .idle
  | .rHead => .rHead
  | .rNode c => .rNode c
  | .wHead => .wHead
  | .wCas => .wCas
  | .wLock h => .wLock h
  | .wCheck h => .wCheck h
  | .wFind h _ _ => .wWrite h
  | .wStore h _ _ _ => .wWrite h
  | .wUnlock h r b => .wUnlock h r b
  | .vHead _ => .idle
  | .vNode _ _ => .idle
  | .vLoaded _ _ => .idle

def cL (l : Local) : Base.Local := ⟨cPc l.pc, l.call.map cP⟩

def proj (s : State) : Base.State := ⟨s.heap.map cN, s.head, s.threads.map cL, s.hist, s.now⟩

/-- the state with the clock advanced -/
def tick (s : State) : State := { s with now := s.now + 1 }

@[simp] theorem cN_key (n : NodeS) : (cN n).key = n.key := rfl
@[simp] theorem cN_val (n : NodeS) : (cN n).val = n.val := rfl
@[simp] theorem cN_next (n : NodeS) : (cN n).next = n.next := rfl
@[simp] theorem cN_lock (n : NodeS) : (cN n).lock = n.lock := rfl
@[simp] theorem cP_key (p : Pending) : (cP p).key = p.key := rfl
@[simp] theorem cP_op (p : Pending) : (cP p).op = p.op := rfl
@[simp] theorem cP_inv (p : Pending) : (cP p).inv = p.inv := rfl
@[simp] theorem cL_pc (l : Local) : (cL l).pc = cPc l.pc := rfl
@[simp] theorem cL_call (l : Local) : (cL l).call = l.call.map cP := rfl
@[simp] theorem proj_heap (s : State) : (proj s).heap = s.heap.map cN := rfl
@[simp] theorem proj_head (s : State) : (proj s).head = s.head := rfl
@[simp] theorem proj_threads (s : State) : (proj s).threads = s.threads.map cL := rfl
@[simp] theorem proj_hist (s : State) : (proj s).hist = s.hist := rfl
@[simp] theorem proj_now (s : State) : (proj s).now = s.now := rfl

theorem proj_tick (s : State) : proj (tick s) = Base.tick (proj s) := rfl

theorem proj_thread {s : State} {t : Nat} {l : Local} (hl : s.threads[t]? = some l) :
    (proj s).threads[t]? = some (cL l) := by
  simp [hl]

theorem proj_node {s : State} {c : Nat} : (proj s).heap[c]? = (s.heap[c]?).map cN := by
  simp

theorem proj_setT (s : State) (t : Nat) (l : Local) : proj (setT s t l) = Base.setT (proj s) t (cL l) := by
  simp [proj, setT, Base.setT, List.map_set]

theorem proj_finish (s : State) (t : Nat) (p : Pending) (res : KRes) :
    proj (finish s t p res) = Base.finish (proj s) t (cP p) res := by
  simp [proj, finish, setT, Base.finish, Base.setT, List.map_set, cL, cPc]

theorem map_modify {α β : Type} (g : α → β) (f : α → α) (f' : β → β) (hf : ∀ a, g (f a) = f' (g a))
    (l : List α) (i : Nat) : (l.modify i f).map g = (l.map g).modify i f' := by
  apply List.ext_getElem?
  intro j
  simp only [List.getElem?_map, List.getElem?_modify]
  cases l[j]? with
  | none => rfl
  | some a => by_cases hij : i = j <;> simp [hij, hf]

theorem proj_setNode (s : State) (i : Nat) (f : NodeS → NodeS) (f' : Base.NodeS → Base.NodeS)
    (hf : ∀ a, cN (f a) = f' (cN a)) : proj (setNode s i f) = Base.setNode (proj s) i f' := by
  simp only [proj, setNode, Base.setNode]
  rw [map_modify cN f f' hf]

theorem proj_setNode_lock (s : State) (i : Nat) (x : Option Nat) :
    proj (setNode s i (fun m => { m with lock := x })) = Base.setNode (proj s) i (fun m => { m with lock := x }) :=
  proj_setNode s i _ _ (fun _ => rfl)

theorem proj_setNode_val (s : State) (i : Nat) (x : Nat × Nat) :
    proj (setNode s i (fun m => { m with val := x })) = Base.setNode (proj s) i (fun m => { m with val := x }) :=
  proj_setNode s i _ _ (fun _ => rfl)

theorem proj_setNode_next (s : State) (i : Nat) (x : Option Nat) :
    proj (setNode s i (fun m => { m with next := x })) = Base.setNode (proj s) i (fun m => { m with next := x }) :=
  proj_setNode s i _ _ (fun _ => rfl)

theorem getD_proj (s : State) (i : Nat) :
    (proj s).heap.getD i ⟨0, (0, 0), none, none⟩ = cN (s.heap.getD i ⟨0, (0, 0), none, none⟩) := by
  simp only [proj_heap, List.getD_eq_getElem?_getD, List.getElem?_map]
  cases s.heap[i]? <;> rfl

theorem chainFrom_proj (heap : List NodeS) : ∀ (fuel : Nat) (st : Option Nat),
    Base.chainFrom (heap.map cN) fuel st = chainFrom heap fuel st
  | 0, _ => by simp [Base.chainFrom, chainFrom]
  | _ + 1, none => by simp [Base.chainFrom, chainFrom]
  | fuel + 1, some i => by
    simp only [Base.chainFrom, chainFrom, List.getElem?_map]
    cases heap[i]? with
    | none => rfl
    | some n => simp [chainFrom_proj heap fuel]

theorem chain_proj (s : State) : Base.chain (proj s) = chain s := by
  simp [Base.chain, chain, chainFrom_proj]

theorem absOf_proj (s : State) (k : Nat) : Base.absOf (proj s) k = absOf s k := by
  unfold Base.absOf absOf
  rw [chain_proj]
  simp only [getD_proj, cN_key, cN_val]
  cases List.find? (fun i => (s.heap.getD i ⟨0, (0, 0), none, none⟩).key == k) (chain s) <;> rfl

theorem callsOn_proj (s : State) (k : Nat) : Base.callsOn (proj s) k = callsOn s k := rfl

theorem quiescent_proj {s : State} (hq : quiescent s) : Base.quiescent (proj s) := by
  intro l hl
  obtain ⟨l0, hl0, rfl⟩ := List.mem_map.1 hl
  show cPc l0.pc = .idle
  rw [hq l0 hl0]; rfl

theorem isReader_proj (op : KOp2) : Base.isReader op = isReader op := by cases op <;> rfl

end Flurry.Proto.BinR
