import Flurry.Lemmas.BinGNGenReach
/-! # Proto/BinGN: following the forwarding markers ends in the live cell (C01, C10)

Under the generation invariant a lookup that starts at `cur` follows at most ONE marker (`liveCell_eq`); a
thread that works in generation `g` — however old the table pointer it once loaded — and finds a cell that is
not forwarded has reached the live cell of its key (`live_of_gen`); allocating the next generation and
publishing it do not change the abstract state of any key. -/
namespace Flurry.Proto.BinGN
open Flurry.Lin

theorem liveFrom_of_not_moved (s : State) (k fuel g : Nat) (h : cellOf s g k ≠ .moved) :
    liveFrom s k fuel g = cellOf s g k := by
  cases fuel with
  | zero => rfl
  | succ f =>
    unfold liveFrom
    split
    · rename_i hm; exact absurd hm h
    · rfl

theorem liveFrom_of_moved (s : State) (k f g : Nat) (h : cellOf s g k = .moved) :
    liveFrom s k (f + 1) g = liveFrom s k f (g + 1) := by
  conv => lhs; unfold liveFrom
  rw [h]

/-- a lookup that starts now follows at most one forwarding marker -/
theorem GenInv.liveCell_eq {s : State} (I : GenInv s) (k : Nat) :
    liveCell s k = if cellOf s s.cur k = .moved then cellOf s (s.cur + 1) k else cellOf s s.cur k := by
  unfold liveCell
  obtain ⟨f, hf⟩ : ∃ f, s.tabs.length = f + 1 := ⟨s.tabs.length - 1, by have := I.cur_lt; omega⟩
  rw [hf]
  by_cases hm : cellOf s s.cur k = .moved
  · rw [if_pos hm, liveFrom_of_moved s k f s.cur hm]
    exact liveFrom_of_not_moved s k f _ (I.nextOK _)
  · rw [if_neg hm]
    exact liveFrom_of_not_moved s k _ _ hm

/-- **follow the markers until a live cell**: a thread that works in generation `g` for key `k` and sees a
cell of `k` that is not forwarded has reached the live cell of `k` — whatever the age of the table pointer it
started from -/
theorem GenInv.live_of_gen {s : State} (I : GenInv s) {t : Nat} {l : Local} {g k : Nat}
    (hl : s.threads[t]? = some l) (hg : (desc s.cur l).gen = some (g, k))
    (hnm : cellOf s g k ≠ .moved) : liveCell s k = cellOf s g k := by
  obtain ⟨h1, h2⟩ := (I.thr t l hl).gen g k hg
  rw [I.liveCell_eq]
  by_cases hc : g = s.cur + 1
  · rw [if_pos (h2 hc), hc]
  · by_cases hc' : g = s.cur
    · subst hc'
      rw [if_neg hnm]
    · exact absurd (I.old g _ (by omega) (mod_lt_pow _ _)) hnm

/-- a stale thread — one that works in a generation older than `cur` — can only see a forwarding marker -/
theorem GenInv.stale_sees_moved {s : State} (I : GenInv s) {g : Nat} (hg : g < s.cur) (k : Nat) :
    cellOf s g k = .moved :=
  I.old g _ hg (mod_lt_pow _ _)

theorem absOf_congr {s s' : State} (hh : s'.heap = s.heap) (hb : s'.tbins = s.tbins) {k : Nat}
    (hlive : liveCell s' k = liveCell s k) : absOf s' k = absOf s k := by
  unfold absOf chainOfCell chainOfBin
  rw [hh, hb, hlive]

theorem liveFrom_congr {s s' : State} (h : s'.tabs = s.tabs) (k : Nat) :
    ∀ (f g : Nat), liveFrom s' k f g = liveFrom s k f g := by
  have hc : ∀ g, cellOf s' g k = cellOf s g k := fun g => by rw [cellOf_eq, cellOf_eq, h]
  intro f
  induction f with
  | zero => intro g; exact hc g
  | succ f ih =>
    intro g
    unfold liveFrom
    rw [hc g]
    split
    · exact ih _
    · rfl

theorem liveCell_congr {s s' : State} (h : s'.tabs = s.tabs) (hc : s'.cur = s.cur) (k : Nat) :
    liveCell s' k = liveCell s k := by
  unfold liveCell
  rw [h, hc]
  exact liveFrom_congr h k _ _

/-- allocating the next generation changes the abstract state of no key -/
theorem alloc_abs {s s' : State} (I : GenInv s) (I' : GenInv s') (hh : s'.heap = s.heap) (hb : s'.tbins = s.tbins)
    (hcur : s'.cur = s.cur)
    (htabs : s'.tabs = s.tabs ++ [List.replicate (2 ^ (s.cur + 1)) .empty]) (k : Nat) :
    absOf s' k = absOf s k := by
  refine absOf_congr hh hb ?_
  rw [I.liveCell_eq, I'.liveCell_eq, hcur]
  have hc : ∀ g j, cellOf s' g j = cellOf s g j := by
    intro g j
    rw [cellOf_eq, cellOf_eq, htabs]
    exact cellT_alloc _ _ _ _
  rw [hc, hc]

/-- publishing the next table (`cur := cur + 1`, when every cell of `cur` is forwarded) changes the
abstract state of no key -/
theorem commit_abs {s s' : State} (I : GenInv s) (I' : GenInv s') (hh : s'.heap = s.heap) (hb : s'.tbins = s.tbins)
    (hcur : s'.cur = s.cur + 1) (htabs : s'.tabs = s.tabs)
    (hall : ∀ j, j < 2 ^ s.cur → cellAt s s.cur j = .moved) (k : Nat) :
    absOf s' k = absOf s k := by
  refine absOf_congr hh hb ?_
  have hc : ∀ g j, cellOf s' g j = cellOf s g j := by
    intro g j
    rw [cellOf_eq, cellOf_eq, htabs]
  rw [I.liveCell_eq, I'.liveCell_eq, hcur, hc, hc]
  have hm : cellOf s s.cur k = .moved := hall _ (mod_lt_pow _ _)
  have hn : cellOf s (s.cur + 1) k ≠ .moved := I.nextOK _
  rw [if_pos hm, if_neg hn]

/-- **allocation and publication of a generation have no abstract effect**: starting a resize (allocating
generation `cur + 1`) and committing (`cur := cur + 1`) change the abstract state of no key -/
theorem alloc_commit_abs {s s' : State} (I : GenInv s) {t : Nat} {l : Local}
    {inv : Option (Nat × KOp)} {lo : Bool} {mt : Option Nat} {rz sm sm2 : Bool} {pick : Nat}
    (hl : s.threads[t]? = some l) (hpc : (l.pc = .idle ∧ rz = true) ∨ l.pc = .xCommit)
    (hs : step s t inv lo mt rz sm sm2 pick = some s') (k : Nat) : absOf s' k = absOf s k := by
  have I' := step_geninv I hs
  rcases hpc with ⟨hi, hrz⟩ | hc
  · subst hrz
    obtain ⟨pc, call⟩ := l
    simp only at hi; subst hi
    unfold step stepG at hs
    rw [hl] at hs
    simp only [if_true] at hs
    split at hs
    · cases hs
      exact absOf_congr (s := s) (s' := { s with now := s.now + 1 }) rfl rfl
        (liveCell_congr (s := s) (s' := { s with now := s.now + 1 }) rfl rfl k)
    · cases hs
      exact alloc_abs I I' rfl rfl rfl rfl k
  · have hall := (I.thr t l hl).commit (by
      obtain ⟨pc, call⟩ := l
      simp only at hc; subst hc; rfl)
    obtain ⟨pc, call⟩ := l
    simp only at hc; subst hc
    unfold step stepG at hs
    rw [hl] at hs
    cases call with
    | some p => simp at hs
    | none =>
      simp only [Option.some.injEq] at hs
      subst hs
      exact commit_abs I I' rfl rfl rfl rfl hall k

end Flurry.Proto.BinGN
