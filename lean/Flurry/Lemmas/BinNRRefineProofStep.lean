import Flurry.Lemmas.BinNRRefineProofSim
/-! # Proto/BinNR → Proto/Reclaim2: every transition is simulated — the projected events are accepted and `Sim` is kept -/
namespace Flurry.Proto.BinNR
open Flurry.Lin
open Flurry.Proto.BinX (NodeS Cell Pending isReader nodeAt nodeAt_of_some get_set get_set_self get_set_ne)
open Flurry.Proto.BinN (Pc Local Ghost Inv HInv Live StepK stepK_inv step_stepK)
open Flurry.Proto.Reclaim2 (OSt Ev acquirable active prune retireOf run_append_some run_acquire run_touch run_alloc
  run_publish run_unlink run_retire)

/-- pruning a list at the `exit` of `t` (if the step ends the guard) -/
def prl (ex : Bool) (t : Nat) (u : List Nat) : List Nat := if ex then u.filter (· != t) else u

/-- the abstract object after the optional `exit t` -/
def prO (ex : Bool) (t : Nat) (st : OSt) : OSt := if ex then prune t st else st

theorem prO_unlinked (ex : Bool) (t : Nat) (u : List Nat) : prO ex t (.unlinked u) = .unlinked (prl ex t u) := by
  cases ex <;> rfl
theorem prO_retired (ex : Bool) (t : Nat) (u w : List Nat) :
    prO ex t (.retired u w) = .retired (prl ex t u) (prl ex t w) := by cases ex <;> rfl
theorem prO_fresh (ex : Bool) (t : Nat) : prO ex t .fresh = .fresh := by cases ex <;> rfl
theorem prO_linked (ex : Bool) (t : Nat) : prO ex t .linked = .linked := by cases ex <;> rfl
theorem prO_freed (ex : Bool) (t : Nat) : prO ex t .freed = .freed := by cases ex <;> rfl

theorem sim_base {s : State} {G : Ghost} {a : Reclaim2.State} (R : RInv s G) (K : RInv2 s) (S : Sim a s)
    (IA : Reclaim2.Inv a) {t : Nat} {l : Local} {pick : Nat} {n' : BinN.State} (inv : Option (Nat × KOp)) (rz : Bool)
    (hl : s.n.threads[t]? = some l) (hK : StepK s.n t l pick n') :
    ∃ a', Reclaim2.run a (project s t (.base inv rz pick) (afterBase false s t n')) = some a' ∧
      Sim a' (afterBase false s t n') := by
  obtain ⟨G', I', m, -⟩ := stepK_inv R.inv hl hK
  obtain ⟨l', hthr, -⟩ := acquire hK
  have hRB := retiredBy_dead R.inv hl hK
  have H := R.inv.heap
  have hlen := memStep_len m
  have hl' : n'.threads[t]? = some l' := by rw [hthr]; exact get_set_self hl
  have hlenT : n'.threads.length = s.n.threads.length := by rw [hthr, List.length_set]
  have hgo : ∀ x, x ≠ t → guarded n' x = guarded s.n x := by
    intro x hne; unfold guarded; rw [hthr, get_set_ne hne]
  have hho : ∀ x, x ≠ t → holdsOf n' x = holdsOf s.n x := by
    intro x hne; unfold holdsOf; rw [hthr, get_set_ne hne]
  -- guards during the step
  let gm : Nat → Bool := fun x => guarded s.n x || guarded n' x
  have hgm_lt : ∀ x, gm x = true → x < s.n.threads.length := by
    intro x hx
    simp only [gm, Bool.or_eq_true] at hx
    rcases hx with h | h
    · exact guarded_lt h
    · rw [← hlenT]; exact guarded_lt h
  have hgmt : gm t = true ∨ (n'.heap = s.n.heap ∧ n'.tabs = s.n.tabs) := by
    cases h0 : guarded s.n t with
    | true => left; simp [gm, h0]
    | false =>
      rcases idle_step hl hK h0 with h | h
      · left; simp [gm, h]
      · exact Or.inr h
  have hdead' : ∀ i u, s.unl i = some u → ¬ Live0 n' i := by
    intro i u hu h0
    obtain ⟨hd, hlt⟩ := R.j1 i u hu
    exact (dead_step m hlt hd).1 h0.live
  -- the event list
  have hproj : project s t (.base inv rz pick) (afterBase false s t n') =
      (if (!guarded s.n t && guarded n' t) = true then [Ev.enter t] else []) ++
      ((touches s.n t ++ holdsOf n' t).map (Ev.acquire t)) ++
      ((touches s.n t).map (Ev.touch t)) ++
      (List.replicate (n'.heap.length - s.n.heap.length) (Ev.alloc t)) ++
      (((List.range n'.heap.length).filter fun i => !reach s.n i && reach n' i).map (Ev.publish t)) ++
      (((List.range s.n.heap.length).filter fun i => reach s.n i && !reach n' i).map (Ev.unlink t)) ++
      (if exitsB s t n' = true then (pend1 s t).map (Ev.retire t) else []) ++
      (if exitsB s t n' = true then [Ev.exit t] else []) := rfl
  rw [hproj]
  -- 1. enter
  obtain ⟨a1, r1, o1, g1, b1, t1, d1⟩ : ∃ a1, Reclaim2.run a
      (if (!guarded s.n t && guarded n' t) = true then [Ev.enter t] else []) = some a1 ∧ a1.objs = a.objs ∧
      a1.guarded = gm ∧ a1.nobjs = a.nobjs ∧ a1.nthreads = a.nthreads ∧ a1.holds = a.holds := by
    by_cases he : (!guarded s.n t && guarded n' t) = true
    · rw [if_pos he]
      simp only [Bool.and_eq_true, Bool.not_eq_true'] at he
      have hs : Reclaim2.step a (.enter t) =
          some { a with guarded := fun x => if x = t then true else a.guarded x } := by
        unfold Reclaim2.step; simp only
        rw [if_pos ⟨by rw [S.nthr]; exact (List.getElem?_eq_some_iff.1 hl).1, by rw [S.grd]; exact he.1⟩]
      refine ⟨{ a with guarded := fun x => if x = t then true else a.guarded x },
        by simp only [Reclaim2.run, hs], rfl, ?_, rfl, rfl, rfl⟩
      funext x
      show (if x = t then true else a.guarded x) = (guarded s.n x || guarded n' x)
      by_cases hx : x = t
      · rw [if_pos hx, hx, he.2]; simp
      · rw [if_neg hx, S.grd, hgo x hx]; simp
    · rw [if_neg he]
      refine ⟨a, rfl, rfl, ?_, rfl, rfl, rfl⟩
      funext x
      show a.guarded x = (guarded s.n x || guarded n' x)
      rw [S.grd]
      by_cases hx : x = t
      · rw [hx]
        revert he
        cases guarded s.n t <;> cases guarded n' t <;> simp
      · rw [hgo x hx]; simp
  -- 2. acquire
  obtain ⟨a2, r2, o2, g2, b2, t2, d2, d2'⟩ := run_acquire t (touches s.n t ++ holdsOf n' t) a1 (by
    intro o ho
    have hjust : (Live0 s.n o ∨ ∃ u, s.unl o = some u ∧ t ∈ u) ∧ gm t = true := by
      rcases List.mem_append.1 ho with ho | ho
      · obtain ⟨h1, h2⟩ := R.pre_touches ho
        exact ⟨h1, by simp [gm, h2]⟩
      · refine ⟨R.pre_holds hl hK o ho, ?_⟩
        have : guarded n' t = true := by
          unfold holdsOf at ho; rw [hl'] at ho
          exact guarded_of_holds hl' ho
        simp [gm, this]
    obtain ⟨h1, h2⟩ := S.acquirable R hjust.1
    rw [g1, b1, o1]
    exact ⟨hjust.2, h1, h2⟩)
  -- 3. touch
  have r3 : Reclaim2.run a2 ((touches s.n t).map (Ev.touch t)) = some a2 := by
    refine run_touch t _ a2 ?_
    intro o ho
    refine ⟨(d2' o).2 (Or.inl (List.mem_append_left _ ho)), ?_⟩
    rw [o2, o1]
    exact acquirable_not_freed (S.acquirable R (R.pre_touches ho).1).2
  -- 4. alloc
  obtain ⟨a4, r4, o4, g4, b4, t4, d4, d4'⟩ := run_alloc t (n'.heap.length - s.n.heap.length) a2 (by
    intro hk
    rw [g2, g1]
    rcases hgmt with h | ⟨h, -⟩
    · exact h
    · rw [h] at hk; exact absurd (Nat.sub_self _) hk)
  have b4' : a4.nobjs = n'.heap.length := by rw [b4, b2, b1, S.nobjs]; omega
  -- 5. publish
  have hPmem : ∀ o, o ∈ (List.range n'.heap.length).filter (fun i => !reach s.n i && reach n' i) ↔
      o < n'.heap.length ∧ reach s.n o = false ∧ reach n' o = true := by
    intro o; simp [List.mem_filter, List.mem_range]
  have hUmem : ∀ o, o ∈ (List.range s.n.heap.length).filter (fun i => reach s.n i && !reach n' i) ↔
      o < s.n.heap.length ∧ reach s.n o = true ∧ reach n' o = false := by
    intro o; simp [List.mem_filter, List.mem_range]
  have hpubFresh : ∀ o, reach s.n o = false → reach n' o = true → a.objs o = .fresh ∧ s.unl o = none := by
    intro o h0 h1
    have hun : s.unl o = none := by
      cases hu : s.unl o with
      | none => rfl
      | some u => exact absurd ((reach_iff _ _).1 h1) (hdead' o u hu)
    refine ⟨?_, hun⟩
    by_cases hlt : o < s.n.heap.length
    · exact S.fresh R hlt hun h0
    · exact IA.fresh o (by rw [S.nobjs]; omega)
  obtain ⟨a5, r5, o5, g5, b5, t5, d5⟩ := run_publish t _ a4 (by
    intro o ho
    obtain ⟨h1, h2, h3⟩ := (hPmem o).1 ho
    refine ⟨?_, by rw [b4']; exact h1, by rw [o4, o2, o1]; exact (hpubFresh o h2 h3).1⟩
    rw [g4, g2, g1]
    rcases hgmt with h | ⟨hh, ht⟩
    · exact h
    · rw [reach_congr hh ht, h2] at h3; cases h3) (List.nodup_range.filter _)
  -- 6. unlink
  obtain ⟨a6, r6, o6, g6, b6, t6, d6⟩ := run_unlink t _ a5 (by
    intro o ho
    obtain ⟨h1, h2, h3⟩ := (hUmem o).1 ho
    rw [o5]
    show (if o ∈ _ then OSt.linked else a4.objs o) = .linked
    split
    · rfl
    · rw [o4, o2, o1]; exact S.linked R ((reach_iff _ _).1 h2)) (List.nodup_range.filter _)
  have hact : ∀ x, x ∈ active a5 ↔ gm x = true := by
    intro x
    unfold Reclaim2.active
    rw [List.mem_filter, List.mem_range, g5, g4, g2, g1, t5, t4, t2, t1, S.nthr]
    exact ⟨fun h => h.2, fun h => ⟨hgm_lt x h, h⟩⟩
  have o6' : ∀ x, a6.objs x =
      if x ∈ (List.range s.n.heap.length).filter (fun i => reach s.n i && !reach n' i) then OSt.unlinked (active a5)
      else if x ∈ (List.range n'.heap.length).filter (fun i => !reach s.n i && reach n' i) then OSt.linked
      else a.objs x := by
    intro x; rw [o6, o5, o4, o2, o1]
  -- facts about the retire list
  have hRl : ∀ o, o ∈ pend1 s t → o < s.n.heap.length ∧ reach n' o = false ∧ s.life o = .live ∧
      ((o ∈ s.pend t ∧ reach s.n o = false ∧ (s.unl o).isSome = true) ∨ (reach s.n o = true)) := by
    intro o ho
    rcases List.mem_append.1 ho with hp | hr
    · obtain ⟨h1, -⟩ := R.j7 t o hp
      cases hu : s.unl o with
      | none => rw [hu] at h1; cases h1
      | some u =>
        exact ⟨(R.j1 o u hu).2, reach_false_of_not (hdead' o u hu), K.k1 t o hp,
          Or.inl ⟨hp, reach_false_of_not (R.not_live0_of_unl hu), rfl⟩⟩
    · obtain ⟨h0, h1, -⟩ := hRB o hr
      exact ⟨h0.lt H, reach_false_of_not h1, R.j4n o (R.unl_none_of_live0 h0), Or.inr ((reach_iff _ _).2 h0)⟩
  have hRlnd : (pend1 s t).Nodup := by
    unfold pend1
    rw [List.nodup_append]
    refine ⟨K.k2 t, retiredBy_nodup R.inv t, ?_⟩
    intro x hx y hy hxy
    subst hxy
    have := (R.j7 t x hx).1
    rw [R.unl_none_of_live0 (hRB x hy).1] at this; cases this
  -- 7./8. retire and exit
  obtain ⟨a8, r78, o8, g8, b8, t8, d8, d8'⟩ : ∃ a8, Reclaim2.run a6
      ((if exitsB s t n' = true then (pend1 s t).map (Ev.retire t) else []) ++
       (if exitsB s t n' = true then [Ev.exit t] else [])) = some a8 ∧
      (∀ x, a8.objs x = prO (exitsB s t n') t
        (if exitsB s t n' = true ∧ x ∈ pend1 s t then retireOf (active a5) (a6.objs x) else a6.objs x)) ∧
      a8.guarded = guarded n' ∧ a8.nobjs = a6.nobjs ∧ a8.nthreads = a6.nthreads ∧
      (∀ x, x ≠ t → a8.holds x = a6.holds x) ∧ (exitsB s t n' = false → a8.holds t = a6.holds t) := by
    have hga6 : a6.guarded = gm := by rw [g6, g5, g4, g2, g1]
    by_cases hex : exitsB s t n' = true
    · have hex' := hex
      simp only [exitsB, Bool.and_eq_true, Bool.not_eq_true'] at hex'
      rw [if_pos hex, if_pos hex]
      have hgt : gm t = true := by simp [gm, hex'.1]
      obtain ⟨a7, r7, o7, g7, b7, t7, d7⟩ := run_retire t (pend1 s t) a6 (by
        intro o ho
        refine ⟨by rw [hga6]; exact hgt, ?_⟩
        obtain ⟨h1, h2, h3, h4⟩ := hRl o ho
        rw [o6' o]
        rcases h4 with ⟨hp, h5, h6⟩ | h5
        · rw [if_neg (by rw [hUmem]; intro h; rw [h5] at h; cases h.2.1),
            if_neg (by rw [hPmem]; intro h; rw [h2] at h; cases h.2.2)]
          cases hu : s.unl o with
          | none => rw [hu] at h6; cases h6
          | some u' =>
            obtain ⟨u, hu1, -⟩ := S.unlinked h1 hu h3
            exact ⟨u, hu1⟩
        · rw [if_pos ((hUmem o).2 ⟨h1, h5, h2⟩)]
          exact ⟨_, rfl⟩) hRlnd
      have hs : Reclaim2.step a7 (.exit t) = some { a7 with
          guarded := fun x => if x = t then false else a7.guarded x
          holds := fun x => if x = t then [] else a7.holds x
          objs := fun o => prune t (a7.objs o) } := by
        unfold Reclaim2.step; simp only
        rw [if_pos (by rw [g7, hga6]; exact hgt)]
      refine ⟨{ a7 with
          guarded := fun x => if x = t then false else a7.guarded x
          holds := fun x => if x = t then [] else a7.holds x
          objs := fun o => prune t (a7.objs o) },
        run_append_some r7 (by simp only [Reclaim2.run, hs]), ?_, ?_, b7, t7, ?_, ?_⟩
      · intro x
        show prune t (a7.objs x) = _
        rw [o7, hex]
        simp only [prO, if_true, true_and]
        rw [Reclaim2.active_eq (a' := a6) (a := a5) t6 g6]
      · funext x
        show (if x = t then false else a7.guarded x) = guarded n' x
        by_cases hx : x = t
        · rw [if_pos hx, hx, hex'.2]
        · rw [if_neg hx, g7, hga6]
          show (guarded s.n x || guarded n' x) = guarded n' x
          rw [hgo x hx]; simp
      · intro x hx
        show (if x = t then [] else a7.holds x) = a6.holds x
        rw [if_neg hx, d7]
      · intro h; rw [hex] at h; cases h
    · have hexf : exitsB s t n' = false := by
        cases h : exitsB s t n' with
        | true => exact absurd h hex
        | false => rfl
      rw [if_neg hex, if_neg hex]
      refine ⟨a6, rfl, ?_, ?_, rfl, rfl, fun _ _ => rfl, fun _ => rfl⟩
      · intro x
        rw [hexf]
        simp [prO]
      · rw [hga6]
        funext x
        show (guarded s.n x || guarded n' x) = guarded n' x
        by_cases hx : x = t
        · rw [hx]
          simp only [exitsB] at hexf
          revert hexf
          cases guarded s.n t <;> cases guarded n' t <;> simp
        · rw [hgo x hx]; simp
  rw [List.append_assoc]
  refine ⟨a8, run_append_some (run_append_some (run_append_some (run_append_some (run_append_some
    (run_append_some r1 r2) r3) r4) r5) r6) r78, ?_⟩

  have PRL : ∀ (u : List Nat) (x : Nat), (∀ y ∈ u, gm y = true) →
      (x ∈ prl (exitsB s t n') t u ↔ x ∈ u ∧ guarded n' x = true) := by
    intro u x hu
    unfold prl
    by_cases hex : exitsB s t n' = true
    · have hex' := hex
      simp only [exitsB, Bool.and_eq_true, Bool.not_eq_true'] at hex'
      rw [if_pos hex, List.mem_filter]
      constructor
      · rintro ⟨h1, h2⟩
        have hne : x ≠ t := by simpa using h2
        refine ⟨h1, ?_⟩
        have := hu x h1
        simp only [gm, Bool.or_eq_true] at this
        rcases this with h | h
        · rw [hgo x hne]; exact h
        · exact h
      · rintro ⟨h1, h2⟩
        refine ⟨h1, ?_⟩
        have : x ≠ t := by intro e; rw [e, hex'.2] at h2; cases h2
        simpa using this
    · rw [if_neg hex]
      constructor
      · intro h1
        refine ⟨h1, ?_⟩
        have := hu x h1
        simp only [gm, Bool.or_eq_true] at this
        rcases this with h | h
        · by_cases hx : x = t
          · rw [hx] at h ⊢
            cases hg : guarded n' t with
            | true => rfl
            | false => exact absurd (by simp [exitsB, h, hg]) hex
          · rw [hgo x hx]; exact h
        · exact h
      · exact fun h => h.1
  have hgmact : ∀ y ∈ active a5, gm y = true := fun y hy => (hact y).1 hy
  have actpr : ∀ x, x ∈ prl (exitsB s t n') t (active a5) ↔ x ∈ guardedSet n' := by
    intro x
    rw [PRL _ x hgmact, mem_guardedSet, hact]
    constructor
    · exact fun h => h.2
    · intro h; exact ⟨by simp [gm, h], h⟩
  have filt : ∀ (u u' : List Nat) (x : Nat), (∀ y, y ∈ u ↔ y ∈ u') → (∀ y ∈ u', guarded s.n y = true) →
      (x ∈ prl (exitsB s t n') t u ↔ x ∈ u'.filter (guarded n')) := by
    intro u u' x huu hg
    rw [PRL u x (fun y hy => by simp [gm, hg y ((huu y).1 hy)]), List.mem_filter, huu x]
  have hunl' : ∀ i, (afterBase false s t n').unl i =
      if (reach s.n i && !reach n' i) = true then some (guardedSet n')
      else (s.unl i).map (·.filter (guarded n')) := fun _ => rfl
  have hnotRl : ∀ i, reach n' i = true → ¬ (exitsB s t n' && (pend1 s t).contains i) = true := by
    intro i h1 hc
    simp only [Bool.and_eq_true, List.contains_iff_mem] at hc
    have := (hRl i hc.2).2.1
    rw [h1] at this; cases this
  refine ⟨?_, ?_, ?_, ?_, ?_⟩
  · rw [t8, t6, t5, t4, t2, t1, S.nthr]; exact hlenT.symm
  · rw [b8, b6, b5, b4']; rfl
  · intro x; rw [g8]; rfl
  · intro x i hi
    have hi' : i ∈ holdsOf n' x := hi
    by_cases hx : x = t
    · rw [hx] at hi' ⊢
      have hg : guarded n' t = true := by
        unfold holdsOf at hi'; rw [hl'] at hi'; exact guarded_of_holds hl' hi'
      have hexf : exitsB s t n' = false := by simp [exitsB, hg]
      rw [d8' hexf, d6, d5]
      exact d4' i ((d2' i).2 (Or.inl (List.mem_append_right _ hi')))
    · rw [d8 x hx, d6, d5, d4 x hx, d2 x hx, d1]
      rw [hho x hx] at hi'
      exact S.hld x i hi'
  · intro i hi
    show ObjRel (a8.objs i) ((afterBase false s t n').unl i) ((afterBase false s t n').life i) (reach n' i)
    rw [o8 i, hunl' i, afterBase_life]
    have hcond : (exitsB s t n' = true ∧ i ∈ pend1 s t) ↔ (exitsB s t n' && (pend1 s t).contains i) = true := by
      simp only [Bool.and_eq_true, List.contains_iff_mem]
    cases h0 : reach s.n i with
    | true =>
      have hL0 := (reach_iff _ _).1 h0
      have hiN := hL0.lt H
      have hun := R.unl_none_of_live0 hL0
      have hlive := R.j4n i hun
      cases h1 : reach n' i with
      | false =>
        have h6 : a6.objs i = OSt.unlinked (active a5) := by
          rw [o6' i, if_pos ((hUmem i).2 ⟨hiN, h0, h1⟩)]
        simp only [Bool.not_false, Bool.and_self, if_true]
        by_cases hc : (exitsB s t n' && (pend1 s t).contains i) = true
        · rw [if_pos hc, if_pos (hcond.2 hc), h6]
          show ObjRel (prO _ t (OSt.retired _ _)) _ _ _
          rw [prO_retired]
          exact ⟨_, _, rfl, rfl, actpr, actpr⟩
        · rw [if_neg hc, if_neg (fun h => hc (hcond.1 h)), h6, prO_unlinked, hlive]
          exact ⟨_, rfl, actpr, rfl⟩
      | true =>
        have nU : i ∉ (List.range s.n.heap.length).filter (fun i => reach s.n i && !reach n' i) := by
          rw [hUmem]; intro h; rw [h1] at h; cases h.2.2
        have nP : i ∉ (List.range n'.heap.length).filter (fun i => !reach s.n i && reach n' i) := by
          rw [hPmem]; intro h; rw [h0] at h; cases h.2.1
        have h6 : a6.objs i = OSt.linked := by
          rw [o6' i, if_neg nU, if_neg nP]; exact S.linked R hL0
        simp only [Bool.not_true, Bool.and_false, Bool.false_eq_true, if_false]
        rw [if_neg (hnotRl i h1), if_neg (fun h => hnotRl i h1 (hcond.1 h)), h6, prO_linked, hun, hlive]
        exact ⟨rfl, rfl, rfl⟩
    | false =>
      have nU : i ∉ (List.range s.n.heap.length).filter (fun i => reach s.n i && !reach n' i) := by
        rw [hUmem]; intro h; rw [h0] at h; cases h.2.1
      cases h1 : reach n' i with
      | true =>
        obtain ⟨hfr, hun⟩ := hpubFresh i h0 h1
        have h6 : a6.objs i = OSt.linked := by
          rw [o6' i, if_neg nU, if_pos ((hPmem i).2 ⟨hi, h0, h1⟩)]
        simp only [Bool.not_true, Bool.and_false, Bool.false_eq_true, if_false]
        rw [if_neg (hnotRl i h1), if_neg (fun h => hnotRl i h1 (hcond.1 h)), h6, prO_linked, hun, R.j4n i hun]
        exact ⟨rfl, rfl, rfl⟩
      | false =>
        have nP : i ∉ (List.range n'.heap.length).filter (fun i => !reach s.n i && reach n' i) := by
          rw [hPmem]; intro h; rw [h1] at h; cases h.2.2
        have h6 : a6.objs i = a.objs i := by rw [o6' i, if_neg nU, if_neg nP]
        simp only [Bool.not_false, Bool.and_true, Bool.false_eq_true, if_false]
        by_cases hc : (exitsB s t n' && (pend1 s t).contains i) = true
        · rw [if_pos hc, if_pos (hcond.2 hc), h6]
          obtain ⟨hiN, -, hlive, h4⟩ := hRl i (hcond.2 hc).2
          rcases h4 with ⟨-, -, h6'⟩ | h5
          · cases hu : s.unl i with
            | none => rw [hu] at h6'; cases h6'
            | some u' =>
              obtain ⟨u, hu1, hu2⟩ := S.unlinked hiN hu hlive
              rw [hu1]
              show ObjRel (prO _ t (OSt.retired _ _)) _ _ _
              rw [prO_retired]
              exact ⟨_, _, rfl, rfl, fun x => filt u u' x hu2 (R.j5 i u' hu), actpr⟩
          · rw [h0] at h5; cases h5
        · rw [if_neg hc, if_neg (fun h => hc (hcond.1 h)), h6]
          by_cases hiN : i < s.n.heap.length
          · have h := S.obj i hiN
            cases hst : a.objs i with
            | fresh =>
              rw [hst] at h; simp only [ObjRel] at h
              rw [prO_fresh, h.1, h.2.1]; exact ⟨rfl, rfl, rfl⟩
            | linked =>
              rw [hst] at h; simp only [ObjRel] at h
              rw [h0] at h; cases h.2.2
            | unlinked u =>
              rw [hst] at h; simp only [ObjRel] at h
              obtain ⟨u', e1, e2, e3⟩ := h
              rw [prO_unlinked, e1, e3]
              exact ⟨_, rfl, fun x => filt u u' x e2 (R.j5 i u' e1), rfl⟩
            | retired u w =>
              rw [hst] at h; simp only [ObjRel] at h
              obtain ⟨u', w', e1, e2, e3, e4⟩ := h
              rw [prO_retired, e1, e2]
              exact ⟨_, _, rfl, rfl, fun x => filt u u' x e3 (R.j5 i u' e1), fun x => filt w w' x e4 (K.w3 i w' e2)⟩
            | freed =>
              rw [hst] at h; simp only [ObjRel] at h
              rw [prO_freed, h]; rfl
          · have hun : s.unl i = none := by
              cases hu : s.unl i with
              | none => rfl
              | some u => exact absurd (R.j1 i u hu).2 hiN
            rw [IA.fresh i (by rw [S.nobjs]; omega), prO_fresh, hun, R.j4n i hun]
            exact ⟨rfl, rfl, rfl⟩

end Flurry.Proto.BinNR
