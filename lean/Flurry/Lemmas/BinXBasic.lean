import Flurry.Lemmas.BinXDefs
/-! # Proto/BinX: basic consequences of the heap invariant (C01, C10)

The three chains under `HInv`, the live chain of a key (`LC_eq`), disjointness of the chains that can
be written at the same time, and the effect of the three list surgeries on the abstract content of a
chain (`absIn_swap`, `absIn_append`, `absIn_unlink`). -/
namespace Flurry.Proto.BinX
open Flurry.Lin

/-! ## lists of threads -/

theorem get_set {α : Type} {l : List α} {t t' : Nat} {a b : α} (h : (l.set t a)[t']? = some b) :
    (t' = t ∧ b = a) ∨ (t' ≠ t ∧ l[t']? = some b) := by
  rw [List.getElem?_set] at h
  by_cases htt : t = t'
  · rw [if_pos htt] at h
    split at h
    · cases h; exact Or.inl ⟨htt.symm, rfl⟩
    · cases h
  · rw [if_neg htt] at h
    exact Or.inr ⟨fun e => htt e.symm, h⟩

theorem get_set_self {α : Type} {l : List α} {t : Nat} {a b : α} (h : l[t]? = some b) :
    (l.set t a)[t]? = some a := by
  rw [List.getElem?_set, if_pos rfl, if_pos (List.getElem?_eq_some_iff.1 h).1]

theorem get_set_ne {α : Type} {l : List α} {t t' : Nat} {a : α} (h : t' ≠ t) :
    (l.set t a)[t']? = l[t']? := by
  rw [List.getElem?_set, if_neg (fun e => h e.symm)]

/-! ## cells -/

/-- the chain of a cell -/
def chId (s : State) (id : CellId) : List Nat := chainH s.heap (getCell s id)

theorem chO_eq (s : State) : chO s = chId s .c0 := rfl
theorem chL_eq (s : State) : chL s = chId s .low := rfl
theorem chH_eq (s : State) : chH s = chId s .high := rfl

def putCell (s : State) (id : CellId) (c : Cell) : State :=
  match id with
  | .c0 => { s with cell0 := c }
  | .low => { s with lowCell := c }
  | .high => { s with highCell := c }

theorem setCell_eq (s : State) (tab : Tab) (k : Nat) (c : Cell) : setCell s tab k c = putCell s (cellId tab k) c := by
  cases tab with
  | old => rfl
  | new => unfold setCell cellId; dsimp only; split <;> rfl

theorem getCell_putCell (s : State) (id id' : CellId) (c : Cell) :
    getCell (putCell s id c) id' = if id' = id then c else getCell s id' := by
  cases id <;> cases id' <;> simp [putCell, getCell]

theorem putCell_frame (s : State) (id : CellId) (c : Cell) :
    (putCell s id c).heap = s.heap ∧ (putCell s id c).threads = s.threads ∧ (putCell s id c).hist = s.hist ∧
    (putCell s id c).now = s.now ∧ (putCell s id c).cur = s.cur ∧ (putCell s id c).resizing = s.resizing := by
  cases id <;> exact ⟨rfl, rfl, rfl, rfl, rfl, rfl⟩

theorem cellHead_cellOfHead (x : Option Nat) : cellHead (cellOfHead x) = x := by
  cases x <;> rfl

theorem cellOfHead_ne_moved (x : Option Nat) : cellOfHead x ≠ .moved := by
  cases x <;> simp [cellOfHead]

/-- the keys that live in a cell -/
def keyOn (id : CellId) (k : Nat) : Prop :=
  match id with
  | .c0 => True
  | .low => hiBit k = false
  | .high => hiBit k = true

theorem keyOn_cellId (tab : Tab) (k : Nat) : keyOn (cellId tab k) k := by
  cases tab with
  | old => trivial
  | new =>
    unfold cellId; dsimp only
    cases h : hiBit k
    · simp [keyOn, h]
    · simp [keyOn, h]

/-- the cell a lookup of `k` ends in -/
def liveId (s : State) (k : Nat) : CellId :=
  if s.cell0 = .moved then (if hiBit k then .high else .low) else .c0

namespace HInv

variable {s : State} {g : Ghost}

theorem headOK (H : HInv s g) (id : CellId) : ∀ h, getCell s id = .node h → h < s.heap.length := by
  cases id
  · exact H.head0
  · exact H.headL
  · exact H.headH

theorem isChain (H : HInv s g) (id : CellId) : IsChain s.heap (cellHead (getCell s id)) (chId s id) :=
  chainH_isChain H.nextOK (H.headOK id)

theorem chId_eq (H : HInv s g) {id : CellId} {l : List Nat} (h : IsChain s.heap (cellHead (getCell s id)) l) :
    chId s id = l := chainH_eq H.nextOK h

theorem chain_lt (H : HInv s g) {id : CellId} {i : Nat} (hi : i ∈ chId s id) : i < s.heap.length :=
  (H.isChain id).lt_length i hi

theorem chain_nodup (H : HInv s g) (id : CellId) : (chId s id).Nodup := (H.isChain id).nodup H.nextOK

theorem keysId (H : HInv s g) (id : CellId) : KeysDistinct s.heap (chId s id) := by
  cases id
  · exact H.keysO
  · exact H.keysL
  · exact H.keysH

theorem sideId (H : HInv s g) (id : CellId) : ∀ i ∈ chId s id, keyOn id (nodeAt s.heap i).key := by
  cases id
  · intro _ _; trivial
  · exact H.sideL
  · exact H.sideH

theorem not_post_of_ne_moved (H : HInv s g) (h : s.cell0 ≠ .moved) : g.ph ≠ .post :=
  fun hp => h (H.post hp)

theorem post_of_moved (H : HInv s g) (h : s.cell0 = .moved) : g.ph = .post := by
  cases hp : g.ph with
  | pre => exact absurd h (H.pre hp).2.1
  | mid lo hg =>
    obtain ⟨⟨h0, hc⟩, -⟩ := H.mid lo hg hp
    rw [hc] at h; cases h
  | post => rfl

theorem liveCell_eq (H : HInv s g) (k : Nat) : liveCell s k = getCell s (liveId s k) := by
  unfold liveCell liveId
  by_cases hm : s.cell0 = .moved
  · rw [if_pos (by rw [hm]; rfl), if_pos hm]
    unfold cellOf; dsimp only; split <;> rfl
  · rw [if_neg (by simpa using hm), if_neg hm]
    have : s.cur ≠ .new := fun hc => hm (H.post (H.curNew hc))
    rw [if_neg (by simpa using this)]
    rfl

theorem LC_eq (H : HInv s g) (k : Nat) : LC s k = chId s (liveId s k) := by
  unfold LC; rw [chainOfCell_eq, H.liveCell_eq]; rfl

theorem chO_moved (h : s.cell0 = .moved) : chId s .c0 = [] := by
  unfold chId getCell; rw [h]; exact chainH_moved _

theorem chL_pre (H : HInv s g) (h : g.ph = .pre) : chId s .low = [] := by
  unfold chId getCell; rw [(H.pre h).2.2.1]; exact chainH_empty _

theorem chH_pre (H : HInv s g) (h : g.ph = .pre) : chId s .high = [] := by
  unfold chId getCell; rw [(H.pre h).2.2.2]; exact chainH_empty _

end HInv

/-- a cell whose chain may be written: the old bin before the split, a new bin after the forwarding -/
def Active (g : Ghost) (id : CellId) : Prop :=
  (id = .c0 ∧ g.ph = .pre) ∨ (id ≠ .c0 ∧ g.ph = .post)

theorem keyOn_excl {k : Nat} (h1 : keyOn .low k) (h2 : keyOn .high k) : False := by
  unfold keyOn at h1 h2; dsimp only at h1 h2; rw [h1] at h2; cases h2

/-- the chain of an active cell is disjoint from the other chains -/
theorem HInv.disjoint {s : State} {g : Ghost} (H : HInv s g) {id id' : CellId} (act : Active g id)
    (hne : id' ≠ id) {i : Nat} (hi : i ∈ chId s id) : i ∉ chId s id' := by
  intro hi'
  rcases act with ⟨rfl, hp⟩ | ⟨hid, hp⟩
  · cases id'
    · exact hne rfl
    · rw [H.chL_pre hp] at hi'; cases hi'
    · rw [H.chH_pre hp] at hi'; cases hi'
  · have hm := H.post hp
    cases id' with
    | c0 => rw [HInv.chO_moved hm] at hi'; cases hi'
    | low =>
      cases id with
      | c0 => exact hid rfl
      | low => exact hne rfl
      | high => exact keyOn_excl (H.sideId .low i hi') (H.sideId .high i hi)
    | high =>
      cases id with
      | c0 => exact hid rfl
      | low => exact keyOn_excl (H.sideId .low i hi) (H.sideId .high i hi')
      | high => exact hne rfl

/-- for an active cell and a key that lives in it, the live chain of the key is the chain of the cell -/
theorem HInv.liveId_of_active {s : State} {g : Ghost} (H : HInv s g) {id : CellId} (act : Active g id)
    {k : Nat} (hk : keyOn id k) : liveId s k = id := by
  unfold liveId
  rcases act with ⟨rfl, hp⟩ | ⟨hid, hp⟩
  · rw [if_neg (H.pre hp).2.1]
  · rw [if_pos (H.post hp)]
    cases id with
    | c0 => exact absurd rfl hid
    | low => unfold keyOn at hk; dsimp only at hk; rw [hk]; rfl
    | high => unfold keyOn at hk; dsimp only at hk; rw [hk]; rfl

/-- for an active cell and a key that does not live in it, the live chain of the key is another one -/
theorem HInv.liveId_ne_of_active {s : State} {g : Ghost} (H : HInv s g) {id : CellId} (act : Active g id)
    {k : Nat} (hk : ¬ keyOn id k) : liveId s k ≠ id := by
  unfold liveId
  rcases act with ⟨rfl, hp⟩ | ⟨hid, hp⟩
  · exact absurd trivial hk
  · rw [if_pos (H.post hp)]
    cases id with
    | c0 => exact absurd rfl hid
    | low =>
      unfold keyOn at hk; dsimp only at hk
      have : hiBit k = true := by cases h : hiBit k <;> simp_all
      rw [this]; simp
    | high =>
      unfold keyOn at hk; dsimp only at hk
      have : hiBit k = false := by cases h : hiBit k <;> simp_all
      rw [this]; simp

/-! ## the abstract content of a chain under the surgeries -/

theorem KeysDistinct.congr {heap heap' : List NodeS} {C : List Nat} (hd : KeysDistinct heap C)
    (hkey : ∀ j ∈ C, (nodeAt heap' j).key = (nodeAt heap j).key) : KeysDistinct heap' C := by
  intro a ha b hb hab
  rw [hkey a ha, hkey b hb] at hab
  exact hd a ha b hb hab

theorem absIn_same {heap heap' : List NodeS} : ∀ {C : List Nat},
    (∀ j ∈ C, (nodeAt heap' j).key = (nodeAt heap j).key) →
    (∀ j ∈ C, (nodeAt heap' j).val = (nodeAt heap j).val) → ∀ (k : Nat),
    absIn heap' C k = absIn heap C k
  | [], _, _, _ => rfl
  | a :: C, hkey, hval, k => by
    have ih := absIn_same (C := C) (fun j hj => hkey j (List.mem_cons_of_mem _ hj))
      (fun j hj => hval j (List.mem_cons_of_mem _ hj)) k
    unfold absIn at ih ⊢
    simp only [List.find?_cons, hkey a List.mem_cons_self]
    split
    · simp only [Option.map_some, hval a List.mem_cons_self]
    · exact ih

theorem absIn_swap {heap heap' : List NodeS} {C : List Nat} {i : Nat} {v : Nat × Nat}
    (hd : KeysDistinct heap C) (hi : i ∈ C)
    (hkey : ∀ j ∈ C, (nodeAt heap' j).key = (nodeAt heap j).key)
    (hval : ∀ j ∈ C, (nodeAt heap' j).val = if j = i then v else (nodeAt heap j).val) (k : Nat) :
    absIn heap' C k = if (nodeAt heap i).key = k then some v else absIn heap C k := by
  have hd' := hd.congr hkey
  split
  · rename_i hk
    rw [absIn_eq_some_iff hd']
    exact ⟨i, hi, by rw [hkey i hi, hk], by rw [hval i hi]; simp⟩
  · rename_i hk
    cases ha : absIn heap C k with
    | none =>
      rw [absIn_eq_none_iff] at ha ⊢
      intro j hj; rw [hkey j hj]; exact ha j hj
    | some w =>
      rw [absIn_eq_some_iff hd] at ha
      obtain ⟨j, hj, hjk, hjv⟩ := ha
      rw [absIn_eq_some_iff hd']
      refine ⟨j, hj, by rw [hkey j hj, hjk], ?_⟩
      rw [hval j hj]
      have : j ≠ i := fun h => hk (h ▸ hjk)
      simp [this, hjv]

theorem absIn_append {heap heap' : List NodeS} {C : List Nat} {n : Nat} {new : NodeS}
    (hd : KeysDistinct heap C)
    (hkey : ∀ j ∈ C, (nodeAt heap' j).key = (nodeAt heap j).key)
    (hval : ∀ j ∈ C, (nodeAt heap' j).val = (nodeAt heap j).val)
    (hnew : nodeAt heap' n = new) (hn : n ∉ C)
    (hfresh : ∀ j ∈ C, (nodeAt heap j).key ≠ new.key) :
    KeysDistinct heap' (C ++ [n]) ∧
    ∀ k, absIn heap' (C ++ [n]) k = if new.key = k then some new.val else absIn heap C k := by
  have hd' : KeysDistinct heap' (C ++ [n]) := by
    intro a ha b hb hab
    rcases List.mem_append.1 ha with ha | ha <;> rcases List.mem_append.1 hb with hb | hb
    · rw [hkey a ha, hkey b hb] at hab
      exact hd a ha b hb hab
    · have hb' : b = n := by simpa using hb
      rw [hb', hkey a ha, hnew] at hab
      exact absurd hab (hfresh a ha)
    · have ha' : a = n := by simpa using ha
      rw [ha', hkey b hb, hnew] at hab
      exact absurd hab.symm (hfresh b hb)
    · have ha' : a = n := by simpa using ha
      have hb' : b = n := by simpa using hb
      rw [ha', hb']
  refine ⟨hd', ?_⟩
  intro k
  split
  · rename_i hk
    rw [absIn_eq_some_iff hd']
    exact ⟨n, by simp, by rw [hnew, hk], by rw [hnew]⟩
  · rename_i hk
    cases ha : absIn heap C k with
    | none =>
      rw [absIn_eq_none_iff] at ha ⊢
      intro j hj
      rcases List.mem_append.1 hj with hj | hj
      · rw [hkey j hj]; exact ha j hj
      · have : j = n := by simpa using hj
        subst this
        rw [hnew]; exact hk
    | some w =>
      rw [absIn_eq_some_iff hd] at ha
      obtain ⟨j, hj, hjk, hjv⟩ := ha
      rw [absIn_eq_some_iff hd']
      exact ⟨j, List.mem_append_left _ hj, by rw [hkey j hj, hjk], by rw [hval j hj, hjv]⟩

theorem absIn_unlink {heap heap' : List NodeS} {C C' : List Nat} {i : Nat}
    (hd : KeysDistinct heap C) (hi : i ∈ C) (hC' : ∀ j, j ∈ C' ↔ j ∈ C ∧ j ≠ i)
    (hkey : ∀ j ∈ C, (nodeAt heap' j).key = (nodeAt heap j).key)
    (hval : ∀ j ∈ C, (nodeAt heap' j).val = (nodeAt heap j).val) :
    KeysDistinct heap' C' ∧
    ∀ k, absIn heap' C' k = if (nodeAt heap i).key = k then none else absIn heap C k := by
  have hd' : KeysDistinct heap' C' := by
    intro a ha b hb hab
    have ha' := ((hC' a).1 ha).1
    have hb' := ((hC' b).1 hb).1
    rw [hkey a ha', hkey b hb'] at hab
    exact hd a ha' b hb' hab
  refine ⟨hd', ?_⟩
  intro k
  split
  · rename_i hk
    rw [absIn_eq_none_iff]
    intro j hj
    obtain ⟨hj1, hj2⟩ := (hC' j).1 hj
    rw [hkey j hj1]
    intro hjk
    exact hj2 (hd j hj1 i hi (by rw [hjk, hk]))
  · rename_i hk
    cases ha : absIn heap C k with
    | none =>
      rw [absIn_eq_none_iff] at ha ⊢
      intro j hj
      obtain ⟨hj1, -⟩ := (hC' j).1 hj
      rw [hkey j hj1]; exact ha j hj1
    | some w =>
      rw [absIn_eq_some_iff hd] at ha
      obtain ⟨j, hj, hjk, hjv⟩ := ha
      rw [absIn_eq_some_iff hd']
      have hji : j ≠ i := fun h => hk (h ▸ hjk)
      exact ⟨j, (hC' j).2 ⟨hj, hji⟩, by rw [hkey j hj, hjk], by rw [hval j hj, hjv]⟩

end Flurry.Proto.BinX
