import Flurry.Lemmas.TableG
import Flurry.Lemmas.BinGCommit
/-! # Proto/TableG at quiescence: iteration over the whole table = lookup (C05)

`entries S`: the entries of all lineages, lineage by lineage (`BinG.entries`: the lists of the live
cells) — what an iterator over the whole table that starts now and runs alone yields.

The one fact that is not lineage-local: **every key stored in lineage `i` is a key of lineage `i`**
(`stored_key_in_own_lineage`). At quiescence it follows from what is already proved, without a new
induction over the transitions: a key on a live list has an abstract state other than "absent"
(`BinG.mem_entries_iff_absOf`); the per-key history of the lineage is linearizable from "absent" to
that state (`binG_linearizable_quiescent`), so it is not empty (`linearizable_nil`); and every call
recorded in lineage `i` is on a key of lineage `i` (`TblInv.keys`). -/
namespace Flurry.Proto.TableG
open Flurry.Lin Flurry.LinMap

/-- what an iterator over the whole table yields: the entries of all lineages -/
def entries (S : State) : List (Nat × (Nat × Nat)) := S.bins.flatMap BinG.entries

/-- an empty history is linearizable only to the state it starts from -/
theorem linearizable_nil {init fin : KSt} (h : Linearizable [] init fin) : fin = init := by
  obtain ⟨order, hperm, -, hrep⟩ := h
  have : order = [] := by
    have := hperm.length_eq
    simp only [List.length_nil, List.range_zero] at this
    exact List.eq_nil_of_length_eq_zero this
  subst this
  simp only [replay, Option.some.injEq] at hrep
  exact hrep.symm

/-- at quiescence every key stored in (a live cell of) lineage `i` is a key of lineage `i` -/
theorem stored_key_in_own_lineage {m n : Nat} {S : State} (hr : Reachable m n S) (hq : quiescent S)
    {i : Nat} {b : BinG.State} (hb : S.bins[i]? = some b) {k : Nat} {v : Nat × Nat}
    (he : (k, v) ∈ BinG.entries b) : lineageOf m k = i := by
  have I := reachable_tblInv hr
  have hrb := I.reach i b hb
  have hqb : BinG.quiescent b := hq b (List.mem_of_getElem? hb)
  have habs := (BinG.mem_entries_iff_absOf (BinG.reachable_inv hrb).heap k v).1 he
  have hlin := BinG.binG_linearizable_quiescent_aux hrb hqb k
  rw [habs] at hlin
  cases hc : BinG.callsOn b k with
  | nil =>
    rw [hc] at hlin
    have := linearizable_nil hlin
    cases this
  | cons c rest =>
    have hmem : c ∈ BinG.callsOn b k := by rw [hc]; exact List.mem_cons_self
    rw [BinG.mem_callsOn] at hmem
    exact (I.keys i b hb).hist _ hmem

/-- iteration over the whole table yields exactly the keys a lookup finds, with the value it returns -/
theorem mem_entries_iff_absMap {m n : Nat} {S : State} (hr : Reachable m n S) (hq : quiescent S) (hm : 0 < m)
    (k : Nat) (v : Nat × Nat) : (k, v) ∈ entries S ↔ absMap S k = some v := by
  have I := reachable_tblInv hr
  obtain ⟨b, hb, hd⟩ := bin_of_key hm I k
  have hH := (BinG.reachable_inv (I.reach _ b hb)).heap
  unfold absMap entries
  rw [hd, ← BinG.mem_entries_iff_absOf hH, List.mem_flatMap]
  constructor
  · rintro ⟨b', hb', he⟩
    obtain ⟨i, hi⟩ := List.mem_iff_getElem?.1 hb'
    have := stored_key_in_own_lineage hr hq hi he
    rw [← this, hb] at hi
    cases hi
    exact he
  · intro he
    exact ⟨b, List.mem_of_getElem? hb, he⟩

/-- no key is yielded twice, across all lineages and both tables -/
theorem entries_keys_nodup {m n : Nat} {S : State} (hr : Reachable m n S) (hq : quiescent S) :
    ((entries S).map (·.1)).Nodup := by
  have I := reachable_tblInv hr
  unfold entries
  rw [List.map_flatMap]
  unfold List.Nodup
  rw [List.pairwise_flatMap]
  constructor
  · intro b hb
    obtain ⟨i, hi⟩ := List.mem_iff_getElem?.1 hb
    exact BinG.entries_keys_nodup (BinG.reachable_inv (I.reach i b hi)).heap
  · rw [List.pairwise_iff_getElem]
    intro i j hi hj hij x hx y hy hxy
    obtain ⟨⟨k, v⟩, hkv, rfl⟩ := List.mem_map.1 hx
    obtain ⟨⟨k', v'⟩, hkv', rfl⟩ := List.mem_map.1 hy
    simp only at hxy
    subst hxy
    have h1 := stored_key_in_own_lineage hr hq (List.getElem?_eq_getElem hi) hkv
    have h2 := stored_key_in_own_lineage hr hq (List.getElem?_eq_getElem hj) hkv'
    omega

theorem entries_nodup {m n : Nat} {S : State} (hr : Reachable m n S) (hq : quiescent S) : (entries S).Nodup := by
  have h := entries_keys_nodup hr hq
  unfold List.Nodup at h ⊢
  rw [List.pairwise_map] at h
  exact h.imp (fun hab e => hab (by rw [e]))

theorem mem_keys_iff_absMap {m n : Nat} {S : State} (hr : Reachable m n S) (hq : quiescent S) (hm : 0 < m)
    (k : Nat) : k ∈ (entries S).map (·.1) ↔ absMap S k ≠ none := by
  rw [List.mem_map]
  constructor
  · rintro ⟨⟨k', v⟩, h, rfl⟩
    rw [(mem_entries_iff_absMap hr hq hm k' v).1 h]
    exact fun e => by cases e
  · intro h
    cases ha : absMap S k with
    | none => exact absurd ha h
    | some v => exact ⟨(k, v), (mem_entries_iff_absMap hr hq hm k v).2 ha, rfl⟩

/-- the number of entries is the number of keys a lookup finds -/
theorem entries_count {m n : Nat} {S : State} (hr : Reachable m n S) (hq : quiescent S) (hm : 0 < m)
    {ks : List Nat} (hnd : ks.Nodup) (hks : ∀ k, k ∈ ks ↔ absMap S k ≠ none) :
    ks.Perm ((entries S).map (·.1)) ∧ ks.length = (entries S).length := by
  have hp : ks.Perm ((entries S).map (·.1)) := by
    rw [List.perm_ext_iff_of_nodup hnd (entries_keys_nodup hr hq)]
    intro k
    rw [hks, mem_keys_iff_absMap hr hq hm]
  refine ⟨hp, ?_⟩
  rw [hp.length_eq, List.length_map]

/-- where an entry of the whole table is: in the lineage of its key, and — once that lineage is
forwarded — in the cell of the next table that bit 0 of the key selects -/
theorem entry_position {m n : Nat} {S : State} (hr : Reachable m n S) (hq : quiescent S)
    {i : Nat} {b : BinG.State} (hb : S.bins[i]? = some b) {k : Nat} {v : Nat × Nat}
    (he : (k, v) ∈ BinG.entries b) :
    lineageOf m k = i ∧ (k, v) ∈ BinG.entriesOfCell b (BinG.liveCell b k) ∧
      ((k, v) ∈ BinG.entriesOfCell b b.lowCell → BinG.hiBit k = false) ∧
      ((k, v) ∈ BinG.entriesOfCell b b.highCell → BinG.hiBit k = true) := by
  have hH := (BinG.reachable_inv ((reachable_tblInv hr).reach i b hb)).heap
  exact ⟨stored_key_in_own_lineage hr hq hb he, (BinG.entries_in_liveCell hH).1 he,
    (BinG.entries_own_cell hH).1, (BinG.entries_own_cell hH).2⟩

/-- a lineage of a reachable quiescent table is a reachable quiescent `Proto/BinG` lineage -/
theorem lineage_quiescent {m n : Nat} {S : State} (hr : Reachable m n S) (hq : quiescent S) {b : BinG.State}
    (hb : b ∈ S.bins) : BinG.Reachable n b ∧ BinG.quiescent b := by
  obtain ⟨i, hi⟩ := List.mem_iff_getElem?.1 hb
  exact ⟨(reachable_tblInv hr).reach i b hi, hq b hb⟩

end Flurry.Proto.TableG
