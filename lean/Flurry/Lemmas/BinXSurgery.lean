import Flurry.Lemmas.BinXBasic
/-! # Proto/BinX: what a transition does to the heap (C01, C10)

* `HeapStep s s' cr cr'`: what every transition (except the store of the forwarding marker) does to
  the heap as far as lock-free readers are concerned.
* `hinv_update` / `heapStep_update`: the generic surgery on the chain of an *active* cell (the old bin
  before the split, a new bin after the forwarding): the other chains are not affected. -/
namespace Flurry.Proto.BinX
open Flurry.Lin

structure HeapStep (s s' : State) (cr cr' : CR) : Prop where
  len : s.heap.length ≤ s'.heap.length
  key : ∀ j, j < s.heap.length → (nodeAt s'.heap j).key = (nodeAt s.heap j).key
  ordS : ∀ j, j < s.heap.length → ord cr' j = ord cr j
  movedMono : s.cell0 = .moved → s'.cell0 = .moved
  /-- nodes that are not live are not written and stay dead -/
  off : ∀ j, j < s.heap.length → ¬ Live s cr j →
    (nodeAt s'.heap j).val = (nodeAt s.heap j).val ∧ (nodeAt s'.heap j).next = (nodeAt s.heap j).next ∧
    ¬ Live s' cr' j
  /-- the live chain of a key only gains fresh nodes -/
  lc : ∀ k j, j ∈ LC s' k → j ∈ LC s k ∨ (s.heap.length ≤ j ∧ ¬ isCopy cr' j)
  /-- a node that is unlinked keeps its value and its `next`, is dead, and only one node is unlinked -/
  unl : ∀ k c, c ∈ LC s k → c ∉ LC s' k →
    (nodeAt s'.heap c).val = (nodeAt s.heap c).val ∧ (nodeAt s'.heap c).next = (nodeAt s.heap c).next ∧
    ¬ Live s' cr' c ∧ ∀ j ∈ LC s k, j ≠ c → j ∈ LC s' k

theorem live_iff (s : State) (cr : CR) (i : Nat) :
    Live s cr i ↔ (∃ id, i ∈ chId s id) ∨ (s.cell0 ≠ .moved ∧ isCopy cr i) := by
  unfold Live
  rw [chO_eq, chL_eq, chH_eq]
  constructor
  · rintro (h | h | h | h)
    · exact Or.inl ⟨_, h⟩
    · exact Or.inl ⟨_, h⟩
    · exact Or.inl ⟨_, h⟩
    · exact Or.inr h
  · rintro (⟨id, h⟩ | h)
    · cases id
      · exact Or.inl h
      · exact Or.inr (Or.inl h)
      · exact Or.inr (Or.inr (Or.inl h))
    · exact Or.inr (Or.inr (Or.inr h))

/-- a state with the same memory -/
theorem HInv.congr {s s' : State} {g : Ghost} (H : HInv s g) (hh : s'.heap = s.heap) (h0 : s'.cell0 = s.cell0)
    (hL : s'.lowCell = s.lowCell) (hH : s'.highCell = s.highCell) (hc : s'.cur = s.cur) : HInv s' g := by
  have e0 : chO s' = chO s := by unfold chO; rw [hh, h0]
  have eL : chL s' = chL s := by unfold chL; rw [hh, hL]
  have eH : chH s' = chH s := by unfold chH; rw [hh, hH]
  refine ⟨?_, ?_, ?_, ?_, ?_, ?_, ?_, ?_, ?_, ?_, ?_, ?_, ?_, ?_, ?_⟩
  · rw [hh]; exact H.nextOK
  · rw [hh]; exact H.crOK
  · rw [hh, h0]; exact H.head0
  · rw [hh, hL]; exact H.headL
  · rw [hh, hH]; exact H.headH
  · rw [hh, e0]; exact H.keysO
  · rw [hh, eL]; exact H.keysL
  · rw [hh, eH]; exact H.keysH
  · rw [hh, eL]; exact H.sideL
  · rw [hh, eH]; exact H.sideH
  · rw [e0]; exact H.oNotCopy
  · rw [hc]; exact H.curNew
  · rw [h0, hL, hH]; exact H.pre
  · rw [h0, hL, hH, hh, e0]; exact H.mid
  · rw [h0]; exact H.post

theorem LC_congr {s s' : State} (hh : s'.heap = s.heap) (h0 : s'.cell0 = s.cell0)
    (hL : s'.lowCell = s.lowCell) (hH : s'.highCell = s.highCell) (hc : s'.cur = s.cur) (k : Nat) :
    LC s' k = LC s k := by
  unfold LC chainOfCell liveCell cellOf
  rw [hh, h0, hL, hH, hc]

theorem absOf_congr {s s' : State} (hh : s'.heap = s.heap) (h0 : s'.cell0 = s.cell0)
    (hL : s'.lowCell = s.lowCell) (hH : s'.highCell = s.highCell) (hc : s'.cur = s.cur) (k : Nat) :
    absOf s' k = absOf s k := by
  rw [absOf_eq, absOf_eq]
  have := LC_congr hh h0 hL hH hc k
  unfold LC at this
  rw [this, hh]

theorem Live_congr {s s' : State} (hh : s'.heap = s.heap) (h0 : s'.cell0 = s.cell0)
    (hL : s'.lowCell = s.lowCell) (hH : s'.highCell = s.highCell) (cr : CR) (i : Nat) :
    Live s' cr i ↔ Live s cr i := by
  unfold Live chO chL chH
  rw [hh, h0, hL, hH]

theorem HeapStep.of_same {s s' : State} {cr : CR} (hh : s'.heap = s.heap) (h0 : s'.cell0 = s.cell0)
    (hL : s'.lowCell = s.lowCell) (hH : s'.highCell = s.highCell) (hc : s'.cur = s.cur) :
    HeapStep s s' cr cr := by
  refine ⟨by rw [hh]; exact Nat.le_refl _, by intros; rw [hh], fun _ _ => rfl, by rw [h0]; exact id, ?_, ?_, ?_⟩
  · intro j _ hj
    rw [hh]
    exact ⟨rfl, rfl, fun h => hj ((Live_congr hh h0 hL hH cr j).1 h)⟩
  · intro k j hj
    rw [LC_congr hh h0 hL hH hc] at hj
    exact Or.inl hj
  · intro k c hc1 hc2
    rw [LC_congr hh h0 hL hH hc] at hc2
    exact absurd hc1 hc2

/-! ## the generic surgery on the chain of an active cell -/

theorem Active.ne_mid {g : Ghost} {id : CellId} (act : Active g id) (lo hg : Option Nat) : g.ph ≠ .mid lo hg := by
  rcases act with ⟨_, hp⟩ | ⟨_, hp⟩ <;> (rw [hp]; simp)

theorem Active.pre_iff {g : Ghost} {id : CellId} (act : Active g id) : g.ph = .pre ↔ id = .c0 := by
  rcases act with ⟨h1, hp⟩ | ⟨h1, hp⟩
  · exact ⟨fun _ => h1, fun _ => hp⟩
  · exact ⟨fun h => (by rw [hp] at h; cases h), fun h => absurd h h1⟩

theorem Active.post_iff {g : Ghost} {id : CellId} (act : Active g id) : g.ph = .post ↔ id ≠ .c0 := by
  rcases act with ⟨h1, hp⟩ | ⟨h1, hp⟩
  · exact ⟨fun h => (by rw [hp] at h; cases h), fun h => absurd h1 h⟩
  · exact ⟨fun _ => h1, fun _ => hp⟩

structure Update (s s' : State) (g : Ghost) (id : CellId) (C' : List Nat) : Prop where
  nextOK : NextOK g.cr s'.heap
  len : s.heap.length ≤ s'.heap.length
  cell : ∀ id', id' ≠ id → getCell s' id' = getCell s id'
  cur : s'.cur = s.cur
  notMoved : getCell s' id ≠ .moved
  chain : IsChain s'.heap (cellHead (getCell s' id)) C'
  other : ∀ j, j < s.heap.length → j ∉ chId s id → nodeAt s'.heap j = nodeAt s.heap j
  keys : KeysDistinct s'.heap C'
  side : ∀ j ∈ C', keyOn id (nodeAt s'.heap j).key

theorem Update.chains {s s' : State} {g : Ghost} {id : CellId} {C' : List Nat} (H : HInv s g)
    (act : Active g id) (u : Update s s' g id C') :
    chId s' id = C' ∧ ∀ id', id' ≠ id → chId s' id' = chId s id' := by
  refine ⟨chainH_eq u.nextOK u.chain, ?_⟩
  intro id' hne
  refine chainH_eq u.nextOK ?_
  rw [u.cell id' hne]
  refine (H.isChain id').congr ?_
  intro j hj n hn
  have hjl := H.chain_lt hj
  have hnot : j ∉ chId s id := fun hm => H.disjoint act hne hm hj
  refine ⟨nodeAt s'.heap j, getElem?_nodeAt (by have := u.len; omega), ?_⟩
  rw [u.other j hjl hnot, nodeAt_of_some hn]

theorem Update.cell0_moved_iff {s s' : State} {g : Ghost} {id : CellId} {C' : List Nat} (H : HInv s g)
    (act : Active g id) (u : Update s s' g id C') : s'.cell0 = .moved ↔ s.cell0 = .moved := by
  by_cases hid : id = .c0
  · subst hid
    have hp := act.pre_iff.2 rfl
    constructor
    · intro h; exact absurd h u.notMoved
    · intro h; exact absurd h (H.pre hp).2.1
  · have := u.cell .c0 (fun h => hid h.symm)
    show getCell s' .c0 = .moved ↔ getCell s .c0 = .moved
    rw [this]

theorem Update.liveId_eq {s s' : State} {g : Ghost} {id : CellId} {C' : List Nat} (H : HInv s g)
    (act : Active g id) (u : Update s s' g id C') (k : Nat) : liveId s' k = liveId s k := by
  unfold liveId
  by_cases hm : s.cell0 = .moved
  · rw [if_pos hm, if_pos ((u.cell0_moved_iff H act).2 hm)]
  · rw [if_neg hm, if_neg (fun h => hm ((u.cell0_moved_iff H act).1 h))]

theorem hinv_update {s s' : State} {g : Ghost} {id : CellId} {C' : List Nat} (H : HInv s g)
    (act : Active g id) (u : Update s s' g id C') : HInv s' g := by
  obtain ⟨hC, hO⟩ := u.chains H act
  have hlen := u.len
  -- every chain of the new state
  have hheads : ∀ id'' h, getCell s' id'' = .node h → h < s'.heap.length := by
    intro id'' h hc
    by_cases hid : id'' = id
    · subst hid
      have := u.chain
      rw [hc] at this
      cases hcc : C' with
      | nil => rw [hcc] at this; cases this
      | cons a l =>
        rw [hcc] at this
        obtain ⟨ha, n, hn, -⟩ := IsSeg.cons_iff.1 this
        cases ha
        exact (List.getElem?_eq_some_iff.1 hn).1
    · rw [u.cell id'' hid] at hc
      have := H.headOK id'' h hc
      omega
  have hnode : ∀ id'', id'' ≠ id → ∀ j ∈ chId s id'', nodeAt s'.heap j = nodeAt s.heap j := by
    intro id'' hne j hj
    exact u.other j (H.chain_lt hj) (fun hm => H.disjoint act hne hm hj)
  have hkeys : ∀ id'', KeysDistinct s'.heap (chId s' id'') := by
    intro id''
    by_cases hid : id'' = id
    · subst hid; rw [hC]; exact u.keys
    · rw [hO id'' hid]
      exact (H.keysId id'').congr (fun j hj => by rw [hnode id'' hid j hj])
  have hside : ∀ id'', ∀ j ∈ chId s' id'', keyOn id'' (nodeAt s'.heap j).key := by
    intro id'' j hj
    by_cases hid : id'' = id
    · subst hid; rw [hC] at hj; exact u.side j hj
    · rw [hO id'' hid] at hj
      rw [hnode id'' hid j hj]
      exact H.sideId id'' j hj
  refine ⟨u.nextOK, ⟨H.crOK.1, by have := H.crOK.2; omega⟩, hheads .c0, hheads .low, hheads .high,
    hkeys .c0, hkeys .low, hkeys .high, hside .low, hside .high, ?_, ?_, ?_, ?_, ?_⟩
  · intro i hi hcopy
    rw [chO_eq] at hi
    by_cases hid : id = .c0
    · subst hid
      have := (H.pre (act.pre_iff.2 rfl)).1
      unfold isCopy at hcopy; omega
    · rw [hO .c0 (fun h => hid h.symm)] at hi
      exact H.oNotCopy i hi hcopy
  · rw [u.cur]; exact H.curNew
  · intro hp
    have hid := act.pre_iff.1 hp
    subst hid
    obtain ⟨h1, h2, h3, h4⟩ := H.pre hp
    refine ⟨h1, u.notMoved, ?_, ?_⟩
    · have := u.cell .low (by simp); exact this.trans h3
    · have := u.cell .high (by simp); exact this.trans h4
  · intro lo hg hp; exact absurd hp (act.ne_mid lo hg)
  · intro hp
    exact (u.cell0_moved_iff H act).2 (H.post hp)

theorem Update.LC_eq {s s' : State} {g : Ghost} {id : CellId} {C' : List Nat} (H : HInv s g)
    (act : Active g id) (u : Update s s' g id C') (k : Nat) :
    LC s' k = if liveId s k = id then C' else LC s k := by
  have H' := hinv_update H act u
  obtain ⟨hC, hO⟩ := u.chains H act
  rw [H'.LC_eq, H.LC_eq, u.liveId_eq H act]
  split
  · rename_i h; rw [h, hC]
  · rename_i h; rw [hO _ h]

theorem heapStep_update {s s' : State} {g : Ghost} {id : CellId} {C' : List Nat} (H : HInv s g)
    (act : Active g id) (u : Update s s' g id C')
    (hsub : ∀ j ∈ C', j ∈ chId s id ∨ s.heap.length ≤ j)
    (hkey : ∀ j, j < s.heap.length → (nodeAt s'.heap j).key = (nodeAt s.heap j).key)
    (hunl : ∀ c ∈ chId s id, c ∉ C' → (nodeAt s'.heap c).val = (nodeAt s.heap c).val ∧
      (nodeAt s'.heap c).next = (nodeAt s.heap c).next ∧ ∀ j ∈ chId s id, j ≠ c → j ∈ C') :
    HeapStep s s' g.cr g.cr := by
  obtain ⟨hC, hO⟩ := u.chains H act
  have hmv := u.cell0_moved_iff H act
  -- dead nodes stay dead
  have hdead : ∀ j, j < s.heap.length → (j ∈ chId s id → j ∉ C') → (∀ id', id' ≠ id → j ∉ chId s id') →
      (s.cell0 ≠ .moved → ¬ isCopy g.cr j) → ¬ Live s' g.cr j := by
    intro j hj h1 h2 h3
    rw [live_iff]
    rintro (⟨id', hm⟩ | ⟨hm, hcp⟩)
    · by_cases hid : id' = id
      · subst hid
        rw [hC] at hm
        rcases hsub j hm with h | h
        · exact h1 h hm
        · omega
      · rw [hO id' hid] at hm
        exact h2 id' hid hm
    · exact h3 (fun h => hm (hmv.2 h)) hcp
  refine ⟨u.len, hkey, fun _ _ => rfl, hmv.2, ?_, ?_, ?_⟩
  · intro j hj hnl
    rw [live_iff] at hnl
    have hnot : ∀ id', j ∉ chId s id' := fun id' hm => hnl (Or.inl ⟨id', hm⟩)
    have := u.other j hj (hnot id)
    refine ⟨by rw [this], by rw [this], ?_⟩
    exact hdead j hj (fun h => absurd h (hnot id)) (fun id' _ => hnot id') (fun hm hc => hnl (Or.inr ⟨hm, hc⟩))
  · intro k j hj
    rw [u.LC_eq H act] at hj
    split at hj
    · rename_i hid
      rcases hsub j hj with h | h
      · left; rw [H.LC_eq, hid]; exact h
      · right
        refine ⟨h, ?_⟩
        have := H.crOK.2
        unfold isCopy; omega
    · exact Or.inl hj
  · intro k c hc1 hc2
    rw [u.LC_eq H act] at hc2
    split at hc2
    · rename_i hid
      rw [H.LC_eq, hid] at hc1
      obtain ⟨h1, h2, h3⟩ := hunl c hc1 hc2
      refine ⟨h1, h2, ?_, ?_⟩
      · refine hdead c (H.chain_lt hc1) (fun _ => hc2) (fun id' hne => H.disjoint act hne hc1) ?_
        intro hm hcp
        have hp : g.ph = .pre := by
          rcases act with ⟨_, hp⟩ | ⟨_, hp⟩
          · exact hp
          · exact absurd (H.post hp) hm
        have := (H.pre hp).1
        unfold isCopy at hcp; omega
      · intro j hj hne
        rw [H.LC_eq, hid] at hj
        rw [u.LC_eq H act, if_pos hid]
        exact h3 j hj hne
    · exact absurd hc1 hc2

/-- the abstract content after an update -/
theorem Update.abs {s s' : State} {g : Ghost} {id : CellId} {C' : List Nat} (H : HInv s g)
    (act : Active g id) (u : Update s s' g id C') (k : Nat) :
    absOf s' k = if liveId s k = id then absIn s'.heap C' k else absOf s k := by
  have hlc := u.LC_eq H act k
  rw [absOf_eq, absOf_eq]
  unfold LC at hlc
  rw [hlc]
  split
  · rfl
  · rename_i hid
    have hlc' := H.LC_eq k
    unfold LC at hlc'
    rw [hlc']
    refine absIn_same ?_ ?_ k
    · intro j hj
      rw [u.other j (H.chain_lt hj) (fun hm => H.disjoint act hid hm hj)]
    · intro j hj
      rw [u.other j (H.chain_lt hj) (fun hm => H.disjoint act hid hm hj)]

end Flurry.Proto.BinX

namespace Flurry.Proto.BinX
open Flurry.Lin

/-! ## `NextOK` under the surgeries -/

theorem nextOK_modify_same {cr : CR} {heap : List NodeS} (hok : NextOK cr heap) {i : Nat} {f : NodeS → NodeS}
    (hf : ∀ n, (f n).next = n.next) : NextOK cr (heap.modify i f) := by
  intro a n b hn hb
  rw [List.getElem?_modify] at hn
  rw [List.length_modify]
  cases hn0 : heap[a]? with
  | none => rw [hn0] at hn; cases hn
  | some n0 =>
    rw [hn0] at hn
    simp only [Option.map_eq_map, Option.map_some, Option.some.injEq] at hn
    subst hn
    refine hok a n0 b hn0 ?_
    split at hb
    · rw [hf n0] at hb; exact hb
    · exact hb

theorem nextOK_append {cr : CR} {heap : List NodeS} (hok : NextOK cr heap) {new : NodeS} (hnew : new.next = none) :
    NextOK cr (heap ++ [new]) := by
  intro a n b hn hb
  rw [List.length_append, List.length_singleton]
  by_cases ha : a < heap.length
  · rw [List.getElem?_append_left ha] at hn
    have := hok a n b hn hb
    exact ⟨this.1, by omega⟩
  · have hlen : a < (heap ++ [new]).length := (List.getElem?_eq_some_iff.1 hn).1
    rw [List.length_append, List.length_singleton] at hlen
    have : a = heap.length := by omega
    subst this
    simp only [List.getElem?_concat_length, Option.some.injEq] at hn
    subst hn
    rw [hnew] at hb; cases hb

theorem nextOK_modify_next {cr : CR} {heap : List NodeS} (hok : NextOK cr heap) {i : Nat} {x : Option Nat}
    (hx : ∀ b, x = some b → ord cr i < ord cr b ∧ b < heap.length) :
    NextOK cr (heap.modify i (fun n => { n with next := x })) := by
  intro a n b hn hb
  rw [List.length_modify]
  rw [List.getElem?_modify] at hn
  cases hn0 : heap[a]? with
  | none => rw [hn0] at hn; cases hn
  | some n0 =>
    rw [hn0] at hn
    simp only [Option.map_eq_map, Option.map_some, Option.some.injEq] at hn
    subst hn
    split at hb
    · rename_i hia
      subst hia
      exact hx b hb
    · exact hok a n0 b hn0 hb

/-- what a store into the chain of the active cell `id` guarantees about the memory -/
def Effect (s s' : State) (g : Ghost) (id : CellId) : Prop :=
  ∃ C', Update s s' g id C' ∧ HeapStep s s' g.cr g.cr ∧
    ∀ j, j < s.heap.length → (nodeAt s'.heap j).lock = (nodeAt s.heap j).lock

/-! ### surgery 1: value swap at a chain node -/

theorem swap_effect {s s' : State} {g : Ghost} {id : CellId} (H : HInv s g) (act : Active g id)
    {i : Nat} (hi : i ∈ chId s id) {v : Nat × Nat}
    (hh : s'.heap = s.heap.modify i (fun n => { n with val := v }))
    (hcell : ∀ id', getCell s' id' = getCell s id') (hcur : s'.cur = s.cur) :
    Effect s s' g id ∧
      ∀ k, absOf s' k = if (nodeAt s.heap i).key = k then some v else absOf s k := by
  have hil := H.chain_lt hi
  have hkey : ∀ j, (nodeAt s'.heap j).key = (nodeAt s.heap j).key := by
    intro j; rw [hh, nodeAt_modify]; split <;> rfl
  have hnext : ∀ j, (nodeAt s'.heap j).next = (nodeAt s.heap j).next := by
    intro j; rw [hh, nodeAt_modify]; split <;> rfl
  have hval : ∀ j, (nodeAt s'.heap j).val = if j = i then v else (nodeAt s.heap j).val := by
    intro j; rw [hh, nodeAt_modify]
    by_cases hij : i = j
    · subst hij; simp [hil]
    · have : ¬ j = i := fun h => hij h.symm
      simp [hij, this]
  have u : Update s s' g id (chId s id) := by
    refine ⟨?_, ?_, fun id' _ => hcell id', hcur, ?_, ?_, ?_, ?_, ?_⟩
    · rw [hh]; exact nextOK_modify_same H.nextOK (fun _ => rfl)
    · rw [hh, List.length_modify]; exact Nat.le_refl _
    · rw [hcell id]
      intro hm
      rcases act with ⟨rfl, hp⟩ | ⟨hid, hp⟩
      · exact (H.pre hp).2.1 hm
      · unfold chId at hi; rw [hm, chainH_moved] at hi; cases hi
    · rw [hcell id, hh]
      exact (H.isChain id).modify (fun _ _ => rfl)
    · intro j _ hj
      rw [hh, nodeAt_modify]
      have : i ≠ j := fun h => hj (h ▸ hi)
      simp [this]
    · exact (H.keysId id).congr (fun j _ => hkey j)
    · intro j hj; rw [hkey]; exact H.sideId id j hj
  refine ⟨⟨_, u, ?_, ?_⟩, ?_⟩
  · refine heapStep_update H act u (fun j hj => Or.inl hj) (fun j _ => hkey j) ?_
    intro c hc hc'; exact absurd hc hc'
  · intro j _; rw [hh, nodeAt_modify]; split <;> rfl
  · intro k
    rw [u.abs H act]
    have hsw := absIn_swap (heap' := s'.heap) (H.keysId id) hi (fun j _ => hkey j) (fun j _ => hval j) k
    by_cases hlid : liveId s k = id
    · rw [if_pos hlid, hsw]
      split
      · rfl
      · have := H.LC_eq k
        rw [absOf_eq]; unfold LC at this; rw [this, hlid]
    · rw [if_neg hlid]
      have : (nodeAt s.heap i).key ≠ k := by
        intro hk
        exact hlid (H.liveId_of_active act (hk ▸ H.sideId id i hi))
      rw [if_neg this]

end Flurry.Proto.BinX

namespace Flurry.Proto.BinX
open Flurry.Lin

theorem Active.notMoved {s : State} {g : Ghost} {id : CellId} (_H : HInv s g) (_act : Active g id)
    (hne : chId s id ≠ []) : getCell s id ≠ .moved := by
  intro hm
  apply hne
  unfold chId; rw [hm, chainH_moved]

/-- a new node is not a copy and lies above every old node -/
theorem ord_new {s : State} {g : Ghost} (H : HInv s g) {j : Nat} (hj : j < s.heap.length) :
    ord g.cr j < ord g.cr s.heap.length := by
  have h1 := ord_le_self g.cr j
  have h2 : ¬ isCopy g.cr s.heap.length := by
    have := H.crOK.2; unfold isCopy; omega
  rw [ord_not_copy h2]
  omega

/-! ### surgery 2: append behind the last node -/

theorem append_effect {s s' : State} {g : Ghost} {id : CellId} (H : HInv s g) (act : Active g id)
    {l0 : List Nat} {last : Nat} (hch : chId s id = l0 ++ [last]) {new : NodeS}
    (hnx : new.next = none) (hon : keyOn id new.key)
    (hfresh : ∀ i ∈ chId s id, (nodeAt s.heap i).key ≠ new.key)
    (hh : s'.heap = (s.heap ++ [new]).modify last (fun n => { n with next := some s.heap.length }))
    (hcell : ∀ id', getCell s' id' = getCell s id') (hcur : s'.cur = s.cur) :
    Effect s s' g id ∧
      ∀ k, absOf s' k = if new.key = k then some new.val else absOf s k := by
  have hlc : last ∈ chId s id := by rw [hch]; simp
  have hll := H.chain_lt hlc
  have hnd := H.chain_nodup id
  have hold : ∀ j, j < s.heap.length → (nodeAt s'.heap j).key = (nodeAt s.heap j).key ∧
      (nodeAt s'.heap j).val = (nodeAt s.heap j).val ∧ (nodeAt s'.heap j).lock = (nodeAt s.heap j).lock ∧
      (j ≠ last → nodeAt s'.heap j = nodeAt s.heap j) := by
    intro j hj
    rw [hh, nodeAt_modify, nodeAt_append_left _ hj]
    split
    · rename_i hjl
      exact ⟨rfl, rfl, rfl, fun hne => absurd hjl.1.symm hne⟩
    · exact ⟨rfl, rfl, rfl, fun _ => rfl⟩
  have hnew : nodeAt s'.heap s.heap.length = new := by
    rw [hh, nodeAt_modify, nodeAt_append_new]
    have : ¬ (last = s.heap.length ∧ s.heap.length < (s.heap ++ [new]).length) := by
      intro h; omega
    rw [if_neg this]
  have hnotin : s.heap.length ∉ chId s id := fun hm => Nat.lt_irrefl _ (H.chain_lt hm)
  obtain ⟨hd', habs⟩ := absIn_append (heap' := s'.heap) (H.keysId id) (fun j hj => (hold j (H.chain_lt hj)).1)
    (fun j hj => (hold j (H.chain_lt hj)).2.1) hnew hnotin hfresh
  have u : Update s s' g id (chId s id ++ [s.heap.length]) := by
    refine ⟨?_, ?_, fun id' _ => hcell id', hcur, ?_, ?_, ?_, hd', ?_⟩
    · rw [hh]
      refine nextOK_modify_next (nextOK_append H.nextOK hnx) ?_
      intro b hb
      cases hb
      rw [List.length_append, List.length_singleton]
      exact ⟨ord_new H hll, by omega⟩
    · rw [hh, List.length_modify, List.length_append]; omega
    · rw [hcell id]; exact act.notMoved H (by rw [hch]; simp)
    · rw [hcell id, hh, hch]
      have := H.isChain id
      rw [hch] at this
      exact isChain_append_node this (hch ▸ hnd) new hnx
    · intro j hj hjc
      exact (hold j hj).2.2.2 (fun h => hjc (h ▸ hlc))
    · intro j hj
      rcases List.mem_append.1 hj with hj | hj
      · rw [(hold j (H.chain_lt hj)).1]; exact H.sideId id j hj
      · have : j = s.heap.length := by simpa using hj
        subst this
        rw [hnew]; exact hon
  refine ⟨⟨_, u, ?_, fun j hj => (hold j hj).2.2.1⟩, ?_⟩
  · refine heapStep_update H act u ?_ (fun j hj => (hold j hj).1) ?_
    · intro j hj
      rcases List.mem_append.1 hj with hj | hj
      · exact Or.inl hj
      · have : j = s.heap.length := by simpa using hj
        exact Or.inr (by omega)
    · intro c hc hc'
      exact absurd (List.mem_append_left _ hc) hc'
  · intro k
    rw [u.abs H act]
    by_cases hlid : liveId s k = id
    · rw [if_pos hlid, habs]
      split
      · rfl
      · have := H.LC_eq k
        rw [absOf_eq]; unfold LC at this; rw [this, hlid]
    · rw [if_neg hlid]
      have : new.key ≠ k := by
        intro hk
        exact hlid (H.liveId_of_active act (hk ▸ hon))
      rw [if_neg this]

/-! ### surgery 2': install the first node of an empty bin -/

theorem cas_effect {s s' : State} {g : Ghost} {id : CellId} (H : HInv s g) (act : Active g id)
    (hempty : getCell s id = .empty) {new : NodeS}
    (hnx : new.next = none) (hon : keyOn id new.key)
    (hh : s'.heap = s.heap ++ [new])
    (hcell : ∀ id', getCell s' id' = if id' = id then .node s.heap.length else getCell s id')
    (hcur : s'.cur = s.cur) :
    Effect s s' g id ∧
      ∀ k, absOf s' k = if new.key = k then some new.val else absOf s k := by
  have hch : chId s id = [] := by unfold chId; rw [hempty, chainH_empty]
  have hold : ∀ j, j < s.heap.length → nodeAt s'.heap j = nodeAt s.heap j := by
    intro j hj; rw [hh, nodeAt_append_left _ hj]
  have hnew : nodeAt s'.heap s.heap.length = new := by rw [hh, nodeAt_append_new]
  obtain ⟨hd', habs⟩ := absIn_append (heap' := s'.heap) (C := []) (n := s.heap.length) (new := new)
    (fun a ha => by cases ha) (fun j hj => by cases hj) (fun j hj => by cases hj) hnew (by simp)
    (fun j hj => by cases hj)
  have u : Update s s' g id [s.heap.length] := by
    refine ⟨?_, ?_, ?_, hcur, ?_, ?_, ?_, hd', ?_⟩
    · rw [hh]; exact nextOK_append H.nextOK hnx
    · rw [hh, List.length_append]; omega
    · intro id' hne; rw [hcell id', if_neg hne]
    · rw [hcell id, if_pos rfl]; simp
    · rw [hcell id, if_pos rfl, hh]
      refine .cons (n := new) (by simp) ?_
      rw [hnx]; exact .nil _
    · intro j hj _; exact hold j hj
    · intro j hj
      have : j = s.heap.length := by simpa using hj
      subst this
      rw [hnew]; exact hon
  refine ⟨⟨_, u, ?_, fun j hj => by rw [hold j hj]⟩, ?_⟩
  · refine heapStep_update H act u ?_ (fun j hj => by rw [hold j hj]) ?_
    · intro j hj
      have : j = s.heap.length := by simpa using hj
      exact Or.inr (by omega)
    · intro c hc; rw [hch] at hc; cases hc
  · intro k
    rw [u.abs H act]
    by_cases hlid : liveId s k = id
    · rw [if_pos hlid]
      have := habs k
      simp only [List.nil_append] at this
      rw [this]
      split
      · rfl
      · have h2 := H.LC_eq k
        rw [absOf_eq]; unfold LC at h2; rw [h2, hlid, hch]
    · rw [if_neg hlid]
      have : new.key ≠ k := by
        intro hk
        exact hlid (H.liveId_of_active act (hk ▸ hon))
      rw [if_neg this]

/-! ### surgery 3: unlink a chain node -/

theorem unlink_abs {s s' : State} {g : Ghost} {id : CellId} {C' : List Nat} (H : HInv s g) (act : Active g id)
    (u : Update s s' g id C') {i : Nat} (hi : i ∈ chId s id)
    (habs : ∀ k, absIn s'.heap C' k = if (nodeAt s.heap i).key = k then none else absIn s.heap (chId s id) k) :
    ∀ k, absOf s' k = if (nodeAt s.heap i).key = k then none else absOf s k := by
  intro k
  rw [u.abs H act]
  by_cases hlid : liveId s k = id
  · rw [if_pos hlid, habs]
    split
    · rfl
    · have := H.LC_eq k
      rw [absOf_eq]; unfold LC at this; rw [this, hlid]
  · rw [if_neg hlid]
    have : (nodeAt s.heap i).key ≠ k := by
      intro hk
      exact hlid (H.liveId_of_active act (hk ▸ H.sideId id i hi))
    rw [if_neg this]

theorem unlink_mid_effect {s s' : State} {g : Ghost} {id : CellId} (H : HInv s g) (act : Active g id)
    {l1 l2 : List Nat} {pr i : Nat} (hch : chId s id = l1 ++ pr :: i :: l2)
    (hh : s'.heap = s.heap.modify pr (fun m => { m with next := (nodeAt s.heap i).next }))
    (hcell : ∀ id', getCell s' id' = getCell s id') (hcur : s'.cur = s.cur) :
    Effect s s' g id ∧
      ∀ k, absOf s' k = if (nodeAt s.heap i).key = k then none else absOf s k := by
  have hi : i ∈ chId s id := by rw [hch]; simp
  have hpr : pr ∈ chId s id := by rw [hch]; simp
  have hil := H.chain_lt hi
  have hni := getElem?_nodeAt hil
  have hchain := H.isChain id
  rw [hch] at hchain
  have hnd := H.chain_nodup id
  rw [hch] at hnd
  have hpri : pr ≠ i := by
    intro he
    subst he
    have := (List.nodup_append.1 hnd).2.1
    simp at this
  obtain ⟨b, h1, h2⟩ := hchain.split
  obtain ⟨-, np, hnp, hs⟩ := IsSeg.cons_iff.1 h2
  obtain ⟨hb, -⟩ := IsSeg.cons_iff.1 hs
  have hold : ∀ j, j < s.heap.length → (nodeAt s'.heap j).key = (nodeAt s.heap j).key ∧
      (nodeAt s'.heap j).val = (nodeAt s.heap j).val ∧ (nodeAt s'.heap j).lock = (nodeAt s.heap j).lock ∧
      (j ≠ pr → nodeAt s'.heap j = nodeAt s.heap j) := by
    intro j hj
    rw [hh, nodeAt_modify]
    split
    · rename_i hjl
      exact ⟨rfl, rfl, rfl, fun hne => absurd hjl.1.symm hne⟩
    · exact ⟨rfl, rfl, rfl, fun _ => rfl⟩
  have hmem : ∀ j, j ∈ l1 ++ pr :: l2 ↔ j ∈ chId s id ∧ j ≠ i := by
    intro j
    rw [hch]
    simp only [List.mem_append, List.mem_cons]
    constructor
    · intro hj
      refine ⟨by rcases hj with hj | hj | hj <;> simp [hj], ?_⟩
      rintro rfl
      have h5 := List.nodup_append.1 hnd
      rcases hj with hj | hj | hj
      · exact h5.2.2 j hj j (by simp) rfl
      · exact hpri hj.symm
      · have := (List.nodup_cons.1 (List.nodup_cons.1 h5.2.1).2).1
        exact this hj
    · rintro ⟨hj | hj | hj | hj, hne⟩
      · exact Or.inl hj
      · exact Or.inr (Or.inl hj)
      · exact absurd hj hne
      · exact Or.inr (Or.inr hj)
  obtain ⟨hd', habs⟩ := absIn_unlink (heap' := s'.heap) (H.keysId id) hi hmem
    (fun j hj => (hold j (H.chain_lt hj)).1) (fun j hj => (hold j (H.chain_lt hj)).2.1)
  have u : Update s s' g id (l1 ++ pr :: l2) := by
    refine ⟨?_, ?_, fun id' _ => hcell id', hcur, ?_, ?_, ?_, hd', ?_⟩
    · rw [hh]
      refine nextOK_modify_next H.nextOK ?_
      intro b hb'
      have h3 := H.nextOK pr np i hnp hb
      have h4 := H.nextOK i _ b hni hb'
      exact ⟨by omega, h4.2⟩
    · rw [hh, List.length_modify]; exact Nat.le_refl _
    · rw [hcell id]; exact act.notMoved H (by rw [hch]; simp)
    · rw [hcell id, hh]
      have := H.isChain id
      rw [hch] at this
      exact isChain_unlink this hnd hni
    · intro j hj hjc
      exact (hold j hj).2.2.2 (fun h => hjc (h ▸ hpr))
    · intro j hj
      have hj' := ((hmem j).1 hj).1
      rw [(hold j (H.chain_lt hj')).1]; exact H.sideId id j hj'
  refine ⟨⟨_, u, ?_, fun j hj => (hold j hj).2.2.1⟩, unlink_abs H act u hi habs⟩
  refine heapStep_update H act u (fun j hj => Or.inl ((hmem j).1 hj).1) (fun j hj => (hold j hj).1) ?_
  intro c hc hc'
  have hci : c = i := by
    apply Classical.byContradiction
    intro hne
    exact hc' ((hmem c).2 ⟨hc, hne⟩)
  subst hci
  have := (hold c hil).2.2.2 (fun h => hpri h.symm)
  exact ⟨by rw [this], by rw [this], fun j hj hne => (hmem j).2 ⟨hj, hne⟩⟩

theorem unlink_head_effect {s s' : State} {g : Ghost} {id : CellId} (H : HInv s g) (act : Active g id)
    {l2 : List Nat} {i : Nat} (hch : chId s id = i :: l2)
    (hh : s'.heap = s.heap)
    (hcell : ∀ id', getCell s' id' = if id' = id then cellOfHead (nodeAt s.heap i).next else getCell s id')
    (hcur : s'.cur = s.cur) :
    Effect s s' g id ∧
      ∀ k, absOf s' k = if (nodeAt s.heap i).key = k then none else absOf s k := by
  have hi : i ∈ chId s id := by rw [hch]; simp
  have hil := H.chain_lt hi
  have hni := getElem?_nodeAt hil
  have hchain := H.isChain id
  rw [hch] at hchain
  have hnd := H.chain_nodup id
  rw [hch] at hnd
  obtain ⟨-, ni, hni', hs⟩ := IsSeg.cons_iff.1 hchain
  rw [hni] at hni'; cases hni'
  have hmem : ∀ j, j ∈ l2 ↔ j ∈ chId s id ∧ j ≠ i := by
    intro j
    rw [hch]
    simp only [List.mem_cons]
    constructor
    · intro hj
      refine ⟨Or.inr hj, ?_⟩
      rintro rfl
      exact (List.nodup_cons.1 hnd).1 hj
    · rintro ⟨hj | hj, hne⟩
      · exact absurd hj hne
      · exact hj
  obtain ⟨hd', habs⟩ := absIn_unlink (heap' := s'.heap) (H.keysId id) hi hmem
    (fun j _ => by rw [hh]) (fun j _ => by rw [hh])
  have u : Update s s' g id l2 := by
    refine ⟨by rw [hh]; exact H.nextOK, by rw [hh]; exact Nat.le_refl _, ?_, hcur, ?_, ?_, ?_, hd', ?_⟩
    · intro id' hne; rw [hcell id', if_neg hne]
    · rw [hcell id, if_pos rfl]; exact cellOfHead_ne_moved _
    · rw [hcell id, if_pos rfl, cellHead_cellOfHead, hh]; exact hs
    · intro j _ _; rw [hh]
    · intro j hj
      have hj' := ((hmem j).1 hj).1
      rw [hh]; exact H.sideId id j hj'
  refine ⟨⟨_, u, ?_, fun j _ => by rw [hh]⟩, unlink_abs H act u hi habs⟩
  refine heapStep_update H act u (fun j hj => Or.inl ((hmem j).1 hj).1) (fun j _ => by rw [hh]) ?_
  intro c hc hc'
  have hci : c = i := by
    apply Classical.byContradiction
    intro hne
    exact hc' ((hmem c).2 ⟨hc, hne⟩)
  subst hci
  exact ⟨by rw [hh], by rw [hh], fun j hj hne => (hmem j).2 ⟨hj, hne⟩⟩

/-- no store at all -/
theorem noop_effect {s s' : State} {g : Ghost} {id : CellId} (H : HInv s g) (_act : Active g id)
    (hnm : getCell s id ≠ .moved)
    (hh : s'.heap = s.heap) (hcell : ∀ id', getCell s' id' = getCell s id') (hcur : s'.cur = s.cur) :
    Effect s s' g id ∧ ∀ k, absOf s' k = absOf s k := by
  have h0 : s'.cell0 = s.cell0 := hcell .c0
  have hL : s'.lowCell = s.lowCell := hcell .low
  have hH : s'.highCell = s.highCell := hcell .high
  refine ⟨⟨chId s id, ?_, HeapStep.of_same hh h0 hL hH hcur, fun j _ => by rw [hh]⟩, absOf_congr hh h0 hL hH hcur⟩
  refine ⟨by rw [hh]; exact H.nextOK, by rw [hh]; exact Nat.le_refl _, fun id' _ => hcell id', hcur, ?_, ?_, ?_, ?_, ?_⟩
  · rw [hcell id]; exact hnm
  · rw [hcell id, hh]; exact H.isChain id
  · intro j _ _; rw [hh]
  · rw [hh]; exact H.keysId id
  · rw [hh]; exact H.sideId id

/-! ### surgery 4: empty the whole bin (`clear`) -/

theorem clear_update {s s' : State} {g : Ghost} {id : CellId} (H : HInv s g) (act : Active g id)
    (hh : s'.heap = s.heap)
    (hcell : ∀ id', getCell s' id' = if id' = id then .empty else getCell s id') (hcur : s'.cur = s.cur) :
    Update s s' g id [] ∧ ∀ k, absOf s' k = if liveId s k = id then none else absOf s k := by
  have u : Update s s' g id [] := by
    refine ⟨by rw [hh]; exact H.nextOK, by rw [hh]; exact Nat.le_refl _, ?_, hcur, ?_, ?_, ?_, ?_, ?_⟩
    · intro id' hne; rw [hcell id', if_neg hne]
    · rw [hcell id, if_pos rfl]; simp
    · rw [hcell id, if_pos rfl]; exact .nil _
    · intro j _ _; rw [hh]
    · intro a ha; cases ha
    · intro j hj; cases hj
  refine ⟨u, ?_⟩
  intro k
  rw [u.abs H act]
  split
  · rfl
  · rfl

/-- after a `clear` of the cell `id`: what is live was live before and is not on the cleared chain -/
theorem Update.live_of_cleared {s s' : State} {g : Ghost} {id : CellId} (H : HInv s g) (act : Active g id)
    (u : Update s s' g id []) {j : Nat} (hl : Live s' g.cr j) : Live s g.cr j ∧ j ∉ chId s id := by
  obtain ⟨hC, hO⟩ := u.chains H act
  have hmv := u.cell0_moved_iff H act
  rw [live_iff] at hl
  rcases hl with ⟨id', hm⟩ | ⟨hm, hcp⟩
  · by_cases hid : id' = id
    · subst hid; rw [hC] at hm; cases hm
    · rw [hO id' hid] at hm
      exact ⟨(live_iff s g.cr j).2 (Or.inl ⟨id', hm⟩), fun hj => H.disjoint act hid hj hm⟩
  · have hm0 : s.cell0 ≠ .moved := fun h => hm (hmv.2 h)
    refine ⟨(live_iff s g.cr j).2 (Or.inr ⟨hm0, hcp⟩), ?_⟩
    intro hj
    have hp : g.ph = .pre := by
      rcases act with ⟨_, hp⟩ | ⟨_, hp⟩
      · exact hp
      · exact absurd (H.post hp) hm0
    have hid : id = .c0 := act.pre_iff.1 hp
    subst hid
    exact H.oNotCopy j hj hcp

end Flurry.Proto.BinX
