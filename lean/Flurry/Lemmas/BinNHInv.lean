import Flurry.Lemmas.BinNHStepRW
/-! # Proto/BinNH: every transition preserves the invariant of the helper model -/
namespace Flurry.Proto.BinNH
open Flurry.Lin
open Flurry.Proto.BinX (NodeS Cell Pending isReader dflt chainFrom cellHead cellOfHead get_set get_set_self get_set_ne
  cellOfHead_ne_moved)
open Flurry.Proto.BinN (cellAt cellOf putCell setNode allMoved splitBinB bitAt lockAt LockSame GenInv ThrOK isT
  Holds vcell genOfPc cellT StepK tick setT finish)

/-- assembling the invariant after a transition of the helper part of thread `t` (the reader/writer parts
of all threads are untouched) -/
theorem inv_helper {s : State} {t : Nat} {n' : BinN.State} {ho : Option Helper} (I : Inv s)
    (G' : GenInv n') (hth : n'.threads = s.n.threads)
    (hselfidle : ∀ l : BinN.Local, s.n.threads[t]? = some l → l.pc = .idle)
    (hself : ∀ hp, ho = some hp → HOK n' t hp)
    (hothers : ∀ t1 hp, t1 ≠ t → s.hs[t1]? = some (some hp) → HOK n' t1 hp) : Inv (setH s t n' ho) := by
  refine ⟨G', ?_, ?_, ?_, ?_⟩
  · intro t1 l1 h1
    have h1 : s.n.threads[t1]? = some l1 := by rw [← hth]; exact h1
    exact I.noT t1 l1 h1
  · show (s.hs.set t ho).length = n'.threads.length
    rw [List.length_set, hth]; exact I.len
  · intro t1 hp l1 hh h1
    have h2 : s.n.threads[t1]? = some l1 := by rw [← hth]; exact h1
    rcases get_set hh with ⟨e, -⟩ | ⟨-, hh⟩
    · rw [e] at h2; exact hselfidle l1 h2
    · exact I.hidle t1 hp l1 hh h2
  · intro t1 hp hh
    rcases get_set hh with ⟨rfl, e⟩ | ⟨ne, hh⟩
    · exact hself hp e.symm
    · exact hothers t1 hp ne hh

/-- a transition that only advances the clock -/
theorem geninv_tick {n : BinN.State} (I : GenInv n) : GenInv (tickN n) :=
  geninv_congr I rfl rfl rfl rfl (fun t1 l1 h h1 hh => (I.thr t1 l1 h1).held h hh)

theorem HOK.same {n n' : BinN.State} {t : Nat} {hp : Helper} (H : HOK n t hp) (hc : n'.cur = n.cur)
    (hr : n.resizing = true → n'.resizing = true) (hh : n'.heap = n.heap) (ht : ∀ g j, cellAt n' g j = cellAt n g j) :
    HOK n' t hp :=
  H.frame hc hr (fun h a b => by rw [hh]; exact ⟨a, b⟩) (fun j h a _ _ => by rw [ht]; exact a)
    (fun g j a => by rw [ht]; exact a)

/-- pc-only transitions of a resizing thread (also: joining, leaving) -/
theorem inv_pc {s : State} {t : Nat} {ho : Option Helper} (I : Inv s)
    (hselfidle : ∀ l : BinN.Local, s.n.threads[t]? = some l → l.pc = .idle)
    (hself : ∀ hp, ho = some hp → HOK (tickN s.n) t hp) : Inv (setH s t (tickN s.n) ho) :=
  inv_helper I (geninv_tick I.gen) rfl hselfidle hself
    (fun t1 hp _ hh => (I.hok t1 hp hh).same rfl id rfl (fun _ _ => rfl))

/-- a resizing thread stores `c` into cell `(g0, j0)` -/
theorem inv_put {s : State} {t : Nat} {l : BinN.Local} {g0 j0 : Nat} {c : Cell} {ho : Option Helper} (I : Inv s)
    (hl : s.n.threads[t]? = some l) (hidle : l.pc = .idle)
    (hold : cellAt s.n g0 j0 ≠ .moved ∨ c = .moved)
    (hc : c = .moved → g0 = s.n.cur ∧ s.n.resizing = true)
    (hother : ∀ (t1 : Nat) (l1 : BinN.Local) h, t1 ≠ t → s.n.threads[t1]? = some l1 → vcell s.n.cur l1 ≠ some (g0, j0, h))
    (hhelpers : ∀ t1 hp h, t1 ≠ t → s.hs[t1]? = some (some hp) → hp.g = g0 → cellAt s.n g0 j0 = .node h →
      lockAt s.n.heap h = some t1 → False)
    (hself : ∀ hp, ho = some hp → HOK (putCell (tickN s.n) g0 j0 c) t hp) :
    Inv (setH s t (putCell (tickN s.n) g0 j0 c) ho) := by
  have G' : GenInv (putCell (tickN s.n) g0 j0 c) := by
    obtain ⟨pc, call⟩ := l
    simp only at hidle; subst hidle
    refine BinN.geninv_put (t := t) (l := ⟨.idle, call⟩) (l' := ⟨.idle, call⟩) I.gen hl ?_ rfl rfl rfl hold hc hother ?_ id
      (BinN.thrOK_idle _ t call)
    · show s.n.threads = s.n.threads.set t _
      exact (set_self_of_get hl).symm
    · intro t1 l1 h _ h1 hh
      exact (I.gen.thr t1 l1 h1).held h hh
  refine inv_helper I G' rfl (fun l' h' => by rw [hl] at h'; cases h'; exact hidle) hself ?_
  intro t1 hp ne hh
  have H := I.hok t1 hp hh
  have hne : ∀ g j, ¬ (g = g0 ∧ j = j0) → cellAt (putCell (tickN s.n) g0 j0 c) g j = cellAt s.n g j :=
    fun g j h => BinN.cellT_put_ne _ _ h
  have hself' : cellAt (putCell (tickN s.n) g0 j0 c) g0 j0 = c ∨
      cellAt (putCell (tickN s.n) g0 j0 c) g0 j0 = cellAt s.n g0 j0 := BinN.cellT_put_self _ _ _ _
  refine H.frame rfl id (fun h a b => ⟨a, b⟩) ?_ ?_
  · intro j h hcell hlk _
    by_cases e : hp.g = g0 ∧ j = j0
    · obtain ⟨e1, rfl⟩ := e
      rw [e1] at hcell
      exact (hhelpers t1 hp h ne hh e1 hcell hlk).elim
    · rw [hne hp.g j e]; exact hcell
  · intro g j hm
    by_cases e : g = g0 ∧ j = j0
    · obtain ⟨rfl, rfl⟩ := e
      rcases hself' with e1 | e1
      · rcases hold with h1 | h1
        · exact absurd hm h1
        · rw [e1]; exact h1
      · rw [e1]; exact hm
    · rw [hne g j e]; exact hm

/-- a resizing thread changes the lock word of a node that is free or its own -/
theorem inv_lockmod {s : State} {t : Nat} {h : Nat} {x : Option Nat} {ho : Option Helper} (I : Inv s)
    (hidle : ∀ l : BinN.Local, s.n.threads[t]? = some l → l.pc = .idle)
    (hfree : lockAt s.n.heap h = none ∨ lockAt s.n.heap h = some t)
    (hself : ∀ hp, ho = some hp → HOK (setNode (tickN s.n) h (fun m => { m with lock := x })) t hp) :
    Inv (setH s t (setNode (tickN s.n) h (fun m => { m with lock := x })) ho) := by
  have G' : GenInv (setNode (tickN s.n) h (fun m => { m with lock := x })) :=
    geninv_congr I.gen rfl rfl rfl rfl (rw_locks_modify I.gen hidle hfree)
  refine inv_helper I G' rfl hidle hself ?_
  intro t1 hp ne hh
  refine (I.hok t1 hp hh).frame rfl id ?_ (fun j h a _ _ => a) (fun g j a => a)
  intro h1 a b
  have hne' : h1 ≠ h := by
    rintro rfl
    rcases hfree with e | e <;> rw [e] at b
    · cases b
    · exact ne (Option.some.inj b).symm
  exact ⟨by show h1 < (s.n.heap.modify _ _).length; simpa using a, by
    show lockAt (s.n.heap.modify _ _) h1 = _; rw [BinN.lockAt_modify_ne x hne']; exact b⟩

/-- a resizing thread allocates nodes (the split) -/
theorem inv_heap {s : State} {t : Nat} {heap' : List NodeS} {ho : Option Helper} (I : Inv s)
    (hidle : ∀ l : BinN.Local, s.n.threads[t]? = some l → l.pc = .idle) (hls : LockSame s.n.heap heap')
    (hself : ∀ hp, ho = some hp → HOK { tickN s.n with heap := heap' } t hp) :
    Inv (setH s t { tickN s.n with heap := heap' } ho) := by
  have G' : GenInv { tickN s.n with heap := heap' } :=
    geninv_congr I.gen rfl rfl rfl rfl (rw_locks_lockSame I.gen hls)
  refine inv_helper I G' rfl hidle hself ?_
  intro t1 hp ne hh
  refine (I.hok t1 hp hh).frame rfl id ?_ (fun j h a _ _ => a) (fun g j a => a)
  intro h1 a b
  exact ⟨by have := hls.1; show h1 < heap'.length; omega, by show lockAt heap' h1 = _; rw [hls.2 h1 a]; exact b⟩

/-- the shared memory after the allocation of generation `cur + 1` -/
def allocN (n : BinN.State) : BinN.State :=
  { tickN n with resizing := true, tabs := n.tabs ++ [List.replicate (2 ^ (n.cur + 1)) .empty] }

/-- the shared memory after the publication of generation `cur + 1` -/
def commitN (n : BinN.State) : BinN.State := { tickN n with cur := n.cur + 1, resizing := false }

/-- an idle thread starts a resize: it allocates generation `cur + 1` and becomes a resizing thread -/
theorem inv_alloc {s : State} {t : Nat} (I : Inv s) (hidle : ∀ l : BinN.Local, s.n.threads[t]? = some l → l.pc = .idle)
    (hr : s.n.resizing = false) :
    Inv (setH s t (allocN s.n) (some ⟨s.n.cur, .next⟩)) := by
  have G := I.gen
  have hc : ∀ g j, cellAt (allocN s.n) g j = cellAt s.n g j := fun g j => BinN.cellT_alloc _ _ _ _
  have G' : GenInv (allocN s.n) := by
    refine ⟨?_, ?_, ?_, ?_, fun _ _ => rfl, G.uniqT, ?_⟩
    · have := G.len
      rw [hr] at this
      show (s.n.tabs ++ _).length = s.n.cur + 1 + 1
      simp at this ⊢
      omega
    · intro g row h
      have hlen : s.n.tabs.length = s.n.cur + 1 := by have := G.len; rw [hr] at this; simpa using this
      change (s.n.tabs ++ [List.replicate (2 ^ (s.n.cur + 1)) Cell.empty])[g]? = some row at h
      by_cases hg : g < s.n.tabs.length
      · rw [List.getElem?_append_left hg] at h
        exact G.rows g row h
      · rw [List.getElem?_append_right (by omega)] at h
        by_cases h0 : g - s.n.tabs.length = 0
        · rw [h0] at h
          simp only [List.getElem?_cons_zero, Option.some.injEq] at h
          rw [← h, List.length_replicate]
          have : g = s.n.cur + 1 := by omega
          rw [this]
        · rw [List.getElem?_eq_none (by simp; omega)] at h; cases h
    · intro g j hg hj; rw [hc]; exact G.old g j hg hj
    · intro j; rw [hc]; exact G.nextOK j
    · intro t1 l1 h1
      have T1 := G.thr t1 l1 h1
      refine BinN.thrOK_w _ _ (I.noT t1 l1 h1) ?_ T1.held ?_
      · intro p g hp hg
        obtain ⟨a, b⟩ := T1.gen p g hp hg
        exact ⟨a, fun e => by show cellAt _ _ _ = _; rw [hc]; exact b e⟩
      · intro g j h hv
        rw [hc]; exact T1.valid g j h hv
  refine inv_helper I G' rfl hidle ?_ ?_
  · intro hp e
    cases e
    exact ⟨Nat.le_refl _, fun _ => rfl, fun j h => (by cases h), fun h hh => hh.elim, fun j h hv => (by cases hv),
      fun h => (by cases h)⟩
  · intro t1 hp ne hh
    exact (I.hok t1 hp hh).same rfl (fun _ => rfl) rfl hc

/-- a resizing thread of generation `cur` publishes the next table -/
theorem inv_commit {s : State} {t : Nat} (I : Inv s) (hidle : ∀ l : BinN.Local, s.n.threads[t]? = some l → l.pc = .idle)
    (R : s.n.resizing = true) (hall : ∀ j, j < 2 ^ s.n.cur → cellAt s.n s.n.cur j = .moved) :
    Inv (setH s t (commitN s.n) none) := by
  have G := I.gen
  have hlen : s.n.tabs.length = s.n.cur + 2 := by have := G.len; rw [R] at this; simpa using this
  have G' : GenInv (commitN s.n) := by
    refine ⟨?_, G.rows, ?_, ?_, ?_, G.uniqT, ?_⟩
    · show s.n.tabs.length = s.n.cur + 1 + 1 + 0; omega
    · intro g j hg hj
      show cellT s.n.tabs g j = _
      by_cases h : g < s.n.cur
      · exact G.old g j h hj
      · have : g = s.n.cur := by have : g < s.n.cur + 1 := hg; omega
        subst this
        exact hall j hj
    · intro j
      show cellT s.n.tabs (s.n.cur + 1 + 1) j ≠ _
      have e : s.n.tabs.getD (s.n.cur + 1 + 1) [] = [] := by
        rw [BinN.getD_eq, List.getElem?_eq_none (by omega)]; rfl
      unfold cellT
      rw [e]; simp
    · intro j hm
      exact absurd hm (G.nextOK j)
    · intro t1 l1 h1
      have T1 := G.thr t1 l1 h1
      have hnT := I.noT t1 l1 h1
      refine BinN.thrOK_w _ _ hnT ?_ T1.held ?_
      · intro p g hp hg
        obtain ⟨a, -⟩ := T1.gen p g hp hg
        exact ⟨by show g ≤ s.n.cur + 1 + 1; omega, fun e => by have : g = s.n.cur + 1 + 1 := e; omega⟩
      · intro g j h hv
        have : vcell s.n.cur l1 = some (g, j, h) := by rw [BinN.vcell_cur_indep (c' := s.n.cur + 1) hnT]; exact hv
        exact T1.valid g j h this
  refine inv_helper I G' rfl hidle (fun hp e => by cases e) ?_
  intro t1 hp ne hh
  have H := I.hok t1 hp hh
  refine ⟨?_, ?_, H.idx, H.held, H.valid, ?_⟩
  · show hp.g ≤ s.n.cur + 1
    have := H.gle; omega
  · intro e
    have e : hp.g = s.n.cur + 1 := e
    have := H.gle; omega
  · intro _ e
    have e : hp.g = s.n.cur + 1 := e
    have := H.gle; omega

end Flurry.Proto.BinNH
