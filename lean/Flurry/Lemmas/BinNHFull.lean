import Flurry.Lemmas.BinNHEff
import Flurry.Lemmas.BinNHMLin
/-! # Proto/BinNH: the complete invariant of the helper model and its preservation (C01, C10)

`Full s G`: the generation-level invariant `Inv s` (`Lemmas/BinNHDefs.lean`), the structural invariant
`BinNHM.Inv s.n G` of the shared memory, the readers and the writers — `Proto/BinN`'s heap invariant with
ONE MID-TRANSFER CELL PER HELPER (`Lemmas/BinNHM*.lean`: `G.mid j = some (lo, hg, fr)`) — and the link between
the helpers' program counters and the ghost: a helper between its split and its marker store is recorded in
`G.mid` with exactly the lists it remembers, and has stored exactly what its program counter says (`pcMid`);
every recorded split belongs to such a helper (`midHas`).

`full_step`: every transition preserves `∃ G A pt, Full s G ∧ GInv k s.n G A pt` — the readers and writers
by `BinNHM.ginv_step` (= `Proto/BinN`'s case analysis, the ghost unchanged), the helper parts by the effect
lemmas of `Lemmas/BinNHMTransfer.lean`, each of which frames the splits of the OTHER helpers. -/
namespace Flurry.Proto.BinNH
open Flurry.Lin
open Flurry.Proto.BinX (NodeS Cell Pending isReader dflt chainFrom cellHead cellOfHead get_set get_set_self get_set_ne
  cellOfHead_ne_moved nodeAt chainH nextA)
open Flurry.Proto.BinN (cellAt cellOf putCell setNode allMoved splitBinB bitAt lockAt LockSame GenInv ThrOK isT
  Holds vcell genOfPc cellT StepK tick setT finish TInv WInv getCell chId CellId)
open Flurry.Proto.BinNHM (Ghost IsMid HInv MemStep GInv Good)

/-! ## the transitions of a helper part, with the successor program counter -/

/-- the middle phase: between the split and the store of the marker -/
def midPc : HPc → Prop
  | .storeLow _ _ _ _ | .storeHigh _ _ _ | .storeMoved _ _ => True
  | _ => False

/-- the helper is in the middle phase on cell `j` -/
def isMidH : HPc → Nat → Prop
  | .storeLow j' _ _ _, j => j' = j
  | .storeHigh j' _ _, j => j' = j
  | .storeMoved j' _, j => j' = j
  | _, _ => False

theorem isMidH_midPc {pc : HPc} {j : Nat} (h : isMidH pc j) : midPc pc := by
  cases pc <;> first | trivial | exact h.elim

theorem isMidH_hvalid {pc : HPc} {j : Nat} (h : isMidH pc j) : ∃ h', hvalid pc = some (j, h') := by
  cases pc <;> first | exact h.elim | (cases h; exact ⟨_, rfl⟩)

inductive HStep (n : BinN.State) (t g : Nat) : HPc → BinN.State → Option HPc → Prop
  | tick {pc : HPc} (po : Option HPc) : ¬ midPc pc → (∀ pc', po = some pc' → ¬ midPc pc') →
      (∀ pc' j h, po = some pc' → hvalid pc' = some (j, h) → hvalid pc = none → pc = .check j h ∧ cellAt n g j = .node h) →
      HStep n t g pc (tickN n) po
  | lock (j h : Nat) : HStep n t g (.lock j h) (setNode (tickN n) h (fun m => { m with lock := some t })) (some (.check j h))
  | unlockC (j h : Nat) : HStep n t g (.check j h) (setNode (tickN n) h (fun m => { m with lock := none })) (some (.cell j))
  | unlockU (j h : Nat) : HStep n t g (.unlock j h) (setNode (tickN n) h (fun m => { m with lock := none })) (some .next)
  | build (j h : Nat) :
      HStep n t g (.build j h)
        { tickN n with heap := (splitBinB (bitAt g) n.heap (chainFrom n.heap n.heap.length (some h))).1 }
        (some (.storeLow j h (splitBinB (bitAt g) n.heap (chainFrom n.heap n.heap.length (some h))).2.1
          (splitBinB (bitAt g) n.heap (chainFrom n.heap n.heap.length (some h))).2.2))
  | cas (j : Nat) : cellAt n g j = .empty → HStep n t g (.casMoved j) (putCell (tickN n) g j .moved) (some .next)
  | low (j h : Nat) (lo hg : Option Nat) :
      HStep n t g (.storeLow j h lo hg) (putCell (tickN n) (g + 1) j (cellOfHead lo)) (some (.storeHigh j h hg))
  | high (j h : Nat) (hg : Option Nat) :
      HStep n t g (.storeHigh j h hg) (putCell (tickN n) (g + 1) (j + 2 ^ g) (cellOfHead hg)) (some (.storeMoved j h))
  | marker (j h : Nat) : HStep n t g (.storeMoved j h) (putCell (tickN n) g j .moved) (some (.unlock j h))
  | commit : g = n.cur → n.resizing = true → HStep n t g .commit (commitN n) none

theorem helperStep_hstep {s s' : State} {t g : Nat} {pc : HPc} {leave : Bool} {pick : Nat}
    (hs : helperStep true s t g pc leave pick = some s') :
    ∃ po, HStep s.n t g pc s'.n po ∧ s'.hs = s.hs.set t (po.map (fun pc' => ⟨g, pc'⟩)) := by
  unfold helperStep at hs
  have nv : ∀ {pc pc' : HPc} {j h : Nat}, hvalid pc' = none → hvalid pc' = some (j, h) → hvalid pc = none →
      pc = .check j h ∧ cellAt s.n g j = .node h := by
    intro _ _ _ _ h1 h2; rw [h1] at h2; cases h2
  cases pc with
  | next =>
    simp only at hs
    split at hs
    · cases hs; exact ⟨none, .tick none (fun h => h) (fun _ h => by cases h) (fun _ _ _ h => by cases h), rfl⟩
    · split at hs
      · cases hs; exact ⟨none, .tick none (fun h => h) (fun _ h => by cases h) (fun _ _ _ h => by cases h), rfl⟩
      · split at hs <;> cases hs
        · exact ⟨some .commit, .tick _ (fun h => h) (fun _ h => by cases h; exact fun h => h)
            (fun _ _ _ h => by cases h; exact nv rfl), rfl⟩
        · exact ⟨some (.cell _), .tick _ (fun h => h) (fun _ h => by cases h; exact fun h => h)
            (fun _ _ _ h => by cases h; exact nv rfl), rfl⟩
  | cell j =>
    simp only at hs
    split at hs <;> cases hs
    · exact ⟨some (.casMoved j), .tick _ (fun h => h) (fun _ h => by cases h; exact fun h => h)
        (fun _ _ _ h => by cases h; exact nv rfl), rfl⟩
    · exact ⟨some (.lock j _), .tick _ (fun h => h) (fun _ h => by cases h; exact fun h => h)
        (fun _ _ _ h => by cases h; exact nv rfl), rfl⟩
    · exact ⟨some .next, .tick _ (fun h => h) (fun _ h => by cases h; exact fun h => h)
        (fun _ _ _ h => by cases h; exact nv rfl), rfl⟩
  | casMoved j =>
    simp only at hs
    split at hs
    · rename_i hc
      have hc' : cellAt (tickN s.n) g j = .empty := by simpa using hc
      cases hs; exact ⟨some .next, .cas j hc', rfl⟩
    · cases hs
      exact ⟨some (.cell j), .tick _ (fun h => h) (fun _ h => by cases h; exact fun h => h)
        (fun _ _ _ h => by cases h; exact nv rfl), rfl⟩
  | lock j h =>
    simp only at hs
    split at hs
    · cases hs
    · split at hs
      · cases hs
      · cases hs; exact ⟨_, .lock j h, rfl⟩
  | check j h =>
    simp only [Bool.not_true, Bool.false_or] at hs
    split at hs
    · rename_i hc
      have hc' : cellAt (tickN s.n) g j = .node h := by simpa using hc
      cases hs
      refine ⟨some (.build j h), .tick _ (fun h => h) (fun _ h => by cases h; exact fun h => h) ?_, rfl⟩
      intro pc' j' h' e hv _
      cases e
      simp only [hvalid, Option.some.injEq, Prod.mk.injEq] at hv
      obtain ⟨rfl, rfl⟩ := hv
      exact ⟨rfl, hc'⟩
    · cases hs; exact ⟨_, .unlockC j h, rfl⟩
  | build j h => simp only [Option.some.injEq] at hs; subst hs; exact ⟨_, .build j h, rfl⟩
  | storeLow j h lo hg => simp only [Option.some.injEq] at hs; subst hs; exact ⟨_, .low j h lo hg, rfl⟩
  | storeHigh j h hg => simp only [Option.some.injEq] at hs; subst hs; exact ⟨_, .high j h hg, rfl⟩
  | storeMoved j h => simp only [Option.some.injEq] at hs; subst hs; exact ⟨_, .marker j h, rfl⟩
  | unlock j h => simp only [Option.some.injEq] at hs; subst hs; exact ⟨_, .unlockU j h, rfl⟩
  | commit =>
    simp only at hs
    split at hs
    · rename_i hc
      cases hs; exact ⟨none, .commit hc.1 hc.2, rfl⟩
    · cases hs
      exact ⟨none, .tick none (fun h => h) (fun _ h => by cases h) (fun _ _ _ h => by cases h), rfl⟩

/-! ## the complete invariant -/

/-- how a helper's program counter constrains the ghost and the two children of the cell it has split -/
def PcMidH (n : BinN.State) (G : Ghost) : HPc → Prop
  | .storeLow j _ lo hg => ∃ fr, G.mid j = some (lo, hg, fr) ∧ cellAt n (n.cur + 1) j = .empty ∧
      cellAt n (n.cur + 1) (j + 2 ^ n.cur) = .empty
  | .storeHigh j _ hg => ∃ lo fr, G.mid j = some (lo, hg, fr) ∧ cellAt n (n.cur + 1) j = cellOfHead lo ∧
      cellAt n (n.cur + 1) (j + 2 ^ n.cur) = .empty
  | .storeMoved j _ => ∃ lo hg fr, G.mid j = some (lo, hg, fr) ∧ cellAt n (n.cur + 1) j = cellOfHead lo ∧
      cellAt n (n.cur + 1) (j + 2 ^ n.cur) = cellOfHead hg
  | _ => True

theorem pcMidH_of_not_mid (n : BinN.State) (G : Ghost) {pc : HPc} (h : ¬ midPc pc) : PcMidH n G pc := by
  cases pc <;> first | trivial | exact absurd trivial h

structure Full (s : State) (G : Ghost) : Prop where
  base : Inv s
  inv : BinNHM.Inv s.n G
  pcMid : ∀ (t : Nat) (hp : Helper), s.hs[t]? = some (some hp) → PcMidH s.n G hp.pc
  midHas : ∀ j, IsMid G j → ∃ (t : Nat) (hp : Helper), s.hs[t]? = some (some hp) ∧ isMidH hp.pc j

namespace Full
variable {s : State} {G : Ghost}

/-- a cell that is being split: a helper of generation `cur` holds the validated lock of its head -/
theorem mid_lock (F : Full s G) {j : Nat} (hm : IsMid G j) :
    ∃ (t : Nat) (hp : Helper) (h : Nat), s.hs[t]? = some (some hp) ∧ isMidH hp.pc j ∧ hvalid hp.pc = some (j, h) ∧
      hp.g = s.n.cur ∧ cellAt s.n s.n.cur j = .node h ∧ lockAt s.n.heap h = some t := by
  obtain ⟨t, hp, hh, hmid⟩ := F.midHas j hm
  obtain ⟨h, hv⟩ := isMidH_hvalid hmid
  have H := F.base.hok t hp hh
  obtain ⟨e, -⟩ := H.valid_cur F.base.gen hv
  exact ⟨t, hp, h, hh, hmid, hv, e, by rw [← e]; exact H.valid j h hv, (H.held h (hvalid_holds hv).1).2⟩

/-- a thread that is not a helper does not hold the bin lock of a cell that is being split -/
theorem rw_not_lock (F : Full s G) {t : Nat} (hh : s.hs[t]? = some none) :
    ∀ j h, IsMid G j → cellAt s.n s.n.cur j = .node h → lockAt s.n.heap h ≠ some t := by
  intro j h hm hc hlk
  obtain ⟨t', hp, h', hh', -, -, -, hc', hlk'⟩ := F.mid_lock hm
  rw [hc] at hc'; cases hc'
  rw [hlk] at hlk'
  cases hlk'
  rw [hh] at hh'; cases hh'

/-- the cell a helper holds a validated lock on is recorded as being split only if that helper is in its
middle phase -/
theorem mid_none_of (F : Full s G) {t : Nat} {hp : Helper} {j h : Nat} (hh : s.hs[t]? = some (some hp))
    (hv : hvalid hp.pc = some (j, h)) (hnm : ¬ midPc hp.pc) : G.mid j = none := by
  cases hm : G.mid j with
  | none => rfl
  | some x =>
    exfalso
    have him : IsMid G j := by unfold IsMid; rw [hm]; rfl
    obtain ⟨t', hp', h', hh', hmid', hv', e', hc', hlk'⟩ := F.mid_lock him
    have H := F.base.hok t hp hh
    obtain ⟨e, -⟩ := H.valid_cur F.base.gen hv
    have hc := H.valid j h hv
    rw [e, hc'] at hc
    cases hc
    have := (H.held _ (hvalid_holds hv).1).2
    rw [hlk'] at this
    cases this
    rw [hh] at hh'; cases hh'
    exact hnm (isMidH_midPc hmid')

/-- no split is under way outside a resize -/
theorem mid_none_of_not_resizing (F : Full s G) (hr : s.n.resizing = false) (j : Nat) : G.mid j = none := by
  cases hm : G.mid j with
  | none => rfl
  | some x =>
    exfalso
    have him : IsMid G j := by unfold IsMid; rw [hm]; rfl
    obtain ⟨t', hp', h', hh', -, -, e', -, -⟩ := F.mid_lock him
    have := (F.base.hok t' hp' hh').res e'
    rw [hr] at this; cases this

/-- no split is under way when every cell is forwarded -/
theorem mid_none_of_allMoved (F : Full s G) (hall : ∀ j, j < 2 ^ s.n.cur → cellAt s.n s.n.cur j = .moved) (j : Nat) :
    G.mid j = none := by
  cases hm : G.mid j with
  | none => rfl
  | some x =>
    exfalso
    obtain ⟨hj, ⟨h, hc⟩, -⟩ := F.inv.heap.mid j x.1 x.2.1 x.2.2 hm
    rw [hall j hj] at hc; cases hc

end Full

end Flurry.Proto.BinNH
