import Flurry.Lemmas.BinGNPGhost
import Flurry.Lemmas.LinTrace
/-! # Proto/BinGN (port of `Lemmas/BinGGhostL.lean`): ghost history and the hindsight invariant of the list
walkers — lemmas

Verbatim, except for what concerns `Foreign` (now: a node on the chain of ANY cell `id` in which `k` does not live):
* `HInv.foreign_key` is argued with `HInv.side` (`key % 2^id.1 = id.2 ≠ k % 2^id.1`); `foreign_suffix` is stated for
  the chain of an arbitrary cell `id` with `k % 2^id.1 ≠ id.2` (BinG: `cell0 = moved`, the cell `otherId k`);
* `otherId`, `sideOf_otherId`, `sideOf_idOf_new`, `otherId_ne_c0`, `idOf_new_ne_c0` are gone;
* `liveCell_eq` (BinG: from `HInv`) needs `XInv` here (it is in `Lemmas/BinGNPInvBasic.lean`); the lemmas that only
  need SOME cell of `k` (`HInv.liveLC`, `used_of_LC`) use `liveCell_exists` and keep `HInv` alone;
* a foreign node CAN be on the live chain (a re-used node of a child already stored by the transfer of the cell that
  is still live for `k`): `HInv.foreign_not_LC` holds only for a foreign cell of a generation `≤` the one of the live
  cell, and `Good.absWit_of_foreign_or_none` asks for `c ∉ LC s k`.

The lemmas about the definitions of `Lemmas/BinGNPGhost.lean`:
* the extended history `callsOnExt` (as in `Lemmas/BinKGhost.lean`);
* `HInv.liveLC`: the live chain of a key is a `Live` chain; foreign nodes (`HInv.foreign_key`,
  `HInv.foreign_next`, `HInv.foreign_not_LC`);
* the walker lemmas `Good.first`, `Good.next`, `Good.hit`, `Good.miss`;
* **hindsight** `Good.step`: the justification of a list walker survives every `KStep`;
* `ValWit.kstep`; `GInv.frame`, `GInv.linearizable`; `KStep.of_same`. -/
namespace Flurry.Proto.BinGNP
open Flurry.Lin
open Flurry.Proto.BinK (nodeAt binAt NextOK IsChain IsSeg chainOf CInv absL AbsWit OnCond ValWit Sim CallOK nextA
  Live absWit_now onCond_succ nextA_old nextA_new pair_sublist_iff absL_eq_none_iff absL_eq_some_iff
  get_set get_set_ne get_set_self nodeAt_of_some getElem?_nodeAt)

/-! ## the extended history -/

theorem extOf_eq_some {k now t : Nat} {l : Local} {c : Call} :
    extOf k now t l = some c ↔ ∃ res p, resOfPc l.pc = some res ∧ l.call = some p ∧ p.key = k ∧
      c = ⟨t, p.op, res, p.inv, now⟩ := by
  obtain ⟨pc, call⟩ := l
  unfold extOf
  constructor
  · intro h
    split at h
    · rename_i res p hpc hcall
      simp only at hpc hcall
      split at h
      · cases h
        exact ⟨res, p, hpc, hcall, by assumption, rfl⟩
      · cases h
    · cases h
  · rintro ⟨res, p, hpc, hcall, hk, rfl⟩
    simp only at hpc hcall
    rw [hpc, hcall]
    simp [hk]

theorem extOf_none_of_pc {k now t : Nat} {l : Local} (h : resOfPc l.pc = none) :
    extOf k now t l = none := by
  cases he : extOf k now t l with
  | none => rfl
  | some c =>
    obtain ⟨res, p, hpc, -⟩ := extOf_eq_some.1 he
    rw [h] at hpc; cases hpc

theorem extOf_none_of_key {k now t : Nat} {l : Local} {p : Pending} (hp : l.call = some p) (hk : p.key ≠ k) :
    extOf k now t l = none := by
  cases he : extOf k now t l with
  | none => rfl
  | some c =>
    obtain ⟨res, p', -, hcall, hk', -⟩ := extOf_eq_some.1 he
    rw [hp] at hcall; cases hcall
    exact absurd hk' hk

theorem mem_callsOn {s : State} {k : Nat} {c : Call} : c ∈ callsOn s k ↔ (k, c) ∈ s.hist := by
  unfold callsOn
  simp only [List.mem_map, List.mem_reverse, List.mem_filter, beq_iff_eq]
  constructor
  · rintro ⟨⟨k', c'⟩, ⟨hm, hk⟩, hc⟩
    simp only at hk hc
    subst hk hc
    exact hm
  · intro h
    exact ⟨(k, c), ⟨h, rfl⟩, rfl⟩

theorem mem_extCalls {s : State} {k : Nat} {c : Call} :
    c ∈ extCalls s k ↔ ∃ t l, s.threads[t]? = some l ∧ extOf k s.now t l = some c := by
  unfold extCalls
  simp only [List.mem_filterMap, List.mem_range, Option.bind_eq_some_iff]
  constructor
  · rintro ⟨t, _, l, hl, he⟩; exact ⟨t, l, hl, he⟩
  · rintro ⟨t, l, hl, he⟩
    exact ⟨t, (List.getElem?_eq_some_iff.1 hl).1, l, hl, he⟩

theorem mem_callsOnExt {s : State} {k : Nat} {c : Call} :
    c ∈ callsOnExt s k ↔ (k, c) ∈ s.hist ∨ ∃ t l, s.threads[t]? = some l ∧ extOf k s.now t l = some c := by
  unfold callsOnExt
  rw [List.mem_append, mem_callsOn, mem_extCalls]

theorem callsOnExt_quiescent {s : State} (hq : quiescent s) (k : Nat) : callsOnExt s k = callsOn s k := by
  have : extCalls s k = [] := by
    rw [List.eq_nil_iff_forall_not_mem]
    intro c hc
    obtain ⟨t, l, hl, he⟩ := mem_extCalls.1 hc
    obtain ⟨res, p, hpc, -⟩ := extOf_eq_some.1 he
    rw [hq l (List.mem_of_getElem? hl)] at hpc
    cases hpc
  rw [callsOnExt, this, List.append_nil]

theorem extOf_bump {k now now' t : Nat} {l : Local} {c' : Call} (hle : now ≤ now')
    (h : extOf k now' t l = some c') : ∃ c, extOf k now t l = some c ∧ Sim c c' := by
  obtain ⟨res, p, hpc, hcall, hk, rfl⟩ := extOf_eq_some.1 h
  exact ⟨⟨t, p.op, res, p.inv, now⟩, extOf_eq_some.2 ⟨res, p, hpc, hcall, hk, rfl⟩,
    rfl, rfl, rfl, rfl, hle⟩

theorem extOf_bump' {k now now' t : Nat} {l : Local} {c : Call} (hle : now ≤ now')
    (h : extOf k now t l = some c) : ∃ c', extOf k now' t l = some c' ∧ Sim c c' := by
  obtain ⟨res, p, hpc, hcall, hk, rfl⟩ := extOf_eq_some.1 h
  exact ⟨⟨t, p.op, res, p.inv, now'⟩, extOf_eq_some.2 ⟨res, p, hpc, hcall, hk, rfl⟩,
    rfl, rfl, rfl, rfl, hle⟩

/-- where the calls of the successor state come from -/
theorem ext_backward {s s' : State} {t : Nat} {l' : Local} {hnew : List (Nat × Call)} {k : Nat}
    (hthr : s'.threads = s.threads.set t l') (hnow : s'.now = s.now + 1)
    (hhist : s'.hist = hnew ++ s.hist) :
    ∀ c' ∈ callsOnExt s' k, (∃ c ∈ callsOnExt s k, Sim c c') ∨ (k, c') ∈ hnew ∨
      extOf k (s.now + 1) t l' = some c' := by
  intro c' hc'
  rcases mem_callsOnExt.1 hc' with hc' | ⟨t1, l1, hl1, he1⟩
  · rw [hhist] at hc'
    rcases List.mem_append.1 hc' with hc' | hc'
    · exact Or.inr (Or.inl hc')
    · exact Or.inl ⟨c', mem_callsOnExt.2 (Or.inl hc'), Sim.refl _⟩
  · rw [hthr] at hl1
    rw [hnow] at he1
    rcases get_set hl1 with ⟨rfl, rfl⟩ | ⟨_, hl1⟩
    · exact Or.inr (Or.inr he1)
    · obtain ⟨c, hc, hsim⟩ := extOf_bump (Nat.le_succ s.now) he1
      exact Or.inl ⟨c, mem_callsOnExt.2 (Or.inr ⟨t1, l1, hl1, hc⟩), hsim⟩

/-- where the calls of the predecessor state go -/
theorem ext_forward {s s' : State} {t : Nat} {l l' : Local} {hnew : List (Nat × Call)} {k : Nat}
    (hl : s.threads[t]? = some l)
    (hthr : s'.threads = s.threads.set t l') (hnow : s'.now = s.now + 1)
    (hhist : s'.hist = hnew ++ s.hist) :
    ∀ c ∈ callsOnExt s k, (∃ c' ∈ callsOnExt s' k, Sim c c') ∨ extOf k s.now t l = some c := by
  intro c hc
  rcases mem_callsOnExt.1 hc with hc | ⟨t1, l1, hl1, he1⟩
  · refine Or.inl ⟨c, mem_callsOnExt.2 (Or.inl ?_), Sim.refl _⟩
    rw [hhist]; exact List.mem_append_right _ hc
  · by_cases ht : t1 = t
    · subst ht
      rw [hl] at hl1; cases hl1
      exact Or.inr he1
    · obtain ⟨c', hc', hsim⟩ := extOf_bump' (Nat.le_succ s.now) he1
      refine Or.inl ⟨c', mem_callsOnExt.2 (Or.inr ⟨t1, l1, ?_, ?_⟩), hsim⟩
      · rw [hthr, get_set_ne ht]; exact hl1
      · rw [hnow]; exact hc'

theorem callsOnExt_resp_le {s : State} (T : TInv s) {k : Nat} {c : Call} (hc : c ∈ callsOnExt s k) :
    c.resp ≤ s.now := by
  rcases mem_callsOnExt.1 hc with hc | ⟨t1, l1, _, he1⟩
  · exact (T.histTime _ hc).2
  · obtain ⟨res, p, -, -, -, rfl⟩ := extOf_eq_some.1 he1
    exact Nat.le_refl _

/-- the pending call of a thread that is not counted in the extended history is different from
every call of the extended history -/
theorem inv_ne_of_mem_callsOnExt {s : State} (T : TInv s) {t : Nat} {l : Local} {p : Pending} {k : Nat}
    (hl : s.threads[t]? = some l) (hp : l.call = some p) (hnone : extOf k s.now t l = none)
    {c : Call} (hc : c ∈ callsOnExt s k) : c.inv ≠ p.inv := by
  rcases mem_callsOnExt.1 hc with hc | ⟨t1, l1, hl1, he1⟩
  · exact T.uniqHP _ hc t l p hl hp
  · obtain ⟨res, p1, hpc1, hcall1, -, rfl⟩ := extOf_eq_some.1 he1
    intro he
    have := T.uniqPP t1 t l1 l p1 p hl1 hl hcall1 hp he
    subst this
    rw [hl] at hl1; cases hl1
    rw [hnone] at he1; cases he1

theorem callsOnExt_pairwise {s : State} (T : TInv s) (k : Nat) :
    (callsOnExt s k).Pairwise (fun c d => c.inv ≠ d.inv) := by
  unfold callsOnExt
  refine List.pairwise_append.2 ⟨?_, ?_, ?_⟩
  · unfold callsOn
    rw [List.pairwise_map, List.pairwise_reverse]
    refine (T.uniqHH.filter _).imp ?_
    intro a b hab; exact fun h => hab h.symm
  · unfold extCalls
    refine List.Pairwise.filterMap _ ?_ (List.pairwise_lt_range)
    intro t1 t2 hlt c1 hc1 c2 hc2
    obtain ⟨l1, hl1, he1⟩ := Option.bind_eq_some_iff.1 hc1
    obtain ⟨l2, hl2, he2⟩ := Option.bind_eq_some_iff.1 hc2
    obtain ⟨_, p1, _, hcall1, _, rfl⟩ := extOf_eq_some.1 he1
    obtain ⟨_, p2, _, hcall2, _, rfl⟩ := extOf_eq_some.1 he2
    intro he
    have := T.uniqPP t1 t2 l1 l2 p1 p2 hl1 hl2 hcall1 hcall2 he
    omega
  · intro c hc d hd
    obtain ⟨t1, l1, hl1, he1⟩ := mem_extCalls.1 hd
    obtain ⟨_, p1, _, hcall1, _, rfl⟩ := extOf_eq_some.1 he1
    exact T.uniqHP _ (mem_callsOn.1 hc) t1 l1 p1 hl1 hcall1

/-! ## the live chain and the foreign chain -/

theorem LC_eq (s : State) (k : Nat) : LC s k = chainOf s.heap (startOf s.tbins (liveCell s k)) := rfl

theorem liveFrom_exists (s : State) (k : Nat) : ∀ fuel g, ∃ g', liveFrom s k fuel g = cellAt s (idOf g' k)
  | 0, g => ⟨g, rfl⟩
  | fuel + 1, g => by
    unfold liveFrom
    split
    · exact liveFrom_exists s k fuel (g + 1)
    · exact ⟨g, rfl⟩

/-- the live cell of `k` is the cell of `k` in some generation (`HInv` alone does not say which; with `XInv`: `liveCell_eq`) -/
theorem liveCell_exists (s : State) (k : Nat) : ∃ g, liveCell s k = cellAt s (idOf g k) :=
  liveFrom_exists s k _ _

theorem HInv.liveLC {s : State} (H : HInv s) (k : Nat) :
    Live s.heap (startOf s.tbins (liveCell s k)) (LC s k) := by
  obtain ⟨g, hg⟩ := liveCell_exists s k
  have C := H.cinv (idOf g k)
  rw [← hg] at C
  exact ⟨C.nextOK, C.isChain, C.distinct⟩

theorem HInv.foreign_key {s : State} (H : HInv s) {k c : Nat} (h : Foreign s k c) :
    (nodeAt s.heap c).key ≠ k := by
  intro hk
  obtain ⟨id, hc, hno⟩ := h
  have := H.side id c (Or.inl hc)
  rw [hk] at this
  exact hno this

theorem HInv.foreign_lt {s : State} (H : HInv s) {k c : Nat} (h : Foreign s k c) : c < s.heap.length := by
  obtain ⟨id, hc, -⟩ := h
  exact (H.cinv id).chain_lt hc

theorem HInv.foreign_next {s : State} (H : HInv s) {k c : Nat} (h : Foreign s k c) :
    c < s.heap.length ∧ ∀ n, (nodeAt s.heap c).next = some n → Foreign s k n := by
  refine ⟨H.foreign_lt h, ?_⟩
  intro n hn
  obtain ⟨id, hc, hno⟩ := h
  have hch := (H.cinv id).isChain
  obtain ⟨l1, l2, nd, hL, hnd, _, _⟩ := hch.at_mem hc
  have hnx : nd.next = l2.head? := (hL ▸ hch).next_eq hnd
  rw [nodeAt_of_some hnd, hnx] at hn
  refine ⟨id, ?_, hno⟩
  unfold chainC
  rw [hL]
  cases l2 with
  | nil => cases hn
  | cons b l2' =>
    simp only [List.head?_cons, Option.some.injEq] at hn
    subst hn
    simp

theorem liveId_moved {s : State} {k : Nat} (hm : cellAt s (idOf s.cur k) = .moved) : liveId s k = idOf (s.cur + 1) k := by
  unfold liveId; rw [if_pos hm]

/-- a foreign node of a generation not younger than the one of the live cell is not on the live chain (a foreign
node of a YOUNGER generation can be: a re-used node of the child `(cur+1, j')` already stored by the transfer of the
cell `(cur, j)` that is still the live cell of `k`) -/
theorem HInv.foreign_not_LC {s : State} (H : HInv s) {k c g : Nat} {id : Cid} (hg : liveCell s k = cellAt s (idOf g k))
    (hc : c ∈ chainC s (cellAt s id)) (hno : k % 2 ^ id.1 ≠ id.2) (hle : id.1 ≤ g) : c ∉ LC s k := by
  intro hc'
  unfold LC at hc'
  rw [hg] at hc'
  have h1 := H.side (idOf g k) c (Or.inl hc')
  have h2 := H.side id c (Or.inl hc)
  apply hno
  rw [← h2]
  have hd : 2 ^ id.1 ∣ 2 ^ g := Nat.pow_dvd_pow 2 hle
  have h1' : (nodeAt s.heap c).key % 2 ^ g = k % 2 ^ g := h1
  rw [← Nat.mod_mod_of_dvd k hd, ← h1', Nat.mod_mod_of_dvd _ hd]

theorem used_of_LC {s : State} (_H : HInv s) {k c : Nat} (h : c ∈ LC s k) : Used s c := by
  unfold LC at h
  obtain ⟨g, hg⟩ := liveCell_exists s k
  rw [hg] at h
  exact Or.inl ⟨idOf g k, h⟩

theorem used_of_foreign {s : State} {k c : Nat} (h : Foreign s k c) : Used s c := by
  obtain ⟨id, hc, -⟩ := h
  exact Or.inl ⟨id, hc⟩


/-! ## the walker lemmas -/

/-- the pointer loaded from the start of the live chain -/
theorem Good.first {A : Nat → KSt} {k inv : Nat} {s : State} (H : HInv s) (hA : A s.now = absOf s k)
    (hinv : inv ≤ s.now) : Good A k inv s (startOf s.tbins (liveCell s k)) := by
  have V := H.liveLC k
  rw [absOf_eq] at hA
  generalize hst : startOf s.tbins (liveCell s k) = st at V
  cases st with
  | none =>
    refine .absent (absWit_now hA hinv ?_)
    rw [IsChain.start_none V.ch]
    intro i hi; cases hi
  | some h =>
    obtain ⟨l, hl⟩ := IsChain.start_some V.ch
    refine .on (by rw [hl]; simp) (Or.inl ?_)
    intro i hi
    have := (pair_sublist_iff (p := []) V.nodup (by rw [hl]; rfl) i).1 hi
    cases this

/-- the pointer loaded from the `next` cell of a node with another key -/
theorem Good.next {A : Nat → KSt} {k inv : Nat} {s : State} (H : HInv s) (hA : A s.now = absOf s k)
    (hinv : inv ≤ s.now) {c : Nat} (hg : Good A k inv s (some c)) (hk : (nodeAt s.heap c).key ≠ k) :
    Good A k inv s (nodeAt s.heap c).next := by
  rw [absOf_eq] at hA
  cases hg with
  | on hc hcond =>
    obtain ⟨h1, h2⟩ := onCond_succ (H.liveLC k) hA hinv hc hcond hk
    cases hnx : (nodeAt s.heap c).next with
    | none => exact .absent (h1 hnx)
    | some b => exact .on (h2 b hnx).1 (h2 b hnx).2
  | foreign hf hw =>
    cases hnx : (nodeAt s.heap c).next with
    | none => exact .absent hw
    | some b => exact .foreign ((H.foreign_next hf).2 b hnx) hw
  | off _ _ hnext _ => exact hnext hk

/-- a list walker that finds key `k` in node `c` -/
theorem Good.hit {A : Nat → KSt} {k inv : Nat} {s : State} (H : HInv s) (hA : A s.now = absOf s k)
    (hinv : inv ≤ s.now) {c : Nat} (hg : Good A k inv s (some c)) (hk : (nodeAt s.heap c).key = k) :
    ∃ τ, inv ≤ τ ∧ τ ≤ s.now ∧ A τ = some (nodeAt s.heap c).val := by
  rw [absOf_eq] at hA
  cases hg with
  | on hc _ =>
    exact ⟨s.now, hinv, Nat.le_refl _, by rw [hA]; exact (absL_eq_some_iff (H.liveLC k).dist).2 ⟨c, hc, hk, rfl⟩⟩
  | foreign hf _ => exact absurd hk (H.foreign_key hf)
  | off _ _ _ hval => exact hval hk

theorem Good.miss {A : Nat → KSt} {k inv : Nat} {s : State} (hg : Good A k inv s none) : AbsWit A inv s.now := by
  cases hg with
  | absent h => exact h

/-- a walker at the end of a list or on a foreign node that is not on the live chain: the key was absent at some
time of the call (BinG: a foreign node is never on the live chain; here see `HInv.foreign_not_LC`) -/
theorem Good.absWit_of_foreign_or_none {A : Nat → KSt} {k inv : Nat} {s : State} {cur : Option Nat}
    (_H : HInv s) (hg : Good A k inv s cur)
    (h : cur = none ∨ ∃ c, cur = some c ∧ Foreign s k c ∧ c ∉ LC s k) :
    AbsWit A inv s.now := by
  rcases h with rfl | ⟨c, rfl, hf, hnl⟩
  · exact hg.miss
  · cases hg with
    | on hc _ => exact absurd hc hnl
    | foreign _ hw => exact hw
    | off hnu _ _ _ => exact absurd (used_of_foreign hf) hnu

/-! ## hindsight: the justification of a list walker survives every transition -/

/-- a walker on the live chain stays justified as long as its node stays on it -/
theorem onCond_kstep {A A' : Nat → KSt} {k inv : Nat} {s s' : State} {c : Nat}
    (hs : KStep s s' k) (hnow : s'.now = s.now + 1) (hc : c ∈ LC s k) (hc' : c ∈ LC s' k)
    (hcond : OnCond A k inv s.now s.heap (LC s k) c)
    (hA' : ∀ τ, τ ≤ s.now → A' τ = A τ) (hA : A s.now = absL s.heap (LC s k) k) (hinv : inv ≤ s.now) :
    OnCond A' k inv s'.now s'.heap (LC s' k) c := by
  rw [hnow]
  rcases hcond with h1 | hw
  · by_cases hex : ∃ i, List.Sublist [i, c] (LC s' k) ∧ (nodeAt s'.heap i).key = k
    · obtain ⟨i, hi, hik⟩ := hex
      rcases hs.before c hc hc' i hi with ⟨i0, hi0, hk0⟩ | hall
      · exact absurd (hk0.trans hik) (h1 i0 hi0)
      · right
        refine (absWit_now hA hinv ?_).step hA'
        intro i0 hi0; rw [← hik]; exact hall i0 hi0
    · left
      intro i hi hik
      exact hex ⟨i, hi, hik⟩
  · exact Or.inr (hw.step hA')

/-- the nodes of a suffix of the old live chain stay justified: those that stay on the chain as
before, those that leave it as dead nodes — or, at the forwarding, as foreign nodes -/
theorem good_suffix {A A' : Nat → KSt} {k inv : Nat} {s s' : State}
    (H : HInv s) (hs : KStep s s' k) (hnow : s'.now = s.now + 1)
    (hA' : ∀ τ, τ ≤ s.now → A' τ = A τ) (hA : A s.now = absL s.heap (LC s k) k) (hinv : inv ≤ s.now) :
    ∀ (l2 l1 : List Nat), LC s k = l1 ++ l2 → (l2 = [] → AbsWit A inv s.now) →
      (∀ c l2', l2 = c :: l2' → OnCond A k inv s.now s.heap (LC s k) c) →
      Good A' k inv s' l2.head?
  | [], _, _, hnil, _ => .absent (by rw [hnow]; exact (hnil rfl).step hA')
  | c :: l2', l1, hL, _, hcons => by
    have V := H.liveLC k
    have hc : c ∈ LC s k := by rw [hL]; simp
    have hcl := V.ch.lt_length c hc
    have hcond := hcons c l2' rfl
    simp only [List.head?_cons]
    by_cases hc' : c ∈ LC s' k
    · exact .on hc' (onCond_kstep hs hnow hc hc' hcond hA' hA hinv)
    · obtain ⟨hval, hnext, hdead⟩ := hs.leave c hc hc'
      have hkey := hs.key c hcl
      have hn := getElem?_nodeAt hcl
      have hnx : (nodeAt s.heap c).next = l2'.head? := by
        have hch := V.ch
        rw [hL] at hch
        exact hch.next_eq hn
      rcases hdead with hnu | ⟨hf, hrest⟩
      · refine .off hnu (by have := hs.len; omega) ?_ ?_
        · intro hk
          rw [hkey] at hk
          rw [hnext, hnx]
          obtain ⟨h1, h2⟩ := onCond_succ V hA hinv hc hcond hk
          refine good_suffix H hs hnow hA' hA hinv l2' (l1 ++ [c]) (by rw [hL]; simp) ?_ ?_
          · intro hnil
            apply h1
            rw [hnx, hnil]; rfl
          · intro b l3 hb
            refine (h2 b ?_).2
            rw [hnx, hb]; rfl
        · intro hk
          rw [hkey] at hk
          refine ⟨s.now, hinv, by omega, ?_⟩
          rw [hA' _ (Nat.le_refl _), hA, hval]
          exact (absL_eq_some_iff V.dist).2 ⟨c, hc, hk, rfl⟩
      · refine .foreign hf ?_
        rw [hnow]
        have hw : AbsWit A inv s.now := by
          rcases hcond with h1 | hw
          · refine absWit_now hA hinv ?_
            intro j hj
            by_cases hjc : List.Sublist [j, c] (LC s k)
            · exact h1 j hjc
            · exact hrest j hj hjc
          · exact hw
        exact hw.step hA'

/-- the nodes of a suffix of the foreign chain stay justified: as foreign nodes or as dead nodes -/
theorem foreign_suffix {A A' : Nat → KSt} {k inv : Nat} {s s' : State}
    (H : HInv s) (hs : KStep s s' k) (hnow : s'.now = s.now + 1)
    (hA' : ∀ τ, τ ≤ s.now → A' τ = A τ) (id : Cid) (hno : k % 2 ^ id.1 ≠ id.2) (hw : AbsWit A inv s.now) :
    ∀ (l2 l1 : List Nat), chainC s (cellAt s id) = l1 ++ l2 → Good A' k inv s' l2.head?
  | [], _, _ => .absent (by rw [hnow]; exact hw.step hA')
  | c :: l2', l1, hL => by
    have hw' : AbsWit A' inv s'.now := by rw [hnow]; exact hw.step hA'
    have hf : Foreign s k c := ⟨id, by rw [hL]; simp, hno⟩
    have hcl := H.foreign_lt hf
    simp only [List.head?_cons]
    rcases hs.foreign c hf with hf' | ⟨hnu, hnext⟩
    · exact .foreign hf' hw'
    · have hch : IsChain s.heap (startOf s.tbins (cellAt s id)) (chainC s (cellAt s id)) :=
        (H.cinv id).isChain
      have hnx : (nodeAt s.heap c).next = l2'.head? := by
        rw [hL] at hch
        exact hch.next_eq (getElem?_nodeAt hcl)
      refine .off hnu (by have := hs.len; omega) ?_ ?_
      · intro _
        rw [hnext, hnx]
        exact foreign_suffix H hs hnow hA' id hno hw l2' (l1 ++ [c]) (by rw [hL]; simp)
      · intro hk
        rw [hs.key c hcl] at hk
        exact absurd hk (H.foreign_key hf)

/-- **hindsight**: the justification of a list walker survives every transition -/
theorem Good.step {A A' : Nat → KSt} {k inv : Nat} {s s' : State} {cur : Option Nat}
    (hg : Good A k inv s cur) (H : HInv s) (H' : HInv s') (hs : KStep s s' k) (hnow : s'.now = s.now + 1)
    (hA' : ∀ τ, τ ≤ s.now → A' τ = A τ) (hA : A s.now = absOf s k) (hinv : inv ≤ s.now) :
    Good A' k inv s' cur := by
  have _ := H'
  rw [absOf_eq] at hA
  induction hg with
  | absent h => exact .absent (by rw [hnow]; exact h.step hA')
  | @on c hc hcond =>
    obtain ⟨l1, l2, hL⟩ := List.append_of_mem hc
    have := good_suffix H hs hnow hA' hA hinv (c :: l2) l1 hL (fun h => by cases h)
      (fun c' l2' h => by cases h; exact hcond)
    simpa using this
  | @foreign c hf hw =>
    obtain ⟨id, hc, hno⟩ := hf
    obtain ⟨l1, l2, hL⟩ := List.append_of_mem hc
    have := foreign_suffix H hs hnow hA' id hno hw (c :: l2) l1 hL
    simpa using this
  | @off c hnu hcl _ hval ih =>
    obtain ⟨hv, hn⟩ := hs.frozen c hcl hnu
    have hkey := hs.key c hcl
    refine .off (fun h => hnu (hs.stable c hcl h)) (by have := hs.len; omega) ?_ ?_
    · intro hk
      rw [hkey] at hk
      rw [hn]
      exact ih hk
    · intro hk
      rw [hkey] at hk
      obtain ⟨τ, h1, h2, h3⟩ := hval hk
      exact ⟨τ, h1, by omega, by rw [hA' _ h2, hv]; exact h3⟩

/-! ## the value cell a `get` is about to load -/

theorem ValWit.kstep {A A' : Nat → KSt} {k inv : Nat} {s s' : State} {i : Nat}
    (h : ValWit A k inv s.now s.heap i) (H' : HInv s') (hs : KStep s s' k)
    (hnow : s'.now = s.now + 1) (hA' : ∀ τ, τ ≤ s.now → A' τ = A τ) (hA'n : A' s'.now = absOf s' k)
    (hinv : inv ≤ s.now) : ValWit A' k inv s'.now s'.heap i := by
  obtain ⟨hk, hil, τ, h1, h2, h3⟩ := h
  have hkey := hs.key i hil
  refine ⟨by rw [hkey]; exact hk, by have := hs.len; omega, ?_⟩
  by_cases hv : (nodeAt s'.heap i).val = (nodeAt s.heap i).val
  · exact ⟨τ, h1, by omega, by rw [hA' _ h2, hv]; exact h3⟩
  · have hc := hs.valchg i hil hv hk
    refine ⟨s'.now, by omega, Nat.le_refl _, ?_⟩
    rw [hA'n, absOf_eq]
    exact (absL_eq_some_iff (H'.liveLC k).dist).2 ⟨i, hc, by rw [hkey]; exact hk, rfl⟩

/-! ## the ghost invariant -/

/-- the generic part of the preservation of `GInv` -/
theorem GInv.frame {k : Nat} {s s' : State} {A : Nat → KSt} {pt pt' : Nat → Nat} {i0 : Nat}
    (g : GInv k s A pt) (T : TInv s) (hnow : s'.now = s.now + 1)
    (hpt' : ∀ c ∈ callsOnExt s k, pt' c.inv = pt c.inv)
    (hF : ∀ c ∈ callsOnExt s k, ∃ c' ∈ callsOnExt s' k, Sim c c')
    (hB : ∀ c' ∈ callsOnExt s' k, (∃ c ∈ callsOnExt s k, Sim c c') ∨
      (c'.inv = i0 ∧ CallOK (nextA A s.now (absOf s' k)) pt' c' ∧ (isRead c'.op = false → pt' c'.inv = s.now + 1)))
    (hchg : absOf s' k ≠ absOf s k → ∃ c' ∈ callsOnExt s' k, isRead c'.op = false ∧ pt' c'.inv = s.now + 1)
    (hreaders : ∀ (t : Nat) (l : Local) (p : Pending), s'.threads[t]? = some l →
      l.call = some p → p.key = k → RdOK (nextA A s.now (absOf s' k)) k p.inv s' l.pc) :
    GInv k s' (nextA A s.now (absOf s' k)) pt' := by
  have hold : ∀ τ, τ ≤ s.now → nextA A s.now (absOf s' k) τ = A τ := fun τ h => nextA_old h
  refine ⟨?_, ?_, ?_, ?_, ?_, hreaders⟩
  · rw [hold 0 (Nat.zero_le _)]; exact g.h0
  · rw [hnow, nextA_new]
  · intro c' hc'
    rcases hB c' hc' with ⟨c, hc, hsim⟩ | ⟨-, hok, -⟩
    · exact (g.calls c hc).sim hsim (callsOnExt_resp_le T hc) hold (hpt' c hc)
    · exact hok
  · intro τ h1 h2 hne
    rw [hnow] at h2
    rcases Nat.lt_or_ge τ (s.now + 1) with hlt | hge
    · rw [hold τ (by omega), hold (τ - 1) (by omega)] at hne
      obtain ⟨c, hc, hw, hp⟩ := g.stab τ h1 (by omega) hne
      obtain ⟨c', hc', hsim⟩ := hF c hc
      refine ⟨c', hc', by rw [hsim.2.1]; exact hw, ?_⟩
      rw [hsim.2.2.2.1, hpt' c hc]; exact hp
    · have hτ : τ = s.now + 1 := by omega
      subst hτ
      rw [nextA_new, Nat.add_sub_cancel, hold s.now (Nat.le_refl _), g.hA] at hne
      exact hchg hne
  · intro c' hc' d' hd' hwc hwd hpe
    rcases hB c' hc' with ⟨c, hc, hsc⟩ | ⟨hci, -, hcp⟩ <;> rcases hB d' hd' with ⟨d, hd, hsd⟩ | ⟨hdi, -, hdp⟩
    · rw [hsc.2.2.2.1, hsd.2.2.2.1]
      rw [hsc.2.2.2.1, hsd.2.2.2.1, hpt' c hc, hpt' d hd] at hpe
      exact g.inj c hc d hd (by rw [← hsc.2.1]; exact hwc) (by rw [← hsd.2.1]; exact hwd) hpe
    · exfalso
      have h1 := (g.calls c hc).2.1
      have h2 := callsOnExt_resp_le T hc
      rw [hsc.2.2.2.1, hpt' c hc, hdp hwd] at hpe
      omega
    · exfalso
      have h1 := (g.calls d hd).2.1
      have h2 := callsOnExt_resp_le T hd
      rw [hsd.2.2.2.1, hpt' d hd, hcp hwc] at hpe
      omega
    · rw [hci, hdi]

/-- from the ghost invariant to linearizability (the trace lemma) -/
theorem GInv.linearizable {k : Nat} {s : State} {A : Nat → KSt} {pt : Nat → Nat}
    (g : GInv k s A pt) (T : TInv s) : Linearizable (callsOnExt s k) none (absOf s k) := by
  have h := lin_of_trace (h := callsOnExt s k) A s.now (fun c => pt c.inv) ?_ ?_ ?_ ?_ ?_
  · rw [g.h0, g.hA] at h; exact h
  · intro c hc
    obtain ⟨h1, h2, -, -⟩ := g.calls c hc
    have := callsOnExt_resp_le T hc
    exact ⟨h1, h2, by omega⟩
  · intro c hc hw; exact (g.calls c hc).2.2.2 hw
  · intro c hc hrd; exact (g.calls c hc).2.2.1 hrd
  · refine (callsOnExt_pairwise T k).imp_of_mem ?_
    intro c d hc hd hne hwc hwd hpe
    exact hne (g.inj c hc d hd hwc hwd hpe)
  · intro τ h1 h2 hno
    apply Classical.byContradiction
    intro hne
    obtain ⟨c, hc, hw, hp⟩ := g.stab τ h1 h2 hne
    exact hno c hc hw hp

/-! ## transitions that change nothing a walker sees -/

theorem mem_chainFrom_lt {heap : List NodeS} : ∀ (fuel : Nat) (st : Option Nat) (i : Nat),
    i ∈ chainFrom heap fuel st → i < heap.length
  | 0, _, _, h => by simp [chainFrom] at h
  | _ + 1, none, _, h => by simp [chainFrom] at h
  | fuel + 1, some j, i, h => by
    simp only [chainFrom] at h
    cases hj : heap[j]? with
    | none => rw [hj] at h; simp at h
    | some n =>
      rw [hj] at h
      rcases List.mem_cons.1 h with rfl | h
      · exact (List.getElem?_eq_some_iff.1 hj).1
      · exact mem_chainFrom_lt fuel n.next i h

theorem mem_LC_lt {s : State} {k i : Nat} (h : i ∈ LC s k) : i < s.heap.length :=
  mem_chainFrom_lt _ _ _ h

/-- nothing a list walker sees changes: same live chain, old nodes keep key, value and `next`, no
dead node comes to life, foreign nodes stay foreign -/
theorem KStep.of_same {s s' : State} {k : Nat} (hlen : s.heap.length ≤ s'.heap.length)
    (hold : ∀ j, j < s.heap.length → (nodeAt s'.heap j).key = (nodeAt s.heap j).key ∧
      (nodeAt s'.heap j).val = (nodeAt s.heap j).val ∧ (nodeAt s'.heap j).next = (nodeAt s.heap j).next)
    (hLC : LC s' k = LC s k) (hused : ∀ j, j < s.heap.length → Used s' j → Used s j)
    (hfor : ∀ c, Foreign s k c → Foreign s' k c) : KStep s s' k := by
  refine ⟨hlen, fun j hj => (hold j hj).1, fun j hj _ => (hold j hj).2, hused, ?_, ?_, ?_,
    fun c hc => Or.inl (hfor c hc)⟩
  · intro c hc hc'
    rw [hLC] at hc'
    exact absurd hc hc'
  · intro c _ _ i hi
    rw [hLC] at hi
    have hil : i < s.heap.length := mem_LC_lt (hi.subset (by simp))
    exact Or.inl ⟨i, hi, ((hold i hil).1).symm⟩
  · intro j hj hne _
    exact absurd (hold j hj).2.1 hne

end Flurry.Proto.BinGNP
