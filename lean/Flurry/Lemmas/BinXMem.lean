import Flurry.Lemmas.BinXTransfer
/-! # Proto/BinX: mutual exclusion and the memory effect of every transition (C01, C10)

* `Inv.mutex`: at most one thread holds a validated lock on a cell (writers after their re-check,
  the transferring thread from `tBuild` to `tStoreMoved`).
* `MemStep`: the eight kinds of memory effects; `stepK_mem`: every transition is one of them, the
  heap invariant is preserved (with the new ghost state). -/
namespace Flurry.Proto.BinX
open Flurry.Lin

theorem Inv.mutex {s : State} {g : Ghost} (I : Inv s g) {t t1 : Nat} {l l1 : Local} {id : CellId} {h h1 : Nat}
    (hl : s.threads[t]? = some l) (hl1 : s.threads[t1]? = some l1)
    (hv : vcell l = some (id, h)) (hv1 : vcell l1 = some (id, h1)) : t = t1 := by
  obtain ⟨c1, k1⟩ := I.lock.validated t l id h hl hv
  obtain ⟨c2, k2⟩ := I.lock.validated t1 l1 id h1 hl1 hv1
  rw [c1] at c2
  cases c2
  have e1 := (I.lock.lockHeld t l h hl k1).2
  have e2 := (I.lock.lockHeld t1 l1 h hl1 k2).2
  rw [e1] at e2
  cases e2
  rfl

theorem vcell_mid {l : Local} (h : isMidPc l.pc) : ∃ h', vcell l = some (.c0, h') := by
  obtain ⟨pc, call⟩ := l
  cases pc <;> first | exact ⟨_, rfl⟩ | exact False.elim h

theorem vcell_cases {l : Local} {id : CellId} {h : Nat} (hv : vcell l = some (id, h)) :
    (∃ tab p, l.call = some p ∧ id = cellId tab p.key ∧ tabOf l.pc = some tab ∧ ¬ isT l.pc) ∨
    (id = .c0 ∧ isT l.pc) := by
  obtain ⟨pc, call⟩ := l
  unfold vcell at hv
  cases pc <;> cases call <;> simp only [reduceCtorEq] at hv <;>
    first
    | (left; simp only [Option.some.injEq, Prod.mk.injEq] at hv; exact ⟨_, _, rfl, hv.1.symm, rfl, by simp [isT]⟩)
    | (right; simp only [Option.some.injEq, Prod.mk.injEq] at hv; exact ⟨hv.1.symm, trivial⟩)

/-- a cell of the new table is only worked on after the forwarding -/
theorem Inv.post_of_new {s : State} {g : Ghost} (I : Inv s g) {t : Nat} {l : Local}
    (hl : s.threads[t]? = some l) (hT : ¬ isT l.pc) (htab : tabOf l.pc = some .new) : g.ph = .post := by
  have := I.ph.pcPh t l hl
  obtain ⟨pc, call⟩ := l
  cases pc <;> first | exact absurd trivial hT | exact this htab | (simp [tabOf] at htab)

theorem cellId_ne_c0 {tab : Tab} {k : Nat} (h : cellId tab k ≠ .c0) : tab = .new := by
  cases tab with
  | old => exact absurd rfl h
  | new => rfl

theorem cellId_new_ne_c0 (k : Nat) : cellId .new k ≠ .c0 := by
  unfold cellId; dsimp only; split <;> simp

/-- the cell a validated writer works on is active -/
theorem Inv.active_of_vcell {s : State} {g : Ghost} (I : Inv s g) {t : Nat} {l : Local} {id : CellId} {h : Nat}
    (hl : s.threads[t]? = some l) (hv : vcell l = some (id, h)) (hnm : ¬ isMidPc l.pc) : Active g id := by
  obtain ⟨hc, -⟩ := I.lock.validated t l id h hl hv
  by_cases hid : id = .c0
  · subst hid
    left
    refine ⟨rfl, ?_⟩
    cases hp : g.ph with
    | pre => rfl
    | mid lo hg =>
      obtain ⟨t1, l1, hl1, hm1⟩ := I.ph.midHas lo hg hp
      obtain ⟨h1, hv1⟩ := vcell_mid hm1
      have := I.mutex hl hl1 hv hv1
      subst this
      rw [hl] at hl1; cases hl1
      exact absurd hm1 hnm
    | post =>
      have := I.heap.post hp
      unfold getCell at hc
      rw [this] at hc; cases hc
  · right
    refine ⟨hid, ?_⟩
    rcases vcell_cases hv with ⟨tab, p, -, hid', htab, hT⟩ | ⟨h0, -⟩
    · rw [hid'] at hid
      rw [cellId_ne_c0 hid] at htab
      exact I.post_of_new hl hT htab
    · exact absurd h0 hid

/-- the cell of a successful lock-free CAS is active -/
theorem Inv.active_of_empty {s : State} {g : Ghost} (I : Inv s g) {t : Nat} {l : Local} {tab : Tab} {k : Nat}
    (hl : s.threads[t]? = some l) (hT : ¬ isT l.pc) (htab : tabOf l.pc = some tab)
    (he : getCell s (cellId tab k) = .empty) : Active g (cellId tab k) := by
  cases tab with
  | old =>
    left
    refine ⟨rfl, ?_⟩
    have he' : s.cell0 = .empty := he
    cases hp : g.ph with
    | pre => rfl
    | mid lo hg =>
      obtain ⟨⟨h, hc⟩, -⟩ := I.heap.mid lo hg hp
      rw [hc] at he'; cases he'
    | post =>
      have := I.heap.post hp
      rw [this] at he'; cases he'
  | new => exact Or.inr ⟨cellId_new_ne_c0 k, I.post_of_new hl hT htab⟩

/-- the kinds of memory effects of a transition of thread `t` (local state `l`) -/
inductive MemStep (s s' : State) (v : Option (CellId × Nat)) (g : Ghost) : Ghost → Prop
  | same : s'.heap = s.heap → s'.cell0 = s.cell0 → s'.lowCell = s.lowCell → s'.highCell = s.highCell →
      s'.cur = s.cur → MemStep s s' v g g
  | lock (i : Nat) (x : Option Nat) : s'.heap = s.heap.modify i (fun m => { m with lock := x }) →
      s'.cell0 = s.cell0 → s'.lowCell = s.lowCell → s'.highCell = s.highCell → s'.cur = s.cur →
      MemStep s s' v g g
  | upd (id : CellId) : Active g id → Effect s s' g id →
      (getCell s id = .empty ∨ ∃ h, v = some (id, h)) → MemStep s s' v g g
  | clear (id : CellId) (h : Nat) : Active g id → Update s s' g id [] → s'.heap = s.heap →
      v = some (id, h) → MemStep s s' v g g
  | build (h : Nat) : g.ph = .pre → v = some (.c0, h) → s.cell0 = .node h →
      s'.heap = (splitBin s.heap (chainFrom s.heap s.heap.length (some h))).1 →
      s'.cell0 = s.cell0 → s'.lowCell = s.lowCell → s'.highCell = s.highCell → s'.cur = s.cur →
      MemStep s s' v g ⟨.mid (splitBin s.heap (chainFrom s.heap s.heap.length (some h))).2.1
        (splitBin s.heap (chainFrom s.heap s.heap.length (some h))).2.2, (s.heap.length, s'.heap.length)⟩
  | storeNew (lo hg : Option Nat) : g.ph = .mid lo hg → s'.heap = s.heap → s'.cell0 = s.cell0 →
      (s'.lowCell = s.lowCell ∨ (s.lowCell = .empty ∧ s'.lowCell = cellOfHead lo)) →
      (s'.highCell = s.highCell ∨ (s.highCell = .empty ∧ s'.highCell = cellOfHead hg)) →
      s'.cur = s.cur → MemStep s s' v g g
  | casMoved : g.ph = .pre → s.cell0 = .empty → s'.heap = s.heap → s'.cell0 = .moved →
      s'.lowCell = s.lowCell → s'.highCell = s.highCell → s'.cur = s.cur → MemStep s s' v g ⟨.post, g.cr⟩
  | commit : g.ph = .post → s'.heap = s.heap → s'.cell0 = s.cell0 → s'.lowCell = s.lowCell →
      s'.highCell = s.highCell → MemStep s s' v g g
  | moved (h : Nat) (lo hg : Option Nat) : g.ph = .mid lo hg → v = some (.c0, h) →
      s.lowCell = cellOfHead lo → s.highCell = cellOfHead hg →
      s'.heap = s.heap → s'.cell0 = .moved →
      s'.lowCell = s.lowCell → s'.highCell = s.highCell → s'.cur = s.cur → MemStep s s' v g ⟨.post, g.cr⟩


theorem getCell_tick (s : State) (id : CellId) : getCell (tick s) id = getCell s id := by cases id <;> rfl

theorem chId_tick (s : State) (id : CellId) : chId (tick s) id = chId s id := by
  unfold chId; rw [getCell_tick]; rfl

theorem Effect.of_tick {s s' : State} {g : Ghost} {id : CellId} (e : Effect (tick s) s' g id) : Effect s s' g id := by
  obtain ⟨C', u, hs, hlk⟩ := e
  refine ⟨C', ?_, ?_, hlk⟩
  · refine ⟨u.nextOK, u.len, ?_, u.cur, u.notMoved, u.chain, ?_, u.keys, u.side⟩
    · intro id' hne; rw [u.cell id' hne, getCell_tick]
    · intro j hj hjc; exact u.other j hj (by rw [chId_tick]; exact hjc)
  · exact ⟨hs.len, hs.key, hs.ordS, hs.movedMono, hs.off, hs.lc, hs.unl⟩

theorem HInv.tick {s : State} {g : Ghost} (H : HInv s g) : HInv (tick s) g := H.congr rfl rfl rfl rfl rfl

theorem vcell_wStore {l : Local} {p : Pending} {tab : Tab} {h : Nat} {pred hit hnext : Option Nat}
    (hc : l.call = some p) (hpc : l.pc = .wStore tab h pred hit hnext) :
    vcell l = some (cellId tab p.key, h) := by
  obtain ⟨pc, call⟩ := l
  simp only at hc hpc
  subst hc hpc
  rfl

theorem vcell_wFind {l : Local} {p : Pending} {tab : Tab} {h : Nat} {pred cur : Option Nat}
    (hc : l.call = some p) (hpc : l.pc = .wFind tab h pred cur) :
    vcell l = some (cellId tab p.key, h) := by
  obtain ⟨pc, call⟩ := l
  simp only at hc hpc
  subst hc hpc
  rfl

/-- the store of a validated writer, in context -/
theorem Inv.store_ok {s : State} {g : Ghost} (I : Inv s g) {t : Nat} {l : Local} {p : Pending} {tab : Tab}
    {h : Nat} {pred hit hnext : Option Nat} (hl : s.threads[t]? = some l) (hp : l.call = some p)
    (hpc : l.pc = .wStore tab h pred hit hnext) :
    Active g (cellId tab p.key) ∧ StoreOK (tick s) g (cellId tab p.key) p (storeAt (tick s) tab p pred hit hnext) := by
  have hv := vcell_wStore hp hpc
  have act := I.active_of_vcell hl hv (by rw [hpc]; exact id)
  refine ⟨act, ?_⟩
  have hop := I.thr.opOK t l p hl hp
  rw [hpc] at hop
  have hw := I.walk.walk t l p hl hp
  rw [hpc] at hw
  obtain ⟨hc, -⟩ := I.lock.validated t l _ h hl hv
  have hne : chId (tick s) (cellId tab p.key) ≠ [] := by
    rw [chId_tick]
    unfold chId
    rw [hc]
    obtain ⟨l', hl'⟩ := chainH_node I.heap.nextOK (I.heap.headOK _ h hc)
    rw [hl']; simp
  refine store_effect I.heap.tick p hop act ?_ hne ?_
  · rw [chId_tick]
    have := hw.1
    rw [cellOf_eq] at this
    exact this
  · exact hw.2

/-- every transition is one of the memory effects -/
theorem stepK_mem {s s' : State} {g : Ghost} {t : Nat} {l : Local} (I : Inv s g)
    (hl : s.threads[t]? = some l) (hk : StepK s t l s') : ∃ g', MemStep s s' (vcell l) g g' := by
  cases hk with
  | idle hpc => exact ⟨g, .same rfl rfl rfl rfl rfl⟩
  | invoke k op hpc => exact ⟨g, .same rfl rfl rfl rfl rfl⟩
  | resize hpc hr => exact ⟨g, .same rfl rfl rfl rfl rfl⟩
  | move p pc' hp hm => exact ⟨g, .same rfl rfl rfl rfl rfl⟩
  | tmove pc' hp hm => exact ⟨g, .same rfl rfl rfl rfl rfl⟩
  | lockMove p h x pc' hp hm => exact ⟨g, .lock h x rfl rfl rfl rfl rfl⟩
  | tlockMove h x pc' hp hm => exact ⟨g, .lock h x rfl rfl rfl rfl rfl⟩
  | fin p res hp hf => exact ⟨g, .same rfl rfl rfl rfl rfl⟩
  | cas p tab v vi hp hpc hc hop =>
    rw [cellOf_eq] at hc
    have act := I.active_of_empty (k := p.key) hl (by rw [hpc]; exact id) (by rw [hpc]; rfl) hc
    obtain ⟨f1, f2, f3, f4, f5, f6⟩ := setCell_frame { tick s with heap := s.heap ++ [⟨p.key, (v, vi), none, none⟩] }
      tab p.key (.node s.heap.length)
    obtain ⟨he, -⟩ := cas_effect (s := s) (s' := finish (setCell { tick s with heap := s.heap ++ [⟨p.key, (v, vi), none, none⟩] }
      tab p.key (.node s.heap.length)) t p .none) (new := ⟨p.key, (v, vi), none, none⟩) I.heap act hc rfl
      (keyOn_cellId tab p.key) f1 (by
        intro id'
        have := getCell_setCell { tick s with heap := s.heap ++ [⟨p.key, (v, vi), none, none⟩] } tab p.key
          (.node s.heap.length) id'
        have e2 : getCell { tick s with heap := s.heap ++ [⟨p.key, (v, vi), none, none⟩] } id' = getCell s id' := by
          cases id' <;> rfl
        rw [e2] at this
        rw [← this]
        cases id' <;> rfl) f5
    exact ⟨g, .upd _ act he (Or.inl hc)⟩
  | store p tab h pred hit hnext hp hpc =>
    obtain ⟨act, he, hthr, hhist, hnow, hres, -, -⟩ := I.store_ok hl hp hpc
    refine ⟨g, .upd _ act ?_ (Or.inr ⟨h, vcell_wStore hp hpc⟩)⟩
    obtain ⟨C', u, hs, hlk⟩ := he.of_tick
    refine ⟨C', ?_, ?_, hlk⟩
    · exact ⟨u.nextOK, u.len, fun id' hne => by rw [← u.cell id' hne]; cases id' <;> rfl, u.cur,
        by intro hm; apply u.notMoved; rw [← hm]; cases (cellId tab p.key) <;> rfl,
        by have := u.chain; revert this; cases (cellId tab p.key) <;> exact id, u.other, u.keys, u.side⟩
    · exact ⟨hs.len, hs.key, hs.ordS, hs.movedMono, hs.off, hs.lc, hs.unl⟩
  | unlockFin p tab h res hp hpc => exact ⟨g, .lock h none rfl rfl rfl rfl rfl⟩
  | casMoved hp hpc hc =>
    have := I.ph.pcPh t l hl
    rw [hpc] at this
    exact ⟨_, .casMoved this hc rfl rfl rfl rfl rfl⟩
  | build h hp hpc =>
    have hph := I.ph.pcPh t l hl
    rw [hpc] at hph
    have hv : vcell l = some (.c0, h) := by
      obtain ⟨pc, call⟩ := l
      simp only at hpc; subst hpc; rfl
    obtain ⟨hc, -⟩ := I.lock.validated t l _ h hl hv
    exact ⟨_, .build h hph hv hc rfl rfl rfl rfl rfl⟩
  | storeLow h lo hg hp hpc =>
    have hph := I.ph.pcPh t l hl
    rw [hpc] at hph
    exact ⟨g, .storeNew lo hg hph.1 rfl rfl (Or.inr ⟨hph.2.1, rfl⟩) (Or.inl rfl) rfl⟩
  | storeHigh h hg hp hpc =>
    have hph := I.ph.pcPh t l hl
    rw [hpc] at hph
    obtain ⟨lo, h1, h2, h3⟩ := hph
    exact ⟨g, .storeNew lo hg h1 rfl rfl (Or.inl rfl) (Or.inr ⟨h3, rfl⟩) rfl⟩
  | storeMoved h hp hpc =>
    have hph := I.ph.pcPh t l hl
    rw [hpc] at hph
    obtain ⟨lo, hg, h1, h2, h3⟩ := hph
    have hv : vcell l = some (.c0, h) := by
      obtain ⟨pc, call⟩ := l
      simp only at hpc; subst hpc; rfl
    exact ⟨_, .moved h lo hg h1 hv h2 h3 rfl rfl rfl rfl rfl⟩
  | commit hp hpc =>
    have hph := I.ph.pcPh t l hl
    rw [hpc] at hph
    exact ⟨g, .commit hph rfl rfl rfl rfl⟩

theorem MemStep.hinv {s s' : State} {v : Option (CellId × Nat)} {g g' : Ghost} (H : HInv s g) (m : MemStep s s' v g g') :
    HInv s' g' := by
  cases m with
  | same hh h0 hL hH hc => exact H.congr hh h0 hL hH hc
  | lock i x hh h0 hL hH hc => exact (lock_effect H hh h0 hL hH hc).1
  | upd id act he _ =>
    obtain ⟨C', u, -, -⟩ := he
    exact hinv_update H act u
  | clear id h act u hh hv => exact hinv_update H act u
  | build h hp hv hc0 hh h0 hL hH hc => exact (build_effect H hp hc0 hh h0 hL hH hc).1
  | storeNew lo hg hp hh h0 hL hH hc => exact (storeNew_effect H hp hh h0 hL hH hc).1
  | casMoved hp hc0 hh h0 hL hH hc => exact (casMoved_effect H hp hc0 hh h0 hL hH hc).1
  | commit hp hh h0 hL hH => exact (commit_effect H hp hh h0 hL hH).1
  | moved h lo hg hp hv hlow hhigh hh h0 hL hH hc => exact (moved_effect H hp hlow hhigh hh h0 hL hH hc).1

/-- dead nodes stay dead -/
theorem MemStep.dead {s s' : State} {v : Option (CellId × Nat)} {g g' : Ghost} (H : HInv s g) (m : MemStep s s' v g g') :
    ∀ j, j < s.heap.length → ¬ Live s g.cr j → ¬ Live s' g'.cr j := by
  intro j hj hnl
  cases m with
  | same hh h0 hL hH hc => exact ((HeapStep.of_same (cr := g.cr) hh h0 hL hH hc).off j hj hnl).2.2
  | lock i x hh h0 hL hH hc => exact ((lock_effect H hh h0 hL hH hc).2.1.off j hj hnl).2.2
  | upd id act he _ =>
    obtain ⟨C', -, hs, -⟩ := he
    exact (hs.off j hj hnl).2.2
  | clear id h act u hh hv =>
    obtain ⟨hC, hO⟩ := u.chains H act
    rw [live_iff] at hnl ⊢
    rintro (⟨id', hm⟩ | ⟨hm, hcp⟩)
    · by_cases hid : id' = id
      · subst hid; rw [hC] at hm; cases hm
      · rw [hO id' hid] at hm; exact hnl (Or.inl ⟨id', hm⟩)
    · exact hnl (Or.inr ⟨fun h => hm ((u.cell0_moved_iff H act).2 h), hcp⟩)
  | build h hp hv hc0 hh h0 hL hH hc => exact ((build_effect H hp hc0 hh h0 hL hH hc).2.1.off j hj hnl).2.2
  | storeNew lo hg hp hh h0 hL hH hc => exact ((storeNew_effect H hp hh h0 hL hH hc).2.1.off j hj hnl).2.2
  | casMoved hp hc0 hh h0 hL hH hc => exact ((casMoved_effect H hp hc0 hh h0 hL hH hc).2.1.off j hj hnl).2.2
  | commit hp hh h0 hL hH => exact ((commit_effect H hp hh h0 hL hH).2.1.off j hj hnl).2.2
  | moved h lo hg hp hv hlow hhigh hh h0 hL hH hc =>
    intro hl
    apply hnl
    unfold Live at hl ⊢
    have e0 : chO s' = [] := by unfold chO; rw [h0]; exact chainH_moved _
    have eL : chL s' = chL s := by unfold chL; rw [hh, hL]
    have eH : chH s' = chH s := by unfold chH; rw [hh, hH]
    rw [e0, eL, eH] at hl
    rcases hl with hl | hl | hl | ⟨hl, _⟩
    · cases hl
    · exact Or.inr (Or.inl hl)
    · exact Or.inr (Or.inr (Or.inl hl))
    · exact absurd h0 hl

/-- the cells of the new table never hold a forwarding marker -/
theorem MemStep.newCells {s s' : State} {v : Option (CellId × Nat)} {g g' : Ghost} (_H : HInv s g) (m : MemStep s s' v g g')
    (h : s.lowCell ≠ .moved ∧ s.highCell ≠ .moved) : s'.lowCell ≠ .moved ∧ s'.highCell ≠ .moved := by
  have hupd : ∀ {id : CellId} {C' : List Nat}, Update s s' g id C' → s'.lowCell ≠ .moved ∧ s'.highCell ≠ .moved := by
    intro id C' u
    have key : ∀ id', getCell s id' ≠ .moved → getCell s' id' ≠ .moved := by
      intro id' h1
      by_cases hid : id' = id
      · subst hid; exact u.notMoved
      · rw [u.cell id' hid]; exact h1
    exact ⟨key .low h.1, key .high h.2⟩
  cases m with
  | same hh h0 hL hH hc => rw [hL, hH]; exact h
  | lock i x hh h0 hL hH hc => rw [hL, hH]; exact h
  | upd id act he _ =>
    obtain ⟨C', u, -, -⟩ := he
    exact hupd u
  | clear id h' act u hh hv => exact hupd u
  | build h' hp hv hc0 hh h0 hL hH hc => rw [hL, hH]; exact h
  | storeNew lo hg hp hh h0 hL hH hc =>
    refine ⟨?_, ?_⟩
    · rcases hL with hL | ⟨_, hL⟩
      · rw [hL]; exact h.1
      · rw [hL]; exact cellOfHead_ne_moved _
    · rcases hH with hH | ⟨_, hH⟩
      · rw [hH]; exact h.2
      · rw [hH]; exact cellOfHead_ne_moved _
  | casMoved hp hc0 hh h0 hL hH hc => rw [hL, hH]; exact h
  | commit hp hh h0 hL hH => rw [hL, hH]; exact h
  | moved h' lo hg hp hv hlow hhigh hh h0 hL hH hc => rw [hL, hH]; exact h

/-- the heap never shrinks -/
theorem MemStep.len_le {s s' : State} {v : Option (CellId × Nat)} {g g' : Ghost} (H : HInv s g) (m : MemStep s s' v g g') :
    s.heap.length ≤ s'.heap.length := by
  cases m with
  | same hh h0 hL hH hc => rw [hh]; exact Nat.le_refl _
  | lock i x hh h0 hL hH hc => rw [hh, List.length_modify]; exact Nat.le_refl _
  | upd id act he _ =>
    obtain ⟨C', u, -, -⟩ := he
    exact u.len
  | clear id h act u hh hv => exact u.len
  | build h hp hv hc0 hh h0 hL hH hc => exact (build_effect H hp hc0 hh h0 hL hH hc).2.2.2.2
  | storeNew lo hg hp hh h0 hL hH hc => rw [hh]; exact Nat.le_refl _
  | casMoved hp hc0 hh h0 hL hH hc => rw [hh]; exact Nat.le_refl _
  | commit hp hh h0 hL hH => rw [hh]; exact Nat.le_refl _
  | moved h lo hg hp hv hlow hhigh hh h0 hL hH hc => rw [hh]; exact Nat.le_refl _

/-- only lock / unlock change lock words -/
theorem MemStep.locks {s s' : State} {v : Option (CellId × Nat)} {g g' : Ghost} (H : HInv s g) (m : MemStep s s' v g g') :
    (∀ j, j < s.heap.length → (nodeAt s'.heap j).lock = (nodeAt s.heap j).lock) ∨
    ∃ i x, s'.heap = s.heap.modify i (fun m => { m with lock := x }) := by
  cases m with
  | same hh h0 hL hH hc => left; intro j _; rw [hh]
  | lock i x hh h0 hL hH hc => exact Or.inr ⟨i, x, hh⟩
  | upd id act he _ =>
    obtain ⟨C', -, -, hlk⟩ := he
    exact Or.inl hlk
  | clear id h act u hh hv => left; intro j _; rw [hh]
  | build h hp hv hc0 hh h0 hL hH hc =>
    left; intro j hj; rw [(build_effect H hp hc0 hh h0 hL hH hc).2.2.2.1 j hj]
  | storeNew lo hg hp hh h0 hL hH hc => left; intro j _; rw [hh]
  | casMoved hp hc0 hh h0 hL hH hc => left; intro j _; rw [hh]
  | commit hp hh h0 hL hH => left; intro j _; rw [hh]
  | moved h lo hg hp hv hlow hhigh hh h0 hL hH hc => left; intro j _; rw [hh]

theorem vcell_tab {l : Local} {id : CellId} {h : Nat} (hv : vcell l = some (id, h)) (hid : id ≠ .c0) :
    ¬ isT l.pc ∧ tabOf l.pc = some .new := by
  rcases vcell_cases hv with ⟨tab, p, -, hid', htab, hT⟩ | ⟨h0, -⟩
  · rw [hid'] at hid
    rw [cellId_ne_c0 hid] at htab
    exact ⟨hT, htab⟩
  · exact absurd h0 hid

/-- **frame** (thread-free form): a memory effect whose author is not validated on `id1` does not touch
the cell `id1` (which holds a node), its chain and its chain nodes -/
theorem MemStep.frame' {s s' : State} {g g' : Ghost} {v : Option (CellId × Nat)} (H : HInv s g)
    (m : MemStep s s' v g g') {id1 : CellId} {h1 : Nat} (hcell1 : getCell s id1 = .node h1)
    (hpost1 : id1 ≠ .c0 → g.ph = .post) (hexcl : ∀ h, v ≠ some (id1, h)) :
    getCell s' id1 = getCell s id1 ∧ chId s' id1 = chId s id1 ∧
      ∀ j ∈ chId s id1, (nodeAt s'.heap j).key = (nodeAt s.heap j).key ∧
        (nodeAt s'.heap j).next = (nodeAt s.heap j).next := by
  have hsame : ∀ {s'' : State}, s''.heap = s.heap → getCell s'' id1 = getCell s id1 →
      getCell s'' id1 = getCell s id1 ∧ chId s'' id1 = chId s id1 ∧
      ∀ j ∈ chId s id1, (nodeAt s''.heap j).key = (nodeAt s.heap j).key ∧
        (nodeAt s''.heap j).next = (nodeAt s.heap j).next := by
    intro s'' hh hc
    refine ⟨hc, by unfold chId; rw [hh, hc], fun j _ => by rw [hh]; exact ⟨rfl, rfl⟩⟩
  cases m with
  | same hh h0 hL hH hc => exact hsame hh (by cases id1 <;> assumption)
  | lock i x hh h0 hL hH hc =>
    obtain ⟨-, -, hch, -, hn⟩ := lock_effect H hh h0 hL hH hc
    exact ⟨by cases id1 <;> assumption, hch id1, fun j _ => hn j⟩
  | upd id act he hex =>
    obtain ⟨C', u, -, -⟩ := he
    have hid : id1 ≠ id := by
      rintro rfl
      rcases hex with he | ⟨h, hv⟩
      · rw [he] at hcell1; cases hcell1
      · exact hexcl h hv
    refine ⟨u.cell id1 hid, (u.chains H act).2 id1 hid, ?_⟩
    intro j hj
    rw [u.other j (H.chain_lt hj) (fun hm => H.disjoint act hid hm hj)]
    exact ⟨rfl, rfl⟩
  | clear id h act u hh hv =>
    have hid : id1 ≠ id := by
      rintro rfl
      exact hexcl h hv
    refine ⟨u.cell id1 hid, (u.chains H act).2 id1 hid, ?_⟩
    intro j _
    rw [hh]
    exact ⟨rfl, rfl⟩
  | build h hp hv hc0 hh h0 hL hH hc =>
    obtain ⟨H', -, -, hnode, hlen⟩ := build_effect H hp hc0 hh h0 hL hH hc
    have hcell : getCell s' id1 = getCell s id1 := by cases id1 <;> assumption
    refine ⟨hcell, ?_, fun j hj => by rw [hnode j (H.chain_lt hj)]; exact ⟨rfl, rfl⟩⟩
    refine chainH_eq H'.nextOK ?_
    rw [hcell]
    refine (H.isChain id1).congr ?_
    intro j hj n hn
    have hjl := H.chain_lt hj
    exact ⟨nodeAt s'.heap j, getElem?_nodeAt (by omega), by rw [hnode j hjl, nodeAt_of_some hn]⟩
  | storeNew lo hg hp hh h0 hL hH hc =>
    have hid : id1 = .c0 := by
      apply Classical.byContradiction
      intro hid
      have := hpost1 hid
      rw [hp] at this; cases this
    subst hid
    exact hsame hh h0
  | casMoved hp hc0 hh h0 hL hH hc =>
    have hid : id1 ≠ .c0 := by
      rintro rfl
      have : s.cell0 = .node h1 := hcell1
      rw [hc0] at this; cases this
    have := hpost1 hid
    rw [hp] at this; cases this
  | commit hp hh h0 hL hH => exact hsame hh (by cases id1 <;> assumption)
  | moved h lo hg hp hv hlow hhigh hh h0 hL hH hc =>
    by_cases hid : id1 = .c0
    · subst hid
      exact absurd hv (hexcl h)
    · have := hpost1 hid
      rw [hp] at this; cases this

/-- **frame**: a transition of thread `t` does not touch the cell, the chain and the chain nodes of a
cell on which another thread holds a validated lock -/
theorem MemStep.frame {s s' : State} {g g' : Ghost} {t t1 : Nat} {l l1 : Local} (I : Inv s g)
    (hl : s.threads[t]? = some l) (m : MemStep s s' (vcell l) g g') (hne : t1 ≠ t)
    (hl1 : s.threads[t1]? = some l1) {id1 : CellId} {h1 : Nat} (hv1 : vcell l1 = some (id1, h1)) :
    getCell s' id1 = getCell s id1 ∧ chId s' id1 = chId s id1 ∧
      ∀ j ∈ chId s id1, (nodeAt s'.heap j).key = (nodeAt s.heap j).key ∧
        (nodeAt s'.heap j).next = (nodeAt s.heap j).next := by
  obtain ⟨hcell1, -⟩ := I.lock.validated t1 l1 id1 h1 hl1 hv1
  refine m.frame' I.heap hcell1 ?_ ?_
  · intro hid
    obtain ⟨hT, htab⟩ := vcell_tab hv1 hid
    exact I.post_of_new hl1 hT htab
  · intro h hv
    exact hne (I.mutex hl1 hl hv1 hv)

end Flurry.Proto.BinX
