import Flurry.Lemmas.BinGExamples
import Flurry.Lemmas.BinGQuiescent
/-! # Proto/BinG at quiescence: kernel-checked instances (C05, non-vacuity)

The runs of `Lemmas/BinGExamples.lean`, looked at through `liveCells` / `entries`: quiescent?, the
three cells, the table pointer, the resize flag, the live cells, what an iterator yields, the abstract
state of the keys 0, 1, 2, every lock word free, the synchronisation words of every `TreeBin`. All by
`decide` (kernel evaluation of the model). -/
namespace Flurry.Proto.BinG
open Flurry.Lin

structure QView where
  quiescent : Bool
  cells : Cell × Cell × Cell
  cur : Tab
  resizing : Bool
  live : List Cell
  entries : List (Nat × (Nat × Nat))
  /-- the abstract state of the keys 0, 1, 2 -/
  abs : List KSt
  /-- every lock word of every node is free -/
  nodesUnlocked : Bool
  /-- mutex, write lock, waiter bit, readers of every `TreeBin` -/
  bins : List (Option Nat × Bool × Bool × Nat)
deriving DecidableEq, Repr

def qview (s : State) : QView :=
  ⟨quiescentB s, (s.cell0, s.lowCell, s.highCell), s.cur, s.resizing, liveCells s, entries s,
    (List.range 3).map (absOf s), s.heap.all (fun n => n.lock.isNone),
    s.tbins.map (fun b => (b.mutex, b.writer, b.waiter, b.readers))⟩

/-- before the resize (two inserts, one key per side, then a treeify): one live cell, the old one,
holding `TreeBin` 0; the cells of the next table are empty -/
theorem qview_before : (run step (init 4) setupBoth).map qview =
    some ⟨true, (.tree 0, .empty, .empty), .old, false, [.tree 0], [(1, (5, 100)), (0, (6, 101))],
      [some (6, 101), some (5, 100), none], true, [(none, false, false, 0)]⟩ := by decide

/-- after a tree-bin transfer that splits `TreeBin` 0 into two fresh `TreeBin`s (with a reader inside
the old bin all along, an update and a lookup in the new table): two live cells, key 0 in the low one,
key 1 in the high one, with the updated value -/
theorem qview_stale : (run step (init 4) schedStale).map qview =
    some ⟨true, (.moved, .tree 1, .tree 2), .new, true, [.tree 1, .tree 2], [(0, (6, 101)), (1, (7, 102))],
      [some (6, 101), some (7, 102), none], true,
      [(none, false, false, 0), (none, false, false, 0), (none, false, false, 0)]⟩ := by decide

/-- after a tree-bin transfer that re-uses the old `TreeBin` in the low cell (high side empty) -/
theorem qview_reuse : (run step (init 4) schedReuse).map qview =
    some ⟨true, (.moved, .tree 0, .empty), .new, true, [.tree 0, .empty], [(0, (5, 100)), (2, (7, 102))],
      [some (5, 100), none, some (7, 102)], true, [(none, false, false, 0)]⟩ := by decide

/-- after a tree-bin transfer into two plain lists (both sides small) -/
theorem qview_lists : (run step (init 4) schedLostLong).map qview =
    some ⟨true, (.moved, .list 4, .list 5), .new, true, [.list 4, .list 5], [(0, (6, 101)), (1, (7, 102))],
      [some (6, 101), some (7, 102), none], true, [(none, false, false, 0)]⟩ := by decide

theorem of_qview {sc : Sched} {v : QView} (h : (run step (init 4) sc).map qview = some v) (hq : v.quiescent = true) :
    ∃ s, Reachable 4 s ∧ quiescent s ∧ qview s = v := by
  cases hr : run step (init 4) sc with
  | none => rw [hr] at h; cases h
  | some s =>
    rw [hr] at h
    simp only [Option.map_some, Option.some.injEq] at h
    refine ⟨s, run_reachable _ .init hr, (quiescentB_iff s).1 ?_, h⟩
    have : (qview s).quiescent = true := by rw [h]; exact hq
    exact this

end Flurry.Proto.BinG
