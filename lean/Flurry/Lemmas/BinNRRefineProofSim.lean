import Flurry.Lemmas.BinNRInv2
import Flurry.Lemmas.BinNRRefine
import Flurry.Lemmas.BinNRRefineProofBatch
import Flurry.Lemmas.Reclaim2
/-! # Proto/BinNR → Proto/Reclaim2: the simulation relation `Sim` (the Prop version of `simB`) and the facts about the
concrete side that the refinement proof needs -/
namespace Flurry.Proto.BinNR
open Flurry.Lin
open Flurry.Proto.BinX (NodeS Cell Pending isReader nodeAt nodeAt_of_some get_set get_set_self get_set_ne)
open Flurry.Proto.BinN (Pc Local Ghost Inv HInv Live StepK)
open Flurry.Proto.Reclaim2 (OSt Ev acquirable active)

/-- the abstract object state describes the concrete node -/
def ObjRel (st : OSt) (unl : Option (List Nat)) (life : Life) (r : Bool) : Prop :=
  match st with
  | .fresh => unl = none ∧ life = .live ∧ r = false
  | .linked => unl = none ∧ life = .live ∧ r = true
  | .unlinked u => ∃ u', unl = some u' ∧ (∀ x, x ∈ u ↔ x ∈ u') ∧ life = .live
  | .retired u w => ∃ u' w', unl = some u' ∧ life = .retired w' ∧ (∀ x, x ∈ u ↔ x ∈ u') ∧ (∀ x, x ∈ w ↔ x ∈ w')
  | .freed => life = .freed

/-- the abstract state `a` of `Proto/Reclaim2` describes the concrete state `s` of `Proto/BinNR` -/
structure Sim (a : Reclaim2.State) (s : State) : Prop where
  nthr : a.nthreads = s.n.threads.length
  nobjs : a.nobjs = s.n.heap.length
  grd : ∀ t, a.guarded t = guarded s.n t
  hld : ∀ t, ∀ i ∈ holdsOf s.n t, i ∈ a.holds t
  obj : ∀ i, i < s.n.heap.length → ObjRel (a.objs i) (s.unl i) (s.life i) (reach s.n i)

theorem guarded_lt {n : BinN.State} {x : Nat} (h : guarded n x = true) : x < n.threads.length := by
  unfold guarded at h
  cases ht : n.threads[x]? with
  | none => rw [ht] at h; cases h
  | some l => exact (List.getElem?_eq_some_iff.1 ht).1

theorem Sim.mem_active {a : Reclaim2.State} {s : State} (S : Sim a s) {x : Nat} :
    x ∈ active a ↔ guarded s.n x = true := by
  unfold active
  rw [List.mem_filter, List.mem_range, S.grd x, S.nthr]
  exact ⟨fun h => h.2, fun h => ⟨guarded_lt h, h⟩⟩

theorem reach_false_of_not {n : BinN.State} {i : Nat} (h : ¬ Live0 n i) : reach n i = false := by
  cases hr : reach n i with
  | false => rfl
  | true => exact absurd ((reach_iff _ _).1 hr) h

theorem RInv.not_live0_of_unl {s : State} {G : Ghost} (R : RInv s G) {i : Nat} {u : List Nat}
    (hu : s.unl i = some u) : ¬ Live0 s.n i := fun h => (R.j1 i u hu).1 h.live

theorem RInv.unl_none_of_live0 {s : State} {G : Ghost} (R : RInv s G) {i : Nat} (h : Live0 s.n i) :
    s.unl i = none := by
  cases hu : s.unl i with
  | none => rfl
  | some u => exact absurd h (R.not_live0_of_unl hu)

/-- a reachable node is `linked` in the abstract state -/
theorem Sim.linked {a : Reclaim2.State} {s : State} {G : Ghost} (S : Sim a s) (R : RInv s G) {i : Nat}
    (h0 : Live0 s.n i) : a.objs i = .linked := by
  have hi := h0.lt R.inv.heap
  have h := S.obj i hi
  have hun := R.unl_none_of_live0 h0
  have hr := (reach_iff _ _).2 h0
  cases hst : a.objs i with
  | linked => rfl
  | fresh => rw [hst] at h; simp only [ObjRel] at h; rw [hr] at h; cases h.2.2
  | unlinked u => rw [hst] at h; simp only [ObjRel] at h; obtain ⟨u', h1, -⟩ := h; rw [hun] at h1; cases h1
  | retired u w => rw [hst] at h; simp only [ObjRel] at h; obtain ⟨u', w', h1, -⟩ := h; rw [hun] at h1; cases h1
  | freed =>
    rw [hst] at h; simp only [ObjRel] at h
    have := R.j4f i h; rw [hun] at this; cases this

/-- a node that has never been reachable nor unlinked is `fresh` -/
theorem Sim.fresh {a : Reclaim2.State} {s : State} {G : Ghost} (S : Sim a s) (R : RInv s G) {i : Nat}
    (hi : i < s.n.heap.length) (hun : s.unl i = none) (hr : reach s.n i = false) : a.objs i = .fresh := by
  have h := S.obj i hi
  cases hst : a.objs i with
  | fresh => rfl
  | linked => rw [hst] at h; simp only [ObjRel] at h; rw [hr] at h; cases h.2.2
  | unlinked u => rw [hst] at h; simp only [ObjRel] at h; obtain ⟨u', h1, -⟩ := h; rw [hun] at h1; cases h1
  | retired u w => rw [hst] at h; simp only [ObjRel] at h; obtain ⟨u', w', h1, -⟩ := h; rw [hun] at h1; cases h1
  | freed =>
    rw [hst] at h; simp only [ObjRel] at h
    have := R.j4f i h; rw [hun] at this; cases this

/-- an unlinked node that is still `live` is `unlinked` in the abstract state, with the same unlink-time set -/
theorem Sim.unlinked {a : Reclaim2.State} {s : State} (S : Sim a s) {i : Nat} {u' : List Nat}
    (hi : i < s.n.heap.length) (hun : s.unl i = some u') (hl : s.life i = .live) :
    ∃ u, a.objs i = .unlinked u ∧ ∀ x, x ∈ u ↔ x ∈ u' := by
  have h := S.obj i hi
  cases hst : a.objs i with
  | fresh => rw [hst] at h; simp only [ObjRel] at h; rw [hun] at h; cases h.1
  | linked => rw [hst] at h; simp only [ObjRel] at h; rw [hun] at h; cases h.1
  | unlinked u =>
    rw [hst] at h; simp only [ObjRel] at h
    obtain ⟨u1, h1, h2, -⟩ := h
    rw [hun] at h1; cases h1
    exact ⟨u, rfl, h2⟩
  | retired u w => rw [hst] at h; simp only [ObjRel] at h; obtain ⟨_, w', -, h2, -⟩ := h; rw [hl] at h2; cases h2
  | freed => rw [hst] at h; simp only [ObjRel] at h; rw [hl] at h; cases h

/-- whatever a thread may pick up concretely, it may `acquire` abstractly -/
theorem Sim.acquirable {a : Reclaim2.State} {s : State} {G : Ghost} (S : Sim a s) (R : RInv s G) {t i : Nat}
    (h : Live0 s.n i ∨ ∃ u, s.unl i = some u ∧ t ∈ u) : i < a.nobjs ∧ acquirable t (a.objs i) = true := by
  rw [S.nobjs]
  rcases h with h0 | ⟨u', hu, ht⟩
  · exact ⟨h0.lt R.inv.heap, by rw [S.linked R h0]; rfl⟩
  · have hi := (R.j1 i u' hu).2
    refine ⟨hi, ?_⟩
    have h := S.obj i hi
    cases hst : a.objs i with
    | fresh => rw [hst] at h; simp only [ObjRel] at h; rw [hu] at h; cases h.1
    | linked => rfl
    | unlinked u =>
      rw [hst] at h; simp only [ObjRel] at h
      obtain ⟨u1, h1, h2, -⟩ := h
      rw [hu] at h1; cases h1
      simp only [Reclaim2.acquirable, List.contains_iff_mem]; exact (h2 t).2 ht
    | retired u w =>
      rw [hst] at h; simp only [ObjRel] at h
      obtain ⟨u1, w1, h1, -, h2, -⟩ := h
      rw [hu] at h1; cases h1
      simp only [Reclaim2.acquirable, List.contains_iff_mem]; exact (h2 t).2 ht
    | freed =>
      rw [hst] at h; simp only [ObjRel] at h
      have := R.j4f i h; rw [hu] at this; cases this; cases ht

theorem acquirable_not_freed {t : Nat} {st : OSt} (h : acquirable t st = true) : st ≠ .freed := by
  intro e; rw [e] at h; cases h

/-- the pre-state justification of every node index in the program counter after the step -/
theorem RInv.pre_holds {s : State} {G : Ghost} (R : RInv s G) {t : Nat} {l : Local} {pick : Nat} {n' : BinN.State}
    (hl : s.n.threads[t]? = some l) (hK : StepK s.n t l pick n') :
    ∀ i ∈ holdsOf n' t, Live0 s.n i ∨ ∃ u, s.unl i = some u ∧ t ∈ u := by
  obtain ⟨l', hthr, hacq⟩ := acquire hK
  have H := R.inv.heap
  intro i hi
  unfold holdsOf at hi
  rw [hthr, get_set_self hl] at hi
  rcases hacq i hi with h | ⟨id, hc⟩ | ⟨c, hc, n, hn, hnx⟩
  · exact R.j2 t l i hl h
  · exact Or.inl (Live0.head H hc)
  · have hnx' : (nodeAt s.n.heap c).next = some i := by rw [nodeAt_of_some hn]; exact hnx
    rcases R.j2 t l c hl hc with h0 | ⟨u, hu, htu⟩
    · exact Or.inl (h0.succ H hnx')
    · rcases R.j3 c u i hu hnx' with h0 | ⟨ui, hui, hsub⟩
      · exact Or.inl h0
      · exact Or.inr ⟨ui, hui, hsub htu⟩

/-- the pre-state justification of every node the step dereferences -/
theorem RInv.pre_touches {s : State} {G : Ghost} (R : RInv s G) {t i : Nat} (hi : i ∈ touches s.n t) :
    (Live0 s.n i ∨ ∃ u, s.unl i = some u ∧ t ∈ u) ∧ guarded s.n t = true := by
  rcases touches_sub R.inv hi with ⟨l, hl, hh⟩ | h0
  · exact ⟨R.j2 t l i hl hh, guarded_of_holds hl hh⟩
  · refine ⟨Or.inl h0, ?_⟩
    unfold touches at hi
    unfold guarded
    cases hl : s.n.threads[t]? with
    | none => rw [hl] at hi; cases hi
    | some l =>
      rw [hl] at hi
      obtain ⟨pc, call⟩ := l
      cases pc <;> first | (simp at hi; done) | simp

/-- a step of an idle thread starts a guard or leaves the memory alone -/
theorem idle_step {n n' : BinN.State} {t : Nat} {l : Local} {pick : Nat} (hl : n.threads[t]? = some l)
    (hK : StepK n t l pick n') (hpc : guarded n t = false) :
    guarded n' t = true ∨ (n'.heap = n.heap ∧ n'.tabs = n.tabs) := by
  have hidle : l.pc = .idle := by
    unfold guarded at hpc; rw [hl] at hpc
    simpa using hpc
  obtain ⟨pc, call⟩ := l
  simp only at hidle
  subst hidle
  cases hK with
  | idle _ => exact Or.inr ⟨rfl, rfl⟩
  | invoke k op _ =>
    left
    unfold guarded
    show (match (n.threads.set t _)[t]? with | some l => l.pc != .idle | none => false) = true
    rw [get_set_self hl]
    cases isReader op <;> rfl
  | resize _ _ =>
    left
    unfold guarded
    show (match (n.threads.set t _)[t]? with | some l => l.pc != .idle | none => false) = true
    rw [get_set_self hl]
    rfl
  | move p' pc' hp hm => simp only at hm; cases hm
  | tmove pc' hp hm => simp only at hm; cases hm
  | lockMove p' h' x pc' hp hm => simp only at hm; cases hm
  | tlockMove h' x pc' hp hm => simp only at hm; cases hm
  | fin p' res hp hf => simp only at hf; cases hf
  | cas p' g' v vi hp hpc hc hop => simp at hpc
  | unlockFin p' g' h' res hp hpc => simp at hpc
  | casMoved j hp hpc hc => simp at hpc
  | build j h' hp hpc => simp at hpc
  | storeLow j h' lo hg' hp hpc => simp at hpc
  | storeHigh j h' hg' hp hpc => simp at hpc
  | storeMoved j h' hp hpc => simp at hpc
  | store p' g' h' pred' hit' hnext' hp hpc => simp at hpc
  | commit hp hpc => simp at hpc

theorem reach_congr {n n' : BinN.State} (hh : n'.heap = n.heap) (ht : n'.tabs = n.tabs) (i : Nat) :
    reach n' i = reach n i := by
  unfold reach BinN.chainOfCell; rw [hh, ht]

end Flurry.Proto.BinNR
