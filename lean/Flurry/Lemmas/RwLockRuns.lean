import Flurry.Lemmas.RwLockProgress
/-! # Lemmas/RwLockRuns: concrete runs of the lock model (sanity checks, all by `decide`) -/
namespace Flurry.Proto.RwLock
open Flurry.Gen

/-- replay a schedule; `none` if some step is not enabled -/
def run (s : State) : List (Actor × Bool) → Option State
  | [] => some s
  | (a, more) :: rest => (step s a more).bind (fun s' => run s' rest)

/-- the writer pcs visited along a schedule (after each step) -/
def wpcTrace (s : State) : List (Actor × Bool) → List WPc
  | [] => []
  | (a, more) :: rest =>
    match step s a more with
    | none => []
    | some s' => s'.wpc :: wpcTrace s' rest

theorem reachable_run {n : Nat} {s s' : State} (h : Reachable n s) (l : List (Actor × Bool))
    (hr : run s l = some s') : Reachable n s' := by
  induction l generalizing s with
  | nil => simp [run] at hr; subst hr; exact h
  | cons x rest ih =>
    obtain ⟨a, more⟩ := x
    simp only [run] at hr
    cases hs : step s a more with
    | none => simp [hs] at hr
    | some s1 => simp [hs] at hr; exact ih (Reachable.step a more h hs) hr

/-- local to this file (the model file derives only `Repr` for `State`) -/
local instance : DecidableEq State := fun a b =>
  decidable_of_iff (a.lockState = b.lockState ∧ a.waiterSet = b.waiterSet ∧ a.token = b.token ∧
      a.wpc = b.wpc ∧ a.waiting = b.waiting ∧ a.readers = b.readers)
    (by cases a; cases b; simp)

/-- a state written as `(lockState, waiterSet, token, wpc, waiting, readers)` -/
def mk (ls : Int) (ws tk : Bool) (wpc : WPc) (wt : Bool) (rs : List RPc) : State :=
  { lockState := ls, waiterSet := ws, token := tk, wpc := wpc, waiting := wt, readers := rs }

private def W : Actor × Bool := (.writer, false)
private def R (i : Nat) : Actor × Bool := (.reader i, false)

/-- reader 0 takes a read lock -/
private def acquire0 : List (Actor × Bool) := [R 0, R 0, R 0, R 0]
/-- the writer finds the lock held, sets `WAITER`, publishes its handle, re-reads and goes to `park` -/
private def toPark : List (Actor × Bool) := [W, W, W, W, W, W, W, W]

/-! ### the writer parks and is woken by the last reader -/

/-- reader 0 holds, the writer is at `park` with `READER|WAITER` in the word and the handle published -/
example : run (init 1) (acquire0 ++ toPark) =
    some (mk (READER + WAITER) true false .park true [.tree]) := by decide

/-- ... and is blocked there -/
example : run (init 1) (acquire0 ++ toPark ++ [W]) = none := by decide

/-- the reader leaves: `release` sees `READER|WAITER`, loads the handle, unparks: token set -/
example : run (init 1) (acquire0 ++ toPark ++ [R 0, R 0, R 0, R 0]) =
    some (mk WAITER true true .park true [.idle]) := by decide

/-- the writer wakes, consumes the token, re-reads `WAITER`, acquires, clears the handle, and
finally unlocks -/
example : run (init 1) (acquire0 ++ toPark ++ [R 0, R 0, R 0, R 0] ++ [W, W, W, W, W]) =
    some (mk WRITER false false .hold true [.idle]) := by decide

example : run (init 1) (acquire0 ++ toPark ++ [R 0, R 0, R 0, R 0] ++ [W, W, W, W, W, W]) =
    some (mk 0 false false .idle true [.idle]) := by decide

example : wpcTrace (init 1) (acquire0 ++ toPark ++ [R 0, R 0, R 0, R 0] ++ [W, W, W, W, W, W]) =
    [.idle, .idle, .idle, .idle,
     .tryFast, .load, .decide READER, .casWaiter READER, .publish, .load, .decide (READER + WAITER), .park,
     .park, .park, .park, .park,
     .load, .decide WAITER, .casWriter WAITER, .swapOut, .hold, .idle] := by decide

/-! ### the "window": the last reader leaves between `casWaiter` and `publish` -/

/-- the reader releases after the writer set `WAITER` but before the handle is published: it sees
`READER|WAITER`, goes to `loadWaiter`, finds no handle and does not unpark -/
example : run (init 1) (acquire0 ++ [W, W, W, W, W] ++ [R 0, R 0, R 0]) =
    some (mk WAITER false false .publish true [.idle]) := by decide

/-- the writer then publishes, re-reads the state (`WAITER` only), and acquires without parking -/
example : run (init 1) (acquire0 ++ [W, W, W, W, W] ++ [R 0, R 0, R 0] ++ [W, W, W, W, W]) =
    some (mk WRITER false false .hold true [.idle]) := by decide

example : wpcTrace (init 1) (acquire0 ++ [W, W, W, W, W] ++ [R 0, R 0, R 0] ++ [W, W, W, W, W]) =
    [.idle, .idle, .idle, .idle,
     .tryFast, .load, .decide READER, .casWaiter READER, .publish,
     .publish, .publish, .publish,
     .load, .decide WAITER, .casWriter WAITER, .swapOut, .hold] := by decide

/-! ### a stale token (harmless: `park` is in a loop)

The last reader has loaded the handle but is delayed before `unpark`; the writer meanwhile re-reads
the state, acquires and unlocks. The late `unpark` leaves a token although the writer is idle; the
next `park` of this thread returns immediately (spurious wake-up) and the writer re-checks the word. -/
example : run (init 1) (acquire0 ++ [W, W, W, W, W] ++ [R 0, R 0] ++ [W] ++ [R 0] ++
      [W, W, W, W, W] ++ [R 0]) =
    some (mk 0 false true .idle true [.idle]) := by decide

/-! ### uncontended fast path, and a reader diverted to the list while the writer holds -/

example : run (init 1) [W, W] = some (mk WRITER false false .hold false [.idle]) := by
  decide

example : run (init 1) [W, W, R 0, R 0, R 0] =
    some (mk WRITER false false .hold false [.slow]) := by decide

end Flurry.Proto.RwLock
