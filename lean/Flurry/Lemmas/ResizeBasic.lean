import Flurry.Proto.Resize
/-! # Proto/Resize: list/count helper lemmas and the inductive invariant `Inv`

`Inv n0 nthreads stride s` is the conjunction of small facts that is shown inductive in
`ResizeInv.lean` (`Inv.init`, `Inv.step`, `Reachable.inv`). The bookkeeping is done with three
counters over `s.threads`:

* `P s` – participants (`= numParticipants s`),
* `F s` – finishers (`isFinisher`),
* `S s` – threads at `pubStoreCtl` (table already swapped, `size_ctl` not yet stored). -/
namespace Flurry.Proto.Resize

/-! ## generic list lemmas -/

theorem countP_set_add {α} {p : α → Bool} {l : List α} {t : Nat} {a x : α} (h : l[t]? = some a) :
    (l.set t x).countP p + (if p a then 1 else 0) = l.countP p + (if p x then 1 else 0) := by
  induction l generalizing t with
  | nil => simp at h
  | cons y l ih =>
    cases t with
    | zero =>
      simp at h; subst h
      simp [List.countP_cons]; omega
    | succ t =>
      simp at h
      have := ih h
      simp [List.countP_cons]; omega

theorem countP_pos_of_getElem? {α} {p : α → Bool} {l : List α} {t : Nat} {a : α}
    (h : l[t]? = some a) (hp : p a = true) : 0 < l.countP p := by
  rw [List.countP_pos_iff]
  exact ⟨a, List.mem_of_getElem? h, hp⟩

theorem countP_le_one_unique {α} {p : α → Bool} {l : List α} (hc : l.countP p ≤ 1)
    {t u : Nat} {a b : α} (ha : l[t]? = some a) (hb : l[u]? = some b)
    (pa : p a = true) (pb : p b = true) : t = u := by
  induction l generalizing t u with
  | nil => simp at ha
  | cons y l ih =>
    cases t with
    | zero =>
      cases u with
      | zero => rfl
      | succ u =>
        simp at ha hb; subst ha
        have := countP_pos_of_getElem? hb pb
        rw [List.countP_cons_of_pos pa] at hc; omega
    | succ t =>
      cases u with
      | zero =>
        simp at ha hb; subst hb
        have := countP_pos_of_getElem? ha pa
        rw [List.countP_cons_of_pos pb] at hc; omega
      | succ u =>
        simp at ha hb
        have : l.countP p ≤ 1 := by
          simp [List.countP_cons] at hc; omega
        rw [ih this ha hb]

/-! ## counters and classification of program counters -/

/-- thread is at `pubStoreCtl` -/
def atStore (l : Local) : Bool := match l.pc with | .pubStoreCtl => true | _ => false

/-- thread is outside the machinery, on one of the two join paths (`help_transfer` / `add_count`,
not admitted yet) or about to attempt an entry CAS -/
def quiet (l : Local) : Bool :=
  match l.pc with
  | .idle | .casInit _ | .casJoin _ | .helpCheckNext | .helpCheckTable | .helpLoadSc
  | .helpLoadIndex _ | .acLoadTable _ | .acLoadNext _ | .acLoadIndex _ => true
  | _ => false

/-- thread is on one of the two join paths, before its CAS -/
def joining (l : Local) : Bool :=
  match l.pc with
  | .helpCheckNext | .helpCheckTable | .helpLoadSc | .helpLoadIndex _ | .acLoadTable _
  | .acLoadNext _ | .acLoadIndex _ => true
  | _ => false

def P (s : State) : Nat := s.threads.countP participating
def F (s : State) : Nat := s.threads.countP isFinisher
def S (s : State) : Nat := s.threads.countP atStore

theorem numParticipants_eq (s : State) : numParticipants s = P s := by
  simp [numParticipants, P, List.countP_eq_length_filter]

/-- participant count encoded in the word (`1` for an idle word) -/
def cnt : SC → Nat
  | .idle _ => 1
  | .resizing _ c => c

/-- number of finishers the word announces -/
def finWord : SC → Nat
  | .resizing _ 1 => 1
  | _ => 0

theorem finWord_le (sc : SC) : finWord sc ≤ 1 := by
  unfold finWord; split <;> omega

theorem quiet_of_not (l : Local) (hp : participating l = false) (hf : isFinisher l = false) :
    quiet l = true := by
  unfold participating at hp; unfold isFinisher at hf; unfold quiet
  cases h : l.pc <;> simp_all

theorem atStore_isFinisher (l : Local) (h : atStore l = true) : isFinisher l = true := by
  unfold atStore at h; unfold isFinisher
  cases h' : l.pc <;> simp_all

theorem atStore_iff (l : Local) : atStore l = true ↔ l.pc = .pubStoreCtl := by
  unfold atStore
  cases h : l.pc <;> simp

theorem not_both (l : Local) (hp : participating l = true) : isFinisher l = false := by
  unfold participating at hp; unfold isFinisher
  cases h : l.pc <;> simp_all

/-- all bins with index `≥ lo` are moved -/
def MovedFrom (s : State) (lo : Int) : Prop :=
  ∀ idx : Nat, lo ≤ (idx : Int) → idx < s.n → s.moved.getD idx false = true

/-- what a thread knows about the word `sc` it is going to CAS on (`casJoin sc`), once it has seen
a next table and loaded `transfer_index`: the word is not younger than the table the thread holds,
and if it is a "finishing" word (`cnt = 1`; only `add_count` can carry one this far, having loaded
the table of a *later* generation) it is not the current word any more – the CAS will fail -/
def JoinOk (s : State) (l : Local) (sc : SC) : Prop :=
  l.finishing = false ∧ ∃ g c, sc = .resizing g c ∧ g ≤ l.heldGen ∧
    (c = 1 → g < l.heldGen ∧ s.sizeCtl ≠ .resizing g 1)

/-- thread-local part of the invariant -/
def LocalOk (s : State) (l : Local) : Prop :=
  match l.pc with
  | .idle => l.finishing = false
  | .casInit sc => l.finishing = false ∧ ∃ thr, sc = .idle thr
  | .helpCheckNext => l.finishing = false
  | .helpCheckTable => l.finishing = false
  | .helpLoadSc => l.finishing = false
  | .helpLoadIndex sc => JoinOk s l sc
  | .acLoadTable sc => l.finishing = false ∧ ∃ g c, sc = .resizing g c ∧ g ≤ s.gen
  | .acLoadNext sc => l.finishing = false ∧ ∃ g c, sc = .resizing g c ∧ g ≤ l.heldGen ∧
      (c = 1 → g < l.heldGen)
  | .acLoadIndex sc => JoinOk s l sc
  | .casJoin sc => JoinOk s l sc
  | .swapNext => l.finishing = false
  | .storeIndex => l.finishing = false
  | .claimCas ni => l.finishing = false ∧ l.i < l.bound ∧ 0 < ni
  | .leaveLoad => l.finishing = false ∧ (l.i < 0 ∨ (s.n : Int) ≤ l.i)
  | .leaveCas _ => l.finishing = false ∧ (l.i < 0 ∨ (s.n : Int) ≤ l.i)
  | .claimLoad => l.finishing = true → l.advance = true ∧ l.i ≤ s.n ∧ MovedFrom s l.i
  | .dispatch => l.finishing = true → l.i < s.n ∧ MovedFrom s (l.i + 1)
  | .processBin => 0 ≤ l.i ∧ l.i < s.n ∧ (l.finishing = true → MovedFrom s (l.i + 1))
  | .pubClearNext => MovedFrom s 0
  | .pubSwapTable => MovedFrom s 0 ∧ s.nextTable = false
  | .pubStoreCtl => s.nextTable = false

structure Inv (n0 nthreads stride : Nat) (s : State) : Prop where
  stride_eq : s.stride = stride
  nthreads_eq : s.threads.length = nthreads
  n_eq : s.n = n0 * 2 ^ s.gen
  pub_eq : s.published = List.replicate s.gen 1
  moved_len : s.moved.length = s.n
  migr_eq : s.migrations = s.moved.map (fun b => if b then 1 else 0)
  cnt_eq : cnt s.sizeCtl = 1 + P s
  fin_eq : F s = finWord s.sizeCtl
  gen_eq : ∀ g c, s.sizeCtl = .resizing g c → g + S s = s.gen
  idle_thr : ∀ thr, s.sizeCtl = .idle thr → thr = threshold s.n ∧ s.nextTable = false
  locals : ∀ (t : Nat) (l : Local), s.threads[t]? = some l → LocalOk s l
  /-- the generation comparison of `help_transfer` is in place -/
  check_eq : s.checkGen = true
  /-- nobody has been admitted to a resize while holding the tables of another generation -/
  stale_eq : s.staleJoins = 0
  /-- a held table is never younger than the current one -/
  held_le : ∀ (t : Nat) (l : Local), s.threads[t]? = some l → l.heldGen ≤ s.gen

end Flurry.Proto.Resize
