import Flurry.Lemmas.ReclaimSafe
import Flurry.Lemmas.ReclaimFree
/-! # Proto/Reclaim: concrete traces (all by `decide`)

* `unprotected_unsafe`: finding F1 as a theorem about the model.
* a protected two-thread run: the reader keeps using a node the writer unlinked and retired; the
  collector refuses to free it until the reader has released its guard. -/
namespace Flurry.Proto.Reclaim

/-- what `FromIterator` did: `transfer` retired the head node through `Guard::unprotected()` and
afterwards released the mutex stored inside it. One thread, always guarded. -/
def f1Trace : List Ev :=
  [.enter 0, .alloc 0, .publish 0 0, .acquire 0 0, .unlink 0 0, .unprotectedRetire 0 0, .touch 0 0]

/-- F1: with `unprotectedRetire` a single, guarded thread touches freed memory -/
theorem unprotected_unsafe :
    (run (init 1) f1Trace).map (·.badTouches) = some 1 ∧
    allocGuarded (init 1) f1Trace = true ∧ ¬ Protected f1Trace := by decide

theorem unprotected_bad_touch :
    ∃ es s, run (init 1) es = some s ∧ allocGuarded (init 1) es = true ∧ s.badTouches = 1 :=
  ⟨f1Trace, _, rfl, by decide, rfl⟩

/-- the same trace with a protected `retire`: the touch is fine, and the free has to wait -/
def safeTrace : List Ev :=
  [.enter 0, .alloc 0, .publish 0 0, .acquire 0 0, .unlink 0 0, .retire 0 0, .touch 0 0]

example : (run (init 1) safeTrace).map (·.badTouches) = some 0 := by decide
example : ((run (init 1) safeTrace).bind (step · (.free 0))).isNone = true := by decide
example : ((run (init 1) (safeTrace ++ [.exit 0])).bind (step · (.free 0))).isSome = true := by decide
/-- after the free the thread cannot touch the object: it gave the pointer up with the guard -/
example : (run (init 1) (safeTrace ++ [.exit 0, .free 0, .touch 0 0])).isNone = true := by decide

/-! ## writer (thread 0) and reader (thread 1) -/

/-- the writer creates and publishes node `0`; the reader picks it up; the writer unlinks and
retires it while the reader is still inside its guard -/
def rwPrefix : List Ev :=
  [.enter 0, .alloc 0, .publish 0 0, .enter 1, .acquire 1 0, .unlink 0 0, .retire 0 0]

example : Protected rwPrefix ∧ allocGuarded (init 2) rwPrefix = true := by decide
/-- the collector waits for both threads -/
example : (run (init 2) rwPrefix).map (·.objs) = some [.retired [0, 1]] := by decide
/-- the free is refused ... -/
example : ((run (init 2) rwPrefix).bind (step · (.free 0))).isNone = true := by decide
/-- ... also after the writer has left, while the reader keeps touching the node ... -/
example : ((run (init 2) (rwPrefix ++ [.touch 1 0, .exit 0, .touch 1 0])).bind
    (step · (.free 0))).isNone = true := by decide
example : (run (init 2) (rwPrefix ++ [.touch 1 0, .exit 0, .touch 1 0])).map (·.objs) =
    some [.retired [1]] := by decide
/-- ... a thread that starts looking now cannot get the pointer ... -/
example : ((run (init 2) (rwPrefix ++ [.exit 0, .enter 0])).bind
    (step · (.acquire 0 0))).isNone = true := by decide
/-- ... and it succeeds once the reader has released its guard: freed once, no bad touch -/
example : (run (init 2) (rwPrefix ++ [.touch 1 0, .exit 0, .touch 1 0, .exit 1, .free 0])).map
    (fun s => (s.objs, s.frees, s.badTouches)) = some ([.freed], [1], 0) := by decide
/-- no second free -/
example : (run (init 2) (rwPrefix ++ [.exit 0, .exit 1, .free 0, .free 0])).isNone = true := by decide
/-- the reader cannot touch after its `exit` -/
example : (run (init 2) (rwPrefix ++ [.exit 1, .touch 1 0])).isNone = true := by decide
/-- a reader that refreshes its guard (`exit`, `enter`) is no longer waited for -/
example : (run (init 2) (rwPrefix ++ [.exit 1, .enter 1, .exit 0])).map (·.objs) =
    some [.retired []] := by decide

/-- the model-level counterexample to `no_touch_after_free` without a guard hypothesis: thread `0`
allocates and publishes *without a guard* and keeps its pointer across thread `1`'s
unlink + retire + exit and the collector's free. Protected, and yet `badTouches = 1`. -/
def unguardedCreatorTrace : List Ev :=
  [.alloc 0, .publish 0 0, .enter 1, .acquire 1 0, .unlink 1 0, .retire 1 0, .exit 1, .free 0, .touch 0 0]

theorem unguarded_creator_bad_touch :
    (run (init 2) unguardedCreatorTrace).map (·.badTouches) = some 1 ∧
    Protected unguardedCreatorTrace ∧
    publishGuarded (init 2) unguardedCreatorTrace = false ∧
    allocGuarded (init 2) unguardedCreatorTrace = false := by decide

end Flurry.Proto.Reclaim
