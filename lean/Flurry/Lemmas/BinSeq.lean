import Flurry.Lemmas.BinW
import Flurry.Lemmas.SeqBinsList
/-! # Proto/Bin ↔ Seq/Model: the store of a validated writer is the sequential list update (C01)

`Seq/Model.lean` (the sequential functional model of the whole map, compared with the real
implementation bin by bin and node by node after every operation) describes what `put`,
`replace_node` and `compute_if_present` do to a *list* bin with `listFind`, `listSetVal`,
`listRemove` and `ns ++ [nd]`. `Proto/Bin.lean` (the concurrent small-step model of one list bin)
describes the same writes as one atomic store into a heap of nodes with `next` pointers
(`writerStore`). This file proves that the two agree.

* `binNodes s`: the bin as the sequential model sees it (the nodes on the chain, in list order).
* `binNodes_ins_existing`, `binNodes_ins_new` (`ins` and `tryIns`), `binNodes_tryIns_existing`,
  `binNodes_rm`, `binNodes_cipRm`, `binNodes_cipInc`, `binNodes_absent` (`rm` / `cipRm` / `cipInc` of a
  key that is not there): case by case. `listFind_binNodes`: the sequential lookup on `binNodes` is
  the writer's `find?` on the chain; `listFind_binNodes_absOf`: it is the abstract content `absOf`.
* `seqStore`: the list-bin arms of `Seq.put` / `Seq.replaceNode` / `Seq.computeIfPresent`, as a
  function of the bin alone; **`writerStore_refines_seq`**: `writerStore` computes `seqStore` on
  `binNodes`, new bin and result. `seqStore_res`: the result is that of `Lin.specStep`.
* `binNodes_cas`: the lock-free CAS into an empty bin takes `binNodes` from `[]` to `[node]`, which
  is `seqStore` as well (`cas_refines_seq`).
* `stepK_refines_seq`: every transition leaves `binNodes` alone or is one of these two stores.
  (Restated for reachable states in `Props/C01Bin.lean`: `bin_step_refines_seq`,
  `bin_write_refines_seq`.)
* `BinW.storeAt_refines_seq`: the store through the positions remembered during the walk, on
  reachable states of `Proto/BinW`.

What is *not* tracked by the concurrent model: the hash (all keys of one bin have the same bin
index, and `Seq` only uses the hash of a list node together with the key; it is set to `0`), and
`ki`, the key-instance id (set to `0`; `listSetVal` keeps the `ki` of the old node, and so does the
value swap of the concurrent model, which does not touch the key). -/
namespace Flurry.Proto.Bin
open Flurry.Lin Flurry.Seq

/-- the bin as the sequential model sees it: the nodes on the chain, in list order (all keys of one
bin have the same bin index; the hash is immaterial here and set to 0) -/
def binNodes (s : State) : List Flurry.Node :=
  (chain s).map fun i => let n := s.heap.getD i ⟨0, (0, 0), none, none⟩
    { hash := 0, key := n.key, ki := 0, val := n.val.1, vi := n.val.2 }

/-- the sequential node for heap cell `i` -/
def toNode (heap : List NodeS) (i : Nat) : Flurry.Node :=
  { hash := 0, key := (nodeAt heap i).key, ki := 0, val := (nodeAt heap i).val.1, vi := (nodeAt heap i).val.2 }

/-- the node a `put` of a new key appends -/
def mkNode (k v vi : Nat) : Flurry.Node := { hash := 0, key := k, ki := 0, val := v, vi := vi }

theorem binNodes_eq (s : State) : binNodes s = (chain s).map (toNode s.heap) := rfl

theorem binNodes_congr {s s' : State} (hh : s'.heap = s.heap) (hd : s'.head = s.head) :
    binNodes s' = binNodes s := by
  rw [binNodes_eq, binNodes_eq, chain_congr hh hd, hh]

@[simp] theorem toNode_hash (heap : List NodeS) (i : Nat) : (toNode heap i).hash = 0 := rfl
@[simp] theorem toNode_key (heap : List NodeS) (i : Nat) : (toNode heap i).key = (nodeAt heap i).key := rfl
@[simp] theorem toNode_val (heap : List NodeS) (i : Nat) : (toNode heap i).val = (nodeAt heap i).val.1 := rfl
@[simp] theorem toNode_vi (heap : List NodeS) (i : Nat) : (toNode heap i).vi = (nodeAt heap i).val.2 := rfl

theorem resOf_some (x : Nat × Nat) : resOf (some x) = .some x.1 x.2 := by
  cases x; rfl

/-! ## `toNode` under the heap surgeries -/

theorem toNode_modify_next (heap : List NodeS) (pr : Nat) (x : Option Nat) (j : Nat) :
    toNode (heap.modify pr (fun m => { m with next := x })) j = toNode heap j := by
  unfold toNode
  rw [nodeAt_modify]
  split <;> rfl

theorem toNode_modify_val {heap : List NodeS} {i : Nat} (hi : i < heap.length) (w : Nat × Nat) (j : Nat) :
    toNode (heap.modify i (fun n => { n with val := w })) j =
      if j = i then { toNode heap j with val := w.1, vi := w.2 } else toNode heap j := by
  unfold toNode
  rw [nodeAt_modify]
  by_cases hji : j = i
  · subst hji
    rw [if_pos ⟨rfl, hi⟩, if_pos rfl]
  · have : ¬ (i = j ∧ j < heap.length) := fun h => hji h.1.symm
    rw [if_neg this, if_neg hji]

theorem toNode_append_left {heap : List NodeS} (l : List NodeS) {j : Nat} (hj : j < heap.length) :
    toNode (heap ++ l) j = toNode heap j := by
  unfold toNode
  rw [nodeAt_append_left l hj]

theorem toNode_append_new (heap : List NodeS) (k : Nat) (w : Nat × Nat) (nx lk : Option Nat) :
    toNode (heap ++ [⟨k, w, nx, lk⟩]) heap.length = mkNode k w.1 w.2 := by
  unfold toNode
  rw [nodeAt_append_new]
  rfl

/-! ## `listFind` on `binNodes` is the writer's `find?` on the chain -/

theorem listFind_map_toNode (heap : List NodeS) (k : Nat) : ∀ l : List Nat,
    listFind 0 k (l.map (toNode heap)) =
      (l.find? (fun i => (nodeAt heap i).key == k)).map (toNode heap)
  | [] => rfl
  | a :: l => by
    have ih := listFind_map_toNode heap k l
    simp only [List.map_cons, listFind, List.find?_cons, toNode_hash, toNode_key, BEq.rfl, Bool.true_and]
    cases hk : (nodeAt heap a).key == k
    · simp only [Bool.false_eq_true, if_false]
      exact ih
    · simp only [if_true, Option.map_some]

theorem listFind_binNodes (s : State) (k : Nat) :
    listFind 0 k (binNodes s) =
      ((chain s).find? (fun i => (nodeAt s.heap i).key == k)).map (toNode s.heap) := by
  rw [binNodes_eq, listFind_map_toNode]

/-- the sequential lookup is the abstract content -/
theorem listFind_binNodes_absOf (s : State) (k : Nat) :
    (listFind 0 k (binNodes s)).map (fun nd => (nd.val, nd.vi)) = absOf s k := by
  rw [listFind_binNodes, absOf_eq, Option.map_map]
  rfl

theorem hit_of_listFind_some {s : State} {k : Nat} {old : Flurry.Node}
    (hf : listFind 0 k (binNodes s) = some old) :
    ∃ i, (chain s).find? (fun i => (nodeAt s.heap i).key == k) = some i ∧ toNode s.heap i = old := by
  rw [listFind_binNodes, Option.map_eq_some_iff] at hf
  exact hf

theorem hit_of_listFind_none {s : State} {k : Nat}
    (hf : listFind 0 k (binNodes s) = none) :
    (chain s).find? (fun i => (nodeAt s.heap i).key == k) = none := by
  rw [listFind_binNodes, Option.map_eq_none_iff] at hf
  exact hf

/-- every other chain node has another key -/
theorem key_ne_of_hit {s : State} (H : HInv s) {k i : Nat}
    (hit : (chain s).find? (fun i => (nodeAt s.heap i).key == k) = some i) :
    ∀ j ∈ chain s, j ≠ i → (nodeAt s.heap j).key ≠ k := by
  obtain ⟨hi, hk⟩ := find_hit_some hit
  intro j hj hji hjk
  exact hji (H.keysDistinct j hj i hi (by rw [hjk, hk]))

theorem no_match_map {heap : List NodeS} {k : Nat} {l : List Nat}
    (h : ∀ j ∈ l, (nodeAt heap j).key ≠ k) :
    ∀ x ∈ l.map (toNode heap), ¬(x.hash = 0 ∧ x.key = k) := by
  intro x hx
  obtain ⟨j, hj, rfl⟩ := List.mem_map.1 hx
  exact fun hc => h j hj hc.2

/-! ## the chain after each store -/

theorem unlink_mid_chain {s s' : State} (H : HInv s) {l1 l2 : List Nat} {pr i : Nat}
    (hch : chain s = l1 ++ pr :: i :: l2)
    (hh : s'.heap = s.heap.modify pr (fun m => { m with next := (nodeAt s.heap i).next }))
    (hd : s'.head = s.head) : chain s' = l1 ++ pr :: l2 := by
  obtain ⟨H', -, -⟩ := unlink_mid H hch hh hd
  refine chain_eq' H'.nextOK H'.headOK ?_
  rw [hd, hh]
  have hc := chain_isChain H
  rw [hch] at hc
  have hi : i ∈ chain s := by rw [hch]; simp
  exact isChain_unlink H.nextOK hc (getElem?_nodeAt (chain_lt H hi))

theorem unlink_head_chain {s s' : State} (H : HInv s) {l2 : List Nat} {i : Nat}
    (hch : chain s = i :: l2)
    (hh : s'.heap = s.heap) (hd : s'.head = (nodeAt s.heap i).next) : chain s' = l2 := by
  obtain ⟨H', -, -⟩ := unlink_head H hch hh hd
  refine chain_eq' H'.nextOK H'.headOK ?_
  rw [hd, hh]
  have hc := chain_isChain H
  rw [hch] at hc
  obtain ⟨-, n, hn, hs⟩ := IsSeg.cons_iff.1 hc
  rw [nodeAt_of_some hn]
  exact hs

theorem append_last_chain {s s' : State} (H : HInv s) {new : NodeS} {last : Nat}
    (hlast : (chain s).getLast? = some last) (hnx : new.next = none)
    (hh : s'.heap = (s.heap ++ [new]).modify last (fun n => { n with next := some s.heap.length }))
    (hd : s'.head = s.head)
    (hfresh : ∀ i ∈ chain s, (nodeAt s.heap i).key ≠ new.key) :
    chain s' = chain s ++ [s.heap.length] := by
  obtain ⟨H', -, -⟩ := append_last H hlast hnx hh hd hfresh
  obtain ⟨l0, hl0⟩ := List.getLast?_eq_some_iff.1 hlast
  refine chain_eq' H'.nextOK H'.headOK ?_
  rw [hd, hh, hl0]
  have hc := chain_isChain H
  rw [hl0] at hc
  exact isChain_append_node H.nextOK hc new hnx

theorem append_empty_chain {s s' : State} (H : HInv s) {new : NodeS}
    (hempty : chain s = []) (hnx : new.next = none)
    (hh : s'.heap = s.heap ++ [new]) (hd : s'.head = some s.heap.length) :
    chain s' = [s.heap.length] := by
  obtain ⟨H', -, -⟩ := append_empty H hempty hnx hh hd
  refine chain_eq' H'.nextOK H'.headOK ?_
  rw [hd, hh]
  refine .cons (n := new) (by simp) ?_
  rw [hnx]; exact .nil _

/-! ## the three stores on `binNodes` -/

/-- value swap at the hit = `listSetVal` -/
theorem binNodes_swap {s : State} (H : HInv s) {k i : Nat}
    (hit : (chain s).find? (fun i => (nodeAt s.heap i).key == k) = some i) (v vi : Nat) :
    binNodes (setNode s i (fun n => { n with val := (v, vi) })) = listSetVal 0 k v vi (binNodes s) := by
  obtain ⟨hi, hk⟩ := find_hit_some hit
  have hne := key_ne_of_hit H hit
  have hnd := chain_nodup H
  have hil := chain_lt H hi
  have hf : ∀ n : NodeS, ({ n with val := (v, vi) } : NodeS).next = n.next ∧
      ({ n with val := (v, vi) } : NodeS).key = n.key := fun n => ⟨rfl, rfl⟩
  obtain ⟨-, -, hc⟩ := modify_chain (s' := setNode s i (fun n => { n with val := (v, vi) })) H rfl rfl hf
  obtain ⟨l1, l2, hch⟩ := List.append_of_mem hi
  rw [hch] at hnd hne
  have h5 := List.nodup_append.1 hnd
  have hi1 : ∀ j ∈ l1, j ≠ i := fun j hj he => h5.2.2 j hj i (by simp) he
  have hi2 : ∀ j ∈ l2, j ≠ i := fun j hj he => (List.nodup_cons.1 h5.2.1).1 (he ▸ hj)
  rw [binNodes_eq, binNodes_eq, hc, hch]
  show List.map (toNode (s.heap.modify i (fun n => { n with val := (v, vi) }))) _ = _
  rw [List.map_append, List.map_cons, List.map_append, List.map_cons,
    listSetVal_split 0 k v vi _ _ _
      (no_match_map (fun j hj => hne j (by simp [hj]) (hi1 j hj))) ⟨rfl, hk⟩]
  have e1 : l1.map (toNode (s.heap.modify i (fun n => { n with val := (v, vi) }))) = l1.map (toNode s.heap) := by
    refine List.map_congr_left ?_
    intro j hj
    rw [toNode_modify_val hil, if_neg (hi1 j hj)]
  have e2 : l2.map (toNode (s.heap.modify i (fun n => { n with val := (v, vi) }))) = l2.map (toNode s.heap) := by
    refine List.map_congr_left ?_
    intro j hj
    rw [toNode_modify_val hil, if_neg (hi2 j hj)]
  rw [e1, e2, toNode_modify_val hil, if_pos rfl]

/-- the unlink store at the hit = `listRemove` -/
theorem binNodes_unlink {s : State} (H : HInv s) {k i : Nat}
    (hit : (chain s).find? (fun i => (nodeAt s.heap i).key == k) = some i) :
    binNodes (match predOf (chain s) i with
      | some pr => setNode s pr (fun m => { m with next := (nodeAt s.heap i).next })
      | none => { s with head := (nodeAt s.heap i).next }) = listRemove 0 k (binNodes s) := by
  obtain ⟨hi, hk⟩ := find_hit_some hit
  have hne := key_ne_of_hit H hit
  have hnd := chain_nodup H
  rcases predOf_cases hnd hi with ⟨l2, hch, hp⟩ | ⟨l1, pr, l2, hch, hp⟩
  · rw [hp]
    have hc := unlink_head_chain (s' := { s with head := (nodeAt s.heap i).next }) H hch rfl rfl
    rw [binNodes_eq, binNodes_eq, hc, hch, List.map_cons]
    exact (listRemove_split 0 k [] _ _ (by intro x hx; cases hx) ⟨rfl, hk⟩).symm
  · rw [hp]
    have hc := unlink_mid_chain
      (s' := setNode s pr (fun m => { m with next := (nodeAt s.heap i).next })) H hch rfl rfl
    rw [hch] at hnd hne
    have h5 := List.nodup_append.1 hnd
    have hi1 : ∀ j ∈ l1, j ≠ i := fun j hj he => h5.2.2 j hj i (by simp) he
    have hpri : pr ≠ i := by
      intro he
      have := (List.nodup_cons.1 h5.2.1).1
      exact this (by simp [he])
    rw [binNodes_eq, binNodes_eq, hc, hch]
    show List.map (toNode (s.heap.modify pr (fun m => { m with next := (nodeAt s.heap i).next }))) _ = _
    have e : ∀ l : List Nat,
        l.map (toNode (s.heap.modify pr (fun m => { m with next := (nodeAt s.heap i).next }))) =
          l.map (toNode s.heap) := fun l => List.map_congr_left (fun j _ => toNode_modify_next _ _ _ j)
    rw [e]
    have hsplit : l1 ++ pr :: i :: l2 = (l1 ++ [pr]) ++ i :: l2 := by simp
    have hsplit' : l1 ++ pr :: l2 = (l1 ++ [pr]) ++ l2 := by simp
    rw [hsplit, hsplit', List.map_append (l₁ := l1 ++ [pr]) (l₂ := l2),
      List.map_append (l₁ := l1 ++ [pr]) (l₂ := i :: l2), List.map_cons]
    refine (listRemove_split 0 k _ _ _ (no_match_map ?_) ⟨rfl, hk⟩).symm
    intro j hj
    rcases List.mem_append.1 hj with hj | hj
    · exact hne j (by simp [hj]) (hi1 j hj)
    · have : j = pr := by simpa using hj
      subst this
      exact hne j (by simp) hpri

/-- the append store of a fresh key = `ns ++ [nd]` -/
theorem binNodes_append {s : State} (H : HInv s) {k : Nat}
    (hit : (chain s).find? (fun i => (nodeAt s.heap i).key == k) = none) (v vi : Nat) :
    binNodes (match (chain s).getLast? with
        | some l => setNode { s with heap := s.heap ++ [(⟨k, (v, vi), none, none⟩ : NodeS)] } l
            (fun n => { n with next := some s.heap.length })
        | none => { { s with heap := s.heap ++ [(⟨k, (v, vi), none, none⟩ : NodeS)] } with
            head := some s.heap.length }) = binNodes s ++ [mkNode k v vi] := by
  have hfresh := find_hit_none hit
  cases hl : (chain s).getLast? with
  | some l =>
    have hc := append_last_chain
      (s' := setNode { s with heap := s.heap ++ [(⟨k, (v, vi), none, none⟩ : NodeS)] } l
        (fun n => { n with next := some s.heap.length }))
      (new := (⟨k, (v, vi), none, none⟩ : NodeS)) H hl rfl rfl rfl hfresh
    show binNodes (setNode { s with heap := s.heap ++ [(⟨k, (v, vi), none, none⟩ : NodeS)] } l
        (fun n => { n with next := some s.heap.length })) = _
    have hheap : (setNode { s with heap := s.heap ++ [(⟨k, (v, vi), none, none⟩ : NodeS)] } l
        (fun n => { n with next := some s.heap.length })).heap =
        (s.heap ++ [(⟨k, (v, vi), none, none⟩ : NodeS)]).modify l
          (fun n => { n with next := some s.heap.length }) := rfl
    rw [binNodes_eq, binNodes_eq, hc, hheap, List.map_append, List.map_cons, List.map_nil,
      toNode_modify_next, toNode_append_new]
    congr 1
    refine List.map_congr_left ?_
    intro j hj
    rw [toNode_modify_next, toNode_append_left _ (chain_lt H hj)]
  | none =>
    have hempty : chain s = [] := List.getLast?_eq_none_iff.1 hl
    have hc := append_empty_chain
      (s' := { { s with heap := s.heap ++ [(⟨k, (v, vi), none, none⟩ : NodeS)] } with
        head := some s.heap.length })
      (new := (⟨k, (v, vi), none, none⟩ : NodeS)) H hempty rfl rfl rfl
    show binNodes { { s with heap := s.heap ++ [(⟨k, (v, vi), none, none⟩ : NodeS)] } with
        head := some s.heap.length } = _
    rw [binNodes_eq, binNodes_eq, hc, hempty]
    show [toNode (s.heap ++ [(⟨k, (v, vi), none, none⟩ : NodeS)]) s.heap.length] = _
    rw [toNode_append_new]
    rfl

/-! ## `writerStore`, case by case -/

private theorem hit_getD {s : State} {k : Nat} {r : Option Nat}
    (hit : (chain s).find? (fun i => (nodeAt s.heap i).key == k) = r) :
    (chain s).find? (fun i => (s.heap.getD i ⟨0, (0, 0), none, none⟩).key == k) = r := hit

/-- `put` of a key that is in the bin: the value swap is `listSetVal`, the result is the old value -/
theorem binNodes_ins_existing {s : State} (H : HInv s) (p : Pending) {v vi : Nat} {old : Flurry.Node}
    (hop : p.op = .ins v vi) (hf : listFind 0 p.key (binNodes s) = some old) :
    binNodes (writerStore s p).1 = listSetVal 0 p.key v vi (binNodes s) ∧
      (writerStore s p).2 = .some old.val old.vi := by
  obtain ⟨i, hit, rfl⟩ := hit_of_listFind_some hf
  have hit' := hit_getD hit
  unfold writerStore
  simp only [hop, hit']
  exact ⟨binNodes_swap H hit v vi, resOf_some _⟩

/-- `put` / `try_insert` of a key that is not in the bin: the node is appended -/
theorem binNodes_ins_new {s : State} (H : HInv s) (p : Pending) {v vi : Nat}
    (hop : p.op = .ins v vi ∨ p.op = .tryIns v vi) (hf : listFind 0 p.key (binNodes s) = none) :
    binNodes (writerStore s p).1 =
        binNodes s ++ [{ hash := 0, key := p.key, ki := 0, val := v, vi := vi }] ∧
      (writerStore s p).2 = .none := by
  have hit := hit_of_listFind_none hf
  have hit' := hit_getD hit
  have hb := binNodes_append H hit v vi
  unfold writerStore
  rcases hop with hop | hop
  · simp only [hop, hit']
    cases hl : (chain s).getLast? with
    | some l => rw [hl] at hb; exact ⟨hb, rfl⟩
    | none => rw [hl] at hb; exact ⟨hb, rfl⟩
  · simp only [hop, hit']
    cases hl : (chain s).getLast? with
    | some l => rw [hl] at hb; exact ⟨hb, rfl⟩
    | none => rw [hl] at hb; exact ⟨hb, rfl⟩

/-- `try_insert` of a key that is in the bin: nothing is stored -/
theorem binNodes_tryIns_existing {s : State} (p : Pending) {v vi : Nat} {old : Flurry.Node}
    (hop : p.op = .tryIns v vi) (hf : listFind 0 p.key (binNodes s) = some old) :
    (writerStore s p).1 = s ∧ (writerStore s p).2 = .exists_ old.val old.vi := by
  obtain ⟨i, hit, rfl⟩ := hit_of_listFind_some hf
  have hit' := hit_getD hit
  have e : writerStore s p = (s, .exists_ (nodeAt s.heap i).val.1 (nodeAt s.heap i).val.2) := by
    unfold writerStore
    simp only [hop, hit']
    rfl
  rw [e]
  exact ⟨rfl, rfl⟩

/-- `remove` of a key that is in the bin: the unlink is `listRemove`, the result is the old value -/
theorem binNodes_rm {s : State} (H : HInv s) (p : Pending) {old : Flurry.Node}
    (hop : p.op = .rm) (hf : listFind 0 p.key (binNodes s) = some old) :
    binNodes (writerStore s p).1 = listRemove 0 p.key (binNodes s) ∧
      (writerStore s p).2 = .some old.val old.vi := by
  obtain ⟨i, hit, rfl⟩ := hit_of_listFind_some hf
  have hit' := hit_getD hit
  unfold writerStore
  simp only [hop, hit']
  exact ⟨binNodes_unlink H hit, resOf_some _⟩

/-- `compute_if_present(|_| None)` of a key that is in the bin: `listRemove`, no result -/
theorem binNodes_cipRm {s : State} (H : HInv s) (p : Pending) {old : Flurry.Node}
    (hop : p.op = .cipRm) (hf : listFind 0 p.key (binNodes s) = some old) :
    binNodes (writerStore s p).1 = listRemove 0 p.key (binNodes s) ∧
      (writerStore s p).2 = .none := by
  obtain ⟨i, hit, rfl⟩ := hit_of_listFind_some hf
  have hit' := hit_getD hit
  have e : writerStore s p = ((match predOf (chain s) i with
      | some pr => setNode s pr (fun m => { m with next := (nodeAt s.heap i).next })
      | none => { s with head := (nodeAt s.heap i).next }), .none) := by
    unfold writerStore
    simp only [hop, hit']
    rfl
  rw [e]
  exact ⟨binNodes_unlink H hit, rfl⟩

/-- `remove` / `compute_if_present` of a key that is not in the bin: nothing is stored (and
`listRemove` / `listSetVal` would not change the bin either) -/
theorem binNodes_absent {s : State} (p : Pending)
    (hop : p.op = .rm ∨ p.op = .cipRm ∨ ∃ nvi, p.op = .cipInc nvi)
    (hf : listFind 0 p.key (binNodes s) = none) :
    (writerStore s p).1 = s ∧ (writerStore s p).2 = .none ∧
      listRemove 0 p.key (binNodes s) = binNodes s ∧
      ∀ v vi, listSetVal 0 p.key v vi (binNodes s) = binNodes s := by
  have hit := hit_of_listFind_none hf
  have hit' := hit_getD hit
  have hno := (listFind_none_iff 0 p.key (binNodes s)).1 hf
  refine ⟨?_, ?_, listRemove_absent 0 p.key _ hno, fun v vi => listSetVal_absent 0 p.key v vi _ hno⟩
  · unfold writerStore
    rcases hop with hop | hop | ⟨nvi, hop⟩ <;> simp only [hop, hit']
  · unfold writerStore
    rcases hop with hop | hop | ⟨nvi, hop⟩ <;> simp only [hop, hit']

/-- `compute_if_present(|v| Some(v + 1))` of a key that is in the bin -/
theorem binNodes_cipInc {s : State} (H : HInv s) (p : Pending) {nvi : Nat} {old : Flurry.Node}
    (hop : p.op = .cipInc nvi) (hf : listFind 0 p.key (binNodes s) = some old) :
    binNodes (writerStore s p).1 = listSetVal 0 p.key (old.val + 1) nvi (binNodes s) ∧
      (writerStore s p).2 = .some (old.val + 1) nvi := by
  obtain ⟨i, hit, rfl⟩ := hit_of_listFind_some hf
  have hit' := hit_getD hit
  unfold writerStore
  simp only [hop, hit']
  exact ⟨binNodes_swap H hit _ nvi, rfl⟩

/-! ## the summary -/

/-- what the sequential model does to a *list* bin `ns` for key `k`: the `.list ns` arms of
`Seq.put k _ v vi false` (`ins`), `Seq.put k _ v vi true` (`tryIns`), `Seq.replaceNode k none none`
(`rm`), `Seq.computeIfPresent k (fun _ v _ => .keep (v + 1) nvi)` (`cipInc`) and
`Seq.computeIfPresent k (fun _ _ _ => .remove)` (`cipRm`), with hash `0` and key-instance id `0`,
together with the per-key result. Readers store nothing. -/
def seqStore (ns : List Flurry.Node) (k : Nat) : KOp → List Flurry.Node × KRes
  | .ins v vi =>
    match listFind 0 k ns with
    | some old => (listSetVal 0 k v vi ns, .some old.val old.vi)
    | none => (ns ++ [{ hash := 0, key := k, ki := 0, val := v, vi := vi }], .none)
  | .tryIns v vi =>
    match listFind 0 k ns with
    | some old => (ns, .exists_ old.val old.vi)
    | none => (ns ++ [{ hash := 0, key := k, ki := 0, val := v, vi := vi }], .none)
  | .rm =>
    match listFind 0 k ns with
    | some old => (listRemove 0 k ns, .some old.val old.vi)
    | none => (ns, .none)
  | .cipInc nvi =>
    match listFind 0 k ns with
    | some old => (listSetVal 0 k (old.val + 1) nvi ns, .some (old.val + 1) nvi)
    | none => (ns, .none)
  | .cipRm =>
    match listFind 0 k ns with
    | some _ => (listRemove 0 k ns, .none)
    | none => (ns, .none)
  | .get => (ns, .none)
  | .has => (ns, .none)

/-- the result of `seqStore` is the result of the per-key specification -/
theorem seqStore_res (ns : List Flurry.Node) (k : Nat) (op : KOp) (hw : isReader op = false) :
    (seqStore ns k op).2 = (specStep ((listFind 0 k ns).map (fun nd => (nd.val, nd.vi))) op).2 := by
  cases op <;> first | (unfold seqStore specStep; cases listFind 0 k ns <;> rfl) | cases hw

/-- **the store of a validated writer is the sequential update of the list bin**: same new bin, node
by node and in the same order, and same result -/
theorem writerStore_refines_seq {s : State} (H : HInv s) (p : Pending) :
    binNodes (writerStore s p).1 = (seqStore (binNodes s) p.key p.op).1 ∧
      (writerStore s p).2 = (seqStore (binNodes s) p.key p.op).2 := by
  cases hop : p.op with
  | get => exact ⟨by unfold writerStore; simp only [hop]; rfl, by unfold writerStore; simp only [hop]; rfl⟩
  | has => exact ⟨by unfold writerStore; simp only [hop]; rfl, by unfold writerStore; simp only [hop]; rfl⟩
  | ins v vi =>
    unfold seqStore
    cases hf : listFind 0 p.key (binNodes s) with
    | some old => exact binNodes_ins_existing H p hop hf
    | none => exact binNodes_ins_new H p (Or.inl hop) hf
  | tryIns v vi =>
    unfold seqStore
    cases hf : listFind 0 p.key (binNodes s) with
    | some old =>
      obtain ⟨h1, h2⟩ := binNodes_tryIns_existing p hop hf
      exact ⟨by rw [h1], h2⟩
    | none => exact binNodes_ins_new H p (Or.inr hop) hf
  | rm =>
    unfold seqStore
    cases hf : listFind 0 p.key (binNodes s) with
    | some old => exact binNodes_rm H p hop hf
    | none =>
      obtain ⟨h1, h2, -⟩ := binNodes_absent p (Or.inl hop) hf
      exact ⟨by rw [h1], h2⟩
  | cipInc nvi =>
    unfold seqStore
    cases hf : listFind 0 p.key (binNodes s) with
    | some old => exact binNodes_cipInc H p hop hf
    | none =>
      obtain ⟨h1, h2, -⟩ := binNodes_absent p (Or.inr (Or.inr ⟨nvi, hop⟩)) hf
      exact ⟨by rw [h1], h2⟩
  | cipRm =>
    unfold seqStore
    cases hf : listFind 0 p.key (binNodes s) with
    | some old => exact binNodes_cipRm H p hop hf
    | none =>
      obtain ⟨h1, h2, -⟩ := binNodes_absent p (Or.inr (Or.inl hop)) hf
      exact ⟨by rw [h1], h2⟩

/-- the store keeps the keys of the sequential bin distinct -/
theorem binNodes_keysNodup {s : State} (H : HInv s) : KeysNodup (binNodes s) := by
  unfold KeysNodup
  rw [binNodes_eq, List.map_map]
  refine (List.pairwise_map).2 ?_
  refine (chain_nodup H).imp_of_mem ?_
  intro a b ha hb hab he
  exact hab (H.keysDistinct a ha b hb he)

/-! ## the lock-free CAS into an empty bin -/

/-- an empty bin cell is an empty sequential bin -/
theorem binNodes_empty {s : State} (H : HInv s) (hh : s.head = none) : binNodes s = [] := by
  rw [binNodes_eq, chain_head_none H hh]
  rfl

/-- the CAS `none → new node` of `put` / `try_insert` on an empty bin: `[] ↦ [node]` -/
theorem binNodes_cas {s : State} (H : HInv s) (hh : s.head = none) (k v vi : Nat) :
    binNodes s = [] ∧
    binNodes { s with heap := s.heap ++ [(⟨k, (v, vi), none, none⟩ : NodeS)], head := some s.heap.length } =
      [{ hash := 0, key := k, ki := 0, val := v, vi := vi }] := by
  have hempty := chain_head_none H hh
  refine ⟨binNodes_empty H hh, ?_⟩
  have hc := append_empty_chain
    (s' := { s with heap := s.heap ++ [(⟨k, (v, vi), none, none⟩ : NodeS)], head := some s.heap.length })
    (new := (⟨k, (v, vi), none, none⟩ : NodeS)) H hempty rfl rfl rfl
  rw [binNodes_eq, hc]
  show [toNode (s.heap ++ [(⟨k, (v, vi), none, none⟩ : NodeS)]) s.heap.length] = _
  rw [toNode_append_new]
  rfl

/-- the CAS is the sequential update as well (the `.empty` arm of `Seq.put`: `.list [nd]`) -/
theorem cas_refines_seq {s : State} (H : HInv s) (hh : s.head = none) (p : Pending) {v vi : Nat}
    (hop : p.op = .ins v vi ∨ p.op = .tryIns v vi) :
    binNodes { s with heap := s.heap ++ [(⟨p.key, (v, vi), none, none⟩ : NodeS)], head := some s.heap.length } =
      (seqStore (binNodes s) p.key p.op).1 ∧ KRes.none = (seqStore (binNodes s) p.key p.op).2 := by
  obtain ⟨h0, h1⟩ := binNodes_cas H hh p.key v vi
  rw [h1, h0]
  rcases hop with hop | hop <;> rw [hop] <;> exact ⟨rfl, rfl⟩

/-! ## every transition of `step` -/

theorem toNode_modify_same (heap : List NodeS) (i : Nat) {f : NodeS → NodeS}
    (hf : ∀ n, (f n).key = n.key ∧ (f n).val = n.val) (j : Nat) :
    toNode (heap.modify i f) j = toNode heap j := by
  unfold toNode
  rw [nodeAt_modify]
  split
  · rw [(hf _).1, (hf _).2]
  · rfl

/-- locking and unlocking do not change the sequential bin -/
theorem binNodes_setNode_lock {s : State} (H : HInv s) (h : Nat) (x : Option Nat) :
    binNodes (setNode s h (fun m => { m with lock := x })) = binNodes s := by
  obtain ⟨-, -, hc⟩ := modify_chain (s' := setNode s h (fun m => { m with lock := x })) H rfl rfl
    (fun n => ⟨rfl, rfl⟩)
  rw [binNodes_eq, binNodes_eq, hc]
  exact List.map_congr_left (fun j _ =>
    toNode_modify_same s.heap h (f := fun m => { m with lock := x }) (fun n => ⟨rfl, rfl⟩) j)

/-- **every transition is a step of the sequential bin or leaves it alone**: the bin as the
sequential model sees it changes only at the store of a validated writer and at the CAS into an
empty bin, and there it changes by `seqStore` of the call of the thread. -/
theorem stepK_refines_seq {s s' : State} {t : Nat} {l : Local} (H : HInv s) (hs : StepK s t l s') :
    binNodes s' = binNodes s ∨
      ∃ p, l.call = some p ∧
        (l.pc = .wCas ∨ ∃ h, l.pc = .wWrite h) ∧
        binNodes s' = (seqStore (binNodes s) p.key p.op).1 := by
  have Ht : HInv (tick s) := H.congr rfl rfl
  have hbt : binNodes (tick s) = binNodes s := binNodes_congr rfl rfl
  cases hs with
  | idle _ => exact Or.inl (binNodes_congr rfl rfl)
  | invoke k op _ => exact Or.inl (binNodes_congr rfl rfl)
  | move p pc' _ _ => exact Or.inl (binNodes_congr rfl rfl)
  | lockMove p h x pc' _ _ =>
    refine Or.inl ?_
    have e1 : binNodes (setT (setNode (tick s) h (fun m => { m with lock := x })) t { l with pc := pc' }) =
        binNodes (setNode (tick s) h (fun m => { m with lock := x })) := binNodes_congr rfl rfl
    rw [e1, binNodes_setNode_lock Ht, hbt]
  | fin p res _ _ => exact Or.inl (binNodes_congr rfl rfl)
  | cas p v vi hc hpc hh hop =>
    refine Or.inr ⟨p, hc, Or.inl hpc, ?_⟩
    have e2 := (cas_refines_seq H hh p hop).1
    exact (binNodes_congr rfl rfl).trans e2
  | write p h hc hpc =>
    refine Or.inr ⟨p, hc, Or.inr ⟨h, hpc⟩, ?_⟩
    have e1 : binNodes (setT (writerStore (tick s) p).1 t
        { l with pc := .wUnlock h (writerStore (tick s) p).2 false }) =
        binNodes (writerStore (tick s) p).1 := binNodes_congr rfl rfl
    rw [e1, (writerStore_refines_seq Ht p).1, hbt]
  | unlockFin p h res _ _ =>
    refine Or.inl ?_
    have e1 : binNodes (finish (setNode (tick s) h (fun m => { m with lock := none })) t p res) =
        binNodes (setNode (tick s) h (fun m => { m with lock := none })) := binNodes_congr rfl rfl
    rw [e1, binNodes_setNode_lock Ht, hbt]

end Flurry.Proto.Bin

/-! ## the same for `Proto/BinW` (the writer's walk spelled out) -/
namespace Flurry.Proto.BinW
open Flurry.Lin Flurry.Seq

/-- the bin of a `BinW` state as the sequential model sees it -/
def binNodes (s : State) : List Flurry.Node := Bin.binNodes (proj s)

/-- **the store through the positions remembered during the walk is the sequential update of the
list bin**, for every writer that reaches `wStore` in a reachable state -/
theorem storeAt_refines_seq {n : Nat} {s : State} (hr : Reachable n s) {t : Nat} {l : Local}
    {p : Pending} {h : Nat} {pred hit hnext : Option Nat}
    (hl : s.threads[t]? = some l) (hpc : l.pc = .wStore h pred hit hnext) (hc : l.call = some p) :
    binNodes (storeAt s p pred hit hnext).1 = (Bin.seqStore (binNodes s) p.key p.op).1 ∧
      (storeAt s p pred hit hnext).2 = (Bin.seqStore (binNodes s) p.key p.op).2 := by
  have W := reachable_winv hr
  have w := W.walk t l p hl hc
  rw [hpc] at w
  obtain ⟨e1, e2⟩ := storeAt_eq_writerStore W.inv.heap w.1 w.2
  unfold binNodes
  rw [e1, e2]
  exact Bin.writerStore_refines_seq W.inv.heap (cP p)

end Flurry.Proto.BinW
