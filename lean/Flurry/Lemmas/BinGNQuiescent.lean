import Flurry.Lemmas.BinGNPLin
/-! # Proto/BinGN at quiescence: what an iterator yields is what lookups find (C05), any number of resizes

Port of `Lemmas/BinGQuiescent.lean` to the cells `(g, j)` of `Proto/BinGN`.

`liveIds s`: the ids of the cells a lookup that starts now can end in — below cell `(cur, j)` that is `(cur, j)`
itself until its forwarding marker is stored, and its two children `(cur+1, j)`, `(cur+1, j + 2^cur)` afterwards;
for `j = 0 … 2^cur − 1` in this order. When generation `cur` holds no marker (no resize is running — in particular
at quiescence) these are exactly the cells `(cur, 0) … (cur, 2^cur − 1)` (`liveIds_of_not_moved`).
`liveCells s`: the contents of these cells. `entries s`: the (key, value) pairs of the nodes on the lists of the live
cells, in list order — what an iterator that starts now and runs alone yields (for a tree bin the iterator walks
the `first` / `next` list, `chainOfBin`).

From the structural invariant `BinGNP.Inv` (`Lemmas/BinGNPInv.lean`):
* `entries_keys_nodup`, `mem_entries_iff_absOf`, `entries_own_cell`, `entries_in_liveCell`: no key twice (across
  ALL live cells: within a cell by `CInv.distinct`, across cells by `HInv.side`), iteration = lookup, every entry
  in the cell its key selects — in EVERY reachable state;
* `quiescent_node_unlocked`, `quiescent_mutex_free`, `quiescent_no_readers`, `quiescent_bin_unlocked`: at
  quiescence no lock word, mutex, write lock, waiter bit or read lock is held;
* `entries_linearized`: at quiescence the history of a yielded key linearizes to "present with the yielded value",
  that of any other key to "absent". -/
namespace Flurry.Proto.BinGNQ
open Flurry.Lin
open Flurry.Proto.BinGNP
open Flurry.Proto.BinK (nodeAt binAt CInv absL chainOf)

/-! ## definitions -/

/-- the ids of the cells a lookup of a key of cell `(cur, j)` that starts now can end in -/
def liveIdsOf (s : State) (j : Nat) : List Cid :=
  if cellAt s (s.cur, j) = .moved then [(s.cur + 1, j), (s.cur + 1, j + 2 ^ s.cur)] else [(s.cur, j)]

/-- the ids of the cells a lookup that starts now can end in -/
def liveIds (s : State) : List Cid := (List.range (2 ^ s.cur)).flatMap (liveIdsOf s)

/-- the cells a lookup that starts now can end in -/
def liveCells (s : State) : List Cell := (liveIds s).map (cellAt s)

/-- the (key, value) pairs on the list of the structure in cell `c`, in list order -/
def entriesOfCell (s : State) (c : Cell) : List (Nat × (Nat × Nat)) :=
  (chainOfCell s c).map fun i => ((s.heap.getD i dflt).key, (s.heap.getD i dflt).val)

/-- what an iterator that starts now and runs alone yields: the entries of the live cells -/
def entries (s : State) : List (Nat × (Nat × Nat)) := (liveCells s).flatMap (entriesOfCell s)

/-! ## the live ids -/

theorem mem_liveIds {s : State} {id : Cid} : id ∈ liveIds s ↔ ∃ j, j < 2 ^ s.cur ∧ id ∈ liveIdsOf s j := by
  unfold liveIds
  rw [List.mem_flatMap]
  constructor
  · rintro ⟨j, hj, h⟩; exact ⟨j, List.mem_range.1 hj, h⟩
  · rintro ⟨j, hj, h⟩; exact ⟨j, List.mem_range.2 hj, h⟩

theorem liveIdsOf_mod {s : State} {j : Nat} (hj : j < 2 ^ s.cur) {id : Cid} (h : id ∈ liveIdsOf s j) :
    id.2 % 2 ^ s.cur = j := by
  unfold liveIdsOf at h
  split at h
  · simp only [List.mem_cons, List.not_mem_nil, or_false] at h
    rcases h with rfl | rfl
    · exact Nat.mod_eq_of_lt hj
    · exact high_mod hj
  · simp only [List.mem_cons, List.not_mem_nil, or_false] at h
    subst h
    exact Nat.mod_eq_of_lt hj

theorem liveIdsOf_nodup (s : State) (j : Nat) : (liveIdsOf s j).Nodup := by
  unfold liveIdsOf
  split
  · refine List.nodup_cons.2 ⟨?_, by simp⟩
    simp only [List.mem_cons, List.not_mem_nil, or_false]
    intro h
    have h1 := (Prod.mk.inj h).2
    have h2 := pow_pos' s.cur
    omega
  · simp

theorem liveIds_nodup (s : State) : (liveIds s).Nodup := by
  unfold liveIds List.Nodup
  rw [List.pairwise_flatMap]
  refine ⟨fun j _ => liveIdsOf_nodup s j, ?_⟩
  refine List.Pairwise.imp_of_mem ?_ (List.nodup_range (n := 2 ^ s.cur))
  intro a b ha hb hab x hx y hy hxy
  subst hxy
  exact hab ((liveIdsOf_mod (List.mem_range.1 ha) hx).symm.trans (liveIdsOf_mod (List.mem_range.1 hb) hy))

/-- a key that belongs to a live cell is looked up there -/
theorem liveId_of_mem {s : State} {id : Cid} (h : id ∈ liveIds s) {k : Nat} (hk : k % 2 ^ id.1 = id.2) :
    liveId s k = id := by
  obtain ⟨j, hj, hid⟩ := mem_liveIds.1 h
  unfold liveIdsOf at hid
  unfold liveId idOf
  split at hid
  · rename_i hm
    simp only [List.mem_cons, List.not_mem_nil, or_false] at hid
    have hkj : k % 2 ^ s.cur = j := by
      have h1 := mod_succ_mod k s.cur
      rcases hid with rfl | rfl
      · simp only at hk
        rw [hk] at h1
        rw [← h1]
        exact Nat.mod_eq_of_lt hj
      · simp only at hk
        rw [hk] at h1
        rw [← h1]
        exact high_mod hj
    rw [hkj, if_pos hm]
    rcases hid with rfl | rfl
    · simp only at hk
      rw [hk]
    · simp only at hk
      rw [hk]
  · rename_i hm
    simp only [List.mem_cons, List.not_mem_nil, or_false] at hid
    subst hid
    simp only at hk
    rw [hk, if_neg hm]

/-- the cell a lookup of `k` ends in is a live one -/
theorem liveId_mem (s : State) (k : Nat) : liveId s k ∈ liveIds s := by
  refine mem_liveIds.2 ⟨k % 2 ^ s.cur, Nat.mod_lt _ (pow_pos' _), ?_⟩
  unfold liveId liveIdsOf idOf
  by_cases hm : cellAt s (s.cur, k % 2 ^ s.cur) = .moved
  · rw [if_pos hm, if_pos hm, mod_succ_eq]
    cases bitAt s.cur k <;> simp
  · rw [if_neg hm, if_neg hm]
    simp

theorem flatMap_singleton_aux {α β : Type} (f : α → β) (l : List α) : l.flatMap (fun a => [f a]) = l.map f := by
  induction l with
  | nil => rfl
  | cons a l ih => rw [List.flatMap_cons, ih]; rfl

/-- when generation `cur` holds no forwarding marker (no resize running), the live cells are exactly the cells of
generation `cur` -/
theorem liveIds_of_not_moved {s : State} (h : ∀ j, cellAt s (s.cur, j) ≠ .moved) :
    liveIds s = (List.range (2 ^ s.cur)).map fun j => (s.cur, j) := by
  unfold liveIds
  have : liveIdsOf s = fun j => [(s.cur, j)] := funext fun j => if_neg (h j)
  rw [this, flatMap_singleton_aux]

theorem liveCells_of_not_moved {s : State} (h : ∀ j, cellAt s (s.cur, j) ≠ .moved) :
    liveCells s = (List.range (2 ^ s.cur)).map fun j => Flurry.Proto.BinGN.cellAt s s.cur j := by
  unfold liveCells
  rw [liveIds_of_not_moved h, List.map_map]
  rfl

/-! ## entries -/

theorem mem_entriesOfCell {s : State} {c : Cell} {k : Nat} {v : Nat × Nat} :
    (k, v) ∈ entriesOfCell s c ↔ ∃ i ∈ chainC s c, (nodeAt s.heap i).key = k ∧ (nodeAt s.heap i).val = v := by
  unfold entriesOfCell
  rw [chainOfCell_eq, List.mem_map]
  constructor
  · rintro ⟨i, hi, he⟩
    simp only [Prod.mk.injEq] at he
    exact ⟨i, hi, he.1, he.2⟩
  · rintro ⟨i, hi, hk, hv⟩
    exact ⟨i, hi, by simp only [Prod.mk.injEq]; exact ⟨hk, hv⟩⟩

theorem entriesOfCell_keys (s : State) (c : Cell) :
    (entriesOfCell s c).map (·.1) = (chainC s c).map fun i => (nodeAt s.heap i).key := by
  unfold entriesOfCell
  rw [chainOfCell_eq, List.map_map]
  rfl

theorem mem_entries {s : State} {x : Nat × (Nat × Nat)} :
    x ∈ entries s ↔ ∃ id, id ∈ liveIds s ∧ x ∈ entriesOfCell s (cellAt s id) := by
  unfold entries liveCells
  rw [List.flatMap_map, List.mem_flatMap]

/-- at quiescence (no marker in generation `cur`): the entries are those of the cells `(cur, 0) … (cur, 2^cur − 1)` -/
theorem entries_of_not_moved {s : State} (h : ∀ j, cellAt s (s.cur, j) ≠ .moved) :
    entries s = (List.range (2 ^ s.cur)).flatMap fun j => entriesOfCell s (Flurry.Proto.BinGN.cellAt s s.cur j) := by
  unfold entries
  rw [liveCells_of_not_moved h, List.flatMap_map]

/-! ## no key twice -/

/-- the keys on the list of any cell are pairwise distinct -/
theorem cell_keys_nodup {s : State} (H : HInv s) (id : Cid) :
    ((entriesOfCell s (cellAt s id)).map (·.1)).Nodup := by
  rw [entriesOfCell_keys]
  have C := H.cinv id
  have hnd : (chainC s (cellAt s id)).Nodup := C.nodup
  unfold List.Nodup
  rw [List.pairwise_map]
  refine List.Pairwise.imp_of_mem ?_ hnd
  intro a b ha hb hab hk
  exact hab (C.distinct a b ha hb hk)

/-- an entry of cell `(g, j)` belongs to that cell: `key % 2^g = j` -/
theorem cell_side {s : State} (H : HInv s) {id : Cid} {k : Nat} {v : Nat × Nat}
    (h : (k, v) ∈ entriesOfCell s (cellAt s id)) : k % 2 ^ id.1 = id.2 := by
  obtain ⟨i, hi, hk, -⟩ := mem_entriesOfCell.1 h
  rw [← hk]
  exact H.side id i (Or.inl hi)

theorem entries_keys_nodup {s : State} (H : HInv s) : ((entries s).map (·.1)).Nodup := by
  unfold entries liveCells
  rw [List.flatMap_map, List.map_flatMap]
  unfold List.Nodup
  rw [List.pairwise_flatMap]
  refine ⟨fun id _ => cell_keys_nodup H id, ?_⟩
  refine List.Pairwise.imp_of_mem ?_ (liveIds_nodup s)
  intro a b ha hb hab x hx y hy hxy
  subst hxy
  obtain ⟨⟨k, v⟩, hx', rfl⟩ := List.mem_map.1 hx
  obtain ⟨⟨k', v'⟩, hy', hk⟩ := List.mem_map.1 hy
  simp only at hk
  subst hk
  exact hab ((liveId_of_mem ha (cell_side H hx')).symm.trans (liveId_of_mem hb (cell_side H hy')))

/-- no entry is yielded twice -/
theorem entries_nodup {s : State} (H : HInv s) : (entries s).Nodup := by
  have h := entries_keys_nodup H
  unfold List.Nodup at h ⊢
  rw [List.pairwise_map] at h
  exact h.imp (fun hab e => hab (by rw [e]))

/-! ## every entry is in the cell its key selects -/

/-- an entry found in the live cell `(g, j)` has `key % 2^g = j` -/
theorem entries_own_cell {s : State} (H : HInv s) {id : Cid} {k : Nat} {v : Nat × Nat}
    (h : (k, v) ∈ entriesOfCell s (cellAt s id)) : k % 2 ^ id.1 = id.2 := cell_side H h

/-- an entry is on the list of the cell a lookup of its key ends in -/
theorem entries_in_liveCell {s : State} (H : HInv s) (X : XInv s) {k : Nat} {v : Nat × Nat} :
    (k, v) ∈ entries s ↔ (k, v) ∈ entriesOfCell s (liveCell s k) := by
  rw [liveCell_eq X, mem_entries]
  constructor
  · rintro ⟨id, hid, h⟩
    rw [liveId_of_mem hid (cell_side H h)]
    exact h
  · intro h
    exact ⟨liveId s k, liveId_mem s k, h⟩

/-! ## iteration = lookup -/

theorem mem_entries_iff_absOf {s : State} (H : HInv s) (X : XInv s) (k : Nat) (v : Nat × Nat) :
    (k, v) ∈ entries s ↔ absOf s k = some v := by
  rw [entries_in_liveCell H X, mem_entriesOfCell, absOf_eq]
  unfold LC
  have hd : ∀ i j, i ∈ chainC s (liveCell s k) → j ∈ chainC s (liveCell s k) →
      (nodeAt s.heap i).key = (nodeAt s.heap j).key → i = j := by
    rw [liveCell_eq X]
    exact (H.cinv (liveId s k)).distinct
  rw [Flurry.Proto.BinK.absL_eq_some_iff hd]

theorem mem_keys_iff_absOf {s : State} (H : HInv s) (X : XInv s) (k : Nat) :
    k ∈ (entries s).map (·.1) ↔ absOf s k ≠ none := by
  rw [List.mem_map]
  constructor
  · rintro ⟨⟨k', v⟩, h, rfl⟩
    rw [(mem_entries_iff_absOf H X k' v).1 h]
    exact fun e => by cases e
  · intro h
    cases ha : absOf s k with
    | none => exact absurd ha h
    | some v => exact ⟨(k, v), (mem_entries_iff_absOf H X k v).2 ha, rfl⟩

/-- the number of entries is the number of keys a lookup finds: any duplicate-free enumeration of
those keys is a permutation of the keys yielded -/
theorem entries_count {s : State} (H : HInv s) (X : XInv s) {ks : List Nat} (hnd : ks.Nodup)
    (hks : ∀ k, k ∈ ks ↔ absOf s k ≠ none) :
    ks.Perm ((entries s).map (·.1)) ∧ ks.length = (entries s).length := by
  have hp : ks.Perm ((entries s).map (·.1)) := by
    rw [List.perm_ext_iff_of_nodup hnd (entries_keys_nodup H)]
    intro k
    rw [hks, mem_keys_iff_absOf H X]
  refine ⟨hp, ?_⟩
  rw [hp.length_eq, List.length_map]

/-! ## nothing is locked at quiescence -/

theorem quiescent_node_unlocked {s : State} (I : Inv s) (hq : quiescent s) (j : Nat) :
    (nodeAt s.heap j).lock = none := by
  cases hlk : (nodeAt s.heap j).lock with
  | none => rfl
  | some x =>
    exfalso
    have hx := I.lock.lkValid j x hlk
    have hlx : s.threads[x]? = some s.threads[x] := List.getElem?_eq_getElem hx
    have := (I.lock.lk x _ j hlx).2 hlk
    rw [hq _ (List.getElem_mem hx)] at this
    cases this

theorem quiescent_mutex_free {s : State} (I : Inv s) (hq : quiescent s) (b : Nat) :
    (binAt s.tbins b).mutex = none := by
  cases hmx : (binAt s.tbins b).mutex with
  | none => rfl
  | some x =>
    exfalso
    have hx := I.lock.mxValid b x hmx
    have hlx : s.threads[x]? = some s.threads[x] := List.getElem?_eq_getElem hx
    have := (I.lock.mx x _ b hlx).2 hmx
    rw [hq _ (List.getElem_mem hx)] at this
    cases this

theorem quiescent_no_readers {s : State} (I : Inv s) (hq : quiescent s) {b : Nat} (hb : b < s.tbins.length) :
    (binAt s.tbins b).readers = 0 := by
  rw [I.lock.rd b hb]
  unfold cnt
  rw [List.length_eq_zero_iff, List.filter_eq_nil_iff]
  intro l hl
  rw [hq l hl]
  simp [holdsRead]

/-- a `TreeBin` that is in a cell (of any generation) is completely unlocked -/
theorem quiescent_bin_unlocked {s : State} (I : Inv s) (hq : quiescent s) {id : Cid} {b : Nat}
    (hc : cellAt s id = .tree b) :
    (binAt s.tbins b).mutex = none ∧ (binAt s.tbins b).writer = false ∧ (binAt s.tbins b).waiter = false ∧
      (binAt s.tbins b).readers = 0 := by
  have hm := quiescent_mutex_free I hq b
  obtain ⟨hw, hwt⟩ := I.lock.bitsNone id b hc hm
  exact ⟨hm, hw, hwt, quiescent_no_readers I hq (I.heap.cellOK id b hc)⟩

/-- a live cell is a cell -/
theorem liveCells_sub {s : State} {c : Cell} (h : c ∈ liveCells s) : ∃ id, id ∈ liveIds s ∧ c = cellAt s id := by
  unfold liveCells at h
  obtain ⟨id, hid, rfl⟩ := List.mem_map.1 h
  exact ⟨id, hid, rfl⟩

/-- no live cell holds the forwarding marker -/
theorem liveCells_not_moved {s : State} (X : XInv s) {c : Cell} (h : c ∈ liveCells s) : c ≠ .moved := by
  obtain ⟨id, hid, rfl⟩ := liveCells_sub h
  obtain ⟨j, -, hj⟩ := mem_liveIds.1 hid
  unfold liveIdsOf at hj
  split at hj
  · simp only [List.mem_cons, List.not_mem_nil, or_false] at hj
    rcases hj with rfl | rfl
    · exact X.newNotMoved _
    · exact X.newNotMoved _
  · simp only [List.mem_cons, List.not_mem_nil, or_false] at hj
    subst hj
    assumption

/-- at quiescence the history of a yielded key linearizes to "present with the yielded value", that of
any other key to "absent" -/
theorem entries_linearized {n : Nat} {s : State} (hr : Reachable n s) (hq : quiescent s) (k : Nat) :
    (∀ v, (k, v) ∈ entries s → Lin.Linearizable (callsOn s k) none (some v)) ∧
    (k ∉ (entries s).map (·.1) → Lin.Linearizable (callsOn s k) none none) := by
  have I := reachable_inv hr
  have H := I.heap
  have X := I.rsz
  have hlin := binGN_linearizable_quiescent_aux hr hq k
  constructor
  · intro v hv
    rw [← (mem_entries_iff_absOf H X k v).1 hv]
    exact hlin
  · intro hk
    have : absOf s k = none := by
      cases ha : absOf s k with
      | none => rfl
      | some v => exact absurd ((mem_keys_iff_absOf H X k).2 (by rw [ha]; exact fun e => by cases e)) hk
    rw [this] at hlin
    exact hlin

/-- the cell a lookup of `k` ends in is a live cell -/
theorem liveCell_mem_liveCells {s : State} (X : XInv s) (k : Nat) : liveCell s k ∈ liveCells s := by
  rw [liveCell_eq X]
  unfold liveCells
  exact List.mem_map.2 ⟨liveId s k, liveId_mem s k, rfl⟩

/-- all the locks of the structures in the live cells are free: no node on a live list has its lock word
taken, a `TreeBin` in a live cell has its mutex, write lock, waiter bit and reader count clear -/
theorem quiescent_live_unlocked {s : State} (I : Inv s) (hq : quiescent s) {c : Cell} (hc : c ∈ liveCells s) :
    (∀ j ∈ chainOfCell s c, (nodeAt s.heap j).lock = none) ∧
    ∀ b, c = .tree b → (binAt s.tbins b).mutex = none ∧ (binAt s.tbins b).writer = false ∧
      (binAt s.tbins b).waiter = false ∧ (binAt s.tbins b).readers = 0 := by
  refine ⟨fun j _ => quiescent_node_unlocked I hq j, ?_⟩
  intro b hb
  obtain ⟨id, -, hid⟩ := liveCells_sub hc
  exact quiescent_bin_unlocked I hq (id := id) (by rw [← hid, hb])

end Flurry.Proto.BinGNQ
