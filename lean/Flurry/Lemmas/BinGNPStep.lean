import Flurry.Lemmas.BinGNPBase
import Flurry.Lemmas.BinKStep
/-! # Proto/BinGN: the transitions in normal form (port of `Lemmas/BinGStep.lean`)

`StepN s t l s'` lists the transitions of thread `t` of `step = stepG true` with explicit successor
states, grouped by what they do to the shared state (as `Lemmas/BinKStep.lean`):
* `move` / `bmove` / `fin` / `bfin` (a call in flight), `kmove` / `kbmove` (treeify and resize
  threads): heap cells other than lock words, the `first` fields, the three bin cells and the table
  pointer are untouched; the program counter moves, one lock word of a node or the synchronisation
  words of one `TreeBin` may change;
* the stores of `Proto/BinK`: `cas`, `store`, `tval`, `prepend`, `treeLink`, `unlink`, `untree`,
  `untreeify`, `kbuild`, `kstore` (now in the cell of the key in generation `g`);
* the resize of generation `s.cur`: `resizeStart` (allocates generation `cur + 1`), and per cell `(cur, j)`:
  `xcasMoved j`, `xbuild j` (list split), `ybuild j` (tree split), `xstoreLow j` (child `(cur+1, j)`),
  `xstoreHigh j` (child `(cur+1, j + 2^cur)`), `xstoreMoved j`; `xcommit`. The choice of the next cell
  (`xNext`) is a `kmove`.
`step_stepN` dissects `step` once and for all. -/
namespace Flurry.Proto.BinGNP
open Flurry.Lin
open Flurry.Proto.BinK (nodeAt binAt lockSet isInsert)

/-- the state with the clock advanced -/
def tick (s : State) : State := { s with now := s.now + 1 }

/-- clock advanced, heap and `TreeBin` table replaced -/
def qst (s : State) (hp : List NodeS) (tb : List TBin) : State :=
  { s with now := s.now + 1, heap := hp, tbins := tb }

/-- the list unlink of node `i` of tree bin `b` -/
def unlinkOf (s : State) (b i : Nat) : State :=
  match predOf (chainOfBin s b) i with
  | some pr => setNode s pr (fun m => { m with next := (nodeAt s.heap i).next })
  | none => setBin s b (fun y => { y with first := (nodeAt s.heap i).next })

/-- the tree's view of key `k` in bin `b` -/
def absTree (s : State) (b k : Nat) : KSt :=
  match treeFind s b k with
  | some i => some (nodeAt s.heap i).val
  | none => none

/-- transitions of a thread with a call in flight that leave the shared state alone but for one lock
word of a node, and do not complete the call: `Move s t p pc pc' heap'` -/
inductive Move (s : State) (t : Nat) (p : Pending) : Pc → Pc → List NodeS → Prop
  | rTable {lo : Bool} : Move s t p (.rTable lo) (.rCell lo s.cur) s.heap
  | rCellMoved {lo : Bool} {g : Nat} : cellOf s g p.key = .moved →
      Move s t p (.rCell lo g) (.rCell lo (g + 1)) s.heap
  | rCellList {lo : Bool} {g : Nat} {h : Nat} : cellOf s g p.key = .list h →
      Move s t p (.rCell lo g) (.rNode (some h)) s.heap
  | rCellTree {lo : Bool} {g : Nat} {b : Nat} : cellOf s g p.key = .tree b →
      Move s t p (.rCell lo g) (if lo then .lFirst b else .rFirst b) s.heap
  | rNodeNext {c : Nat} {n : NodeS} : s.heap[c]? = some n → n.key ≠ p.key →
      Move s t p (.rNode (some c)) (.rNode n.next) s.heap
  | rFirst {b : Nat} : Move s t p (.rFirst b) (.rState b (binAt s.tbins b).first) s.heap
  | rLinMode {b c : Nat} : ((binAt s.tbins b).writer || (binAt s.tbins b).waiter) = true →
      Move s t p (.rState b (some c)) (.rLin b c) s.heap
  | rTreeMode {b c : Nat} : ((binAt s.tbins b).writer || (binAt s.tbins b).waiter) = false →
      Move s t p (.rState b (some c)) (.rCas b c (binAt s.tbins b).readers) s.heap
  | rLinNext {b c : Nat} {n : NodeS} : s.heap[c]? = some n → n.key ≠ p.key →
      Move s t p (.rLin b c) (.rState b n.next) s.heap
  | rLinHit {b c : Nat} {n : NodeS} : s.heap[c]? = some n → n.key = p.key → p.op ≠ .has →
      Move s t p (.rLin b c) (.rVal c) s.heap
  | rCasFail {b c r : Nat} : Move s t p (.rCas b c r) (.rState b (some c)) s.heap
  | rTree {b : Nat} : Move s t p (.rTree b) (.rRelease b (treeFind s b p.key)) s.heap
  | lFirst {b : Nat} : Move s t p (.lFirst b) (.lNode (binAt s.tbins b).first) s.heap
  | lNext {c : Nat} {n : NodeS} : s.heap[c]? = some n → n.key ≠ p.key →
      Move s t p (.lNode (some c)) (.lNode n.next) s.heap
  | lHit {c : Nat} {n : NodeS} : s.heap[c]? = some n → n.key = p.key → p.op ≠ .has →
      Move s t p (.lNode (some c)) (.rVal c) s.heap
  | wTable : Move s t p .wTable (.wCell s.cur) s.heap
  | wCellMoved {g : Nat} : cellOf s g p.key = .moved → Move s t p (.wCell g) (.wCell (g + 1)) s.heap
  | wCellCas {g : Nat} : cellOf s g p.key = .empty → isInsert p.op = true →
      Move s t p (.wCell g) (.wCas g) s.heap
  | wCellList {g : Nat} {h : Nat} : cellOf s g p.key = .list h →
      Move s t p (.wCell g) (.wLock g h) s.heap
  | wCellTree {g : Nat} {b : Nat} : cellOf s g p.key = .tree b →
      Move s t p (.wCell g) (.tMutex g b) s.heap
  | wCasFail {g : Nat} : (cellOf s g p.key ≠ .empty ∨ isInsert p.op = false) →
      Move s t p (.wCas g) (.wCell g) s.heap
  | wLock {g : Nat} {h : Nat} {n : NodeS} : s.heap[h]? = some n → n.lock = none →
      Move s t p (.wLock g h) (.wCheck g h) (lockSet s.heap h (some t))
  | wCheckOk {g : Nat} {h : Nat} : cellOf s g p.key = .list h →
      Move s t p (.wCheck g h) (.wFind g h none (some h)) s.heap
  | wCheckFail {g : Nat} {h : Nat} : cellOf s g p.key ≠ .list h →
      Move s t p (.wCheck g h) (.wUnlock g h .none true) s.heap
  | wFindEnd {g : Nat} {h : Nat} {pred : Option Nat} :
      Move s t p (.wFind g h pred none) (.wStore g h pred none none) s.heap
  | wFindHit {g : Nat} {h : Nat} {pred : Option Nat} {c : Nat} {n : NodeS} : s.heap[c]? = some n →
      n.key = p.key → Move s t p (.wFind g h pred (some c)) (.wStore g h pred (some c) n.next) s.heap
  | wFindNext {g : Nat} {h : Nat} {pred : Option Nat} {c : Nat} {n : NodeS} : s.heap[c]? = some n →
      n.key ≠ p.key → Move s t p (.wFind g h pred (some c)) (.wFind g h (some c) n.next) s.heap
  | wUnlockRetry {g : Nat} {h : Nat} {res : KRes} :
      Move s t p (.wUnlock g h res true) (.wCell g) (lockSet s.heap h none)
  | tCheckOk {g : Nat} {b : Nat} : cellOf s g p.key = .tree b →
      Move s t p (.tCheck g b) (.tFind g b) s.heap
  | tCheckFail {g : Nat} {b : Nat} : cellOf s g p.key ≠ .tree b →
      Move s t p (.tCheck g b) (.tUnlockM g b .none true) s.heap
  | findVal {g : Nat} {b i : Nat} {v : Nat × Nat} {res : KRes} : treeFind s b p.key = some i →
      specStep (some (nodeAt s.heap i).val) p.op = (some v, res) →
      Move s t p (.tFind g b) (.tVal g b i v res) s.heap
  | findInsert {g : Nat} {b : Nat} : treeFind s b p.key = none → isInsert p.op = true →
      Move s t p (.tFind g b) (.lrTry g b .insert .none) s.heap
  | findRemove {g : Nat} {b i : Nat} {res : KRes} : treeFind s b p.key = some i →
      specStep (some (nodeAt s.heap i).val) p.op = (none, res) →
      Move s t p (.tFind g b) (.lrTry g b (.remove i) res) s.heap
  | findDone {g : Nat} {b : Nat} {res : KRes} :
      specStep (absTree s b p.key) p.op = (absTree s b p.key, res) →
      Move s t p (.tFind g b) (.tUnlockM g b res false) s.heap
  | lrTryFail {g : Nat} {b : Nat} {k : After} {res : KRes} :
      Move s t p (.lrTry g b k res) (.lrLoop g b k res) s.heap

/-- transitions of a thread with a call in flight that change the synchronisation words of one
`TreeBin` and do not complete the call: `BMove s t p pc pc' tbins'` -/
inductive BMove (s : State) (t : Nat) (p : Pending) : Pc → Pc → List TBin → Prop
  | rCasOk {b c r : Nat} : (binAt s.tbins b).writer = false → (binAt s.tbins b).waiter = false →
      (binAt s.tbins b).readers = r →
      BMove s t p (.rCas b c r) (.rTree b) (s.tbins.modify b (fun x => { x with readers := x.readers + 1 }))
  | rRelVal {b i : Nat} : p.op ≠ .has →
      BMove s t p (.rRelease b (some i)) (.rVal i) (s.tbins.modify b (fun x => { x with readers := x.readers - 1 }))
  | tMutex {g : Nat} {b : Nat} : (binAt s.tbins b).mutex = none →
      BMove s t p (.tMutex g b) (.tCheck g b) (s.tbins.modify b (fun x => { x with mutex := some t }))
  | lrTryOk {g : Nat} {b : Nat} {k : After} {res : KRes} : (binAt s.tbins b).writer = false →
      (binAt s.tbins b).waiter = false → (binAt s.tbins b).readers = 0 →
      BMove s t p (.lrTry g b k res) (afterLock g b k res) (s.tbins.modify b (fun x => { x with writer := true }))
  | lrLoopOk {g : Nat} {b : Nat} {k : After} {res : KRes} : (binAt s.tbins b).writer = false →
      (binAt s.tbins b).readers = 0 →
      BMove s t p (.lrLoop g b k res) (afterLock g b k res)
        (s.tbins.modify b (fun x => { x with writer := true, waiter := false }))
  | lrLoopWait {g : Nat} {b : Nat} {k : After} {res : KRes} : (binAt s.tbins b).waiter = false →
      BMove s t p (.lrLoop g b k res) (.lrLoop g b k res) (s.tbins.modify b (fun x => { x with waiter := true }))
  | unlockRoot {g : Nat} {b : Nat} {res : KRes} :
      BMove s t p (.tUnlockRoot g b res) (.tUnlockM g b res false)
        (s.tbins.modify b (fun x => { x with writer := false, waiter := false }))
  | tUnlockMRetry {g : Nat} {b : Nat} {res : KRes} :
      BMove s t p (.tUnlockM g b res true) (.wCell g) (s.tbins.modify b (fun x => { x with mutex := none }))

/-- calls that complete without a store: `Fin s p pc res heap'` -/
inductive Fin (s : State) (p : Pending) : Pc → KRes → List NodeS → Prop
  | rCellEmpty {lo : Bool} {g : Nat} : cellOf s g p.key = .empty →
      Fin s p (.rCell lo g) (absentRes p.op) s.heap
  | rNodeMiss : Fin s p (.rNode none) (absentRes p.op) s.heap
  | rNodeHit {c : Nat} {n : NodeS} : s.heap[c]? = some n → n.key = p.key →
      Fin s p (.rNode (some c)) (match p.op with | .has => .bool true | _ => .some n.val.1 n.val.2) s.heap
  | rMiss {b : Nat} : Fin s p (.rState b none) (absentRes p.op) s.heap
  | rLinHas {b c : Nat} {n : NodeS} : s.heap[c]? = some n → n.key = p.key → p.op = .has →
      Fin s p (.rLin b c) (.bool true) s.heap
  | rVal {i : Nat} {n : NodeS} : s.heap[i]? = some n → Fin s p (.rVal i) (.some n.val.1 n.val.2) s.heap
  | lMiss : Fin s p (.lNode none) (absentRes p.op) s.heap
  | lHas {c : Nat} {n : NodeS} : s.heap[c]? = some n → n.key = p.key → p.op = .has →
      Fin s p (.lNode (some c)) (.bool true) s.heap
  | wCellEmpty {g : Nat} : cellOf s g p.key = .empty → isInsert p.op = false →
      Fin s p (.wCell g) .none s.heap
  | wUnlockFin {g : Nat} {h : Nat} {res : KRes} :
      Fin s p (.wUnlock g h res false) res (lockSet s.heap h none)

/-- calls that complete with a change of the synchronisation words of one `TreeBin`:
`BFin s p pc res tbins'` -/
inductive BFin (s : State) (p : Pending) : Pc → KRes → List TBin → Prop
  | rRelNone {b : Nat} : BFin s p (.rRelease b none) (absentRes p.op)
      (s.tbins.modify b (fun x => { x with readers := x.readers - 1 }))
  | rRelHas {b i : Nat} : p.op = .has → BFin s p (.rRelease b (some i)) (.bool true)
      (s.tbins.modify b (fun x => { x with readers := x.readers - 1 }))
  | tUnlockMFin {g : Nat} {b : Nat} {res : KRes} : BFin s p (.tUnlockM g b res false) res
      (s.tbins.modify b (fun x => { x with mutex := none }))

/-- transitions of the treeify thread and of the resizing thread that change at most one lock word
of a node: `KMove s t pc pc' heap'` -/
inductive KMove (s : State) (t : Nat) : Pc → Pc → List NodeS → Prop
  | kTable {k : Nat} : KMove s t (.kTable k) (.kCell s.cur k) s.heap
  | kCellList {g : Nat} {k h : Nat} : cellOf s g k = .list h →
      KMove s t (.kCell g k) (.kLock g k h) s.heap
  | kCellMoved {g : Nat} {k : Nat} : cellOf s g k = .moved → KMove s t (.kCell g k) (.kCell (g + 1) k) s.heap
  | kCellOther {g : Nat} {k : Nat} : (∀ h, cellOf s g k ≠ .list h) → cellOf s g k ≠ .moved →
      KMove s t (.kCell g k) .idle s.heap
  | kLock {g : Nat} {k h : Nat} {n : NodeS} : s.heap[h]? = some n → n.lock = none →
      KMove s t (.kLock g k h) (.kCheck g k h) (lockSet s.heap h (some t))
  | kCheckOk {g : Nat} {k h : Nat} : cellOf s g k = .list h →
      KMove s t (.kCheck g k h) (.kBuild g k h) s.heap
  | kCheckFail {g : Nat} {k h : Nat} : cellOf s g k ≠ .list h →
      KMove s t (.kCheck g k h) (.kUnlock h) s.heap
  | kUnlock {h : Nat} : KMove s t (.kUnlock h) .idle (lockSet s.heap h none)
  | xNextCommit : allMoved s s.cur = true → KMove s t .xNext .xCommit s.heap
  | xNextCell {pick : Nat} : allMoved s s.cur = false → KMove s t .xNext (.xCell (pick % 2 ^ s.cur)) s.heap
  | xCellEmpty {j : Nat} : cellAt s (s.cur, j) = .empty → KMove s t (.xCell j) (.xCasMoved j) s.heap
  | xCellList {j h : Nat} : cellAt s (s.cur, j) = .list h → KMove s t (.xCell j) (.xLock j h) s.heap
  | xCellTree {j b : Nat} : cellAt s (s.cur, j) = .tree b → KMove s t (.xCell j) (.yMutex j b) s.heap
  | xCellMoved {j : Nat} : cellAt s (s.cur, j) = .moved → KMove s t (.xCell j) .xNext s.heap
  | xCasFail {j : Nat} : cellAt s (s.cur, j) ≠ .empty → KMove s t (.xCasMoved j) (.xCell j) s.heap
  | xLock {j h : Nat} {n : NodeS} : s.heap[h]? = some n → n.lock = none →
      KMove s t (.xLock j h) (.xCheck j h) (lockSet s.heap h (some t))
  | xCheckOk {j h : Nat} : cellAt s (s.cur, j) = .list h → KMove s t (.xCheck j h) (.xBuild j h) s.heap
  | xCheckFail {j h : Nat} : cellAt s (s.cur, j) ≠ .list h →
      KMove s t (.xCheck j h) (.xCell j) (lockSet s.heap h none)
  | yCheckOk {j b : Nat} : cellAt s (s.cur, j) = .tree b → KMove s t (.yCheck j b) (.yBuild j b) s.heap
  | xUnlockL {h : Nat} : KMove s t (.xUnlock (.inl h)) .xNext (lockSet s.heap h none)

/-- transitions of the resizing thread that change the mutex of one `TreeBin`:
`KBMove s t pc pc' tbins'` -/
inductive KBMove (s : State) (t : Nat) : Pc → Pc → List TBin → Prop
  | yMutex {j b : Nat} : (binAt s.tbins b).mutex = none →
      KBMove s t (.yMutex j b) (.yCheck j b) (s.tbins.modify b (fun x => { x with mutex := some t }))
  | yCheckFail {j b : Nat} : cellAt s (s.cur, j) ≠ .tree b →
      KBMove s t (.yCheck j b) (.xCell j) (s.tbins.modify b (fun x => { x with mutex := none }))
  | xUnlockT {b : Nat} : KBMove s t (.xUnlock (.inr b)) .xNext (s.tbins.modify b (fun x => { x with mutex := none }))

/-- the state after the copy made by `kBuild` -/
def buildOf (s : State) (h : Nat) : State :=
  { s with
    heap := (copyChain s.heap (chainFrom s.heap s.heap.length (some h))
      (fun src nx => ⟨src.key, src.val, nx, none, true, some s.tbins.length⟩)).1,
    tbins := s.tbins ++ [{ first := (copyChain s.heap (chainFrom s.heap s.heap.length (some h))
      (fun src nx => ⟨src.key, src.val, nx, none, true, some s.tbins.length⟩)).2 }] }

/-- the state after the copy and store of `tUntreeify` -/
def untreeifyOf (s : State) (g : Nat) (k b : Nat) : State :=
  setCell { s with
    heap := (copyChain s.heap (chainOfBin s b) (fun src nx => ⟨src.key, src.val, nx, none, false, none⟩)).1 }
    g k (cellOfHead (copyChain s.heap (chainOfBin s b) (fun src nx => ⟨src.key, src.val, nx, none, false, none⟩)).2)

/-- the list split of `xBuild`: new heap, planned low cell, planned high cell -/
def xsplitOf (s : State) (h : Nat) : List NodeS × Cell × Cell :=
  let r := splitBinB (bitAt s.cur) s.heap (chainFrom s.heap s.heap.length (some h))
  (r.1, cellOfHead r.2.1, cellOfHead r.2.2)

/-- the low nodes / the high nodes of the list of tree bin `b` -/
def lowOf (s : State) (b : Nat) : List Nat := (chainOfBin s b).filter fun i => !bitAt s.cur (s.heap.getD i dflt).key
def highOf (s : State) (b : Nat) : List Nat := (chainOfBin s b).filter fun i => bitAt s.cur (s.heap.getD i dflt).key

/-- the tree split of `yBuild`: the state after both sides, planned low cell, planned high cell -/
def ysplitOf (s : State) (b : Nat) (small small2 : Bool) : State × Cell × Cell :=
  let r1 := splitSide s b (lowOf s b) small (highOf s b).isEmpty
  let r2 := splitSide r1.1 b (highOf s b) small2 (lowOf s b).isEmpty
  (r2.1, r1.2, r2.2)

inductive StepN (s : State) (t : Nat) (l : Local) : State → Prop
  | idle : l.pc = .idle → StepN s t l (setT (tick s) t l)
  | maint (k : Nat) : l.pc = .idle → StepN s t l (setT (tick s) t { l with pc := .kTable k })
  | resizeStart : l.pc = .idle → s.resizing = false →
      StepN s t l { (setT (tick s) t { l with pc := .xNext }) with
        resizing := true, tabs := s.tabs ++ [List.replicate (2 ^ (s.cur + 1)) .empty] }
  | invoke (k : Nat) (op : KOp) (lo : Bool) : l.pc = .idle →
      StepN s t l (setT (tick s) t
        { pc := if isReader op then .rTable lo else .wTable, call := some ⟨k, op, s.now + 1⟩ })
  | move (p : Pending) (pc' : Pc) (hp : List NodeS) : l.call = some p →
      Move s t p l.pc pc' hp → StepN s t l (setT (qst s hp s.tbins) t { l with pc := pc' })
  | bmove (p : Pending) (pc' : Pc) (tb : List TBin) : l.call = some p →
      BMove s t p l.pc pc' tb → StepN s t l (setT (qst s s.heap tb) t { l with pc := pc' })
  | kmove (pc' : Pc) (hp : List NodeS) : l.call = none →
      KMove s t l.pc pc' hp → StepN s t l (setT (qst s hp s.tbins) t { l with pc := pc' })
  | kbmove (pc' : Pc) (tb : List TBin) : l.call = none →
      KBMove s t l.pc pc' tb → StepN s t l (setT (qst s s.heap tb) t { l with pc := pc' })
  | fin (p : Pending) (res : KRes) (hp : List NodeS) : l.call = some p →
      Fin s p l.pc res hp → StepN s t l (finish (qst s hp s.tbins) t p res)
  | bfin (p : Pending) (res : KRes) (tb : List TBin) : l.call = some p →
      BFin s p l.pc res tb → StepN s t l (finish (qst s s.heap tb) t p res)
  | cas (p : Pending) (g : Nat) (v vi : Nat) : l.call = some p → l.pc = .wCas g →
      cellOf s g p.key = .empty → (p.op = .ins v vi ∨ p.op = .tryIns v vi) →
      StepN s t l (finish (setCell (qst s (s.heap ++ [⟨p.key, (v, vi), none, none, false, none⟩]) s.tbins)
        g p.key (.list s.heap.length)) t p .none)
  | store (p : Pending) (g : Nat) (h : Nat) (pred hit hnext : Option Nat) : l.call = some p →
      l.pc = .wStore g h pred hit hnext →
      StepN s t l (setT (storeAt (tick s) g p pred hit hnext).1 t
        { l with pc := .wUnlock g h (storeAt (tick s) g p pred hit hnext).2 false })
  | tval (p : Pending) (g : Nat) (b i : Nat) (v : Nat × Nat) (res : KRes) : l.call = some p →
      l.pc = .tVal g b i v res →
      StepN s t l (setT (setNode (tick s) i (fun n => { n with val := v })) t { l with pc := .tUnlockM g b res false })
  | prepend (p : Pending) (g : Nat) (b v vi : Nat) : l.call = some p → l.pc = .tPrependLocked g b →
      (p.op = .ins v vi ∨ p.op = .tryIns v vi) →
      StepN s t l (setT
        (setBin (qst s (s.heap ++ [⟨p.key, (v, vi), (binAt s.tbins b).first, none, false, some b⟩]) s.tbins)
          b (fun y => { y with first := some s.heap.length })) t
        { l with pc := .tTreeLinkLocked g b s.heap.length })
  | treeLink (p : Pending) (g : Nat) (b x : Nat) : l.call = some p → l.pc = .tTreeLinkLocked g b x →
      StepN s t l (setT (setNode (tick s) x (fun n => { n with inTree := true })) t
        { l with pc := .tUnlockRoot g b .none })
  | unlink (p : Pending) (g : Nat) (b i : Nat) (res : KRes) (small : Bool) : l.call = some p →
      l.pc = .tUnlinkLocked g b i res →
      StepN s t l (setT (unlinkOf (tick s) b i) t
        { l with pc := if small then .tUntreeify g b res else .tRestructure g b i res })
  | untree (p : Pending) (g : Nat) (b i : Nat) (res : KRes) : l.call = some p → l.pc = .tRestructure g b i res →
      StepN s t l (setT (setNode (tick s) i (fun n => { n with inTree := false })) t
        { l with pc := .tUnlockRoot g b res })
  | untreeify (p : Pending) (g : Nat) (b : Nat) (res : KRes) : l.call = some p → l.pc = .tUntreeify g b res →
      StepN s t l (setT (untreeifyOf (tick s) g p.key b) t { l with pc := .tUnlockM g b res false })
  | kbuild (g : Nat) (k h : Nat) : l.call = none → l.pc = .kBuild g k h →
      StepN s t l (setT (buildOf (tick s) h) t { l with pc := .kStore g k h s.tbins.length })
  | kstore (g : Nat) (k h b : Nat) : l.call = none → l.pc = .kStore g k h b →
      StepN s t l (setT (setCell (tick s) g k (.tree b)) t { l with pc := .kUnlock h })
  | xcasMoved (j : Nat) : l.call = none → l.pc = .xCasMoved j → cellAt s (s.cur, j) = .empty →
      StepN s t l (putCell (setT (tick s) t { l with pc := .xNext }) s.cur j .moved)
  | xbuild (j h : Nat) : l.call = none → l.pc = .xBuild j h →
      StepN s t l (setT (qst s (xsplitOf s h).1 s.tbins) t
        { l with pc := .xStoreLow j (.inl h) (xsplitOf s h).2.1 (xsplitOf s h).2.2 })
  | ybuild (j b : Nat) (small small2 : Bool) : l.call = none → l.pc = .yBuild j b →
      StepN s t l (setT (ysplitOf (tick s) b small small2).1 t
        { l with pc := .xStoreLow j (.inr b) (ysplitOf (tick s) b small small2).2.1 (ysplitOf (tick s) b small small2).2.2 })
  | xstoreLow (j : Nat) (unl : Nat ⊕ Nat) (lo hi : Cell) : l.call = none → l.pc = .xStoreLow j unl lo hi →
      StepN s t l (putCell (setT (tick s) t { l with pc := .xStoreHigh j unl hi }) (s.cur + 1) j lo)
  | xstoreHigh (j : Nat) (unl : Nat ⊕ Nat) (hi : Cell) : l.call = none → l.pc = .xStoreHigh j unl hi →
      StepN s t l (putCell (setT (tick s) t { l with pc := .xStoreMoved j unl }) (s.cur + 1) (j + 2 ^ s.cur) hi)
  | xstoreMoved (j : Nat) (unl : Nat ⊕ Nat) : l.call = none → l.pc = .xStoreMoved j unl →
      StepN s t l (putCell (setT (tick s) t { l with pc := .xUnlock unl }) s.cur j .moved)
  | xcommit : l.call = none → l.pc = .xCommit →
      StepN s t l { (setT (tick s) t { l with pc := .idle }) with cur := s.cur + 1, resizing := false }

end Flurry.Proto.BinGNP
