import Flurry.Lemmas.BinNStep
/-! # Proto/BinN: cells of the generation structure, lock words (basic lemmas) -/
namespace Flurry.Proto.BinN
open Flurry.Lin
open Flurry.Proto.BinX (NodeS Cell Pending isReader dflt chainFrom cellHead cellOfHead)

/-- cell `(g, j)` of a list of tables -/
def cellT (tabs : List (List Cell)) (g j : Nat) : Cell := (tabs.getD g []).getD j .empty

theorem cellAt_eq (s : State) (g j : Nat) : cellAt s g j = cellT s.tabs g j := rfl
theorem cellOf_eq (s : State) (g k : Nat) : cellOf s g k = cellT s.tabs g (k % 2 ^ g) := rfl

theorem getD_eq (l : List α) (i : Nat) (d : α) : l.getD i d = (l[i]?).getD d := by
  simp [List.getD_eq_getElem?_getD]

theorem cellT_put_ne (tabs : List (List Cell)) {g j g' j' : Nat} (c : Cell) (h : ¬ (g' = g ∧ j' = j)) :
    cellT (tabs.modify g (fun row => row.set j c)) g' j' = cellT tabs g' j' := by
  unfold cellT
  rw [getD_eq, getD_eq, getD_eq, getD_eq, List.getElem?_modify]
  by_cases hg : g = g'
  · subst hg
    have hj : j ≠ j' := fun e => h ⟨rfl, e.symm⟩
    cases hr : tabs[g]? with
    | none => simp
    | some row => simp [List.getElem?_set_ne hj]
  · simp [hg]

theorem cellT_put_self (tabs : List (List Cell)) (g j : Nat) (c : Cell) :
    cellT (tabs.modify g (fun row => row.set j c)) g j = c ∨
    cellT (tabs.modify g (fun row => row.set j c)) g j = cellT tabs g j := by
  unfold cellT
  rw [getD_eq, getD_eq, getD_eq, getD_eq, List.getElem?_modify]
  cases hr : tabs[g]? with
  | none => right; simp
  | some row =>
    simp only [if_true, Option.getD_some]
    by_cases hj : j < row.length
    · left; simp [List.getElem?_set_self hj]
    · right
      rw [List.getElem?_eq_none (by simp; omega), List.getElem?_eq_none (by omega)]

theorem cellT_put_self_eq (tabs : List (List Cell)) {g j : Nat} {row : List Cell} (c : Cell)
    (hr : tabs[g]? = some row) (hj : j < row.length) :
    cellT (tabs.modify g (fun row => row.set j c)) g j = c := by
  unfold cellT
  rw [getD_eq, getD_eq, List.getElem?_modify, hr]
  simp [List.getElem?_set_self hj]

/-- allocating a generation of empty cells changes no cell (a missing cell reads as `empty`) -/
theorem cellT_alloc (tabs : List (List Cell)) (n g j : Nat) :
    cellT (tabs ++ [List.replicate n .empty]) g j = cellT tabs g j := by
  unfold cellT
  rw [getD_eq, getD_eq, getD_eq, getD_eq]
  by_cases hg : g < tabs.length
  · rw [List.getElem?_append_left hg]
  · rw [List.getElem?_append_right (by omega), List.getElem?_eq_none (l := tabs) (by omega)]
    by_cases h0 : g - tabs.length = 0
    · rw [h0]
      simp only [List.getElem?_cons_zero, Option.getD_some, Option.getD_none, List.getElem?_nil]
      by_cases hj : j < n
      · rw [List.getElem?_replicate_of_lt hj]; rfl
      · rw [List.getElem?_eq_none (by simp; omega)]; rfl
    · have : ([List.replicate n Cell.empty] : List (List Cell))[g - tabs.length]? = none :=
        List.getElem?_eq_none (by simp; omega)
      rw [this]

theorem putCell_tabs (s : State) (g j : Nat) (c : Cell) :
    (putCell s g j c).tabs = s.tabs.modify g (fun row => row.set j c) := rfl

theorem cellAt_putCell_ne (s : State) {g j g' j' : Nat} (c : Cell) (h : ¬ (g' = g ∧ j' = j)) :
    cellAt (putCell s g j c) g' j' = cellAt s g' j' := cellT_put_ne s.tabs c h

theorem cellAt_putCell_self (s : State) (g j : Nat) (c : Cell) :
    cellAt (putCell s g j c) g j = c ∨ cellAt (putCell s g j c) g j = cellAt s g j :=
  cellT_put_self s.tabs g j c

/-! ## lock words -/

def lockAt (heap : List NodeS) (h : Nat) : Option Nat := (heap.getD h dflt).lock

/-- the heap grew, and no lock word of an old node changed -/
def LockSame (heap heap' : List NodeS) : Prop :=
  heap.length ≤ heap'.length ∧ ∀ i, i < heap.length → lockAt heap' i = lockAt heap i

theorem LockSame.refl (heap : List NodeS) : LockSame heap heap := ⟨Nat.le_refl _, fun _ _ => rfl⟩

theorem LockSame.trans {a b c : List NodeS} (h1 : LockSame a b) (h2 : LockSame b c) : LockSame a c :=
  ⟨Nat.le_trans h1.1 h2.1, fun i hi => by rw [h2.2 i (by have := h1.1; omega), h1.2 i hi]⟩

theorem LockSame.append (heap ext : List NodeS) : LockSame heap (heap ++ ext) := by
  refine ⟨by simp, ?_⟩
  intro i hi
  unfold lockAt
  rw [getD_eq, getD_eq, List.getElem?_append_left hi]

theorem LockSame.modify (heap : List NodeS) (i : Nat) (f : NodeS → NodeS) (hf : ∀ n, (f n).lock = n.lock) :
    LockSame heap (heap.modify i f) := by
  refine ⟨by simp, ?_⟩
  intro j hj
  unfold lockAt
  rw [getD_eq, getD_eq, List.getElem?_modify]
  by_cases hij : i = j
  · subst hij
    rw [List.getElem?_eq_getElem hj]
    simp [hf]
  · simp [hij]

theorem lockAt_modify_self {heap : List NodeS} {h : Nat} (x : Option Nat) (hh : h < heap.length) :
    lockAt (heap.modify h (fun m => { m with lock := x })) h = x := by
  unfold lockAt
  rw [getD_eq, List.getElem?_modify, List.getElem?_eq_getElem hh]
  simp

theorem lockAt_modify_ne {heap : List NodeS} {h i : Nat} (x : Option Nat) (hne : i ≠ h) :
    lockAt (heap.modify h (fun m => { m with lock := x })) i = lockAt heap i := by
  unfold lockAt
  rw [getD_eq, getD_eq, List.getElem?_modify]
  simp [Ne.symm hne]

theorem lockAt_of_some {heap : List NodeS} {h : Nat} {n : NodeS} (hn : heap[h]? = some n) : lockAt heap h = n.lock := by
  unfold lockAt
  rw [getD_eq, hn]; rfl

/-- the split only appends nodes -/
theorem splitBinB_lockSame (bit : Nat → Bool) (heap : List NodeS) (c : List Nat) :
    LockSame heap (splitBinB bit heap c).1 := by
  unfold splitBinB
  simp only
  generalize (c.take (lastRunStartB bit heap c)) = pre
  generalize (if (match (List.drop (lastRunStartB bit heap c) c).head? with
        | some i => bit (heap.getD i dflt).key
        | none => false) = true then none else (List.drop (lastRunStartB bit heap c) c).head?) = lo
  generalize (if (match (List.drop (lastRunStartB bit heap c) c).head? with
        | some i => bit (heap.getD i dflt).key
        | none => false) = true then (List.drop (lastRunStartB bit heap c) c).head? else none) = hg
  suffices h : ∀ (pre : List Nat) (hp : List NodeS) (lo hg : Option Nat), LockSame heap hp →
      LockSame heap (pre.foldl
        (fun (acc : List NodeS × Option Nat × Option Nat) i =>
          let (hp, lo, hg) := acc
          let n := hp.getD i dflt
          let idx := hp.length
          if bit n.key then (hp ++ [⟨n.key, n.val, hg, none⟩], lo, some idx)
          else (hp ++ [⟨n.key, n.val, lo, none⟩], some idx, hg)) (hp, lo, hg)).1 from
    h pre heap lo hg (LockSame.refl _)
  intro pre
  induction pre with
  | nil => intro hp lo hg h; exact h
  | cons i pre ih =>
    intro hp lo hg h
    simp only [List.foldl_cons]
    split
    · exact ih _ _ _ (h.trans (LockSame.append _ _))
    · exact ih _ _ _ (h.trans (LockSame.append _ _))

end Flurry.Proto.BinN
