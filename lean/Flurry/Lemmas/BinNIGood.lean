import Flurry.Lemmas.BinNIBasic
/-! # Proto/BinNI: the hindsight justification of an iterator (C07)

`IGood P G t0 s ptr`: the justification of an iterator created at `t0` that holds the pointer `ptr`
(`P τ k v`: "at time `τ` the abstract content of `k` was `some v`"):
* `none`: nothing to justify;
* `on`: the node is on the live chain of ITS OWN key (so what the iterator reads there is the abstract
  content of that key now);
* `off`: the node is dead (unlinked, or copied by a transfer): its fields are frozen, its value was the
  abstract content of its key at some time in `[t0, now]`, and its successor is justified again.

`IGood.carry`: every transition of `Proto/BinN` (classified by `MemStep`: a heap step, the store of a
forwarding marker in any generation, the store that empties a cell) carries the justification over. -/
namespace Flurry.Proto.BinN
open Flurry.Lin
open Flurry.Proto.BinX (NodeS Cell Pending dflt chainFrom cellHead cellOfHead nodeAt nodeAt_of_some getElem?_nodeAt
  IsSeg IsChain chainH chainH_empty chainH_moved absIn absIn_eq_none_iff absIn_eq_some_iff KeysDistinct)

/-- a key that belongs to the live cell of `k` has the same live cell -/
theorem liveId_of_keyOn {s : State} {k k' : Nat} (h : keyOn (liveId s k) k') : liveId s k' = liveId s k := by
  unfold liveId at h ⊢
  by_cases hm : cellOf s s.cur k = .moved
  · rw [if_pos hm] at h ⊢
    have h1 : k' % 2 ^ (s.cur + 1) = k % 2 ^ (s.cur + 1) := h
    have h2 : k' % 2 ^ s.cur = k % 2 ^ s.cur := by
      rw [keyOn_mod (Nat.le_succ s.cur) h1]; exact (keyOn_mod (Nat.le_succ s.cur) rfl).symm
    have : cellOf s s.cur k' = .moved := by unfold cellOf at hm ⊢; rw [h2]; exact hm
    rw [if_pos this]; unfold cellId; rw [h1]
  · rw [if_neg hm] at h ⊢
    have h2 : k' % 2 ^ s.cur = k % 2 ^ s.cur := h
    have : cellOf s s.cur k' ≠ .moved := by unfold cellOf at hm ⊢; rw [h2]; exact hm
    rw [if_neg this]; unfold cellId; rw [h2]

/-- all nodes of a live chain have that chain as the live chain of their key -/
theorem HInv.LC_of_mem {s : State} {G : Ghost} (H : HInv s G) {k b : Nat} (hb : b ∈ LC s k) :
    LC s (nodeAt s.heap b).key = LC s k := by
  rw [H.LC_eq] at hb
  rw [H.LC_eq, H.LC_eq, liveId_of_keyOn (H.side _ b hb)]

inductive IGood (P : Nat → Nat → Nat × Nat → Prop) (G : Ghost) (t0 : Nat) (s : State) : Option Nat → Prop
  | none : IGood P G t0 s none
  | on {c : Nat} : c ∈ LC s (nodeAt s.heap c).key → IGood P G t0 s (some c)
  | off {c : Nat} : ¬ Live s G c → c < s.heap.length → IGood P G t0 s (nodeAt s.heap c).next →
      (∃ τ, t0 ≤ τ ∧ τ ≤ s.now ∧ P τ (nodeAt s.heap c).key (nodeAt s.heap c).val) → IGood P G t0 s (some c)

theorem IGood.lt {P : Nat → Nat → Nat × Nat → Prop} {G : Ghost} {t0 : Nat} {s : State} (H : HInv s G) {c : Nat}
    (h : IGood P G t0 s (some c)) : c < s.heap.length := by
  cases h with
  | on hc => exact H.LC_lt hc
  | off _ hl _ _ => exact hl

/-- the pointer loaded from a cell that is not forwarded and has been reached through forwarding markers -/
theorem IGood.head {P : Nat → Nat → Nat × Nat → Prop} {G : Ghost} {t0 : Nat} {s : State} (H : HInv s G) {h : Nat}
    (hl : h ∈ LC s (nodeAt s.heap h).key) : IGood P G t0 s (some h) := .on hl

/-- what the iterator reads in the node it stands on was the content of that key at some time since its creation -/
theorem IGood.hit {P : Nat → Nat → Nat × Nat → Prop} {G : Ghost} {t0 : Nat} {s : State} (H : HInv s G) {c : Nat}
    (h : IGood P G t0 s (some c)) (ht0 : t0 ≤ s.now)
    (hP : ∀ k v, absOf s k = some v → P s.now k v) :
    ∃ τ, t0 ≤ τ ∧ τ ≤ s.now ∧ P τ (nodeAt s.heap c).key (nodeAt s.heap c).val := by
  cases h with
  | on hc => exact ⟨s.now, ht0, Nat.le_refl _, hP _ _ (H.absOf_some_iff.2 ⟨c, hc, rfl, rfl⟩)⟩
  | off _ _ _ hv => exact hv

/-- the successor of the node the iterator stands on -/
theorem IGood.next {P : Nat → Nat → Nat × Nat → Prop} {G : Ghost} {t0 : Nat} {s : State} (H : HInv s G) {c : Nat}
    (h : IGood P G t0 s (some c)) : IGood P G t0 s (nodeAt s.heap c).next := by
  cases h with
  | on hc =>
    have hn := getElem?_nodeAt (H.LC_lt hc)
    cases hnx : (nodeAt s.heap c).next with
    | none => exact .none
    | some b =>
      obtain ⟨hb, -⟩ := (H.LC_isChain _).succ_someN H.nextOK hc hn hnx
      exact .on (by rw [H.LC_of_mem hb]; exact hb)
  | off _ _ hnext _ => exact hnext

/-- a same-memory state -/
theorem IGood.congr {P P' : Nat → Nat → Nat × Nat → Prop} {G : Ghost} {t0 : Nat} {s s' : State} {ptr : Option Nat}
    (h : IGood P G t0 s ptr) (hh : s'.heap = s.heap) (ht : s'.tabs = s.tabs) (hc : s'.cur = s.cur)
    (hnow : s.now ≤ s'.now) (hP : ∀ τ k v, P τ k v → P' τ k v) : IGood P' G t0 s' ptr := by
  induction h with
  | none => exact .none
  | on hc' => exact .on (by rw [hh, LC_congr hh ht hc]; exact hc')
  | off hd hl _ hv ih =>
    refine .off (fun h => hd ((Live_congr hh ht G _).1 h)) (by rw [hh]; exact hl) (by rw [hh]; exact ih) ?_
    obtain ⟨τ, h1, h2, h3⟩ := hv
    rw [hh]
    exact ⟨τ, h1, by omega, hP _ _ _ h3⟩

/-- **hindsight for iterators**: every transition of `Proto/BinN` carries the justification over -/
theorem IGood.carry {P P' : Nat → Nat → Nat × Nat → Prop} {G G' : Ghost} {t0 : Nat} {s s' : State} {ptr : Option Nat}
    (hg : IGood P G t0 s ptr) (m : MemStep s s' G G') (H : HInv s G) (H' : HInv s' G')
    (hnow : s'.now = s.now + 1) (ht0 : t0 ≤ s.now) (hP : ∀ τ k v, P τ k v → P' τ k v)
    (hPnow : ∀ k v, absOf s k = some v → P' s.now k v) : IGood P' G' t0 s' ptr := by
  cases m with
  | heap hs =>
    induction hg with
    | none => exact .none
    | @on c hc =>
      have hcl := H.LC_lt hc
      have hkey := hs.key c hcl
      by_cases hc' : c ∈ LC s' (nodeAt s.heap c).key
      · exact .on (by rw [hkey]; exact hc')
      · obtain ⟨hval, hnext, hdead, hrest⟩ := hs.unl _ c hc hc'
        refine .off hdead (by have := hs.len; omega) ?_ ?_
        · rw [hnext]
          have hn := getElem?_nodeAt hcl
          cases hnx : (nodeAt s.heap c).next with
          | none => exact .none
          | some b =>
            obtain ⟨hb, -⟩ := (H.LC_isChain _).succ_someN H.nextOK hc hn hnx
            have hcb := (H.nextOK c _ b hn hnx).1
            have hbc : b ≠ c := by intro h; rw [h] at hcb; omega
            have hb' := hrest b hb hbc
            exact .on (by rw [H'.LC_of_mem hb']; exact hb')
        · rw [hkey, hval]
          exact ⟨s.now, ht0, by omega, hPnow _ _ (H.absOf_some_iff.2 ⟨c, hc, rfl, rfl⟩)⟩
    | @off c hd hcl _ hv ih =>
      obtain ⟨hval, hn, hdead⟩ := hs.off c hcl hd
      refine .off hdead (by have := hs.len; omega) (by rw [hn]; exact ih) ?_
      obtain ⟨τ, h1, h2, h3⟩ := hv
      rw [hs.key c hcl, hval]
      exact ⟨τ, h1, by omega, hP _ _ _ h3⟩
  | moved jm lo hg' hm hm' hcr hh hcur hcO hcOther sX =>
    obtain ⟨hjm, ⟨h0, hc0⟩, -, -, -⟩ := H.mid jm lo hg' hm
    have hnm : cellAt s s.cur jm ≠ .moved := by rw [hc0]; simp
    have chO' : chId s' (s.cur, jm) = [] := chId_of_moved hcO
    have chOther : ∀ id, id ≠ (s.cur, jm) → chId s' id = chId s id := by
      intro id hne; unfold chId; rw [hh, hcOther id hne]
    have hchild_ne : ∀ b, childId s.cur jm b ≠ (s.cur, jm) := by
      intro b h; unfold childId at h; have := congrArg Prod.fst h; simp at this
    have chB' : ∀ b, chId s' (childId s.cur jm b) = chId s (childId s.cur jm b) := fun b => chOther _ (hchild_ne b)
    have keyO : ∀ i ∈ chId s (s.cur, jm), (nodeAt s.heap i).key % 2 ^ s.cur = jm := fun i hi => H.side _ i hi
    have hlcs : ∀ k, k % 2 ^ s.cur = jm → LC s k = chId s (s.cur, jm) := by
      intro k hk
      rw [H.LC_eq]
      unfold liveId
      have : cellOf s s.cur k ≠ .moved := by unfold cellOf; rw [hk]; exact hnm
      rw [if_neg this]; unfold cellId; rw [hk]
    have hlcs' : ∀ k, k % 2 ^ s.cur = jm → LC s' k = chId s (childId s.cur jm (bitAt s.cur k)) := by
      intro k hk
      rw [H'.LC_eq]
      unfold liveId
      have : cellOf s' s'.cur k = .moved := by
        unfold cellOf; rw [hcur, hk]; exact hcO
      rw [if_pos this, hcur, cellId_succ hk, chB']
    have hlc_other : ∀ k, k % 2 ^ s.cur ≠ jm → LC s' k = LC s k := by
      intro k hk
      rw [H'.LC_eq, H.LC_eq]
      have e1 : cellOf s' s'.cur k = cellOf s s.cur k := by
        rw [hcur]
        exact hcOther (s.cur, k % 2 ^ s.cur) (by intro h; exact hk (congrArg Prod.snd h))
      have e2 : liveId s' k = liveId s k := by unfold liveId; rw [e1, hcur]
      rw [e2]
      refine chOther _ ?_
      intro h
      unfold liveId at h
      split at h
      · have := congrArg Prod.fst h; unfold cellId at this; simp at this
      · exact hk (congrArg Prod.snd h)
    have hlive' : ∀ c, c ∈ chId s (s.cur, jm) → Live s' G' c → ∃ b, c ∈ chId s (childId s.cur jm b) := by
      intro c hcO' hl
      rcases hl with ⟨id, hid⟩ | ⟨j, lo', hg'', hmid, _⟩
      · by_cases he : id = (s.cur, jm)
        · rw [he, chO'] at hid; cases hid
        · rw [chOther id he] at hid
          obtain ⟨g, j⟩ := id
          obtain ⟨hg1, hj⟩ := H.nonempty_cell hid
          have k1 := keyO c hcO'
          have k2 : (nodeAt s.heap c).key % 2 ^ g = j := H.side _ c hid
          rcases hg1 with rfl | rfl
          · exfalso; apply he; rw [k1] at k2; rw [k2]
          · have hp := keyOn_mod (Nat.le_succ s.cur) k2
            rw [k1] at hp
            rcases child_cases hj hp.symm with rfl | rfl
            · exact ⟨false, hid⟩
            · exact ⟨true, hid⟩
      · rw [hm'] at hmid; cases hmid
    have hliveOff : ∀ c, Live s' G' c → Live s G c := by
      intro c hl
      rcases hl with ⟨id, hid⟩ | ⟨j, lo', hg'', hmid, _⟩
      · by_cases he : id = (s.cur, jm)
        · rw [he, chO'] at hid; cases hid
        · rw [chOther id he] at hid; exact Or.inl ⟨id, hid⟩
      · rw [hm'] at hmid; cases hmid
    have hltO : ∀ c ∈ chId s (s.cur, jm), c < s.heap.length := fun c hc => H.chain_lt hc
    have hchain := H.isChain (s.cur, jm)
    -- nodes of the old chain
    have onO : ∀ (n c : Nat), ((s.heap.length : Int) - ord G.cr c).toNat ≤ n → c ∈ chId s (s.cur, jm) →
        IGood P' G' t0 s' (some c) := by
      intro n
      induction n with
      | zero =>
        intro c hn hcO'
        have := hltO c hcO'
        have := ord_le_self G.cr c
        omega
      | succ n ih =>
        intro c hn hcO'
        have hcl := hltO c hcO'
        have hk := keyO c hcO'
        by_cases h1 : ∃ b, c ∈ chId s (childId s.cur jm b)
        · obtain ⟨b, hb⟩ := h1
          have hbit := (sX b).side c hb
          refine .on ?_
          rw [hh, hlcs' _ hk, hbit]; exact hb
        · have hdead : ¬ Live s' G' c := fun hl => h1 (hlive' c hcO' hl)
          have hn' := getElem?_nodeAt hcl
          refine .off hdead (by rw [hh]; exact hcl) ?_ ?_
          · rw [hh]
            cases hnx : (nodeAt s.heap c).next with
            | none => exact .none
            | some d =>
              obtain ⟨hd, -⟩ := hchain.succ_someN H.nextOK hcO' hn' hnx
              have hcd := (H.nextOK c _ d hn' hnx).1
              exact ih d (by omega) hd
          · rw [hh]
            exact ⟨s.now, ht0, by omega,
              hPnow _ _ (H.absOf_some_iff.2 ⟨c, by rw [hlcs _ hk]; exact hcO', rfl, rfl⟩)⟩
    induction hg with
    | none => exact .none
    | @on c hc =>
      by_cases hk : (nodeAt s.heap c).key % 2 ^ s.cur = jm
      · rw [hlcs _ hk] at hc
        exact onO _ c (Nat.le_refl _) hc
      · exact .on (by rw [hh, hlc_other _ hk]; exact hc)
    | @off c hd hcl _ hv ih =>
      refine .off (fun hl => hd (hliveOff c hl)) (by rw [hh]; exact hcl) (by rw [hh]; exact ih) ?_
      obtain ⟨τ, h1, h2, h3⟩ := hv
      rw [hh]
      exact ⟨τ, h1, by omega, hP _ _ _ h3⟩
  | clear id hG hO hLC hlive hh =>
    subst hG
    have hchain := H.isChain id
    have hlt : ∀ c ∈ chId s id, c < s.heap.length := fun c hc => H.chain_lt hc
    have onC : ∀ (n c : Nat), ((s.heap.length : Int) - ord G'.cr c).toNat ≤ n → c ∈ chId s id →
        liveId s (nodeAt s.heap c).key = id → IGood P' G' t0 s' (some c) := by
      intro n
      induction n with
      | zero =>
        intro c hn hc _
        have := hlt c hc
        have := ord_le_self G'.cr c
        omega
      | succ n ih =>
        intro c hn hc hlid
        have hcl := hlt c hc
        have hn' := getElem?_nodeAt hcl
        refine .off (fun hl => (hlive c hl).2 hc) (by rw [hh]; exact hcl) ?_ ?_
        · rw [hh]
          cases hnx : (nodeAt s.heap c).next with
          | none => exact .none
          | some d =>
            obtain ⟨hd, -⟩ := hchain.succ_someN H.nextOK hc hn' hnx
            have hcd := (H.nextOK c _ d hn' hnx).1
            refine ih d (by omega) hd ?_
            have : keyOn (liveId s (nodeAt s.heap c).key) (nodeAt s.heap d).key := by rw [hlid]; exact H.side id d hd
            rw [liveId_of_keyOn this, hlid]
        · rw [hh]
          exact ⟨s.now, ht0, by omega,
            hPnow _ _ (H.absOf_some_iff.2 ⟨c, by rw [H.LC_eq, hlid]; exact hc, rfl, rfl⟩)⟩
    induction hg with
    | none => exact .none
    | @on c hc =>
      by_cases hlid : liveId s (nodeAt s.heap c).key = id
      · have hc2 := hc
        rw [H.LC_eq, hlid] at hc2
        exact onC _ c (Nat.le_refl _) hc2 hlid
      · exact .on (by rw [hh, hLC, if_neg hlid]; exact hc)
    | @off c hd hcl _ hv ih =>
      refine .off (fun hl => hd (hlive c hl).1) (by rw [hh]; exact hcl) (by rw [hh]; exact ih) ?_
      obtain ⟨τ, h1, h2, h3⟩ := hv
      rw [hh]
      exact ⟨τ, h1, by omega, hP _ _ _ h3⟩

end Flurry.Proto.BinN
