import Flurry.Lemmas.TableNI
/-! # Proto/TableNI: non-vacuity — a table iteration alive across a resize of EACH lineage

Two lineages (`m = 2`: keys 0, 2 are the local keys 0, 1 of lineage 0; keys 1, 3 those of lineage 1), two
threads (plus the clock thread 2), 72 transitions on one clock.

* thread 0 inserts keys 0, 2 (lineage 0) and 1, 3 (lineage 1) (clock 1–26);
* **thread 1 creates its table iteration**: the iterator of lineage 0 at clock 27, of lineage 1 at clock 28
  (both load generation 0 of their lineage);
* thread 0 **resizes lineage 0** (0 → 1, clock 29–40), then **lineage 1** (0 → 1, clock 41–52), then
  **overwrites key 2** (`ins 21 201`, clock 53–60) — keys 0, 1, 3 are left untouched;
* thread 1 walks: two steps in lineage 0, two in lineage 1 (both find the forwarding marker of generation 0
  and descend), then lineage 0 to the end (clock 68), then lineage 1 to the end (clock 72).

The table iteration `(thread 1, c = [27, 28], e = [68, 72])` is completed, within `[27, 72]`; it yields every
key exactly once: the untouched keys 0, 1, 3 with their values, the overwritten key 2 with its new value. -/
namespace Flurry.Proto.TableNI
open Flurry.Lin Flurry.LinMap

/-- `(lineage, thread, create an iterator, invocation (key of the table), resize, pick)` -/
abbrev Sch := Nat × Nat × Bool × Option (Nat × KOp) × Bool × Nat

def run (S : State) : List Sch → Option State
  | [] => some S
  | (i, t, mk, inv, rz, pick) :: rest =>
    match step S i t mk inv rz pick with
    | some S' => run S' rest
    | none => none

theorem run_reachable {m n : Nat} : ∀ (sched : List Sch) {S S' : State},
    Reachable m n S → run S sched = some S' → Reachable m n S'
  | [], S, S', hr, h => by
    simp only [run, Option.some.injEq] at h
    exact h ▸ hr
  | (i, t, mk, inv, rz, pick) :: rest, S, S', hr, h => by
    simp only [run] at h
    cases hs : step S i t mk inv rz pick with
    | none => rw [hs] at h; cases h
    | some S1 =>
      rw [hs] at h
      exact run_reachable rest (Reachable.step i t mk inv rz pick hr hs) h

abbrev call (i t k : Nat) (op : KOp) : List Sch := [(i, t, false, some (k, op), false, 0)]
/-- `n` further steps of thread `t` in lineage `i` (of its call, its resize, or its iterator) -/
abbrev go (i t n : Nat) : List Sch := List.replicate n (i, t, false, none, false, 0)
abbrev resize (i t : Nat) : List Sch := [(i, t, false, none, true, 0)]
/-- thread `t` creates its iterator of lineage `i` -/
abbrev mkIter (i t : Nat) : List Sch := [(i, t, true, none, false, 0)]

def exSchedule : List Sch :=
  call 0 0 0 (.ins 10 100) ++ go 0 0 3 ++ call 0 0 2 (.ins 20 200) ++ go 0 0 8 ++
  call 1 0 1 (.ins 11 101) ++ go 1 0 3 ++ call 1 0 3 (.ins 30 300) ++ go 1 0 8 ++
  mkIter 0 1 ++ mkIter 1 1 ++
  resize 0 0 ++ go 0 0 11 ++ resize 1 0 ++ go 1 0 11 ++
  call 0 0 2 (.ins 21 201) ++ go 0 0 7 ++
  go 0 1 2 ++ go 1 1 2 ++ go 0 1 4 ++ go 1 1 4

/-- creation and end times of the per-lineage iterations of thread 1 -/
def exC : Nat → Nat := fun i => if i = 0 then 27 else 28
def exE : Nat → Nat := fun i => if i = 0 then 68 else 72

def exYields : List BinNI.Yield :=
  [⟨1, 27, 2, (21, 201), 67⟩, ⟨1, 27, 0, (10, 100), 65⟩, ⟨1, 28, 3, (30, 300), 71⟩, ⟨1, 28, 1, (11, 101), 69⟩]

def exAbs : List KSt := [some (10, 100), some (11, 101), some (21, 201), some (30, 300), none, none]

/-- per lineage: table pointer, a resize is running, clock, live iterators -/
def shape (S : State) : List (Nat × Bool × Nat × List (Option BinNI.Iter)) :=
  S.bins.map fun b => (b.n.cur, b.n.resizing, b.n.now, b.its)

def exShape : List (Nat × Bool × Nat × List (Option BinNI.Iter)) :=
  [(1, false, 72, [none, none, none]), (1, false, 72, [none, none, none])]

/-- decidable form of `Completed.ends` -/
def endsB (S : State) (t : Nat) (c e : Nat → Nat) : Bool :=
  (List.range S.bins.length).all fun i => (S.bins.getD i (BinNI.init 0)).ends.contains (t, c i, e i)

theorem completed_of_endsB {S : State} {t : Nat} {c e : Nat → Nat} {τ0 τ1 : Nat} (h : endsB S t c e = true)
    (lo : ∀ i, i < S.bins.length → τ0 ≤ c i) (hi : ∀ i, i < S.bins.length → e i ≤ τ1) : Completed S t c e τ0 τ1 := by
  refine ⟨?_, lo, hi⟩
  intro i b hb
  have hil : i < S.bins.length := (List.getElem?_eq_some_iff.1 hb).1
  have := List.all_eq_true.1 h i (List.mem_range.2 hil)
  rw [getD_of_get hb] at this
  simpa using this

def exCheck : Bool :=
  match run (init 2 2) exSchedule with
  | some S =>
    S.bins.length == 2 && S.bins.all (fun b => b.n.threads.all (fun l => l.pc == .idle)) && endsB S 1 exC exE &&
      tyields S == exYields && (List.range 6).map (absMap S) == exAbs && shape S == exShape &&
      (List.range 4).map (fun k => (yieldsOf S 1 exC k).length) == [1, 1, 1, 1]
  | none => false

set_option maxRecDepth 4000 in
theorem exCheck_true : exCheck = true := by decide

/-- the same run up to clock 40: lineage 0 has been resized (generation 0 forwarded), both iterators of thread 1,
created before, are still at their first cell -/
def exDuring : Bool :=
  match run (init 2 2) (exSchedule.take 40) with
  | some S => S.bins.map (fun b => (b.n.cur, b.n.now, b.its.getD 1 none)) ==
      [(1, 40, some ⟨27, 0, none, [(0, 0)]⟩), (0, 40, some ⟨28, 0, none, [(0, 0)]⟩)]
  | none => false

set_option maxRecDepth 4000 in
theorem exDuring_true : exDuring = true := by decide

theorem example_state :
    ∃ S : State, Reachable 2 2 S ∧ quiescent S ∧ Completed S 1 exC exE 27 72 ∧ tyields S = exYields ∧
      (List.range 6).map (absMap S) = exAbs ∧ shape S = exShape ∧
      (List.range 4).map (fun k => (yieldsOf S 1 exC k).length) = [1, 1, 1, 1] := by
  have h := exCheck_true
  unfold exCheck at h
  cases hrun : run (init 2 2) exSchedule with
  | none => rw [hrun] at h; cases h
  | some S =>
    rw [hrun] at h
    simp only [Bool.and_eq_true, List.all_eq_true, beq_iff_eq] at h
    obtain ⟨⟨⟨⟨⟨⟨hl, hq⟩, he⟩, hy⟩, ha⟩, hs⟩, h1⟩ := h
    refine ⟨S, run_reachable exSchedule Reachable.init hrun, fun b hb l hl' => hq b hb l hl', ?_, hy, ha, hs, h1⟩
    refine completed_of_endsB he ?_ ?_
    · intro i _; unfold exC; split <;> omega
    · intro i _; unfold exE; split <;> omega

end Flurry.Proto.TableNI
