import Flurry.Lemmas.BinRBChain
/-! # Proto/Bin: structural invariants of the heap and the effect of the stores (C01)

(C13 port of `Flurry/Lemmas/BinBasic.lean` to the per-key operations of `Flurry/Lin2.lean`, i.e. with `retain`'s conditional removal `condRm`; below, "`Proto/Bin`" / `Base.` is `Flurry.Proto.BinR.Base` (`Proto/BinRBase.lean`) and "`Proto/BinW`" is `Flurry.Proto.BinR` (`Proto/BinR.lean`), which in addition has the `retain` visit steps.)

* `HInv`: `next` pointers go upwards inside the heap, the head is a valid index, the keys on the
  chain are pairwise distinct. `chain_isChain`, `chain_sorted`, `absOf_eq_some_iff`, `absOf_eq_none_iff`.
* the three heap surgeries (`swap`, `append`, `unlink`): each preserves `HInv`, and we compute the
  new chain and the new abstract content.
* `HeapStep s s'`: what every transition does to the heap as far as lock-free readers are concerned.
* `writerStore_spec`: the store of a validated writer is the specification step on its own key and
  leaves the other keys alone. -/
namespace Flurry.Proto.BinR.Base
open Flurry.Lin2

def nodeAt (heap : List NodeS) (i : Nat) : NodeS := heap.getD i ⟨0, (0, 0), none, none⟩

theorem nodeAt_eq (heap : List NodeS) (i : Nat) :
    nodeAt heap i = (heap[i]?).getD ⟨0, (0, 0), none, none⟩ := by
  simp [nodeAt, List.getD_eq_getElem?_getD]

theorem nodeAt_of_some {heap : List NodeS} {i : Nat} {n : NodeS} (h : heap[i]? = some n) :
    nodeAt heap i = n := by
  rw [nodeAt_eq, h]; rfl

theorem getElem?_nodeAt {heap : List NodeS} {i : Nat} (h : i < heap.length) :
    heap[i]? = some (nodeAt heap i) := by
  rw [nodeAt_eq, List.getElem?_eq_getElem h]; rfl

/-- heap part of the invariant -/
structure HInv (s : State) : Prop where
  nextOK : NextOK s.heap
  headOK : ∀ h, s.head = some h → h < s.heap.length
  keysDistinct : ∀ i ∈ chain s, ∀ j ∈ chain s, (nodeAt s.heap i).key = (nodeAt s.heap j).key → i = j

theorem chain_isChain' {s : State} (hok : NextOK s.heap) (hh : ∀ h, s.head = some h → h < s.heap.length) :
    IsChain s.heap s.head (chain s) := by
  refine chainFrom_isChain hok _ _ ?_
  intro i hi
  have := hh i hi
  omega

theorem chain_isChain {s : State} (H : HInv s) : IsChain s.heap s.head (chain s) :=
  chain_isChain' H.nextOK H.headOK

theorem chain_eq' {s : State} (hok : NextOK s.heap) (hh : ∀ h, s.head = some h → h < s.heap.length)
    {l : List Nat} (h : IsChain s.heap s.head l) : chain s = l :=
  (chain_isChain' hok hh).unique h

theorem chain_lt {s : State} (H : HInv s) {i : Nat} (hi : i ∈ chain s) : i < s.heap.length :=
  (chain_isChain H).lt_length i hi

theorem chain_sorted {s : State} (H : HInv s) : (chain s).Pairwise (· < ·) :=
  (chain_isChain H).sorted H.nextOK

theorem chain_nodup {s : State} (H : HInv s) : (chain s).Nodup :=
  (chain_isChain H).nodup H.nextOK

theorem chain_head_none {s : State} (H : HInv s) (h : s.head = none) : chain s = [] := by
  have := chain_isChain H
  rw [h] at this
  cases hc : chain s with
  | nil => rfl
  | cons a l => rw [hc] at this; exact absurd (IsSeg.cons_iff.1 this).1 (by simp)

theorem chain_head_some {s : State} (H : HInv s) {h : Nat} (hh : s.head = some h) :
    ∃ l, chain s = h :: l := by
  have := chain_isChain H
  rw [hh] at this
  cases hc : chain s with
  | nil => rw [hc] at this; cases this
  | cons a l =>
    rw [hc] at this
    obtain ⟨ha, -⟩ := IsSeg.cons_iff.1 this
    cases ha
    exact ⟨l, rfl⟩

/-! ## the abstract content -/

theorem absOf_eq (s : State) (k : Nat) :
    absOf s k = ((chain s).find? (fun i => (nodeAt s.heap i).key == k)).map
      (fun i => (nodeAt s.heap i).val) := by
  unfold absOf nodeAt
  cases (chain s).find? _ <;> rfl

theorem absOf_eq_none_iff {s : State} {k : Nat} :
    absOf s k = none ↔ ∀ i ∈ chain s, (nodeAt s.heap i).key ≠ k := by
  rw [absOf_eq, Option.map_eq_none_iff, List.find?_eq_none]
  simp

theorem absOf_eq_some_iff {s : State} (H : HInv s) {k : Nat} {v : Nat × Nat} :
    absOf s k = some v ↔ ∃ i ∈ chain s, (nodeAt s.heap i).key = k ∧ (nodeAt s.heap i).val = v := by
  rw [absOf_eq, Option.map_eq_some_iff]
  constructor
  · rintro ⟨i, hf, hv⟩
    have h1 := List.mem_of_find?_eq_some hf
    have h2 := List.find?_some hf
    exact ⟨i, h1, by simpa using h2, hv⟩
  · rintro ⟨i, hi, hk, hv⟩
    cases hf : (chain s).find? (fun i => (nodeAt s.heap i).key == k) with
    | none =>
      rw [List.find?_eq_none] at hf
      exact absurd (by simpa using hk) (hf i hi)
    | some j =>
      have h1 := List.mem_of_find?_eq_some hf
      have h2 : (nodeAt s.heap j).key = k := by simpa using List.find?_some hf
      have : j = i := H.keysDistinct j h1 i hi (by rw [h2, hk])
      subst this
      exact ⟨j, rfl, hv⟩

/-- the hit of a writer -/
theorem find_hit_some {s : State} {k i : Nat}
    (h : (chain s).find? (fun i => (nodeAt s.heap i).key == k) = some i) :
    i ∈ chain s ∧ (nodeAt s.heap i).key = k :=
  ⟨List.mem_of_find?_eq_some h, by simpa using List.find?_some h⟩

theorem find_hit_none {s : State} {k : Nat}
    (h : (chain s).find? (fun i => (nodeAt s.heap i).key == k) = none) :
    ∀ i ∈ chain s, (nodeAt s.heap i).key ≠ k := by
  rw [List.find?_eq_none] at h
  intro i hi
  simpa using h i hi

/-! ## what a transition does to the heap, seen from a lock-free reader -/

structure HeapStep (s s' : State) : Prop where
  len : s.heap.length ≤ s'.heap.length
  key : ∀ j, j < s.heap.length → (nodeAt s'.heap j).key = (nodeAt s.heap j).key
  /-- nodes that are not on the chain are not written -/
  off : ∀ j, j < s.heap.length → j ∉ chain s →
    (nodeAt s'.heap j).val = (nodeAt s.heap j).val ∧ (nodeAt s'.heap j).next = (nodeAt s.heap j).next
  /-- an unlinked node never returns to the chain -/
  noRelink : ∀ j ∈ chain s', j ∈ chain s ∨ s.heap.length ≤ j
  /-- a node that is unlinked keeps its value and its `next`, and only one node is unlinked -/
  unl : ∀ c ∈ chain s, c ∉ chain s' →
    (nodeAt s'.heap c).val = (nodeAt s.heap c).val ∧ (nodeAt s'.heap c).next = (nodeAt s.heap c).next ∧
    ∀ j ∈ chain s, j ≠ c → j ∈ chain s'

theorem nodeAt_modify (heap : List NodeS) (i : Nat) (f : NodeS → NodeS) (j : Nat) :
    nodeAt (heap.modify i f) j = if i = j ∧ j < heap.length then f (nodeAt heap j) else nodeAt heap j := by
  rw [nodeAt_eq, nodeAt_eq, List.getElem?_modify]
  by_cases hj : j < heap.length
  · rw [List.getElem?_eq_getElem hj]
    by_cases hij : i = j <;> simp [hij, hj]
  · rw [List.getElem?_eq_none (by omega)]
    simp [hj]

theorem nodeAt_append_left {heap : List NodeS} (l : List NodeS) {j : Nat} (hj : j < heap.length) :
    nodeAt (heap ++ l) j = nodeAt heap j := by
  rw [nodeAt_eq, nodeAt_eq, List.getElem?_append_left hj]

theorem nodeAt_append_new (heap : List NodeS) (n : NodeS) : nodeAt (heap ++ [n]) heap.length = n := by
  rw [nodeAt_eq]; simp

theorem chain_congr {s s' : State} (hh : s'.heap = s.heap) (hd : s'.head = s.head) : chain s' = chain s := by
  unfold chain; rw [hh, hd]

theorem absOf_congr {s s' : State} (hh : s'.heap = s.heap) (hd : s'.head = s.head) (k : Nat) :
    absOf s' k = absOf s k := by
  rw [absOf_eq, absOf_eq, chain_congr hh hd, hh]

theorem HInv.congr {s s' : State} (H : HInv s) (hh : s'.heap = s.heap) (hd : s'.head = s.head) : HInv s' := by
  refine ⟨by rw [hh]; exact H.nextOK, by rw [hh, hd]; exact H.headOK, ?_⟩
  rw [chain_congr hh hd, hh]; exact H.keysDistinct

theorem HeapStep.of_same {s s' : State} (hh : s'.heap = s.heap) (hd : s'.head = s.head) : HeapStep s s' := by
  have hc := chain_congr hh hd
  refine ⟨by rw [hh]; exact Nat.le_refl _, by intros; rw [hh], by intros; rw [hh]; exact ⟨rfl, rfl⟩, ?_, ?_⟩
  · intro j hj; rw [hc] at hj; exact Or.inl hj
  · intro c hc1 hc2; rw [hc] at hc2; exact absurd hc1 hc2

/-! ### surgery 1: modify a node, keeping key and `next` -/

theorem modify_chain {s s' : State} (H : HInv s) {i : Nat} {f : NodeS → NodeS}
    (hh : s'.heap = s.heap.modify i f) (hd : s'.head = s.head)
    (hf : ∀ n, (f n).next = n.next ∧ (f n).key = n.key) :
    NextOK s'.heap ∧ (∀ h, s'.head = some h → h < s'.heap.length) ∧ chain s' = chain s := by
  have hok : NextOK s'.heap := by
    intro a n b hn hb
    rw [hh, List.getElem?_modify] at hn
    rw [hh, List.length_modify]
    cases hn0 : s.heap[a]? with
    | none => rw [hn0] at hn; cases hn
    | some n0 =>
      rw [hn0] at hn
      simp only [Option.map_eq_map, Option.map_some, Option.some.injEq] at hn
      subst hn
      refine H.nextOK a n0 b hn0 ?_
      split at hb
      · rw [(hf n0).1] at hb; exact hb
      · exact hb
  have hho : ∀ h, s'.head = some h → h < s'.heap.length := by
    intro h hhd
    rw [hh, List.length_modify]
    exact H.headOK h (hd ▸ hhd)
  refine ⟨hok, hho, chain_eq' hok hho ?_⟩
  rw [hd]
  refine (chain_isChain H).congr ?_
  intro j _ n hn
  rw [hh, List.getElem?_modify, hn]
  by_cases hij : i = j
  · exact ⟨f n, by simp [hij], (hf n).1⟩
  · exact ⟨n, by simp [hij], rfl⟩

theorem modify_hinv {s s' : State} (H : HInv s) {i : Nat} {f : NodeS → NodeS}
    (hh : s'.heap = s.heap.modify i f) (hd : s'.head = s.head)
    (hf : ∀ n, (f n).next = n.next ∧ (f n).key = n.key) : HInv s' := by
  obtain ⟨hok, hho, hc⟩ := modify_chain H hh hd hf
  refine ⟨hok, hho, ?_⟩
  rw [hc]
  intro a ha b hb hab
  refine H.keysDistinct a ha b hb ?_
  have hkey : ∀ j, (nodeAt s'.heap j).key = (nodeAt s.heap j).key := by
    intro j; rw [hh, nodeAt_modify]; split
    · exact (hf _).2
    · rfl
  rw [hkey, hkey] at hab
  exact hab

theorem modify_heapStep {s s' : State} (H : HInv s) {i : Nat} {f : NodeS → NodeS}
    (hh : s'.heap = s.heap.modify i f) (hd : s'.head = s.head)
    (hf : ∀ n, (f n).next = n.next ∧ (f n).key = n.key)
    (hv : i ∈ chain s ∨ ∀ n, (f n).val = n.val) : HeapStep s s' := by
  obtain ⟨-, -, hc⟩ := modify_chain H hh hd hf
  refine ⟨by rw [hh, List.length_modify]; exact Nat.le_refl _, ?_, ?_, ?_, ?_⟩
  · intro j _
    rw [hh, nodeAt_modify]; split
    · exact (hf _).2
    · rfl
  · intro j _ hjc
    rw [hh, nodeAt_modify]; split
    · rename_i hij
      rcases hv with hv | hv
      · exact absurd (hij.1 ▸ hv) hjc
      · exact ⟨hv _, (hf _).1⟩
    · exact ⟨rfl, rfl⟩
  · intro j hj; rw [hc] at hj; exact Or.inl hj
  · intro c hc1 hc2; rw [hc] at hc2; exact absurd hc1 hc2

/-- a modification that keeps key, value and `next` (lock / unlock) is invisible -/
theorem modify_absOf_same {s s' : State} (H : HInv s) {i : Nat} {f : NodeS → NodeS}
    (hh : s'.heap = s.heap.modify i f) (hd : s'.head = s.head)
    (hf : ∀ n, (f n).next = n.next ∧ (f n).key = n.key) (hv : ∀ n, (f n).val = n.val) (k : Nat) :
    absOf s' k = absOf s k := by
  obtain ⟨-, -, hc⟩ := modify_chain H hh hd hf
  have hkey : ∀ j, (nodeAt s'.heap j).key = (nodeAt s.heap j).key := by
    intro j; rw [hh, nodeAt_modify]; split
    · exact (hf _).2
    · rfl
  have hval : ∀ j, (nodeAt s'.heap j).val = (nodeAt s.heap j).val := by
    intro j; rw [hh, nodeAt_modify]; split
    · exact hv _
    · rfl
  rw [absOf_eq, absOf_eq, hc]
  simp only [hkey, hval]

/-- value swap at a chain node -/
theorem swap_absOf {s s' : State} (H : HInv s) {i : Nat} (hi : i ∈ chain s) {v : Nat × Nat}
    (hh : s'.heap = s.heap.modify i (fun n => { n with val := v })) (hd : s'.head = s.head) (k : Nat) :
    absOf s' k = if (nodeAt s.heap i).key = k then some v else absOf s k := by
  have hf : ∀ n : NodeS, ({ n with val := v } : NodeS).next = n.next ∧ ({ n with val := v } : NodeS).key = n.key :=
    fun n => ⟨rfl, rfl⟩
  have H' := modify_hinv H hh hd hf
  obtain ⟨-, -, hc⟩ := modify_chain H hh hd hf
  have hil := chain_lt H hi
  have hkey : ∀ j, (nodeAt s'.heap j).key = (nodeAt s.heap j).key := by
    intro j; rw [hh, nodeAt_modify]; split <;> rfl
  have hval : ∀ j, (nodeAt s'.heap j).val = if j = i then v else (nodeAt s.heap j).val := by
    intro j; rw [hh, nodeAt_modify]
    by_cases hij : i = j
    · subst hij; simp [hil]
    · have : ¬ j = i := fun h => hij h.symm
      simp [hij, this]
  split
  · rename_i hk
    rw [absOf_eq_some_iff H']
    exact ⟨i, hc ▸ hi, by rw [hkey, hk], by rw [hval]; simp⟩
  · rename_i hk
    cases ha : absOf s k with
    | none =>
      rw [absOf_eq_none_iff] at ha ⊢
      intro j hj; rw [hkey]; exact ha j (hc ▸ hj)
    | some w =>
      rw [absOf_eq_some_iff H] at ha
      obtain ⟨j, hj, hjk, hjv⟩ := ha
      rw [absOf_eq_some_iff H']
      refine ⟨j, hc ▸ hj, by rw [hkey, hjk], ?_⟩
      rw [hval]
      have : j ≠ i := fun h => hk (h ▸ hjk)
      simp [this, hjv]

/-! ### `NextOK` under the surgeries -/

theorem nextOK_append {heap : List NodeS} (hok : NextOK heap) {new : NodeS} (hnew : new.next = none) :
    NextOK (heap ++ [new]) := by
  intro a n b hn hb
  rw [List.length_append, List.length_singleton]
  by_cases ha : a < heap.length
  · rw [List.getElem?_append_left ha] at hn
    have := hok a n b hn hb
    omega
  · have hlen : a < (heap ++ [new]).length := (List.getElem?_eq_some_iff.1 hn).1
    rw [List.length_append, List.length_singleton] at hlen
    have : a = heap.length := by omega
    subst this
    simp only [List.getElem?_concat_length, Option.some.injEq] at hn
    subst hn
    rw [hnew] at hb; cases hb

theorem nextOK_modify_next {heap : List NodeS} (hok : NextOK heap) {i : Nat} {x : Option Nat}
    (hx : ∀ b, x = some b → i < b ∧ b < heap.length) :
    NextOK (heap.modify i (fun n => { n with next := x })) := by
  intro a n b hn hb
  rw [List.length_modify]
  rw [List.getElem?_modify] at hn
  cases hn0 : heap[a]? with
  | none => rw [hn0] at hn; cases hn
  | some n0 =>
    rw [hn0] at hn
    simp only [Option.map_eq_map, Option.map_some, Option.some.injEq] at hn
    subst hn
    split at hb
    · rename_i hia
      subst hia
      exact hx b hb
    · exact hok a n0 b hn0 hb

/-! ### surgery 2: append a node at the end of the chain -/

theorem append_summary {s s' : State} (H : HInv s) {new : NodeS}
    (hok' : NextOK s'.heap) (hho' : ∀ h, s'.head = some h → h < s'.heap.length)
    (hlen : s'.heap.length = s.heap.length + 1)
    (hc : chain s' = chain s ++ [s.heap.length])
    (hold : ∀ j, j < s.heap.length → (nodeAt s'.heap j).key = (nodeAt s.heap j).key ∧
      (nodeAt s'.heap j).val = (nodeAt s.heap j).val ∧
      (j ∉ chain s → (nodeAt s'.heap j).next = (nodeAt s.heap j).next))
    (hnew : nodeAt s'.heap s.heap.length = new)
    (hfresh : ∀ i ∈ chain s, (nodeAt s.heap i).key ≠ new.key) :
    HInv s' ∧ HeapStep s s' ∧
      ∀ k, absOf s' k = if new.key = k then some new.val else absOf s k := by
  have H' : HInv s' := by
    refine ⟨hok', hho', ?_⟩
    rw [hc]
    intro a ha b hb hab
    rcases List.mem_append.1 ha with ha | ha <;> rcases List.mem_append.1 hb with hb | hb
    · rw [(hold a (chain_lt H ha)).1, (hold b (chain_lt H hb)).1] at hab
      exact H.keysDistinct a ha b hb hab
    · have hb' : b = s.heap.length := by simpa using hb
      subst hb'
      rw [(hold a (chain_lt H ha)).1, hnew] at hab
      exact absurd hab (hfresh a ha)
    · have ha' : a = s.heap.length := by simpa using ha
      subst ha'
      rw [(hold b (chain_lt H hb)).1, hnew] at hab
      exact absurd hab.symm (hfresh b hb)
    · have ha' : a = s.heap.length := by simpa using ha
      have hb' : b = s.heap.length := by simpa using hb
      rw [ha', hb']
  refine ⟨H', ⟨by omega, fun j hj => (hold j hj).1, fun j hj hjc => ⟨(hold j hj).2.1, (hold j hj).2.2 hjc⟩, ?_, ?_⟩, ?_⟩
  · intro j hj
    rw [hc] at hj
    rcases List.mem_append.1 hj with hj | hj
    · exact Or.inl hj
    · have : j = s.heap.length := by simpa using hj
      exact Or.inr (by omega)
  · intro c hc1 hc2
    exact absurd (hc ▸ List.mem_append_left _ hc1) hc2
  · intro k
    split
    · rename_i hk
      rw [absOf_eq_some_iff H']
      exact ⟨s.heap.length, by rw [hc]; simp, by rw [hnew, hk], by rw [hnew]⟩
    · rename_i hk
      cases ha : absOf s k with
      | none =>
        rw [absOf_eq_none_iff] at ha ⊢
        intro j hj
        rw [hc] at hj
        rcases List.mem_append.1 hj with hj | hj
        · rw [(hold j (chain_lt H hj)).1]; exact ha j hj
        · have : j = s.heap.length := by simpa using hj
          subst this
          rw [hnew]; exact hk
      | some w =>
        rw [absOf_eq_some_iff H] at ha
        obtain ⟨j, hj, hjk, hjv⟩ := ha
        rw [absOf_eq_some_iff H']
        have hjl := chain_lt H hj
        exact ⟨j, by rw [hc]; exact List.mem_append_left _ hj, by rw [(hold j hjl).1, hjk],
          by rw [(hold j hjl).2.1, hjv]⟩

/-- append behind the last node of a non-empty chain -/
theorem append_last {s s' : State} (H : HInv s) {new : NodeS} {last : Nat}
    (hlast : (chain s).getLast? = some last) (hnx : new.next = none)
    (hh : s'.heap = (s.heap ++ [new]).modify last (fun n => { n with next := some s.heap.length }))
    (hd : s'.head = s.head)
    (hfresh : ∀ i ∈ chain s, (nodeAt s.heap i).key ≠ new.key) :
    HInv s' ∧ HeapStep s s' ∧
      ∀ k, absOf s' k = if new.key = k then some new.val else absOf s k := by
  obtain ⟨l0, hl0⟩ := List.getLast?_eq_some_iff.1 hlast
  have hlc : last ∈ chain s := by rw [hl0]; simp
  have hll := chain_lt H hlc
  have hok' : NextOK s'.heap := by
    rw [hh]
    refine nextOK_modify_next (nextOK_append H.nextOK hnx) ?_
    intro b hb
    cases hb
    rw [List.length_append, List.length_singleton]
    omega
  have hlen : s'.heap.length = s.heap.length + 1 := by
    rw [hh, List.length_modify, List.length_append, List.length_singleton]
  have hho' : ∀ h, s'.head = some h → h < s'.heap.length := by
    intro h hhd
    have := H.headOK h (hd ▸ hhd)
    omega
  have hc : chain s' = chain s ++ [s.heap.length] := by
    refine chain_eq' hok' hho' ?_
    rw [hd, hh, hl0]
    have := chain_isChain H
    rw [hl0] at this
    exact isChain_append_node H.nextOK this new hnx
  refine append_summary H hok' hho' hlen hc ?_ ?_ hfresh
  · intro j hj
    rw [hh, nodeAt_modify, nodeAt_append_left _ hj]
    split
    · rename_i hjl
      refine ⟨rfl, rfl, fun hjc => absurd (hjl.1 ▸ hlc) hjc⟩
    · exact ⟨rfl, rfl, fun _ => rfl⟩
  · rw [hh, nodeAt_modify, nodeAt_append_new]
    have : ¬ (last = s.heap.length ∧ s.heap.length < (s.heap ++ [new]).length) := by
      intro h; omega
    rw [if_neg this]

/-- install the first node of an empty bin (by the lock-free CAS; `writerStore` has the same case) -/
theorem append_empty {s s' : State} (H : HInv s) {new : NodeS}
    (hempty : chain s = []) (hnx : new.next = none)
    (hh : s'.heap = s.heap ++ [new]) (hd : s'.head = some s.heap.length) :
    HInv s' ∧ HeapStep s s' ∧
      ∀ k, absOf s' k = if new.key = k then some new.val else absOf s k := by
  have hok' : NextOK s'.heap := by rw [hh]; exact nextOK_append H.nextOK hnx
  have hlen : s'.heap.length = s.heap.length + 1 := by
    rw [hh, List.length_append, List.length_singleton]
  have hho' : ∀ h, s'.head = some h → h < s'.heap.length := by
    intro h hhd
    rw [hd] at hhd; cases hhd
    omega
  have hc : chain s' = chain s ++ [s.heap.length] := by
    refine chain_eq' hok' hho' ?_
    rw [hd, hempty, hh]
    refine .cons (n := new) (by simp) ?_
    rw [hnx]; exact .nil _
  refine append_summary H hok' hho' hlen hc ?_ ?_ (by rw [hempty]; intro i hi; cases hi)
  · intro j hj
    rw [hh, nodeAt_append_left _ hj]
    exact ⟨rfl, rfl, fun _ => rfl⟩
  · rw [hh, nodeAt_append_new]

/-! ### surgery 3: unlink a chain node -/

theorem unlink_summary {s s' : State} (H : HInv s) {i : Nat} (hi : i ∈ chain s)
    (hok' : NextOK s'.heap) (hho' : ∀ h, s'.head = some h → h < s'.heap.length)
    (hlen : s'.heap.length = s.heap.length)
    (hc : ∀ j, j ∈ chain s' ↔ j ∈ chain s ∧ j ≠ i)
    (hold : ∀ j, j < s.heap.length → (nodeAt s'.heap j).key = (nodeAt s.heap j).key ∧
      (nodeAt s'.heap j).val = (nodeAt s.heap j).val ∧
      ((j ∉ chain s ∨ j = i) → (nodeAt s'.heap j).next = (nodeAt s.heap j).next)) :
    HInv s' ∧ HeapStep s s' ∧
      ∀ k, absOf s' k = if (nodeAt s.heap i).key = k then none else absOf s k := by
  have H' : HInv s' := by
    refine ⟨hok', hho', ?_⟩
    intro a ha b hb hab
    have ha' := ((hc a).1 ha).1
    have hb' := ((hc b).1 hb).1
    rw [(hold a (chain_lt H ha')).1, (hold b (chain_lt H hb')).1] at hab
    exact H.keysDistinct a ha' b hb' hab
  refine ⟨H', ⟨by omega, fun j hj => (hold j hj).1,
    fun j hj hjc => ⟨(hold j hj).2.1, (hold j hj).2.2 (Or.inl hjc)⟩, ?_, ?_⟩, ?_⟩
  · intro j hj
    exact Or.inl ((hc j).1 hj).1
  · intro c hc1 hc2
    have hci : c = i := by
      apply Classical.byContradiction
      intro hne
      exact hc2 ((hc c).2 ⟨hc1, hne⟩)
    subst hci
    have hcl := chain_lt H hc1
    exact ⟨(hold c hcl).2.1, (hold c hcl).2.2 (Or.inr rfl), fun j hj hne => (hc j).2 ⟨hj, hne⟩⟩
  · intro k
    split
    · rename_i hk
      rw [absOf_eq_none_iff]
      intro j hj
      obtain ⟨hj1, hj2⟩ := (hc j).1 hj
      rw [(hold j (chain_lt H hj1)).1]
      intro hjk
      exact hj2 (H.keysDistinct j hj1 i hi (by rw [hjk, hk]))
    · rename_i hk
      cases ha : absOf s k with
      | none =>
        rw [absOf_eq_none_iff] at ha ⊢
        intro j hj
        obtain ⟨hj1, -⟩ := (hc j).1 hj
        rw [(hold j (chain_lt H hj1)).1]; exact ha j hj1
      | some w =>
        rw [absOf_eq_some_iff H] at ha
        obtain ⟨j, hj, hjk, hjv⟩ := ha
        rw [absOf_eq_some_iff H']
        have hjl := chain_lt H hj
        have hji : j ≠ i := fun h => hk (h ▸ hjk)
        exact ⟨j, (hc j).2 ⟨hj, hji⟩, by rw [(hold j hjl).1, hjk], by rw [(hold j hjl).2.1, hjv]⟩

theorem unlink_mid {s s' : State} (H : HInv s) {l1 l2 : List Nat} {pr i : Nat}
    (hch : chain s = l1 ++ pr :: i :: l2)
    (hh : s'.heap = s.heap.modify pr (fun m => { m with next := (nodeAt s.heap i).next }))
    (hd : s'.head = s.head) :
    HInv s' ∧ HeapStep s s' ∧
      ∀ k, absOf s' k = if (nodeAt s.heap i).key = k then none else absOf s k := by
  have hi : i ∈ chain s := by rw [hch]; simp
  have hpr : pr ∈ chain s := by rw [hch]; simp
  have hil := chain_lt H hi
  have hni := getElem?_nodeAt hil
  have hchain := chain_isChain H
  rw [hch] at hchain
  have hnd := chain_nodup H
  rw [hch] at hnd
  have hpri : pr ≠ i := by
    intro he
    subst he
    have := (List.nodup_append.1 hnd).2.1
    simp at this
  -- `pr.next = some i`
  obtain ⟨b, h1, h2⟩ := hchain.split
  obtain ⟨-, np, hnp, hs⟩ := IsSeg.cons_iff.1 h2
  obtain ⟨hb, -⟩ := IsSeg.cons_iff.1 hs
  have hok' : NextOK s'.heap := by
    rw [hh]
    refine nextOK_modify_next H.nextOK ?_
    intro b hb'
    have h3 := H.nextOK pr np i hnp hb
    have h4 := H.nextOK i _ b hni hb'
    omega
  have hlen : s'.heap.length = s.heap.length := by rw [hh, List.length_modify]
  have hho' : ∀ h, s'.head = some h → h < s'.heap.length := by
    intro h hhd
    have := H.headOK h (hd ▸ hhd)
    omega
  have hc : chain s' = l1 ++ pr :: l2 := by
    refine chain_eq' hok' hho' ?_
    rw [hd, hh]
    have := chain_isChain H
    rw [hch] at this
    exact isChain_unlink H.nextOK this hni
  refine unlink_summary H hi hok' hho' hlen ?_ ?_
  · intro j
    rw [hc, hch]
    simp only [List.mem_append, List.mem_cons]
    constructor
    · intro hj
      refine ⟨by rcases hj with hj | hj | hj <;> simp [hj], ?_⟩
      rintro rfl
      have h5 := List.nodup_append.1 hnd
      rcases hj with hj | hj | hj
      · exact h5.2.2 j hj j (by simp) rfl
      · exact hpri hj.symm
      · have := (List.nodup_cons.1 (List.nodup_cons.1 h5.2.1).2).1
        exact this hj
    · rintro ⟨hj | hj | hj | hj, hne⟩
      · exact Or.inl hj
      · exact Or.inr (Or.inl hj)
      · exact absurd hj hne
      · exact Or.inr (Or.inr hj)
  · intro j hj
    rw [hh, nodeAt_modify]
    split
    · rename_i hjp
      refine ⟨rfl, rfl, ?_⟩
      rintro (hjc | hji)
      · exact absurd (hjp.1 ▸ hpr) hjc
      · exact absurd (hjp.1.trans hji) hpri
    · exact ⟨rfl, rfl, fun _ => rfl⟩

theorem unlink_head {s s' : State} (H : HInv s) {l2 : List Nat} {i : Nat}
    (hch : chain s = i :: l2)
    (hh : s'.heap = s.heap) (hd : s'.head = (nodeAt s.heap i).next) :
    HInv s' ∧ HeapStep s s' ∧
      ∀ k, absOf s' k = if (nodeAt s.heap i).key = k then none else absOf s k := by
  have hi : i ∈ chain s := by rw [hch]; simp
  have hil := chain_lt H hi
  have hni := getElem?_nodeAt hil
  have hchain := chain_isChain H
  rw [hch] at hchain
  have hnd := chain_nodup H
  rw [hch] at hnd
  obtain ⟨-, ni, hni', hs⟩ := IsSeg.cons_iff.1 hchain
  rw [hni] at hni'; cases hni'
  have hok' : NextOK s'.heap := by rw [hh]; exact H.nextOK
  have hho' : ∀ h, s'.head = some h → h < s'.heap.length := by
    intro h hhd
    rw [hd] at hhd
    rw [hh]
    exact (H.nextOK i _ h hni hhd).2
  have hc : chain s' = l2 := by
    refine chain_eq' hok' hho' ?_
    rw [hd, hh]; exact hs
  refine unlink_summary H hi hok' hho' (by rw [hh]) ?_ ?_
  · intro j
    rw [hc, hch]
    simp only [List.mem_cons]
    constructor
    · intro hj
      refine ⟨Or.inr hj, ?_⟩
      rintro rfl
      exact (List.nodup_cons.1 hnd).1 hj
    · rintro ⟨hj | hj, hne⟩
      · exact absurd hj hne
      · exact hj
  · intro j _
    rw [hh]
    exact ⟨rfl, rfl, fun _ => rfl⟩

theorem predOf_cases {l : List Nat} (hnd : l.Nodup) {i : Nat} (hi : i ∈ l) :
    (∃ l2, l = i :: l2 ∧ predOf l i = none) ∨
    (∃ l1 pr l2, l = l1 ++ pr :: i :: l2 ∧ predOf l i = some pr) := by
  obtain ⟨l1, l2, rfl⟩ := List.append_of_mem hi
  have h5 := List.nodup_append.1 hnd
  have hi1 : i ∉ l1 := fun hm => h5.2.2 i hm i (by simp) rfl
  have hi2 : i ∉ l2 := (List.nodup_cons.1 h5.2.1).1
  rcases List.eq_nil_or_concat l1 with rfl | ⟨l1', pr, rfl⟩
  · exact Or.inl ⟨l2, rfl, predOf_head i l2 hi2⟩
  · refine Or.inr ⟨l1', pr, l2, by simp, ?_⟩
    have hpr : pr ≠ i := fun he => hi1 (by simp [he])
    have : i ∉ l1' := fun hm => hi1 (by simp [hm])
    have h := predOf_mid i pr l2 hpr l1' this
    simpa using h

/-- the unlink store of `writerStore` -/
theorem unlink_store {s s' : State} (H : HInv s) {i : Nat} (hi : i ∈ chain s)
    (hs' : s' = (match predOf (chain s) i with
      | some pr => setNode s pr (fun m => { m with next := (nodeAt s.heap i).next })
      | none => { s with head := (nodeAt s.heap i).next })) :
    HInv s' ∧ HeapStep s s' ∧
      ∀ k, absOf s' k = if (nodeAt s.heap i).key = k then none else absOf s k := by
  rcases predOf_cases (chain_nodup H) hi with ⟨l2, hch, hp⟩ | ⟨l1, pr, l2, hch, hp⟩
  · rw [hp] at hs'
    subst hs'
    exact unlink_head H hch rfl rfl
  · rw [hp] at hs'
    subst hs'
    exact unlink_mid H hch rfl rfl

/-! ## the store of a validated writer -/

/-- what `writerStore` guarantees -/
def StoreOK (s : State) (p : Pending) (r : State × KRes) : Prop :=
  HInv r.1 ∧ HeapStep s r.1 ∧ r.1.threads = s.threads ∧ r.1.hist = s.hist ∧ r.1.now = s.now ∧
  specStep2 (absOf s p.key) p.op = (absOf r.1 p.key, r.2) ∧ ∀ k, k ≠ p.key → absOf r.1 k = absOf s k

theorem absOf_of_hit {s : State} (H : HInv s) {k i : Nat}
    (h : (chain s).find? (fun i => (nodeAt s.heap i).key == k) = some i) :
    absOf s k = some (nodeAt s.heap i).val := by
  obtain ⟨hi, hk⟩ := find_hit_some h
  exact (absOf_eq_some_iff H).2 ⟨i, hi, hk, rfl⟩

theorem absOf_of_miss {s : State} {k : Nat}
    (h : (chain s).find? (fun i => (nodeAt s.heap i).key == k) = none) : absOf s k = none :=
  absOf_eq_none_iff.2 (find_hit_none h)

theorem storeOK_swap {s : State} (H : HInv s) (p : Pending) {i : Nat} {v : Nat × Nat} {res : KRes}
    (h : (chain s).find? (fun i => (nodeAt s.heap i).key == p.key) = some i)
    (hspec : specStep2 (some (nodeAt s.heap i).val) p.op = (some v, res)) :
    StoreOK s p (setNode s i (fun n => { n with val := v }), res) := by
  obtain ⟨hi, hk⟩ := find_hit_some h
  have hf : ∀ n : NodeS, ({ n with val := v } : NodeS).next = n.next ∧ ({ n with val := v } : NodeS).key = n.key :=
    fun n => ⟨rfl, rfl⟩
  have hab := swap_absOf (s' := setNode s i (fun n => { n with val := v })) H hi rfl rfl
  refine ⟨modify_hinv H rfl rfl hf, modify_heapStep H rfl rfl hf (Or.inl hi), rfl, rfl, rfl, ?_, ?_⟩
  · rw [absOf_of_hit H h, hspec, hab, if_pos hk]
  · intro k hkne
    rw [hab, if_neg (by rw [hk]; exact fun h => hkne h.symm)]

theorem storeOK_append {s : State} (H : HInv s) (p : Pending) {v : Nat × Nat}
    (h : (chain s).find? (fun i => (nodeAt s.heap i).key == p.key) = none)
    (hspec : specStep2 none p.op = (some v, .none)) :
    StoreOK s p
      (match (chain s).getLast? with
        | some l => (setNode { s with heap := s.heap ++ [(⟨p.key, v, none, none⟩ : NodeS)] } l
            (fun n => { n with next := some s.heap.length }), KRes.none)
        | none => ({ { s with heap := s.heap ++ [(⟨p.key, v, none, none⟩ : NodeS)] } with head := some s.heap.length }, KRes.none)) := by
  have hfresh := find_hit_none h
  cases hl : (chain s).getLast? with
  | some l =>
    obtain ⟨H', hs, hab⟩ := append_last (s' := setNode { s with heap := s.heap ++ [(⟨p.key, v, none, none⟩ : NodeS)] } l
            (fun n => { n with next := some s.heap.length })) (new := (⟨p.key, v, none, none⟩ : NodeS)) H hl rfl rfl rfl hfresh
    refine ⟨H', hs, rfl, rfl, rfl, ?_, ?_⟩
    · rw [absOf_of_miss h, hspec, hab]; simp
    · intro k hk
      rw [hab, if_neg (fun h => hk h.symm)]
  | none =>
    have hempty : chain s = [] := List.getLast?_eq_none_iff.1 hl
    obtain ⟨H', hs, hab⟩ := append_empty (s' := { { s with heap := s.heap ++ [(⟨p.key, v, none, none⟩ : NodeS)] } with head := some s.heap.length })
      (new := (⟨p.key, v, none, none⟩ : NodeS)) H hempty rfl rfl rfl
    refine ⟨H', hs, rfl, rfl, rfl, ?_, ?_⟩
    · rw [absOf_of_miss h, hspec, hab]; simp
    · intro k hk
      rw [hab, if_neg (fun h => hk h.symm)]

theorem storeOK_unlink {s : State} (H : HInv s) (p : Pending) {i : Nat} {res : KRes}
    (h : (chain s).find? (fun i => (nodeAt s.heap i).key == p.key) = some i)
    (hspec : specStep2 (some (nodeAt s.heap i).val) p.op = (none, res)) :
    StoreOK s p
      ((match predOf (chain s) i with
        | some pr => setNode s pr (fun m => { m with next := (nodeAt s.heap i).next })
        | none => { s with head := (nodeAt s.heap i).next }), res) := by
  obtain ⟨hi, hk⟩ := find_hit_some h
  obtain ⟨H', hs, hab⟩ := unlink_store H hi rfl
  refine ⟨H', hs, ?_, ?_, ?_, ?_, ?_⟩
  · cases predOf (chain s) i <;> rfl
  · cases predOf (chain s) i <;> rfl
  · cases predOf (chain s) i <;> rfl
  · rw [absOf_of_hit H h, hspec, hab, if_pos hk]
  · intro k hkne
    rw [hab, if_neg (by rw [hk]; exact fun h => hkne h.symm)]

theorem storeOK_noop {s : State} (H : HInv s) (p : Pending) {res : KRes}
    (hspec : specStep2 (absOf s p.key) p.op = (absOf s p.key, res)) : StoreOK s p (s, res) :=
  ⟨H, HeapStep.of_same rfl rfl, rfl, rfl, rfl, hspec, fun _ _ => rfl⟩

/-- **`writerStore_spec`**: the single store of a validated writer is the specification step on its
own key, leaves every other key alone, and preserves the heap invariant. -/
theorem writerStore_spec {s : State} (H : HInv s) (p : Pending) (hw : isReader p.op = false) :
    StoreOK s p (writerStore s p) := by
  unfold writerStore
  simp only
  cases hop : p.op with
  | get => rw [hop] at hw; cases hw
  | has => rw [hop] at hw; cases hw
  | ins v vi =>
    cases hit : (chain s).find? (fun i => (s.heap.getD i ⟨0, (0, 0), none, none⟩).key == p.key) with
    | some i =>
      simp only
      refine storeOK_swap H p hit ?_
      rw [hop]; rfl
    | none =>
      simp only
      refine storeOK_append H p hit ?_
      rw [hop]; rfl
  | tryIns v vi =>
    cases hit : (chain s).find? (fun i => (s.heap.getD i ⟨0, (0, 0), none, none⟩).key == p.key) with
    | some i =>
      simp only
      refine storeOK_noop H p ?_
      rw [absOf_of_hit H hit, hop]; rfl
    | none =>
      simp only
      refine storeOK_append H p hit ?_
      rw [hop]; rfl
  | rm =>
    cases hit : (chain s).find? (fun i => (s.heap.getD i ⟨0, (0, 0), none, none⟩).key == p.key) with
    | some i =>
      simp only
      refine storeOK_unlink H p hit ?_
      rw [hop]; rfl
    | none =>
      simp only
      refine storeOK_noop H p ?_
      rw [absOf_of_miss hit, hop]; rfl
  | cipInc nvi =>
    cases hit : (chain s).find? (fun i => (s.heap.getD i ⟨0, (0, 0), none, none⟩).key == p.key) with
    | some i =>
      simp only
      refine storeOK_swap H p hit ?_
      rw [hop]; rfl
    | none =>
      simp only
      refine storeOK_noop H p ?_
      rw [absOf_of_miss hit, hop]; rfl
  | cipRm =>
    cases hit : (chain s).find? (fun i => (s.heap.getD i ⟨0, (0, 0), none, none⟩).key == p.key) with
    | some i =>
      simp only
      refine storeOK_unlink H p hit ?_
      rw [hop]; rfl
    | none =>
      simp only
      refine storeOK_noop H p ?_
      rw [absOf_of_miss hit, hop]; rfl
  | condRm vi =>
    cases hit : (chain s).find? (fun i => (s.heap.getD i ⟨0, (0, 0), none, none⟩).key == p.key) with
    | some i =>
      simp only
      by_cases hv : (s.heap.getD i ⟨0, (0, 0), none, none⟩).val.2 = vi
      · rw [if_pos hv]
        refine storeOK_unlink H p hit ?_
        rw [hop]
        show specStep2 (some ((s.heap.getD i ⟨0, (0, 0), none, none⟩).val.1, (s.heap.getD i ⟨0, (0, 0), none, none⟩).val.2)) _ = _
        simp only [specStep2, if_pos hv]
      · rw [if_neg hv]
        refine storeOK_noop H p ?_
        rw [absOf_of_hit H hit, hop]
        show specStep2 (some ((s.heap.getD i ⟨0, (0, 0), none, none⟩).val.1, (s.heap.getD i ⟨0, (0, 0), none, none⟩).val.2)) _ = _
        simp only [specStep2, if_neg hv]
        rfl
    | none =>
      simp only
      refine storeOK_noop H p ?_
      rw [absOf_of_miss hit, hop]; rfl

end Flurry.Proto.BinR.Base
