import Flurry.Lemmas.BinNRFacts
/-! # Proto/BinNR: the remover's unlink store makes the node it found unreachable (C03) -/
namespace Flurry.Proto.BinNR
open Flurry.Lin
open Flurry.Proto.BinX (NodeS Cell Pending isReader dflt chainFrom cellHead cellOfHead nodeAt nodeAt_of_some getElem?_nodeAt
  IsSeg IsChain chainH chainH_empty chainH_moved get_set get_set_self get_set_ne Walk absIn_eq_some_iff)
open Flurry.Proto.BinN (Pc Local cellAt cellOf chainOfCell Ghost Inv HInv MemStep HeapStep Live chId getCell CellId
  StepK chId_of_moved tick setT setNode putCell storeAt finish vcell cellId keyOn_cellId SameMem store_effect
  hinv_update absOf_active LC)

/-- the unlink store of a remover: the node it found was in the chain of its cell and is in no chain afterwards -/
theorem hit_dead {s : BinN.State} {G : Ghost} (I : Inv s G) {t : Nat} {p : Pending} {g h i : Nat}
    {pred hnext : Option Nat}
    (hl : s.threads[t]? = some { pc := .wStore g h pred (some i) hnext, call := some p })
    (hop : p.op = .rm ∨ p.op = .cipRm) :
    Live0 s i ∧ ¬ Live0 (storeAt (tick s) g p pred (some i) hnext).1 i := by
  have H := I.heap
  have T := I.gen.thr t _ hl
  have hv0 : vcell s.cur { pc := Pc.wStore g h pred (some i) hnext, call := some p } = some (g, p.key % 2 ^ g, h) := rfl
  have act := I.active_of_vcell hl rfl rfl (fun h => h) hv0
  obtain ⟨hcell, -⟩ := T.valid _ _ _ hv0
  have hwr : isReader p.op = false := I.thr.opOK t _ p hl rfl
  have hw := I.walk.walk t _ p hl rfl
  have Ht := H.sameMem (SameMem.tick s)
  have actt := act.sameMem (SameMem.tick s)
  obtain ⟨⟨C', u, hs, -⟩, -, -, -, -, hspec, -⟩ := store_effect (s := tick s) Ht p hwr actt (h := h) hcell hw.1 hw.2
  have H' := hinv_update Ht actt u
  have hmem : i ∈ chId (tick s) (cellId g p.key) := hw.1.cur_mem
  have hkey : (nodeAt (tick s).heap i).key = p.key := (hw.2 i rfl).1
  refine ⟨⟨cellId g p.key, hmem⟩, ?_⟩
  have habs : BinN.absOf (tick s) p.key = some (nodeAt (tick s).heap i).val := by
    rw [absOf_active Ht actt (keyOn_cellId g p.key)]
    exact (absIn_eq_some_iff (Ht.keys _)).2 ⟨i, hmem, hkey, rfl⟩
  have hnone : BinN.absOf (storeAt (tick s) g p pred (some i) hnext).1 p.key = none := by
    rw [habs] at hspec
    rcases hop with h | h <;> rw [h] at hspec <;> simp only [specStep, Prod.mk.injEq] at hspec <;> exact hspec.1.symm
  have hLC : i ∈ LC (tick s) p.key := by
    rw [Ht.LC_eq, Ht.liveId_of_active actt (keyOn_cellId g p.key)]; exact hmem
  have hnLC : i ∉ LC (storeAt (tick s) g p pred (some i) hnext).1 p.key := by
    intro hin
    have := (H'.absOf_none_iff).1 hnone i hin
    apply this
    rw [hs.key i (Ht.chain_lt hmem)]
    exact hkey
  obtain ⟨-, -, hdead, -⟩ := hs.unl p.key i hLC hnLC
  exact fun h0 => hdead h0.live

end Flurry.Proto.BinNR
