import Flurry.Lemmas.IterBasic
/-! # Lemmas/IterFrozen: the traverser on a frozen chain yields exactly `contents`

`traverse_subtree`: positioned at bin `i` of table `j` (any stack, any base), the traverser spends
`steps c d j i` turns to yield `resolve c d j i` (the depth-first walk of the forwarding tree below
that bin, low half before high half) and is then in the state `recover` computes from the position
it started at. `traverse_top` chains this over the top-level bins. -/
namespace Flurry.Seq.Iter
open Flurry

theorem traverse_subtree {c : Chain} (hwf : ChainWF c) :
    ∀ d j, j < c.length → c.length - j ≤ d →
    ∀ (σ : List Frame) (i b bl bs m : Nat), i < (tableAt c j).length → b < bl →
      traverse c (steps c d j i + m) ⟨some j, σ, i, b, bl, bs⟩ =
        resolve c d j i ++
          traverse c m (recover ⟨some j, σ, i, b, bl, bs⟩ (tableAt c j).length) := by
  intro d
  induction d with
  | zero => intro j hj hd; omega
  | succ d ih =>
    intro j hj hd σ i b bl bs m hi hb
    cases hbin : (tableAt c j).getD i (.nodes []) with
    | nodes ns =>
      have hs : steps c (d + 1) j i = 1 := by rw [steps, hbin]
      have hr : resolve c (d + 1) j i = ns := by rw [resolve, hbin]
      rw [hs, hr, Nat.add_comm 1 m, traverse_succ, advance_nodes c j σ i b bl bs ns hb hi hbin]
    | moved =>
      have hj1 : j + 1 < c.length := hwf.moved_not_last hj hi hbin
      have hlen : (tableAt c (j + 1)).length = 2 * (tableAt c j).length := hwf.len_succ hj1
      have hs : steps c (d + 1) j i =
          1 + steps c d (j + 1) i + steps c d (j + 1) (i + (tableAt c j).length) := by
        rw [steps, hbin]
      have hr : resolve c (d + 1) j i =
          resolve c d (j + 1) i ++ resolve c d (j + 1) (i + (tableAt c j).length) := by
        rw [resolve, hbin]
      have e : steps c (d + 1) j i + m =
          (steps c d (j + 1) i + (steps c d (j + 1) (i + (tableAt c j).length) + m)) + 1 := by
        rw [hs]; omega
      rw [e, hr, traverse_succ, advance_moved c j σ i b bl bs hb hi hbin]
      simp only [List.nil_append]
      rw [ih (j + 1) hj1 (by omega) _ i b bl bs _ (by omega) hb]
      rw [hlen, recover_low _ _ _ _ _ _ _ _ (by simp; omega)]
      simp only []
      rw [ih (j + 1) hj1 (by omega) _ _ b bl bs m (by omega) hb]
      rw [hlen, recover_high _ _ _ _ _ _ _ _ (by simp; omega)]
      simp only [List.append_assoc]

/-- the state at the beginning of top-level bin `b` -/
def topSt (c : Chain) (b : Nat) : St :=
  ⟨some 0, [], b, b, (tableAt c 0).length, (tableAt c 0).length⟩

theorem initSt_eq_topSt (c : Chain) (hc : c ≠ []) : initSt c = topSt c 0 := by
  cases c with
  | nil => exact absurd rfl hc
  | cons t c => simp [initSt, topSt, tableAt]

/-- turns spent on the top-level bins `b, b+1, …, b+r-1` -/
def topSteps (c : Chain) (d : Nat) : Nat → Nat → Nat
  | _, 0 => 0
  | b, r + 1 => steps c d 0 b + topSteps c d (b + 1) r

theorem topSteps_le (c : Chain) (d b r : Nat) : topSteps c d b r ≤ r * (2 ^ d - 1) := by
  induction r generalizing b with
  | zero => simp [topSteps]
  | succ r ih =>
    have h1 := steps_le c d 0 b
    have h2 := ih (b + 1)
    simp only [topSteps, Nat.succ_mul]
    omega

theorem traverse_top {c : Chain} (hwf : ChainWF c) (hc : 0 < c.length) (d : Nat)
    (hd : c.length ≤ d) :
    ∀ r b m, b + r = (tableAt c 0).length →
      traverse c (topSteps c d b r + m) (topSt c b) =
        (List.range' b r).flatMap (fun i => resolve c d 0 i) := by
  intro r
  induction r with
  | zero =>
    intro b m hb
    simp only [topSteps, List.range'_zero, List.flatMap_nil]
    exact traverse_done c _ _ _ _ _ _ _ (by omega)
  | succ r ih =>
    intro b m hb
    have e : topSteps c d b (r + 1) + m = steps c d 0 b + (topSteps c d (b + 1) r + m) := by
      simp only [topSteps]; omega
    rw [e, topSt, traverse_subtree hwf d 0 hc (by omega) [] b b _ _ _ (by omega) (by omega)]
    rw [recover_nil]
    simp only [ge_iff_le, Nat.le_add_left, if_true]
    have := ih (b + 1) m (by omega)
    rw [topSt] at this
    rw [this, List.range'_succ, List.flatMap_cons]

/-- the general form: any fuel of at least `topSteps` (in particular `fuelFor c`) gives
`contents c` -/
theorem traverse_eq_contents {c : Chain} (hwf : ChainWF c) (m : Nat) :
    traverse c (topSteps c (c.length + 1) 0 (tableAt c 0).length + m) (initSt c) = contents c := by
  cases hc : c with
  | nil => simp [contents, tableAt, topSteps, traverse_done, initSt]
  | cons t c' =>
    rw [← hc]
    have hpos : 0 < c.length := by rw [hc]; simp
    rw [initSt_eq_topSt c (by rw [hc]; simp)]
    rw [traverse_top hwf hpos (c.length + 1) (by omega) _ 0 m (by omega)]
    simp [contents, List.range_eq_range']

theorem lt_of_getD_moved {t : FTable} {i : Nat} (h : t.getD i (.nodes []) = .moved) :
    i < t.length := by
  apply Classical.byContradiction
  intro hn
  rw [List.getD_eq_getElem?_getD, List.getElem?_eq_none (by omega)] at h
  simp at h

/-- on a well-formed chain the forwarding tree below a bin of table `j` has depth at most
`c.length - j`, whatever the fuel -/
theorem steps_le_wf {c : Chain} (hwf : ChainWF c) :
    ∀ d j i, j < c.length → steps c d j i ≤ 2 ^ (c.length - j) - 1 := by
  intro d
  induction d with
  | zero => intro j i _; simp [steps]
  | succ d ih =>
    intro j i hj
    unfold steps
    split
    · have : 2 ^ 1 ≤ 2 ^ (c.length - j) := Nat.pow_le_pow_right (by omega) (by omega)
      omega
    · rename_i hbin
      have hj1 := hwf.moved_not_last hj (lt_of_getD_moved hbin) hbin
      have h1 := ih (j + 1) i hj1
      have h2 := ih (j + 1) (i + (tableAt c j).length) hj1
      have e : c.length - j = (c.length - (j + 1)) + 1 := by omega
      have : 1 ≤ 2 ^ (c.length - (j + 1)) := Nat.one_le_two_pow
      rw [e, Nat.pow_succ]; omega

theorem topSteps_le_wf {c : Chain} (hwf : ChainWF c) (hc : 0 < c.length) (d b r : Nat) :
    topSteps c d b r ≤ r * (2 ^ c.length - 1) := by
  induction r generalizing b with
  | zero => simp [topSteps]
  | succ r ih =>
    have h1 := steps_le_wf hwf d 0 b hc
    have h2 := ih (b + 1)
    simp only [topSteps, Nat.succ_mul]
    simp only [Nat.sub_zero] at h1
    omega

/-- the traversal needs at most one turn per node of a full binary forwarding tree below each
top-level bin; `fuelFor` is larger -/
theorem topSteps_le_fuelFor {c : Chain} (hwf : ChainWF c) (d : Nat) :
    topSteps c d 0 (tableAt c 0).length ≤ fuelFor c := by
  cases hc : c with
  | nil => simp [tableAt, topSteps]
  | cons t c' =>
    rw [← hc]
    have hpos : 0 < c.length := by rw [hc]; simp
    exact Nat.le_trans (topSteps_le_wf hwf hpos d 0 _) hwf.fuel_bound

/-- **`traverse_frozen`**: on a frozen well-formed chain the traverser terminates within
`fuelFor c` turns and yields exactly the entries a lookup would find, each once, top-level bin by
top-level bin, and within a bin the forwarding tree left to right. -/
theorem traverse_frozen {c : Chain} (hwf : ChainWF c) :
    traverse c (fuelFor c) (initSt c) = contents c := by
  have h := topSteps_le_fuelFor hwf (c.length + 1)
  have := traverse_eq_contents hwf (fuelFor c - topSteps c (c.length + 1) 0 (tableAt c 0).length)
  rwa [Nat.add_sub_cancel' h] at this

/-- **`no_fuel_needed_more`**: the result does not depend on the fuel beyond `fuelFor c`. -/
theorem no_fuel_needed_more {c : Chain} (hwf : ChainWF c) (k : Nat) :
    traverse c (fuelFor c + k) (initSt c) = traverse c (fuelFor c) (initSt c) := by
  rw [traverse_frozen hwf]
  have h := topSteps_le_fuelFor hwf (c.length + 1)
  have := traverse_eq_contents hwf
    (fuelFor c - topSteps c (c.length + 1) 0 (tableAt c 0).length + k)
  rwa [← Nat.add_assoc, Nat.add_sub_cancel' h] at this

/-- any fuel of at least `fuelFor c` -/
theorem traverse_frozen_ge {c : Chain} (hwf : ChainWF c) (fuel : Nat) (h : fuelFor c ≤ fuel) :
    traverse c fuel (initSt c) = contents c := by
  have := no_fuel_needed_more hwf (fuel - fuelFor c)
  rw [Nat.add_sub_cancel' h] at this
  rw [this, traverse_frozen hwf]

/-- **`traverse_nodup`**: if no node sits in two places of the chain, no node is yielded twice. -/
theorem traverse_nodup {c : Chain} (hwf : ChainWF c) (h : (contents c).Nodup) :
    (traverse c (fuelFor c) (initSt c)).Nodup := by
  rw [traverse_frozen hwf]; exact h

theorem traverse_perm {c : Chain} (hwf : ChainWF c) :
    (traverse c (fuelFor c) (initSt c)).Perm (contents c) := by
  rw [traverse_frozen hwf]

end Flurry.Seq.Iter
