import Flurry.Lemmas.ReclaimBasic
/-! # Proto/Reclaim: every object is freed at most once, after it was retired, and exactly when
the last thread the collector waits for has released its guard (C04) -/
namespace Flurry.Proto.Reclaim

/-! ## free at most once (all runs, protected or not) -/

/-- the `frees` ledger is exactly the indicator of `freed` -/
structure FInv (s : State) : Prop where
  len : s.frees.length = s.objs.length
  count : ∀ o, s.frees.getD o 0 = if s.objs[o]? = some .freed then 1 else 0

theorem finv_init (n : Nat) : FInv (init n) := by
  constructor <;> simp [init]

theorem finv_step {s s' : State} {e : Ev} (hI : FInv s) (h : step s e = some s') : FInv s' := by
  obtain ⟨hl, hc⟩ := hI
  simp only [List.getD_eq_getElem?_getD] at hc
  cases e with
  | enter t =>
    obtain ⟨th, ht, hgd, hT, hO, hF, -⟩ := step_enter h
    constructor <;> simp only [hO, hF, List.getD_eq_getElem?_getD] <;> grind
  | exit t =>
    obtain ⟨th, ht, hgd, hT, hO, hF, -⟩ := step_exit h
    constructor
    · simp [hO, hF, hl]
    · intro o
      have : (List.map (dropWaiter t) s.objs)[o]? = some .freed ↔ s.objs[o]? = some .freed := by
        simp only [List.getElem?_map, Option.map_eq_some_iff]
        constructor
        · rintro ⟨a, ha, hd⟩; rw [dropWaiter_eq_freed.1 hd] at ha; exact ha
        · intro ha; exact ⟨_, ha, rfl⟩
      simp only [hO, hF, this, List.getD_eq_getElem?_getD]; exact hc o
  | alloc t =>
    obtain ⟨th, ht, hT, hO, hF, -⟩ := step_alloc h
    constructor <;> simp only [hO, hF, List.getD_eq_getElem?_getD] <;> grind
  | publish t o =>
    obtain ⟨th, ht, ho, hm, hT, hO, hF, -⟩ := step_publish h
    constructor <;> simp only [hO, hF, List.getD_eq_getElem?_getD] <;> grind
  | acquire t o =>
    obtain ⟨th, ht, ho, hgd, hT, hO, hF, -⟩ := step_acquire h
    constructor <;> simp only [hO, hF, List.getD_eq_getElem?_getD] <;> grind
  | touch t o =>
    obtain ⟨th, st, ht, ho, hm, hT, hO, hF, -⟩ := step_touch h
    constructor <;> simp only [hO, hF, List.getD_eq_getElem?_getD] <;> grind
  | unlink t o =>
    obtain ⟨th, ht, ho, hm, hgd, hT, hO, hF, -⟩ := step_unlink h
    constructor <;> simp only [hO, hF, List.getD_eq_getElem?_getD] <;> grind
  | retire t o =>
    obtain ⟨th, ht, ho, hgd, hT, hO, hF, -⟩ := step_retire h
    constructor <;> simp only [hO, hF, List.getD_eq_getElem?_getD] <;> grind
  | unprotectedRetire t o =>
    obtain ⟨th, ht, ho, hT, hO, hF, -⟩ := step_unprotectedRetire h
    constructor <;> simp only [hO, hF, List.getD_eq_getElem?_getD] <;> grind
  | free o =>
    obtain ⟨ho, hT, hO, hF, -⟩ := step_free h
    constructor <;> simp only [hO, hF, List.getD_eq_getElem?_getD] <;> grind

theorem finv_run {s s' : State} {es : List Ev} (hI : FInv s) (h : run s es = some s') : FInv s' :=
  run_preserves (P := FInv) (fun _ _ _ hP hs => finv_step hP hs) hI h

/-- C04: **no object is freed twice**, in any run (protected or not) -/
theorem free_at_most_once {n : Nat} {es : List Ev} {s : State} (h : run (init n) es = some s) :
    ∀ o, s.frees.getD o 0 ≤ 1 := by
  intro o; rw [(finv_run (finv_init n) h).count o]; split <;> omega

/-- the ledger is exact: an object has been freed once iff it is `freed`, never otherwise -/
theorem frees_eq_one_iff {n : Nat} {es : List Ev} {s : State} (h : run (init n) es = some s) (o : Nat) :
    s.frees.getD o 0 = 1 ↔ s.objs[o]? = some .freed := by
  rw [(finv_run (finv_init n) h).count o]; split <;> simp_all

theorem frees_eq_zero_iff {n : Nat} {es : List Ev} {s : State} (h : run (init n) es = some s) (o : Nat) :
    s.frees.getD o 0 = 0 ↔ s.objs[o]? ≠ some .freed := by
  rw [(finv_run (finv_init n) h).count o]; split <;> simp_all

/-! ## the life cycle only moves forward -/

/-- position in the life cycle `fresh → linked → unlinked → retired → freed` -/
def rank : OSt → Nat
  | .fresh => 0 | .linked => 1 | .unlinked => 2 | .retired _ => 3 | .freed => 4

theorem rank_dropWaiter (t : Nat) (st : OSt) : rank (dropWaiter t st) = rank st := by
  cases st <;> rfl

theorem step_rank_mono {s s' : State} {e : Ev} (h : step s e = some s') {o : Nat} {st : OSt}
    (ho : s.objs[o]? = some st) : ∃ st', s'.objs[o]? = some st' ∧ rank st ≤ rank st' := by
  cases e with
  | enter t => obtain ⟨_, _, _, _, hO, -⟩ := step_enter h; exact ⟨st, by rw [hO]; exact ho, Nat.le_refl _⟩
  | exit t =>
    obtain ⟨_, _, _, _, hO, -⟩ := step_exit h
    exact ⟨dropWaiter t st, by simp [hO, ho], by rw [rank_dropWaiter]; exact Nat.le_refl _⟩
  | alloc t =>
    obtain ⟨_, _, _, hO, -⟩ := step_alloc h
    exact ⟨st, by rw [hO]; grind, Nat.le_refl _⟩
  | publish t o' =>
    obtain ⟨_, _, ho', _, _, hO, -⟩ := step_publish h
    by_cases hoo : o' = o
    · subst hoo; exact ⟨.linked, by rw [hO]; grind, by cases st <;> simp_all [rank]⟩
    · exact ⟨st, by rw [hO]; grind, Nat.le_refl _⟩
  | acquire t o' => obtain ⟨_, _, _, _, _, hO, -⟩ := step_acquire h; exact ⟨st, by rw [hO]; exact ho, Nat.le_refl _⟩
  | touch t o' => obtain ⟨_, _, _, _, _, _, hO, -⟩ := step_touch h; exact ⟨st, by rw [hO]; exact ho, Nat.le_refl _⟩
  | unlink t o' =>
    obtain ⟨_, _, ho', _, _, _, hO, -⟩ := step_unlink h
    by_cases hoo : o' = o
    · subst hoo; exact ⟨.unlinked, by rw [hO]; grind, by cases st <;> simp_all [rank]⟩
    · exact ⟨st, by rw [hO]; grind, Nat.le_refl _⟩
  | retire t o' =>
    obtain ⟨_, _, ho', _, _, hO, -⟩ := step_retire h
    by_cases hoo : o' = o
    · subst hoo; exact ⟨.retired (activeThreads s.threads), by rw [hO]; grind, by cases st <;> simp_all [rank]⟩
    · exact ⟨st, by rw [hO]; grind, Nat.le_refl _⟩
  | unprotectedRetire t o' =>
    obtain ⟨_, _, ho', _, hO, -⟩ := step_unprotectedRetire h
    by_cases hoo : o' = o
    · subst hoo; exact ⟨.freed, by rw [hO]; grind, by cases st <;> simp_all [rank]⟩
    · exact ⟨st, by rw [hO]; grind, Nat.le_refl _⟩
  | free o' =>
    obtain ⟨ho', _, hO, -⟩ := step_free h
    by_cases hoo : o' = o
    · subst hoo; exact ⟨.freed, by rw [hO]; grind, by cases st <;> simp_all [rank]⟩
    · exact ⟨st, by rw [hO]; grind, Nat.le_refl _⟩

theorem run_rank_mono {s s' : State} {es : List Ev} (h : run s es = some s') {o : Nat} {st : OSt}
    (ho : s.objs[o]? = some st) : ∃ st', s'.objs[o]? = some st' ∧ rank st ≤ rank st' := by
  induction es generalizing s st with
  | nil => simp at h; subst h; exact ⟨st, ho, Nat.le_refl _⟩
  | cons e es ih =>
    obtain ⟨s1, h1, h2⟩ := run_cons_some.1 h
    obtain ⟨st1, ho1, hr1⟩ := step_rank_mono h1 ho
    obtain ⟨st', ho', hr'⟩ := ih h2 ho1
    exact ⟨st', ho', Nat.le_trans hr1 hr'⟩

theorem freed_stays_freed {s s' : State} {es : List Ev} (h : run s es = some s') {o : Nat}
    (ho : s.objs[o]? = some .freed) : s'.objs[o]? = some .freed := by
  obtain ⟨st', ho', hr⟩ := run_rank_mono h ho
  cases st' <;> simp_all [rank]

/-! ## retire after unlink, acquire only while linked -/

/-- `retire` is only enabled on an `unlinked` object, by a guarded thread -/
theorem retire_after_unlink {s s' : State} {t o : Nat} (h : step s (.retire t o) = some s') :
    s.objs[o]? = some .unlinked ∧ guardedB s t = true := by
  obtain ⟨th, ht, ho, hg, -⟩ := step_retire h
  exact ⟨ho, by rw [guardedB_of_some ht]; exact hg⟩

theorem unprotectedRetire_after_unlink {s s' : State} {t o : Nat}
    (h : step s (.unprotectedRetire t o) = some s') : s.objs[o]? = some .unlinked := by
  obtain ⟨th, ht, ho, -⟩ := step_unprotectedRetire h; exact ho

/-- a pointer can only be picked up while the object is `linked`, and only under a guard -/
theorem acquire_only_linked {s s' : State} {t o : Nat} (h : step s (.acquire t o) = some s') :
    s.objs[o]? = some .linked ∧ guardedB s t = true := by
  obtain ⟨th, ht, ho, hg, -⟩ := step_acquire h
  exact ⟨ho, by rw [guardedB_of_some ht]; exact hg⟩

/-- an object is unlinked only by a guarded thread that holds a pointer to it -/
theorem unlink_only_linked {s s' : State} {t o : Nat} (h : step s (.unlink t o) = some s') :
    s.objs[o]? = some .linked ∧ guardedB s t = true ∧ o ∈ holdsOf s t := by
  obtain ⟨th, ht, ho, hm, hg, -⟩ := step_unlink h
  exact ⟨ho, by rw [guardedB_of_some ht]; exact hg, by rw [holdsOf_of_some ht]; exact hm⟩

/-- once an object has been unlinked no thread can obtain a pointer to it any more: whatever happens
afterwards, `acquire` stays disabled -/
theorem no_acquire_after_unlink {s s' : State} {es : List Ev} {o : Nat} {st : OSt}
    (ho : s.objs[o]? = some st) (hr : 2 ≤ rank st) (h : run s es = some s') (t : Nat) :
    step s' (.acquire t o) = none := by
  cases hst : step s' (.acquire t o) with
  | none => rfl
  | some s'' =>
    obtain ⟨st', ho', hr'⟩ := run_rank_mono h ho
    have := (acquire_only_linked hst).1
    rw [ho'] at this; cases this; have : rank OSt.linked = 1 := rfl; omega

theorem no_acquire_after_unlink_event {s s1 s' : State} {es : List Ev} {t0 o : Nat}
    (h0 : step s (.unlink t0 o) = some s1) (h : run s1 es = some s') (t : Nat) :
    step s' (.acquire t o) = none := by
  obtain ⟨th, ht, ho, hm, hg, hT, hO, -⟩ := step_unlink h0
  have : s1.objs[o]? = some .unlinked := by
    rw [hO]; have := (List.getElem?_eq_some_iff.1 ho).1; simp [this]
  exact no_acquire_after_unlink this (by simp [rank]) h t

/-! ## a freed object was retired (or retired unprotected) before -/

theorem step_retired_origin {s s' : State} {e : Ev} (h : step s e = some s') {o : Nat} {w : List Nat}
    (ho : s'.objs[o]? = some (.retired w)) :
    (∃ w0, s.objs[o]? = some (.retired w0)) ∨ ∃ t, e = .retire t o := by
  cases e with
  | enter t => obtain ⟨_, _, _, _, hO, -⟩ := step_enter h; exact .inl ⟨w, by rw [← hO]; exact ho⟩
  | exit t =>
    obtain ⟨_, _, _, _, hO, -⟩ := step_exit h
    rw [hO] at ho
    simp only [List.getElem?_map, Option.map_eq_some_iff] at ho
    obtain ⟨a, ha, hd⟩ := ho
    obtain ⟨w0, rfl, -⟩ := dropWaiter_eq_retired.1 hd
    exact .inl ⟨w0, ha⟩
  | alloc t => obtain ⟨_, _, _, hO, -⟩ := step_alloc h; exact .inl ⟨w, by rw [hO] at ho; grind⟩
  | publish t o' => obtain ⟨_, _, _, _, _, hO, -⟩ := step_publish h; exact .inl ⟨w, by rw [hO] at ho; grind⟩
  | acquire t o' => obtain ⟨_, _, _, _, _, hO, -⟩ := step_acquire h; exact .inl ⟨w, by rw [← hO]; exact ho⟩
  | touch t o' => obtain ⟨_, _, _, _, _, _, hO, -⟩ := step_touch h; exact .inl ⟨w, by rw [← hO]; exact ho⟩
  | unlink t o' => obtain ⟨_, _, _, _, _, _, hO, -⟩ := step_unlink h; exact .inl ⟨w, by rw [hO] at ho; grind⟩
  | retire t o' =>
    obtain ⟨_, _, _, _, _, hO, -⟩ := step_retire h
    by_cases hoo : o' = o
    · subst hoo; exact .inr ⟨t, rfl⟩
    · exact .inl ⟨w, by rw [hO] at ho; grind⟩
  | unprotectedRetire t o' =>
    obtain ⟨_, _, _, _, hO, -⟩ := step_unprotectedRetire h; exact .inl ⟨w, by rw [hO] at ho; grind⟩
  | free o' => obtain ⟨_, _, hO, -⟩ := step_free h; exact .inl ⟨w, by rw [hO] at ho; grind⟩

theorem step_freed_origin {s s' : State} {e : Ev} (h : step s e = some s') {o : Nat}
    (ho : s'.objs[o]? = some .freed) :
    s.objs[o]? = some .freed ∨ (s.objs[o]? = some (.retired []) ∧ e = .free o) ∨
      (s.objs[o]? = some .unlinked ∧ ∃ t, e = .unprotectedRetire t o) := by
  cases e with
  | enter t => obtain ⟨_, _, _, _, hO, -⟩ := step_enter h; exact .inl (by rw [← hO]; exact ho)
  | exit t =>
    obtain ⟨_, _, _, _, hO, -⟩ := step_exit h
    rw [hO] at ho
    simp only [List.getElem?_map, Option.map_eq_some_iff] at ho
    obtain ⟨a, ha, hd⟩ := ho
    rw [dropWaiter_eq_freed.1 hd] at ha; exact .inl ha
  | alloc t => obtain ⟨_, _, _, hO, -⟩ := step_alloc h; exact .inl (by rw [hO] at ho; grind)
  | publish t o' => obtain ⟨_, _, _, _, _, hO, -⟩ := step_publish h; exact .inl (by rw [hO] at ho; grind)
  | acquire t o' => obtain ⟨_, _, _, _, _, hO, -⟩ := step_acquire h; exact .inl (by rw [← hO]; exact ho)
  | touch t o' => obtain ⟨_, _, _, _, _, _, hO, -⟩ := step_touch h; exact .inl (by rw [← hO]; exact ho)
  | unlink t o' => obtain ⟨_, _, _, _, _, _, hO, -⟩ := step_unlink h; exact .inl (by rw [hO] at ho; grind)
  | retire t o' => obtain ⟨_, _, _, _, _, hO, -⟩ := step_retire h; exact .inl (by rw [hO] at ho; grind)
  | unprotectedRetire t o' =>
    obtain ⟨_, _, ho', _, hO, -⟩ := step_unprotectedRetire h
    by_cases hoo : o' = o
    · subst hoo; exact .inr (.inr ⟨ho', t, rfl⟩)
    · exact .inl (by rw [hO] at ho; grind)
  | free o' =>
    obtain ⟨ho', _, hO, -⟩ := step_free h
    by_cases hoo : o' = o
    · subst hoo; exact .inr (.inl ⟨ho', rfl⟩)
    · exact .inl (by rw [hO] at ho; grind)

theorem run_retired_origin {s s' : State} {es : List Ev} (h : run s es = some s') {o : Nat} {w : List Nat}
    (ho : s'.objs[o]? = some (.retired w)) :
    (∃ w0, s.objs[o]? = some (.retired w0)) ∨ ∃ t, .retire t o ∈ es := by
  induction es generalizing s with
  | nil => simp at h; subst h; exact .inl ⟨w, ho⟩
  | cons e es ih =>
    obtain ⟨s1, h1, h2⟩ := run_cons_some.1 h
    rcases ih h2 with ⟨w1, hw1⟩ | ⟨t, ht⟩
    · rcases step_retired_origin h1 hw1 with h' | ⟨t, rfl⟩
      · exact .inl h'
      · exact .inr ⟨t, by simp⟩
    · exact .inr ⟨t, by simp [ht]⟩

theorem run_freed_origin {s s' : State} {es : List Ev} (h : run s es = some s') {o : Nat}
    (ho : s'.objs[o]? = some .freed) :
    s.objs[o]? = some .freed ∨
      ((.free o ∈ es) ∧ ((∃ w0, s.objs[o]? = some (.retired w0)) ∨ ∃ t, .retire t o ∈ es)) ∨
      ∃ t, .unprotectedRetire t o ∈ es := by
  induction es generalizing s with
  | nil => simp at h; subst h; exact .inl ho
  | cons e es ih =>
    obtain ⟨s1, h1, h2⟩ := run_cons_some.1 h
    rcases ih h2 with hf | ⟨hfe, hr⟩ | ⟨t, ht⟩
    · rcases step_freed_origin h1 hf with h' | ⟨h', rfl⟩ | ⟨h', t, rfl⟩
      · exact .inl h'
      · exact .inr (.inl ⟨by simp, .inl ⟨_, h'⟩⟩)
      · exact .inr (.inr ⟨t, by simp⟩)
    · refine .inr (.inl ⟨by simp [hfe], ?_⟩)
      rcases hr with ⟨w1, hw1⟩ | ⟨t, ht⟩
      · rcases step_retired_origin h1 hw1 with h' | ⟨t, rfl⟩
        · exact .inl h'
        · exact .inr ⟨t, by simp⟩
      · exact .inr ⟨t, by simp [ht]⟩
    · exact .inr (.inr ⟨t, by simp [ht]⟩)

/-- C04: an object is only freed by the collector (`free`) after it was retired through a guard, or
at once by an unprotected retire -/
theorem freed_was_retired_or_unprotected {n : Nat} {es : List Ev} {s : State}
    (h : run (init n) es = some s) {o : Nat} (ho : s.objs[o]? = some .freed) :
    ((.free o ∈ es) ∧ ∃ t, .retire t o ∈ es) ∨ ∃ t, .unprotectedRetire t o ∈ es := by
  rcases run_freed_origin h ho with h' | ⟨hf, ⟨w0, h'⟩ | hr⟩ | hu
  · simp [init] at h'
  · simp [init] at h'
  · exact .inl ⟨hf, hr⟩
  · exact .inr hu

/-- in a protected run every freed object was retired and then reclaimed by the collector -/
theorem freed_was_retired {n : Nat} {es : List Ev} {s : State}
    (h : run (init n) es = some s) (hp : Protected es) {o : Nat} (ho : s.objs[o]? = some .freed) :
    (.free o ∈ es) ∧ ∃ t, .retire t o ∈ es := by
  rcases freed_was_retired_or_unprotected h ho with h' | ⟨t, ht⟩
  · exact h'
  · exact absurd rfl (hp _ ht t o)

/-! ## freed after the last guard is released, never before -/

/-- "never before": the collector frees only when it waits for nobody -/
theorem free_enabled_only_if {s s' : State} {o : Nat} (h : step s (.free o) = some s') :
    s.objs[o]? = some (.retired []) := (step_free h).1

theorem free_enabled_iff {s : State} {o : Nat} :
    (∃ s', step s (.free o) = some s') ↔ s.objs[o]? = some (.retired []) := by
  constructor
  · rintro ⟨s', h⟩; exact free_enabled_only_if h
  · intro h; simp [step, h]

/-- while the collector still waits for somebody, `free` is refused -/
theorem free_refused_of_waiting {s : State} {o t : Nat} {w : List Nat}
    (h : s.objs[o]? = some (.retired w)) (ht : t ∈ w) : step s (.free o) = none := by
  cases hst : step s (.free o) with
  | none => rfl
  | some s' =>
    have := free_enabled_only_if hst
    rw [h] at this; cases this; simp at ht

/-- the effect of a sequence of guard releases on a retired object -/
theorem run_exits_retired {s s' : State} {ts : List Nat} (h : run s (ts.map .exit) = some s')
    {o : Nat} {w : List Nat} (ho : s.objs[o]? = some (.retired w)) :
    s'.objs[o]? = some (.retired (w.filter (fun x => !ts.contains x))) := by
  induction ts generalizing s w with
  | nil =>
    simp at h; subst h
    have : w.filter (fun _ => true) = w := List.filter_eq_self.2 (fun _ _ => rfl)
    simp [ho, this]
  | cons t ts ih =>
    obtain ⟨s1, h1, h2⟩ := run_cons_some.1 h
    obtain ⟨_, _, _, _, hO, -⟩ := step_exit h1
    have ho1 : s1.objs[o]? = some (.retired (w.filter (· != t))) := by
      rw [hO]; simp [ho, dropWaiter]
    rw [ih h2 ho1, List.filter_filter]
    congr 3
    funext x
    simp only [List.contains_cons, Bool.not_or, bne, Bool.and_comm]

/-- the waiting threads can release their guards one after the other -/
theorem exits_enabled {s : State} {ts : List Nat} (hg : ∀ t ∈ ts, guardedB s t = true)
    (hn : ts.Nodup) : ∃ s', run s (ts.map .exit) = some s' := by
  induction ts generalizing s with
  | nil => exact ⟨s, rfl⟩
  | cons t ts ih =>
    have hgt := hg t (by simp)
    unfold guardedB at hgt
    split at hgt <;> try contradiction
    rename_i th hth
    have hs : ∃ s1, step s (.exit t) = some s1 := by simp [step, hth, hgt]
    obtain ⟨s1, h1⟩ := hs
    obtain ⟨_, _, _, hT, -⟩ := step_exit h1
    rw [List.nodup_cons] at hn
    obtain ⟨s', h'⟩ := ih (s := s1) (fun t' ht' => by
      rw [guardedB_set hT hth t', if_neg (by rintro rfl; exact hn.1 ht')]
      exact hg t' (by simp [ht'])) hn.2
    exact ⟨s', by simp only [List.map_cons, run_cons, h1]; exact h'⟩

/-- C04 "after": once every thread the collector waits for has released its guard, `free o` is enabled -/
theorem eventually_freeable {s s' : State} {o : Nat} {w : List Nat}
    (ho : s.objs[o]? = some (.retired w)) (h : run s (w.map .exit) = some s') :
    ∃ s'', step s' (.free o) = some s'' := by
  apply free_enabled_iff.2
  rw [run_exits_retired h ho]
  congr 2
  simp [List.filter_eq_nil_iff]

/-- ... and those releases are possible when the waiting threads are guarded and listed once -/
theorem eventually_freeable' {s : State} {o : Nat} {w : List Nat}
    (ho : s.objs[o]? = some (.retired w)) (hg : ∀ t ∈ w, guardedB s t = true) (hn : w.Nodup) :
    ∃ s' s'', run s (w.map .exit) = some s' ∧ step s' (.free o) = some s'' := by
  obtain ⟨s', h⟩ := exits_enabled hg hn
  obtain ⟨s'', h'⟩ := eventually_freeable ho h
  exact ⟨s', s'', h, h'⟩

/-! ## in every reachable state the collector waits only for guarded threads, each listed once -/

theorem nodup_zipIdx_filter_snd {α} (p : α × Nat → Bool) (l : List α) (k : Nat) :
    ((l.zipIdx k).filter p |>.map (·.2)).Nodup := by
  induction l generalizing k with
  | nil => simp
  | cons a l ih =>
    simp only [List.zipIdx_cons, List.filter_cons]
    split
    · simp only [List.map_cons, List.nodup_cons]
      refine ⟨?_, ih _⟩
      simp only [List.mem_map, List.mem_filter, not_exists, not_and]
      rintro ⟨b, j⟩ ⟨hm, -⟩ rfl
      have := List.le_snd_of_mem_zipIdx hm
      simp at this; omega
    · exact ih _

theorem nodup_activeThreads (ts : List Thread) : (activeThreads ts).Nodup :=
  nodup_zipIdx_filter_snd _ ts 0

/-- the collector only waits for threads that are still guarded, and for each once -/
def WInv (s : State) : Prop :=
  ∀ (o : Nat) (w : List Nat), s.objs[o]? = some (.retired w) → w.Nodup ∧ ∀ t ∈ w, guardedB s t = true

theorem winv_init (n : Nat) : WInv (init n) := by
  intro o w; simp [init]

theorem winv_step {s s' : State} {e : Ev} (hI : WInv s) (h : step s e = some s') : WInv s' := by
  unfold WInv at *
  cases e with
  | enter t =>
    obtain ⟨th, ht, hgd, hT, hO, -⟩ := step_enter h
    intro o w; simp only [guardedB_set hT ht, hO]; grind
  | exit t =>
    obtain ⟨th, ht, hgd, hT, hO, -⟩ := step_exit h
    intro o w'
    simp only [guardedB_set hT ht, hO, List.getElem?_map, Option.map_eq_some_iff]
    rintro ⟨st, hst, hd⟩
    obtain ⟨w, rfl, rfl⟩ := dropWaiter_eq_retired.1 hd
    obtain ⟨hn, hg⟩ := hI o w hst
    refine ⟨hn.filter _, fun t' ht' => ?_⟩
    simp only [List.mem_filter, bne_iff_ne, ne_eq] at ht'
    rw [if_neg ht'.2]; exact hg t' ht'.1
  | alloc t =>
    obtain ⟨th, ht, hT, hO, -⟩ := step_alloc h
    have hgg := guardedB_of_some ht
    intro o w; simp only [guardedB_set hT ht, hO]; grind
  | publish t o' =>
    obtain ⟨th, ht, ho, hm, hT, hO, -⟩ := step_publish h
    intro o w; simp only [guardedB_congr hT, hO]; grind
  | acquire t o' =>
    obtain ⟨th, ht, ho, hgd, hT, hO, -⟩ := step_acquire h
    have hgg := guardedB_of_some ht
    intro o w; simp only [guardedB_set hT ht, hO]; grind
  | touch t o' =>
    obtain ⟨th, st, ht, ho, hm, hT, hO, -⟩ := step_touch h
    intro o w; simp only [guardedB_congr hT, hO]; exact hI o w
  | unlink t o' =>
    obtain ⟨th, ht, ho, hm, hgd, hT, hO, -⟩ := step_unlink h
    intro o w; simp only [guardedB_congr hT, hO]; grind
  | retire t o' =>
    obtain ⟨th, ht, ho, hgd, hT, hO, -⟩ := step_retire h
    have hact := @mem_activeThreads_iff s
    have hnd := nodup_activeThreads s.threads
    intro o w; simp only [guardedB_congr hT, hO]; grind
  | unprotectedRetire t o' =>
    obtain ⟨th, ht, ho, hT, hO, -⟩ := step_unprotectedRetire h
    intro o w; simp only [guardedB_congr hT, hO]; grind
  | free o' =>
    obtain ⟨ho, hT, hO, -⟩ := step_free h
    intro o w; simp only [guardedB_congr hT, hO]; grind

theorem winv_run {s s' : State} {es : List Ev} (hI : WInv s) (h : run s es = some s') : WInv s' :=
  run_preserves (P := WInv) (fun _ _ _ hP hs => winv_step hP hs) hI h

/-- C04: in any reachable state, a retired object is reclaimed as soon as the threads the collector
waits for have released their guards - and they can: values are dropped after the last guard that
could observe them is gone, never before (`free_enabled_only_if`, `free_refused_of_waiting`). -/
theorem retired_eventually_freed {n : Nat} {es : List Ev} {s : State} (h : run (init n) es = some s)
    {o : Nat} {w : List Nat} (ho : s.objs[o]? = some (.retired w)) :
    ∃ s' s'', run s (w.map .exit) = some s' ∧ step s' (.free o) = some s'' ∧
      s''.objs[o]? = some .freed := by
  obtain ⟨hn, hg⟩ := winv_run (winv_init n) h o w ho
  obtain ⟨s', s'', h1, h2⟩ := eventually_freeable' ho hg hn
  refine ⟨s', s'', h1, h2, ?_⟩
  obtain ⟨ho', _, hO, -⟩ := step_free h2
  rw [hO]; have := (List.getElem?_eq_some_iff.1 ho').1; simp [this]

end Flurry.Proto.Reclaim
