import Flurry.Lemmas.BinNTransfer
import Flurry.Lemmas.BinNSurgeryDefs
import Flurry.Lemmas.BinNHMSurgeryDefs
import Flurry.Lemmas.BinNSplit
/-! # Proto/BinNH — port of the `Proto/BinN` lemma file of the same name to the heap invariant with ONE
MID-TRANSFER CELL PER HELPER (`Lemmas/BinNHMDefs.lean`); statements about `BinN.State`. Original header: what the lock words and the steps of the transfer do to the heap (C01, C10)

Port of `Lemmas/BinXTransfer.lean`: lock / unlock, `tBuild` (the split: `pre → mid`), `tStoreLow`, `tStoreHigh`,
the empty-bin CAS `empty → moved` (`pre → post`), the allocation of the next generation, the publication of
the next table, and the store of the forwarding marker (`mid → post`, where the live chain of every key of
the cell switches from the old list to its new list without changing the abstract content).

The `Shape` of the successor state is a hypothesis wherever the tables change (`Lemmas/BinNGenReach.lean`). -/
namespace Flurry.Proto.BinNHM
open Flurry.Proto.BinN
open Flurry.Lin
open Flurry.Proto.BinX (NodeS Cell Pending dflt chainFrom cellHead cellOfHead nodeAt nodeAt_modify nodeAt_append_left
  IsSeg IsChain chainH chainH_empty chainH_moved absIn absIn_same absIn_congr KeysDistinct cellHead_cellOfHead
  cellOfHead_ne_moved)

/-! ## arithmetic and cells -/

/-- the residue of the next generation is the residue of this one plus the split bit -/
theorem mod_succ_bit (k c : Nat) : k % 2 ^ (c + 1) = k % 2 ^ c + (if bitAt c k then 2 ^ c else 0) := by
  rw [Nat.mod_pow_succ]
  unfold bitAt
  rcases Nat.mod_two_eq_zero_or_one (k / 2 ^ c) with h | h <;> rw [h] <;> simp

theorem cellAt_put_ne {s s' : State} {g j : Nat} {c : Cell}
    (ht : s'.tabs = s.tabs.modify g (fun row => row.set j c)) {g' j' : Nat} (h : ¬ (g' = g ∧ j' = j)) :
    cellAt s' g' j' = cellAt s g' j' := by
  rw [cellAt_eq, cellAt_eq, ht]; exact cellT_put_ne _ _ h

theorem cellAt_put_self {s s' : State} (S : Shape s) {g j : Nat} {c : Cell}
    (ht : s'.tabs = s.tabs.modify g (fun row => row.set j c)) (hg : g < s.tabs.length) (hj : j < 2 ^ g) :
    cellAt s' g j = c := by
  rw [cellAt_eq, ht]
  have hr : s.tabs[g]? = some s.tabs[g] := List.getElem?_eq_getElem hg
  exact cellT_put_self_eq _ _ hr (by rw [S.rows g _ hr]; exact hj)

theorem getCell_put_ne {s s' : State} {g j : Nat} {c : Cell}
    (ht : s'.tabs = s.tabs.modify g (fun row => row.set j c)) {id : CellId} (h : id ≠ (g, j)) :
    getCell s' id = getCell s id := by
  unfold getCell
  exact cellAt_put_ne ht (fun ⟨h1, h2⟩ => h (Prod.ext h1 h2))

theorem Shape.next_lt {s : State} (S : Shape s) (hr : s.resizing = true) : s.cur + 1 < s.tabs.length := by
  have := S.len
  rw [hr] at this
  simp at this
  omega

/-- the live chain of every key is unchanged when the chains, the tables and `cur` are -/
theorem LC_of_chId {s s' : State} {G : Ghost} (H : HInv s G) (ht : s'.tabs = s.tabs) (hc : s'.cur = s.cur)
    (hch : ∀ id, chId s' id = chId s id) (k : Nat) : LC s' k = LC s k := by
  rw [H.LC_eq, ← hch]
  unfold LC
  rw [chainOfCell_eq, liveCell_congr ht hc, H.liveCell_eq]
  unfold chId
  rw [getCell_congr ht]

/-- a transition that does not change any node (as far as key, value and `next` go) nor the live chains -/
theorem HeapStep.of_quiet {s s' : State} {G G' : Ghost} (hlen : s.heap.length ≤ s'.heap.length)
    (hnode : ∀ j, j < s.heap.length → (nodeAt s'.heap j).key = (nodeAt s.heap j).key ∧
      (nodeAt s'.heap j).val = (nodeAt s.heap j).val ∧ (nodeAt s'.heap j).next = (nodeAt s.heap j).next)
    (hord : ∀ j, j < s.heap.length → ord G'.cr j = ord G.cr j)
    (hmoved : ∀ id, getCell s id = .moved → getCell s' id = .moved)
    (hlive : ∀ j, j < s.heap.length → ¬ Live s G j → ¬ Live s' G' j)
    (hlc : ∀ k, LC s' k = LC s k)
    (hsub : ∀ id c, c ∈ chId s id → c ∈ chId s' id) : HeapStep s s' G G' := by
  refine ⟨hlen, fun j hj => (hnode j hj).1, hord, hmoved, ?_, ?_, ?_, ?_⟩
  · intro j hj hnl
    exact ⟨(hnode j hj).2.1, (hnode j hj).2.2, hlive j hj hnl⟩
  · intro k j hj; rw [hlc] at hj; exact Or.inl hj
  · intro k c hc1 hc2; rw [hlc] at hc2; exact absurd hc1 hc2
  · intro id c hc1 hc2; exact absurd (hsub id c hc1) hc2

/-- `SideOK` only depends on the keys and values of the nodes -/
theorem SideOK.congr_heap {bit : Nat → Bool} {heap heap' : List NodeS} {cr : CR} {fr : Nat × Nat} {O X : List Nat}
    {b : Bool} (sX : SideOK bit heap cr fr O b X)
    (hk : ∀ j, (nodeAt heap' j).key = (nodeAt heap j).key)
    (hv : ∀ j, (nodeAt heap' j).val = (nodeAt heap j).val) : SideOK bit heap' cr fr O b X := by
  refine ⟨fun j hj => by rw [hk j]; exact sX.side j hj, sX.keys.congr (fun j _ => hk j), sX.mem, ?_, ?_, sX.suffix⟩
  · intro j hj hf
    obtain ⟨i, hi, h5, h6, h7⟩ := sX.src j hj hf
    exact ⟨i, hi, by rw [hk i, hk j]; exact h5, by rw [hv i, hv j]; exact h6, h7⟩
  · intro i hi hb
    rw [hk i] at hb
    obtain ⟨j, hj, h5, h6, h7⟩ := sX.cover i hi hb
    exact ⟨j, hj, by rw [hk i, hk j]; exact h5, by rw [hv i, hv j]; exact h6, h7⟩

/-- a split that is under way survives the allocation of nodes (another helper's split) -/
theorem Split.extend {bit : Nat → Bool} {heap ext : List NodeS} {cr : CR} {fr : Nat × Nat} {O : List Nat}
    {lo hg : Option Nat} {b : Nat} (sp : Split bit heap cr fr O lo hg) (hO : ∀ i ∈ O, i < heap.length) :
    Split bit (heap ++ ext) (addRange cr heap.length b) fr O lo hg := by
  obtain ⟨h1, L, Hc, hL, hH, sL, sH⟩ := sp
  have hn : ∀ i, i < heap.length → nodeAt (heap ++ ext) i = nodeAt heap i := fun i hi => nodeAt_append_left _ hi
  have side : ∀ (b' : Bool) (X : List Nat), (∀ j ∈ X, j < heap.length) → SideOK bit heap cr fr O b' X →
      SideOK bit (heap ++ ext) (addRange cr heap.length b) fr O b' X := by
    intro b' X hX sX
    have ho : ∀ i, i < heap.length → ord (addRange cr heap.length b) i = ord cr i := fun i hi => ord_addRange_old hi
    refine ⟨fun j hj => by rw [hn j (hX j hj)]; exact sX.side j hj,
      sX.keys.congr (fun j hj => by rw [hn j (hX j hj)]), sX.mem, ?_, ?_, ?_⟩
    · intro j hj hf
      obtain ⟨i, hi, h5, h6, h7⟩ := sX.src j hj hf
      refine ⟨i, hi, by rw [hn i (hO i hi), hn j (hX j hj)]; exact h5,
        by rw [hn i (hO i hi), hn j (hX j hj)]; exact h6, ?_⟩
      intro r hr hrX
      rw [ho i (hO i hi), ho r (hO r hr)]; exact h7 r hr hrX
    · intro i hi hb
      rw [hn i (hO i hi)] at hb
      obtain ⟨j, hj, h5, h6, h7⟩ := sX.cover i hi hb
      exact ⟨j, hj, by rw [hn i (hO i hi), hn j (hX j hj)]; exact h5,
        by rw [hn i (hO i hi), hn j (hX j hj)]; exact h6, h7⟩
    · intro r hr hrX i hi hlt
      rw [ho r (hO r hr), ho i (hO i hi)] at hlt
      exact sX.suffix r hr hrX i hi hlt
  exact ⟨h1, L, Hc, hL.append_heap ext, hH.append_heap ext, side false L (fun j hj => hL.lt_length j hj) sL,
    side true Hc (fun j hj => hH.lt_length j hj) sH⟩

/-- the ghost after the split of cell `j`: the fresh copies are copies, the split is recorded -/
def buildG (G : Ghost) (j : Nat) (lo hg : Option Nat) (a b : Nat) : Ghost :=
  { cr := addRange G.cr a b, mid := fun i => if i = j then some (lo, hg, (a, b)) else G.mid i }

theorem buildG_self (G : Ghost) (j : Nat) (lo hg : Option Nat) (a b : Nat) :
    (buildG G j lo hg a b).mid j = some (lo, hg, (a, b)) := by unfold buildG; simp

theorem buildG_ne (G : Ghost) {j i : Nat} (lo hg : Option Nat) (a b : Nat) (h : i ≠ j) :
    (buildG G j lo hg a b).mid i = G.mid i := by unfold buildG; simp [h]

/-! ## lock words -/

theorem lock_effect {s s' : State} {G : Ghost} (H : HInv s G) {i : Nat} {x : Option Nat}
    (hh : s'.heap = s.heap.modify i (fun m => { m with lock := x }))
    (ht : s'.tabs = s.tabs) (hc : s'.cur = s.cur) (hr : s'.resizing = s.resizing) :
    HInv s' G ∧ HeapStep s s' G G ∧ (∀ id, chId s' id = chId s id) ∧ (∀ k, absOf s' k = absOf s k) ∧
    (∀ k, LC s' k = LC s k) ∧
    (∀ j, (nodeAt s'.heap j).key = (nodeAt s.heap j).key ∧ (nodeAt s'.heap j).val = (nodeAt s.heap j).val ∧
      (nodeAt s'.heap j).next = (nodeAt s.heap j).next) := by
  have hnode : ∀ j, (nodeAt s'.heap j).key = (nodeAt s.heap j).key ∧
      (nodeAt s'.heap j).val = (nodeAt s.heap j).val ∧ (nodeAt s'.heap j).next = (nodeAt s.heap j).next := by
    intro j; rw [hh, nodeAt_modify]; split <;> exact ⟨rfl, rfl, rfl⟩
  have hlen : s'.heap.length = s.heap.length := by rw [hh, List.length_modify]
  have hok' : NextOK G.cr s'.heap := by rw [hh]; exact nextOK_modify_same H.nextOK (fun _ => rfl)
  have hcA : ∀ g j, cellAt s' g j = cellAt s g j := fun g j => by rw [cellAt_eq, cellAt_eq, ht]
  have hcell : ∀ id, getCell s' id = getCell s id := getCell_congr ht
  have hch : ∀ id, chId s' id = chId s id := by
    intro id
    refine chainH_eq hok' ?_
    rw [hcell id, hh]
    exact (H.isChain id).modify (fun _ _ => rfl)
  have hkd : ∀ C, KeysDistinct s.heap C → KeysDistinct s'.heap C :=
    fun C hd => hd.congr (fun j _ => (hnode j).1)
  have hlc : ∀ k, LC s' k = LC s k := LC_of_chId H ht hc hch
  -- the lists of a split that is under way
  have hmidch : ∀ j lo hg fr, G.mid j = some (lo, hg, fr) →
      chainH s'.heap (cellOfHead lo) = chainH s.heap (cellOfHead lo) ∧
      chainH s'.heap (cellOfHead hg) = chainH s.heap (cellOfHead hg) := by
    intro j lo hg fr hm
    obtain ⟨-, -, -, -, -, L, Hc, hLc, hHc, -, -⟩ := H.mid j lo hg _ hm
    have e1 : chainH s.heap (cellOfHead lo) = L := chainH_eq H.nextOK (by rw [cellHead_cellOfHead]; exact hLc)
    have e2 : chainH s.heap (cellOfHead hg) = Hc := chainH_eq H.nextOK (by rw [cellHead_cellOfHead]; exact hHc)
    rw [e1, e2]
    refine ⟨chainH_eq hok' ?_, chainH_eq hok' ?_⟩
    · rw [cellHead_cellOfHead, hh]; exact hLc.modify (fun _ _ => rfl)
    · rw [cellHead_cellOfHead, hh]; exact hHc.modify (fun _ _ => rfl)
  have H' : HInv s' G := by
    refine ⟨H.shape.congr ht hc hr, hok', by rw [hlen]; exact H.crLt, by rw [hlen]; exact H.frOK, ?_, ?_, ?_, ?_, ?_⟩
    · intro id h hn; rw [hcell] at hn; rw [hlen]; exact H.head id h hn
    · intro id; rw [hch]; exact hkd _ (H.keys id)
    · intro id i hi; rw [hch] at hi; rw [(hnode i).1]; exact H.side id i hi
    · intro j'; rw [hcA, hcA, hc]; exact H.nextEmpty j'
    · intro j lo hg fr hm
      obtain ⟨h1, h2, h3, h4, hlt, L, Hc, hLc, hHc, sL, sH⟩ := H.mid j lo hg _ hm
      rw [hcA, hcA, hcA, hc, hch]
      refine ⟨h1, h2, h3, h4, hlt, L, Hc, ?_, ?_, ?_, ?_⟩
      · rw [hh]; exact hLc.modify (fun _ _ => rfl)
      · rw [hh]; exact hHc.modify (fun _ _ => rfl)
      · exact sL.congr_heap (fun j => (hnode j).1) (fun j => (hnode j).2.1)
      · exact sH.congr_heap (fun j => (hnode j).1) (fun j => (hnode j).2.1)
  refine ⟨H', ?_, hch, ?_, hlc, hnode⟩
  · refine HeapStep.of_quiet (by rw [hlen]; exact Nat.le_refl _) (fun j _ => hnode j) (fun _ _ => rfl)
      (fun id h => by rw [hcell]; exact h) ?_ hlc (fun id c h => by rw [hch]; exact h)
    intro j _ hnl hl
    apply hnl
    rcases hl with ⟨id, hl⟩ | ⟨j0, lo, hg, fr, hm, hl⟩
    · rw [hch] at hl; exact Or.inl ⟨id, hl⟩
    · obtain ⟨e1, e2⟩ := hmidch j0 lo hg fr hm
      rw [e1, e2] at hl
      exact Or.inr ⟨j0, lo, hg, fr, hm, hl⟩
  · intro k
    rw [absOf_eq, absOf_eq, hlc k]
    exact absIn_same (fun j _ => (hnode j).1) (fun j _ => (hnode j).2.1) k

/-! ## the split -/

theorem build_effect {s s' : State} {G : Ghost} (H : HInv s G) {j h : Nat} (hmid : G.mid j = none)
    (hj : j < 2 ^ s.cur) (hc0 : cellAt s s.cur j = .node h)
    (hh : s'.heap = (splitBinB (bitAt s.cur) s.heap (chainFrom s.heap s.heap.length (some h))).1)
    (ht : s'.tabs = s.tabs) (hc : s'.cur = s.cur) (hr : s'.resizing = s.resizing) :
    HInv s' (buildG G j (splitBinB (bitAt s.cur) s.heap (chainFrom s.heap s.heap.length (some h))).2.1
                (splitBinB (bitAt s.cur) s.heap (chainFrom s.heap s.heap.length (some h))).2.2
                s.heap.length s'.heap.length) ∧
    HeapStep s s' G (buildG G j (splitBinB (bitAt s.cur) s.heap (chainFrom s.heap s.heap.length (some h))).2.1
                (splitBinB (bitAt s.cur) s.heap (chainFrom s.heap s.heap.length (some h))).2.2
                s.heap.length s'.heap.length) ∧
    (∀ k, absOf s' k = absOf s k) ∧ LockSame s.heap s'.heap := by
  have hOeq : chainFrom s.heap s.heap.length (some h) = chId s (s.cur, j) := by
    unfold chId chainH getCell; rw [hc0]; rfl
  have hO : IsChain s.heap (some h) (chId s (s.cur, j)) := by
    have := H.isChain (s.cur, j)
    rw [getCell_mk, hc0] at this
    exact this
  have hlock : LockSame s.heap s'.heap := by rw [hh]; exact splitBinB_lockSame _ _ _
  rw [hOeq] at hh ⊢
  obtain ⟨ext, hext, hok', hsplit⟩ := splitBinB_spec (bit := bitAt s.cur) H.nextOK H.crLt hO (H.keys _)
  rw [← hh] at hext hok' hsplit
  generalize (splitBinB (bitAt s.cur) s.heap (chId s (s.cur, j))).2.1 = lo at hsplit ⊢
  generalize (splitBinB (bitAt s.cur) s.heap (chId s (s.cur, j))).2.2 = hg at hsplit ⊢
  have hlen : s.heap.length ≤ s'.heap.length := by rw [hext, List.length_append]; omega
  have hnode : ∀ i, i < s.heap.length → nodeAt s'.heap i = nodeAt s.heap i := by
    intro i hi; rw [hext, nodeAt_append_left _ hi]
  have hcA : ∀ g i, cellAt s' g i = cellAt s g i := fun g i => by rw [cellAt_eq, cellAt_eq, ht]
  have hcell : ∀ id, getCell s' id = getCell s id := getCell_congr ht
  have hch : ∀ id, chId s' id = chId s id := by
    intro id
    refine chainH_eq hok' ?_
    rw [hcell id, hext]
    exact (H.isChain id).append_heap ext
  have hlc : ∀ k, LC s' k = LC s k := LC_of_chId H ht hc hch
  have hnm : cellAt s s.cur j ≠ .moved := by rw [hc0]; simp
  have hjm : j % 2 ^ s.cur = j := Nat.mod_eq_of_lt hj
  have hnmid : ¬ IsMid G j := not_isMid_of_none hmid
  have hmidG : ∀ x, ¬ IsMid (buildG G j lo hg s.heap.length s'.heap.length) x → ¬ IsMid G x := by
    intro x hx hx'
    apply hx
    by_cases e : x = j
    · subst e; exact isMid_of (buildG_self _ _ _ _ _ _)
    · unfold IsMid; rw [buildG_ne _ _ _ _ _ e]; exact hx'
  -- the lists of the other splits that are under way
  have hothers : ∀ j0 lo0 hg0 fr0, G.mid j0 = some (lo0, hg0, fr0) →
      chainH s'.heap (cellOfHead lo0) = chainH s.heap (cellOfHead lo0) ∧
      chainH s'.heap (cellOfHead hg0) = chainH s.heap (cellOfHead hg0) := by
    intro j0 lo0 hg0 fr0 hm
    obtain ⟨-, -, -, -, -, L0, H0, hL0, hH0, -, -⟩ := H.mid j0 lo0 hg0 fr0 hm
    have e1 : chainH s.heap (cellOfHead lo0) = L0 := chainH_eq H.nextOK (by rw [cellHead_cellOfHead]; exact hL0)
    have e2 : chainH s.heap (cellOfHead hg0) = H0 := chainH_eq H.nextOK (by rw [cellHead_cellOfHead]; exact hH0)
    rw [e1, e2]
    refine ⟨chainH_eq hok' ?_, chainH_eq hok' ?_⟩
    · rw [cellHead_cellOfHead, hext]; exact hL0.append_heap ext
    · rw [cellHead_cellOfHead, hext]; exact hH0.append_heap ext
  obtain ⟨hOlt, L, Hc, hLc, hHc, sL, sH⟩ := hsplit
  have eLo : chainH s'.heap (cellOfHead lo) = L := chainH_eq hok' (by rw [cellHead_cellOfHead]; exact hLc)
  have eHg : chainH s'.heap (cellOfHead hg) = Hc := chainH_eq hok' (by rw [cellHead_cellOfHead]; exact hHc)
  refine ⟨?_, ?_, ?_, hlock⟩
  · refine ⟨H.shape.congr ht hc hr, hok', ?_, ?_, ?_, ?_, ?_, ?_, ?_⟩
    · intro i hi
      rcases isCopy_addRange.1 hi with h1 | h1
      · have := H.crLt i h1; omega
      · exact h1.2
    · intro j0 lo0 hg0 fr0 hm
      by_cases e : j0 = j
      · subst e
        rw [buildG_self] at hm
        simp only [Option.some.injEq, Prod.mk.injEq] at hm
        obtain ⟨-, -, rfl⟩ := hm
        exact ⟨Nat.le_refl _, fun i hi => isCopy_addRange.2 (Or.inr hi)⟩
      · rw [buildG_ne _ _ _ _ _ e] at hm
        obtain ⟨f1, f2⟩ := H.frOK j0 lo0 hg0 fr0 hm
        exact ⟨Nat.le_trans f1 hlen, fun i hi => isCopy_addRange.2 (Or.inl (f2 i hi))⟩
    · intro id h' hn; rw [hcell] at hn; have := H.head id h' hn; omega
    · intro id; rw [hch]
      exact (H.keys id).congr (fun i hi => by rw [hnode i (H.chain_lt hi)])
    · intro id i hi; rw [hch] at hi; rw [hnode i (H.chain_lt hi)]; exact H.side id i hi
    · intro j' h1 h2
      rw [hcA, hc] at h1
      rw [hcA, hc]
      rw [hc] at h2
      exact H.nextEmpty j' h1 (hmidG _ h2)
    · intro j0 lo0 hg0 fr0 hm
      by_cases e : j0 = j
      · subst e
        rw [buildG_self] at hm
        simp only [Option.some.injEq, Prod.mk.injEq] at hm
        obtain ⟨rfl, rfl, rfl⟩ := hm
        rw [hcA, hcA, hcA, hc, hch]
        refine ⟨hj, ⟨h, hc0⟩, Or.inl ?_, Or.inl ?_, hOlt, L, Hc, hLc, hHc, sL, sH⟩
        · exact H.nextEmpty j0 (by rw [hjm]; exact hnm) (by rw [hjm]; exact hnmid)
        · exact H.nextEmpty (j0 + 2 ^ s.cur) (by rw [high_mod _ _ hj]; exact hnm) (by rw [high_mod _ _ hj]; exact hnmid)
      · rw [buildG_ne _ _ _ _ _ e] at hm
        obtain ⟨g1, g2, g3, g4, g5⟩ := H.mid j0 lo0 hg0 fr0 hm
        rw [hcA, hcA, hcA, hc, hch]
        refine ⟨g1, g2, g3, g4, ?_⟩
        rw [hext]
        exact Split.extend g5 (fun i hi => H.chain_lt hi)
  · refine HeapStep.of_quiet hlen (fun i hi => by rw [hnode i hi]; exact ⟨rfl, rfl, rfl⟩) ?_
      (fun id hm => by rw [hcell]; exact hm) ?_ hlc (fun id c hm => by rw [hch]; exact hm)
    · intro i hi
      exact ord_addRange_old hi
    · intro i hi hnl hl
      apply hnl
      rcases hl with ⟨id, hl⟩ | ⟨j0, lo0, hg0, fr0, hm, hl⟩
      · rw [hch] at hl; exact Or.inl ⟨id, hl⟩
      · by_cases e : j0 = j
        · subst e
          rw [buildG_self] at hm
          simp only [Option.some.injEq, Prod.mk.injEq] at hm
          obtain ⟨rfl, rfl, rfl⟩ := hm
          rw [eLo, eHg] at hl
          have : i ∈ chId s (s.cur, j0) ∨ isFresh (s.heap.length, s'.heap.length) i := by
            rcases hl with hl | hl
            · exact sL.mem i hl
            · exact sH.mem i hl
          rcases this with h1 | h1
          · exact Or.inl ⟨_, h1⟩
          · have := h1.1
            dsimp only at this
            omega
        · rw [buildG_ne _ _ _ _ _ e] at hm
          obtain ⟨e1, e2⟩ := hothers j0 lo0 hg0 fr0 hm
          rw [e1, e2] at hl
          exact Or.inr ⟨j0, lo0, hg0, fr0, hm, hl⟩
  · intro k
    rw [absOf_eq, absOf_eq, hlc k]
    have hl2 := H.LC_eq k
    refine absIn_same ?_ ?_ k
    · intro i hi; rw [hl2] at hi; rw [hnode i (H.chain_lt hi)]
    · intro i hi; rw [hl2] at hi; rw [hnode i (H.chain_lt hi)]

/-! ## the stores into the next table (the old bin stays the live one) -/

theorem liveId_cur {s : State} {k : Nat} (h : cellAt s s.cur (k % 2 ^ s.cur) ≠ .moved) :
    liveId s k = (s.cur, k % 2 ^ s.cur) := by
  unfold liveId; rw [if_neg (by unfold cellOf; exact h)]; rfl

theorem liveId_next {s : State} {k : Nat} (h : cellAt s s.cur (k % 2 ^ s.cur) = .moved) :
    liveId s k = (s.cur + 1, k % 2 ^ (s.cur + 1)) := by
  unfold liveId; rw [if_pos (by unfold cellOf; exact h)]; rfl

theorem liveId_congr_cur {s s' : State} (hc : s'.cur = s.cur) {k : Nat}
    (h : cellAt s' s.cur (k % 2 ^ s.cur) = cellAt s s.cur (k % 2 ^ s.cur)) : liveId s' k = liveId s k := by
  unfold liveId cellOf
  rw [hc, h]

theorem storeNew_effect {s s' : State} {G : Ghost} (H : HInv s G) (S' : Shape s') {j : Nat} {lo hg : Option Nat}
    (hmid : G.mid j = some (lo, hg, fr)) (hres : s.resizing = true) {j' : Nat} {c : Cell}
    (hcase : (j' = j ∧ c = cellOfHead lo ∧ cellAt s (s.cur + 1) j = .empty) ∨
      (j' = j + 2 ^ s.cur ∧ c = cellOfHead hg ∧ cellAt s (s.cur + 1) (j + 2 ^ s.cur) = .empty))
    (hh : s'.heap = s.heap) (ht : s'.tabs = s.tabs.modify (s.cur + 1) (fun row => row.set j' c))
    (hc : s'.cur = s.cur) (_hr : s'.resizing = s.resizing) :
    HInv s' G ∧ HeapStep s s' G G ∧ (∀ k, absOf s' k = absOf s k) := by
  obtain ⟨hjlt, ⟨h, hc0⟩, hlow, hhigh, hOlt, L, Hc, hLc, hHc, sL, sH⟩ := H.mid j lo hg _ hmid
  have S := H.shape
  have hp2 : 0 < 2 ^ s.cur := two_pow_pos _
  have hnm : cellAt s s.cur j ≠ .moved := by rw [hc0]; simp
  -- the facts about the new list, uniformly for both sides
  obtain ⟨b, x, X, hcx, hX, sX, hj'lt, hpar, hemp, harith, hxmid⟩ :
      ∃ (b : Bool) (x : Option Nat) (X : List Nat), c = cellOfHead x ∧ IsChain s.heap x X ∧
        SideOK (bitAt s.cur) s.heap G.cr fr (chId s (s.cur, j)) b X ∧ j' < 2 ^ (s.cur + 1) ∧
        j' % 2 ^ s.cur = j ∧ cellAt s (s.cur + 1) j' = .empty ∧
        (∀ k, bitAt s.cur k = b → k % 2 ^ s.cur = j → k % 2 ^ (s.cur + 1) = j') ∧ (x = lo ∨ x = hg) := by
    rcases hcase with ⟨rfl, rfl, he⟩ | ⟨rfl, rfl, he⟩
    · refine ⟨false, lo, L, rfl, hLc, sL, by rw [Nat.pow_succ]; omega, Nat.mod_eq_of_lt hjlt, he, ?_, Or.inl rfl⟩
      intro k hb hk
      rw [mod_succ_bit, hb, hk]; simp
    · refine ⟨true, hg, Hc, rfl, hHc, sH, by rw [Nat.pow_succ]; omega, high_mod _ _ hjlt, he, ?_, Or.inr rfl⟩
      intro k hb hk
      rw [mod_succ_bit, hb, hk]; simp
  subst hcx
  have hcs : cellAt s' (s.cur + 1) j' = cellOfHead x := cellAt_put_self S ht (S.next_lt hres) hj'lt
  have hcn : ∀ g i, ¬ (g = s.cur + 1 ∧ i = j') → cellAt s' g i = cellAt s g i := fun g i h => cellAt_put_ne ht h
  have hccur : ∀ i, cellAt s' s.cur i = cellAt s s.cur i := fun i => hcn _ _ (fun h => by omega)
  have hgn : ∀ id, id ≠ (s.cur + 1, j') → getCell s' id = getCell s id := fun id h => getCell_put_ne ht h
  have hchn : ∀ id, id ≠ (s.cur + 1, j') → chId s' id = chId s id := by
    intro id h; unfold chId; rw [hh, hgn id h]
  have hchs : chId s' (s.cur + 1, j') = X := by
    refine chainH_eq (cr := G.cr) (by rw [hh]; exact H.nextOK) ?_
    rw [getCell_mk, hcs, cellHead_cellOfHead, hh]; exact hX
  have hchold : chId s (s.cur + 1, j') = [] := chId_of_empty hemp
  have hXlive : ∀ i ∈ X, Live s G i := by
    intro i hi
    refine Or.inr ⟨j, lo, hg, fr, hmid, ?_⟩
    have eL : chainH s.heap (cellOfHead lo) = L := chainH_eq H.nextOK (by rw [cellHead_cellOfHead]; exact hLc)
    have eH : chainH s.heap (cellOfHead hg) = Hc := chainH_eq H.nextOK (by rw [cellHead_cellOfHead]; exact hHc)
    have eX : chainH s.heap (cellOfHead x) = X := chainH_eq H.nextOK (by rw [cellHead_cellOfHead]; exact hX)
    rcases hxmid with rfl | rfl
    · left; rw [eX]; exact hi
    · right; rw [eX]; exact hi
  have H' : HInv s' G := by
    refine ⟨S', by rw [hh]; exact H.nextOK, by rw [hh]; exact H.crLt, by rw [hh]; exact H.frOK, ?_, ?_, ?_, ?_, ?_⟩
    · intro id h' hn
      rw [hh]
      by_cases hid : id = (s.cur + 1, j')
      · subst hid
        rw [getCell_mk, hcs] at hn
        have : x = some h' := by
          cases x with
          | none => cases hn
          | some y => cases hn; rfl
        subst this
        cases hX with
        | cons hn' _ => exact (List.getElem?_eq_some_iff.1 hn').1
      · rw [hgn id hid] at hn; exact H.head id h' hn
    · intro id
      rw [hh]
      by_cases hid : id = (s.cur + 1, j')
      · subst hid; rw [hchs]; exact sX.keys
      · rw [hchn id hid]; exact H.keys id
    · intro id i hi
      rw [hh]
      by_cases hid : id = (s.cur + 1, j')
      · subst hid
        rw [hchs] at hi
        have hkj : (nodeAt s.heap i).key % 2 ^ s.cur = j := by
          rcases sX.mem i hi with h1 | h1
          · exact H.side (s.cur, j) i h1
          · obtain ⟨i0, hi0, hk0, -, -⟩ := sX.src i hi h1
            rw [← hk0]
            exact H.side (s.cur, j) i0 hi0
        exact harith _ (sX.side i hi) hkj
      · rw [hchn id hid] at hi; exact H.side id i hi
    · intro j'' h1 h2
      rw [hc] at h1 h2 ⊢
      rw [hccur] at h1
      have he := H.nextEmpty j'' h1 h2
      by_cases hjj : j'' = j'
      · subst hjj
        rw [hpar] at h2
        exact absurd (isMid_of hmid) h2
      · rw [hcn _ _ (fun h => hjj h.2)]; exact he
    · intro j0 lo0 hg0 fr0 hm
      by_cases ej : j0 = j
      · subst ej
        rw [hmid] at hm
        simp only [Option.some.injEq, Prod.mk.injEq] at hm
        obtain ⟨rfl, rfl, rfl⟩ := hm
        rw [hc, hccur, hh, hchn _ (by intro e; injection e with e1 e2; omega)]
        refine ⟨hjlt, ⟨h, hc0⟩, ?_, ?_, hOlt, L, Hc, hLc, hHc, sL, sH⟩
        · rcases hcase with ⟨rfl, hcl, -⟩ | ⟨rfl, -, -⟩
          · right; rw [hcs]; exact hcl
          · rw [hcn _ _ (fun h => by omega)]; exact hlow
        · rcases hcase with ⟨rfl, -, -⟩ | ⟨rfl, hcl, -⟩
          · rw [hcn _ _ (fun h => by omega)]; exact hhigh
          · right; rw [hcs]; exact hcl
      · -- the split of another cell: its cells and lists are untouched
        obtain ⟨g1, g2, g3, g4, g5⟩ := H.mid j0 lo0 hg0 fr0 hm
        have hj'1 : j' ≠ j0 := by
          intro e; rw [e, Nat.mod_eq_of_lt g1] at hpar; exact ej hpar
        have hj'2 : j' ≠ j0 + 2 ^ s.cur := by
          intro e; rw [e, high_mod _ _ g1] at hpar; exact ej hpar
        rw [hc, hccur, hh, hchn _ (by intro e; injection e with e1 e2; omega),
          hcn _ _ (fun h => hj'1 h.2.symm), hcn _ _ (fun h => hj'2 h.2.symm)]
        exact ⟨g1, g2, g3, g4, g5⟩
  have hlid : ∀ k, liveId s' k = liveId s k := fun k => liveId_congr_cur hc (hccur _)
  have hlne : ∀ k, liveId s k ≠ (s.cur + 1, j') := by
    intro k he
    by_cases hm : cellAt s s.cur (k % 2 ^ s.cur) = .moved
    · rw [liveId_next hm] at he
      injection he with _ e2
      have : k % 2 ^ s.cur = j := by rw [← mod_succ_mod, e2, hpar]
      rw [this] at hm
      exact hnm hm
    · rw [liveId_cur hm] at he
      injection he with e1 _
      omega
  have hlc : ∀ k, LC s' k = LC s k := by
    intro k
    rw [H'.LC_eq, H.LC_eq, hlid, hchn _ (hlne k)]
  refine ⟨H', ?_, ?_⟩
  · refine HeapStep.of_quiet (by rw [hh]; exact Nat.le_refl _) (fun i _ => by rw [hh]; exact ⟨rfl, rfl, rfl⟩)
      (fun _ _ => rfl) ?_ ?_ hlc ?_
    · intro id hm
      have : id ≠ (s.cur + 1, j') := by
        rintro rfl
        rw [getCell_mk, hemp] at hm; cases hm
      rw [hgn id this]; exact hm
    · intro i _ hnl hl
      apply hnl
      rcases hl with ⟨id, hl⟩ | hl
      · by_cases hid : id = (s.cur + 1, j')
        · subst hid
          rw [hchs] at hl
          exact hXlive i hl
        · rw [hchn id hid] at hl; exact Or.inl ⟨id, hl⟩
      · rw [hh] at hl; exact Or.inr hl
    · intro id c' hm
      by_cases hid : id = (s.cur + 1, j')
      · subst hid; rw [hchold] at hm; cases hm
      · rw [hchn id hid]; exact hm
  · intro k
    rw [absOf_eq, absOf_eq, hlc k, hh]

/-! ## the empty bin: CAS `empty → moved` -/

theorem casMoved_effect {s s' : State} {G : Ghost} (H : HInv s G) (S' : Shape s') {j : Nat} (hmid : G.mid j = none)
    (hj : j < 2 ^ s.cur) (hc0 : cellAt s s.cur j = .empty) (_hres : s.resizing = true)
    (hh : s'.heap = s.heap) (ht : s'.tabs = s.tabs.modify s.cur (fun row => row.set j .moved))
    (hc : s'.cur = s.cur) (_hr : s'.resizing = s.resizing) :
    HInv s' G ∧ HeapStep s s' G G ∧ (∀ k, absOf s' k = absOf s k) := by
  have S := H.shape
  have hcs : cellAt s' s.cur j = .moved := cellAt_put_self S ht S.cur_lt hj
  have hcn : ∀ g i, ¬ (g = s.cur ∧ i = j) → cellAt s' g i = cellAt s g i := fun g i h => cellAt_put_ne ht h
  have hgn : ∀ id, id ≠ (s.cur, j) → getCell s' id = getCell s id := fun id h => getCell_put_ne ht h
  have hch : ∀ id, chId s' id = chId s id := by
    intro id
    by_cases hid : id = (s.cur, j)
    · subst hid
      rw [chId_of_moved (by rw [getCell_mk]; exact hcs), chId_of_empty (by rw [getCell_mk]; exact hc0)]
    · unfold chId; rw [hh, hgn id hid]
  have hnm : cellAt s s.cur j ≠ .moved := by rw [hc0]; simp
  have H' : HInv s' G := by
    refine ⟨S', by rw [hh]; exact H.nextOK, by rw [hh]; exact H.crLt, by rw [hh]; exact H.frOK, ?_, ?_, ?_, ?_, ?_⟩
    · intro id h' hn
      rw [hh]
      by_cases hid : id = (s.cur, j)
      · subst hid; rw [getCell_mk, hcs] at hn; cases hn
      · rw [hgn id hid] at hn; exact H.head id h' hn
    · intro id; rw [hch, hh]; exact H.keys id
    · intro id; rw [hch, hh]; exact H.side id
    · intro j'' h1 h2
      rw [hc] at h1 h2 ⊢
      have hne : j'' % 2 ^ s.cur ≠ j := by
        intro e; rw [e] at h1; exact h1 hcs
      rw [hcn _ _ (fun h => hne h.2)] at h1
      rw [hcn _ _ (fun h => by omega)]
      exact H.nextEmpty j'' h1 h2
    · intro j0 lo0 hg0 fr0 hm
      have ej : j0 ≠ j := by intro e; rw [e, hmid] at hm; cases hm
      obtain ⟨g1, g2, g3, g4, g5⟩ := H.mid j0 lo0 hg0 fr0 hm
      rw [hc, hcn _ _ (fun h => ej h.2), hcn _ _ (fun h => by omega), hcn _ _ (fun h => by omega), hh, hch]
      exact ⟨g1, g2, g3, g4, g5⟩
  have hlc : ∀ k, LC s' k = LC s k := by
    intro k
    rw [H'.LC_eq, H.LC_eq, hch]
    by_cases hk : k % 2 ^ s.cur = j
    · have h1 : liveId s' k = (s.cur + 1, k % 2 ^ (s.cur + 1)) := by
        have := liveId_next (s := s') (k := k) (by rw [hc, hk]; exact hcs)
        rw [hc] at this; exact this
      have h2 : liveId s k = (s.cur, j) := by rw [liveId_cur (by rw [hk]; exact hnm), hk]
      rw [h1, h2, chId_of_empty (id := (s.cur, j)) (by rw [getCell_mk]; exact hc0)]
      refine chId_of_empty ?_
      rw [getCell_mk]
      refine H.nextEmpty _ ?_ ?_
      · rw [mod_succ_mod, hk]; exact hnm
      · rw [mod_succ_mod, hk]; exact not_isMid_of_none hmid
    · rw [liveId_congr_cur hc (hcn _ _ (fun h => hk h.2))]
  refine ⟨H', ?_, ?_⟩
  · refine HeapStep.of_quiet (by rw [hh]; exact Nat.le_refl _) (fun i _ => by rw [hh]; exact ⟨rfl, rfl, rfl⟩)
      (fun _ _ => rfl) ?_ ?_ hlc (fun id c' hm => by rw [hch]; exact hm)
    · intro id hm
      by_cases hid : id = (s.cur, j)
      · subst hid; exact hcs
      · rw [hgn id hid]; exact hm
    · intro i _ hnl hl
      apply hnl
      rcases hl with ⟨id, hl⟩ | hl
      · rw [hch] at hl; exact Or.inl ⟨id, hl⟩
      · rw [hh] at hl; exact Or.inr hl
  · intro k
    rw [absOf_eq, absOf_eq, hlc k, hh]

/-! ## the forwarding marker -/

/-- in the state before the store of `moved`, the new chains are the split lists -/
theorem mid_chains {s : State} {G : Ghost} (H : HInv s G) {j : Nat} {lo hg : Option Nat}
    (hmid : G.mid j = some (lo, hg, fr))
    (hlow : cellAt s (s.cur + 1) j = cellOfHead lo) (hhigh : cellAt s (s.cur + 1) (j + 2 ^ s.cur) = cellOfHead hg) :
    (∀ i ∈ chId s (s.cur, j), i < fr.1) ∧
    SideOK (bitAt s.cur) s.heap G.cr fr (chId s (s.cur, j)) false (chId s (s.cur + 1, j)) ∧
    SideOK (bitAt s.cur) s.heap G.cr fr (chId s (s.cur, j)) true (chId s (s.cur + 1, j + 2 ^ s.cur)) := by
  obtain ⟨-, -, -, -, hlt, L, Hc, hLc, hHc, sL, sH⟩ := H.mid j lo hg _ hmid
  have eL : chId s (s.cur + 1, j) = L := by
    refine H.chId_eq ?_
    rw [getCell_mk, hlow, cellHead_cellOfHead]; exact hLc
  have eH : chId s (s.cur + 1, j + 2 ^ s.cur) = Hc := by
    refine H.chId_eq ?_
    rw [getCell_mk, hhigh, cellHead_cellOfHead]; exact hHc
  rw [eL, eH]
  exact ⟨hlt, sL, sH⟩

theorem sideOK_abs {bit : Nat → Bool} {heap : List NodeS} {cr : CR} {fr : Nat × Nat} {O X : List Nat} {b : Bool}
    (hO : KeysDistinct heap O) (sX : SideOK bit heap cr fr O b X) {k : Nat} (hk : bit k = b) :
    absIn heap X k = absIn heap O k := by
  refine absIn_congr hO sX.keys ?_ ?_
  · intro i hi hik
    obtain ⟨j, hj, h1, h2, -⟩ := sX.cover i hi (by rw [hik]; exact hk)
    exact ⟨j, hj, by rw [h1, hik], h2⟩
  · intro j hj hjk
    rcases sX.mem j hj with h | h
    · exact ⟨j, h, hjk⟩
    · obtain ⟨i, hi, h1, -, -⟩ := sX.src j hj h
      exact ⟨i, hi, by rw [h1, hjk]⟩

theorem moved_effect {s s' : State} {G : Ghost} (H : HInv s G) (S' : Shape s') {j : Nat} {lo hg : Option Nat}
    (hmid : G.mid j = some (lo, hg, fr))
    (hlow : cellAt s (s.cur + 1) j = cellOfHead lo) (hhigh : cellAt s (s.cur + 1) (j + 2 ^ s.cur) = cellOfHead hg)
    (hh : s'.heap = s.heap) (ht : s'.tabs = s.tabs.modify s.cur (fun row => row.set j .moved))
    (hc : s'.cur = s.cur) (_hr : s'.resizing = s.resizing) :
    HInv s' (G.setMid j none) ∧ (∀ k, absOf s' k = absOf s k) := by
  obtain ⟨hlt, sL, sH⟩ := mid_chains H hmid hlow hhigh
  obtain ⟨hj, ⟨h, hc0⟩, -⟩ := H.mid j lo hg _ hmid
  have S := H.shape
  have hnm : cellAt s s.cur j ≠ .moved := by rw [hc0]; simp
  have hcs : cellAt s' s.cur j = .moved := cellAt_put_self S ht S.cur_lt hj
  have hcn : ∀ g i, ¬ (g = s.cur ∧ i = j) → cellAt s' g i = cellAt s g i := fun g i h => cellAt_put_ne ht h
  have hgn : ∀ id, id ≠ (s.cur, j) → getCell s' id = getCell s id := fun id h => getCell_put_ne ht h
  have hchn : ∀ id, id ≠ (s.cur, j) → chId s' id = chId s id := by
    intro id h; unfold chId; rw [hh, hgn id h]
  have hchs : chId s' (s.cur, j) = [] := chId_of_moved (by rw [getCell_mk]; exact hcs)
  have hold : ∀ j0 x, (G.setMid j none).mid j0 = some x → j0 ≠ j ∧ G.mid j0 = some x := by
    intro j0 x hm
    by_cases e : j0 = j
    · subst e; rw [setMid_self] at hm; cases hm
    · rw [setMid_ne _ _ e] at hm; exact ⟨e, hm⟩
  have H' : HInv s' (G.setMid j none) := by
    refine ⟨S', by rw [hh]; exact H.nextOK, by rw [hh]; exact H.crLt,
      fun j0 lo0 hg0 fr0 hm => by rw [hh]; exact H.frOK j0 lo0 hg0 fr0 (hold _ _ hm).2, ?_, ?_, ?_, ?_, ?_⟩
    · intro id h' hn
      rw [hh]
      by_cases hid : id = (s.cur, j)
      · subst hid; rw [getCell_mk, hcs] at hn; cases hn
      · rw [hgn id hid] at hn; exact H.head id h' hn
    · intro id
      by_cases hid : id = (s.cur, j)
      · subst hid; rw [hchs]; intro a ha; cases ha
      · rw [hchn id hid, hh]; exact H.keys id
    · intro id
      by_cases hid : id = (s.cur, j)
      · subst hid; rw [hchs]; intro a ha; cases ha
      · rw [hchn id hid, hh]; exact H.side id
    · intro j'' h1 h2
      rw [hc] at h1 h2 ⊢
      have hne : j'' % 2 ^ s.cur ≠ j := by
        intro e; rw [e] at h1; exact h1 hcs
      rw [hcn _ _ (fun h => hne h.2)] at h1
      rw [hcn _ _ (fun h => by omega)]
      refine H.nextEmpty j'' h1 ?_
      intro hm
      apply h2
      unfold IsMid at hm ⊢
      rw [setMid_ne _ _ hne]; exact hm
    · intro j0 lo0 hg0 fr0 hm
      obtain ⟨ej, hm⟩ := hold _ _ hm
      obtain ⟨g1, g2, g3, g4, g5⟩ := H.mid j0 lo0 hg0 fr0 hm
      rw [hc, hcn _ _ (fun h => ej h.2), hcn _ _ (fun h => by omega), hcn _ _ (fun h => by omega), hh,
        hchn _ (by intro e; injection e with e1 e2; exact ej e2)]
      exact ⟨g1, g2, g3, g4, g5⟩
  refine ⟨H', ?_⟩
  intro k
  rw [absOf_eq, absOf_eq, H'.LC_eq, H.LC_eq, hh]
  by_cases hk : k % 2 ^ s.cur = j
  · have h1 : liveId s' k = (s.cur + 1, k % 2 ^ (s.cur + 1)) := by
      have := liveId_next (s := s') (k := k) (by rw [hc, hk]; exact hcs)
      rw [hc] at this; exact this
    have h2 : liveId s k = (s.cur, j) := by rw [liveId_cur (by rw [hk]; exact hnm), hk]
    rw [h1, h2, hchn _ (by intro e; injection e with e1 e2; omega), mod_succ_bit, hk]
    cases hb : bitAt s.cur k
    · simp only [Bool.false_eq_true, if_false, Nat.add_zero]
      exact sideOK_abs (H.keys _) sL hb
    · simp only [if_true]
      exact sideOK_abs (H.keys _) sH hb
  · have hl : liveId s' k = liveId s k := liveId_congr_cur hc (hcn _ _ (fun h => hk h.2))
    have hne : liveId s k ≠ (s.cur, j) := by
      intro he
      by_cases hm : cellAt s s.cur (k % 2 ^ s.cur) = .moved
      · rw [liveId_next hm] at he
        injection he with e1 _
        omega
      · rw [liveId_cur hm] at he
        injection he with _ e2
        exact hk e2
    rw [hl, hchn _ hne]

/-- after the forwarding only the nodes of the other chains, and of the other splits, are live -/
theorem live_of_moved' {s s' : State} {G : Ghost} (S : Shape s) {j : Nat} (hj : j < 2 ^ s.cur)
    (hh : s'.heap = s.heap) (ht : s'.tabs = s.tabs.modify s.cur (fun row => row.set j .moved)) {i : Nat}
    (hl : Live s' (G.setMid j none) i) : (∃ id, id ≠ (s.cur, j) ∧ i ∈ chId s id) ∨
      ∃ j0 lo hg fr, j0 ≠ j ∧ G.mid j0 = some (lo, hg, fr) ∧
        (i ∈ chainH s.heap (cellOfHead lo) ∨ i ∈ chainH s.heap (cellOfHead hg)) := by
  have hcs : cellAt s' s.cur j = .moved := cellAt_put_self S ht S.cur_lt hj
  rcases hl with ⟨id, hl⟩ | ⟨j0, lo, hg, fr, hm, hl⟩
  · by_cases hid : id = (s.cur, j)
    · subst hid
      rw [chId_of_moved (by rw [getCell_mk]; exact hcs)] at hl
      cases hl
    · refine Or.inl ⟨id, hid, ?_⟩
      unfold chId at hl ⊢
      rw [hh, getCell_put_ne ht hid] at hl
      exact hl
  · by_cases e : j0 = j
    · subst e; rw [setMid_self] at hm; cases hm
    · rw [setMid_ne _ _ e] at hm
      rw [hh] at hl
      exact Or.inr ⟨j0, lo, hg, fr, e, hm, hl⟩

theorem live_of_moved {s s' : State} {G : Ghost} (S : Shape s) {j : Nat} (hj : j < 2 ^ s.cur)
    (hh : s'.heap = s.heap) (ht : s'.tabs = s.tabs.modify s.cur (fun row => row.set j .moved)) {i : Nat}
    (hl : Live s' (G.setMid j none) i) : Live s G i := by
  rcases live_of_moved' S hj hh ht hl with ⟨id, -, h⟩ | ⟨j0, lo, hg, fr, -, hm, h⟩
  · exact Or.inl ⟨id, h⟩
  · exact Or.inr ⟨j0, lo, hg, fr, hm, h⟩

/-! ## the allocation of the next generation -/

theorem alloc_effect {s s' : State} {G : Ghost} (H : HInv s G) (S' : Shape s') (hmid : ∀ j, G.mid j = none)
    (hh : s'.heap = s.heap) (ht : s'.tabs = s.tabs ++ [List.replicate (2 ^ (s.cur + 1)) .empty])
    (hc : s'.cur = s.cur) (_hr' : s'.resizing = true) (_hr : s.resizing = false) :
    HInv s' G ∧ HeapStep s s' G G ∧ (∀ k, absOf s' k = absOf s k) := by
  have hcA : ∀ g i, cellAt s' g i = cellAt s g i := fun g i => by
    rw [cellAt_eq, cellAt_eq, ht]; exact cellT_alloc _ _ _ _
  have hcell : ∀ id, getCell s' id = getCell s id := fun id => hcA _ _
  have hch : ∀ id, chId s' id = chId s id := by
    intro id; unfold chId; rw [hh, hcell]
  have H' : HInv s' G := by
    refine ⟨S', by rw [hh]; exact H.nextOK, by rw [hh]; exact H.crLt, by rw [hh]; exact H.frOK, ?_, ?_, ?_, ?_, ?_⟩
    · intro id h' hn; rw [hcell] at hn; rw [hh]; exact H.head id h' hn
    · intro id; rw [hch, hh]; exact H.keys id
    · intro id; rw [hch, hh]; exact H.side id
    · intro j'; rw [hcA, hcA, hc]; exact H.nextEmpty j'
    · intro j0 lo0 hg0 fr hm; rw [hmid j0] at hm; cases hm
  have hlc : ∀ k, LC s' k = LC s k := by
    intro k
    rw [H'.LC_eq, H.LC_eq, hch, liveId_congr_cur hc (hcA _ _)]
  refine ⟨H', ?_, ?_⟩
  · refine HeapStep.of_quiet (by rw [hh]; exact Nat.le_refl _) (fun i _ => by rw [hh]; exact ⟨rfl, rfl, rfl⟩)
      (fun _ _ => rfl) (fun id hm => by rw [hcell]; exact hm) ?_ hlc (fun id c' hm => by rw [hch]; exact hm)
    intro i _ hnl hl
    apply hnl
    rcases hl with ⟨id, hl⟩ | hl
    · rw [hch] at hl; exact Or.inl ⟨id, hl⟩
    · rw [hh] at hl; exact Or.inr hl
  · intro k
    rw [absOf_eq, absOf_eq, hlc k, hh]

/-! ## the publication of the next table -/

theorem commit_effect {s s' : State} {G : Ghost} (H : HInv s G) (S' : Shape s') (hmid : ∀ j, G.mid j = none)
    (hall : ∀ j, j < 2 ^ s.cur → cellAt s s.cur j = .moved)
    (hh : s'.heap = s.heap) (ht : s'.tabs = s.tabs) (hc : s'.cur = s.cur + 1)
    (_hr' : s'.resizing = false) (_hr : s.resizing = true) :
    HInv s' G ∧ HeapStep s s' G G ∧ (∀ k, absOf s' k = absOf s k) := by
  have S := H.shape
  have hcA : ∀ g i, cellAt s' g i = cellAt s g i := fun g i => by rw [cellAt_eq, cellAt_eq, ht]
  have hcell : ∀ id, getCell s' id = getCell s id := getCell_congr ht
  have hch : ∀ id, chId s' id = chId s id := chId_congr hh ht
  have H' : HInv s' G := by
    refine ⟨S', by rw [hh]; exact H.nextOK, by rw [hh]; exact H.crLt, by rw [hh]; exact H.frOK, ?_, ?_, ?_, ?_, ?_⟩
    · intro id h' hn; rw [hcell] at hn; rw [hh]; exact H.head id h' hn
    · intro id; rw [hch, hh]; exact H.keys id
    · intro id; rw [hch, hh]; exact H.side id
    · intro j' _ _
      rw [hcA, hc]
      exact S.cell_of_gen_gt (by omega)
    · intro j0 lo0 hg0 fr hm; rw [hmid j0] at hm; cases hm
  have hlid : ∀ k, liveId s' k = liveId s k := by
    intro k
    have h1 : liveId s' k = (s'.cur, k % 2 ^ s'.cur) := by
      refine liveId_cur ?_
      rw [hcA, hc]; exact S.nextNM _
    rw [h1, hc, liveId_next (hall _ (mod_lt_pow _ _))]
  have hlc : ∀ k, LC s' k = LC s k := by
    intro k
    rw [H'.LC_eq, H.LC_eq, hch, hlid]
  refine ⟨H', ?_, ?_⟩
  · refine HeapStep.of_quiet (by rw [hh]; exact Nat.le_refl _) (fun i _ => by rw [hh]; exact ⟨rfl, rfl, rfl⟩)
      (fun _ _ => rfl) (fun id hm => by rw [hcell]; exact hm) ?_ hlc (fun id c' hm => by rw [hch]; exact hm)
    intro i _ hnl hl
    apply hnl
    rcases hl with ⟨id, hl⟩ | hl
    · rw [hch] at hl; exact Or.inl ⟨id, hl⟩
    · rw [hh] at hl; exact Or.inr hl
  · intro k
    rw [absOf_eq, absOf_eq, hlc k, hh]

end Flurry.Proto.BinNHM
