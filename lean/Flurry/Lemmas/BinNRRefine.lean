import Flurry.Proto.BinNR
import Flurry.Proto.Reclaim2
/-! # Proto/BinNR → Proto/Reclaim2: the projection of a concrete run onto the events of the abstract discipline

`project s t a s'` = the `Reclaim2.Ev` events of one `BinNR` transition `s —(t, a)→ s'` (objects = node indices):
`enter` (invocation / start of a resize), `acquire` of every node index the step dereferences or has in its program
counter afterwards, `touch` of every node it dereferences, `alloc` of every node it creates, `publish` of every node
that becomes reachable from a cell, `unlink` of every node that stops being reachable, `retire` (explicit, or of the
whole retire list at the response), `exit` (response / commit), `free`.

`simB a s`: the abstract state `a` describes the concrete state `s` (same objects, same life cycle state with the same
unlink-time and `waitFor` sets, same guards, the abstract `holds` contain the program counter's node indices).

`refinesB nthreads sched`: the projection of the whole run is accepted by `Reclaim2.run`, step by step, and `simB` holds
after every step. **Checked by execution** (`Lemmas/BinNRRefineExamples.lean`), not yet proved for all runs. -/
namespace Flurry.Proto.BinNR
open Flurry.Proto.Reclaim2 (Ev)

def project (s : State) (t : Nat) (a : Act) (s' : State) : List Ev :=
  match a with
  | .retire i => [.retire t i]
  | .free i => [.free i]
  | .base .. =>
    let n := s.n
    let n' := s'.n
    let N := n.heap.length
    let N' := n'.heap.length
    let ex : Bool := guarded n t && !guarded n' t
    (if !guarded n t && guarded n' t then [Ev.enter t] else []) ++
    ((touches n t ++ holdsOf n' t).map (Ev.acquire t)) ++
    ((touches n t).map (Ev.touch t)) ++
    (List.replicate (N' - N) (Ev.alloc t)) ++
    (((List.range N').filter fun i => !reach n i && reach n' i).map (Ev.publish t)) ++
    (((List.range N).filter fun i => reach n i && !reach n' i).map (Ev.unlink t)) ++
    (if ex then (s.pend t ++ retiredBy false n t).map (Ev.retire t) else []) ++
    (if ex then [Ev.exit t] else [])

def sameSet (a b : List Nat) : Bool := a.all (b.contains ·) && b.all (a.contains ·)

def simB (nthreads : Nat) (a : Reclaim2.State) (s : State) : Bool :=
  a.nobjs == s.n.heap.length && a.badTouches == 0 &&
  ((List.range nthreads).all fun t =>
    a.guarded t == guarded s.n t && (holdsOf s.n t).all (a.holds t).contains) &&
  ((List.range s.n.heap.length).all fun i =>
    match a.objs i, s.unl i, s.life i with
    | .fresh, none, .live => !reach s.n i
    | .linked, none, .live => reach s.n i
    | .unlinked u, some u', .live => sameSet u u' && !reach s.n i
    | .retired u w, some u', .retired w' => sameSet u u' && sameSet w w' && !reach s.n i
    | .freed, some [], .freed => !reach s.n i
    | _, _, _ => false)

/-- run the concrete schedule, project every step, feed the events to the abstract discipline; `some none` = every
step enabled, every event accepted, `simB` after every step; `some (some k)` = first failure at step `k` -/
def refinesFrom (nthreads : Nat) : Reclaim2.State → State → List (Nat × Act) → Nat → Option (Option Nat)
  | _, _, [], _ => some none
  | a, s, (t, x) :: rest, k =>
    match stepG false s t x with
    | none => none
    | some s' =>
      match Reclaim2.run a (project s t x s') with
      | none => some (some k)
      | some a' => if simB nthreads a' s' then refinesFrom nthreads a' s' rest (k + 1) else some (some k)

def refinesB (nthreads : Nat) (sc : List (Nat × Act)) : Option (Option Nat) :=
  refinesFrom nthreads (Reclaim2.init nthreads) (init nthreads) sc 0

end Flurry.Proto.BinNR
