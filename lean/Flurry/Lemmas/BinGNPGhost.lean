import Flurry.Lemmas.BinGNPInv
import Flurry.Lemmas.BinGNPStep
import Flurry.Lemmas.BinKGhost
/-! # Proto/BinGN (port of `Lemmas/BinGGhost.lean` and `Lemmas/BinGFacts.lean`): ghost history, hindsight
invariants of the readers, and what every transition has to establish — definitions

Verbatim, except: `Foreign s k j` — `j` is on the chain of ANY cell `(g, j')` in which `k` does not live
(`k % 2^g ≠ j'`), as `Good.foreign` of `Lemmas/BinNGhost.lean` (BinG: the new cell of the other side after the
forwarding); `LiveBin s b` — `b` is in the cell a lookup of some key ends in. -/
namespace Flurry.Proto.BinGNP
open Flurry.Lin
open Flurry.Proto.BinK (nodeAt binAt NextOK IsChain IsSeg chainOf CInv absL AbsWit OnCond ValWit Sim CallOK nextA)

theorem isReader_eq_isRead (op : KOp) : isReader op = isRead op := by cases op <;> rfl

/-! ## the extended history -/

/-- the result of a writer that is past its linearization point -/
def resOfPc : Pc → Option KRes
  | .wUnlock _ _ res false => some res
  | .tUnlockM _ _ res false => some res
  | .tTreeLinkLocked _ _ _ => some .none
  | .tRestructure _ _ _ res => some res
  | .tUnlockRoot _ _ res => some res
  | .tUntreeify _ _ res => some res
  | _ => none

/-- the call of a writer that is past its linearization point, counted as responding at `now` -/
def extOf (k now t : Nat) (l : Local) : Option Call :=
  match resOfPc l.pc, l.call with
  | some res, some p => if p.key = k then some ⟨t, p.op, res, p.inv, now⟩ else none
  | _, _ => none

def extCalls (s : State) (k : Nat) : History :=
  (List.range s.threads.length).filterMap (fun t => (s.threads[t]?).bind (extOf k s.now t))

/-- the completed calls on key `k`, plus the calls of writers past their linearization point -/
def callsOnExt (s : State) (k : Nat) : History := callsOn s k ++ extCalls s k

/-! ## the hindsight justification of a list walker -/

/-- a node on the chain of a cell in which `k` does not live (the reader came there through the list of an ancestor
cell that has been split since, or through a re-used `TreeBin`) -/
def Foreign (s : State) (k : Nat) (j : Nat) : Prop :=
  ∃ id : Cid, j ∈ chainC s (cellAt s id) ∧ k % 2 ^ id.1 ≠ id.2

inductive Good (A : Nat → KSt) (k inv : Nat) (s : State) : Option Nat → Prop
  | absent : AbsWit A inv s.now → Good A k inv s none
  | on {c : Nat} : c ∈ LC s k → OnCond A k inv s.now s.heap (LC s k) c → Good A k inv s (some c)
  | foreign {c : Nat} : Foreign s k c → AbsWit A inv s.now → Good A k inv s (some c)
  | off {c : Nat} : ¬ Used s c → c < s.heap.length →
      ((nodeAt s.heap c).key ≠ k → Good A k inv s (nodeAt s.heap c).next) →
      ((nodeAt s.heap c).key = k → ∃ τ, inv ≤ τ ∧ τ ≤ s.now ∧ A τ = some (nodeAt s.heap c).val) →
      Good A k inv s (some c)

/-- what a transition does to the heap, seen from a list walker looking for `k` -/
structure KStep (s s' : State) (k : Nat) : Prop where
  len : s.heap.length ≤ s'.heap.length
  key : ∀ j, j < s.heap.length → (nodeAt s'.heap j).key = (nodeAt s.heap j).key
  /-- dead nodes are frozen -/
  frozen : ∀ j, j < s.heap.length → ¬ Used s j →
    (nodeAt s'.heap j).val = (nodeAt s.heap j).val ∧ (nodeAt s'.heap j).next = (nodeAt s.heap j).next
  /-- dead nodes stay dead -/
  stable : ∀ j, j < s.heap.length → Used s' j → Used s j
  /-- a node that leaves the live chain of `k` keeps value and `next` in this step, and dies — or (at
  the forwarding) becomes foreign, and then no node from it on has key `k` -/
  leave : ∀ c ∈ LC s k, c ∉ LC s' k →
    (nodeAt s'.heap c).val = (nodeAt s.heap c).val ∧ (nodeAt s'.heap c).next = (nodeAt s.heap c).next ∧
    (¬ Used s' c ∨ (Foreign s' k c ∧ ∀ j ∈ LC s k, ¬ List.Sublist [j, c] (LC s k) → (nodeAt s.heap j).key ≠ k))
  /-- a node in front of a node that stays is an old predecessor, has the key of one, or has a key that
  is not on the old chain -/
  before : ∀ c ∈ LC s k, c ∈ LC s' k → ∀ i, List.Sublist [i, c] (LC s' k) →
    (∃ i0, List.Sublist [i0, c] (LC s k) ∧ (nodeAt s.heap i0).key = (nodeAt s'.heap i).key) ∨
    (∀ i0 ∈ LC s k, (nodeAt s.heap i0).key ≠ (nodeAt s'.heap i).key)
  /-- the value of a node with key `k` is stored only while it is (and stays) live for `k` -/
  valchg : ∀ j, j < s.heap.length → (nodeAt s'.heap j).val ≠ (nodeAt s.heap j).val →
    (nodeAt s.heap j).key = k → j ∈ LC s' k
  /-- a foreign node stays foreign or dies, keeping its `next` -/
  foreign : ∀ c, Foreign s k c → Foreign s' k c ∨
    (¬ Used s' c ∧ (nodeAt s'.heap c).next = (nodeAt s.heap c).next)

/-! ## lock-protocol readers -/

/-- `b` is in some cell -/
def InCell (s : State) (b : Nat) : Prop := ∃ id, cellAt s id = .tree b

/-- the tree of `TreeBin` `b` justifies a lookup of `k` invoked at `inv` -/
def TreeOK (A : Nat → KSt) (k inv : Nat) (s : State) (b : Nat) : Prop :=
  cellAt s (liveId s k) = .tree b ∨
  (¬ InCell s b ∧ (binAt s.tbins b).writer = true) ∨
  ∃ τ, inv ≤ τ ∧ τ ≤ s.now ∧ A τ = absTree s b k

/-! ## what the program counter of a reader knows -/

def RdOK (A : Nat → KSt) (k inv : Nat) (s : State) : Pc → Prop
  | .rNode cur => Good A k inv s cur
  | .rFirst b => Good A k inv s (binAt s.tbins b).first ∧ TreeOK A k inv s b
  | .lFirst b => Good A k inv s (binAt s.tbins b).first
  | .rState b cur => Good A k inv s cur ∧ TreeOK A k inv s b
  | .rLin b c => Good A k inv s (some c) ∧ TreeOK A k inv s b
  | .rCas b c _ => Good A k inv s (some c) ∧ TreeOK A k inv s b
  | .rTree b => TreeOK A k inv s b
  | .rRelease _ none => AbsWit A inv s.now
  | .rRelease _ (some i) => ValWit A k inv s.now s.heap i
  | .rVal i => ValWit A k inv s.now s.heap i
  | .lNode cur => Good A k inv s cur
  | _ => True

/-! ## the ghost invariant -/

structure GInv (k : Nat) (s : State) (A : Nat → KSt) (pt : Nat → Nat) : Prop where
  h0 : A 0 = none
  hA : A s.now = absOf s k
  calls : ∀ c ∈ callsOnExt s k, CallOK A pt c
  stab : ∀ τ, 1 ≤ τ → τ ≤ s.now → A τ ≠ A (τ - 1) →
    ∃ c ∈ callsOnExt s k, isRead c.op = false ∧ pt c.inv = τ
  inj : ∀ c ∈ callsOnExt s k, ∀ d ∈ callsOnExt s k, isRead c.op = false → isRead d.op = false →
    pt c.inv = pt d.inv → c.inv = d.inv
  readers : ∀ (t : Nat) (l : Local) (p : Pending), s.threads[t]? = some l →
    l.call = some p → p.key = k → RdOK A k p.inv s l.pc


/-! ## what every transition has to establish (`Lemmas/BinGFacts.lean`) -/

/-- `b` is in a cell a lookup can end in -/
def LiveBin (s : State) (b : Nat) : Prop := ∃ k, cellAt s (liveId s k) = .tree b

structure Eff (s s' : State) : Prop where
  inv : Inv s'
  kstep : ∀ k, KStep s s' k
  first : ∀ b, b < s.tbins.length → (binAt s'.tbins b).first ≠ (binAt s.tbins b).first → LiveBin s b ∧ LiveBin s' b
  /-- the tree content of a `TreeBin` for `k` changes only while the bin is (and stays) in the live cell of `k` -/
  tree : ∀ b k, b < s.tbins.length → absTree s' b k ≠ absTree s b k →
    cellAt s (liveId s k) = .tree b ∧ cellAt s' (liveId s' k) = .tree b
  /-- a `TreeBin` that leaves the live cell of `k` is untreeified (dead, write lock held for ever) or
  transferred (then its tree shows the abstract state) -/
  live : ∀ b k, cellAt s (liveId s k) = .tree b → cellAt s' (liveId s' k) = .tree b ∨
    (¬ InCell s' b ∧ (binAt s'.tbins b).writer = true) ∨ absTree s' b k = absOf s' k
  dead : ∀ b, b < s.tbins.length → ¬ InCell s b → ¬ PrivBin s b →
    ¬ InCell s' b ∧ ((binAt s.tbins b).writer = true → (binAt s'.tbins b).writer = true)

end Flurry.Proto.BinGNP
