import Flurry.Lemmas.BinGNDrainCalm
/-! # Proto/BinGN, termination: every transition is calm or disturbing (port of `Lemmas/BinGDrainStep.lean`)

`stepN_effect`: every transition of a thread that is not `idle` is
* *calm* (`CalmEff`): the `View` and the heap length are unchanged, the thread's calm-step measure `pmV`
  strictly decreases, its `daV` and `growV` do not increase; or
* *disturbing* (`DistEff`): the thread's `daV` decreases by at least one; the heap keeps its length, or
  the thread's `growV` decreases by one and the heap length `n` becomes at most `4 * (n + 1) - 1`; the `WAITER` bit
  of a `TreeBin` is cleared only by the holder of its mutex.
New: the stores of the resizing thread (`Uv_putCell_moved`: forwarding a cell takes one off the count `Uv`;
`mvOf_putCell_other`: the child stores go to generation `cur + 1`). -/
namespace Flurry.Proto.BinGNP
open Flurry.Lin
open Flurry.Proto.BinK (nodeAt binAt lockSet isInsert NextOK nodeAt_of_some nodeAt_modify binAt_modify
  binAt_modify_self binAt_append_left copyChain_eq copiesOf copiesOf_length)

/-! ## sizes of the stores -/

theorem chainFrom_length_le (heap : List NodeS) : ∀ (fuel : Nat) (st : Option Nat),
    (chainFrom heap fuel st).length ≤ fuel
  | 0, _ => by simp [Flurry.Proto.BinK.chainFrom]
  | fuel + 1, none => by simp [Flurry.Proto.BinK.chainFrom]
  | fuel + 1, some i => by
    unfold Flurry.Proto.BinK.chainFrom
    split
    · simp
    · have := chainFrom_length_le heap fuel
      simp only [List.length_cons]
      rename_i n _
      have := this n.next
      omega

theorem chainOfBin_length_le (s : State) (b : Nat) : (chainOfBin s b).length ≤ s.heap.length :=
  chainFrom_length_le _ _ _

theorem copyChain_length (heap : List NodeS) (c : List Nat) (mk : NodeS → Option Nat → NodeS) :
    (copyChain heap c mk).1.length = heap.length + c.length := by
  rw [copyChain_eq]
  simp only [List.length_append, copiesOf_length]

theorem storeAt_heap_length (s : State) (tab : Nat) (p : Pending) (pred hit hnext : Option Nat) :
    (storeAt s tab p pred hit hnext).1.heap.length ≤ s.heap.length + 1 := by
  unfold storeAt
  cases p.op <;> cases hit <;> cases pred <;>
    simp only [setNode, setCell_heap, List.length_modify, List.length_append, List.length_singleton] <;> omega

theorem storeAt_tbins (s : State) (tab : Nat) (p : Pending) (pred hit hnext : Option Nat) :
    (storeAt s tab p pred hit hnext).1.tbins = s.tbins := by
  unfold storeAt
  cases p.op <;> cases hit <;> cases pred <;> simp only [setNode, setCell_tbins]

theorem unlinkOf_heap_length (s : State) (b i : Nat) : (unlinkOf s b i).heap.length = s.heap.length := by
  unfold unlinkOf
  split
  · show (List.modify _ _ _).length = _
    rw [List.length_modify]
  · rfl

theorem unlinkOf_waiter (s : State) (b i c : Nat) : (binAt (unlinkOf s b i).tbins c).waiter = (binAt s.tbins c).waiter := by
  unfold unlinkOf
  split
  · rfl
  · show (binAt (List.modify _ _ _) c).waiter = _
    rw [binAt_modify]; split <;> rfl

theorem untreeifyOf_heap_length (s : State) (tab : Nat) (k b : Nat) :
    (untreeifyOf s tab k b).heap.length ≤ 2 * s.heap.length := by
  unfold untreeifyOf
  rw [setCell_heap]
  dsimp only
  rw [copyChain_length]
  have := chainOfBin_length_le s b
  omega

theorem untreeifyOf_tbins (s : State) (tab : Nat) (k b : Nat) : (untreeifyOf s tab k b).tbins = s.tbins := by
  unfold untreeifyOf
  rw [setCell_tbins]

theorem buildOf_heap_length (s : State) (h : Nat) : (buildOf s h).heap.length ≤ 2 * s.heap.length := by
  unfold buildOf
  dsimp only
  rw [copyChain_length]
  have := chainFrom_length_le s.heap s.heap.length (some h)
  omega

theorem foldl_splitStep_length (bit : Nat → Bool) : ∀ (l : List Nat) (acc : List NodeS × Option Nat × Option Nat),
    (l.foldl (splitStep bit) acc).1.length = acc.1.length + l.length
  | [], acc => rfl
  | i :: l, acc => by
    simp only [List.foldl_cons, List.length_cons]
    rw [foldl_splitStep_length bit l]
    have : (splitStep bit acc i).1.length = acc.1.length + 1 := by
      unfold splitStep
      split <;> simp
    omega

theorem xsplitOf_heap_length (s : State) (h : Nat) : (xsplitOf s h).1.length ≤ 2 * s.heap.length := by
  unfold xsplitOf
  dsimp only
  rw [splitBinB_eq, foldl_splitStep_length]
  have h1 := chainFrom_length_le s.heap s.heap.length (some h)
  rw [List.length_take]
  show s.heap.length + _ ≤ _
  omega

theorem splitSide_size (s : State) (b : Nat) (c : List Nat) (small reuse : Bool) :
    (splitSide s b c small reuse).1.heap.length ≤ s.heap.length + c.length ∧
    ∃ ext, (splitSide s b c small reuse).1.tbins = s.tbins ++ ext := by
  unfold splitSide
  split
  · exact ⟨by dsimp only; omega, [], by simp⟩
  · split
    · rw [copyChain_eq]
      dsimp only
      refine ⟨?_, [], by simp⟩
      simp only [List.length_append, copiesOf_length]; omega
    · split
      · exact ⟨by dsimp only; omega, [], by simp⟩
      · simp only [copyChain_eq]
        refine ⟨?_, _, rfl⟩
        simp only [List.length_append, copiesOf_length]; omega

theorem ysplitOf_size (s : State) (b : Nat) (small small2 : Bool) :
    (ysplitOf s b small small2).1.heap.length ≤ 3 * s.heap.length ∧
    ∃ ext, (ysplitOf s b small small2).1.tbins = s.tbins ++ ext := by
  unfold ysplitOf
  dsimp only
  obtain ⟨h1, e1, t1⟩ := splitSide_size s b (lowOf s b) small (highOf s b).isEmpty
  obtain ⟨h2, e2, t2⟩ := splitSide_size (splitSide s b (lowOf s b) small (highOf s b).isEmpty).1 b (highOf s b) small2
    (lowOf s b).isEmpty
  have hc := chainOfBin_length_le s b
  have hlo : (lowOf s b).length ≤ (chainOfBin s b).length := List.length_filter_le _ _
  have hhi : (highOf s b).length ≤ (chainOfBin s b).length := List.length_filter_le _ _
  refine ⟨by omega, e1 ++ e2, ?_⟩
  rw [t2, t1, List.append_assoc]

/-! ## the forwarded cells of generation `cur` under the stores of the resizing thread -/

theorem U1_congr {v v' : View} (hc : v'.cur = v.cur) (hm : mvOf v' = mvOf v) (j : Nat) :
    U1 v' j = U1 v j ∧ Uv v' = Uv v := by
  unfold U1 Uv umv
  rw [hc, hm]
  exact ⟨rfl, rfl⟩

theorem cellAt_of_tabs {X s : State} (hX : X.tabs = s.tabs) (id : Cid) : cellAt X id = cellAt s id := by
  unfold cellAt Flurry.Proto.BinGN.cellAt; rw [hX]

/-- forwarding cell `(cur, j)`, which was not forwarded, takes one cell off the count -/
theorem Uv_putCell_moved {s : State} (I : Inv s) (X : State) (hX : X.tabs = s.tabs) (hXc : X.cur = s.cur) {j : Nat}
    (hj : j < 2 ^ s.cur) (hnm : cellAt s (s.cur, j) ≠ .moved) :
    Uv (viewOf (putCell X s.cur j .moved)) = U1 (viewOf s) j := by
  have hu : umv (viewOf s) j = true := by
    show (decide (j < 2 ^ s.cur) && !(cellAt s (s.cur, j) == .moved)) = true
    simp [hj, hnm]
  have h1 := U1_add_one hu
  have hlen := I.rsz.len
  obtain ⟨row, hrow, hrl⟩ := I.rsz.row_of_lt (g := s.cur) (by omega)
  have hcell : ∀ i, cellAt (putCell X s.cur j .moved) (s.cur, i) = if i = j then .moved else cellAt s (s.cur, i) := by
    intro i
    rw [cellAt_putCell X .moved (by rw [hX]; exact hrow) (by rw [hrl]; exact hj), cellAt_of_tabs hX]
    by_cases hi : i = j
    · rw [if_pos hi, if_pos (by rw [hi])]
    · rw [if_neg hi, if_neg (fun e => hi (Prod.mk.inj e).2)]
  have : Uv (viewOf (putCell X s.cur j .moved)) + 1 = Uv (viewOf s) := by
    show cntU (mvOf (viewOf (putCell X s.cur j .moved))) (2 ^ X.cur) + 1 = cntU (mvOf (viewOf s)) (2 ^ s.cur)
    rw [hXc]
    refine cntU_mark (j := j) ?_ ?_ ?_ _ hj
    · show (cellAt s (s.cur, j) == .moved) = false
      simp [hnm]
    · show (cellAt (putCell X s.cur j .moved) (X.cur, j) == .moved) = true
      rw [hXc, hcell, if_pos rfl]; rfl
    · intro i hi
      show (cellAt (putCell X s.cur j .moved) (X.cur, i) == .moved) = (cellAt s (s.cur, i) == .moved)
      rw [hXc, hcell, if_neg hi]
  omega

/-- a store into another generation leaves the forwarded cells of generation `cur` alone -/
theorem mvOf_putCell_other {s : State} (X : State) (hX : X.tabs = s.tabs) (hXc : X.cur = s.cur) {g : Nat}
    (hg : g ≠ s.cur) (j : Nat) (c : Cell) :
    (viewOf (putCell X g j c)).cur = (viewOf s).cur ∧ mvOf (viewOf (putCell X g j c)) = mvOf (viewOf s) := by
  refine ⟨hXc, ?_⟩
  funext i
  show (cellAt (putCell X g j c) (X.cur, i) == .moved) = (cellAt s (s.cur, i) == .moved)
  rw [cellAt_putCell_ne X c (by rw [hXc]; intro e; exact hg (Prod.mk.inj e).1.symm), cellAt_of_tabs hX, hXc]

/-- a store of a structure (not a marker) into a cell that is not forwarded leaves the forwarded cells alone -/
theorem mvOf_putCell_nm {s : State} (X : State) (hX : X.tabs = s.tabs) (hXc : X.cur = s.cur) {g j : Nat} {c : Cell}
    (hnm : cellAt s (g, j) ≠ .moved) (hc : c ≠ .moved) :
    (viewOf (putCell X g j c)).cur = (viewOf s).cur ∧ mvOf (viewOf (putCell X g j c)) = mvOf (viewOf s) := by
  refine ⟨hXc, ?_⟩
  funext i
  show (cellAt (putCell X g j c) (X.cur, i) == .moved) = (cellAt s (s.cur, i) == .moved)
  rw [hXc]
  by_cases hi : (s.cur, i) = (g, j)
  · rw [hi]
    have h2 : (cellAt s (g, j) == .moved) = false := by simp [hnm]
    rw [h2]
    rcases cellAt_putCell_self_or X g j c with h | h
    · rw [h]; simp [hc]
    · rw [h, cellAt_of_tabs hX]; exact h2
  · rw [cellAt_putCell_ne X c hi, cellAt_of_tabs hX]

theorem splitSide_tabs_cur (s : State) (b : Nat) (c : List Nat) (small reuse : Bool) :
    (splitSide s b c small reuse).1.tabs = s.tabs ∧ (splitSide s b c small reuse).1.cur = s.cur := by
  have h := splitSide_frame s b c small reuse
  exact ⟨by rw [h], by rw [h]⟩

theorem ysplitOf_tabs_cur (s : State) (b : Nat) (small small2 : Bool) :
    (ysplitOf s b small small2).1.tabs = s.tabs ∧ (ysplitOf s b small small2).1.cur = s.cur := by
  unfold ysplitOf
  dsimp only
  have h1 := splitSide_tabs_cur s b (lowOf s b) small (highOf s b).isEmpty
  have h2 := splitSide_tabs_cur (splitSide s b (lowOf s b) small (highOf s b).isEmpty).1 b (highOf s b) small2
    (lowOf s b).isEmpty
  exact ⟨h2.1.trans h1.1, h2.2.trans h1.2⟩

/-- a state with the same tables and table pointer has the same forwarded cells -/
theorem mvOf_of_tabs {s s' : State} (ht : s'.tabs = s.tabs) (hc : s'.cur = s.cur) :
    (viewOf s').cur = (viewOf s).cur ∧ mvOf (viewOf s') = mvOf (viewOf s) := by
  refine ⟨hc, ?_⟩
  funext i
  show (cellAt s' (s'.cur, i) == .moved) = (cellAt s (s.cur, i) == .moved)
  rw [cellAt_of_tabs ht, hc]

/-! ## the two kinds of transitions -/

structure CalmEff (L : Nat) (s s' : State) (t : Nat) (l l' : Local) : Prop where
  thr : s'.threads = s.threads.set t l'
  view : viewOf s' = viewOf s
  hlen : s'.heap.length = s.heap.length
  grow : growV (viewOf s) l' ≤ growV (viewOf s) l
  da : daV (viewOf s) l' ≤ daV (viewOf s) l
  pm : pmV L (viewOf s) l' < pmV L (viewOf s) l

structure DistEff (s s' : State) (t : Nat) (l l' : Local) : Prop where
  thr : s'.threads = s.threads.set t l'
  hlen : (s'.heap.length = s.heap.length ∧ growV (viewOf s') l' ≤ growV (viewOf s) l) ∨
    (s'.heap.length + 1 ≤ 4 * (s.heap.length + 1) ∧ growV (viewOf s') l' + 1 ≤ growV (viewOf s) l)
  da : daV (viewOf s') l' + 1 ≤ daV (viewOf s) l
  keep : ∀ b, b < s.tbins.length → (binAt s.tbins b).waiter = true →
    (binAt s'.tbins b).waiter = true ∨ holdsMutex l.pc = some b

/-- the `WAITER` bits are untouched -/
theorem keep_of_eq {s s' : State} {pc : Pc}
    (h : ∀ b, b < s.tbins.length → (binAt s'.tbins b).waiter = (binAt s.tbins b).waiter) :
    ∀ b, b < s.tbins.length → (binAt s.tbins b).waiter = true →
      (binAt s'.tbins b).waiter = true ∨ holdsMutex pc = some b :=
  fun b hb hw => Or.inl (by rw [h b hb]; exact hw)

/-- … one `TreeBin` gets new words `f x` whose `WAITER` bit is the old one or set -/
theorem keep_of_modify {s s' : State} {pc : Pc} {b0 : Nat} {f : TBin → TBin}
    (ht : s'.tbins = s.tbins.modify b0 f) (hf : ∀ x, x.waiter = true → (f x).waiter = true ∨ holdsMutex pc = some b0) :
    ∀ b, b < s.tbins.length → (binAt s.tbins b).waiter = true →
      (binAt s'.tbins b).waiter = true ∨ holdsMutex pc = some b := by
  intro b hb hw
  rw [ht, binAt_modify]
  split
  · rename_i h
    obtain ⟨rfl, _⟩ := h
    exact hf _ hw
  · exact Or.inl hw

set_option maxRecDepth 2000 in
/-- **every transition of a thread that is not `idle` is calm or disturbing** -/
theorem stepN_effect {s s' : State} {t : Nat} {l : Local} (I : Inv s) (hl : s.threads[t]? = some l)
    (hne : l.pc ≠ .idle) {L : Nat} (hL : s.heap.length ≤ L)
    (hpick : ∀ j, l.pc = .xNext → (∃ call, s'.threads[t]? = some ⟨.xCell j, call⟩) → umv (viewOf s) j = true)
    (hcas : ∀ b c r, l.pc = .rCas b c r → (∃ call, s'.threads[t]? = some ⟨.rState b (some c), call⟩) →
      casOk s b r = false)
    (hk : StepN s t l s') : ∃ l', CalmEff L s s' t l l' ∨ DistEff s s' t l l' := by
  have href := I.lock.refOK t l
  obtain ⟨pc, call⟩ := l
  have hself : ∀ {X : State} {l' : Local}, X.threads = s.threads → (setT X t l').threads[t]? = some l' := by
    intro X l' hX
    show (X.threads.set t l')[t]? = _
    rw [hX]; exact Flurry.Proto.BinK.get_set_self hl
  cases hk with
  | idle hpc => exact absurd hpc hne
  | maint k hpc => exact absurd hpc hne
  | resizeStart hpc hr => exact absurd hpc hne
  | invoke k op lo hpc => exact absurd hpc hne
  | move p pc' hp hc hm =>
    cases hc
    obtain ⟨_, hg, hd, hpm⟩ := hm.calm I.heap hL (fun b c r e => hcas b c r e (by
      subst e
      cases hm
      exact ⟨some p, hself rfl⟩))
    obtain ⟨hv, hln⟩ := view_of_lockKind (s' := setT (qst s hp s.tbins) t ⟨pc', some p⟩) hm.lockKind rfl rfl rfl rfl
    exact ⟨⟨pc', some p⟩, Or.inl ⟨rfl, hv, hln, hg, hd, hpm⟩⟩
  | bmove p pc' tb hc hm =>
    cases hc
    cases hm with
    | @rCasOk b c r _ _ _ =>
      refine ⟨⟨.rTree b, some p⟩, Or.inr ⟨rfl, Or.inl ⟨rfl, Nat.le_refl _⟩, ?_, ?_⟩⟩
      · show 1 + 1 ≤ 2
        omega
      · exact keep_of_modify (s' := setT (qst s s.heap _) t _) rfl (fun x hx => Or.inl hx)
    | @rRelVal b i _ =>
      refine ⟨⟨.rVal i, some p⟩, Or.inr ⟨rfl, Or.inl ⟨rfl, Nat.le_refl _⟩, ?_, ?_⟩⟩
      · show 0 + 1 ≤ 1
        omega
      · exact keep_of_modify (s' := setT (qst s s.heap _) t _) rfl (fun x hx => Or.inl hx)
    | @tMutex tab b hmx =>
      obtain ⟨hv, hln⟩ := view_of_mutex (s := s) (s' := setT (qst s s.heap (s.tbins.modify b (fun x => { x with mutex := some t }))) t
        ⟨.tCheck tab b, some p⟩) (b := b) (x := some t) rfl rfl rfl rfl
      refine ⟨⟨.tCheck tab b, some p⟩, Or.inl ⟨rfl, hv, hln, Nat.le_refl _, Nat.le_refl _, ?_⟩⟩
      show (if cellOf s tab p.key = .tree b then 9 else 2 + fresh s.tabs.length L tab) <
        (if cellOf s tab p.key = .tree b then 10 else 3 + fresh s.tabs.length L tab)
      split <;> omega
    | @lrTryOk tab b k res _ _ _ =>
      refine ⟨⟨afterLock tab b k res, some p⟩, Or.inr ⟨rfl, Or.inl ⟨rfl, ?_⟩, ?_, ?_⟩⟩
      · cases k <;> exact Nat.le_refl _
      · cases k
        · show 3 + 1 ≤ 5
          omega
        · show 3 + 1 ≤ 5
          omega
      · exact keep_of_modify (s' := setT (qst s s.heap _) t _) rfl (fun x hx => Or.inl hx)
    | @lrLoopOk tab b k res _ _ =>
      refine ⟨⟨afterLock tab b k res, some p⟩, Or.inr ⟨rfl, Or.inl ⟨rfl, ?_⟩, ?_, ?_⟩⟩
      · cases k <;> exact Nat.le_refl _
      · cases k
        · show 3 + 1 ≤ 4 + (if (binAt s.tbins b).waiter = true then 0 else 1)
          omega
        · show 3 + 1 ≤ 4 + (if (binAt s.tbins b).waiter = true then 0 else 1)
          omega
      · exact keep_of_modify (s' := setT (qst s s.heap _) t _) rfl (fun x hx => Or.inr rfl)
    | @lrLoopWait tab b k res hwt =>
      have hb : b < s.tbins.length := (href b hl rfl).1
      refine ⟨⟨.lrLoop tab b k res, some p⟩, Or.inr ⟨rfl, Or.inl ⟨rfl, Nat.le_refl _⟩, ?_, ?_⟩⟩
      · show 4 + (if (binAt (s.tbins.modify b (fun x => { x with waiter := true })) b).waiter = true then 0 else 1) + 1 ≤
          4 + (if (binAt s.tbins b).waiter = true then 0 else 1)
        rw [binAt_modify_self _ hb, hwt]
        simp
      · exact keep_of_modify (s' := setT (qst s s.heap _) t _) rfl (fun x hx => Or.inl rfl)
    | @unlockRoot tab b res =>
      refine ⟨⟨.tUnlockM tab b res false, some p⟩, Or.inr ⟨rfl, Or.inl ⟨rfl, Nat.le_refl _⟩, ?_, ?_⟩⟩
      · show 0 + 1 ≤ 1
        omega
      · exact keep_of_modify (s' := setT (qst s s.heap _) t _) rfl (fun x hx => Or.inr rfl)
    | @tUnlockMRetry tab b res =>
      obtain ⟨hv, hln⟩ := view_of_mutex (s := s) (s' := setT (qst s s.heap (s.tbins.modify b (fun x => { x with mutex := none }))) t
        ⟨.wCell tab, some p⟩) (b := b) (x := none) rfl rfl rfl rfl
      refine ⟨⟨.wCell tab, some p⟩, Or.inl ⟨rfl, hv, hln, Nat.le_refl _, Nat.le_refl _, ?_⟩⟩
      show fresh s.tabs.length L tab < 1 + fresh s.tabs.length L tab
      omega
  | kmove pc' hp hc hm =>
    cases hc
    obtain ⟨hg, hd, hpm⟩ := hm.calm (fun j e1 e2 => hpick j e1 ⟨none, by subst e2; exact hself rfl⟩) I.heap L
    obtain ⟨hv, hln⟩ := view_of_lockKind (s' := setT (qst s hp s.tbins) t ⟨pc', none⟩) hm.lockKind rfl rfl rfl rfl
    exact ⟨⟨pc', none⟩, Or.inl ⟨rfl, hv, hln, hg, hd, hpm⟩⟩
  | kbmove pc' tb hc hm =>
    cases hc
    obtain ⟨_, ⟨b, x, rfl⟩, hg, hd, hpm⟩ := hm.calm L
    obtain ⟨hv, hln⟩ := view_of_mutex (s := s) (s' := setT (qst s s.heap (s.tbins.modify b (fun y => { y with mutex := x }))) t
      ⟨pc', none⟩) (b := b) (x := x) rfl rfl rfl rfl
    exact ⟨⟨pc', none⟩, Or.inl ⟨rfl, hv, hln, hg, hd, hpm⟩⟩
  | fin p res hp hc hf =>
    cases hc
    obtain ⟨hv, hln⟩ := view_of_lockKind (s' := finish (qst s hp s.tbins) t p res) (t := t) hf.lockKind rfl rfl rfl rfl
    exact ⟨⟨.idle, none⟩, Or.inl ⟨rfl, hv, hln, Nat.zero_le _, Nat.zero_le _, hf.pm_pos L _ _⟩⟩
  | bfin p res tb hc hf =>
    cases hc
    cases hf with
    | @rRelNone b =>
      refine ⟨⟨.idle, none⟩, Or.inr ⟨rfl, Or.inl ⟨rfl, Nat.le_refl _⟩, ?_, ?_⟩⟩
      · show 0 + 1 ≤ 1
        omega
      · exact keep_of_modify (s' := finish (qst s s.heap _) t p _) rfl (fun x hx => Or.inl hx)
    | @rRelHas b i _ =>
      refine ⟨⟨.idle, none⟩, Or.inr ⟨rfl, Or.inl ⟨rfl, Nat.le_refl _⟩, ?_, ?_⟩⟩
      · show 0 + 1 ≤ 1
        omega
      · exact keep_of_modify (s' := finish (qst s s.heap _) t p _) rfl (fun x hx => Or.inl hx)
    | @tUnlockMFin tab b res =>
      obtain ⟨hv, hln⟩ := view_of_mutex (s := s) (s' := finish (qst s s.heap (s.tbins.modify b (fun x => { x with mutex := none }))) t
        p res) (b := b) (x := none) rfl rfl rfl rfl
      refine ⟨⟨.idle, none⟩, Or.inl ⟨rfl, hv, hln, Nat.zero_le _, Nat.zero_le _, ?_⟩⟩
      show 0 < 1
      omega
  | cas p tab v vi hc hpc he hop =>
    cases hpc
    refine ⟨⟨.idle, none⟩, Or.inr ⟨?_, Or.inr ⟨?_, ?_⟩, ?_, ?_⟩⟩
    · skip
      rfl
    · skip
      show (s.heap ++ [_]).length + 1 ≤ _
      simp only [List.length_append, List.length_singleton]; omega
    · show 0 + 1 ≤ 1
      omega
    · show 0 + 1 ≤ 5
      omega
    · refine keep_of_eq (fun b _ => ?_)
      rfl
  | store p tab h pred hit hnext hc hpc =>
    cases hpc
    refine ⟨⟨.wUnlock tab h (storeAt (tick s) tab p pred hit hnext).2 false, call⟩, Or.inr ⟨?_, Or.inr ⟨?_, ?_⟩, ?_, ?_⟩⟩
    · show (storeAt (tick s) tab p pred hit hnext).1.threads.set t _ = _
      rw [(storeAt_frame (tick s) tab p pred hit hnext).1]; rfl
    · have := storeAt_heap_length (tick s) tab p pred hit hnext
      show (storeAt (tick s) tab p pred hit hnext).1.heap.length + 1 ≤ 4 * (s.heap.length + 1)
      have h2 : (tick s).heap.length = s.heap.length := rfl
      omega
    · show 0 + 1 ≤ 1
      omega
    · show 0 + 1 ≤ 1
      omega
    · refine keep_of_eq (fun b _ => ?_)
      show (binAt (storeAt (tick s) tab p pred hit hnext).1.tbins b).waiter = _
      rw [storeAt_tbins]; rfl
  | tval p tab b i v res hc hpc =>
    cases hpc
    refine ⟨⟨.tUnlockM tab b res false, call⟩, Or.inr ⟨rfl, Or.inl ⟨?_, Nat.le_refl _⟩, ?_, keep_of_eq (fun _ _ => rfl)⟩⟩
    · show (List.modify _ _ _).length = _
      rw [List.length_modify]
      rfl
    · show 0 + 1 ≤ 1
      omega
  | prepend p tab b v vi hc hpc hop =>
    cases hpc
    refine ⟨⟨.tTreeLinkLocked tab b s.heap.length, call⟩, Or.inr ⟨rfl, Or.inr ⟨?_, ?_⟩, ?_, ?_⟩⟩
    · show (s.heap ++ [_]).length + 1 ≤ _
      simp only [List.length_append, List.length_singleton]; omega
    · show 0 + 1 ≤ 1
      omega
    · show 2 + 1 ≤ 3
      omega
    · refine keep_of_eq (fun c _ => ?_)
      show (binAt (List.modify _ _ _) c).waiter = _
      rw [binAt_modify]; split <;> rfl
  | treeLink p tab b x hc hpc =>
    cases hpc
    refine ⟨⟨.tUnlockRoot tab b .none, call⟩, Or.inr ⟨rfl, Or.inl ⟨?_, Nat.le_refl _⟩, ?_, keep_of_eq (fun _ _ => rfl)⟩⟩
    · show (List.modify _ _ _).length = _
      rw [List.length_modify]
      rfl
    · show 1 + 1 ≤ 2
      omega
  | unlink p tab b i res small hc hpc =>
    cases hpc
    refine ⟨⟨if small then .tUntreeify tab b res else .tRestructure tab b i res, call⟩,
      Or.inr ⟨?_, Or.inl ⟨?_, ?_⟩, ?_, ?_⟩⟩
    · show (unlinkOf (tick s) b i).threads.set t _ = _
      rw [(unlinkOf_frame (tick s) b i).1]; rfl
    · exact unlinkOf_heap_length (tick s) b i
    · cases small
      · exact Nat.zero_le _
      · exact Nat.le_refl _
    · cases small
      · show 2 + 1 ≤ 3
        omega
      · show 1 + 1 ≤ 3
        omega
    · exact keep_of_eq (fun c _ => unlinkOf_waiter (tick s) b i c)
  | untree p tab b i res hc hpc =>
    cases hpc
    refine ⟨⟨.tUnlockRoot tab b res, call⟩, Or.inr ⟨rfl, Or.inl ⟨?_, Nat.le_refl _⟩, ?_, keep_of_eq (fun _ _ => rfl)⟩⟩
    · show (List.modify _ _ _).length = _
      rw [List.length_modify]
      rfl
    · show 1 + 1 ≤ 2
      omega
  | untreeify p tab b res hc hpc =>
    cases hpc
    refine ⟨⟨.tUnlockM tab b res false, call⟩, Or.inr ⟨?_, Or.inr ⟨?_, ?_⟩, ?_, ?_⟩⟩
    · show (untreeifyOf (tick s) tab p.key b).threads.set t _ = _
      rw [(untreeifyOf_frame (tick s) tab p.key b).1]; rfl
    · have := untreeifyOf_heap_length (tick s) tab p.key b
      show (untreeifyOf (tick s) tab p.key b).heap.length + 1 ≤ 4 * (s.heap.length + 1)
      have h2 : (tick s).heap.length = s.heap.length := rfl
      omega
    · show 0 + 1 ≤ 1
      omega
    · show 0 + 1 ≤ 1
      omega
    · refine keep_of_eq (fun c _ => ?_)
      show (binAt (untreeifyOf (tick s) tab p.key b).tbins c).waiter = _
      rw [untreeifyOf_tbins]; rfl
  | kbuild tab k h hc hpc =>
    cases hpc
    refine ⟨⟨.kStore tab k h s.tbins.length, call⟩, Or.inr ⟨rfl, Or.inr ⟨?_, ?_⟩, ?_, ?_⟩⟩
    · have := buildOf_heap_length (tick s) h
      show (buildOf (tick s) h).heap.length + 1 ≤ 4 * (s.heap.length + 1)
      have h2 : (tick s).heap.length = s.heap.length := rfl
      omega
    · show 0 + 1 ≤ 1
      omega
    · show 1 + 1 ≤ 2
      omega
    · refine keep_of_eq (fun c hc' => ?_)
      show (binAt (s.tbins ++ [_]) c).waiter = _
      rw [binAt_append_left _ hc']
  | kstore tab k h b hc hpc =>
    cases hpc
    refine ⟨⟨.kUnlock h, call⟩, Or.inr ⟨?_, Or.inl ⟨?_, Nat.le_refl _⟩, ?_, ?_⟩⟩
    · rfl
    · rfl
    · show 0 + 1 ≤ 1
      omega
    · refine keep_of_eq (fun c _ => ?_)
      rfl
  | xcasMoved j hc hpc h0 =>
    cases hpc
    have hj := I.rsz.idx t _ j hl rfl
    have hnm : cellAt s (s.cur, j) ≠ .moved := by rw [h0]; intro h; cases h
    have hU := Uv_putCell_moved I (setT (tick s) t ⟨.xNext, call⟩) rfl rfl hj hnm
    refine ⟨⟨.xNext, call⟩, Or.inr ⟨rfl, Or.inl ⟨rfl, ?_⟩, ?_, keep_of_eq (fun _ _ => rfl)⟩⟩
    · show Uv (viewOf (putCell (setT (tick s) t ⟨.xNext, call⟩) s.cur j .moved)) ≤ U1 (viewOf s) j + 1
      rw [hU]; omega
    · show 4 * Uv (viewOf (putCell (setT (tick s) t ⟨.xNext, call⟩) s.cur j .moved)) + 1 + 1 ≤ 4 * U1 (viewOf s) j + 5
      rw [hU]; omega
  | xbuild j h hc hpc =>
    cases hpc
    have hU := (U1_congr (mvOf_of_tabs (s := s) (s' := setT (qst s (xsplitOf s h).1 s.tbins) t
      ⟨.xStoreLow j (.inl h) (xsplitOf s h).2.1 (xsplitOf s h).2.2, call⟩) rfl rfl).1
      (mvOf_of_tabs (s := s) (s' := setT (qst s (xsplitOf s h).1 s.tbins) t
      ⟨.xStoreLow j (.inl h) (xsplitOf s h).2.1 (xsplitOf s h).2.2, call⟩) rfl rfl).2 j).1
    refine ⟨⟨.xStoreLow j (.inl h) (xsplitOf s h).2.1 (xsplitOf s h).2.2, call⟩,
      Or.inr ⟨rfl, Or.inr ⟨?_, ?_⟩, ?_, keep_of_eq (fun _ _ => rfl)⟩⟩
    · have := xsplitOf_heap_length s h
      show (xsplitOf s h).1.length + 1 ≤ 4 * (s.heap.length + 1)
      omega
    · show U1 (viewOf _) j + 1 ≤ U1 (viewOf s) j + 1
      rw [hU]; exact Nat.le_refl _
    · show 4 * U1 (viewOf _) j + 4 + 1 ≤ 4 * U1 (viewOf s) j + 5
      rw [hU]; omega
  | ybuild j b small small2 hc hpc =>
    cases hpc
    obtain ⟨hsz, ext, htb⟩ := ysplitOf_size (tick s) b small small2
    have htc := ysplitOf_tabs_cur (tick s) b small small2
    have hmv := mvOf_of_tabs (s := s) (s' := setT (ysplitOf (tick s) b small small2).1 t
      ⟨.xStoreLow j (.inr b) (ysplitOf (tick s) b small small2).2.1 (ysplitOf (tick s) b small small2).2.2, call⟩)
      htc.1 htc.2
    have hU := (U1_congr hmv.1 hmv.2 j).1
    refine ⟨⟨.xStoreLow j (.inr b) (ysplitOf (tick s) b small small2).2.1 (ysplitOf (tick s) b small small2).2.2, call⟩,
      Or.inr ⟨?_, Or.inr ⟨?_, ?_⟩, ?_, ?_⟩⟩
    · show (ysplitOf (tick s) b small small2).1.threads.set t _ = _
      rw [(ysplitOf_frame (tick s) b small small2).1]; rfl
    · show (ysplitOf (tick s) b small small2).1.heap.length + 1 ≤ 4 * (s.heap.length + 1)
      have h2 : (tick s).heap.length = s.heap.length := rfl
      omega
    · show U1 (viewOf _) j + 1 ≤ U1 (viewOf s) j + 1
      rw [hU]; exact Nat.le_refl _
    · show 4 * U1 (viewOf _) j + 4 + 1 ≤ 4 * U1 (viewOf s) j + 5
      rw [hU]; omega
    · refine keep_of_eq (fun c hc' => ?_)
      show (binAt (ysplitOf (tick s) b small small2).1.tbins c).waiter = _
      rw [htb]
      have : (tick s).tbins = s.tbins := rfl
      rw [this, binAt_append_left _ hc']
  | xstoreLow j unl lo hi hc hpc =>
    cases hpc
    have hmv := mvOf_putCell_other (s := s) (setT (tick s) t ⟨.xStoreHigh j unl hi, call⟩) rfl rfl
      (g := s.cur + 1) (by omega) j lo
    have hU := (U1_congr hmv.1 hmv.2 j).1
    refine ⟨⟨.xStoreHigh j unl hi, call⟩, Or.inr ⟨rfl, Or.inl ⟨rfl, ?_⟩, ?_, keep_of_eq (fun _ _ => rfl)⟩⟩
    · show U1 (viewOf _) j ≤ U1 (viewOf s) j
      rw [hU]; exact Nat.le_refl _
    · show 4 * U1 (viewOf _) j + 3 + 1 ≤ 4 * U1 (viewOf s) j + 4
      rw [hU]; omega
  | xstoreHigh j unl hi hc hpc =>
    cases hpc
    have hmv := mvOf_putCell_other (s := s) (setT (tick s) t ⟨.xStoreMoved j unl, call⟩) rfl rfl
      (g := s.cur + 1) (by omega) (j + 2 ^ s.cur) hi
    have hU := (U1_congr hmv.1 hmv.2 j).1
    refine ⟨⟨.xStoreMoved j unl, call⟩, Or.inr ⟨rfl, Or.inl ⟨rfl, ?_⟩, ?_, keep_of_eq (fun _ _ => rfl)⟩⟩
    · show U1 (viewOf _) j ≤ U1 (viewOf s) j
      rw [hU]; exact Nat.le_refl _
    · show 4 * U1 (viewOf _) j + 2 + 1 ≤ 4 * U1 (viewOf s) j + 3
      rw [hU]; omega
  | xstoreMoved j unl hc hpc =>
    cases hpc
    have hj := I.rsz.idx t _ j hl rfl
    have hnm : cellAt s (s.cur, j) ≠ .moved := I.rsz.pre t _ j hl rfl rfl
    have hU := Uv_putCell_moved I (setT (tick s) t ⟨.xUnlock unl, call⟩) rfl rfl hj hnm
    refine ⟨⟨.xUnlock unl, call⟩, Or.inr ⟨rfl, Or.inl ⟨rfl, ?_⟩, ?_, keep_of_eq (fun _ _ => rfl)⟩⟩
    · show Uv (viewOf (putCell (setT (tick s) t ⟨.xUnlock unl, call⟩) s.cur j .moved)) ≤ U1 (viewOf s) j
      rw [hU]; exact Nat.le_refl _
    · show 4 * Uv (viewOf (putCell (setT (tick s) t ⟨.xUnlock unl, call⟩) s.cur j .moved)) + 1 + 1 ≤ 4 * U1 (viewOf s) j + 2
      rw [hU]; omega
  | xcommit hc hpc =>
    cases hpc
    refine ⟨⟨.idle, call⟩, Or.inr ⟨rfl, Or.inl ⟨rfl, Nat.le_refl _⟩, ?_, keep_of_eq (fun _ _ => rfl)⟩⟩
    show 0 + 1 ≤ 1
    omega

end Flurry.Proto.BinGNP
