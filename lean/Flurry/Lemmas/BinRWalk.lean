import Flurry.Lemmas.BinRStep
/-! # Proto/BinW: the remembered positions of a walking writer are the current ones (C01)

(C13 port of `Flurry/Lemmas/BinWWalk.lean` to the per-key operations of `Flurry/Lin2.lean`, i.e. with `retain`'s conditional removal `condRm`; below, "`Proto/Bin`" / `Base.` is `Flurry.Proto.BinR.Base` (`Proto/BinRBase.lean`) and "`Proto/BinW`" is `Flurry.Proto.BinR` (`Proto/BinR.lean`), which in addition has the `retain` visit steps.)

* `Base.stepK_frozen`: while some thread is a validated writer (`wWrite h`), no *other* thread changes
  the chain, a key or a `next` pointer (the lock-free CAS needs an empty bin, a second validated
  writer is excluded by the mutex of the head node, lock/unlock only touch lock words).
* `Walk B key pred cur`: the nodes walked over are a prefix `l1` of the current chain without the
  key, `pred` is the last of them and `cur` is the head of the rest.
* **`storeAt_eq_writerStore`**: under `Walk`, storing through the remembered positions is exactly
  `Base.writerStore` on the current state. -/
namespace Flurry.Proto.BinR.Base
open Flurry.Lin2

/-- what a transition of another thread leaves alone while a validated writer exists -/
structure Frozen (s s' : State) : Prop where
  chain : chain s' = chain s
  key : ∀ j, j < s.heap.length → (nodeAt s'.heap j).key = (nodeAt s.heap j).key
  next : ∀ j, j < s.heap.length → (nodeAt s'.heap j).next = (nodeAt s.heap j).next

theorem Frozen.of_same {s s' : State} (hh : s'.heap = s.heap) (hd : s'.head = s.head) : Frozen s s' :=
  ⟨chain_congr hh hd, fun _ _ => by rw [hh], fun _ _ => by rw [hh]⟩

theorem Frozen.of_lock {s s' : State} (H : HInv s) {i : Nat} {x : Option Nat}
    (hh : s'.heap = s.heap.modify i (fun m => { m with lock := x })) (hd : s'.head = s.head) :
    Frozen s s' := by
  refine ⟨(modify_chain H hh hd (lock_frame x)).2.2, ?_, ?_⟩
  · intro j _; rw [hh, nodeAt_modify]; split <;> rfl
  · intro j _; rw [hh, nodeAt_modify]; split <;> rfl

/-- while thread `t1` is a validated writer, the transitions of the other threads leave chain, keys
and `next` pointers alone -/
theorem stepK_frozen {s s' : State} {t t1 : Nat} {l l1 : Local} {h : Nat} (H : HInv s) (L : LInv s)
    (hl : s.threads[t]? = some l) (hk : StepK s t l s') (hne : t1 ≠ t)
    (hl1 : s.threads[t1]? = some l1) (hpc1 : l1.pc = .wWrite h) : Frozen s s' := by
  have hhd := L.validated t1 l1 h hl1 hpc1
  cases hk with
  | idle hpc => exact .of_same rfl rfl
  | invoke k op hpc => exact .of_same rfl rfl
  | move p pc' hp hm => exact .of_same rfl rfl
  | lockMove p h' x pc' hp hm => exact .of_lock H rfl rfl
  | fin p res hp hf => exact .of_same rfl rfl
  | cas p v vi hp hpc hh hop => rw [hh] at hhd; cases hhd
  | write p h' hp hpc =>
    exfalso
    have h2 := L.validated t l h' hl hpc
    rw [hhd] at h2; cases h2
    have h3 := (L.lockHeld t l h hl (by rw [hpc]; exact rfl)).2
    have h4 := (L.lockHeld t1 l1 h hl1 (by rw [hpc1]; exact rfl)).2
    rw [h3] at h4; cases h4
    exact hne rfl
  | unlockFin p h' res hp hpc => exact .of_lock H rfl rfl

end Flurry.Proto.BinR.Base

namespace Flurry.Proto.BinR
open Flurry.Lin2

/-- the walk of a validated writer looking for `key`, seen on the current chain: the nodes passed
are the prefix `l1` (none of them has the key), `pred` is the last of them, `cur` the next node -/
def Walk (B : Base.State) (key : Nat) (pred cur : Option Nat) : Prop :=
  ∃ l1 l2, Base.chain B = l1 ++ l2 ∧ cur = l2.head? ∧ pred = l1.getLast? ∧
    ∀ j ∈ l1, (Base.nodeAt B.heap j).key ≠ key

theorem Walk.start {B : Base.State} (H : Base.HInv B) {h : Nat} (hh : B.head = some h) (key : Nat) :
    Walk B key none (some h) := by
  obtain ⟨l, hl⟩ := Base.chain_head_some H hh
  exact ⟨[], h :: l, by rw [hl]; rfl, rfl, rfl, fun j hj => by cases hj⟩

theorem Walk.next {B : Base.State} (H : Base.HInv B) {key : Nat} {pred : Option Nat} {c : Nat} {n : Base.NodeS}
    (w : Walk B key pred (some c)) (hn : B.heap[c]? = some n) (hk : n.key ≠ key) :
    Walk B key (some c) n.next := by
  obtain ⟨l1, l2, hch, hcur, -, hkeys⟩ := w
  cases l2 with
  | nil => cases hcur
  | cons c' l2' =>
    cases hcur
    have hchain := Base.chain_isChain H
    rw [hch] at hchain
    obtain ⟨b, -, h2⟩ := hchain.split
    obtain ⟨-, n', hn', hs⟩ := Base.IsSeg.cons_iff.1 h2
    rw [hn] at hn'; cases hn'
    refine ⟨l1 ++ [c], l2', by rw [hch]; simp, ?_, by simp, ?_⟩
    · cases l2' with
      | nil => exact Base.IsSeg.nil_iff.1 hs
      | cons d l3 => exact (Base.IsSeg.cons_iff.1 hs).1
    · intro j hj
      rcases List.mem_append.1 hj with hj | hj
      · exact hkeys j hj
      · have : j = c := by simpa using hj
        subst this
        rw [Base.nodeAt_of_some hn]; exact hk

theorem Walk.congr {B B' : Base.State} (H : Base.HInv B) (f : Base.Frozen B B') {key : Nat} {pred cur : Option Nat}
    (w : Walk B key pred cur) : Walk B' key pred cur := by
  obtain ⟨l1, l2, hch, hcur, hpred, hkeys⟩ := w
  refine ⟨l1, l2, by rw [f.chain, hch], hcur, hpred, ?_⟩
  intro j hj
  have hjc : j ∈ Base.chain B := by rw [hch]; exact List.mem_append_left _ hj
  rw [f.key j (Base.chain_lt H hjc)]
  exact hkeys j hj

/-- the walk invariant of a program counter -/
def WalkOK (B : Base.State) (key : Nat) : Pc → Prop
  | .wFind _ pred cur => Walk B key pred cur
  | .wStore _ pred hit hnext => Walk B key pred hit ∧
      ∀ i, hit = some i → (Base.nodeAt B.heap i).key = key ∧ hnext = (Base.nodeAt B.heap i).next
  | _ => True

theorem WalkOK.of_not_walk {B : Base.State} {key : Nat} {pc : Pc} (h : ¬ walkPc pc) : WalkOK B key pc := by
  cases pc <;> first | trivial | exact absurd trivial h

theorem Walk.cur_mem {B : Base.State} {key : Nat} {pred : Option Nat} {i : Nat} (w : Walk B key pred (some i)) :
    i ∈ Base.chain B := by
  obtain ⟨l1, l2, hch, hcur, -, -⟩ := w
  cases l2 with
  | nil => cases hcur
  | cons c l2' => cases hcur; rw [hch]; simp

theorem WalkOK.congr {B B' : Base.State} (H : Base.HInv B) (f : Base.Frozen B B') {key : Nat} {pc : Pc}
    (w : WalkOK B key pc) : WalkOK B' key pc := by
  cases pc with
  | wFind h pred cur => exact Walk.congr H f w
  | wStore h pred hit hnext =>
    refine ⟨Walk.congr H f w.1, ?_⟩
    intro i hi
    subst hi
    have hil := Base.chain_lt H w.1.cur_mem
    rw [f.key i hil, f.next i hil]
    exact w.2 i rfl
  | _ => trivial

/-! ## the store through the remembered positions -/

/-- what the remembered positions are in terms of the current chain -/
theorem Walk.positions {B : Base.State} (H : Base.HInv B) {key : Nat} {pred hit : Option Nat}
    (w : Walk B key pred hit) (hk : ∀ i, hit = some i → (Base.nodeAt B.heap i).key = key) :
    (Base.chain B).find? (fun i => (Base.nodeAt B.heap i).key == key) = hit ∧
    (hit = none → pred = (Base.chain B).getLast?) ∧
    (∀ i, hit = some i → Base.predOf (Base.chain B) i = pred) := by
  obtain ⟨l1, l2, hch, hcur, hpred, hkeys⟩ := w
  have hnone : l1.find? (fun i => (Base.nodeAt B.heap i).key == key) = none := by
    rw [List.find?_eq_none]
    intro j hj
    simpa using hkeys j hj
  have hnd := Base.chain_nodup H
  rw [hch] at hnd
  cases l2 with
  | nil =>
    subst hcur
    refine ⟨?_, ?_, fun i hi => by cases hi⟩
    · rw [hch, List.append_nil]; exact hnone
    · intro _; rw [hch, List.append_nil]; exact hpred
  | cons c l2' =>
    simp only [List.head?_cons] at hcur
    subst hcur
    refine ⟨?_, fun h => (by cases h), ?_⟩
    · rw [hch, List.find?_append, hnone]
      simp [hk c rfl]
    · intro i hi
      cases hi
      rw [hch, hpred]
      have h5 := List.nodup_append.1 hnd
      have hc1 : c ∉ l1 := fun hm => h5.2.2 c hm c (by simp) rfl
      have hc2 : c ∉ l2' := (List.nodup_cons.1 h5.2.1).1
      rcases List.eq_nil_or_concat l1 with rfl | ⟨l1', pr, rfl⟩
      · exact Base.predOf_head c l2' hc2
      · have hpr : pr ≠ c := fun he => hc1 (by simp [he])
        have : c ∉ l1' := fun hm => hc1 (by simp [hm])
        have h := Base.predOf_mid c pr l2' hpr l1' this
        simp only [List.concat_eq_append, List.append_assoc, List.singleton_append, List.getLast?_append,
          List.getLast?_singleton] at h ⊢
        simpa using h

theorem map_modify_val (l : List NodeS) (i : Nat) (x : Nat × Nat) :
    (l.modify i (fun n => { n with val := x })).map cN = (l.map cN).modify i (fun n => { n with val := x }) :=
  map_modify cN _ _ (fun _ => rfl) l i

theorem map_modify_next (l : List NodeS) (i : Nat) (x : Option Nat) :
    (l.modify i (fun n => { n with next := x })).map cN = (l.map cN).modify i (fun n => { n with next := x }) :=
  map_modify cN _ _ (fun _ => rfl) l i

/-- **the key lemma**: thanks to the validated lock the positions a writer remembered during its walk
are the current ones, so storing through them is exactly what `Base.writerStore` does on the current
state (same new state up to the projection, same result) -/
theorem storeAt_eq_writerStore {s : State} {p : Pending} {pred hit hnext : Option Nat}
    (H : Base.HInv (proj s)) (w : Walk (proj s) p.key pred hit)
    (hh : ∀ i, hit = some i → (Base.nodeAt (proj s).heap i).key = p.key ∧ hnext = (Base.nodeAt (proj s).heap i).next) :
    proj (storeAt s p pred hit hnext).1 = (Base.writerStore (proj s) (cP p)).1 ∧
    (storeAt s p pred hit hnext).2 = (Base.writerStore (proj s) (cP p)).2 := by
  obtain ⟨hfind, hlast, hpredOf⟩ := w.positions H (fun i hi => (hh i hi).1)
  have hfind' : (Base.chain (proj s)).find? (fun i => ((proj s).heap.getD i ⟨0, (0, 0), none, none⟩).key == (cP p).key) = hit := hfind
  have hlen : (proj s).heap.length = s.heap.length := by simp
  unfold Base.writerStore storeAt
  simp only [hfind', cP_op]
  cases hop : p.op with
  | get => cases hit <;> exact ⟨rfl, rfl⟩
  | has => cases hit <;> exact ⟨rfl, rfl⟩
  | ins v vi =>
    cases hit with
    | some i =>
      dsimp only
      exact ⟨proj_setNode_val s i (v, vi), by rw [getD_proj]; rfl⟩
    | none =>
      simp only [← hlast rfl]
      cases pred with
      | none => 
        dsimp only
        simp [proj, cN]
      | some l =>
        dsimp only
        simp [proj, cN, setNode, Base.setNode, map_modify_next]
  | tryIns v vi =>
    cases hit with
    | some i =>
      dsimp only
      exact ⟨rfl, by rw [getD_proj]; rfl⟩
    | none =>
      simp only [← hlast rfl]
      cases pred with
      | none => 
        dsimp only
        simp [proj, cN]
      | some l =>
        dsimp only
        simp [proj, cN, setNode, Base.setNode, map_modify_next]
  | rm =>
    cases hit with
    | some i =>
      have hnx : hnext = ((proj s).heap.getD i ⟨0, (0, 0), none, none⟩).next := (hh i rfl).2
      simp only [hpredOf i rfl]
      cases pred with
      | none =>
        dsimp only
        exact ⟨by rw [hnx]; rfl, by rw [getD_proj]; rfl⟩
      | some pr =>
        dsimp only
        exact ⟨by rw [hnx]; exact proj_setNode_next s pr _, by rw [getD_proj]; rfl⟩
    | none => exact ⟨rfl, rfl⟩
  | cipInc nvi =>
    cases hit with
    | some i =>
      dsimp only
      rw [getD_proj]
      exact ⟨proj_setNode_val s i _, rfl⟩
    | none => exact ⟨rfl, rfl⟩
  | cipRm =>
    cases hit with
    | some i =>
      have hnx : hnext = ((proj s).heap.getD i ⟨0, (0, 0), none, none⟩).next := (hh i rfl).2
      simp only [hpredOf i rfl]
      cases pred with
      | none =>
        dsimp only
        exact ⟨by rw [hnx]; rfl, trivial⟩
      | some pr =>
        dsimp only
        exact ⟨by rw [hnx]; exact proj_setNode_next s pr _, trivial⟩
    | none => exact ⟨rfl, rfl⟩
  | condRm vi =>
    cases hit with
    | some i =>
      have hnx : hnext = ((proj s).heap.getD i ⟨0, (0, 0), none, none⟩).next := (hh i rfl).2
      simp only [hpredOf i rfl]
      have hval : ((proj s).heap.getD i ⟨0, (0, 0), none, none⟩).val.2 =
          (s.heap.getD i ⟨0, (0, 0), none, none⟩).val.2 := by rw [getD_proj]; rfl
      rw [hval]
      by_cases hv : (s.heap.getD i ⟨0, (0, 0), none, none⟩).val.2 = vi
      · rw [if_pos hv, if_pos hv]
        cases pred with
        | none =>
          dsimp only
          exact ⟨by rw [hnx]; rfl, rfl⟩
        | some pr =>
          dsimp only
          exact ⟨by rw [hnx]; exact proj_setNode_next s pr _, rfl⟩
      · rw [if_neg hv, if_neg hv]
        exact ⟨rfl, rfl⟩
    | none => exact ⟨rfl, rfl⟩
end Flurry.Proto.BinR
