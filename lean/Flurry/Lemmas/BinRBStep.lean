import Flurry.Lemmas.BinRBBasic
/-! # Proto/Bin: the transitions in normal form (C01)

(C13 port of `Flurry/Lemmas/BinStep.lean` to the per-key operations of `Flurry/Lin2.lean`, i.e. with `retain`'s conditional removal `condRm`; below, "`Proto/Bin`" / `Base.` is `Flurry.Proto.BinR.Base` (`Proto/BinRBase.lean`) and "`Proto/BinW`" is `Flurry.Proto.BinR` (`Proto/BinR.lean`), which in addition has the `retain` visit steps.)

`StepK s t l s'` lists the possible transitions of thread `t` (with local state `l`) as eight
constructors with explicit successor states; `step_stepK` dissects `step` once and for all. -/
namespace Flurry.Proto.BinR.Base
open Flurry.Lin2

/-- the state with the clock advanced -/
def tick (s : State) : State := { s with now := s.now + 1 }

/-- transitions that only change the program counter of the thread -/
inductive Move (s : State) (p : Pending) : Pc → Pc → Prop
  | rHead : Move s p .rHead (.rNode s.head)
  | rNext {c : Nat} {n : NodeS} : s.heap[c]? = some n → n.key ≠ p.key →
      Move s p (.rNode (some c)) (.rNode n.next)
  | toCas : s.head = none → Move s p .wHead .wCas
  | toLock {h : Nat} : s.head = some h → Move s p .wHead (.wLock h)
  | casFail : Move s p .wCas .wHead
  | checkOk {h : Nat} : s.head = some h → Move s p (.wCheck h) (.wWrite h)
  | checkFail {h : Nat} : Move s p (.wCheck h) (.wUnlock h .none true)

/-- transitions that change the lock word of node `h` to `x` -/
inductive LockMove (s : State) (t : Nat) : Pc → Nat → Option Nat → Pc → Prop
  | lock {h : Nat} {n : NodeS} : s.heap[h]? = some n → n.lock = none →
      LockMove s t (.wLock h) h (some t) (.wCheck h)
  | unlockRetry {h : Nat} {res : KRes} : LockMove s t (.wUnlock h res true) h none .wHead

/-- calls that complete without a store of their own -/
inductive Fin (s : State) (p : Pending) : Pc → KRes → Prop
  | miss : Fin s p (.rNode none) (match p.op with | .has => .bool false | _ => .none)
  | hit {c : Nat} {n : NodeS} : s.heap[c]? = some n → n.key = p.key →
      Fin s p (.rNode (some c)) (match p.op with | .has => .bool true | _ => .some n.val.1 n.val.2)
  | emptyBin : s.head = none → (∀ v vi, p.op ≠ .ins v vi ∧ p.op ≠ .tryIns v vi) → Fin s p .wHead .none

inductive StepK (s : State) (t : Nat) (l : Local) : State → Prop
  | idle : l.pc = .idle → StepK s t l (setT (tick s) t l)
  | invoke (k : Nat) (op : KOp2) : l.pc = .idle →
      StepK s t l (setT (tick s) t
        { pc := if isReader op then .rHead else .wHead, call := some ⟨k, op, s.now + 1⟩ })
  | move (p : Pending) (pc' : Pc) : l.call = some p → Move s p l.pc pc' →
      StepK s t l (setT (tick s) t { l with pc := pc' })
  | lockMove (p : Pending) (h : Nat) (x : Option Nat) (pc' : Pc) : l.call = some p →
      LockMove s t l.pc h x pc' →
      StepK s t l (setT (setNode (tick s) h (fun m => { m with lock := x })) t { l with pc := pc' })
  | fin (p : Pending) (res : KRes) : l.call = some p → Fin s p l.pc res →
      StepK s t l (finish (tick s) t p res)
  | cas (p : Pending) (v vi : Nat) : l.call = some p → l.pc = .wCas → s.head = none →
      (p.op = .ins v vi ∨ p.op = .tryIns v vi) →
      StepK s t l (finish { tick s with heap := s.heap ++ [⟨p.key, (v, vi), none, none⟩],
                                        head := some s.heap.length } t p .none)
  | write (p : Pending) (h : Nat) : l.call = some p → l.pc = .wWrite h →
      StepK s t l (setT (writerStore (tick s) p).1 t
        { l with pc := .wUnlock h (writerStore (tick s) p).2 false })
  | unlockFin (p : Pending) (h : Nat) (res : KRes) : l.call = some p → l.pc = .wUnlock h res false →
      StepK s t l (finish (setNode (tick s) h (fun m => { m with lock := none })) t p res)

theorem setT_self {s : State} {t : Nat} {l : Local} (hl : s.threads[t]? = some l) : setT s t l = s := by
  unfold setT
  obtain ⟨ht, rfl⟩ := List.getElem?_eq_some_iff.1 hl
  rw [List.set_getElem_self]

theorem step_stepK {s s' : State} {t : Nat} {l : Local} {inv : Option (Nat × KOp2)}
    (hl : s.threads[t]? = some l) (hs : step s t inv = some s') : StepK s t l s' := by
  unfold step at hs
  rw [hl] at hs
  simp only at hs
  obtain ⟨pc, call⟩ := l
  cases pc with
  | idle =>
    simp only at hs
    cases inv with
    | none =>
      simp only [Option.some.injEq] at hs
      subst hs
      have : tick s = setT (tick s) t ⟨.idle, call⟩ := (setT_self (s := tick s) hl).symm
      show StepK s t _ (tick s)
      rw [this]
      exact .idle rfl
    | some ko =>
      obtain ⟨k, op⟩ := ko
      simp only [Option.some.injEq] at hs
      subst hs
      exact .invoke k op rfl
  | rHead =>
    cases call with
    | none => simp at hs
    | some p =>
      simp only [Option.some.injEq] at hs
      subst hs
      exact StepK.move p _ rfl (by exact .rHead)
  | rNode cur =>
    cases call with
    | none => simp at hs
    | some p =>
      cases cur with
      | none =>
        simp only [Option.some.injEq] at hs
        subst hs
        exact StepK.fin p _ rfl (by exact .miss)
      | some c =>
        simp only at hs
        cases hn : s.heap[c]? with
        | none => rw [hn] at hs; simp at hs
        | some n =>
          rw [hn] at hs
          simp only at hs
          by_cases hk : n.key = p.key
          · rw [if_pos (by simpa using hk)] at hs
            simp only [Option.some.injEq] at hs
            subst hs
            exact StepK.fin p _ rfl (by exact (.hit hn hk))
          · rw [if_neg (by simpa using hk)] at hs
            simp only [Option.some.injEq] at hs
            subst hs
            exact StepK.move p _ rfl (by exact (.rNext hn hk))
  | wHead =>
    cases call with
    | none => simp at hs
    | some p =>
      simp only at hs
      split at hs
      · rename_i hh
        split at hs
        · simp only [Option.some.injEq] at hs; subst hs
          exact StepK.move p _ rfl (by exact (.toCas hh))
        · simp only [Option.some.injEq] at hs; subst hs
          exact StepK.move p _ rfl (by exact (.toCas hh))
        · rename_i h1 h2
          simp only [Option.some.injEq] at hs; subst hs
          exact StepK.fin p _ rfl (by exact (.emptyBin hh (fun v vi => ⟨h1 v vi, h2 v vi⟩)))
      · rename_i h hh
        simp only [Option.some.injEq] at hs
        subst hs
        exact StepK.move p _ rfl (by exact (.toLock hh))
  | wCas =>
    cases call with
    | none => simp at hs
    | some p =>
      simp only at hs
      split at hs
      · rename_i v vi hh hop
        simp only [Option.some.injEq] at hs; subst hs
        exact .cas p v vi rfl rfl hh (Or.inl hop)
      · rename_i v vi hh hop
        simp only [Option.some.injEq] at hs; subst hs
        exact .cas p v vi rfl rfl hh (Or.inr hop)
      · simp only [Option.some.injEq] at hs; subst hs
        exact StepK.move p _ rfl (by exact .casFail)
  | wLock h =>
    cases call with
    | none => simp at hs
    | some p =>
      simp only at hs
      cases hn : s.heap[h]? with
      | none => rw [hn] at hs; simp at hs
      | some n =>
        rw [hn] at hs
        simp only at hs
        cases hlk : n.lock with
        | some x => rw [hlk] at hs; simp at hs
        | none =>
          rw [hlk] at hs
          simp only [Option.isSome_none, Bool.false_eq_true, if_false, Option.some.injEq] at hs
          subst hs
          exact StepK.lockMove p h (some t) _ rfl (by exact (.lock hn hlk))
  | wCheck h =>
    cases call with
    | none => simp at hs
    | some p =>
      simp only at hs
      by_cases hh : s.head = some h
      · rw [if_pos (by simpa using hh)] at hs
        simp only [Option.some.injEq] at hs
        subst hs
        exact StepK.move p _ rfl (by exact (.checkOk hh))
      · rw [if_neg (by simpa using hh)] at hs
        simp only [Option.some.injEq] at hs
        subst hs
        exact StepK.move p _ rfl (by exact .checkFail)
  | wWrite h =>
    cases call with
    | none => simp at hs
    | some p =>
      simp only [Option.some.injEq] at hs
      subst hs
      exact .write p h rfl rfl
  | wUnlock h res retry =>
    cases call with
    | none => simp at hs
    | some p =>
      simp only at hs
      cases retry with
      | true =>
        simp only [if_true, Option.some.injEq] at hs
        subst hs
        exact StepK.lockMove p h none _ rfl (by exact .unlockRetry)
      | false =>
        simp only [Bool.false_eq_true, if_false, Option.some.injEq] at hs
        subst hs
        exact .unlockFin p h res rfl rfl

end Flurry.Proto.BinR.Base
