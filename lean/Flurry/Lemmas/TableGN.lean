import Flurry.Proto.TableGN
import Flurry.Lemmas.TableN
import Flurry.Lemmas.BinGNPLin
import Flurry.Lemmas.BinGNTime
import Flurry.Lemmas.LinLocal
/-! # Proto/TableGN: a table with list and tree bins through any number of resizes is linearizable as a MAP (C01)

The construction of `Lemmas/TableN.lean` over `Proto/BinGN` lineages. A `tick` of a lineage — its clock advances
while a thread acts in another lineage — IS a transition of `Proto/BinGN`: the step of a thread that is idle in
that lineage and starts nothing — no call, no treeify, no resize
(`BinGN.step b t none false none false false false 0 = some (tick b)`, `tick_is_step`), and `TableGN.step` lets
thread `t` act in lineage `i` only while it is idle in every other lineage. Hence every lineage of a reachable
table is literally `BinGN.Reachable` (`TblInv.reach`), and all lineage-level theorems apply to it unchanged: no
re-timing argument is needed.

As in `Lemmas/TableN.lean` no "keys stay in their class" invariant is needed: inside lineage `i` the key `k` of the
table is called `k / m` (in a call AND in a treeify), every natural number is a local key, and the translation back
`q ↦ i + m * q` is injective on a lineage and separates the lineages (`TableN.globalKey_eq_iff`, re-used):

* `binGN_step_threads`: a transition of `Proto/BinGN` touches the local state of the acting thread only;
* `TblInv m n S`: `m` lineages, each `BinGN.Reachable n`;
* `OneBin S`: of two different lineages, a thread is idle in one;
* `proj_binCalls_own`, `proj_binCalls_other`, `proj_mhist`: the projection of the map history on key `k` is the
  history of local key `k / m` in lineage `k % m` (as a list, not only up to order: the other lineages contribute
  nothing);
* `tableGN_key_linearizable_aux`, `tableGN_map_linearizable_aux` (with `C01.locality`). -/

namespace Flurry.Proto.TableGN
open Flurry.Lin Flurry.LinMap
open Flurry.Proto.BinX (get_set get_set_ne)
open Flurry.Proto.TableN (lineageOf localKey globalKey inLineage localInv globalKey_lineage_local
  lineageOf_globalKey localKey_globalKey globalKey_eq_iff proj_flatten flatten_single)

/-! ## a transition of a lineage touches the local state of the acting thread only -/

theorem binGN_stepN_threads {s s' : BinGN.State} {t : Nat} {l : BinGN.Local} (h : BinGNP.StepN s t l s') :
    ∃ l', s'.threads = s.threads.set t l' := by
  cases h with
  | store p g h pred hit hnext hc hpc =>
    refine ⟨{ l with pc := .wUnlock g h (BinGN.storeAt (BinGNP.tick s) g p pred hit hnext).2 false }, ?_⟩
    show ((BinGN.storeAt (BinGNP.tick s) g p pred hit hnext).1.threads).set t _ = _
    rw [(BinGNP.storeAt_frame (BinGNP.tick s) g p pred hit hnext).1]
    rfl
  | unlink p g b i res small hc hpc =>
    refine ⟨{ l with pc := if small then .tUntreeify g b res else .tRestructure g b i res }, ?_⟩
    show ((BinGNP.unlinkOf (BinGNP.tick s) b i).threads).set t _ = _
    rw [(BinGNP.unlinkOf_frame (BinGNP.tick s) b i).1]
    rfl
  | ybuild j b small small2 hc hpc =>
    let r := BinGNP.ysplitOf (BinGNP.tick s) b small small2
    refine ⟨{ l with pc := .xStoreLow j (.inr b) r.2.1 r.2.2 }, ?_⟩
    show ((BinGNP.ysplitOf (BinGNP.tick s) b small small2).1.threads).set t _ = _
    rw [(BinGNP.ysplitOf_frame (BinGNP.tick s) b small small2).1]
    rfl
  | _ => exact ⟨_, rfl⟩

theorem binGN_step_threads {s s' : BinGN.State} {t : Nat} {inv : Option (Nat × KOp)} {lo : Bool} {mt : Option Nat}
    {rz sm sm2 : Bool} {pick : Nat} (hs : BinGN.step s t inv lo mt rz sm sm2 pick = some s') :
    ∃ l', s'.threads = s.threads.set t l' := by
  cases hl : s.threads[t]? with
  | none => unfold BinGN.step BinGN.stepG at hs; rw [hl] at hs; cases hs
  | some l => exact binGN_stepN_threads (BinGNP.step_stepN hl hs)

/-! ## ticks -/

/-- **a tick is a transition of the lineage**: the step of a thread that is idle there and starts nothing (no
call, no treeify, no resize) -/
theorem tick_is_step {b : BinGN.State} {t : Nat} (h : idleIn b t = true) :
    BinGN.step b t none false none false false false 0 = some (tick b) := by
  unfold idleIn at h
  split at h
  · rename_i l hl
    obtain ⟨pc, call⟩ := l
    simp only [beq_iff_eq] at h
    subst h
    unfold BinGN.step BinGN.stepG
    simp only [hl]
    rfl
  · cases h

/-- the invariant of the table -/
structure TblInv (m n : Nat) (S : State) : Prop where
  len : S.bins.length = m
  reach : ∀ (j : Nat) (b : BinGN.State), S.bins[j]? = some b → BinGN.Reachable n b

theorem init_bin {m n j : Nat} {b : BinGN.State} (h : (init m n).bins[j]? = some b) : b = BinGN.init n := by
  have hm : b ∈ List.replicate m (BinGN.init n) := List.mem_iff_getElem?.mpr ⟨j, h⟩
  exact (List.mem_replicate.1 hm).2

theorem init_tblInv (m n : Nat) : TblInv m n (init m n) := by
  refine ⟨by simp [init], ?_⟩
  intro j b h
  rw [init_bin h]
  exact BinGN.Reachable.init

/-- `step`, spelled out -/
theorem step_eq_some {S S' : State} {i t : Nat} {inv : Option (Nat × KOp)} {lo : Bool} {mt : Option Nat}
    {rz sm sm2 : Bool} {pick : Nat} (hs : step S i t inv lo mt rz sm sm2 pick = some S') :
    ∃ b b', S.bins[i]? = some b ∧
      ((List.range S.bins.length).all fun j => j == i || idleIn (S.bins.getD j (BinGN.init 0)) t) = true ∧
      (∀ k op, inv = some (k, op) → lineageOf S.bins.length k = i) ∧
      (∀ k, mt = some k → lineageOf S.bins.length k = i) ∧
      BinGN.step b t (localInv S.bins.length inv) lo (localMt S.bins.length mt) rz sm sm2 pick = some b' ∧
      S' = { bins := (S.bins.map tick).set i b' } := by
  unfold step at hs
  simp only at hs
  cases hb : S.bins[i]? with
  | none => rw [hb] at hs; cases hs
  | some b =>
    rw [hb] at hs
    simp only at hs
    cases h1 : ((List.range S.bins.length).all fun j => j == i || idleIn (S.bins.getD j (BinGN.init 0)) t) with
    | false => rw [h1] at hs; simp at hs
    | true =>
      rw [h1] at hs
      simp only [Bool.not_true, Bool.false_eq_true, if_false] at hs
      cases h2 : inLineage S.bins.length i (inv.map (·.1)) with
      | false => rw [h2] at hs; simp at hs
      | true =>
        rw [h2] at hs
        simp only [Bool.not_true, Bool.false_eq_true, if_false] at hs
        cases h3 : inLineage S.bins.length i mt with
        | false => rw [h3] at hs; simp at hs
        | true =>
          rw [h3] at hs
          simp only [Bool.not_true, Bool.false_eq_true, if_false] at hs
          cases h4 : BinGN.step b t (localInv S.bins.length inv) lo (localMt S.bins.length mt) rz sm sm2 pick with
          | none => rw [h4] at hs; cases hs
          | some b' =>
            rw [h4] at hs
            simp only [Option.some.injEq] at hs
            refine ⟨b, b', rfl, rfl, ?_, ?_, h4, hs.symm⟩
            · intro k op hi
              subst hi
              simpa [inLineage] using h2
            · intro k hk
              subst hk
              simpa [inLineage] using h3

/-- a call is started in the lineage of its key, under its local name -/
theorem step_call {S S' : State} {i t k : Nat} {op : KOp} {lo : Bool} {mt : Option Nat} {rz sm sm2 : Bool}
    {pick : Nat} (hs : step S i t (some (k, op)) lo mt rz sm sm2 pick = some S') :
    lineageOf S.bins.length k = i ∧ ∃ b b', S.bins[i]? = some b ∧
      BinGN.step b t (some (localKey S.bins.length k, op)) lo (localMt S.bins.length mt) rz sm sm2 pick = some b' ∧
      S'.bins[i]? = some b' := by
  obtain ⟨b, b', hb, -, hkey, -, hb', rfl⟩ := step_eq_some hs
  refine ⟨hkey k op rfl, b, b', hb, hb', ?_⟩
  show ((S.bins.map tick).set i b')[i]? = some b'
  have hi : i < (S.bins.map tick).length := by
    rw [List.length_map]; exact (List.getElem?_eq_some_iff.1 hb).1
  rw [List.getElem?_set_self hi]

/-- a treeify is started in the lineage of its key, for the bin of its local name -/
theorem step_treeify {S S' : State} {i t k : Nat} {inv : Option (Nat × KOp)} {lo : Bool} {rz sm sm2 : Bool}
    {pick : Nat} (hs : step S i t inv lo (some k) rz sm sm2 pick = some S') :
    lineageOf S.bins.length k = i ∧ ∃ b b', S.bins[i]? = some b ∧
      BinGN.step b t (localInv S.bins.length inv) lo (some (localKey S.bins.length k)) rz sm sm2 pick = some b' ∧
      S'.bins[i]? = some b' := by
  obtain ⟨b, b', hb, -, -, hkey, hb', rfl⟩ := step_eq_some hs
  refine ⟨hkey k rfl, b, b', hb, hb', ?_⟩
  show ((S.bins.map tick).set i b')[i]? = some b'
  have hi : i < (S.bins.map tick).length := by
    rw [List.length_map]; exact (List.getElem?_eq_some_iff.1 hb).1
  rw [List.getElem?_set_self hi]

/-- the lineages after a step: lineage `i` made its transition, every other lineage ticked and thread `t` is
idle there -/
theorem step_bins {S : State} {i t : Nat} {b b' : BinGN.State} (hb : S.bins[i]? = some b)
    (hidle : ((List.range S.bins.length).all fun j => j == i || idleIn (S.bins.getD j (BinGN.init 0)) t) = true) :
    ∀ (j : Nat) (c : BinGN.State), ((S.bins.map tick).set i b')[j]? = some c →
      (j = i ∧ c = b') ∨ (j ≠ i ∧ ∃ b0, S.bins[j]? = some b0 ∧ c = tick b0 ∧ idleIn b0 t = true) := by
  intro j c hc
  rcases get_set hc with ⟨rfl, rfl⟩ | ⟨hne, hc⟩
  · exact Or.inl ⟨rfl, rfl⟩
  · rw [List.getElem?_map] at hc
    cases hj : S.bins[j]? with
    | none => rw [hj] at hc; cases hc
    | some b0 =>
      rw [hj] at hc
      simp only [Option.map_some, Option.some.injEq] at hc
      have hjl : j < S.bins.length := (List.getElem?_eq_some_iff.1 hj).1
      have := List.all_eq_true.1 hidle j (List.mem_range.2 hjl)
      have hd : S.bins.getD j (BinGN.init 0) = b0 := by
        rw [List.getD_eq_getElem?_getD, hj]; rfl
      rw [hd] at this
      simp only [Bool.or_eq_true, beq_iff_eq] at this
      rcases this with h | h
      · exact absurd h hne
      · exact Or.inr ⟨hne, b0, rfl, hc.symm, h⟩

theorem step_tblInv {m n : Nat} {S S' : State} {i t : Nat} {inv : Option (Nat × KOp)} {lo : Bool} {mt : Option Nat}
    {rz sm sm2 : Bool} {pick : Nat} (I : TblInv m n S) (hs : step S i t inv lo mt rz sm sm2 pick = some S') :
    TblInv m n S' := by
  obtain ⟨b, b', hb, hidle, _, _, hb', rfl⟩ := step_eq_some hs
  have hget := step_bins hb hidle (b' := b')
  refine ⟨?_, ?_⟩
  · show ((S.bins.map tick).set i b').length = m
    rw [List.length_set, List.length_map]; exact I.len
  · intro j c hc
    rcases hget j c hc with ⟨rfl, rfl⟩ | ⟨_, b0, hj, rfl, hid⟩
    · exact BinGN.Reachable.step t _ lo _ rz sm sm2 pick (I.reach j b hb) hb'
    · exact BinGN.Reachable.step t none false none false false false 0 (I.reach j b0 hj) (tick_is_step hid)

theorem reachable_tblInv {m n : Nat} {S : State} (hr : Reachable m n S) : TblInv m n S := by
  induction hr with
  | init => exact init_tblInv m n
  | step i t inv lo mt rz sm sm2 pick _ hs ih => exact step_tblInv ih hs

/-! ## a thread is active in at most one lineage -/

/-- of two different lineages, thread `t` is idle in one -/
def OneBin (S : State) : Prop :=
  ∀ (t i j : Nat) (bi bj : BinGN.State) (li lj : BinGN.Local), i ≠ j → S.bins[i]? = some bi → S.bins[j]? = some bj →
    bi.threads[t]? = some li → bj.threads[t]? = some lj → li.pc = .idle ∨ lj.pc = .idle

theorem idleIn_pc {b : BinGN.State} {t : Nat} {l : BinGN.Local} (h : idleIn b t = true) (hl : b.threads[t]? = some l) :
    l.pc = .idle := by
  unfold idleIn at h
  rw [hl] at h
  simpa using h

theorem init_oneBin (m n : Nat) : OneBin (init m n) := by
  intro t i j bi bj li lj _ hi _ hli _
  have hbi : bi = BinGN.init n := init_bin hi
  subst hbi
  rw [BinGNP.init_threads hli]
  exact Or.inl rfl

theorem step_oneBin {S S' : State} {i t : Nat} {inv : Option (Nat × KOp)} {lo : Bool} {mt : Option Nat}
    {rz sm sm2 : Bool} {pick : Nat} (O : OneBin S) (hs : step S i t inv lo mt rz sm sm2 pick = some S') :
    OneBin S' := by
  obtain ⟨b, b', hb, hidle, _, _, hb', rfl⟩ := step_eq_some hs
  have hget := step_bins hb hidle (b' := b')
  obtain ⟨l', hthr⟩ := binGN_step_threads hb'
  -- the acting lineage against a ticked lineage
  have key : ∀ (t1 j : Nat) (b0 : BinGN.State) (l1 l2 : BinGN.Local), j ≠ i → S.bins[j]? = some b0 →
      idleIn b0 t = true → b'.threads[t1]? = some l1 → b0.threads[t1]? = some l2 → l1.pc = .idle ∨ l2.pc = .idle := by
    intro t1 j b0 l1 l2 hne hj hid h1 h2
    by_cases ht : t1 = t
    · subst ht
      exact Or.inr (idleIn_pc hid h2)
    · rw [hthr, get_set_ne ht] at h1
      exact O t1 i j b b0 l1 l2 (fun e => hne e.symm) hb hj h1 h2
  intro t1 j1 j2 c1 c2 l1 l2 hne h1 h2 hl1 hl2
  rcases hget j1 c1 h1 with ⟨rfl, rfl⟩ | ⟨hn1, a1, ha1, rfl, hid1⟩ <;>
    rcases hget j2 c2 h2 with ⟨rfl, rfl⟩ | ⟨hn2, a2, ha2, rfl, hid2⟩
  · exact absurd rfl hne
  · exact key t1 j2 a2 l1 l2 hn2 ha2 hid2 hl1 hl2
  · exact (key t1 j1 a1 l2 l1 hn1 ha1 hid1 hl2 hl1).symm
  · exact O t1 j1 j2 a1 a2 l1 l2 hne ha1 ha2 hl1 hl2

theorem reachable_oneBin {m n : Nat} {S : State} (hr : Reachable m n S) : OneBin S := by
  induction hr with
  | init => exact init_oneBin m n
  | step i t inv lo mt rz sm sm2 pick _ hs ih => exact step_oneBin ih hs

/-! ## the history of the map, key by key -/

/-- the projection of the calls of lineage `i` on key `k`, before any arithmetic -/
theorem proj_binCalls (m i : Nat) (b : BinGN.State) (k : Nat) :
    proj (binCalls m i b) k = ((b.hist.filter (fun e => globalKey m i e.1 == k)).reverse.map (·.2)) := by
  unfold proj binCalls
  rw [List.filter_map, List.map_map, List.filter_reverse]
  rfl

/-- … for the lineage of `k` it is the history of the local key `k / m` -/
theorem proj_binCalls_own {m : Nat} (hm : 0 < m) (b : BinGN.State) (k : Nat) :
    proj (binCalls m (lineageOf m k) b) k = BinGN.callsOn b (localKey m k) := by
  rw [proj_binCalls]
  unfold BinGN.callsOn
  congr 2
  apply List.filter_congr
  intro e _
  have hi : lineageOf m k < m := Nat.mod_lt _ hm
  rw [Bool.eq_iff_iff]
  simp only [beq_iff_eq]
  rw [globalKey_eq_iff hi e.1 k]
  exact ⟨fun h => h.2, fun h => ⟨rfl, h⟩⟩

/-- … for every other lineage it is empty -/
theorem proj_binCalls_other {m i : Nat} (hi : i < m) (b : BinGN.State) {k : Nat} (hne : i ≠ lineageOf m k) :
    proj (binCalls m i b) k = [] := by
  rw [proj_binCalls]
  have : b.hist.filter (fun e => globalKey m i e.1 == k) = [] := by
    rw [List.filter_eq_nil_iff]
    intro e _ he
    exact hne ((globalKey_eq_iff hi e.1 k).1 (by simpa using he)).1
  rw [this]
  rfl

/-- the projection of the map history on key `k` is the history of local key `k / m` in lineage `k % m` -/
theorem proj_mhist {m n : Nat} (hm : 0 < m) {S : State} (I : TblInv m n S) {k : Nat} {b : BinGN.State}
    (hb : S.bins[lineageOf m k]? = some b) : proj (mhist S) k = BinGN.callsOn b (localKey m k) := by
  have hlt : lineageOf m k < m := Nat.mod_lt _ hm
  have hd : S.bins.getD (lineageOf m k) (BinGN.init 0) = b := by
    rw [List.getD_eq_getElem?_getD, hb]; rfl
  unfold mhist
  rw [proj_flatten, List.map_map, I.len]
  rw [flatten_single ((fun x => proj x k) ∘ fun i => binCalls m i (S.bins.getD i (BinGN.init 0)))
    (List.range m) (lineageOf m k) (lineageOf m k) (by rw [List.getElem?_range hlt])]
  · show proj (binCalls m (lineageOf m k) (S.bins.getD (lineageOf m k) (BinGN.init 0))) k = _
    rw [hd]
    exact proj_binCalls_own hm b k
  · intro j c hj hne
    have hjm : j < m := by
      have := (List.getElem?_eq_some_iff.1 hj).1
      simpa using this
    rw [List.getElem?_range hjm] at hj
    cases hj
    exact proj_binCalls_other hjm _ hne

theorem bin_of_key {m n : Nat} (hm : 0 < m) {S : State} (I : TblInv m n S) (k : Nat) :
    ∃ b, S.bins[lineageOf m k]? = some b ∧ S.bins.getD (lineageOf S.bins.length k) (BinGN.init 0) = b := by
  have hlt : lineageOf m k < S.bins.length := by rw [I.len]; exact Nat.mod_lt _ hm
  refine ⟨S.bins[lineageOf m k], List.getElem?_eq_getElem hlt, ?_⟩
  rw [I.len, List.getD_eq_getElem?_getD, List.getElem?_eq_getElem hlt]
  rfl

theorem tableGN_key_linearizable_aux {m n : Nat} (hm : 0 < m) {S : State} (hr : Reachable m n S)
    (hq : quiescent S) (k : Nat) : Linearizable (proj (mhist S) k) none (absMap S k) := by
  have I := reachable_tblInv hr
  obtain ⟨b, hb, hd⟩ := bin_of_key hm I k
  rw [proj_mhist hm I hb]
  unfold absMap
  rw [hd, I.len]
  exact BinGNP.binGN_linearizable_quiescent_aux (I.reach _ b hb) (hq b (List.mem_of_getElem? hb)) (localKey m k)

/-- every call of the map history is a call of some lineage `i < m`, under the translated key -/
theorem mem_mhist {S : State} {c : MCall} (hc : c ∈ mhist S) :
    ∃ i b q, S.bins[i]? = some b ∧ (q, c.call) ∈ b.hist ∧ c.key = globalKey S.bins.length i q := by
  unfold mhist at hc
  rw [List.mem_flatten] at hc
  obtain ⟨l, hl, hcl⟩ := hc
  obtain ⟨i, hi, rfl⟩ := List.mem_map.1 hl
  have hilt : i < S.bins.length := List.mem_range.1 hi
  unfold binCalls at hcl
  obtain ⟨e, he, rfl⟩ := List.mem_map.1 hcl
  rw [List.mem_reverse] at he
  refine ⟨i, S.bins[i], e.1, List.getElem?_eq_getElem hilt, ?_, rfl⟩
  rw [List.getD_eq_getElem?_getD, List.getElem?_eq_getElem hilt] at he
  exact he

/-- every call of the map history on key `k` is recorded in lineage `k % m`, under the local name `k / m` -/
theorem mhist_own_lineage {m n : Nat} {S : State} (I : TblInv m n S) {c : MCall} (hc : c ∈ mhist S) :
    ∃ b, S.bins[lineageOf m c.key]? = some b ∧ (localKey m c.key, c.call) ∈ b.hist := by
  obtain ⟨i, b, q, hb, hmem, hk⟩ := mem_mhist hc
  rw [I.len] at hk
  have hi : i < m := I.len ▸ (List.getElem?_eq_some_iff.1 hb).1
  rw [hk, lineageOf_globalKey hi, localKey_globalKey hi]
  exact ⟨b, hb, hmem⟩

/-- every call recorded in lineage `i` under the local name `q` is in the map history under the key
`i + m * q`, which is a key of lineage `i` with local name `q` -/
theorem mem_mhist_of_hist {m n : Nat} {S : State} (I : TblInv m n S) {i : Nat} {b : BinGN.State} {q : Nat} {c : Call}
    (hb : S.bins[i]? = some b) (h : (q, c) ∈ b.hist) :
    (⟨globalKey m i q, c⟩ : MCall) ∈ mhist S ∧ lineageOf m (globalKey m i q) = i ∧ localKey m (globalKey m i q) = q := by
  have hi := (List.getElem?_eq_some_iff.1 hb).1
  have him : i < m := I.len ▸ hi
  refine ⟨?_, lineageOf_globalKey him q, localKey_globalKey him q⟩
  unfold mhist
  rw [List.mem_flatten, I.len]
  refine ⟨binCalls m i (S.bins.getD i (BinGN.init 0)), List.mem_map.2 ⟨i, List.mem_range.2 him, rfl⟩, ?_⟩
  have hd : S.bins.getD i (BinGN.init 0) = b := by rw [List.getD_eq_getElem?_getD, hb]; rfl
  rw [hd]
  unfold binCalls
  exact List.mem_map.2 ⟨(q, c), List.mem_reverse.2 h, rfl⟩

/-- a thread that is not idle in a lineage (it resizes it, treeifies a bin of it, or has a call in flight there)
is idle in every other lineage -/
theorem busy_idle_elsewhere {S : State} (O : OneBin S) {t i j : Nat} {bi bj : BinGN.State} {li lj : BinGN.Local}
    (hne : i ≠ j) (hi : S.bins[i]? = some bi) (hj : S.bins[j]? = some bj)
    (hli : bi.threads[t]? = some li) (hlj : bj.threads[t]? = some lj) (hT : li.pc ≠ .idle) : lj.pc = .idle := by
  rcases O t i j bi bj li lj hne hi hj hli hlj with h | h
  · exact absurd h hT
  · exact h

/-- no call of the map history responds before it is invoked -/
theorem mhist_wf {m n : Nat} {S : State} (hr : Reachable m n S) : ∀ c ∈ mhist S, c.call.inv ≤ c.call.resp := by
  have I := reachable_tblInv hr
  intro c hc
  obtain ⟨i, b, q, hb, hmem, -⟩ := mem_mhist hc
  exact ((BinGN.reachable_tinv (I.reach i b hb)).histTime (q, c.call) hmem).1

theorem tableGN_map_linearizable_aux {m n : Nat} (hm : 0 < m) {S : State} (hr : Reachable m n S)
    (hq : quiescent S) : MapLinearizable (mhist S) (fun _ => none) (absMap S) :=
  Flurry.LinMap.map_linearizable_of_proj (mhist_wf hr) (fun k => tableGN_key_linearizable_aux hm hr hq k)

end Flurry.Proto.TableGN
