import Flurry.Lemmas.BinGNPInv
/-! # Proto/BinGN (port of `Lemmas/BinGInit.lean`): the structural invariant holds initially

Every cell of `init n` reads as `empty` (`tabs = [[.empty]]`, cells that do not exist read as `empty`), so every chain
and tree is empty; every thread is `idle` without a call. The new generation fields of `XInv` (`len`, `rows`, `old`,
`newNotMoved`, `noResz`, `idx`, `pre`, `post`, `nextEmpty`, `tabNew`) and `HInv.side` / `HInv.binsDistinct` follow from
that. Statements as in BinG. -/
namespace Flurry.Proto.BinGNP
open Flurry.Lin
open Flurry.Proto.BinK (nodeAt binAt NextOK IsChain IsSeg chainOf CInv absL nodeAt_ge binAt_ge chainOf_none)

theorem init_threads {n t : Nat} {l : Local} (h : (init n).threads[t]? = some l) : l = {} := by
  simp only [init, List.getElem?_replicate] at h
  split at h
  · cases h; rfl
  · cases h

theorem init_cellAt (n : Nat) (id : Cid) : cellAt (init n) id = .empty := by
  obtain ⟨g, j⟩ := id
  show ([[(.empty : Cell)]].getD g []).getD j .empty = .empty
  cases g with
  | zero => cases j <;> rfl
  | succ g => cases j <;> rfl

theorem init_chainC (n : Nat) (id : Cid) : chainC (init n) (cellAt (init n) id) = [] := by
  rw [init_cellAt]; exact chainOf_none _

theorem treeOf_empty (s : State) (j : Nat) : ¬ treeOf s .empty j := by
  rintro ⟨_, _, b, hb, _⟩; cases hb

theorem init_node (n j : Nat) : nodeAt (init n).heap j = dflt := nodeAt_ge (by simp [init])
theorem init_bin (n b : Nat) : binAt (init n).tbins b = dfltB := binAt_ge (by simp [init])

theorem init_hinv (n : Nat) : HInv (init n) := by
  refine ⟨?_, ?_, ?_, ?_, ?_, ?_, ?_⟩
  · intro id
    rw [init_cellAt]
    refine ⟨?_, ?_, ?_⟩
    · intro i n' j h; simp [init] at h
    · intro h hh; cases hh
    · intro i j hi
      rcases hi with hi | hi
      · simp only [startOf] at hi; rw [chainOf_none] at hi; cases hi
      · exact absurd hi (treeOf_empty _ i)
  · intro j b hj; rw [init_node] at hj; cases hj
  · intro b h hf; rw [init_bin] at hf; cases hf
  · intro id b hb; rw [init_cellAt] at hb; cases hb
  · intro id j hj; rw [init_chainC] at hj; cases hj
  · intro id j hj
    rcases hj with hj | hj
    · rw [init_chainC] at hj; cases hj
    · rw [init_cellAt] at hj; exact absurd hj (treeOf_empty _ j)
  · intro id id' b hb; rw [init_cellAt] at hb; cases hb

theorem init_inv (n : Nat) : Inv (init n) := by
  have hthr : ∀ (t : Nat) (l : Local), (init n).threads[t]? = some l → l.pc = .idle ∧ l.call = none := by
    intro t l hl; rw [init_threads hl]; exact ⟨rfl, rfl⟩
  have hnt : ∀ id b, cellAt (init n) id ≠ .tree b := by intro id b; rw [init_cellAt]; simp
  refine ⟨init_hinv n, ⟨?_, ?_, ?_, ?_, ?_, ?_, ?_⟩, ⟨?_, ?_, ?_, ?_, ?_, ?_, ?_, ?_, ?_, ?_, ?_, ?_, ?_⟩,
    ⟨?_, ?_, ?_, ?_, ?_, ?_, ?_, ?_, ?_, ?_, ?_⟩, ⟨?_, ?_, ?_, ?_⟩⟩
  -- TInv
  · intro t l p hl hc; rw [(hthr t l hl).2] at hc; cases hc
  · intro t l hl; rw [(hthr t l hl).1, (hthr t l hl).2]; simp [noCallPc]
  · intro x hx; simp [init] at hx
  · intro t l p hl hc; rw [(hthr t l hl).2] at hc; cases hc
  · intro x hx; simp [init] at hx
  · intro t t' l l' p p' hl _ hc; rw [(hthr t l hl).2] at hc; cases hc
  · simp [init]
  -- XInv
  · intro t t' l l' hl _ hx; rw [(hthr t l hl).1] at hx; cases hx
  · intro t l hl hx; rw [(hthr t l hl).1] at hx; cases hx
  · rfl
  · intro g row h
    cases g with
    | zero => cases h; rfl
    | succ g => cases h
  · intro g j hg; cases hg
  · intro j; rw [init_cellAt]; simp
  · intro _ j; rw [init_cellAt]; simp
  · intro t l j hl hx; rw [(hthr t l hl).1] at hx; cases hx
  · intro t l j hl hx; rw [(hthr t l hl).1] at hx; cases hx
  · intro t l hl hx; rw [(hthr t l hl).1] at hx; cases hx
  · intro j' h; exact absurd (init_cellAt n _) h
  · intro t l g hl hx; rw [(hthr t l hl).1] at hx; cases hx
  · intro t l hl; rw [(hthr t l hl).1]; trivial
  -- LInv
  · intro t l h hl
    rw [(hthr t l hl).1, init_node]
    constructor
    · intro e; cases e
    · intro e; cases e
  · intro h x hx; rw [init_node] at hx; cases hx
  · intro t l h hl hv; rw [(hthr t l hl).1] at hv; cases hv
  · intro t l b hl
    rw [(hthr t l hl).1, init_bin]
    constructor
    · intro e; cases e
    · intro e; cases e
  · intro b x hx; rw [init_bin] at hx; cases hx
  · intro t l b hl hv; rw [(hthr t l hl).1] at hv; cases hv
  · intro id b hb; exact absurd hb (hnt id b)
  · intro id b t l hb; exact absurd hb (hnt id b)
  · intro b hb; simp [init] at hb
  · intro b hw; rw [init_bin] at hw; cases hw
  · intro t l b hl hr; rw [(hthr t l hl).1] at hr; cases hr
  -- DInv
  · intro t l p hl hc; rw [(hthr t l hl).2] at hc; cases hc
  · intro t l hl; rw [(hthr t l hl).1]; trivial
  · intro id b hb; exact absurd hb (hnt id b)
  · intro id b hb; exact absurd hb (hnt id b)

end Flurry.Proto.BinGNP
