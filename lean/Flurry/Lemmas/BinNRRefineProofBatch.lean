import Flurry.Proto.Reclaim2
/-! # Proto/Reclaim2: runs of batches of events of one kind (used by the refinement proof of `Proto/BinNR`) -/
namespace Flurry.Proto.Reclaim2

theorem run_append (a : State) (e1 e2 : List Ev) :
    run a (e1 ++ e2) = (run a e1).bind (fun a' => run a' e2) := by
  induction e1 generalizing a with
  | nil => rfl
  | cons e es ih =>
    simp only [List.cons_append, run]
    cases step a e with
    | none => rfl
    | some a1 => exact ih a1

theorem run_append_some {a a1 a2 : State} {e1 e2 : List Ev} (h1 : run a e1 = some a1) (h2 : run a1 e2 = some a2) :
    run a (e1 ++ e2) = some a2 := by
  rw [run_append, h1]; exact h2

theorem active_eq {a a' : State} (h1 : a'.nthreads = a.nthreads) (h2 : a'.guarded = a.guarded) :
    active a' = active a := by unfold active; rw [h1, h2]

/-- what `retire` makes of an object -/
def retireOf (act : List Nat) : OSt → OSt
  | .unlinked u => .retired u act
  | st => st

theorem run_acquire (t : Nat) : ∀ (os : List Nat) (a : State),
    (∀ o ∈ os, a.guarded t = true ∧ o < a.nobjs ∧ acquirable t (a.objs o) = true) →
    ∃ a', run a (os.map (Ev.acquire t)) = some a' ∧ a'.objs = a.objs ∧ a'.guarded = a.guarded ∧ a'.nobjs = a.nobjs ∧
      a'.nthreads = a.nthreads ∧ (∀ x, x ≠ t → a'.holds x = a.holds x) ∧
      (∀ o, o ∈ a'.holds t ↔ o ∈ os ∨ o ∈ a.holds t)
  | [], a, _ => ⟨a, rfl, rfl, rfl, rfl, rfl, fun _ _ => rfl, fun o => by simp⟩
  | o :: os, a, h => by
    obtain ⟨h1, h2, h3⟩ := h o List.mem_cons_self
    have hs : step a (.acquire t o) =
        some { a with holds := fun x => if x = t then o :: a.holds t else a.holds x } := by
      unfold step; simp only; rw [if_pos ⟨h1, h2, h3⟩]
    obtain ⟨a', r, e1, e2, e3, e4, e5, e6⟩ := run_acquire t os
      { a with holds := fun x => if x = t then o :: a.holds t else a.holds x }
      (fun o' ho' => h o' (List.mem_cons_of_mem _ ho'))
    refine ⟨a', ?_, e1, e2, e3, e4, ?_, ?_⟩
    · simp only [List.map_cons, run, hs]; exact r
    · intro x hx
      rw [e5 x hx]
      show (if x = t then o :: a.holds t else a.holds x) = a.holds x
      rw [if_neg hx]
    · intro o'
      rw [e6 o']
      show o' ∈ os ∨ o' ∈ (if t = t then o :: a.holds t else a.holds t) ↔ _
      rw [if_pos rfl]
      simp only [List.mem_cons]
      constructor
      · rintro (h | h | h)
        · exact Or.inl (Or.inr h)
        · exact Or.inl (Or.inl h)
        · exact Or.inr h
      · rintro ((h | h) | h)
        · exact Or.inr (Or.inl h)
        · exact Or.inl h
        · exact Or.inr (Or.inr h)

theorem run_touch (t : Nat) : ∀ (os : List Nat) (a : State),
    (∀ o ∈ os, o ∈ a.holds t ∧ a.objs o ≠ .freed) → run a (os.map (Ev.touch t)) = some a
  | [], _, _ => rfl
  | o :: os, a, h => by
    obtain ⟨h1, h2⟩ := h o List.mem_cons_self
    have hs : step a (.touch t o) = some a := by
      unfold step; simp only; rw [if_pos h1, if_neg h2]
    simp only [List.map_cons, run, hs]
    exact run_touch t os a (fun o' ho' => h o' (List.mem_cons_of_mem _ ho'))

theorem run_alloc (t : Nat) : ∀ (k : Nat) (a : State), (k ≠ 0 → a.guarded t = true) →
    ∃ a', run a (List.replicate k (Ev.alloc t)) = some a' ∧ a'.objs = a.objs ∧ a'.guarded = a.guarded ∧
      a'.nobjs = a.nobjs + k ∧ a'.nthreads = a.nthreads ∧ (∀ x, x ≠ t → a'.holds x = a.holds x) ∧
      (∀ o, o ∈ a.holds t → o ∈ a'.holds t)
  | 0, a, _ => ⟨a, rfl, rfl, rfl, rfl, rfl, fun _ _ => rfl, fun _ h => h⟩
  | k + 1, a, h => by
    have hg := h (Nat.succ_ne_zero k)
    have hs : step a (.alloc t) =
        some { a with nobjs := a.nobjs + 1, holds := fun x => if x = t then a.nobjs :: a.holds t else a.holds x } := by
      unfold step; simp only; rw [if_pos hg]
    obtain ⟨a', r, e1, e2, e3, e4, e5, e6⟩ := run_alloc t k
      { a with nobjs := a.nobjs + 1, holds := fun x => if x = t then a.nobjs :: a.holds t else a.holds x }
      (fun _ => hg)
    refine ⟨a', ?_, e1, e2, ?_, e4, ?_, ?_⟩
    · simp only [List.replicate_succ, run, hs]; exact r
    · rw [e3]; show a.nobjs + 1 + k = a.nobjs + (k + 1); omega
    · intro x hx
      rw [e5 x hx]
      show (if x = t then a.nobjs :: a.holds t else a.holds x) = a.holds x
      rw [if_neg hx]
    · intro o ho
      apply e6
      show o ∈ (if t = t then a.nobjs :: a.holds t else a.holds t)
      rw [if_pos rfl]; exact List.mem_cons_of_mem _ ho

theorem run_publish (t : Nat) : ∀ (os : List Nat) (a : State),
    (∀ o ∈ os, a.guarded t = true ∧ o < a.nobjs ∧ a.objs o = .fresh) → os.Nodup →
    ∃ a', run a (os.map (Ev.publish t)) = some a' ∧
      a'.objs = (fun x => if x ∈ os then OSt.linked else a.objs x) ∧ a'.guarded = a.guarded ∧ a'.nobjs = a.nobjs ∧
      a'.nthreads = a.nthreads ∧ a'.holds = a.holds
  | [], a, _, _ => ⟨a, rfl, by funext x; simp, rfl, rfl, rfl, rfl⟩
  | o :: os, a, h, hnd => by
    obtain ⟨h1, h2, h3⟩ := h o List.mem_cons_self
    obtain ⟨hno, hnd'⟩ := List.nodup_cons.1 hnd
    have hs : step a (.publish t o) = some (setObj a o .linked) := by
      unfold step; simp only; rw [if_pos ⟨h2, h3, h1⟩]
    obtain ⟨a', r, e1, e2, e3, e4, e5⟩ := run_publish t os (setObj a o .linked) (by
      intro o' ho'
      obtain ⟨g1, g2, g3⟩ := h o' (List.mem_cons_of_mem _ ho')
      refine ⟨g1, g2, ?_⟩
      show (if o' = o then OSt.linked else a.objs o') = .fresh
      rw [if_neg (fun e : o' = o => hno (by rw [← e]; exact ho'))]; exact g3) hnd'
    refine ⟨a', ?_, ?_, e2, e3, e4, e5⟩
    · simp only [List.map_cons, run, hs]; exact r
    · rw [e1]
      funext x
      show (if x ∈ os then OSt.linked else (if x = o then OSt.linked else a.objs x)) = _
      by_cases hx : x ∈ os
      · rw [if_pos hx, if_pos (List.mem_cons_of_mem _ hx)]
      · rw [if_neg hx]
        by_cases hxo : x = o
        · rw [if_pos hxo, if_pos (by rw [hxo]; exact List.mem_cons_self)]
        · rw [if_neg hxo, if_neg (by simp [hx, hxo])]

theorem run_unlink (t : Nat) : ∀ (os : List Nat) (a : State),
    (∀ o ∈ os, a.objs o = .linked) → os.Nodup →
    ∃ a', run a (os.map (Ev.unlink t)) = some a' ∧
      a'.objs = (fun x => if x ∈ os then OSt.unlinked (active a) else a.objs x) ∧ a'.guarded = a.guarded ∧
      a'.nobjs = a.nobjs ∧ a'.nthreads = a.nthreads ∧ a'.holds = a.holds
  | [], a, _, _ => ⟨a, rfl, by funext x; simp, rfl, rfl, rfl, rfl⟩
  | o :: os, a, h, hnd => by
    have h3 := h o List.mem_cons_self
    obtain ⟨hno, hnd'⟩ := List.nodup_cons.1 hnd
    have hs : step a (.unlink t o) = some (setObj a o (.unlinked (active a))) := by
      unfold step; simp only; rw [if_pos h3]
    obtain ⟨a', r, e1, e2, e3, e4, e5⟩ := run_unlink t os (setObj a o (.unlinked (active a))) (by
      intro o' ho'
      show (if o' = o then OSt.unlinked (active a) else a.objs o') = .linked
      rw [if_neg (fun e : o' = o => hno (by rw [← e]; exact ho'))]; exact h o' (List.mem_cons_of_mem _ ho')) hnd'
    refine ⟨a', ?_, ?_, e2, e3, e4, e5⟩
    · simp only [List.map_cons, run, hs]; exact r
    · rw [e1]
      funext x
      show (if x ∈ os then OSt.unlinked (active a) else (if x = o then OSt.unlinked (active a) else a.objs x)) = _
      by_cases hx : x ∈ os
      · rw [if_pos hx, if_pos (List.mem_cons_of_mem _ hx)]
      · rw [if_neg hx]
        by_cases hxo : x = o
        · rw [if_pos hxo, if_pos (by rw [hxo]; exact List.mem_cons_self)]
        · rw [if_neg hxo, if_neg (by simp [hx, hxo])]

theorem run_retire (t : Nat) : ∀ (os : List Nat) (a : State),
    (∀ o ∈ os, a.guarded t = true ∧ ∃ u, a.objs o = .unlinked u) → os.Nodup →
    ∃ a', run a (os.map (Ev.retire t)) = some a' ∧
      a'.objs = (fun x => if x ∈ os then retireOf (active a) (a.objs x) else a.objs x) ∧ a'.guarded = a.guarded ∧
      a'.nobjs = a.nobjs ∧ a'.nthreads = a.nthreads ∧ a'.holds = a.holds
  | [], a, _, _ => ⟨a, rfl, by funext x; simp, rfl, rfl, rfl, rfl⟩
  | o :: os, a, h, hnd => by
    obtain ⟨h1, u, hu⟩ := h o List.mem_cons_self
    obtain ⟨hno, hnd'⟩ := List.nodup_cons.1 hnd
    have hs : step a (.retire t o) = some (setObj a o (.retired u (active a))) := by
      unfold step; simp only; rw [hu]; simp only; rw [if_pos h1]
    obtain ⟨a', r, e1, e2, e3, e4, e5⟩ := run_retire t os (setObj a o (.retired u (active a))) (by
      intro o' ho'
      obtain ⟨g1, u', hu'⟩ := h o' (List.mem_cons_of_mem _ ho')
      refine ⟨g1, u', ?_⟩
      show (if o' = o then OSt.retired u (active a) else a.objs o') = .unlinked u'
      rw [if_neg (fun e : o' = o => hno (by rw [← e]; exact ho'))]; exact hu') hnd'
    refine ⟨a', ?_, ?_, e2, e3, e4, e5⟩
    · simp only [List.map_cons, run, hs]; exact r
    · rw [e1]
      funext x
      show (if x ∈ os then retireOf (active a) (if x = o then OSt.retired u (active a) else a.objs x)
        else (if x = o then OSt.retired u (active a) else a.objs x)) = _
      by_cases hx : x ∈ os
      · have hxo : x ≠ o := fun e : x = o => hno (by rw [← e]; exact hx)
        rw [if_pos hx, if_pos (List.mem_cons_of_mem _ hx), if_neg hxo]
      · rw [if_neg hx]
        by_cases hxo : x = o
        · rw [if_pos hxo, if_pos (by rw [hxo]; exact List.mem_cons_self), hxo, hu]; rfl
        · rw [if_neg hxo, if_neg (by simp [hx, hxo])]

end Flurry.Proto.Reclaim2
