import Flurry.Lemmas.BinGNOwnDefs
import Flurry.Lemmas.BinGNLive
/-! # Proto/BinGN: every lock word has an owner whose program counter says so; quiescent states

`reachable_owninv`: `OwnInv` holds in every reachable state. Consequences for a quiescent state
(`quiescent_shape`): no resize is half done (`resizing = false`, the tables are exactly the generations
`0 … cur`, generation `cur` holds no forwarding marker, every lookup ends in generation `cur`), and nothing is
left locked (no node lock, no `TreeBin` mutex). -/
namespace Flurry.Proto.BinGN
open Flurry.Lin

macro "lx" : tactic =>
  `(tactic| first
    | exact LockExt.refl _
    | exact LockExt.modify _ _ _ (fun _ => rfl)
    | exact LockExt.append1 _ _ rfl
    | exact (LockExt.append1 _ _ rfl).trans (LockExt.modify _ _ _ (fun _ => rfl))
    | exact copyChain_lockExt _ _ _ (fun _ _ => rfl)
    | (dsimp only [setT, setCell, putCell]; exact copyChain_lockExt _ _ _ (fun _ _ => rfl)))

macro "mx" : tactic =>
  `(tactic| first
    | exact MutexExt.refl _
    | exact MutexExt.modify _ _ _ (fun _ => rfl)
    | exact MutexExt.append1 _ _ rfl)

macro "own_same" O:ident hl:ident : tactic =>
  `(tactic| exact owninv_frame $O $hl rfl (fun h => Or.inl h)
      (by first | exact fun _ => Or.inl rfl | exact fun h => by cases h)
      (hN_same $O $hl (by lx) rfl) (hM_same $O $hl (by mx) rfl))

macro "own_all" O:ident hl:ident hs:ident : tactic =>
  `(tactic| (open_step $hs $hl; (try simp only [afterLock] at $hs:ident); repeat' split at $hs:ident
             all_goals first
               | (cases $hs:ident; done)
               | (cases $hs:ident; own_same $O $hl)
               | (cases $hs:ident; split <;> own_same $O $hl)
               | (cases $hs:ident; split <;> split <;> own_same $O $hl)))

theorem storeAt_ext (s : State) (g : Nat) (p : Pending) (pred hit hnext : Option Nat) :
    (storeAt s g p pred hit hnext).1.threads = s.threads ∧
    (storeAt s g p pred hit hnext).1.resizing = s.resizing ∧ (storeAt s g p pred hit hnext).1.tbins = s.tbins ∧
    LockExt s.heap (storeAt s g p pred hit hnext).1.heap := by
  unfold storeAt
  cases p.op <;> cases hit <;> cases pred <;> cases hnext <;>
    refine ⟨rfl, rfl, rfl, ?_⟩ <;>
    first
      | exact LockExt.refl _
      | exact LockExt.modify _ _ _ (fun _ => rfl)
      | exact (LockExt.append1 _ _ rfl).trans (LockExt.modify _ _ _ (fun _ => rfl))
      | exact LockExt.append1 _ _ rfl

theorem splitSide_ext (s : State) (b : Nat) (c : List Nat) (sm ru : Bool) :
    (splitSide s b c sm ru).1.threads = s.threads ∧ (splitSide s b c sm ru).1.resizing = s.resizing ∧
    LockExt s.heap (splitSide s b c sm ru).1.heap ∧ MutexExt s.tbins (splitSide s b c sm ru).1.tbins := by
  unfold splitSide
  simp only [copyChain]
  split
  · exact ⟨rfl, rfl, .refl _, .refl _⟩
  · split
    · exact ⟨rfl, rfl, LockExt.append _ _ (by intro n hn; simp only [List.mem_map] at hn; obtain ⟨j, -, rfl⟩ := hn; rfl), .refl _⟩
    · split
      · exact ⟨rfl, rfl, .refl _, .refl _⟩
      · exact ⟨rfl, rfl, LockExt.append _ _ (by intro n hn; simp only [List.mem_map] at hn; obtain ⟨j, -, rfl⟩ := hn; rfl), MutexExt.append1 _ _ rfl⟩

theorem splitSide_ext' {s : State} {b : Nat} {c : List Nat} {sm ru : Bool} {s1 : State} {c1 : Cell}
    (h : splitSide s b c sm ru = (s1, c1)) :
    s1.threads = s.threads ∧ s1.resizing = s.resizing ∧ LockExt s.heap s1.heap ∧ MutexExt s.tbins s1.tbins := by
  have := splitSide_ext s b c sm ru
  rw [h] at this
  exact this

section
variable {s s' : State} {t : Nat} {inv : Option (Nat × KOp)} {lo : Bool} {mt : Option Nat} {rz sm sm2 : Bool}
  {pick : Nat} {p : Pending} {c : Option Pending}

theorem own_rTable {x : Bool} (O : OwnInv s)
    (hl : s.threads[t]? = some { pc := .rTable x, call := some p })
    (hs : step s t inv lo mt rz sm sm2 pick = some s') : OwnInv s' := by
  own_all O hl hs

theorem own_rCell {x : Bool} {g : Nat} (O : OwnInv s)
    (hl : s.threads[t]? = some { pc := .rCell x g, call := some p })
    (hs : step s t inv lo mt rz sm sm2 pick = some s') : OwnInv s' := by
  own_all O hl hs

theorem own_rFirst {b : Nat} (O : OwnInv s)
    (hl : s.threads[t]? = some { pc := .rFirst b, call := some p })
    (hs : step s t inv lo mt rz sm sm2 pick = some s') : OwnInv s' := by
  own_all O hl hs

theorem own_rLin {b x : Nat} (O : OwnInv s)
    (hl : s.threads[t]? = some { pc := .rLin b x, call := some p })
    (hs : step s t inv lo mt rz sm sm2 pick = some s') : OwnInv s' := by
  own_all O hl hs

theorem own_rCas {b x r : Nat} (O : OwnInv s)
    (hl : s.threads[t]? = some { pc := .rCas b x r, call := some p })
    (hs : step s t inv lo mt rz sm sm2 pick = some s') : OwnInv s' := by
  own_all O hl hs

theorem own_rTree {b : Nat} (O : OwnInv s)
    (hl : s.threads[t]? = some { pc := .rTree b, call := some p })
    (hs : step s t inv lo mt rz sm sm2 pick = some s') : OwnInv s' := by
  own_all O hl hs

theorem own_rRelease {b : Nat} {x : Option Nat} (O : OwnInv s)
    (hl : s.threads[t]? = some { pc := .rRelease b x, call := some p })
    (hs : step s t inv lo mt rz sm sm2 pick = some s') : OwnInv s' := by
  own_all O hl hs

theorem own_rVal {x : Nat} (O : OwnInv s)
    (hl : s.threads[t]? = some { pc := .rVal x, call := some p })
    (hs : step s t inv lo mt rz sm sm2 pick = some s') : OwnInv s' := by
  own_all O hl hs

theorem own_lFirst {b : Nat} (O : OwnInv s)
    (hl : s.threads[t]? = some { pc := .lFirst b, call := some p })
    (hs : step s t inv lo mt rz sm sm2 pick = some s') : OwnInv s' := by
  own_all O hl hs

theorem own_wTable  (O : OwnInv s)
    (hl : s.threads[t]? = some { pc := .wTable, call := some p })
    (hs : step s t inv lo mt rz sm sm2 pick = some s') : OwnInv s' := by
  own_all O hl hs

theorem own_wCell {g : Nat} (O : OwnInv s)
    (hl : s.threads[t]? = some { pc := .wCell g, call := some p })
    (hs : step s t inv lo mt rz sm sm2 pick = some s') : OwnInv s' := by
  own_all O hl hs

theorem own_wCas {g : Nat} (O : OwnInv s)
    (hl : s.threads[t]? = some { pc := .wCas g, call := some p })
    (hs : step s t inv lo mt rz sm sm2 pick = some s') : OwnInv s' := by
  own_all O hl hs

theorem own_wCheck {g h : Nat} (O : OwnInv s)
    (hl : s.threads[t]? = some { pc := .wCheck g h, call := some p })
    (hs : step s t inv lo mt rz sm sm2 pick = some s') : OwnInv s' := by
  own_all O hl hs

theorem own_tCheck {g b : Nat} (O : OwnInv s)
    (hl : s.threads[t]? = some { pc := .tCheck g b, call := some p })
    (hs : step s t inv lo mt rz sm sm2 pick = some s') : OwnInv s' := by
  own_all O hl hs

theorem own_tFind {g b : Nat} (O : OwnInv s)
    (hl : s.threads[t]? = some { pc := .tFind g b, call := some p })
    (hs : step s t inv lo mt rz sm sm2 pick = some s') : OwnInv s' := by
  own_all O hl hs

theorem own_tVal {g b i : Nat} {v : Nat × Nat} {res : KRes} (O : OwnInv s)
    (hl : s.threads[t]? = some { pc := .tVal g b i v res, call := some p })
    (hs : step s t inv lo mt rz sm sm2 pick = some s') : OwnInv s' := by
  own_all O hl hs

theorem own_tPrependLocked {g b : Nat} (O : OwnInv s)
    (hl : s.threads[t]? = some { pc := .tPrependLocked g b, call := some p })
    (hs : step s t inv lo mt rz sm sm2 pick = some s') : OwnInv s' := by
  own_all O hl hs

theorem own_tTreeLinkLocked {g b x : Nat} (O : OwnInv s)
    (hl : s.threads[t]? = some { pc := .tTreeLinkLocked g b x, call := some p })
    (hs : step s t inv lo mt rz sm sm2 pick = some s') : OwnInv s' := by
  own_all O hl hs

theorem own_tRestructure {g b i : Nat} {res : KRes} (O : OwnInv s)
    (hl : s.threads[t]? = some { pc := .tRestructure g b i res, call := some p })
    (hs : step s t inv lo mt rz sm sm2 pick = some s') : OwnInv s' := by
  own_all O hl hs

theorem own_tUnlockRoot {g b : Nat} {res : KRes} (O : OwnInv s)
    (hl : s.threads[t]? = some { pc := .tUnlockRoot g b res, call := some p })
    (hs : step s t inv lo mt rz sm sm2 pick = some s') : OwnInv s' := by
  own_all O hl hs

theorem own_tUntreeify {g b : Nat} {res : KRes} (O : OwnInv s)
    (hl : s.threads[t]? = some { pc := .tUntreeify g b res, call := some p })
    (hs : step s t inv lo mt rz sm sm2 pick = some s') : OwnInv s' := by
  own_all O hl hs

theorem own_kTable {k : Nat} (O : OwnInv s)
    (hl : s.threads[t]? = some { pc := .kTable k, call := none })
    (hs : step s t inv lo mt rz sm sm2 pick = some s') : OwnInv s' := by
  own_all O hl hs

theorem own_kCell {g k : Nat} (O : OwnInv s)
    (hl : s.threads[t]? = some { pc := .kCell g k, call := none })
    (hs : step s t inv lo mt rz sm sm2 pick = some s') : OwnInv s' := by
  own_all O hl hs

theorem own_kCheck {g k h : Nat} (O : OwnInv s)
    (hl : s.threads[t]? = some { pc := .kCheck g k h, call := none })
    (hs : step s t inv lo mt rz sm sm2 pick = some s') : OwnInv s' := by
  own_all O hl hs

theorem own_kBuild {g k h : Nat} (O : OwnInv s)
    (hl : s.threads[t]? = some { pc := .kBuild g k h, call := none })
    (hs : step s t inv lo mt rz sm sm2 pick = some s') : OwnInv s' := by
  own_all O hl hs

theorem own_kStore {g k h b : Nat} (O : OwnInv s)
    (hl : s.threads[t]? = some { pc := .kStore g k h b, call := none })
    (hs : step s t inv lo mt rz sm sm2 pick = some s') : OwnInv s' := by
  own_all O hl hs

theorem own_xNext  (O : OwnInv s)
    (hl : s.threads[t]? = some { pc := .xNext, call := none })
    (hs : step s t inv lo mt rz sm sm2 pick = some s') : OwnInv s' := by
  own_all O hl hs

theorem own_xCell {j : Nat} (O : OwnInv s)
    (hl : s.threads[t]? = some { pc := .xCell j, call := none })
    (hs : step s t inv lo mt rz sm sm2 pick = some s') : OwnInv s' := by
  own_all O hl hs

theorem own_xCasMoved {j : Nat} (O : OwnInv s)
    (hl : s.threads[t]? = some { pc := .xCasMoved j, call := none })
    (hs : step s t inv lo mt rz sm sm2 pick = some s') : OwnInv s' := by
  own_all O hl hs

theorem own_xStoreLow {j : Nat} {unl : Nat ⊕ Nat} {c1 c2 : Cell} (O : OwnInv s)
    (hl : s.threads[t]? = some { pc := .xStoreLow j unl c1 c2, call := none })
    (hs : step s t inv lo mt rz sm sm2 pick = some s') : OwnInv s' := by
  own_all O hl hs

theorem own_xStoreHigh {j : Nat} {unl : Nat ⊕ Nat} {c2 : Cell} (O : OwnInv s)
    (hl : s.threads[t]? = some { pc := .xStoreHigh j unl c2, call := none })
    (hs : step s t inv lo mt rz sm sm2 pick = some s') : OwnInv s' := by
  own_all O hl hs

theorem own_xStoreMoved {j : Nat} {unl : Nat ⊕ Nat} (O : OwnInv s)
    (hl : s.threads[t]? = some { pc := .xStoreMoved j unl, call := none })
    (hs : step s t inv lo mt rz sm sm2 pick = some s') : OwnInv s' := by
  own_all O hl hs

theorem own_rNode {x : Option Nat} (O : OwnInv s)
    (hl : s.threads[t]? = some { pc := .rNode x, call := some p })
    (hs : step s t inv lo mt rz sm sm2 pick = some s') : OwnInv s' := by
  cases x <;> own_all O hl hs

theorem own_rState {b : Nat} {x : Option Nat} (O : OwnInv s)
    (hl : s.threads[t]? = some { pc := .rState b x, call := some p })
    (hs : step s t inv lo mt rz sm sm2 pick = some s') : OwnInv s' := by
  cases x <;> own_all O hl hs

theorem own_lNode {x : Option Nat} (O : OwnInv s)
    (hl : s.threads[t]? = some { pc := .lNode x, call := some p })
    (hs : step s t inv lo mt rz sm sm2 pick = some s') : OwnInv s' := by
  cases x <;> own_all O hl hs

theorem own_wFind {g h : Nat} {pred cur : Option Nat} (O : OwnInv s)
    (hl : s.threads[t]? = some { pc := .wFind g h pred cur, call := some p })
    (hs : step s t inv lo mt rz sm sm2 pick = some s') : OwnInv s' := by
  cases cur <;> own_all O hl hs

theorem own_lrTry {g b : Nat} {k : After} {res : KRes} (O : OwnInv s)
    (hl : s.threads[t]? = some { pc := .lrTry g b k res, call := some p })
    (hs : step s t inv lo mt rz sm sm2 pick = some s') : OwnInv s' := by
  cases k <;> own_all O hl hs

theorem own_lrLoop {g b : Nat} {k : After} {res : KRes} (O : OwnInv s)
    (hl : s.threads[t]? = some { pc := .lrLoop g b k res, call := some p })
    (hs : step s t inv lo mt rz sm sm2 pick = some s') : OwnInv s' := by
  cases k <;> own_all O hl hs

theorem own_tUnlinkLocked {g b i : Nat} {res : KRes} (O : OwnInv s)
    (hl : s.threads[t]? = some { pc := .tUnlinkLocked g b i res, call := some p })
    (hs : step s t inv lo mt rz sm sm2 pick = some s') : OwnInv s' := by
  open_step hs hl
  cases hs
  split <;> split <;> own_same O hl

theorem own_wStore {g h : Nat} {pred hit hnext : Option Nat} (O : OwnInv s)
    (hl : s.threads[t]? = some { pc := .wStore g h pred hit hnext, call := some p })
    (hs : step s t inv lo mt rz sm sm2 pick = some s') : OwnInv s' := by
  open_step hs hl
  cases hs
  obtain ⟨e1, e2, e3, e4⟩ := storeAt_ext (tick s) g p pred hit hnext
  refine owninv_frame (l' := { pc := .wUnlock g h (storeAt (tick s) g p pred hit hnext).2 false, call := some p })
    O hl ?_ ?_ (fun h => by cases h) (hN_same O hl e4 rfl) (hM_same O hl ?_ rfl)
  · show ((storeAt (tick s) g p pred hit hnext).1.threads).set _ _ = _
    rw [e1]; rfl
  · intro hr
    have : (storeAt (tick s) g p pred hit hnext).1.resizing = true := hr
    rw [e2] at this
    exact Or.inl this
  · show MutexExt s.tbins (storeAt (tick s) g p pred hit hnext).1.tbins
    rw [e3]; exact .refl _

theorem own_xBuild {j h : Nat} (O : OwnInv s)
    (hl : s.threads[t]? = some { pc := .xBuild j h, call := none })
    (hs : step s t inv lo mt rz sm sm2 pick = some s') : OwnInv s' := by
  open_step hs hl
  cases hs
  exact owninv_frame O hl rfl (fun h => Or.inl h) (fun _ => Or.inl rfl)
    (hN_same O hl (splitBinB_lockExt _ _ _) rfl) (hM_same O hl (.refl _) rfl)

theorem own_yBuild {j b : Nat} (O : OwnInv s)
    (hl : s.threads[t]? = some { pc := .yBuild j b, call := none })
    (hs : step s t inv lo mt rz sm sm2 pick = some s') : OwnInv s' := by
  open_step hs hl
  generalize h1 : splitSide _ b _ sm _ = r1 at hs
  obtain ⟨s1, lo1⟩ := r1
  simp only at hs
  generalize h2 : splitSide s1 b _ sm2 _ = r2 at hs
  obtain ⟨s2, hi2⟩ := r2
  simp only at hs
  cases hs
  obtain ⟨a1, a2, a3, a4⟩ := splitSide_ext' h1
  obtain ⟨b1, b2, b3, b4⟩ := splitSide_ext' h2
  refine owninv_frame (l' := { pc := .xStoreLow j (.inr b) lo1 hi2, call := none }) O hl
    (by show s2.threads.set _ _ = _; rw [b1, a1]) (fun h => Or.inl ((b2.trans a2) ▸ h))
    (fun _ => Or.inl rfl) (hN_same O hl (a3.trans b3) rfl) (hM_same O hl (a4.trans b4) rfl)

theorem own_wLock {g h : Nat} (O : OwnInv s)
    (hl : s.threads[t]? = some { pc := .wLock g h, call := some p })
    (hs : step s t inv lo mt rz sm sm2 pick = some s') : OwnInv s' := by
  open_step hs hl
  split at hs
  · cases hs
  · split at hs
    · cases hs
    · cases hs
      exact owninv_frame O hl rfl (fun h => Or.inl h) (fun h => by cases h) (hN_acq (s := s) O hl rfl rfl) (hM_same O hl (.refl _) rfl)

theorem own_kLock {g k h : Nat} (O : OwnInv s)
    (hl : s.threads[t]? = some { pc := .kLock g k h, call := none })
    (hs : step s t inv lo mt rz sm sm2 pick = some s') : OwnInv s' := by
  open_step hs hl
  split at hs
  · cases hs
  · split at hs
    · cases hs
    · cases hs
      exact owninv_frame O hl rfl (fun h => Or.inl h) (fun h => by cases h) (hN_acq (s := s) O hl rfl rfl) (hM_same O hl (.refl _) rfl)

theorem own_xLock {j h : Nat} (O : OwnInv s)
    (hl : s.threads[t]? = some { pc := .xLock j h, call := none })
    (hs : step s t inv lo mt rz sm sm2 pick = some s') : OwnInv s' := by
  open_step hs hl
  split at hs
  · cases hs
  · split at hs
    · cases hs
    · cases hs
      exact owninv_frame O hl rfl (fun h => Or.inl h) (fun _ => Or.inl rfl) (hN_acq (s := s) O hl rfl rfl) (hM_same O hl (.refl _) rfl)

theorem own_tMutex {g b : Nat} (O : OwnInv s)
    (hl : s.threads[t]? = some { pc := .tMutex g b, call := some p })
    (hs : step s t inv lo mt rz sm sm2 pick = some s') : OwnInv s' := by
  open_step hs hl
  split at hs
  · cases hs
  · cases hs
    exact owninv_frame O hl rfl (fun h => Or.inl h) (fun h => by cases h) (hN_same O hl (.refl _) rfl) (hM_acq (s := s) O hl rfl rfl)

theorem own_yMutex {j b : Nat} (O : OwnInv s)
    (hl : s.threads[t]? = some { pc := .yMutex j b, call := none })
    (hs : step s t inv lo mt rz sm sm2 pick = some s') : OwnInv s' := by
  open_step hs hl
  split at hs
  · cases hs
  · cases hs
    exact owninv_frame O hl rfl (fun h => Or.inl h) (fun _ => Or.inl rfl) (hN_same O hl (.refl _) rfl) (hM_acq (s := s) O hl rfl rfl)

theorem own_wUnlock {g h : Nat} {res : KRes} {retry : Bool} (O : OwnInv s)
    (hl : s.threads[t]? = some { pc := .wUnlock g h res retry, call := some p })
    (hs : step s t inv lo mt rz sm sm2 pick = some s') : OwnInv s' := by
  open_step hs hl
  split at hs
  · cases hs
    exact owninv_frame O hl rfl (fun h => Or.inl h) (fun h => by cases h) (hN_rel (s := s) O hl rfl) (hM_same O hl (.refl _) rfl)
  · cases hs
    exact owninv_frame O hl rfl (fun h => Or.inl h) (fun h => by cases h) (hN_rel (s := s) O hl rfl) (hM_same O hl (.refl _) rfl)

theorem own_kUnlock {h : Nat} (O : OwnInv s)
    (hl : s.threads[t]? = some { pc := .kUnlock h, call := none })
    (hs : step s t inv lo mt rz sm sm2 pick = some s') : OwnInv s' := by
  open_step hs hl
  cases hs
  exact owninv_frame O hl rfl (fun h => Or.inl h) (fun h => by cases h) (hN_rel (s := s) O hl rfl) (hM_same O hl (.refl _) rfl)

theorem own_xCheck {j h : Nat} (O : OwnInv s)
    (hl : s.threads[t]? = some { pc := .xCheck j h, call := none })
    (hs : step s t inv lo mt rz sm sm2 pick = some s') : OwnInv s' := by
  open_step hs hl
  split at hs
  · cases hs; own_same O hl
  · cases hs
    exact owninv_frame O hl rfl (fun h => Or.inl h) (fun _ => Or.inl rfl) (hN_rel (s := s) O hl rfl) (hM_same O hl (.refl _) rfl)

theorem own_yCheck {j b : Nat} (O : OwnInv s)
    (hl : s.threads[t]? = some { pc := .yCheck j b, call := none })
    (hs : step s t inv lo mt rz sm sm2 pick = some s') : OwnInv s' := by
  open_step hs hl
  split at hs
  · cases hs; own_same O hl
  · cases hs
    exact owninv_frame O hl rfl (fun h => Or.inl h) (fun _ => Or.inl rfl) (hN_same O hl (.refl _) rfl) (hM_rel (s := s) O hl rfl)

theorem own_tUnlockM {g b : Nat} {res : KRes} {retry : Bool} (O : OwnInv s)
    (hl : s.threads[t]? = some { pc := .tUnlockM g b res retry, call := some p })
    (hs : step s t inv lo mt rz sm sm2 pick = some s') : OwnInv s' := by
  open_step hs hl
  split at hs
  · cases hs
    exact owninv_frame O hl rfl (fun h => Or.inl h) (fun h => by cases h) (hN_same O hl (.refl _) rfl) (hM_rel (s := s) O hl rfl)
  · cases hs
    exact owninv_frame O hl rfl (fun h => Or.inl h) (fun h => by cases h) (hN_same O hl (.refl _) rfl) (hM_rel (s := s) O hl rfl)

theorem own_xUnlock {unl : Nat ⊕ Nat} (O : OwnInv s)
    (hl : s.threads[t]? = some { pc := .xUnlock unl, call := none })
    (hs : step s t inv lo mt rz sm sm2 pick = some s') : OwnInv s' := by
  cases unl with
  | inl h =>
    open_step hs hl
    cases hs
    exact owninv_frame O hl rfl (fun h => Or.inl h) (fun _ => Or.inl rfl) (hN_rel (s := s) O hl rfl) (hM_same O hl (.refl _) rfl)
  | inr b =>
    open_step hs hl
    cases hs
    exact owninv_frame O hl rfl (fun h => Or.inl h) (fun _ => Or.inl rfl) (hN_same O hl (.refl _) rfl) (hM_rel (s := s) O hl rfl)

theorem own_xCommit  (O : OwnInv s)
    (hl : s.threads[t]? = some { pc := .xCommit, call := none })
    (hs : step s t inv lo mt rz sm sm2 pick = some s') : OwnInv s' := by
  open_step hs hl
  cases hs
  exact owninv_frame O hl rfl (fun h => by cases h) (fun _ => Or.inr rfl) (hN_same O hl (.refl _) rfl)
    (hM_same O hl (.refl _) rfl)

theorem own_idle (O : OwnInv s) (hl : s.threads[t]? = some { pc := .idle, call := c })
    (hs : step s t inv lo mt rz sm sm2 pick = some s') : OwnInv s' := by
  unfold step stepG at hs; rw [hl] at hs; simp only at hs
  split at hs
  · split at hs
    · cases hs
      exact owninv_frame (l' := { pc := .idle, call := c }) O hl (set_same hl) (fun h => Or.inl h) (fun h => by cases h)
        (hN_same O hl (.refl _) rfl) (hM_same O hl (.refl _) rfl)
    · cases hs
      exact owninv_frame O hl rfl (fun _ => Or.inr rfl) (fun h => by cases h)
        (hN_same O hl (.refl _) rfl) (hM_same O hl (.refl _) rfl)
  · split at hs
    · cases hs; own_same O hl
    · split at hs
      · cases hs
        exact owninv_frame (l' := { pc := .idle, call := c }) O hl (set_same hl) (fun h => Or.inl h) (fun h => by cases h)
          (hN_same O hl (.refl _) rfl) (hM_same O hl (.refl _) rfl)
      · cases hs
        split <;> own_same O hl

end

theorem init_owninv (n : Nat) : OwnInv (init n) := by
  refine ⟨?_, ?_, ?_⟩
  · intro h x hx
    have : lockAt ([] : List NodeS) h = some x := hx
    unfold lockAt at this; simp at this; cases this
  · intro b x hx
    have : mutexAt ([] : List TBin) b = some x := hx
    unfold mutexAt at this; simp at this; cases this
  · intro h; cases h

theorem step_owninv {s s' : State} {t : Nat} {inv : Option (Nat × KOp)} {lo : Bool} {mt : Option Nat}
    {rz sm sm2 : Bool} {pick : Nat} (O : OwnInv s)
    (hs : step s t inv lo mt rz sm sm2 pick = some s') : OwnInv s' := by
  cases hl : s.threads[t]? with
  | none => unfold step stepG at hs; rw [hl] at hs; cases hs
  | some l =>
    obtain ⟨pc, call⟩ := l
    cases pc with
    | idle => exact own_idle O hl hs
    | rTable x => cases call with
      | none => unfold step stepG at hs; rw [hl] at hs; simp at hs
      | some p => exact own_rTable O hl hs
    | rCell x g => cases call with
      | none => unfold step stepG at hs; rw [hl] at hs; simp at hs
      | some p => exact own_rCell O hl hs
    | rFirst b => cases call with
      | none => unfold step stepG at hs; rw [hl] at hs; simp at hs
      | some p => exact own_rFirst O hl hs
    | rLin b x => cases call with
      | none => unfold step stepG at hs; rw [hl] at hs; simp at hs
      | some p => exact own_rLin O hl hs
    | rCas b x r => cases call with
      | none => unfold step stepG at hs; rw [hl] at hs; simp at hs
      | some p => exact own_rCas O hl hs
    | rTree b => cases call with
      | none => unfold step stepG at hs; rw [hl] at hs; simp at hs
      | some p => exact own_rTree O hl hs
    | rRelease b x => cases call with
      | none => unfold step stepG at hs; rw [hl] at hs; simp at hs
      | some p => exact own_rRelease O hl hs
    | rVal x => cases call with
      | none => unfold step stepG at hs; rw [hl] at hs; simp at hs
      | some p => exact own_rVal O hl hs
    | lFirst b => cases call with
      | none => unfold step stepG at hs; rw [hl] at hs; simp at hs
      | some p => exact own_lFirst O hl hs
    | wTable => cases call with
      | none => unfold step stepG at hs; rw [hl] at hs; simp at hs
      | some p => exact own_wTable O hl hs
    | wCell g => cases call with
      | none => unfold step stepG at hs; rw [hl] at hs; simp at hs
      | some p => exact own_wCell O hl hs
    | wCas g => cases call with
      | none => unfold step stepG at hs; rw [hl] at hs; simp at hs
      | some p => exact own_wCas O hl hs
    | wCheck g h => cases call with
      | none => unfold step stepG at hs; rw [hl] at hs; simp at hs
      | some p => exact own_wCheck O hl hs
    | tCheck g b => cases call with
      | none => unfold step stepG at hs; rw [hl] at hs; simp at hs
      | some p => exact own_tCheck O hl hs
    | tFind g b => cases call with
      | none => unfold step stepG at hs; rw [hl] at hs; simp at hs
      | some p => exact own_tFind O hl hs
    | tVal g b i v res => cases call with
      | none => unfold step stepG at hs; rw [hl] at hs; simp at hs
      | some p => exact own_tVal O hl hs
    | tPrependLocked g b => cases call with
      | none => unfold step stepG at hs; rw [hl] at hs; simp at hs
      | some p => exact own_tPrependLocked O hl hs
    | tTreeLinkLocked g b x => cases call with
      | none => unfold step stepG at hs; rw [hl] at hs; simp at hs
      | some p => exact own_tTreeLinkLocked O hl hs
    | tRestructure g b i res => cases call with
      | none => unfold step stepG at hs; rw [hl] at hs; simp at hs
      | some p => exact own_tRestructure O hl hs
    | tUnlockRoot g b res => cases call with
      | none => unfold step stepG at hs; rw [hl] at hs; simp at hs
      | some p => exact own_tUnlockRoot O hl hs
    | tUntreeify g b res => cases call with
      | none => unfold step stepG at hs; rw [hl] at hs; simp at hs
      | some p => exact own_tUntreeify O hl hs
    | kTable k => cases call with
      | some p => unfold step stepG at hs; rw [hl] at hs; simp at hs
      | none => exact own_kTable O hl hs
    | kCell g k => cases call with
      | some p => unfold step stepG at hs; rw [hl] at hs; simp at hs
      | none => exact own_kCell O hl hs
    | kCheck g k h => cases call with
      | some p => unfold step stepG at hs; rw [hl] at hs; simp at hs
      | none => exact own_kCheck O hl hs
    | kBuild g k h => cases call with
      | some p => unfold step stepG at hs; rw [hl] at hs; simp at hs
      | none => exact own_kBuild O hl hs
    | kStore g k h b => cases call with
      | some p => unfold step stepG at hs; rw [hl] at hs; simp at hs
      | none => exact own_kStore O hl hs
    | xNext => cases call with
      | some p => unfold step stepG at hs; rw [hl] at hs; simp at hs
      | none => exact own_xNext O hl hs
    | xCell j => cases call with
      | some p => unfold step stepG at hs; rw [hl] at hs; simp at hs
      | none => exact own_xCell O hl hs
    | xCasMoved j => cases call with
      | some p => unfold step stepG at hs; rw [hl] at hs; simp at hs
      | none => exact own_xCasMoved O hl hs
    | xStoreLow j unl c1 c2 => cases call with
      | some p => unfold step stepG at hs; rw [hl] at hs; simp at hs
      | none => exact own_xStoreLow O hl hs
    | xStoreHigh j unl c2 => cases call with
      | some p => unfold step stepG at hs; rw [hl] at hs; simp at hs
      | none => exact own_xStoreHigh O hl hs
    | xStoreMoved j unl => cases call with
      | some p => unfold step stepG at hs; rw [hl] at hs; simp at hs
      | none => exact own_xStoreMoved O hl hs
    | rNode x => cases call with
      | none => unfold step stepG at hs; rw [hl] at hs; simp at hs
      | some p => exact own_rNode O hl hs
    | rState b x => cases call with
      | none => unfold step stepG at hs; rw [hl] at hs; simp at hs
      | some p => exact own_rState O hl hs
    | lNode x => cases call with
      | none => unfold step stepG at hs; rw [hl] at hs; simp at hs
      | some p => exact own_lNode O hl hs
    | wFind g h pred cur => cases call with
      | none => unfold step stepG at hs; rw [hl] at hs; simp at hs
      | some p => exact own_wFind O hl hs
    | lrTry g b k res => cases call with
      | none => unfold step stepG at hs; rw [hl] at hs; simp at hs
      | some p => exact own_lrTry O hl hs
    | lrLoop g b k res => cases call with
      | none => unfold step stepG at hs; rw [hl] at hs; simp at hs
      | some p => exact own_lrLoop O hl hs
    | tUnlinkLocked g b i res => cases call with
      | none => unfold step stepG at hs; rw [hl] at hs; simp at hs
      | some p => exact own_tUnlinkLocked O hl hs
    | wStore g h pred hit hnext => cases call with
      | none => unfold step stepG at hs; rw [hl] at hs; simp at hs
      | some p => exact own_wStore O hl hs
    | xBuild j h => cases call with
      | some p => unfold step stepG at hs; rw [hl] at hs; simp at hs
      | none => exact own_xBuild O hl hs
    | yBuild j b => cases call with
      | some p => unfold step stepG at hs; rw [hl] at hs; simp at hs
      | none => exact own_yBuild O hl hs
    | wLock g h => cases call with
      | none => unfold step stepG at hs; rw [hl] at hs; simp at hs
      | some p => exact own_wLock O hl hs
    | kLock g k h => cases call with
      | some p => unfold step stepG at hs; rw [hl] at hs; simp at hs
      | none => exact own_kLock O hl hs
    | xLock j h => cases call with
      | some p => unfold step stepG at hs; rw [hl] at hs; simp at hs
      | none => exact own_xLock O hl hs
    | tMutex g b => cases call with
      | none => unfold step stepG at hs; rw [hl] at hs; simp at hs
      | some p => exact own_tMutex O hl hs
    | yMutex j b => cases call with
      | some p => unfold step stepG at hs; rw [hl] at hs; simp at hs
      | none => exact own_yMutex O hl hs
    | wUnlock g h res retry => cases call with
      | none => unfold step stepG at hs; rw [hl] at hs; simp at hs
      | some p => exact own_wUnlock O hl hs
    | kUnlock h => cases call with
      | some p => unfold step stepG at hs; rw [hl] at hs; simp at hs
      | none => exact own_kUnlock O hl hs
    | xCheck j h => cases call with
      | some p => unfold step stepG at hs; rw [hl] at hs; simp at hs
      | none => exact own_xCheck O hl hs
    | yCheck j b => cases call with
      | some p => unfold step stepG at hs; rw [hl] at hs; simp at hs
      | none => exact own_yCheck O hl hs
    | tUnlockM g b res retry => cases call with
      | none => unfold step stepG at hs; rw [hl] at hs; simp at hs
      | some p => exact own_tUnlockM O hl hs
    | xUnlock unl => cases call with
      | some p => unfold step stepG at hs; rw [hl] at hs; simp at hs
      | none => exact own_xUnlock O hl hs
    | xCommit => cases call with
      | some p => unfold step stepG at hs; rw [hl] at hs; simp at hs
      | none => exact own_xCommit O hl hs

theorem reachable_owninv {n : Nat} {s : State} (hr : Reachable n s) : OwnInv s := by
  induction hr with
  | init => exact init_owninv n
  | step t inv lo mt rz sm sm2 pick _ hs ih => exact step_owninv ih hs

/-- **a quiescent state**: no resize is half done — `resizing` is clear, the tables are exactly the generations
`0 … cur`, generation `cur` holds no forwarding marker and every lookup ends there — and nothing is left locked:
no node lock and no `TreeBin` mutex is taken -/
theorem quiescent_shape_aux {n : Nat} {s : State} (hr : Reachable n s) (hq : quiescent s) :
    s.resizing = false ∧ s.tabs.length = s.cur + 1 ∧ (∀ j, cellAt s s.cur j ≠ .moved) ∧
    (∀ k, liveCell s k = cellOf s s.cur k) ∧ (∀ h, lockAt s.heap h = none) ∧ (∀ b, mutexAt s.tbins b = none) := by
  have I := reachable_geninv hr
  have O := reachable_owninv hr
  have hidle : ∀ (t : Nat) (l : Local), s.threads[t]? = some l → l.pc = .idle :=
    fun t l h => hq l (List.mem_of_getElem? h)
  have hres : s.resizing = false := by
    cases hx : s.resizing with
    | false => rfl
    | true =>
      obtain ⟨t, l, a, b⟩ := O.resX hx
      obtain ⟨pc, call⟩ := l
      have := hidle t _ a
      simp only at this; subst this
      cases b
  have hnm : ∀ j, cellAt s s.cur j ≠ .moved := by
    intro j hm
    have := I.curMoved j hm
    rw [hres] at this; cases this
  refine ⟨hres, by have := I.len; rw [hres] at this; simpa using this, hnm, ?_, ?_, ?_⟩
  · intro k
    rw [I.liveCell_eq]
    exact if_neg (hnm (k % 2 ^ s.cur))
  · intro h
    cases hx : lockAt s.heap h with
    | none => rfl
    | some x =>
      obtain ⟨l, a, b⟩ := O.ownN h x hx
      obtain ⟨pc, call⟩ := l
      have := hidle x _ a
      simp only at this; subst this
      cases b
  · intro b
    cases hx : mutexAt s.tbins b with
    | none => rfl
    | some x =>
      obtain ⟨l, a, c⟩ := O.ownM b x hx
      obtain ⟨pc, call⟩ := l
      have := hidle x _ a
      simp only at this; subst this
      cases c

end Flurry.Proto.BinGN
