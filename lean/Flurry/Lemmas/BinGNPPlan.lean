import Flurry.Lemmas.BinGNPInv
import Flurry.Lemmas.BinGNPSplit
import Flurry.Lemmas.BinGNPStep
/-! # Proto/BinGN (port of `Lemmas/BinGPlan.lean`): the two build steps of a transfer establish `Plan`

What differs from `Lemmas/BinGPlan.lean`: the cell under transfer is `(s.cur, jc)` (`j` is an extra argument of
`YPre`, `NewOrOld`, `Plan`), the split bit is `bitAt s.cur` (`sideSel g side` with a free generation `g` in the lemmas
about one side); `Ext` says `tabs` is unchanged (instead of the three cells) and carries `reusing` (a thread that is
past the first store of a transfer re-using a `TreeBin` stays there), which `HInv.binsDistinct` needs.

`xbuild_plan`: the list split (`xBuild`); `ybuild_plan`: the tree split (`yBuild`).
* `Ext s s'`: the heap and the `TreeBin` table are extended at the end (old nodes and old bins are
  untouched, new nodes are owned by new bins or by nobody); `Ext.hinv`, `Ext.chainC_eq`,
  `Ext.copyOK`: the heap invariant, the chains of all old structures and `CopyOK` survive;
* `copyOK_of_sideSpec`: what `splitBin_spec` says about one side is `CopyOK` of a plain list;
* `copyOK_empty`, `copyOK_reuse`, `copyOK_copies`: the outcomes of `splitSide`;
  `splitSide_spec` combines them. -/
namespace Flurry.Proto.BinGNP
open Flurry.Lin
open Flurry.Proto.BinK (nodeAt binAt NextOK IsChain IsSeg chainOf CInv copiesOf)

/-! ## extension of the heap and of the `TreeBin` table -/

structure Ext (s s' : State) : Prop where
  tabs : s'.tabs = s.tabs
  cur : s'.cur = s.cur
  heap : ∃ ext, s'.heap = s.heap ++ ext ∧ ∀ n ∈ ext, n.lock = none
  tbins : ∃ extb, s'.tbins = s.tbins ++ extb ∧ ∀ x ∈ extb, x = { first := x.first }
  nextOK : NextOK s'.heap
  /-- a new node is owned by a new bin or by nobody -/
  newOwner : ∀ j b, s.heap.length ≤ j → (nodeAt s'.heap j).owner = some b →
    s.tbins.length ≤ b ∧ b < s'.tbins.length
  newFirst : ∀ b h, s.tbins.length ≤ b → (binAt s'.tbins b).first = some h → h < s'.heap.length
  /-- a transfer that re-uses a `TreeBin` and is past its first store stays there -/
  reusing : ∀ b j0, Reusing s b j0 → Reusing s' b j0

theorem Ext.refl {s : State} (hok : NextOK s.heap) : Ext s s := by
  refine ⟨rfl, rfl, ⟨[], by simp, fun n hn => by cases hn⟩, ⟨[], by simp, fun n hn => by cases hn⟩, hok, ?_, ?_,
    fun _ _ h => h⟩
  · intro j b hj ho
    rw [Flurry.Proto.BinK.nodeAt_ge hj] at ho; cases ho
  · intro b h hb hf
    rw [Flurry.Proto.BinK.binAt_ge hb] at hf; cases hf

theorem Ext.hlen {s s' : State} (e : Ext s s') : s.heap.length ≤ s'.heap.length := by
  obtain ⟨ext, h, -⟩ := e.heap
  rw [h, List.length_append]; omega

theorem Ext.blen {s s' : State} (e : Ext s s') : s.tbins.length ≤ s'.tbins.length := by
  obtain ⟨ext, h, -⟩ := e.tbins
  rw [h, List.length_append]; omega

theorem Ext.get {s s' : State} (e : Ext s s') {j : Nat} (hj : j < s.heap.length) : s'.heap[j]? = s.heap[j]? := by
  obtain ⟨ext, h, -⟩ := e.heap
  rw [h, List.getElem?_append_left hj]

theorem Ext.old {s s' : State} (e : Ext s s') {j : Nat} (hj : j < s.heap.length) :
    nodeAt s'.heap j = nodeAt s.heap j := by
  obtain ⟨ext, h, -⟩ := e.heap
  rw [h]; exact Flurry.Proto.BinK.nodeAt_append_left _ hj

theorem Ext.bold {s s' : State} (e : Ext s s') {b : Nat} (hb : b < s.tbins.length) :
    binAt s'.tbins b = binAt s.tbins b := by
  obtain ⟨ext, h, -⟩ := e.tbins
  rw [h]; exact Flurry.Proto.BinK.binAt_append_left _ hb

theorem Ext.cellAt_eq {s s' : State} (e : Ext s s') (id : Cid) : cellAt s' id = cellAt s id := by
  unfold cellAt Flurry.Proto.BinGN.cellAt
  rw [e.tabs]

theorem Ext.trans {s s1 s2 : State} (e1 : Ext s s1) (e2 : Ext s1 s2) : Ext s s2 := by
  refine ⟨e2.tabs.trans e1.tabs, e2.cur.trans e1.cur, ?_, ?_,
    e2.nextOK, ?_, ?_, fun b j0 h => e2.reusing b j0 (e1.reusing b j0 h)⟩
  · obtain ⟨x1, h1, a1⟩ := e1.heap
    obtain ⟨x2, h2, a2⟩ := e2.heap
    refine ⟨x1 ++ x2, by rw [h2, h1, List.append_assoc], ?_⟩
    intro n hn
    rcases List.mem_append.1 hn with h | h
    · exact a1 n h
    · exact a2 n h
  · obtain ⟨x1, h1, a1⟩ := e1.tbins
    obtain ⟨x2, h2, a2⟩ := e2.tbins
    refine ⟨x1 ++ x2, by rw [h2, h1, List.append_assoc], ?_⟩
    intro n hn
    rcases List.mem_append.1 hn with h | h
    · exact a1 n h
    · exact a2 n h
  · intro j b hj ho
    have hb1 := e1.blen
    have hb2 := e2.blen
    by_cases hj1 : j < s1.heap.length
    · rw [e2.old hj1] at ho
      have := e1.newOwner j b hj ho
      omega
    · have := e2.newOwner j b (by omega) ho
      omega
  · intro b h hb hf
    by_cases hb1 : b < s1.tbins.length
    · rw [e2.bold hb1] at hf
      have := e1.newFirst b h hb hf
      have := e2.hlen
      omega
    · exact e2.newFirst b h (by omega) hf

/-- a chain of the old heap is a chain of the new heap -/
theorem Ext.isSeg {s s' : State} (e : Ext s s') {a en : Option Nat} {l : List Nat} (h : IsSeg s.heap a l en) :
    IsSeg s'.heap a l en := by
  refine h.congr ?_
  intro j _ n hn
  have hjl : j < s.heap.length := (List.getElem?_eq_some_iff.1 hn).1
  exact ⟨n, by rw [e.get hjl, hn], rfl⟩

theorem Ext.chainOf_eq {s s' : State} (e : Ext s s') (hok : NextOK s.heap) {st : Option Nat}
    (hst : ∀ i, st = some i → i < s.heap.length) : chainOf s'.heap st = chainOf s.heap st :=
  Flurry.Proto.BinK.chainOf_eq e.nextOK (e.isSeg (Flurry.Proto.BinK.chainOf_isChain hok st hst))

theorem Ext.startOf_eq {s s' : State} (e : Ext s s') {c : Cell} (hc : ∀ b, c = .tree b → b < s.tbins.length) :
    startOf s'.tbins c = startOf s.tbins c := by
  cases c with
  | empty => rfl
  | list h => rfl
  | tree b => exact congrArg (fun x => x.first) (e.bold (hc b rfl))
  | moved => rfl

/-- the list of an old structure -/
theorem Ext.chainC_eq {s s' : State} (e : Ext s s') (hok : NextOK s.heap) {c : Cell}
    (hst : ∀ x, startOf s.tbins c = some x → x < s.heap.length) (hc : ∀ b, c = .tree b → b < s.tbins.length) :
    chainC s' c = chainC s c := by
  unfold chainC
  rw [e.startOf_eq hc]
  exact e.chainOf_eq hok hst

theorem Ext.treeOf_iff {s s' : State} (e : Ext s s') {c : Cell} (hc : ∀ b, c = .tree b → b < s.tbins.length)
    (j : Nat) : treeOf s' c j ↔ treeOf s c j := by
  unfold treeOf
  by_cases hj : j < s.heap.length
  · rw [e.old hj]
    have := e.hlen
    constructor
    · rintro ⟨_, h2, h3⟩; exact ⟨hj, h2, h3⟩
    · rintro ⟨_, h2, h3⟩; exact ⟨by omega, h2, h3⟩
  · constructor
    · rintro ⟨_, _, b, rfl, ho⟩
      have := (e.newOwner j b (by omega) ho).1
      have := hc b rfl
      omega
    · rintro ⟨h1, _⟩; exact absurd h1 hj

theorem Ext.cinv {s s' : State} (e : Ext s s') {c : Cell} (hc : ∀ b, c = .tree b → b < s.tbins.length)
    (C : CInv s.heap (startOf s.tbins c) (treeOf s c)) : CInv s'.heap (startOf s'.tbins c) (treeOf s' c) := by
  have hch : chainOf s'.heap (startOf s.tbins c) = chainOf s.heap (startOf s.tbins c) :=
    e.chainOf_eq C.nextOK C.startOK
  rw [e.startOf_eq hc]
  refine ⟨e.nextOK, fun h hh => Nat.lt_of_lt_of_le (C.startOK h hh) e.hlen, ?_⟩
  have hal : ∀ a, (a ∈ chainOf s'.heap (startOf s.tbins c) ∨ treeOf s' c a) →
      a < s.heap.length ∧ (a ∈ chainOf s.heap (startOf s.tbins c) ∨ treeOf s c a) := by
    intro a ha
    rcases ha with h | h
    · rw [hch] at h; exact ⟨C.chain_lt h, Or.inl h⟩
    · have := (e.treeOf_iff hc a).1 h
      exact ⟨this.1, Or.inr this⟩
  intro a b ha hb hab
  obtain ⟨ha1, ha2⟩ := hal a ha
  obtain ⟨hb1, hb2⟩ := hal b hb
  rw [e.old ha1, e.old hb1] at hab
  exact C.keysDistinct a b ha2 hb2 hab

/-- the heap invariant survives an extension -/
theorem Ext.hinv {s s' : State} (e : Ext s s') (H : HInv s) : HInv s' := by
  have hcell : ∀ id b, cellAt s id = .tree b → b < s.tbins.length := H.cellOK
  have hchain : ∀ id, chainC s' (cellAt s id) = chainC s (cellAt s id) := fun id =>
    e.chainC_eq H.nextOK (H.cinv id).startOK (hcell id)
  refine ⟨?_, ?_, ?_, ?_, ?_, ?_, ?_⟩
  · intro id
    rw [e.cellAt_eq]
    exact e.cinv (hcell id) (H.cinv id)
  · intro j b ho
    by_cases hj : j < s.heap.length
    · rw [e.old hj] at ho
      exact Nat.lt_of_lt_of_le (H.ownerOK j b ho) e.blen
    · exact (e.newOwner j b (by omega) ho).2
  · intro b h hf
    by_cases hb : b < s.tbins.length
    · rw [e.bold hb] at hf
      exact Nat.lt_of_lt_of_le (H.firstOK b h hf) e.hlen
    · exact e.newFirst b h (by omega) hf
  · intro id b hb
    rw [e.cellAt_eq] at hb
    exact Nat.lt_of_lt_of_le (hcell id b hb) e.blen
  · intro id j hj
    rw [e.cellAt_eq] at hj ⊢
    rw [hchain] at hj
    rw [e.old ((H.cinv id).chain_lt hj)]
    exact H.chainOwner id j hj
  · intro id j hj
    rw [e.cellAt_eq, hchain, e.treeOf_iff (hcell id)] at hj
    have hjl : j < s.heap.length := by
      rcases hj with h | h
      · exact (H.cinv id).chain_lt h
      · exact h.1
    rw [e.old hjl]
    exact H.side id j hj
  · intro id id' b h1 h2
    rw [e.cellAt_eq] at h1 h2
    rcases H.binsDistinct id id' b h1 h2 with h | ⟨j0, hr, hc⟩
    · exact Or.inl h
    · exact Or.inr ⟨j0, e.reusing b j0 hr, by rw [e.cur]; exact hc⟩

/-- `CopyOK` survives an extension -/
theorem Ext.copyOK {s s' : State} (e : Ext s s') (hok : NextOK s.heap) {old : Cell} {sel : Nat → Bool} {C : Cell}
    (hoS : ∀ x, startOf s.tbins old = some x → x < s.heap.length) (hoB : ∀ b, old = .tree b → b < s.tbins.length)
    (h : CopyOK s old sel C) : CopyOK s' old sel C := by
  have eC : chainC s' C = chainC s C := e.chainC_eq hok h.cinv.startOK h.cellOK
  have eO : chainC s' old = chainC s old := e.chainC_eq hok hoS hoB
  have hCl : ∀ j ∈ chainC s C, j < s.heap.length := fun j hj => h.cinv.chain_lt hj
  have hOl : ∀ j ∈ chainC s old, j < s.heap.length :=
    (Flurry.Proto.BinK.chainOf_isChain hok _ hoS).lt_length
  have ht : ∀ j, treeOf s' C j ↔ treeOf s C j := e.treeOf_iff h.cellOK
  refine ⟨h.notMoved, e.cinv h.cellOK h.cinv, ?_, ?_, ?_, ?_, ?_, ?_, ?_, ?_⟩
  · intro b hb'
    exact Nat.lt_of_lt_of_le (h.cellOK b hb') e.blen
  · intro j hj
    rw [eC] at hj
    rw [e.old (hCl j hj)]; exact h.chainOwner j hj
  · intro j hj
    rw [eC, ht] at hj
    have hjl : j < s.heap.length := by
      rcases hj with h1 | h1
      · exact hCl j h1
      · exact h1.1
    rw [e.old hjl]; exact h.selOK j hj
  · intro j hj hjo
    rw [eC] at hj
    rw [eO] at hjo
    obtain ⟨i, hi1, hi2, hi3, hi4⟩ := h.src j hj hjo
    refine ⟨i, by rw [eO]; exact hi1, by rw [e.old (hOl i hi1), e.old (hCl j hj)]; exact hi2,
      by rw [e.old (hOl i hi1), e.old (hCl j hj)]; exact hi3, ?_⟩
    intro r hr hrc
    rw [eO] at hr ⊢
    rw [eC] at hrc
    exact hi4 r hr hrc
  · intro i hi1 hsel
    rw [eO] at hi1
    rw [e.old (hOl i hi1)] at hsel
    obtain ⟨j, hj1, hj2, hj3, hj4⟩ := h.cover i hi1 hsel
    refine ⟨j, by rw [eC]; exact hj1, by rw [e.old (hOl i hi1), e.old (hCl j hj1)]; exact hj2,
      by rw [e.old (hOl i hi1), e.old (hCl j hj1)]; exact hj3, ?_⟩
    rw [eO]; exact hj4
  · intro r hr hrc i hi1 hsub
    rw [eO] at hr hi1 hsub
    rw [eC] at hrc ⊢
    exact h.suffix r hr hrc i hi1 hsub
  · intro i c hi1 hc hsub
    rw [eO] at hi1 hc ⊢
    rw [eC] at hsub
    exact h.order i c hi1 hc hsub
  · intro b hCb hob
    obtain ⟨f1, f2, f3⟩ := h.fresh b hCb hob
    refine ⟨by rw [e.bold (h.cellOK b hCb)]; exact f1, ?_, ?_⟩
    · intro j hj
      rw [eC]
      by_cases hjl : j < s.heap.length
      · rw [e.old hjl]; exact f2 j hjl
      · constructor
        · intro ho
          have := (e.newOwner j b (by omega) ho).1
          have := h.cellOK b hCb
          omega
        · intro hc; exact absurd (hCl j hc) hjl
    · intro j hj
      rw [eC] at hj
      rw [e.old (hCl j hj)]; exact f3 j hj

/-! ## a plain list as one side of a split -/

theorem startOf_cellOfHead (tb : List TBin) (hd : Option Nat) : startOf tb (cellOfHead hd) = hd := by
  cases hd <;> rfl

theorem not_treeOf_cellOfHead (s : State) (hd : Option Nat) (j : Nat) : ¬ treeOf s (cellOfHead hd) j := by
  rintro ⟨_, _, b, hb, _⟩
  cases hd <;> cases hb

theorem ownerOf_cellOfHead (hd : Option Nat) : ownerOf (cellOfHead hd) = none := by
  cases hd <;> rfl

theorem cellOfHead_ne_tree (hd : Option Nat) (b : Nat) : cellOfHead hd ≠ .tree b := by
  cases hd <;> intro h <;> cases h

theorem cellOfHead_ne_moved (hd : Option Nat) : cellOfHead hd ≠ .moved := by
  cases hd <;> intro h <;> cases h

/-- what a split guarantees about one side is `CopyOK` of the plain list made for that side -/
theorem copyOK_of_sideSpec {s s' : State} {jc : Nat} (e : Ext s s') (H : HInv s) {side : Bool} {hd : Option Nat}
    {X : List Nat}
    (hX : IsChain s'.heap hd X)
    (hS : SideSpec (bitAt s.cur) s.heap s'.heap (chainC s (cellAt s (s.cur, jc))) side X)
    (hown : ∀ j ∈ X, (nodeAt s'.heap j).owner = none) :
    CopyOK s' (cellAt s' (s'.cur, jc)) (sideSel s'.cur side) (cellOfHead hd) := by
  rw [e.cur, e.cellAt_eq]
  have eO : chainC s' (cellAt s (s.cur, jc)) = chainC s (cellAt s (s.cur, jc)) :=
    e.chainC_eq H.nextOK (H.cinv (s.cur, jc)).startOK (H.cellOK (s.cur, jc))
  have hOl : ∀ j ∈ chainC s (cellAt s (s.cur, jc)), j < s.heap.length := fun j hj => (H.cinv (s.cur, jc)).chain_lt hj
  have eC : chainC s' (cellOfHead hd) = X := by
    unfold chainC
    rw [startOf_cellOfHead]
    exact Flurry.Proto.BinK.chainOf_eq e.nextOK hX
  refine ⟨cellOfHead_ne_moved hd, ?_, ?_, ?_, ?_, ?_, ?_, ?_, ?_, ?_⟩
  · rw [startOf_cellOfHead]
    refine ⟨e.nextOK, ?_, ?_⟩
    · intro h hh
      subst hh
      obtain ⟨l, rfl⟩ := Flurry.Proto.BinK.IsChain.start_some hX
      exact hX.lt_length h (by simp)
    · intro a b ha hb hab
      rw [Flurry.Proto.BinK.chainOf_eq e.nextOK hX] at ha hb
      have ha' : a ∈ X := by
        rcases ha with h | h
        · exact h
        · exact absurd h (not_treeOf_cellOfHead s' hd a)
      have hb' : b ∈ X := by
        rcases hb with h | h
        · exact h
        · exact absurd h (not_treeOf_cellOfHead s' hd b)
      exact hS.keys a b ha' hb' hab
  · intro b hb; exact absurd hb (cellOfHead_ne_tree hd b)
  · intro j hj
    rw [eC] at hj
    rw [ownerOf_cellOfHead]; exact hown j hj
  · intro j hj
    rw [eC] at hj
    have hj' : j ∈ X := by
      rcases hj with h | h
      · exact h
      · exact absurd h (not_treeOf_cellOfHead s' hd j)
    have := hS.side j hj'
    simp only [sideSel, this, beq_self_eq_true]
  · intro j hj hjo
    rw [eC] at hj
    rw [eO] at hjo
    have hjn : s.heap.length ≤ j := by
      rcases hS.mem j hj with h | h
      · exact absurd h hjo
      · exact h
    obtain ⟨i, hi1, hi2, hi3, hi4⟩ := hS.src j hj hjn
    refine ⟨i, by rw [eO]; exact hi1, by rw [e.old (hOl i hi1)]; exact hi2, by rw [e.old (hOl i hi1)]; exact hi3, ?_⟩
    intro r hr hrc
    rw [eO] at hr ⊢
    rw [eC] at hrc
    exact hi4 r hr hrc
  · intro i hi1 hsel
    rw [eO] at hi1
    rw [e.old (hOl i hi1)] at hsel
    have hsel' : bitAt s.cur (nodeAt s.heap i).key = side := by simpa [sideSel] using hsel
    obtain ⟨j, hj1, hj2, hj3, hj4⟩ := hS.cover i hi1 hsel'
    refine ⟨j, by rw [eC]; exact hj1, by rw [e.old (hOl i hi1)]; exact hj2, by rw [e.old (hOl i hi1)]; exact hj3, ?_⟩
    rw [eO]
    rcases hj4 with h | h
    · exact Or.inl h
    · refine Or.inr (fun hm => ?_)
      have := hOl j hm
      omega
  · intro r hr hrc i hi1 hsub
    rw [eO] at hr hi1 hsub
    rw [eC] at hrc ⊢
    exact hS.suffix r hr hrc i hi1 hsub
  · intro i c hi1 hc hsub
    rw [eO] at hi1 hc ⊢
    rw [eC] at hsub
    exact hS.order i c hi1 hc hsub
  · intro b hb; exact absurd hb (cellOfHead_ne_tree hd b)

/-! ## the list split -/

theorem nodeAt_append_ge (heap ext : List NodeS) {j : Nat} (hj : heap.length ≤ j) :
    nodeAt (heap ++ ext) j = dflt ∨ nodeAt (heap ++ ext) j ∈ ext := by
  by_cases hlt : j < (heap ++ ext).length
  · right
    rw [List.length_append] at hlt
    have e : j = heap.length + (j - heap.length) := by omega
    rw [e, Flurry.Proto.BinK.nodeAt_append_right heap ext (by omega)]
    exact List.getElem_mem _
  · left
    exact Flurry.Proto.BinK.nodeAt_ge (by omega)

/-- the heap is extended by nodes without an owner, the `TreeBin` table is unchanged -/
theorem Ext.of_heap_append {s s' : State} {ext : List NodeS} (htabs : s'.tabs = s.tabs) (hcur : s'.cur = s.cur)
    (hre : ∀ b j0, Reusing s b j0 → Reusing s' b j0) (hheap : s'.heap = s.heap ++ ext)
    (htb : s'.tbins = s.tbins) (hattr : ∀ n ∈ ext, n.lock = none ∧ n.owner = none)
    (hok : NextOK (s.heap ++ ext)) : Ext s s' := by
  refine ⟨htabs, hcur, ⟨ext, hheap, fun n hn => (hattr n hn).1⟩, ⟨[], by rw [htb]; simp, fun n hn => by cases hn⟩,
    by rw [hheap]; exact hok, ?_, ?_, hre⟩
  · intro j b hj ho
    rw [hheap] at ho
    rcases nodeAt_append_ge s.heap ext hj with h | h
    · rw [h] at ho; cases ho
    · rw [(hattr _ h).2] at ho; cases ho
  · intro b h hb hf
    rw [htb, Flurry.Proto.BinK.binAt_ge hb] at hf; cases hf

/-- the nodes of a planned structure are nodes of the old chain or new nodes; a planned `TreeBin` is the
old one or a new one -/
def NewOrOld (s s' : State) (jc : Nat) (C : Cell) : Prop :=
  (∀ j ∈ chainC s' C, j ∈ chainC s (cellAt s (s.cur, jc)) ∨ s.heap.length ≤ j) ∧
  (∀ x, C = .tree x → (cellAt s (s.cur, jc)) = .tree x ∨ s.tbins.length ≤ x)

/-- the thread `t` is not past the first store of a transfer, and only its entry of the thread table changes: the
transfers past their first store are the same -/
theorem reusing_setT {s s0 : State} {t : Nat} {l l' : Local} (hl : s.threads[t]? = some l)
    (hthr : s0.threads = s.threads)
    (hnot : ∀ j0 b, ¬ ((∃ hi, l.pc = .xStoreHigh j0 (.inr b) hi) ∨ l.pc = .xStoreMoved j0 (.inr b))) :
    ∀ b j0, Reusing s b j0 → Reusing (setT s0 t l') b j0 := by
  rintro b j0 ⟨t', l0, hl0, hcase⟩
  by_cases htt : t' = t
  · subst htt
    rw [hl] at hl0
    cases hl0
    exact absurd hcase (hnot j0 b)
  · refine ⟨t', l0, ?_, hcase⟩
    show (s0.threads.set t l')[t']? = some l0
    rw [List.getElem?_set_ne (fun h => htt h.symm), hthr]
    exact hl0

theorem xbuild_plan_ext {s : State} {t : Nat} {l : Local} {jc h : Nat} (I : Inv s) (hl : s.threads[t]? = some l)
    (hpc : l.pc = .xBuild jc h) :
    let s' := setT (qst s (xsplitOf s h).1 s.tbins) t { l with pc := .xStoreLow jc (.inl h) (xsplitOf s h).2.1 (xsplitOf s h).2.2 }
    HInv s' ∧ Plan s' jc (xsplitOf s h).2.1 (xsplitOf s h).2.2 ∧
    (∃ ext, s'.heap = s.heap ++ ext ∧ ∀ n ∈ ext, n.lock = none ∧ n.inTree = false ∧ n.owner = none) ∧
    (∀ c : Cell, (∀ x, startOf s.tbins c = some x → x < s.heap.length) → chainC s' c = chainC s c) ∧
    Ext s s' ∧ NewOrOld s s' jc (xsplitOf s h).2.1 ∧ NewOrOld s s' jc (xsplitOf s h).2.2 := by
  intro s'
  have H := I.heap
  have hcid : cidOf s l = (s.cur, jc) := by unfold cidOf; rw [hpc]; rfl
  have hcell : (cellAt s (s.cur, jc)) = .list h := by
    have := I.lock.vL t l h hl (by rw [hpc]; rfl)
    rw [hcid] at this; exact this
  have hre : ∀ b j0, Reusing s b j0 → Reusing s' b j0 :=
    reusing_setT hl rfl (by rw [hpc]; rintro j0 b (⟨hi, hh⟩ | hh) <;> cases hh)
  have hC0 := H.cinv (s.cur, jc)
  have hcc : (cellAt s (s.cur, jc)) = .list h := hcell
  rw [hcc] at hC0
  have hO : IsChain s.heap (some h) (chainOf s.heap (some h)) := hC0.isChain
  have hOeq : chainC s (cellAt s (s.cur, jc)) = chainOf s.heap (some h) := by rw [hcell]; rfl
  obtain ⟨ext, L, Hh, hsplit, hattr, hok', hL, hHh, hSL, hSH⟩ :=
    splitBinB_spec (bitAt s.cur) H.nextOK hO (fun i j hi hj => hC0.distinct i j hi hj)
  have hheap : s'.heap = s.heap ++ ext := hsplit
  have e : Ext s s' :=
    Ext.of_heap_append rfl rfl hre hheap rfl (fun n hn => ⟨(hattr n hn).1, (hattr n hn).2.2⟩) hok'
  rw [← hheap] at hL hHh hSL hSH
  rw [← hOeq] at hSL hSH
  have hown : ∀ (b : Bool) (X : List Nat), SideSpec (bitAt s.cur) s.heap s'.heap (chainC s (cellAt s (s.cur, jc))) b X →
      ∀ j ∈ X, (nodeAt s'.heap j).owner = none := by
    intro b X hS j hj
    rcases hS.mem j hj with hm | hm
    · have hjl : j < s.heap.length := (H.cinv (s.cur, jc)).chain_lt hm
      rw [e.old hjl]
      have := H.chainOwner (s.cur, jc) j hm
      rw [hcc] at this; exact this
    · rw [hheap]
      rcases nodeAt_append_ge s.heap ext hm with h1 | h1
      · rw [h1]; rfl
      · exact (hattr _ h1).2.2
  have hnew : ∀ (b : Bool) (hd : Option Nat) (X : List Nat), IsChain s'.heap hd X →
      SideSpec (bitAt s.cur) s.heap s'.heap (chainC s (cellAt s (s.cur, jc))) b X → NewOrOld s s' jc (cellOfHead hd) := by
    intro b hd X hX hS
    refine ⟨?_, fun x hx => absurd hx (cellOfHead_ne_tree _ x)⟩
    intro j hj
    unfold chainC at hj
    rw [startOf_cellOfHead, Flurry.Proto.BinK.chainOf_eq e.nextOK hX] at hj
    exact hS.mem j hj
  refine ⟨e.hinv H, ⟨?_, ?_, ?_⟩, ⟨ext, hheap, hattr⟩, ?_, e, hnew _ _ _ hL hSL, hnew _ _ _ hHh hSH⟩
  · exact copyOK_of_sideSpec e H hL hSL (hown _ _ hSL)
  · exact copyOK_of_sideSpec e H hHh hSH (hown _ _ hSH)
  · intro b hb
    exact absurd hb (cellOfHead_ne_tree _ b)
  · intro c hst
    exact e.chainOf_eq H.nextOK hst

theorem xbuild_plan {s : State} {t : Nat} {l : Local} {j h : Nat} (I : Inv s) (hl : s.threads[t]? = some l)
    (hpc : l.pc = .xBuild j h) :
    let s' := setT (qst s (xsplitOf s h).1 s.tbins) t { l with pc := .xStoreLow j (.inl h) (xsplitOf s h).2.1 (xsplitOf s h).2.2 }
    HInv s' ∧ Plan s' j (xsplitOf s h).2.1 (xsplitOf s h).2.2 ∧
    (∃ ext, s'.heap = s.heap ++ ext ∧ ∀ n ∈ ext, n.lock = none ∧ n.inTree = false ∧ n.owner = none) ∧
    (∀ c : Cell, (∀ x, startOf s.tbins c = some x → x < s.heap.length) → chainC s' c = chainC s c) := by
  intro s'
  obtain ⟨a, b, c, d, -⟩ := xbuild_plan_ext I hl hpc
  exact ⟨a, b, c, d⟩

/-! ## the tree split: one side -/

/-- the copy of a node for a plain list / for the fresh `TreeBin` `b'` -/
def mkL : NodeS → Option Nat → NodeS := fun src nx => ⟨src.key, src.val, nx, none, false, none⟩
def mkT (b' : Nat) : NodeS → Option Nat → NodeS := fun src nx => ⟨src.key, src.val, nx, none, true, some b'⟩

theorem splitSide_nil (s : State) (b : Nat) (small reuse : Bool) : splitSide s b [] small reuse = (s, .empty) := rfl

theorem splitSide_small (s : State) (b : Nat) {c : List Nat} (reuse : Bool) (hne : c ≠ []) :
    splitSide s b c true reuse = ({ s with heap := s.heap ++ copiesOf s.heap c mkL }, .list s.heap.length) := by
  cases c with
  | nil => exact absurd rfl hne
  | cons a c => rfl

theorem splitSide_reuse (s : State) (b : Nat) {c : List Nat} (hne : c ≠ []) :
    splitSide s b c false true = (s, .tree b) := by
  cases c with
  | nil => exact absurd rfl hne
  | cons a c => rfl

theorem splitSide_fresh (s : State) (b : Nat) {c : List Nat} (hne : c ≠ []) :
    splitSide s b c false false =
      ({ s with heap := s.heap ++ copiesOf s.heap c (mkT s.tbins.length),
                tbins := s.tbins ++ [{ first := some s.heap.length }] }, .tree s.tbins.length) := by
  cases c with
  | nil => exact absurd rfl hne
  | cons a c => rfl

/-- `splitSide` changes the heap and the `TreeBin` table only -/
theorem splitSide_frame (s : State) (b : Nat) (c : List Nat) (small reuse : Bool) :
    (splitSide s b c small reuse).1 =
      { s with heap := (splitSide s b c small reuse).1.heap, tbins := (splitSide s b c small reuse).1.tbins } := by
  cases c with
  | nil => rfl
  | cons a c =>
    cases small
    · cases reuse
      · rw [splitSide_fresh s b (by simp)]
      · rw [splitSide_reuse s b (by simp)]
    · rw [splitSide_small s b reuse (by simp)]

/-- what the transfer of tree bin `b` knows: the bin is in the old cell and its tree holds no node that
is not on its list -/
structure YPre (s : State) (jc : Nat) (b : Nat) : Prop where
  heap : HInv s
  cell : (cellAt s (s.cur, jc)) = .tree b
  sub : ∀ j, j < s.heap.length → (nodeAt s.heap j).owner = some b → (nodeAt s.heap j).inTree = true →
    j ∈ chainC s (.tree b)

theorem YPre.cinv {s : State} {jc b : Nat} (P : YPre s jc b) :
    CInv s.heap (startOf s.tbins (.tree b)) (treeOf s (.tree b)) := by
  have := P.heap.cinv (s.cur, jc)
  have hc : (cellAt s (s.cur, jc)) = .tree b := P.cell
  rw [hc] at this; exact this

theorem YPre.blt {s : State} {jc b : Nat} (P : YPre s jc b) : b < s.tbins.length := P.heap.cellOK (s.cur, jc) b P.cell

theorem YPre.chain_lt {s : State} {jc b : Nat} (P : YPre s jc b) {j : Nat} (hj : j ∈ chainC s (.tree b)) :
    j < s.heap.length := P.cinv.chain_lt hj

theorem YPre.chainC_eq {s s' : State} {jc b : Nat} (P : YPre s jc b) (e : Ext s s') :
    chainC s' (.tree b) = chainC s (.tree b) :=
  e.chainC_eq P.heap.nextOK P.cinv.startOK (fun b' hb' => by cases hb'; exact P.blt)

theorem YPre.ext {s s' : State} {jc b : Nat} (P : YPre s jc b) (e : Ext s s') : YPre s' jc b := by
  refine ⟨e.hinv P.heap, by rw [e.cur, e.cellAt_eq]; exact P.cell, ?_⟩
  intro j hj ho hin
  rw [P.chainC_eq e]
  by_cases hjl : j < s.heap.length
  · rw [e.old hjl] at ho hin
    exact P.sub j hjl ho hin
  · have := (e.newOwner j b (by omega) ho).1
    have := P.blt
    omega

private theorem chainC_empty (s : State) : chainC s .empty = [] := Flurry.Proto.BinK.chainOf_none _

/-- the side has no node: the planned cell is empty -/
theorem copyOK_empty {s : State} {jc b : Nat} {g : Nat} {side : Bool} (P : YPre s jc b)
    (hc : (chainC s (.tree b)).filter (fun i => sideSel g side (nodeAt s.heap i).key) = []) :
    CopyOK s (cellAt s (s.cur, jc)) (sideSel g side) .empty := by
  rw [P.cell]
  refine ⟨(by intro h; cases h), ⟨P.heap.nextOK, (fun h hh => by cases hh), ?_⟩, ?_, ?_, ?_, ?_, ?_, ?_, ?_, ?_⟩
  · have hno : ∀ a, ¬ (a ∈ chainOf s.heap (startOf s.tbins .empty) ∨ treeOf s .empty a) := by
      intro a ha
      rcases ha with h | ⟨_, _, b', hb', _⟩
      · have h' : a ∈ chainC s .empty := h
        rw [chainC_empty] at h'; cases h'
      · cases hb'
    intro a b' ha; exact absurd ha (hno a)
  · intro b' hb'; cases hb'
  · intro j hj; rw [chainC_empty] at hj; cases hj
  · intro j hj
    rcases hj with h | ⟨_, _, b', hb', _⟩
    · rw [chainC_empty] at h; cases h
    · cases hb'
  · intro j hj; rw [chainC_empty] at hj; cases hj
  · intro i hi hsel
    have : i ∈ (chainC s (.tree b)).filter (fun i => sideSel g side (nodeAt s.heap i).key) :=
      List.mem_filter.2 ⟨hi, hsel⟩
    rw [hc] at this; cases this
  · intro r _ hr; rw [chainC_empty] at hr; cases hr
  · intro i c _ _ hsub
    have := hsub.subset (List.mem_cons_self)
    rw [chainC_empty] at this; cases this
  · intro b' hb'; cases hb'

/-- the other side has no node: the old `TreeBin` itself is the planned cell -/
theorem copyOK_reuse {s : State} {jc b : Nat} {g : Nat} {side : Bool} (P : YPre s jc b)
    (hall : ∀ i ∈ chainC s (.tree b), sideSel g side (nodeAt s.heap i).key = true) :
    CopyOK s (cellAt s (s.cur, jc)) (sideSel g side) (.tree b) := by
  rw [P.cell]
  refine ⟨(by intro h; cases h), P.cinv, (fun b' hb' => by cases hb'; exact P.blt), ?_, ?_, ?_, ?_, ?_, ?_, ?_⟩
  · intro j hj
    have := P.heap.chainOwner (s.cur, jc) j (by rw [show (cellAt s (s.cur, jc)) = .tree b from P.cell]; exact hj)
    rw [show (cellAt s (s.cur, jc)) = .tree b from P.cell] at this
    exact this
  · intro j hj
    rcases hj with h | ⟨h1, h2, b', hb', h3⟩
    · exact hall j h
    · cases hb'
      exact hall j (P.sub j h1 h3 h2)
  · intro j hj hjn; exact absurd hj hjn
  · intro i hi _
    exact ⟨i, hi, rfl, rfl, Or.inl rfl⟩
  · intro r _ _ i hi _; exact hi
  · intro i c _ _ hsub; exact hsub
  · intro b' hb' hne; cases hb'; exact absurd rfl hne

/-- the nodes of the side are copied, in list order, to the end of the heap (a plain list or a fresh
`TreeBin`) -/
theorem copyOK_copies {s s1 : State} {jc b : Nat} {g : Nat} {side : Bool} {c : List Nat} {C : Cell} (P : YPre s jc b) (e : Ext s s1)
    (hc : c = (chainC s (.tree b)).filter (fun i => sideSel g side (nodeAt s.heap i).key))
    (hne : c ≠ []) (hnm : C ≠ .moved)
    (hstart : startOf s1.tbins C = some s.heap.length)
    (hlen : s1.heap.length = s.heap.length + c.length)
    (hX : IsChain s1.heap (some s.heap.length) (List.range' s.heap.length c.length))
    (hkv : ∀ k (hk : k < c.length), (nodeAt s1.heap (s.heap.length + k)).key = (nodeAt s.heap c[k]).key ∧
      (nodeAt s1.heap (s.heap.length + k)).val = (nodeAt s.heap c[k]).val ∧
      (nodeAt s1.heap (s.heap.length + k)).owner = ownerOf C)
    (hcellOK : ∀ b', C = .tree b' → b' < s1.tbins.length)
    (htree : ∀ j, treeOf s1 C j → s.heap.length ≤ j)
    (hfresh : ∀ b', C = .tree b' → binAt s1.tbins b' = { first := (binAt s1.tbins b').first } ∧
      (∀ j, j < s.heap.length → (nodeAt s.heap j).owner ≠ some b') ∧
      ∀ k, k < c.length → (nodeAt s1.heap (s.heap.length + k)).inTree = true) :
    CopyOK s1 (cellAt s (s.cur, jc)) (sideSel g side) C := by
  rw [P.cell]
  have eO : chainC s1 (.tree b) = chainC s (.tree b) := P.chainC_eq e
  have eC : chainC s1 C = List.range' s.heap.length c.length := by
    unfold chainC
    rw [hstart]
    exact Flurry.Proto.BinK.chainOf_eq e.nextOK hX
  have hcpos : 0 < c.length := by
    cases c with
    | nil => exact absurd rfl hne
    | cons a c => simp
  have hcO : ∀ i ∈ c, i ∈ chainC s (.tree b) ∧ sideSel g side (nodeAt s.heap i).key = true := by
    intro i hi
    rw [hc] at hi
    exact List.mem_filter.1 hi
  have hOl : ∀ i ∈ chainC s (.tree b), i < s.heap.length := fun i hi => P.chain_lt hi
  have hnd : c.Nodup := by
    rw [hc]; exact P.cinv.nodup.sublist List.filter_sublist
  have hidx : ∀ j ∈ List.range' s.heap.length c.length, ∃ k, k < c.length ∧ j = s.heap.length + k := by
    intro j hj
    rw [List.mem_range'_1] at hj
    exact ⟨j - s.heap.length, by omega, by omega⟩
  have hXmem : ∀ k, k < c.length → s.heap.length + k ∈ List.range' s.heap.length c.length := by
    intro k hk
    rw [List.mem_range'_1]; omega
  have hXO : ∀ j ∈ List.range' s.heap.length c.length, j ∉ chainC s (.tree b) := by
    intro j hj hm
    rw [List.mem_range'_1] at hj
    have := hOl j hm
    omega
  have hinX : ∀ j, (j ∈ chainC s1 C ∨ treeOf s1 C j) → j ∈ List.range' s.heap.length c.length := by
    intro j hj
    rcases hj with h | h
    · rw [eC] at h; exact h
    · have h1 := htree j h
      have h2 := h.1
      rw [List.mem_range'_1]; omega
  refine ⟨hnm, ⟨e.nextOK, ?_, ?_⟩, hcellOK, ?_, ?_, ?_, ?_, ?_, ?_, ?_⟩
  · intro h hh
    rw [hstart] at hh; cases hh; omega
  · intro a b' ha hb' hab
    obtain ⟨ka, hka, rfl⟩ := hidx a (hinX a ha)
    obtain ⟨kb, hkb, rfl⟩ := hidx b' (hinX b' hb')
    rw [(hkv ka hka).1, (hkv kb hkb).1] at hab
    have := P.cinv.distinct _ _ (hcO _ (List.getElem_mem hka)).1 (hcO _ (List.getElem_mem hkb)).1 hab
    have hidx' : ka = kb := (List.getElem_inj hnd).1 this
    rw [hidx']
  · intro j hj
    rw [eC] at hj
    obtain ⟨k, hk, rfl⟩ := hidx j hj
    exact (hkv k hk).2.2
  · intro j hj
    obtain ⟨k, hk, rfl⟩ := hidx j (hinX j hj)
    rw [(hkv k hk).1]
    exact (hcO _ (List.getElem_mem hk)).2
  · intro j hj _
    rw [eC] at hj
    obtain ⟨k, hk, rfl⟩ := hidx j hj
    have hm := (hcO _ (List.getElem_mem hk)).1
    refine ⟨c[k], by rw [eO]; exact hm, ?_, ?_, ?_⟩
    · rw [e.old (hOl _ hm)]; exact (hkv k hk).1.symm
    · rw [e.old (hOl _ hm)]; exact (hkv k hk).2.1.symm
    · intro r hr hrc
      rw [eO] at hr
      rw [eC] at hrc
      exact absurd hr (hXO r hrc)
  · intro i hi hsel
    rw [eO] at hi
    rw [e.old (hOl i hi)] at hsel
    have hic : i ∈ c := by rw [hc]; exact List.mem_filter.2 ⟨hi, hsel⟩
    obtain ⟨k, hk, hki⟩ := List.getElem_of_mem hic
    refine ⟨s.heap.length + k, by rw [eC]; exact hXmem k hk, ?_, ?_, Or.inr ?_⟩
    · rw [e.old (hOl i hi), (hkv k hk).1, hki]
    · rw [e.old (hOl i hi), (hkv k hk).2.1, hki]
    · rw [eO]; exact hXO _ (hXmem k hk)
  · intro r hr hrc
    rw [eO] at hr
    rw [eC] at hrc
    exact absurd hr (hXO r hrc)
  · intro i c' hi _ hsub
    rw [eO] at hi
    have := hsub.subset (List.mem_cons_self)
    rw [eC] at this
    exact absurd hi (hXO i this)
  · intro b' hb' _
    obtain ⟨f1, f2, f3⟩ := hfresh b' hb'
    refine ⟨f1, ?_, ?_⟩
    · intro j hj
      rw [eC]
      by_cases hjl : j < s.heap.length
      · rw [e.old hjl]
        constructor
        · intro ho; exact absurd ho (f2 j hjl)
        · intro hm; rw [List.mem_range'_1] at hm; omega
      · have hjX : j ∈ List.range' s.heap.length c.length := by rw [List.mem_range'_1]; omega
        obtain ⟨k, hk, rfl⟩ := hidx j hjX
        constructor
        · intro _; exact hjX
        · intro _; rw [(hkv k hk).2.2, hb']; rfl
    · intro j hj
      rw [eC] at hj
      obtain ⟨k, hk, rfl⟩ := hidx j hj
      exact f3 k hk

theorem getD_eq_getElem_of_lt {c : List Nat} {k : Nat} (hk : k < c.length) : c.getD k 0 = c[k] := by
  simp [List.getD_eq_getElem?_getD, hk]

/-- the side becomes a plain list of fresh copies -/
theorem splitSide_small_spec {s : State} {jc b : Nat} {g : Nat} {side : Bool} {c : List Nat} (P : YPre s jc b)
    (hc : c = (chainC s (.tree b)).filter (fun i => sideSel g side (nodeAt s.heap i).key)) (hne : c ≠ []) :
    Ext s { s with heap := s.heap ++ copiesOf s.heap c mkL } ∧
    CopyOK { s with heap := s.heap ++ copiesOf s.heap c mkL } (cellAt s (s.cur, jc)) (sideSel g side) (.list s.heap.length) ∧
    (∀ j ∈ chainC { s with heap := s.heap ++ copiesOf s.heap c mkL } (.list s.heap.length), s.heap.length ≤ j) := by
  have hok := Flurry.Proto.BinK.nextOK_copies P.heap.nextOK c mkL (fun _ _ => rfl)
  have hcl : c.length ≠ 0 := by
    cases c with
    | nil => exact absurd rfl hne
    | cons a c => simp
  have e : Ext s { s with heap := s.heap ++ copiesOf s.heap c mkL } := by
    refine Ext.of_heap_append rfl rfl (fun _ _ h => h) rfl rfl ?_ hok
    intro n hn
    simp only [copiesOf, List.mem_map] at hn
    obtain ⟨k, _, rfl⟩ := hn
    exact ⟨rfl, rfl⟩
  have hXc := Flurry.Proto.BinK.copiesOf_isChain s.heap c mkL (fun _ _ => rfl)
  rw [if_neg hcl] at hXc
  refine ⟨e, ?_, ?_⟩
  refine copyOK_copies P e hc hne (by intro h; cases h) rfl ?_ hXc ?_ (fun b' hb' => by cases hb') ?_ (fun b' hb' => by cases hb')
  · show (s.heap ++ copiesOf s.heap c mkL).length = _
    rw [List.length_append, Flurry.Proto.BinK.copiesOf_length]
  · intro k hk
    show (nodeAt (s.heap ++ copiesOf s.heap c mkL) (s.heap.length + k)).key = _ ∧ _
    rw [Flurry.Proto.BinK.copiesOf_get s.heap c mkL hk, getD_eq_getElem_of_lt hk]
    exact ⟨rfl, rfl, rfl⟩
  · rintro j ⟨_, _, b', hb', _⟩; cases hb'
  · intro j hj
    have hch : chainC { s with heap := s.heap ++ copiesOf s.heap c mkL } (.list s.heap.length) =
        List.range' s.heap.length c.length := Flurry.Proto.BinK.chainOf_eq hok hXc
    rw [hch, List.mem_range'_1] at hj
    exact hj.1

/-- the side becomes a fresh `TreeBin` over fresh copies -/
theorem splitSide_fresh_spec {s : State} {jc b : Nat} {g : Nat} {side : Bool} {c : List Nat} (P : YPre s jc b)
    (hc : c = (chainC s (.tree b)).filter (fun i => sideSel g side (nodeAt s.heap i).key)) (hne : c ≠ []) :
    Ext s { s with heap := s.heap ++ copiesOf s.heap c (mkT s.tbins.length),
                   tbins := s.tbins ++ [{ first := some s.heap.length }] } ∧
    CopyOK { s with heap := s.heap ++ copiesOf s.heap c (mkT s.tbins.length),
                    tbins := s.tbins ++ [{ first := some s.heap.length }] }
      (cellAt s (s.cur, jc)) (sideSel g side) (.tree s.tbins.length) ∧
    (∀ j ∈ chainC { s with heap := s.heap ++ copiesOf s.heap c (mkT s.tbins.length),
                           tbins := s.tbins ++ [{ first := some s.heap.length }] } (.tree s.tbins.length),
      s.heap.length ≤ j) := by
  have hok := Flurry.Proto.BinK.nextOK_copies P.heap.nextOK c (mkT s.tbins.length) (fun _ _ => rfl)
  have hcl : c.length ≠ 0 := by
    cases c with
    | nil => exact absurd rfl hne
    | cons a c => simp
  have hattr : ∀ n ∈ copiesOf s.heap c (mkT s.tbins.length), n.lock = none ∧ n.owner = some s.tbins.length := by
    intro n hn
    simp only [copiesOf, List.mem_map] at hn
    obtain ⟨k, _, rfl⟩ := hn
    exact ⟨rfl, rfl⟩
  have hlen : (s.heap ++ copiesOf s.heap c (mkT s.tbins.length)).length = s.heap.length + c.length := by
    rw [List.length_append, Flurry.Proto.BinK.copiesOf_length]
  have e : Ext s { s with heap := s.heap ++ copiesOf s.heap c (mkT s.tbins.length),
                          tbins := s.tbins ++ [{ first := some s.heap.length }] } := by
    refine ⟨rfl, rfl, ⟨_, rfl, fun n hn => (hattr n hn).1⟩, ⟨_, rfl, ?_⟩, hok, ?_, ?_, fun _ _ h => h⟩
    · intro x hx
      simp only [List.mem_singleton] at hx
      subst hx; rfl
    · intro j b' hj ho
      have ho' : (nodeAt (s.heap ++ copiesOf s.heap c (mkT s.tbins.length)) j).owner = some b' := ho
      show s.tbins.length ≤ b' ∧ b' < (s.tbins ++ [_]).length
      rw [List.length_append]
      rcases nodeAt_append_ge s.heap (copiesOf s.heap c (mkT s.tbins.length)) hj with h | h
      · rw [h] at ho'; cases ho'
      · rw [(hattr _ h).2] at ho'; cases ho'
        simp
    · intro b' h hb hf
      have hf' : (binAt (s.tbins ++ [{ first := some s.heap.length }]) b').first = some h := hf
      show h < (s.heap ++ copiesOf s.heap c (mkT s.tbins.length)).length
      rw [hlen]
      by_cases hb' : b' = s.tbins.length
      · subst hb'
        rw [Flurry.Proto.BinK.binAt_append_new] at hf'
        cases hf'; omega
      · rw [Flurry.Proto.BinK.binAt_ge (by rw [List.length_append]; simp; omega)] at hf'
        cases hf'
  have hbn : binAt (s.tbins ++ [({ first := some s.heap.length } : TBin)]) s.tbins.length = { first := some s.heap.length } :=
    Flurry.Proto.BinK.binAt_append_new _ _
  have hXc := Flurry.Proto.BinK.copiesOf_isChain s.heap c (mkT s.tbins.length) (fun _ _ => rfl)
  rw [if_neg hcl] at hXc
  refine ⟨e, ?_, ?_⟩
  rotate_left
  · intro j hj
    have hch : chainC { s with heap := s.heap ++ copiesOf s.heap c (mkT s.tbins.length),
                               tbins := s.tbins ++ [{ first := some s.heap.length }] } (.tree s.tbins.length) =
        List.range' s.heap.length c.length := by
      show chainOf _ (binAt (s.tbins ++ [({ first := some s.heap.length } : TBin)]) s.tbins.length).first = _
      rw [hbn]
      exact Flurry.Proto.BinK.chainOf_eq hok hXc
    rw [hch, List.mem_range'_1] at hj
    exact hj.1
  have hnode : ∀ k (hk : k < c.length),
      nodeAt (s.heap ++ copiesOf s.heap c (mkT s.tbins.length)) (s.heap.length + k) =
        mkT s.tbins.length (nodeAt s.heap c[k]) (if k + 1 < c.length then some (s.heap.length + k + 1) else none) := by
    intro k hk
    rw [Flurry.Proto.BinK.copiesOf_get s.heap c _ hk, getD_eq_getElem_of_lt hk]
  refine copyOK_copies P e hc hne (by intro h; cases h) ?_ hlen ?_ ?_ ?_ ?_ ?_
  · show (binAt (s.tbins ++ [({ first := some s.heap.length } : TBin)]) s.tbins.length).first = _
    rw [hbn]
  · exact hXc
  · intro k hk
    show (nodeAt (s.heap ++ copiesOf s.heap c (mkT s.tbins.length)) (s.heap.length + k)).key = _ ∧ _
    rw [hnode k hk]
    exact ⟨rfl, rfl, rfl⟩
  · intro b' hb'
    cases hb'
    show s.tbins.length < (s.tbins ++ [_]).length
    rw [List.length_append]; simp
  · rintro j ⟨_, _, b', hb', ho⟩
    cases hb'
    apply Classical.byContradiction
    intro hj
    have hjl : j < s.heap.length := by omega
    rw [e.old hjl] at ho
    have := P.heap.ownerOK j _ ho
    omega
  · intro b' hb'
    cases hb'
    refine ⟨?_, ?_, ?_⟩
    · show binAt (s.tbins ++ [({ first := some s.heap.length } : TBin)]) s.tbins.length = _
      rw [hbn]
    · intro j _ ho
      have := P.heap.ownerOK j _ ho
      omega
    · intro k hk
      show (nodeAt (s.heap ++ copiesOf s.heap c (mkT s.tbins.length)) (s.heap.length + k)).inTree = true
      rw [hnode k hk]; rfl

/-- one side of the split of tree bin `b` -/
theorem splitSide_spec {s : State} {jc b : Nat} {g : Nat} {side : Bool} {c : List Nat} (small reuse : Bool) (P : YPre s jc b)
    (hc : c = (chainC s (.tree b)).filter (fun i => sideSel g side (nodeAt s.heap i).key))
    (hreuse : reuse = true → ∀ i ∈ chainC s (.tree b), sideSel g side (nodeAt s.heap i).key = true) :
    Ext s (splitSide s b c small reuse).1 ∧
    CopyOK (splitSide s b c small reuse).1 (cellAt s (s.cur, jc)) (sideSel g side) (splitSide s b c small reuse).2 ∧
    (c = [] → (splitSide s b c small reuse).2 = .empty) ∧
    (∀ x, (splitSide s b c small reuse).2 = .tree x →
      (x = b ∧ reuse = true ∧ c ≠ []) ∨
      (x = s.tbins.length ∧ (splitSide s b c small reuse).1.tbins.length = s.tbins.length + 1)) ∧
    (∀ j ∈ chainC (splitSide s b c small reuse).1 (splitSide s b c small reuse).2,
      j ∈ chainC s (.tree b) ∨ s.heap.length ≤ j) := by
  by_cases hne : c = []
  · subst hne
    rw [splitSide_nil]
    refine ⟨Ext.refl P.heap.nextOK, copyOK_empty P hc.symm, fun _ => rfl, ?_, ?_⟩
    · intro x hx; cases hx
    · intro j hj; rw [chainC_empty] at hj; cases hj
  · cases small
    · cases reuse
      · rw [splitSide_fresh s b hne]
        obtain ⟨e, h, hn⟩ := splitSide_fresh_spec P hc hne
        refine ⟨e, h, fun h0 => absurd h0 hne, ?_, fun j hj => Or.inr (hn j hj)⟩
        intro x hx
        cases hx
        right
        refine ⟨rfl, ?_⟩
        show (s.tbins ++ [_]).length = _
        rw [List.length_append]; rfl
      · rw [splitSide_reuse s b hne]
        refine ⟨Ext.refl P.heap.nextOK, copyOK_reuse P (hreuse rfl), fun h0 => absurd h0 hne, ?_, fun j hj => Or.inl hj⟩
        intro x hx
        cases hx
        exact Or.inl ⟨rfl, rfl, hne⟩
    · rw [splitSide_small s b reuse hne]
      obtain ⟨e, h, hn⟩ := splitSide_small_spec P hc hne
      refine ⟨e, h, fun h0 => absurd h0 hne, ?_, fun j hj => Or.inr (hn j hj)⟩
      intro x hx; cases hx

/-! ## the tree split -/

theorem Ext.of_eq {s s' : State} (hh : s'.heap = s.heap) (hb : s'.tbins = s.tbins) (htabs : s'.tabs = s.tabs)
    (hcur : s'.cur = s.cur) (hre : ∀ b j0, Reusing s b j0 → Reusing s' b j0)
    (hok : NextOK s.heap) : Ext s s' := by
  refine ⟨htabs, hcur, ⟨[], by rw [hh]; simp, fun n hn => by cases hn⟩,
    ⟨[], by rw [hb]; simp, fun n hn => by cases hn⟩, by rw [hh]; exact hok, ?_, ?_, hre⟩
  · intro j b hj ho
    rw [hh, Flurry.Proto.BinK.nodeAt_ge hj] at ho; cases ho
  · intro b h hb' hf
    rw [hb, Flurry.Proto.BinK.binAt_ge hb'] at hf; cases hf

theorem lowOf_eq (s : State) (b : Nat) :
    lowOf s b = (chainC s (.tree b)).filter (fun i => sideSel s.cur false (nodeAt s.heap i).key) := by
  unfold lowOf
  rw [chainOfBin_eq]
  apply List.filter_congr
  intro i _
  show (!bitAt s.cur (nodeAt s.heap i).key) = (bitAt s.cur (nodeAt s.heap i).key == false)
  cases bitAt s.cur (nodeAt s.heap i).key <;> rfl

theorem highOf_eq (s : State) (b : Nat) :
    highOf s b = (chainC s (.tree b)).filter (fun i => sideSel s.cur true (nodeAt s.heap i).key) := by
  unfold highOf
  rw [chainOfBin_eq]
  apply List.filter_congr
  intro i _
  show bitAt s.cur (nodeAt s.heap i).key = (bitAt s.cur (nodeAt s.heap i).key == true)
  cases bitAt s.cur (nodeAt s.heap i).key <;> rfl

/-- if one side is empty, every node is on the other side -/
theorem all_other_side {heap : List NodeS} {O : List Nat} {g : Nat} {side : Bool}
    (h : (O.filter (fun i => sideSel g side (nodeAt heap i).key)).isEmpty = true) :
    ∀ i ∈ O, sideSel g (!side) (nodeAt heap i).key = true := by
  rw [List.isEmpty_iff, List.filter_eq_nil_iff] at h
  intro i hi
  have := h i hi
  unfold sideSel at this ⊢
  clear h
  generalize bitAt g (nodeAt heap i).key = x at this ⊢
  cases x <;> cases side <;> simp at this ⊢

/-- the thread at `yBuild b` holds the mutex of `b`, so no remover is between its list unlink and its
tree removal: the tree of `b` holds no node that is not on the list -/
theorem ypre_of_inv {s : State} {t : Nat} {l : Local} {jc b : Nat} (I : Inv s) (hl : s.threads[t]? = some l)
    (hpc : l.pc = .yBuild jc b) : YPre s jc b := by
  have hcid : cidOf s l = (s.cur, jc) := by unfold cidOf; rw [hpc]; rfl
  have hcell : (cellAt s (s.cur, jc)) = .tree b := by
    have := I.lock.vT t l b hl (by rw [hpc]; rfl)
    rw [hcid] at this; exact this
  have hmx : (binAt s.tbins b).mutex = some t := (I.lock.mx t l b hl).1 (by rw [hpc]; rfl)
  refine ⟨I.heap, hcell, ?_⟩
  intro j hj ho hin
  apply Classical.byContradiction
  intro hn
  obtain ⟨t', l', hl', hcase⟩ := I.data.treeSub (s.cur, jc) b hcell j hj ho hin hn
  have hm' : holdsMutex l'.pc = some b := by
    rcases hcase with ⟨tab, res, h⟩ | ⟨tab, res, h⟩ <;> rw [h] <;> rfl
  have hmx' := (I.lock.mx t' l' b hl').1 hm'
  rw [hmx] at hmx'
  cases hmx'
  rw [hl] at hl'
  cases hl'
  rcases hcase with ⟨tab, res, h⟩ | ⟨tab, res, h⟩ <;> rw [hpc] at h <;> cases h

theorem frame_trans {s0 s1 s2 : State} (h1 : s1 = { s0 with heap := s1.heap, tbins := s1.tbins })
    (h2 : s2 = { s1 with heap := s2.heap, tbins := s2.tbins }) :
    s2 = { s0 with heap := s2.heap, tbins := s2.tbins } := by
  cases s0; cases s1; cases s2
  simp only [Flurry.Proto.BinGN.State.mk.injEq] at h1 h2 ⊢
  simp_all

theorem ybuild_plan_ext {s : State} {t : Nat} {l : Local} {jc b : Nat} (small small2 : Bool) (I : Inv s)
    (hl : s.threads[t]? = some l) (hpc : l.pc = .yBuild jc b) :
    let r := ysplitOf (tick s) b small small2
    let s' := setT r.1 t { l with pc := .xStoreLow jc (.inr b) r.2.1 r.2.2 }
    HInv s' ∧ Plan s' jc r.2.1 r.2.2 ∧
    (∃ ext, s'.heap = s.heap ++ ext ∧ ∀ n ∈ ext, n.lock = none) ∧
    (∃ extb, s'.tbins = s.tbins ++ extb ∧ ∀ x ∈ extb, x = { first := x.first }) ∧
    (∀ j, s.heap.length ≤ j → j < s'.heap.length → ∀ b', (nodeAt s'.heap j).owner = some b' → s.tbins.length ≤ b') ∧
    (∀ c : Cell, (∀ x, startOf s.tbins c = some x → x < s.heap.length) → (∀ b', c = .tree b' → b' < s.tbins.length) →
      chainC s' c = chainC s c) ∧
    (∀ id, cellAt s' id = cellAt s id) ∧ s'.cur = s.cur ∧ s'.now = s.now + 1 ∧
    s' = setT (qst s s'.heap s'.tbins) t { l with pc := .xStoreLow jc (.inr b) r.2.1 r.2.2 } ∧
    Ext s s' ∧ NewOrOld s s' jc r.2.1 ∧ NewOrOld s s' jc r.2.2 := by
  intro r s'
  have P : YPre s jc b := ypre_of_inv I hl hpc
  have e0 : Ext s (tick s) := Ext.of_eq rfl rfl rfl rfl (fun _ _ h => h) P.heap.nextOK
  have P0 : YPre (tick s) jc b := P.ext e0
  -- the low side
  have hre1 : (highOf (tick s) b).isEmpty = true →
      ∀ i ∈ chainC (tick s) (.tree b), sideSel (tick s).cur false (nodeAt (tick s).heap i).key = true := by
    intro h
    rw [highOf_eq] at h
    exact all_other_side h
  obtain ⟨e1, h1, _, htree1, hmem1⟩ := splitSide_spec small (highOf (tick s) b).isEmpty P0 (lowOf_eq (tick s) b) hre1
  have f1 := splitSide_frame (tick s) b (lowOf (tick s) b) small (highOf (tick s) b).isEmpty
  generalize hs1 : (splitSide (tick s) b (lowOf (tick s) b) small (highOf (tick s) b).isEmpty).1 = s1 at e1 h1 htree1 hmem1 f1
  generalize hlo : (splitSide (tick s) b (lowOf (tick s) b) small (highOf (tick s) b).isEmpty).2 = lo at h1 htree1 hmem1
  have P1 : YPre s1 jc b := P0.ext e1
  have eO1 : chainC s1 (.tree b) = chainC (tick s) (.tree b) := P0.chainC_eq e1
  -- the high side
  have hc2 : highOf (tick s) b = (chainC s1 (.tree b)).filter (fun i => sideSel (tick s).cur true (nodeAt s1.heap i).key) := by
    rw [highOf_eq, eO1]
    apply List.filter_congr
    intro i hi
    rw [e1.old (P0.chain_lt hi)]
  have hre2 : (lowOf (tick s) b).isEmpty = true →
      ∀ i ∈ chainC s1 (.tree b), sideSel (tick s).cur true (nodeAt s1.heap i).key = true := by
    intro h i hi
    rw [lowOf_eq] at h
    rw [eO1] at hi
    rw [e1.old (P0.chain_lt hi)]
    exact all_other_side h i hi
  obtain ⟨e2, h2, hnil2, htree2, hmem2⟩ := splitSide_spec small2 (lowOf (tick s) b).isEmpty P1 hc2 hre2
  have f2 := splitSide_frame s1 b (highOf (tick s) b) small2 (lowOf (tick s) b).isEmpty
  generalize hs2 : (splitSide s1 b (highOf (tick s) b) small2 (lowOf (tick s) b).isEmpty).1 = s2 at e2 h2 htree2 hmem2 f2
  generalize hhi : (splitSide s1 b (highOf (tick s) b) small2 (lowOf (tick s) b).isEmpty).2 = hi at h2 hnil2 htree2 hmem2
  have P2 : YPre s2 jc b := P1.ext e2
  have hr1 : r.1 = s2 := by
    show (splitSide (splitSide (tick s) b (lowOf (tick s) b) small (highOf (tick s) b).isEmpty).1 b
      (highOf (tick s) b) small2 (lowOf (tick s) b).isEmpty).1 = s2
    rw [hs1, hs2]
  have hr2 : r.2.1 = lo := hlo
  have hr3 : r.2.2 = hi := by
    show (splitSide (splitSide (tick s) b (lowOf (tick s) b) small (highOf (tick s) b).isEmpty).1 b
      (highOf (tick s) b) small2 (lowOf (tick s) b).isEmpty).2 = hi
    rw [hs1, hhi]
  have hh' : s'.heap = s2.heap := (congrArg Flurry.Proto.BinGN.State.heap hr1 : r.1.heap = s2.heap)
  have hb' : s'.tbins = s2.tbins := (congrArg Flurry.Proto.BinGN.State.tbins hr1 : r.1.tbins = s2.tbins)
  have hth2 : s2.threads = s.threads := by
    have h := congrArg Flurry.Proto.BinGN.State.threads (frame_trans f1 f2)
    exact h
  have hl2 : s2.threads[t]? = some l := by rw [hth2]; exact hl
  have hre3 : ∀ b' j0, Reusing s2 b' j0 → Reusing s' b' j0 :=
    reusing_setT hl2 (congrArg Flurry.Proto.BinGN.State.threads hr1 : r.1.threads = s2.threads)
      (by rw [hpc]; rintro j0 b' (⟨hi, hh⟩ | hh) <;> cases hh)
  have e3 : Ext s2 s' :=
    Ext.of_eq hh' hb' (congrArg Flurry.Proto.BinGN.State.tabs hr1 : r.1.tabs = s2.tabs)
      (congrArg Flurry.Proto.BinGN.State.cur hr1 : r.1.cur = s2.cur) hre3 e2.nextOK
  have E : Ext s s' := e0.trans (e1.trans (e2.trans e3))
  have P' : YPre s' jc b := P2.ext e3
  have hbT : ∀ {s3 : State}, YPre s3 jc b → ∀ b', (Flurry.Proto.BinG.Cell.tree b : Cell) = .tree b' → b' < s3.tbins.length := by
    intro s3 P3 b' hb'; cases hb'; exact P3.blt
  -- the two sides in the final state
  have h1' : CopyOK s' (.tree b) (sideSel s.cur false) lo := by
    rw [P0.cell] at h1
    exact e3.copyOK e2.nextOK P2.cinv.startOK (hbT P2) (e2.copyOK e1.nextOK P1.cinv.startOK (hbT P1) h1)
  have h2' : CopyOK s' (.tree b) (sideSel s.cur true) hi := by
    rw [P1.cell] at h2
    exact e3.copyOK e2.nextOK P2.cinv.startOK (hbT P2) h2
  have hOs : chainC (tick s) (.tree b) = chainC s (cellAt s (s.cur, jc)) := by rw [P.cell]; rfl
  have hN1 : NewOrOld s s' jc lo := by
    refine ⟨?_, ?_⟩
    · intro j hj
      rw [(e2.trans e3).chainC_eq e1.nextOK h1.cinv.startOK h1.cellOK] at hj
      rcases hmem1 j hj with h | h
      · exact Or.inl (hOs ▸ h)
      · exact Or.inr h
    · intro x hx
      rcases htree1 x hx with ⟨rfl, -, -⟩ | ⟨rfl, -⟩
      · exact Or.inl P.cell
      · exact Or.inr (Nat.le_refl _)
  have hN2 : NewOrOld s s' jc hi := by
    refine ⟨?_, ?_⟩
    · intro j hj
      rw [e3.chainC_eq e2.nextOK h2.cinv.startOK h2.cellOK] at hj
      rcases hmem2 j hj with h | h
      · rw [eO1] at h
        exact Or.inl (hOs ▸ h)
      · exact Or.inr (Nat.le_trans e1.hlen h)
    · intro x hx
      rcases htree2 x hx with ⟨rfl, -, -⟩ | ⟨rfl, -⟩
      · exact Or.inl P.cell
      · exact Or.inr e1.blen
  rw [hr2, hr3]
  refine ⟨P'.heap, ⟨?_, ?_, ?_⟩, E.heap, E.tbins, fun j hj _ b' ho => (E.newOwner j b' hj ho).1,
    fun c hst hc => E.chainC_eq P.heap.nextOK hst hc, E.cellAt_eq, E.cur, ?_, ?_, E, hN1, hN2⟩
  · rw [P'.cell, E.cur]; exact h1'
  · rw [P'.cell, E.cur]; exact h2'
  · intro x hxlo hxhi
    rcases htree1 x hxlo with ⟨_, hr, _⟩ | ⟨hx, hl1⟩
    · have hnil : highOf (tick s) b = [] := List.isEmpty_iff.1 hr
      rw [hnil2 hnil] at hxhi; cases hxhi
    · rcases htree2 x hxhi with ⟨hxb, _, _⟩ | ⟨hx2, _⟩
      · have := P0.blt
        omega
      · omega
  · show r.1.now = s.now + 1
    rw [hr1, f2]
    show s1.now = s.now + 1
    rw [f1]
    rfl
  · have f := frame_trans f1 f2
    show setT r.1 t _ = _
    rw [hr1, hh', hb']
    have hq : s2 = qst s s2.heap s2.tbins := f
    rw [← hq, hr2, hr3]

theorem ybuild_plan {s : State} {t : Nat} {l : Local} {j b : Nat} (small small2 : Bool) (I : Inv s)
    (hl : s.threads[t]? = some l) (hpc : l.pc = .yBuild j b) :
    let r := ysplitOf (tick s) b small small2
    let s' := setT r.1 t { l with pc := .xStoreLow j (.inr b) r.2.1 r.2.2 }
    HInv s' ∧ Plan s' j r.2.1 r.2.2 ∧
    (∃ ext, s'.heap = s.heap ++ ext ∧ ∀ n ∈ ext, n.lock = none) ∧
    (∃ extb, s'.tbins = s.tbins ++ extb ∧ ∀ x ∈ extb, x = { first := x.first }) ∧
    (∀ i, s.heap.length ≤ i → i < s'.heap.length → ∀ b', (nodeAt s'.heap i).owner = some b' → s.tbins.length ≤ b') ∧
    (∀ c : Cell, (∀ x, startOf s.tbins c = some x → x < s.heap.length) → (∀ b', c = .tree b' → b' < s.tbins.length) →
      chainC s' c = chainC s c) ∧
    (∀ id, cellAt s' id = cellAt s id) ∧ s'.cur = s.cur ∧ s'.now = s.now + 1 ∧
    s' = setT (qst s s'.heap s'.tbins) t { l with pc := .xStoreLow j (.inr b) r.2.1 r.2.2 } := by
  intro r s'
  obtain ⟨a1, a2, a3, a4, a5, a6, a7, a8, a9, a10, -⟩ := ybuild_plan_ext small small2 I hl hpc
  exact ⟨a1, a2, a3, a4, a5, a6, a7, a8, a9, a10⟩

end Flurry.Proto.BinGNP
