import Flurry.Lemmas.IterBasic
import Flurry.Lemmas.IterFrozen
import Flurry.Lemmas.IterCases
/-! # Lemmas/Iter: theorems about the traverser model `Seq/Iter` on a frozen chain of tables

* `IterBasic`   `FBin.toList`, `steps` (number of `advance` turns below a bin), one-step facts:
                `advance_nodes` (a `nodes` bin always continues with `recover`, also with an empty
                stack), `advance_moved`, `advance_done`, `recover_nil`, `recover_low`,
                `recover_high`; well-formed chains: `ChainWF.len_eq`, `ChainWF.moved_not_last`,
                `ChainWF.fuel_bound`
* `IterFrozen`  `traverse_subtree` (the depth-first walk below one bin), `traverse_top`,
                `traverse_eq_contents`, `steps_le_wf`, `topSteps_le_fuelFor`,
                **`traverse_frozen`**, **`no_fuel_needed_more`**, `traverse_frozen_ge`,
                **`traverse_nodup`**, `traverse_perm`
* `IterCases`   **`traverse_single`**, **`traverse_all_moved`**, `traverse_all_moved_perm`,
                `resolve_fuel`, `resolve_cons_succ`, `ChainWF.tail`, and depth-3 chains
                (2, 4, 8 bins) checked by `decide` -/
