import Flurry.Lemmas.BinUStep
/-! # Proto/BinU: the heap invariant, the abstract state (list membership), and the five stores (C01/C07, tree bins)

* `HInv`: `next` pointers go downwards, `first` is valid, keys are pairwise distinct among the
  nodes that are on the list or in the tree.
* `absOf s k` (from the model): the value of the node with key `k` on the **list**: this is the
  ghost abstract state of the linearizability proof ("the list is the truth"). `absTree = absOf`
  whenever list and tree hold the same nodes (`absTree_eq_absOf`).
* `HeapStep s s'`: what a transition does to the heap as far as list-walking readers are concerned.
* the five stores (`val`, `prepend`, `treeLink`, `unlink`, `untree`): each preserves `HInv`, is a
  `HeapStep`, and we compute the new chain and the new abstract state. -/
namespace Flurry.Proto.BinU
open Flurry.Lin

/-- on the list or in the tree -/
def Alive (s : State) (i : Nat) : Prop :=
  i ∈ chain s ∨ (i < s.heap.length ∧ (nodeAt s.heap i).inTree = true)

structure HInv (s : State) : Prop where
  nextOK : NextOK s.heap
  firstOK : ∀ h, s.first = some h → h < s.heap.length
  keysDistinct : ∀ i j, Alive s i → Alive s j → (nodeAt s.heap i).key = (nodeAt s.heap j).key → i = j

theorem chain_isChain' {s : State} (hok : NextOK s.heap) (hh : ∀ h, s.first = some h → h < s.heap.length) :
    IsChain s.heap s.first (chain s) := by
  refine chainFrom_isChain hok _ _ ?_
  intro i hi
  have := hh i hi
  omega

theorem chain_isChain {s : State} (H : HInv s) : IsChain s.heap s.first (chain s) :=
  chain_isChain' H.nextOK H.firstOK

theorem chain_eq' {s : State} (hok : NextOK s.heap) (hh : ∀ h, s.first = some h → h < s.heap.length)
    {l : List Nat} (h : IsChain s.heap s.first l) : chain s = l :=
  (chain_isChain' hok hh).unique h

theorem chain_lt {s : State} (H : HInv s) {i : Nat} (hi : i ∈ chain s) : i < s.heap.length :=
  (chain_isChain H).lt_length i hi

theorem chain_sorted {s : State} (H : HInv s) : (chain s).Pairwise (· > ·) :=
  (chain_isChain H).sorted H.nextOK

theorem chain_nodup {s : State} (H : HInv s) : (chain s).Nodup :=
  (chain_isChain H).nodup H.nextOK

theorem chain_first_none {s : State} (H : HInv s) (h : s.first = none) : chain s = [] := by
  have := chain_isChain H
  rw [h] at this
  cases hc : chain s with
  | nil => rfl
  | cons a l => rw [hc] at this; exact absurd (IsSeg.cons_iff.1 this).1 (by simp)

theorem chain_first_some {s : State} (H : HInv s) {h : Nat} (hh : s.first = some h) :
    ∃ l, chain s = h :: l := by
  have := chain_isChain H
  rw [hh] at this
  cases hc : chain s with
  | nil => rw [hc] at this; cases this
  | cons a l =>
    rw [hc] at this
    obtain ⟨ha, -⟩ := IsSeg.cons_iff.1 this
    cases ha
    exact ⟨l, rfl⟩

theorem chain_congr {s s' : State} (hh : s'.heap = s.heap) (hd : s'.first = s.first) : chain s' = chain s := by
  unfold chain; rw [hh, hd]

theorem Alive.congr {s s' : State} (hh : s'.heap = s.heap) (hd : s'.first = s.first) (i : Nat) :
    Alive s' i ↔ Alive s i := by
  unfold Alive; rw [chain_congr hh hd, hh]

theorem HInv.congr {s s' : State} (H : HInv s) (hh : s'.heap = s.heap) (hd : s'.first = s.first) : HInv s' := by
  refine ⟨by rw [hh]; exact H.nextOK, by rw [hh, hd]; exact H.firstOK, ?_⟩
  intro i j hi hj
  rw [hh]
  exact H.keysDistinct i j ((Alive.congr hh hd i).1 hi) ((Alive.congr hh hd j).1 hj)

/-! ## `treeFind` / `absOf` -/

theorem treeFind_some {s : State} {k i : Nat} (h : treeFind s k = some i) :
    i < s.heap.length ∧ (nodeAt s.heap i).inTree = true ∧ (nodeAt s.heap i).key = k := by
  unfold treeFind at h
  have h1 := List.mem_of_find?_eq_some h
  have h2 := List.find?_some h
  simp only [Bool.and_eq_true, beq_iff_eq] at h2
  exact ⟨List.mem_range.1 h1, h2.1, h2.2⟩

theorem treeFind_none {s : State} {k : Nat} (h : treeFind s k = none) :
    ∀ j, j < s.heap.length → (nodeAt s.heap j).inTree = true → (nodeAt s.heap j).key ≠ k := by
  unfold treeFind at h
  rw [List.find?_eq_none] at h
  intro j hj hin hk
  have := h j (List.mem_range.2 hj)
  simp only [Bool.and_eq_true, beq_iff_eq, not_and] at this
  exact this hin hk

theorem treeFind_of {s : State} (H : HInv s) {k i : Nat} (hi : i < s.heap.length)
    (hin : (nodeAt s.heap i).inTree = true) (hk : (nodeAt s.heap i).key = k) : treeFind s k = some i := by
  cases hf : treeFind s k with
  | none => exact absurd hk (treeFind_none hf i hi hin)
  | some j =>
    obtain ⟨hj, hjin, hjk⟩ := treeFind_some hf
    rw [H.keysDistinct j i (Or.inr ⟨hj, hjin⟩) (Or.inr ⟨hi, hin⟩) (by rw [hjk, hk])]

/-! ## the abstract state: list membership -/

theorem absOf_def (s : State) (k : Nat) :
    absOf s k = ((chain s).find? (fun i => (nodeAt s.heap i).key == k)).map (fun i => (nodeAt s.heap i).val) := by
  unfold absOf nodeAt
  cases (chain s).find? (fun i => (s.heap.getD i dflt).key == k) <;> rfl

theorem absOf_eq_none_iff {s : State} {k : Nat} :
    absOf s k = none ↔ ∀ i ∈ chain s, (nodeAt s.heap i).key ≠ k := by
  rw [absOf_def, Option.map_eq_none_iff, List.find?_eq_none]
  simp

theorem absOf_eq_some_iff {s : State} (H : HInv s) {k : Nat} {v : Nat × Nat} :
    absOf s k = some v ↔ ∃ i ∈ chain s, (nodeAt s.heap i).key = k ∧ (nodeAt s.heap i).val = v := by
  rw [absOf_def, Option.map_eq_some_iff]
  constructor
  · rintro ⟨i, hf, hv⟩
    have h1 := List.mem_of_find?_eq_some hf
    have h2 := List.find?_some hf
    simp only [beq_iff_eq] at h2
    exact ⟨i, h1, h2, hv⟩
  · rintro ⟨i, hi, hk, hv⟩
    cases hf : (chain s).find? (fun i => (nodeAt s.heap i).key == k) with
    | none =>
      rw [List.find?_eq_none] at hf
      have := hf i hi
      simp [hk] at this
    | some j =>
      have h1 := List.mem_of_find?_eq_some hf
      have h2 := List.find?_some hf
      simp only [beq_iff_eq] at h2
      have : j = i := H.keysDistinct j i (Or.inl h1) (Or.inl hi) (by rw [h2, hk])
      subst this
      exact ⟨j, rfl, hv⟩

theorem absOf_congr {s s' : State} (hh : s'.heap = s.heap) (hd : s'.first = s.first) (k : Nat) :
    absOf s' k = absOf s k := by
  rw [absOf_def, absOf_def, chain_congr hh hd, hh]

/-- when list and tree hold the same nodes, the tree's view is the abstract state -/
theorem absTree_eq_absOf {s : State} (H : HInv s)
    (hsub : ∀ j, j < s.heap.length → (nodeAt s.heap j).inTree = true → j ∈ chain s)
    (hsup : ∀ j ∈ chain s, (nodeAt s.heap j).inTree = true) (k : Nat) :
    absTree s k = absOf s k := by
  unfold absTree
  cases hf : treeFind s k with
  | none =>
    simp only
    symm
    rw [absOf_eq_none_iff]
    intro i hi
    exact treeFind_none hf i (chain_lt H hi) (hsup i hi)
  | some i =>
    simp only
    obtain ⟨hi, hin, hk⟩ := treeFind_some hf
    symm
    rw [absOf_eq_some_iff H]
    exact ⟨i, hsub i hi hin, hk, rfl⟩

/-- the general recipe: the abstract state of `s'` from a description of its list -/
theorem absOf_same {s s' : State} (H : HInv s) (H' : HInv s')
    (hlive : ∀ j, j ∈ chain s' ↔ j ∈ chain s)
    (hkv : ∀ j, j ∈ chain s →
      (nodeAt s'.heap j).key = (nodeAt s.heap j).key ∧ (nodeAt s'.heap j).val = (nodeAt s.heap j).val) (k : Nat) :
    absOf s' k = absOf s k := by
  cases ha : absOf s k with
  | none =>
    rw [absOf_eq_none_iff] at ha ⊢
    intro j hj
    have h1 := (hlive j).1 hj
    rw [(hkv j h1).1]; exact ha j h1
  | some w =>
    rw [absOf_eq_some_iff H] at ha
    obtain ⟨j, hj, hjk, hjv⟩ := ha
    rw [absOf_eq_some_iff H']
    exact ⟨j, (hlive j).2 hj, by rw [(hkv j hj).1, hjk], by rw [(hkv j hj).2, hjv]⟩

/-- a list node gets a new value -/
theorem absOf_val {s s' : State} (H : HInv s) (H' : HInv s') {i : Nat} {v : Nat × Nat}
    (hi : i ∈ chain s)
    (hlive : ∀ j, j ∈ chain s' ↔ j ∈ chain s)
    (hkey : ∀ j, (nodeAt s'.heap j).key = (nodeAt s.heap j).key)
    (hval : ∀ j, (nodeAt s'.heap j).val = if j = i then v else (nodeAt s.heap j).val) (k : Nat) :
    absOf s' k = if (nodeAt s.heap i).key = k then some v else absOf s k := by
  split
  · rename_i hk
    rw [absOf_eq_some_iff H']
    exact ⟨i, (hlive i).2 hi, by rw [hkey, hk], by rw [hval]; simp⟩
  · rename_i hk
    cases ha : absOf s k with
    | none =>
      rw [absOf_eq_none_iff] at ha ⊢
      intro j hj
      rw [hkey]; exact ha j ((hlive j).1 hj)
    | some w =>
      rw [absOf_eq_some_iff H] at ha
      obtain ⟨j, hj, hjk, hjv⟩ := ha
      rw [absOf_eq_some_iff H']
      have hji : j ≠ i := fun h => hk (h ▸ hjk)
      exact ⟨j, (hlive j).2 hj, by rw [hkey, hjk], by rw [hval, if_neg hji, hjv]⟩

/-- a node joins the list -/
theorem absOf_add {s s' : State} (H : HInv s) (H' : HInv s') {x : Nat}
    (hx : x ∈ chain s')
    (hlive : ∀ j, j ∈ chain s' ↔ (j = x ∨ j ∈ chain s))
    (hkv : ∀ j, j ∈ chain s →
      (nodeAt s'.heap j).key = (nodeAt s.heap j).key ∧ (nodeAt s'.heap j).val = (nodeAt s.heap j).val)
    (k : Nat) :
    absOf s' k = if (nodeAt s'.heap x).key = k then some (nodeAt s'.heap x).val else absOf s k := by
  split
  · rename_i hk
    rw [absOf_eq_some_iff H']
    exact ⟨x, hx, hk, rfl⟩
  · rename_i hk
    cases ha : absOf s k with
    | none =>
      rw [absOf_eq_none_iff] at ha ⊢
      intro j hj
      rcases (hlive j).1 hj with rfl | h1
      · exact hk
      · rw [(hkv j h1).1]; exact ha j h1
    | some w =>
      rw [absOf_eq_some_iff H] at ha
      obtain ⟨j, hj, hjk, hjv⟩ := ha
      rw [absOf_eq_some_iff H']
      exact ⟨j, (hlive j).2 (Or.inr hj), by rw [(hkv j hj).1, hjk], by rw [(hkv j hj).2, hjv]⟩

/-- a node leaves the list -/
theorem absOf_del {s s' : State} (H : HInv s) (H' : HInv s') {i : Nat}
    (hi : i ∈ chain s)
    (hlive : ∀ j, j ∈ chain s' ↔ (j ≠ i ∧ j ∈ chain s))
    (hkv : ∀ j, j ∈ chain s →
      (nodeAt s'.heap j).key = (nodeAt s.heap j).key ∧ (nodeAt s'.heap j).val = (nodeAt s.heap j).val)
    (k : Nat) :
    absOf s' k = if (nodeAt s.heap i).key = k then none else absOf s k := by
  split
  · rename_i hk
    rw [absOf_eq_none_iff]
    intro j hj hjk
    obtain ⟨hne, h1⟩ := (hlive j).1 hj
    rw [(hkv j h1).1] at hjk
    exact hne (H.keysDistinct j i (Or.inl h1) (Or.inl hi) (by rw [hjk, hk]))
  · rename_i hk
    cases ha : absOf s k with
    | none =>
      rw [absOf_eq_none_iff] at ha ⊢
      intro j hj
      obtain ⟨-, h1⟩ := (hlive j).1 hj
      rw [(hkv j h1).1]; exact ha j h1
    | some w =>
      rw [absOf_eq_some_iff H] at ha
      obtain ⟨j, hj, hjk, hjv⟩ := ha
      rw [absOf_eq_some_iff H']
      have hji : j ≠ i := fun h => hk (h ▸ hjk)
      exact ⟨j, (hlive j).2 ⟨hji, hj⟩, by rw [(hkv j hj).1, hjk], by rw [(hkv j hj).2, hjv]⟩

/-! ## what a transition does to the heap, seen from a list-walking reader -/

structure HeapStep (s s' : State) : Prop where
  len : s.heap.length ≤ s'.heap.length
  key : ∀ j, j < s.heap.length → (nodeAt s'.heap j).key = (nodeAt s.heap j).key
  /-- nodes that are not on the list keep value and `next` -/
  off : ∀ j, j < s.heap.length → j ∉ chain s →
    (nodeAt s'.heap j).val = (nodeAt s.heap j).val ∧ (nodeAt s'.heap j).next = (nodeAt s.heap j).next
  /-- an unlinked node never returns to the list -/
  noRelink : ∀ j ∈ chain s', j ∈ chain s ∨ s.heap.length ≤ j
  /-- the node that is unlinked keeps value and `next`; only one node is unlinked -/
  unl : ∀ c ∈ chain s, c ∉ chain s' →
    (nodeAt s'.heap c).val = (nodeAt s.heap c).val ∧ (nodeAt s'.heap c).next = (nodeAt s.heap c).next ∧
    ∀ j ∈ chain s, j ≠ c → j ∈ chain s'
  /-- the key of a prepended node is not on the list -/
  fresh : ∀ j ∈ chain s', s.heap.length ≤ j → ∀ i ∈ chain s, (nodeAt s.heap i).key ≠ (nodeAt s'.heap j).key
  /-- only values of list nodes change -/
  valchg : ∀ j, j < s.heap.length → (nodeAt s'.heap j).val ≠ (nodeAt s.heap j).val → j ∈ chain s'

theorem HeapStep.of_same {s s' : State} (H : HInv s) (hh : s'.heap = s.heap) (hd : s'.first = s.first) : HeapStep s s' := by
  have hc := chain_congr hh hd
  refine ⟨by rw [hh]; exact Nat.le_refl _, by intros; rw [hh], by intros; rw [hh]; exact ⟨rfl, rfl⟩, ?_, ?_, ?_, ?_⟩
  · intro j hj; rw [hc] at hj; exact Or.inl hj
  · intro c hc1 hc2; rw [hc] at hc2; exact absurd hc1 hc2
  · intro j hj hlen
    rw [hc] at hj
    have := chain_lt H hj
    omega
  · intro j _ hne; rw [hh] at hne; exact absurd rfl hne


/-! ## stores that modify one node, keeping key and `next` -/

theorem modify_chain {s s' : State} (H : HInv s) {i : Nat} {f : NodeS → NodeS}
    (hh : s'.heap = s.heap.modify i f) (hd : s'.first = s.first)
    (hf : ∀ n, (f n).next = n.next ∧ (f n).key = n.key) :
    NextOK s'.heap ∧ (∀ h, s'.first = some h → h < s'.heap.length) ∧ chain s' = chain s := by
  have hok : NextOK s'.heap := by
    intro a n b hn hb
    rw [hh, List.getElem?_modify] at hn
    cases hn0 : s.heap[a]? with
    | none => rw [hn0] at hn; cases hn
    | some n0 =>
      rw [hn0] at hn
      simp only [Option.map_eq_map, Option.map_some, Option.some.injEq] at hn
      subst hn
      refine H.nextOK a n0 b hn0 ?_
      split at hb
      · rw [(hf n0).1] at hb; exact hb
      · exact hb
  have hho : ∀ h, s'.first = some h → h < s'.heap.length := by
    intro h hhd
    rw [hh, List.length_modify]
    exact H.firstOK h (hd ▸ hhd)
  refine ⟨hok, hho, chain_eq' hok hho ?_⟩
  rw [hd]
  refine (chain_isChain H).congr ?_
  intro j _ n hn
  rw [hh, List.getElem?_modify, hn]
  by_cases hij : i = j
  · exact ⟨f n, by simp [hij], (hf n).1⟩
  · exact ⟨n, by simp [hij], rfl⟩

/-- the common part of the three one-node stores -/
theorem modify_summary {s s' : State} (H : HInv s) {i : Nat} {f : NodeS → NodeS}
    (hh : s'.heap = s.heap.modify i f) (hd : s'.first = s.first)
    (hf : ∀ n, (f n).next = n.next ∧ (f n).key = n.key)
    (halive : (nodeAt s'.heap i).inTree = true → Alive s i)
    (hv : (nodeAt s'.heap i).val ≠ (nodeAt s.heap i).val → i ∈ chain s) :
    HInv s' ∧ HeapStep s s' ∧ chain s' = chain s ∧ s'.heap.length = s.heap.length ∧
      (∀ j, (nodeAt s'.heap j).key = (nodeAt s.heap j).key) ∧
      (∀ j, j ≠ i → nodeAt s'.heap j = nodeAt s.heap j) := by
  obtain ⟨hok, hho, hc⟩ := modify_chain H hh hd hf
  have hlen : s'.heap.length = s.heap.length := by rw [hh, List.length_modify]
  have hkey : ∀ j, (nodeAt s'.heap j).key = (nodeAt s.heap j).key := by
    intro j; rw [hh, nodeAt_modify]; split
    · exact (hf _).2
    · rfl
  have hother : ∀ j, j ≠ i → nodeAt s'.heap j = nodeAt s.heap j := by
    intro j hj; rw [hh, nodeAt_modify, if_neg]
    intro h; exact hj h.1.symm
  have hal : ∀ j, Alive s' j → Alive s j := by
    intro j hj
    by_cases hji : j = i
    · subst hji
      rcases hj with hj | ⟨_, hj⟩
      · exact Or.inl (hc ▸ hj)
      · exact halive hj
    · rcases hj with hj | ⟨hj1, hj2⟩
      · exact Or.inl (hc ▸ hj)
      · exact Or.inr ⟨hlen ▸ hj1, by rw [← hother j hji]; exact hj2⟩
  refine ⟨⟨hok, hho, ?_⟩, ⟨by omega, fun j _ => hkey j, ?_, ?_, ?_, ?_, ?_⟩, hc, hlen, hkey, hother⟩
  · intro a b ha hb hab
    rw [hkey, hkey] at hab
    exact H.keysDistinct a b (hal a ha) (hal b hb) hab
  · intro j _ hjc
    by_cases hji : j = i
    · subst hji
      refine ⟨?_, ?_⟩
      · apply Classical.byContradiction
        intro hne
        exact hjc (hv hne)
      · rw [hh, nodeAt_modify]; split
        · exact (hf _).1
        · rfl
    · rw [hother j hji]; exact ⟨rfl, rfl⟩
  · intro j hj; rw [hc] at hj; exact Or.inl hj
  · intro c hc1 hc2; rw [hc] at hc2; exact absurd hc1 hc2
  · intro j hj hjl
    rw [hc] at hj
    have := chain_lt H hj
    omega
  · intro j _ hne
    by_cases hji : j = i
    · subst hji
      exact hc ▸ hv hne
    · rw [hother j hji] at hne; exact absurd rfl hne

theorem nodeAt_modify_self {heap : List NodeS} {i : Nat} (f : NodeS → NodeS) (hi : i < heap.length) :
    nodeAt (heap.modify i f) i = f (nodeAt heap i) := by
  rw [nodeAt_modify, if_pos ⟨rfl, hi⟩]

/-- the value store at a list node -/
theorem val_store {s s' : State} (H : HInv s) {i : Nat} {v : Nat × Nat}
    (hi : i ∈ chain s)
    (hh : s'.heap = s.heap.modify i (fun n => { n with val := v })) (hd : s'.first = s.first) :
    HInv s' ∧ HeapStep s s' ∧ chain s' = chain s ∧ s'.heap.length = s.heap.length ∧
      (∀ j, (nodeAt s'.heap j).key = (nodeAt s.heap j).key) ∧
      (∀ j, (nodeAt s'.heap j).inTree = (nodeAt s.heap j).inTree) ∧
      (∀ j, (nodeAt s'.heap j).val = if j = i then v else (nodeAt s.heap j).val) ∧
      ∀ k, absOf s' k = if (nodeAt s.heap i).key = k then some v else absOf s k := by
  have hil := chain_lt H hi
  have hself : nodeAt s'.heap i = { nodeAt s.heap i with val := v } := by
    rw [hh]; exact nodeAt_modify_self _ hil
  obtain ⟨H', hs, hc, hlen, hkey, hother⟩ := modify_summary H hh hd (fun n => ⟨rfl, rfl⟩)
    (fun _ => Or.inl hi) (fun _ => hi)
  have hint : ∀ j, (nodeAt s'.heap j).inTree = (nodeAt s.heap j).inTree := by
    intro j
    by_cases hji : j = i
    · subst hji; rw [hself]
    · rw [hother j hji]
  have hval : ∀ j, (nodeAt s'.heap j).val = if j = i then v else (nodeAt s.heap j).val := by
    intro j
    by_cases hji : j = i
    · subst hji; rw [hself, if_pos rfl]
    · rw [hother j hji, if_neg hji]
  refine ⟨H', hs, hc, hlen, hkey, hint, hval, absOf_val H H' hi ?_ hkey hval⟩
  intro j; rw [hc]

/-- linking the freshly prepended node into the tree -/
theorem treeLink_store {s s' : State} (H : HInv s) {x : Nat}
    (hx : x ∈ chain s)
    (hh : s'.heap = s.heap.modify x (fun n => { n with inTree := true })) (hd : s'.first = s.first) :
    HInv s' ∧ HeapStep s s' ∧ chain s' = chain s ∧ s'.heap.length = s.heap.length ∧
      (∀ j, (nodeAt s'.heap j).key = (nodeAt s.heap j).key) ∧
      (∀ j, (nodeAt s'.heap j).val = (nodeAt s.heap j).val) ∧
      (∀ j, (nodeAt s'.heap j).inTree = if j = x then true else (nodeAt s.heap j).inTree) ∧
      ∀ k, absOf s' k = absOf s k := by
  have hxl := chain_lt H hx
  have hself : nodeAt s'.heap x = { nodeAt s.heap x with inTree := true } := by
    rw [hh]; exact nodeAt_modify_self _ hxl
  obtain ⟨H', hs, hc, hlen, hkey, hother⟩ := modify_summary H hh hd (fun n => ⟨rfl, rfl⟩)
    (fun _ => Or.inl hx) (fun hne => absurd (by rw [hself]) hne)
  have hval : ∀ j, (nodeAt s'.heap j).val = (nodeAt s.heap j).val := by
    intro j
    by_cases hji : j = x
    · subst hji; rw [hself]
    · rw [hother j hji]
  have hint : ∀ j, (nodeAt s'.heap j).inTree = if j = x then true else (nodeAt s.heap j).inTree := by
    intro j
    by_cases hji : j = x
    · subst hji; rw [hself, if_pos rfl]
    · rw [hother j hji, if_neg hji]
  refine ⟨H', hs, hc, hlen, hkey, hval, hint, ?_⟩
  exact absOf_same H H' (fun j => by rw [hc]) (fun j _ => ⟨hkey j, hval j⟩)

/-- taking an unlinked node out of the tree -/
theorem untree_store {s s' : State} (H : HInv s) {i : Nat} (hi : i ∉ chain s)
    (hh : s'.heap = s.heap.modify i (fun n => { n with inTree := false })) (hd : s'.first = s.first) :
    HInv s' ∧ HeapStep s s' ∧ chain s' = chain s ∧ s'.heap.length = s.heap.length ∧
      (∀ j, (nodeAt s'.heap j).key = (nodeAt s.heap j).key) ∧
      (∀ j, (nodeAt s'.heap j).val = (nodeAt s.heap j).val) ∧
      (∀ j, j ≠ i → (nodeAt s'.heap j).inTree = (nodeAt s.heap j).inTree) ∧
      (i < s.heap.length → (nodeAt s'.heap i).inTree = false) ∧
      ∀ k, absOf s' k = absOf s k := by
  have hself : (nodeAt s'.heap i).inTree = false := by
    rw [hh, nodeAt_modify]
    split
    · rfl
    · rename_i hn
      have : ¬ i < s.heap.length := fun h => hn ⟨rfl, h⟩
      rw [nodeAt_eq, List.getElem?_eq_none (by omega)]
      rfl
  obtain ⟨H', hs, hc, hlen, hkey, hother⟩ := modify_summary H hh hd (fun n => ⟨rfl, rfl⟩)
    (fun h => by rw [hself] at h; cases h)
    (fun hne => by
      exfalso; apply hne
      rw [hh, nodeAt_modify]; split <;> rfl)
  have hval : ∀ j, (nodeAt s'.heap j).val = (nodeAt s.heap j).val := by
    intro j
    by_cases hji : j = i
    · subst hji; rw [hh, nodeAt_modify]; split <;> rfl
    · rw [hother j hji]
  refine ⟨H', hs, hc, hlen, hkey, hval, fun j hj => by rw [hother j hj], fun _ => hself, ?_⟩
  exact absOf_same H H' (fun j => by rw [hc]) (fun j _ => ⟨hkey j, hval j⟩)

/-! ## prepending a fresh node -/

theorem prepend_store {s s' : State} (H : HInv s) {new : NodeS}
    (hnext : new.next = s.first)
    (hfresh : ∀ j, Alive s j → (nodeAt s.heap j).key ≠ new.key)
    (hh : s'.heap = s.heap ++ [new]) (hd : s'.first = some s.heap.length) :
    HInv s' ∧ HeapStep s s' ∧ chain s' = s.heap.length :: chain s ∧
      s'.heap.length = s.heap.length + 1 ∧
      (∀ j, j < s.heap.length → nodeAt s'.heap j = nodeAt s.heap j) ∧
      nodeAt s'.heap s.heap.length = new ∧
      ∀ k, absOf s' k = if new.key = k then some new.val else absOf s k := by
  have hlen : s'.heap.length = s.heap.length + 1 := by
    rw [hh, List.length_append, List.length_singleton]
  have hold : ∀ j, j < s.heap.length → nodeAt s'.heap j = nodeAt s.heap j := by
    intro j hj; rw [hh, nodeAt_append_left _ hj]
  have hnew : nodeAt s'.heap s.heap.length = new := by rw [hh, nodeAt_append_new]
  have hok : NextOK s'.heap := by
    intro a n b hn hb
    rw [hh] at hn
    by_cases ha : a < s.heap.length
    · rw [List.getElem?_append_left ha] at hn
      exact H.nextOK a n b hn hb
    · have hal : a < (s.heap ++ [new]).length := (List.getElem?_eq_some_iff.1 hn).1
      rw [List.length_append, List.length_singleton] at hal
      have : a = s.heap.length := by omega
      subst this
      simp only [List.getElem?_concat_length, Option.some.injEq] at hn
      subst hn
      rw [hnext] at hb
      exact H.firstOK b hb
  have hho : ∀ h, s'.first = some h → h < s'.heap.length := by
    intro h hhd
    rw [hd] at hhd; cases hhd
    omega
  have hc : chain s' = s.heap.length :: chain s := by
    refine chain_eq' hok hho ?_
    rw [hd, hh]
    exact isChain_prepend (chain_isChain H) new hnext
  have hal : ∀ j, Alive s' j → j = s.heap.length ∨ (j < s.heap.length ∧ Alive s j) := by
    intro j hj
    rcases hj with hj | ⟨hj1, hj2⟩
    · rw [hc] at hj
      rcases List.mem_cons.1 hj with hj | hj
      · exact Or.inl hj
      · exact Or.inr ⟨chain_lt H hj, Or.inl hj⟩
    · by_cases hjl : j < s.heap.length
      · rw [hold j hjl] at hj2
        exact Or.inr ⟨hjl, Or.inr ⟨hjl, hj2⟩⟩
      · exact Or.inl (by omega)
  have H' : HInv s' := by
    refine ⟨hok, hho, ?_⟩
    intro a b ha hb hab
    rcases hal a ha with rfl | ⟨hal1, hal2⟩ <;> rcases hal b hb with rfl | ⟨hbl1, hbl2⟩
    · rfl
    · rw [hnew, hold b hbl1] at hab
      exact absurd hab.symm (hfresh b hbl2)
    · rw [hnew, hold a hal1] at hab
      exact absurd hab (hfresh a hal2)
    · rw [hold a hal1, hold b hbl1] at hab
      exact H.keysDistinct a b hal2 hbl2 hab
  refine ⟨H', ⟨by omega, fun j hj => by rw [hold j hj], fun j hj _ => by rw [hold j hj]; exact ⟨rfl, rfl⟩,
    ?_, ?_, ?_, ?_⟩, hc, hlen, hold, hnew, ?_⟩
  · intro j hj
    rw [hc] at hj
    rcases List.mem_cons.1 hj with hj | hj
    · exact Or.inr (by omega)
    · exact Or.inl hj
  · intro c hc1 hc2
    exact absurd (hc ▸ List.mem_cons_of_mem _ hc1) hc2
  · intro j hj hjl i hi
    rw [hc] at hj
    rcases List.mem_cons.1 hj with hj | hj
    · subst hj; rw [hnew]; exact hfresh i (Or.inl hi)
    · have := chain_lt H hj; omega
  · intro j hj hne
    rw [hold j hj] at hne; exact absurd rfl hne
  · intro k
    have := absOf_add H H' (x := s.heap.length) (by rw [hc]; exact List.mem_cons_self) ?_ ?_ k
    · rw [hnew] at this; exact this
    · intro j; rw [hc, List.mem_cons]
    · intro j hj
      rw [hold j (chain_lt H hj)]; exact ⟨rfl, rfl⟩

/-! ## unlinking a node from the list -/

theorem unlink_summary {s s' : State} (H : HInv s) {i : Nat} (hi : i ∈ chain s)
    (hok' : NextOK s'.heap) (hho' : ∀ h, s'.first = some h → h < s'.heap.length)
    (hlen : s'.heap.length = s.heap.length)
    (hc : ∀ j, j ∈ chain s' ↔ j ∈ chain s ∧ j ≠ i)
    (hold : ∀ j, (nodeAt s'.heap j).key = (nodeAt s.heap j).key ∧
      (nodeAt s'.heap j).val = (nodeAt s.heap j).val ∧
      (nodeAt s'.heap j).inTree = (nodeAt s.heap j).inTree ∧
      ((j ∉ chain s ∨ j = i) → (nodeAt s'.heap j).next = (nodeAt s.heap j).next)) :
    HInv s' ∧ HeapStep s s' ∧ (∀ j, j ∈ chain s' ↔ j ∈ chain s ∧ j ≠ i) ∧
      s'.heap.length = s.heap.length ∧
      (∀ j, (nodeAt s'.heap j).key = (nodeAt s.heap j).key ∧
        (nodeAt s'.heap j).val = (nodeAt s.heap j).val ∧
        (nodeAt s'.heap j).inTree = (nodeAt s.heap j).inTree) ∧
      ∀ k, absOf s' k = if (nodeAt s.heap i).key = k then none else absOf s k := by
  have hal : ∀ j, Alive s' j → Alive s j := by
    intro j hj
    rcases hj with hj | ⟨hj1, hj2⟩
    · exact Or.inl ((hc j).1 hj).1
    · exact Or.inr ⟨hlen ▸ hj1, by rw [← (hold j).2.2.1]; exact hj2⟩
  have H' : HInv s' := by
    refine ⟨hok', hho', ?_⟩
    intro a b ha hb hab
    rw [(hold a).1, (hold b).1] at hab
    exact H.keysDistinct a b (hal a ha) (hal b hb) hab
  refine ⟨H', ⟨by omega, fun j _ => (hold j).1,
    fun j _ hjc => ⟨(hold j).2.1, (hold j).2.2.2 (Or.inl hjc)⟩, ?_, ?_, ?_, ?_⟩, hc, hlen,
    fun j => ⟨(hold j).1, (hold j).2.1, (hold j).2.2.1⟩, ?_⟩
  · intro j hj
    exact Or.inl ((hc j).1 hj).1
  · intro c hc1 hc2
    have hci : c = i := by
      apply Classical.byContradiction
      intro hne
      exact hc2 ((hc c).2 ⟨hc1, hne⟩)
    subst hci
    exact ⟨(hold c).2.1, (hold c).2.2.2 (Or.inr rfl), fun j hj hne => (hc j).2 ⟨hj, hne⟩⟩
  · intro j hj hjl
    have := chain_lt H ((hc j).1 hj).1
    omega
  · intro j _ hne
    exact absurd (hold j).2.1 hne
  · refine absOf_del H H' hi ?_ (fun j _ => ⟨(hold j).1, (hold j).2.1⟩)
    intro j
    rw [hc]
    exact And.comm

theorem unlink_mid {s s' : State} (H : HInv s) {l1 l2 : List Nat} {pr i : Nat}
    (hch : chain s = l1 ++ pr :: i :: l2)
    (hh : s'.heap = s.heap.modify pr (fun m => { m with next := (nodeAt s.heap i).next }))
    (hd : s'.first = s.first) :
    HInv s' ∧ HeapStep s s' ∧ (∀ j, j ∈ chain s' ↔ j ∈ chain s ∧ j ≠ i) ∧
      s'.heap.length = s.heap.length ∧
      (∀ j, (nodeAt s'.heap j).key = (nodeAt s.heap j).key ∧
        (nodeAt s'.heap j).val = (nodeAt s.heap j).val ∧
        (nodeAt s'.heap j).inTree = (nodeAt s.heap j).inTree) ∧
      ∀ k, absOf s' k = if (nodeAt s.heap i).key = k then none else absOf s k := by
  have hi : i ∈ chain s := by rw [hch]; simp
  have hpr : pr ∈ chain s := by rw [hch]; simp
  have hil := chain_lt H hi
  have hni := getElem?_nodeAt hil
  have hchain := chain_isChain H
  rw [hch] at hchain
  have hnd := chain_nodup H
  rw [hch] at hnd
  have hpri : pr ≠ i := by
    intro he
    subst he
    have := (List.nodup_append.1 hnd).2.1
    simp at this
  obtain ⟨b, h1, h2⟩ := hchain.split
  obtain ⟨-, np, hnp, hs⟩ := IsSeg.cons_iff.1 h2
  obtain ⟨hb, -⟩ := IsSeg.cons_iff.1 hs
  have hok' : NextOK s'.heap := by
    intro a n b' hn hb'
    rw [hh, List.getElem?_modify] at hn
    cases hn0 : s.heap[a]? with
    | none => rw [hn0] at hn; cases hn
    | some n0 =>
      rw [hn0] at hn
      simp only [Option.map_eq_map, Option.map_some, Option.some.injEq] at hn
      subst hn
      split at hb'
      · rename_i hpa
        subst hpa
        have h3 := H.nextOK pr np i hnp hb
        have h4 := H.nextOK i _ b' hni hb'
        omega
      · exact H.nextOK a n0 b' hn0 hb'
  have hlen : s'.heap.length = s.heap.length := by rw [hh, List.length_modify]
  have hho' : ∀ h, s'.first = some h → h < s'.heap.length := by
    intro h hhd
    have := H.firstOK h (hd ▸ hhd)
    omega
  have hc : chain s' = l1 ++ pr :: l2 := by
    refine chain_eq' hok' hho' ?_
    rw [hd, hh]
    have := chain_isChain H
    rw [hch] at this
    exact isChain_unlink H.nextOK this hni
  refine unlink_summary H hi hok' hho' hlen ?_ ?_
  · intro j
    rw [hc, hch]
    simp only [List.mem_append, List.mem_cons]
    constructor
    · intro hj
      refine ⟨by rcases hj with hj | hj | hj <;> simp [hj], ?_⟩
      rintro rfl
      have h5 := List.nodup_append.1 hnd
      rcases hj with hj | hj | hj
      · exact h5.2.2 j hj j (by simp) rfl
      · exact hpri hj.symm
      · have := (List.nodup_cons.1 (List.nodup_cons.1 h5.2.1).2).1
        exact this hj
    · rintro ⟨hj | hj | hj | hj, hne⟩
      · exact Or.inl hj
      · exact Or.inr (Or.inl hj)
      · exact absurd hj hne
      · exact Or.inr (Or.inr hj)
  · intro j
    rw [hh, nodeAt_modify]
    split
    · rename_i hjp
      refine ⟨rfl, rfl, rfl, ?_⟩
      rintro (hjc | hji)
      · exact absurd (hjp.1 ▸ hpr) hjc
      · exact absurd (hjp.1.trans hji) hpri
    · exact ⟨rfl, rfl, rfl, fun _ => rfl⟩

theorem unlink_head {s s' : State} (H : HInv s) {l2 : List Nat} {i : Nat}
    (hch : chain s = i :: l2)
    (hh : s'.heap = s.heap) (hd : s'.first = (nodeAt s.heap i).next) :
    HInv s' ∧ HeapStep s s' ∧ (∀ j, j ∈ chain s' ↔ j ∈ chain s ∧ j ≠ i) ∧
      s'.heap.length = s.heap.length ∧
      (∀ j, (nodeAt s'.heap j).key = (nodeAt s.heap j).key ∧
        (nodeAt s'.heap j).val = (nodeAt s.heap j).val ∧
        (nodeAt s'.heap j).inTree = (nodeAt s.heap j).inTree) ∧
      ∀ k, absOf s' k = if (nodeAt s.heap i).key = k then none else absOf s k := by
  have hi : i ∈ chain s := by rw [hch]; simp
  have hil := chain_lt H hi
  have hni := getElem?_nodeAt hil
  have hchain := chain_isChain H
  rw [hch] at hchain
  have hnd := chain_nodup H
  rw [hch] at hnd
  obtain ⟨-, ni, hni', hs⟩ := IsSeg.cons_iff.1 hchain
  rw [hni] at hni'; cases hni'
  have hok' : NextOK s'.heap := by rw [hh]; exact H.nextOK
  have hho' : ∀ h, s'.first = some h → h < s'.heap.length := by
    intro h hhd
    rw [hd] at hhd
    rw [hh]
    have := H.nextOK i _ h hni hhd
    omega
  have hc : chain s' = l2 := by
    refine chain_eq' hok' hho' ?_
    rw [hd, hh]; exact hs
  refine unlink_summary H hi hok' hho' (by rw [hh]) ?_ ?_
  · intro j
    rw [hc, hch]
    simp only [List.mem_cons]
    constructor
    · intro hj
      refine ⟨Or.inr hj, ?_⟩
      rintro rfl
      exact (List.nodup_cons.1 hnd).1 hj
    · rintro ⟨hj | hj, hne⟩
      · exact absurd hj hne
      · exact hj
  · intro j
    rw [hh]
    exact ⟨rfl, rfl, rfl, fun _ => rfl⟩

/-- the unlink store (`wUnlinkLocked`) -/
theorem unlink_store {s s' : State} (H : HInv s) {i : Nat} (hi : i ∈ chain s)
    (hh : s'.heap = (unlinkOf s i).heap) (hd : s'.first = (unlinkOf s i).first) :
    HInv s' ∧ HeapStep s s' ∧ (∀ j, j ∈ chain s' ↔ j ∈ chain s ∧ j ≠ i) ∧
      s'.heap.length = s.heap.length ∧
      (∀ j, (nodeAt s'.heap j).key = (nodeAt s.heap j).key ∧
        (nodeAt s'.heap j).val = (nodeAt s.heap j).val ∧
        (nodeAt s'.heap j).inTree = (nodeAt s.heap j).inTree) ∧
      ∀ k, absOf s' k = if (nodeAt s.heap i).key = k then none else absOf s k := by
  unfold unlinkOf at hh hd
  rcases predOf_cases (chain_nodup H) hi with ⟨l2, hch, hp⟩ | ⟨l1, pr, l2, hch, hp⟩
  · rw [hp] at hh hd
    exact unlink_head H hch hh hd
  · rw [hp] at hh hd
    exact unlink_mid H hch hh hd

end Flurry.Proto.BinU
