import Flurry.Lemmas.BinKBasic
/-! # Proto/BinK: the transitions in normal form (C01, a bin that changes its kind)

`StepK s t l s'` lists the transitions of thread `t` of `step = stepG true` with explicit successor
states, grouped by what they do to the shared state:
* `move` / `kmove` / `fin`: heap cells other than lock words, the `first` fields and the bin cell are
  untouched; the program counter moves, a lock word of a node or the synchronisation words of a
  `TreeBin` may change (`Move`, `KMove` for the treeify thread, `Fin` for calls that complete);
* the stores: `cas`, `store` (the single store of a list-bin writer), `tval`, `prepend`, `treeLink`,
  `unlink`, `untree`, `untreeify`, `kbuild`, `kstore`.
`step_stepK` dissects `step` once and for all. -/
namespace Flurry.Proto.BinK
open Flurry.Lin

/-- the state with the clock advanced -/
def tick (s : State) : State := { s with now := s.now + 1 }

/-- clock advanced, heap and `TreeBin` table replaced -/
def qst (s : State) (hp : List NodeS) (tb : List TBin) : State :=
  { s with now := s.now + 1, heap := hp, tbins := tb }

/-- the lock word of node `h` set to `x` -/
def lockSet (heap : List NodeS) (h : Nat) (x : Option Nat) : List NodeS :=
  heap.modify h (fun m => { m with lock := x })

/-- the list unlink of node `i` of tree bin `b` -/
def unlinkOf (s : State) (b i : Nat) : State :=
  match predOf (chainOfBin s b) i with
  | some pr => setNode s pr (fun m => { m with next := (nodeAt s.heap i).next })
  | none => setBin s b (fun y => { y with first := (nodeAt s.heap i).next })

def isInsert : KOp → Bool
  | .ins _ _ | .tryIns _ _ => true
  | _ => false

/-- the tree's view of key `k` in bin `b` -/
def absTree (s : State) (b k : Nat) : KSt :=
  match treeFind s b k with
  | some i => some (nodeAt s.heap i).val
  | none => none

/-- transitions of a thread with a call in flight that leave the shared state alone but for one lock
word of a node, and do not complete the call: `Move s t p pc pc' heap'` -/
inductive Move (s : State) (t : Nat) (p : Pending) : Pc → Pc → List NodeS → Prop
  | rCellList {lo : Bool} {h : Nat} : s.cell = .list h →
      Move s t p (.rCell lo) (.rNode (some h)) s.heap
  | rCellTree {lo : Bool} {b : Nat} : s.cell = .tree b →
      Move s t p (.rCell lo) (if lo then .lFirst b else .rFirst b) s.heap
  | rNodeNext {c : Nat} {n : NodeS} : s.heap[c]? = some n → n.key ≠ p.key →
      Move s t p (.rNode (some c)) (.rNode n.next) s.heap
  | rFirst {b : Nat} : Move s t p (.rFirst b) (.rState b (binAt s.tbins b).first) s.heap
  | rLinMode {b c : Nat} : ((binAt s.tbins b).writer || (binAt s.tbins b).waiter) = true →
      Move s t p (.rState b (some c)) (.rLin b c) s.heap
  | rTreeMode {b c : Nat} : ((binAt s.tbins b).writer || (binAt s.tbins b).waiter) = false →
      Move s t p (.rState b (some c)) (.rCas b c (binAt s.tbins b).readers) s.heap
  | rLinNext {b c : Nat} {n : NodeS} : s.heap[c]? = some n → n.key ≠ p.key →
      Move s t p (.rLin b c) (.rState b n.next) s.heap
  | rLinHit {b c : Nat} {n : NodeS} : s.heap[c]? = some n → n.key = p.key → p.op ≠ .has →
      Move s t p (.rLin b c) (.rVal c) s.heap
  | rCasFail {b c r : Nat} : Move s t p (.rCas b c r) (.rState b (some c)) s.heap
  | rTree {b : Nat} : Move s t p (.rTree b) (.rRelease b (treeFind s b p.key)) s.heap
  | lFirst {b : Nat} : Move s t p (.lFirst b) (.lNode (binAt s.tbins b).first) s.heap
  | lNext {c : Nat} {n : NodeS} : s.heap[c]? = some n → n.key ≠ p.key →
      Move s t p (.lNode (some c)) (.lNode n.next) s.heap
  | lHit {c : Nat} {n : NodeS} : s.heap[c]? = some n → n.key = p.key → p.op ≠ .has →
      Move s t p (.lNode (some c)) (.rVal c) s.heap
  | wCellCas : s.cell = .empty → isInsert p.op = true → Move s t p .wCell .wCas s.heap
  | wCellList {h : Nat} : s.cell = .list h → Move s t p .wCell (.wLock h) s.heap
  | wCellTree {b : Nat} : s.cell = .tree b → Move s t p .wCell (.tMutex b) s.heap
  | wCasFail : (s.cell ≠ .empty ∨ isInsert p.op = false) → Move s t p .wCas .wCell s.heap
  | wLock {h : Nat} {n : NodeS} : s.heap[h]? = some n → n.lock = none →
      Move s t p (.wLock h) (.wCheck h) (lockSet s.heap h (some t))
  | wCheckOk {h : Nat} : s.cell = .list h → Move s t p (.wCheck h) (.wFind h none (some h)) s.heap
  | wCheckFail {h : Nat} : s.cell ≠ .list h → Move s t p (.wCheck h) (.wUnlock h .none true) s.heap
  | wFindEnd {h : Nat} {pred : Option Nat} :
      Move s t p (.wFind h pred none) (.wStore h pred none none) s.heap
  | wFindHit {h : Nat} {pred : Option Nat} {c : Nat} {n : NodeS} : s.heap[c]? = some n → n.key = p.key →
      Move s t p (.wFind h pred (some c)) (.wStore h pred (some c) n.next) s.heap
  | wFindNext {h : Nat} {pred : Option Nat} {c : Nat} {n : NodeS} : s.heap[c]? = some n → n.key ≠ p.key →
      Move s t p (.wFind h pred (some c)) (.wFind h (some c) n.next) s.heap
  | wUnlockRetry {h : Nat} {res : KRes} :
      Move s t p (.wUnlock h res true) .wCell (lockSet s.heap h none)
  | tCheckOk {b : Nat} : s.cell = .tree b → Move s t p (.tCheck b) (.tFind b) s.heap
  | tCheckFail {b : Nat} : s.cell ≠ .tree b → Move s t p (.tCheck b) (.tUnlockM b .none true) s.heap
  | findVal {b i : Nat} {v : Nat × Nat} {res : KRes} : treeFind s b p.key = some i →
      specStep (some (nodeAt s.heap i).val) p.op = (some v, res) →
      Move s t p (.tFind b) (.tVal b i v res) s.heap
  | findInsert {b : Nat} : treeFind s b p.key = none → isInsert p.op = true →
      Move s t p (.tFind b) (.lrTry b .insert .none) s.heap
  | findRemove {b i : Nat} {res : KRes} : treeFind s b p.key = some i →
      specStep (some (nodeAt s.heap i).val) p.op = (none, res) →
      Move s t p (.tFind b) (.lrTry b (.remove i) res) s.heap
  | findDone {b : Nat} {res : KRes} : specStep (absTree s b p.key) p.op = (absTree s b p.key, res) →
      Move s t p (.tFind b) (.tUnlockM b res false) s.heap
  | lrTryFail {b : Nat} {k : After} {res : KRes} :
      Move s t p (.lrTry b k res) (.lrLoop b k res) s.heap

/-- transitions of a thread with a call in flight that change the synchronisation words of one
`TreeBin` and do not complete the call: `BMove s t p pc pc' tbins'` -/
inductive BMove (s : State) (t : Nat) (p : Pending) : Pc → Pc → List TBin → Prop
  | rCasOk {b c r : Nat} : (binAt s.tbins b).writer = false → (binAt s.tbins b).waiter = false →
      (binAt s.tbins b).readers = r →
      BMove s t p (.rCas b c r) (.rTree b) (s.tbins.modify b (fun x => { x with readers := x.readers + 1 }))
  | rRelVal {b i : Nat} : p.op ≠ .has →
      BMove s t p (.rRelease b (some i)) (.rVal i) (s.tbins.modify b (fun x => { x with readers := x.readers - 1 }))
  | tMutex {b : Nat} : (binAt s.tbins b).mutex = none →
      BMove s t p (.tMutex b) (.tCheck b) (s.tbins.modify b (fun x => { x with mutex := some t }))
  | lrTryOk {b : Nat} {k : After} {res : KRes} : (binAt s.tbins b).writer = false →
      (binAt s.tbins b).waiter = false → (binAt s.tbins b).readers = 0 →
      BMove s t p (.lrTry b k res) (afterLock b k res) (s.tbins.modify b (fun x => { x with writer := true }))
  | lrLoopOk {b : Nat} {k : After} {res : KRes} : (binAt s.tbins b).writer = false →
      (binAt s.tbins b).readers = 0 →
      BMove s t p (.lrLoop b k res) (afterLock b k res) (s.tbins.modify b (fun x => { x with writer := true, waiter := false }))
  | lrLoopWait {b : Nat} {k : After} {res : KRes} : (binAt s.tbins b).waiter = false →
      BMove s t p (.lrLoop b k res) (.lrLoop b k res) (s.tbins.modify b (fun x => { x with waiter := true }))
  | unlockRoot {b : Nat} {res : KRes} :
      BMove s t p (.tUnlockRoot b res) (.tUnlockM b res false) (s.tbins.modify b (fun x => { x with writer := false, waiter := false }))
  | tUnlockMRetry {b : Nat} {res : KRes} :
      BMove s t p (.tUnlockM b res true) .wCell (s.tbins.modify b (fun x => { x with mutex := none }))

/-- calls that complete without a store: `Fin s p pc res heap'` -/
inductive Fin (s : State) (p : Pending) : Pc → KRes → List NodeS → Prop
  | rCellEmpty {lo : Bool} : s.cell = .empty → Fin s p (.rCell lo) (absentRes p.op) s.heap
  | rNodeMiss : Fin s p (.rNode none) (absentRes p.op) s.heap
  | rNodeHit {c : Nat} {n : NodeS} : s.heap[c]? = some n → n.key = p.key →
      Fin s p (.rNode (some c)) (match p.op with | .has => .bool true | _ => .some n.val.1 n.val.2) s.heap
  | rMiss {b : Nat} : Fin s p (.rState b none) (absentRes p.op) s.heap
  | rLinHas {b c : Nat} {n : NodeS} : s.heap[c]? = some n → n.key = p.key → p.op = .has →
      Fin s p (.rLin b c) (.bool true) s.heap
  | rVal {i : Nat} {n : NodeS} : s.heap[i]? = some n → Fin s p (.rVal i) (.some n.val.1 n.val.2) s.heap
  | lMiss : Fin s p (.lNode none) (absentRes p.op) s.heap
  | lHas {c : Nat} {n : NodeS} : s.heap[c]? = some n → n.key = p.key → p.op = .has →
      Fin s p (.lNode (some c)) (.bool true) s.heap
  | wCellEmpty : s.cell = .empty → isInsert p.op = false → Fin s p .wCell .none s.heap
  | wUnlockFin {h : Nat} {res : KRes} : Fin s p (.wUnlock h res false) res (lockSet s.heap h none)

/-- calls that complete with a change of the synchronisation words of one `TreeBin`:
`BFin s p pc res tbins'` -/
inductive BFin (s : State) (p : Pending) : Pc → KRes → List TBin → Prop
  | rRelNone {b : Nat} : BFin s p (.rRelease b none) (absentRes p.op)
      (s.tbins.modify b (fun x => { x with readers := x.readers - 1 }))
  | rRelHas {b i : Nat} : p.op = .has → BFin s p (.rRelease b (some i)) (.bool true)
      (s.tbins.modify b (fun x => { x with readers := x.readers - 1 }))
  | tUnlockMFin {b : Nat} {res : KRes} : BFin s p (.tUnlockM b res false) res
      (s.tbins.modify b (fun x => { x with mutex := none }))

/-- transitions of the treeify thread other than the copy and the store into the cell:
`KMove s t pc pc' heap'` -/
inductive KMove (s : State) (t : Nat) : Pc → Pc → List NodeS → Prop
  | kCellList {h : Nat} : s.cell = .list h → KMove s t .kCell (.kLock h) s.heap
  | kCellOther : (∀ h, s.cell ≠ .list h) → KMove s t .kCell .idle s.heap
  | kLock {h : Nat} {n : NodeS} : s.heap[h]? = some n → n.lock = none →
      KMove s t (.kLock h) (.kCheck h) (lockSet s.heap h (some t))
  | kCheckOk {h : Nat} : s.cell = .list h → KMove s t (.kCheck h) (.kBuild h) s.heap
  | kCheckFail {h : Nat} : s.cell ≠ .list h → KMove s t (.kCheck h) (.kUnlock h) s.heap
  | kUnlock {h : Nat} : KMove s t (.kUnlock h) .idle (lockSet s.heap h none)

/-- the state after the copy made by `kBuild` -/
def buildOf (s : State) (h : Nat) : State :=
  { s with
    heap := (copyChain s.heap (chainFrom s.heap s.heap.length (some h))
      (fun src nx => ⟨src.key, src.val, nx, none, true, some s.tbins.length⟩)).1,
    tbins := s.tbins ++ [{ first := (copyChain s.heap (chainFrom s.heap s.heap.length (some h))
      (fun src nx => ⟨src.key, src.val, nx, none, true, some s.tbins.length⟩)).2 }] }

/-- the state after the copy and store of `tUntreeify` -/
def untreeifyOf (s : State) (b : Nat) : State :=
  { s with
    heap := (copyChain s.heap (chainOfBin s b) (fun src nx => ⟨src.key, src.val, nx, none, false, none⟩)).1,
    cell := match (copyChain s.heap (chainOfBin s b) (fun src nx => ⟨src.key, src.val, nx, none, false, none⟩)).2 with
      | some h => .list h
      | none => .empty }

inductive StepK (s : State) (t : Nat) (l : Local) : State → Prop
  | idle : l.pc = .idle → StepK s t l (setT (tick s) t l)
  | maint : l.pc = .idle → StepK s t l (setT (tick s) t { l with pc := .kCell })
  | invoke (k : Nat) (op : KOp) (lo : Bool) : l.pc = .idle →
      StepK s t l (setT (tick s) t
        { pc := if isReader op then .rCell lo else .wCell, call := some ⟨k, op, s.now + 1⟩ })
  | move (p : Pending) (pc' : Pc) (hp : List NodeS) : l.call = some p →
      Move s t p l.pc pc' hp → StepK s t l (setT (qst s hp s.tbins) t { l with pc := pc' })
  | bmove (p : Pending) (pc' : Pc) (tb : List TBin) : l.call = some p →
      BMove s t p l.pc pc' tb → StepK s t l (setT (qst s s.heap tb) t { l with pc := pc' })
  | kmove (pc' : Pc) (hp : List NodeS) : l.call = none →
      KMove s t l.pc pc' hp → StepK s t l (setT (qst s hp s.tbins) t { l with pc := pc' })
  | fin (p : Pending) (res : KRes) (hp : List NodeS) : l.call = some p →
      Fin s p l.pc res hp → StepK s t l (finish (qst s hp s.tbins) t p res)
  | bfin (p : Pending) (res : KRes) (tb : List TBin) : l.call = some p →
      BFin s p l.pc res tb → StepK s t l (finish (qst s s.heap tb) t p res)
  | cas (p : Pending) (v vi : Nat) : l.call = some p → l.pc = .wCas → s.cell = .empty →
      (p.op = .ins v vi ∨ p.op = .tryIns v vi) →
      StepK s t l (finish { heap := s.heap ++ [⟨p.key, (v, vi), none, none, false, none⟩], tbins := s.tbins,
                            cell := .list s.heap.length, threads := s.threads, hist := s.hist,
                            now := s.now + 1 } t p .none)
  | store (p : Pending) (h : Nat) (pred hit hnext : Option Nat) : l.call = some p →
      l.pc = .wStore h pred hit hnext →
      StepK s t l (setT (storeAt (tick s) p pred hit hnext).1 t
        { l with pc := .wUnlock h (storeAt (tick s) p pred hit hnext).2 false })
  | tval (p : Pending) (b i : Nat) (v : Nat × Nat) (res : KRes) : l.call = some p → l.pc = .tVal b i v res →
      StepK s t l (setT (setNode (tick s) i (fun n => { n with val := v })) t { l with pc := .tUnlockM b res false })
  | prepend (p : Pending) (b v vi : Nat) : l.call = some p → l.pc = .tPrependLocked b →
      (p.op = .ins v vi ∨ p.op = .tryIns v vi) →
      StepK s t l (setT
        (setBin { heap := s.heap ++ [⟨p.key, (v, vi), (binAt s.tbins b).first, none, false, some b⟩],
                  tbins := s.tbins, cell := s.cell, threads := s.threads, hist := s.hist, now := s.now + 1 }
          b (fun y => { y with first := some s.heap.length })) t
        { l with pc := .tTreeLinkLocked b s.heap.length })
  | treeLink (p : Pending) (b x : Nat) : l.call = some p → l.pc = .tTreeLinkLocked b x →
      StepK s t l (setT (setNode (tick s) x (fun n => { n with inTree := true })) t
        { l with pc := .tUnlockRoot b .none })
  | unlink (p : Pending) (b i : Nat) (res : KRes) (small : Bool) : l.call = some p →
      l.pc = .tUnlinkLocked b i res →
      StepK s t l (setT (unlinkOf (tick s) b i) t
        { l with pc := if small then .tUntreeify b res else .tRestructure b i res })
  | untree (p : Pending) (b i : Nat) (res : KRes) : l.call = some p → l.pc = .tRestructure b i res →
      StepK s t l (setT (setNode (tick s) i (fun n => { n with inTree := false })) t
        { l with pc := .tUnlockRoot b res })
  | untreeify (p : Pending) (b : Nat) (res : KRes) : l.call = some p → l.pc = .tUntreeify b res →
      StepK s t l (setT (untreeifyOf (tick s) b) t { l with pc := .tUnlockM b res false })
  | kbuild (h : Nat) : l.call = none → l.pc = .kBuild h →
      StepK s t l (setT (buildOf (tick s) h) t { l with pc := .kStore h s.tbins.length })
  | kstore (h b : Nat) : l.call = none → l.pc = .kStore h b →
      StepK s t l { (setT (tick s) t { l with pc := .kUnlock h }) with cell := .tree b }

theorem setT_self {s : State} {t : Nat} {l : Local} (hl : s.threads[t]? = some l) : setT s t l = s := by
  unfold setT
  obtain ⟨ht, rfl⟩ := List.getElem?_eq_some_iff.1 hl
  rw [List.set_getElem_self]

theorem isInsert_iff {op : KOp} : isInsert op = true ↔ ∃ v vi, op = .ins v vi ∨ op = .tryIns v vi := by
  cases op <;> simp [isInsert]

theorem step_stepK {s s' : State} {t : Nat} {l : Local} {inv : Option (Nat × KOp)} {lo mt sm : Bool}
    (hl : s.threads[t]? = some l) (hs : step s t inv lo mt sm = some s') : StepK s t l s' := by
  obtain ⟨heap, tbins, cell, threads, hist, now⟩ := s
  unfold step stepG at hs
  simp only at hl
  simp only [hl] at hs
  obtain ⟨pc, call⟩ := l
  cases pc with
  | idle =>
    simp only at hs
    cases mt with
    | true =>
      simp only [if_true, Option.some.injEq] at hs
      subst hs
      exact .maint rfl
    | false =>
      simp only [Bool.false_eq_true, if_false] at hs
      cases inv with
      | none =>
        simp only [Option.some.injEq] at hs
        subst hs
        have : tick ⟨heap, tbins, cell, threads, hist, now⟩ =
            setT (tick ⟨heap, tbins, cell, threads, hist, now⟩) t ⟨.idle, call⟩ :=
          (setT_self (s := tick ⟨heap, tbins, cell, threads, hist, now⟩) hl).symm
        show StepK _ t _ (tick ⟨heap, tbins, cell, threads, hist, now⟩)
        rw [this]
        exact .idle rfl
      | some ko =>
        obtain ⟨k, op⟩ := ko
        simp only [Option.some.injEq] at hs
        subst hs
        exact .invoke k op lo rfl
  | rCell lo' =>
    cases call with
    | none => simp at hs
    | some p =>
      simp only at hs
      cases cell with
      | empty =>
        simp only [Option.some.injEq] at hs
        subst hs
        exact StepK.fin p _ _ rfl (by exact .rCellEmpty rfl)
      | list h =>
        simp only [Option.some.injEq] at hs
        subst hs
        exact StepK.move p _ _ rfl (by exact .rCellList rfl)
      | tree b =>
        simp only [Option.some.injEq] at hs
        subst hs
        exact StepK.move p _ _ rfl (by exact .rCellTree rfl)
  | rNode cur =>
    cases call with
    | none => simp at hs
    | some p =>
      cases cur with
      | none =>
        simp only [Option.some.injEq] at hs
        subst hs
        exact StepK.fin p _ _ rfl (by exact .rNodeMiss)
      | some c =>
        simp only at hs
        cases hn : heap[c]? with
        | none => rw [hn] at hs; simp at hs
        | some n =>
          rw [hn] at hs
          simp only at hs
          by_cases hk : n.key = p.key
          · rw [if_pos (by simpa using hk)] at hs
            simp only [Option.some.injEq] at hs
            subst hs
            exact StepK.fin p _ _ rfl (by exact .rNodeHit hn hk)
          · rw [if_neg (by simpa using hk)] at hs
            simp only [Option.some.injEq] at hs
            subst hs
            exact StepK.move p _ _ rfl (by exact .rNodeNext hn hk)
  | rFirst b =>
    cases call with
    | none => simp at hs
    | some p =>
      simp only [Option.some.injEq] at hs
      subst hs
      exact StepK.move p _ _ rfl (by exact .rFirst)
  | rState b cur =>
    cases call with
    | none => simp at hs
    | some p =>
      cases cur with
      | none =>
        simp only [Option.some.injEq] at hs
        subst hs
        exact StepK.fin p _ _ rfl (by exact .rMiss)
      | some c =>
        simp only at hs
        by_cases hb : ((tbins.getD b dfltB).writer || (tbins.getD b dfltB).waiter) = true
        · rw [if_pos hb] at hs
          simp only [Option.some.injEq] at hs
          subst hs
          exact StepK.move p _ _ rfl (by exact .rLinMode hb)
        · rw [if_neg hb] at hs
          simp only [Option.some.injEq] at hs
          subst hs
          exact StepK.move p _ _ rfl (by exact .rTreeMode (Bool.eq_false_iff.2 hb))
  | rLin b c =>
    cases call with
    | none => simp at hs
    | some p =>
      simp only at hs
      cases hn : heap[c]? with
      | none => rw [hn] at hs; simp at hs
      | some n =>
        rw [hn] at hs
        simp only at hs
        by_cases hk : n.key = p.key
        · rw [if_pos (by simpa using hk)] at hs
          by_cases hop : p.op = .has
          · rw [hop] at hs
            simp only [Option.some.injEq] at hs
            subst hs
            exact StepK.fin p _ _ rfl (by exact .rLinHas hn hk hop)
          · have : some s' = some (setT (qst ⟨heap, tbins, cell, threads, hist, now⟩ heap tbins) t
                { pc := .rVal c, call := some p }) := by
              rw [← hs]
              cases hop' : p.op <;> first | rfl | exact absurd hop' hop
            cases this
            exact StepK.move p _ _ rfl (by exact .rLinHit hn hk hop)
        · rw [if_neg (by simpa using hk)] at hs
          simp only [Option.some.injEq] at hs
          subst hs
          exact StepK.move p _ _ rfl (by exact .rLinNext hn hk)
  | rCas b c r =>
    cases call with
    | none => simp at hs
    | some p =>
      simp only at hs
      by_cases hb : (!(tbins.getD b dfltB).writer && !(tbins.getD b dfltB).waiter &&
          (tbins.getD b dfltB).readers == r) = true
      · rw [if_pos hb] at hs
        simp only [Option.some.injEq] at hs
        subst hs
        simp only [Bool.and_eq_true, Bool.not_eq_eq_eq_not, Bool.not_true, beq_iff_eq] at hb
        exact StepK.bmove p _ _ rfl (by exact .rCasOk hb.1.1 hb.1.2 hb.2)
      · rw [if_neg hb] at hs
        simp only [Option.some.injEq] at hs
        subst hs
        exact StepK.move p _ _ rfl (by exact .rCasFail)
  | rTree b =>
    cases call with
    | none => simp at hs
    | some p =>
      simp only [Option.some.injEq] at hs
      subst hs
      exact StepK.move p _ _ rfl (by exact .rTree)
  | rRelease b hit =>
    cases call with
    | none => simp at hs
    | some p =>
      simp only at hs
      cases hit with
      | none =>
        have : some s' = some (finish (qst ⟨heap, tbins, cell, threads, hist, now⟩ heap
            (tbins.modify b (fun x => { x with readers := x.readers - 1 }))) t p (absentRes p.op)) := by
          rw [← hs]
          cases p.op <;> rfl
        cases this
        exact StepK.bfin p _ _ rfl (by exact .rRelNone)
      | some i =>
        by_cases hop : p.op = .has
        · rw [hop] at hs
          simp only [Option.some.injEq] at hs
          subst hs
          exact StepK.bfin p _ _ rfl (by exact .rRelHas hop)
        · have : some s' = some (setT (qst ⟨heap, tbins, cell, threads, hist, now⟩ heap
              (tbins.modify b (fun x => { x with readers := x.readers - 1 }))) t
              { pc := .rVal i, call := some p }) := by
            rw [← hs]
            cases hop' : p.op <;> first | rfl | exact absurd hop' hop
          cases this
          exact StepK.bmove p _ _ rfl (by exact .rRelVal hop)
  | rVal i =>
    cases call with
    | none => simp at hs
    | some p =>
      simp only at hs
      cases hn : heap[i]? with
      | none => rw [hn] at hs; simp at hs
      | some n =>
        rw [hn] at hs
        simp only [Option.some.injEq] at hs
        subst hs
        exact StepK.fin p _ _ rfl (by exact .rVal hn)
  | lFirst b =>
    cases call with
    | none => simp at hs
    | some p =>
      simp only [Option.some.injEq] at hs
      subst hs
      exact StepK.move p _ _ rfl (by exact .lFirst)
  | lNode cur =>
    cases call with
    | none => simp at hs
    | some p =>
      cases cur with
      | none =>
        simp only [Option.some.injEq] at hs
        subst hs
        exact StepK.fin p _ _ rfl (by exact .lMiss)
      | some c =>
        simp only at hs
        cases hn : heap[c]? with
        | none => rw [hn] at hs; simp at hs
        | some n =>
          rw [hn] at hs
          simp only at hs
          by_cases hk : n.key = p.key
          · rw [if_pos (by simpa using hk)] at hs
            by_cases hop : p.op = .has
            · rw [hop] at hs
              simp only [Option.some.injEq] at hs
              subst hs
              exact StepK.fin p _ _ rfl (by exact .lHas hn hk hop)
            · have : some s' = some (setT (qst ⟨heap, tbins, cell, threads, hist, now⟩ heap tbins) t
                  { pc := .rVal c, call := some p }) := by
                rw [← hs]
                cases hop' : p.op <;> first | rfl | exact absurd hop' hop
              cases this
              exact StepK.move p _ _ rfl (by exact .lHit hn hk hop)
          · rw [if_neg (by simpa using hk)] at hs
            simp only [Option.some.injEq] at hs
            subst hs
            exact StepK.move p _ _ rfl (by exact .lNext hn hk)
  | wCell =>
    cases call with
    | none => simp at hs
    | some p =>
      simp only at hs
      cases cell with
      | empty =>
        simp only at hs
        cases hop : p.op <;> rw [hop] at hs <;> simp only [Option.some.injEq] at hs <;> subst hs <;>
          first
          | exact StepK.move p _ _ rfl (by exact .wCellCas rfl (by rw [hop]; rfl))
          | exact StepK.fin p _ _ rfl (by exact .wCellEmpty rfl (by rw [hop]; rfl))
      | list h =>
        simp only [Option.some.injEq] at hs
        subst hs
        exact StepK.move p _ _ rfl (by exact .wCellList rfl)
      | tree b =>
        simp only [Option.some.injEq] at hs
        subst hs
        exact StepK.move p _ _ rfl (by exact .wCellTree rfl)
  | wCas =>
    cases call with
    | none => simp at hs
    | some p =>
      simp only at hs
      cases cell with
      | empty =>
        cases hop : p.op with
        | ins v vi =>
          rw [hop] at hs
          simp only [Option.some.injEq] at hs
          subst hs
          exact .cas p v vi rfl rfl rfl (Or.inl hop)
        | tryIns v vi =>
          rw [hop] at hs
          simp only [Option.some.injEq] at hs
          subst hs
          exact .cas p v vi rfl rfl rfl (Or.inr hop)
        | get | has | rm | cipInc _ | cipRm =>
          rw [hop] at hs
          simp only [Option.some.injEq] at hs
          subst hs
          exact StepK.move p _ _ rfl (by exact .wCasFail (Or.inr (by rw [hop]; rfl)))
      | list h =>
        cases hop : p.op <;> rw [hop] at hs <;> simp only [Option.some.injEq] at hs <;> subst hs <;>
          exact StepK.move p _ _ rfl (by exact .wCasFail (Or.inl (by simp)))
      | tree b =>
        cases hop : p.op <;> rw [hop] at hs <;> simp only [Option.some.injEq] at hs <;> subst hs <;>
          exact StepK.move p _ _ rfl (by exact .wCasFail (Or.inl (by simp)))
  | wLock h =>
    cases call with
    | none => simp at hs
    | some p =>
      simp only at hs
      cases hn : heap[h]? with
      | none => rw [hn] at hs; simp at hs
      | some n =>
        rw [hn] at hs
        simp only at hs
        cases hlk : n.lock with
        | some x => rw [hlk] at hs; simp at hs
        | none =>
          rw [hlk] at hs
          simp only [Option.isSome_none, Bool.false_eq_true, if_false, Option.some.injEq] at hs
          subst hs
          exact StepK.move p _ _ rfl (by exact .wLock hn hlk)
  | wCheck h =>
    cases call with
    | none => simp at hs
    | some p =>
      simp only [Bool.not_true, Bool.false_or, beq_iff_eq] at hs
      by_cases hc : cell = .list h
      · rw [if_pos hc] at hs
        simp only [Option.some.injEq] at hs
        subst hs
        exact StepK.move p _ _ rfl (by exact .wCheckOk hc)
      · rw [if_neg hc] at hs
        simp only [Option.some.injEq] at hs
        subst hs
        exact StepK.move p _ _ rfl (by exact .wCheckFail hc)
  | wFind h pred cur =>
    cases call with
    | none => simp at hs
    | some p =>
      cases cur with
      | none =>
        simp only [Option.some.injEq] at hs
        subst hs
        exact StepK.move p _ _ rfl (by exact .wFindEnd)
      | some c =>
        simp only at hs
        cases hn : heap[c]? with
        | none => rw [hn] at hs; simp at hs
        | some n =>
          rw [hn] at hs
          simp only at hs
          by_cases hk : n.key = p.key
          · rw [if_pos (by simpa using hk)] at hs
            simp only [Option.some.injEq] at hs
            subst hs
            exact StepK.move p _ _ rfl (by exact .wFindHit hn hk)
          · rw [if_neg (by simpa using hk)] at hs
            simp only [Option.some.injEq] at hs
            subst hs
            exact StepK.move p _ _ rfl (by exact .wFindNext hn hk)
  | wStore h pred hit hnext =>
    cases call with
    | none => simp at hs
    | some p =>
      simp only [Option.some.injEq] at hs
      subst hs
      exact .store p h pred hit hnext rfl rfl
  | wUnlock h res retry =>
    cases call with
    | none => simp at hs
    | some p =>
      cases retry with
      | true =>
        simp only [if_true, Option.some.injEq] at hs
        subst hs
        exact StepK.move p _ _ rfl (by exact .wUnlockRetry)
      | false =>
        simp only [Bool.false_eq_true, if_false, Option.some.injEq] at hs
        subst hs
        exact StepK.fin p _ _ rfl (by exact .wUnlockFin)
  | tMutex b =>
    cases call with
    | none => simp at hs
    | some p =>
      simp only at hs
      cases hm : (tbins.getD b dfltB).mutex with
      | some x => rw [hm] at hs; simp at hs
      | none =>
        rw [hm] at hs
        simp only [Option.isSome_none, Bool.false_eq_true, if_false, Option.some.injEq] at hs
        subst hs
        exact StepK.bmove p _ _ rfl (by exact .tMutex hm)
  | tCheck b =>
    cases call with
    | none => simp at hs
    | some p =>
      simp only [Bool.not_true, Bool.false_or, beq_iff_eq] at hs
      by_cases hc : cell = .tree b
      · rw [if_pos hc] at hs
        simp only [Option.some.injEq] at hs
        subst hs
        exact StepK.move p _ _ rfl (by exact .tCheckOk hc)
      · rw [if_neg hc] at hs
        simp only [Option.some.injEq] at hs
        subst hs
        exact StepK.move p _ _ rfl (by exact .tCheckFail hc)
  | tFind b =>
    cases call with
    | none => simp at hs
    | some p =>
      simp only at hs
      have htf : treeFind { heap := heap, tbins := tbins, cell := cell, threads := threads, hist := hist, now := now + 1 } b p.key =
          treeFind ⟨heap, tbins, cell, threads, hist, now⟩ b p.key := rfl
      rw [htf] at hs
      generalize hS : (⟨heap, tbins, cell, threads, hist, now⟩ : State) = S at hs htf ⊢
      have hheap : S.heap = heap := by rw [← hS]
      have habs : ∀ i, treeFind S b p.key = some i → absTree S b p.key = some (nodeAt S.heap i).val := by
        intro i h; unfold absTree; rw [h]
      have habsN : treeFind S b p.key = none → absTree S b p.key = none := by
        intro h; unfold absTree; rw [h]
      cases hop : p.op with
      | get => rw [hop] at hs; cases hs
      | has => rw [hop] at hs; cases hs
      | ins v vi =>
        rw [hop] at hs
        cases hf : treeFind S b p.key with
        | some i =>
          rw [hf] at hs
          simp only [Option.some.injEq] at hs
          subst hs hS
          exact StepK.move p _ _ rfl (by exact .findVal hf (by rw [hop]; rfl))
        | none =>
          rw [hf] at hs
          simp only [Option.some.injEq] at hs
          subst hs hS
          exact StepK.move p _ _ rfl (by exact .findInsert hf (by rw [hop]; rfl))
      | tryIns v vi =>
        rw [hop] at hs
        cases hf : treeFind S b p.key with
        | some i =>
          rw [hf] at hs
          simp only [Option.some.injEq] at hs
          subst hs hS
          refine StepK.move p _ _ rfl (by
            refine .findDone ?_
            rw [habs i hf, hop]
            have : ∀ x : Nat × Nat, specStep (some x) (.tryIns v vi) = (some x, .exists_ x.1 x.2) :=
              fun ⟨_, _⟩ => rfl
            exact this _)
        | none =>
          rw [hf] at hs
          simp only [Option.some.injEq] at hs
          subst hs hS
          exact StepK.move p _ _ rfl (by exact .findInsert hf (by rw [hop]; rfl))
      | rm =>
        rw [hop] at hs
        cases hf : treeFind S b p.key with
        | some i =>
          rw [hf] at hs
          simp only [Option.some.injEq] at hs
          subst hs hS
          exact StepK.move p _ _ rfl (by exact .findRemove hf (by rw [hop]; rfl))
        | none =>
          rw [hf] at hs
          simp only [Option.some.injEq] at hs
          subst hs hS
          exact StepK.move p _ _ rfl (by exact .findDone (by rw [habsN hf, hop]; rfl))
      | cipInc nvi =>
        rw [hop] at hs
        cases hf : treeFind S b p.key with
        | some i =>
          rw [hf] at hs
          simp only [Option.some.injEq] at hs
          subst hs hS
          refine StepK.move p _ _ rfl (by
            refine .findVal hf ?_
            rw [hop]
            have : ∀ x : Nat × Nat, specStep (some x) (.cipInc nvi) =
                (some (x.1 + 1, nvi), .some (x.1 + 1) nvi) := fun ⟨_, _⟩ => rfl
            exact this _)
        | none =>
          rw [hf] at hs
          simp only [Option.some.injEq] at hs
          subst hs hS
          exact StepK.move p _ _ rfl (by exact .findDone (by rw [habsN hf, hop]; rfl))
      | cipRm =>
        rw [hop] at hs
        cases hf : treeFind S b p.key with
        | some i =>
          rw [hf] at hs
          simp only [Option.some.injEq] at hs
          subst hs hS
          exact StepK.move p _ _ rfl (by exact .findRemove hf (by rw [hop]; rfl))
        | none =>
          rw [hf] at hs
          simp only [Option.some.injEq] at hs
          subst hs hS
          exact StepK.move p _ _ rfl (by exact .findDone (by rw [habsN hf, hop]; rfl))
  | tVal b i v res =>
    cases call with
    | none => simp at hs
    | some p =>
      simp only [Option.some.injEq] at hs
      subst hs
      exact .tval p b i v res rfl rfl
  | lrTry b k res =>
    cases call with
    | none => simp at hs
    | some p =>
      simp only at hs
      by_cases hb : (!(tbins.getD b dfltB).writer && !(tbins.getD b dfltB).waiter &&
          (tbins.getD b dfltB).readers == 0) = true
      · rw [if_pos hb] at hs
        simp only [Option.some.injEq] at hs
        subst hs
        simp only [Bool.and_eq_true, Bool.not_eq_eq_eq_not, Bool.not_true, beq_iff_eq] at hb
        exact StepK.bmove p _ _ rfl (by exact .lrTryOk hb.1.1 hb.1.2 hb.2)
      · rw [if_neg hb] at hs
        simp only [Option.some.injEq] at hs
        subst hs
        exact StepK.move p _ _ rfl (by exact .lrTryFail)
  | lrLoop b k res =>
    cases call with
    | none => simp at hs
    | some p =>
      simp only at hs
      by_cases hb : (!(tbins.getD b dfltB).writer && (tbins.getD b dfltB).readers == 0) = true
      · rw [if_pos hb] at hs
        simp only [Option.some.injEq] at hs
        subst hs
        simp only [Bool.and_eq_true, Bool.not_eq_eq_eq_not, Bool.not_true, beq_iff_eq] at hb
        exact StepK.bmove p _ _ rfl (by exact .lrLoopOk hb.1 hb.2)
      · rw [if_neg hb] at hs
        cases hw : (tbins.getD b dfltB).waiter with
        | true => rw [hw] at hs; simp at hs
        | false =>
          rw [hw] at hs
          simp only [Bool.not_false, if_true, Option.some.injEq] at hs
          subst hs
          exact StepK.bmove p _ _ rfl (by exact .lrLoopWait hw)
  | tPrependLocked b =>
    cases call with
    | none => simp at hs
    | some p =>
      simp only at hs
      split at hs
      · rename_i v vi hop
        simp only [Option.some.injEq] at hs; subst hs
        exact .prepend p b v vi rfl rfl (Or.inl hop)
      · rename_i v vi hop
        simp only [Option.some.injEq] at hs; subst hs
        exact .prepend p b v vi rfl rfl (Or.inr hop)
      · cases hs
  | tTreeLinkLocked b x =>
    cases call with
    | none => simp at hs
    | some p =>
      simp only [Option.some.injEq] at hs
      subst hs
      exact .treeLink p b x rfl rfl
  | tUnlinkLocked b i res =>
    cases call with
    | none => simp at hs
    | some p =>
      simp only [Option.some.injEq] at hs
      subst hs
      exact .unlink p b i res sm rfl rfl
  | tRestructure b i res =>
    cases call with
    | none => simp at hs
    | some p =>
      simp only [Option.some.injEq] at hs
      subst hs
      exact .untree p b i res rfl rfl
  | tUnlockRoot b res =>
    cases call with
    | none => simp at hs
    | some p =>
      simp only [Option.some.injEq] at hs
      subst hs
      exact StepK.bmove p _ _ rfl (by exact .unlockRoot)
  | tUntreeify b res =>
    cases call with
    | none => simp at hs
    | some p =>
      simp only [Option.some.injEq] at hs
      subst hs
      exact .untreeify p b res rfl rfl
  | tUnlockM b res retry =>
    cases call with
    | none => simp at hs
    | some p =>
      cases retry with
      | true =>
        simp only [if_true, Option.some.injEq] at hs
        subst hs
        exact StepK.bmove p _ _ rfl (by exact .tUnlockMRetry)
      | false =>
        simp only [Bool.false_eq_true, if_false, Option.some.injEq] at hs
        subst hs
        exact StepK.bfin p _ _ rfl (by exact .tUnlockMFin)
  | kCell =>
    cases call with
    | some p => simp at hs
    | none =>
      simp only at hs
      cases cell with
      | list h =>
        simp only [Option.some.injEq] at hs
        subst hs
        exact StepK.kmove _ _ rfl (by exact .kCellList rfl)
      | empty =>
        simp only [Option.some.injEq] at hs
        subst hs
        exact StepK.kmove _ _ rfl (by exact .kCellOther (by intro h; simp))
      | tree b =>
        simp only [Option.some.injEq] at hs
        subst hs
        exact StepK.kmove _ _ rfl (by exact .kCellOther (by intro h; simp))
  | kLock h =>
    cases call with
    | some p => simp at hs
    | none =>
      simp only at hs
      cases hn : heap[h]? with
      | none => rw [hn] at hs; simp at hs
      | some n =>
        rw [hn] at hs
        simp only at hs
        cases hlk : n.lock with
        | some x => rw [hlk] at hs; simp at hs
        | none =>
          rw [hlk] at hs
          simp only [Option.isSome_none, Bool.false_eq_true, if_false, Option.some.injEq] at hs
          subst hs
          exact StepK.kmove _ _ rfl (by exact .kLock hn hlk)
  | kCheck h =>
    cases call with
    | some p => simp at hs
    | none =>
      simp only [Bool.not_true, Bool.false_or, beq_iff_eq] at hs
      by_cases hc : cell = .list h
      · rw [if_pos hc] at hs
        simp only [Option.some.injEq] at hs
        subst hs
        exact StepK.kmove _ _ rfl (by exact .kCheckOk hc)
      · rw [if_neg hc] at hs
        simp only [Option.some.injEq] at hs
        subst hs
        exact StepK.kmove _ _ rfl (by exact .kCheckFail hc)
  | kBuild h =>
    cases call with
    | some p => simp at hs
    | none =>
      simp only [Option.some.injEq] at hs
      subst hs
      exact .kbuild h rfl rfl
  | kStore h b =>
    cases call with
    | some p => simp at hs
    | none =>
      simp only [Option.some.injEq] at hs
      subst hs
      exact .kstore h b rfl rfl
  | kUnlock h =>
    cases call with
    | some p => simp at hs
    | none =>
      simp only [Option.some.injEq] at hs
      subst hs
      exact StepK.kmove _ _ rfl (by exact .kUnlock)

end Flurry.Proto.BinK
