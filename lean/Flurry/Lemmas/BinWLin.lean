import Flurry.Lemmas.BinWInv
/-! # Proto/BinW: the ghost invariant of Proto/Bin holds on the projection (C01)

`callsOnExt` for `BinW` (completed calls plus writers that have stored and only have to unlock) and
its agreement with `Bin.callsOnExt` on the projection; `ginv_stepW`: `Bin.GInv` of the projection is
preserved by every `BinW` transition (`Bin.ginv_step` for the simulated transitions, `Bin.ginv_quiet`
for the stutter steps of the walk). -/
namespace Flurry.Proto.BinW
open Flurry.Lin

/-- the call of a writer that has stored and only has to unlock, counted as responding at `now` -/
def extOf (k now t : Nat) (l : Local) : Option Call :=
  match l.pc, l.call with
  | .wUnlock _ res false, some p => if p.key = k then some ⟨t, p.op, res, p.inv, now⟩ else none
  | _, _ => none

def extCalls (s : State) (k : Nat) : History :=
  (List.range s.threads.length).filterMap (fun t => (s.threads[t]?).bind (extOf k s.now t))

/-- the completed calls on key `k`, plus the calls of writers that have already performed their
store and only have to unlock (they are counted as responding "now") -/
def callsOnExt (s : State) (k : Nat) : History := callsOn s k ++ extCalls s k

theorem extOf_proj (k now t : Nat) (l : Local) : Bin.extOf k now t (cL l) = extOf k now t l := by
  obtain ⟨pc, call⟩ := l
  cases call with
  | none =>
    cases pc with
    | wUnlock h res retry => cases retry <;> rfl
    | _ => rfl
  | some p =>
    cases pc with
    | wUnlock h res retry => cases retry <;> rfl
    | _ => rfl

theorem extCalls_proj (s : State) (k : Nat) : Bin.extCalls (proj s) k = extCalls s k := by
  unfold Bin.extCalls extCalls
  simp only [proj_threads, List.length_map, List.getElem?_map, proj_now]
  congr 1
  funext t
  cases s.threads[t]? with
  | none => rfl
  | some l => exact extOf_proj k s.now t l

theorem callsOnExt_proj (s : State) (k : Nat) : Bin.callsOnExt (proj s) k = callsOnExt s k := by
  unfold Bin.callsOnExt callsOnExt
  rw [extCalls_proj, callsOn_proj]

theorem callsOnExt_quiescent {s : State} (hq : quiescent s) (k : Nat) : callsOnExt s k = callsOn s k := by
  rw [← callsOnExt_proj, Bin.callsOnExt_quiescent (quiescent_proj.2 hq), callsOn_proj]

/-- a stutter step preserves the ghost invariant -/
theorem ginv_tick {k : Nat} {B : Bin.State} {A : Nat → KSt} {pt : Nat → Nat} {t h : Nat} {l : Bin.Local}
    (g : Bin.GInv k B A pt) (I : Bin.Inv B) (hl : B.threads[t]? = some l) (hpc : l.pc = .wWrite h) :
    ∃ A' pt', Bin.GInv k (Bin.tick B) A' pt' := by
  have he : ∀ now, Bin.extOf k now t l = none := fun now =>
    Bin.extOf_none_of_pc (by rw [hpc]; intro h res; simp)
  refine ⟨_, _, Bin.ginv_quiet (hnew := []) g I (.of_same rfl rfl) hl (tick_threads hl) rfl rfl (by simp)
    (Bin.absOf_congr rfl rfl k) (he _) (he _) ?_⟩
  intro p cur _ _ hc
  rw [hpc] at hc; cases hc

/-- every transition of `BinW` preserves the ghost invariant of the projection -/
theorem ginv_stepW {k : Nat} {s s' : State} {A : Nat → KSt} {pt : Nat → Nat} {t : Nat} {l : Local}
    (g : Bin.GInv k (proj s) A pt) (W : WInv s) (hl : s.threads[t]? = some l) (hk : StepW s t l s') :
    ∃ A' pt', Bin.GInv k (proj s') A' pt' := by
  have hl' := proj_thread hl
  rcases stepW_proj W hl hk with hK | ⟨hw, he⟩
  · exact Bin.ginv_step g W.inv hl' hK
  · obtain ⟨h, hh⟩ := walkPc_iff.1 hw
    rw [he]
    exact ginv_tick g W.inv hl' hh

end Flurry.Proto.BinW
