import Flurry.Lemmas.BinGProgSoloW
/-! # Proto/BinG, termination: the global measure `gmu`

`gmu s = W s * DA s + PS s` where
* `G s`: the number of threads that may still grow the heap (each call / treeify / transfer allocates
  at most once more: one node, or one copy of a chain that is no longer than the heap);
  `N s = (heap.length + 1) * 4 ^ G s` therefore bounds the heap length of every later state, and never
  increases;
* `DA s = Σ_t daV …`: the number of *disturbing* steps the threads in flight still have ahead of them —
  stores into nodes, cells and the table pointer, allocations, and changes of the read-write lock word
  of a `TreeBin` (`WRITER`, `WAITER`, reader count); a call / treeify / transfer performs a bounded
  number of them (at most 5) and a retry loop (failed re-check, failed reader CAS) contains none;
* `PS s = Σ_t pmV (N s) …`: per thread, a bound on the number of *calm* steps (loads, lock and unlock of
  a node / of a bin mutex, local moves) it takes until its next disturbing step, its return, or its
  being blocked — taking a possibly stale view into account (a pending failed re-check, a pending
  failed CAS); it depends on the shared state only through the `View`: the cells, the `next` pointers
  and the read-write lock words;
* `W s = threads.length * PM (N s) + 1` where `PM` bounds every `pmV`.
A calm step of thread `t` leaves the `View` alone, so it changes only `t`'s own summand of `PS`, which
strictly decreases; a disturbing step may invalidate the view of every other thread (their summands of
`PS` are then only known to be `≤ PM`), but it decreases `DA`, which pays `W > threads.length * PM`. -/
namespace Flurry.Proto.BinG
open Flurry.Lin
open Flurry.Proto.BinK (nodeAt binAt NextOK nodeAt_of_some getElem?_nodeAt)

/-- a quiet step: nothing new is started (an idle thread only ticks) -/
def stepQuiet (s : State) (t : Nat) (lo sm sm2 : Bool) : Option State := step s t none lo none false sm sm2

/-! ## the view of the shared state -/

/-- what the calm-step measure reads of the shared state -/
structure View where
  cell : Tab → Nat → Cell
  c0 : Cell
  next : Nat → Option Nat
  casok : Nat → Nat → Bool
  waiter : Nat → Bool

def viewOf (s : State) : View :=
  { cell := cellOf s, c0 := s.cell0, next := fun i => (nodeAt s.heap i).next, casok := casOk s,
    waiter := fun b => (binAt s.tbins b).waiter }

theorem viewOf_eq {s s' : State} (h0 : s'.cell0 = s.cell0) (h1 : s'.lowCell = s.lowCell)
    (h2 : s'.highCell = s.highCell) (hn : ∀ i, (nodeAt s'.heap i).next = (nodeAt s.heap i).next)
    (hw : ∀ b, (binAt s'.tbins b).writer = (binAt s.tbins b).writer)
    (ha : ∀ b, (binAt s'.tbins b).waiter = (binAt s.tbins b).waiter)
    (hr : ∀ b, (binAt s'.tbins b).readers = (binAt s.tbins b).readers) : viewOf s' = viewOf s := by
  have e1 : cellOf s' = cellOf s := by
    funext tab k; unfold cellOf; rw [h0, h1, h2]
  have e2 : (fun i => (nodeAt s'.heap i).next) = fun i => (nodeAt s.heap i).next := funext hn
  have e3 : casOk s' = casOk s := by
    funext b r; unfold casOk; rw [hw, ha, hr]
  have e4 : (fun b => (binAt s'.tbins b).waiter) = fun b => (binAt s.tbins b).waiter := funext ha
  unfold viewOf
  rw [e1, h0, e2, e3, e4]

/-! ## `rank` relative to a bound `L` of the heap length -/

/-- as `BinK.rank`, with `L` in place of the heap length -/
def rankL (L : Nat) (next : Nat → Option Nat) (i : Nat) : Nat :=
  match next i with
  | some j => if j < i then L + i + 1 else L - i
  | none => L - i

theorem rankL_le (L : Nat) (next : Nat → Option Nat) (i : Nat) : rankL L next i ≤ L + i + 1 := by
  unfold rankL
  split
  · split <;> omega
  · omega

theorem rankL_le_two {L : Nat} (next : Nat → Option Nat) {i : Nat} (h : i < L) : rankL L next i ≤ 2 * L := by
  have := rankL_le L next i
  omega

theorem rankL_mono {L L' : Nat} (h : L ≤ L') (next : Nat → Option Nat) (i : Nat) :
    rankL L next i ≤ rankL L' next i := by
  unfold rankL
  split
  · split <;> omega
  · omega

theorem rankL_lt {heap : List NodeS} (hok : NextOK heap) {L : Nat} (hL : heap.length ≤ L) {i j : Nat} {n : NodeS}
    (hn : heap[i]? = some n) (hj : n.next = some j) :
    rankL L (fun i => (nodeAt heap i).next) j < rankL L (fun i => (nodeAt heap i).next) i := by
  obtain ⟨hjl, hne, hup⟩ := hok i n j hn hj
  have hil : i < heap.length := (List.getElem?_eq_some_iff.1 hn).1
  have hi : rankL L (fun i => (nodeAt heap i).next) i = if j < i then L + i + 1 else L - i := by
    unfold rankL; simp only [nodeAt_of_some hn, hj]
  rw [hi]
  by_cases hji : j < i
  · rw [if_pos hji]
    have := rankL_le L (fun i => (nodeAt heap i).next) j
    omega
  · rw [if_neg hji]
    have hij : i < j := by omega
    have hm := getElem?_nodeAt hjl
    unfold rankL
    cases hnx : (nodeAt heap j).next with
    | none => simp only [hnx]; omega
    | some j' =>
      have := hup hij _ j' hm hnx
      simp only [hnx]
      rw [if_neg (by omega)]
      omega

/-! ## the calm-step measure of one thread -/

/-- an upper bound on the number of calm steps a thread with local state `l` takes in a state with view
`v` (heap no longer than `L`) before its next disturbing step, its return, or its being blocked -/
def pmV (L : Nat) (v : View) (l : Local) : Nat :=
  match l.pc with
  | .idle => 0
  | .rTable _ => 4 * L + 10
  | .rCell _ .old => 4 * L + 9
  | .rCell _ .new => 4 * L + 8
  | .rNode none => 1
  | .rNode (some c) => rankL L v.next c + 2
  | .rFirst _ => 4 * L + 7
  | .rState _ none => 1
  | .rState _ (some c) => 2 * rankL L v.next c + 6
  | .rLin _ c => 2 * rankL L v.next c + 5
  | .rCas b c r => if v.casok b r = true then 4 else 2 * rankL L v.next c + 7
  | .rTree _ => 3
  | .rRelease _ _ => 2
  | .rVal _ => 1
  | .lFirst _ => 2 * L + 3
  | .lNode none => 1
  | .lNode (some c) => rankL L v.next c + 2
  | .wTable => 2 * L + 14
  | .wCell tab => fresh L tab
  | .wCas tab => if v.cell tab (keyOf l) = .empty ∧ insOf l = true then 1 else 1 + fresh L tab
  | .wLock tab h => if v.cell tab (keyOf l) = .list h then 2 * L + 6 else 3 + fresh L tab
  | .wCheck tab h => if v.cell tab (keyOf l) = .list h then 2 * L + 5 else 2 + fresh L tab
  | .wFind _ _ _ none => 3
  | .wFind _ _ _ (some c) => rankL L v.next c + 4
  | .wStore _ _ _ _ _ => 2
  | .wUnlock _ _ _ false => 1
  | .wUnlock tab _ _ true => 1 + fresh L tab
  | .tMutex tab b => if v.cell tab (keyOf l) = .tree b then 10 else 3 + fresh L tab
  | .tCheck tab b => if v.cell tab (keyOf l) = .tree b then 9 else 2 + fresh L tab
  | .tFind _ _ => 8
  | .tVal _ _ _ _ _ => 2
  | .lrTry _ _ _ _ => 7
  | .lrLoop _ _ _ _ => 5
  | .tPrependLocked _ _ => 4
  | .tTreeLinkLocked _ _ _ => 3
  | .tUnlinkLocked _ _ _ _ => 4
  | .tRestructure _ _ _ _ => 3
  | .tUnlockRoot _ _ _ => 2
  | .tUntreeify _ _ _ => 2
  | .tUnlockM _ _ _ false => 1
  | .tUnlockM tab _ _ true => 1 + fresh L tab
  | .kTable _ => 8
  | .kCell .old _ => 7
  | .kCell .new _ => 6
  | .kLock _ _ _ => 5
  | .kCheck _ _ _ => 4
  | .kBuild _ _ _ => 3
  | .kStore _ _ _ _ => 2
  | .kUnlock _ => 1
  | .xCell => 10
  | .xCasMoved => if v.c0 = .empty then 2 else 11
  | .xLock h => if v.c0 = .list h then 8 else 12
  | .xCheck h => if v.c0 = .list h then 7 else 11
  | .xBuild _ => 6
  | .yMutex b => if v.c0 = .tree b then 8 else 12
  | .yCheck b => if v.c0 = .tree b then 7 else 11
  | .yBuild _ => 6
  | .xStoreLow _ _ _ => 5
  | .xStoreHigh _ _ => 4
  | .xStoreMoved _ => 3
  | .xUnlock _ => 2
  | .xCommit => 1

/-- the bound of every `pmV` -/
def PM (L : Nat) : Nat := 4 * L + 20

theorem fresh_mono {L L' : Nat} (h : L ≤ L') (tab : Tab) : fresh L tab ≤ fresh L' tab := by
  cases tab <;> simp only [fresh] <;> omega

theorem pmV_mono {L L' : Nat} (h : L ≤ L') (v : View) (l : Local) : pmV L v l ≤ pmV L' v l := by
  obtain ⟨pc, call⟩ := l
  cases pc with
  | rCell lo tab => cases tab <;> simp only [pmV] <;> omega
  | rNode cur =>
    cases cur with
    | none => exact Nat.le_refl _
    | some c => have := rankL_mono h v.next c; simp only [pmV]; omega
  | rState b cur =>
    cases cur with
    | none => exact Nat.le_refl _
    | some c => have := rankL_mono h v.next c; simp only [pmV]; omega
  | rLin b c => have := rankL_mono h v.next c; simp only [pmV]; omega
  | rCas b c r => have := rankL_mono h v.next c; simp only [pmV]; split <;> omega
  | lNode cur =>
    cases cur with
    | none => exact Nat.le_refl _
    | some c => have := rankL_mono h v.next c; simp only [pmV]; omega
  | wCell tab => exact fresh_mono h tab
  | wCas tab => have := fresh_mono h tab; simp only [pmV]; split <;> omega
  | wLock tab x => have := fresh_mono h tab; simp only [pmV]; split <;> omega
  | wCheck tab x => have := fresh_mono h tab; simp only [pmV]; split <;> omega
  | wFind tab x pred cur =>
    cases cur with
    | none => exact Nat.le_refl _
    | some c => have := rankL_mono h v.next c; simp only [pmV]; omega
  | wUnlock tab x res retry => have := fresh_mono h tab; cases retry <;> simp only [pmV] <;> omega
  | tMutex tab b => have := fresh_mono h tab; simp only [pmV]; split <;> omega
  | tCheck tab b => have := fresh_mono h tab; simp only [pmV]; split <;> omega
  | tUnlockM tab b res retry => have := fresh_mono h tab; cases retry <;> simp only [pmV] <;> omega
  | kCell tab k => cases tab <;> exact Nat.le_refl _
  | rTable _ | rFirst _ | lFirst _ | wTable => simp only [pmV] <;> omega
  | _ => exact Nat.le_refl _

/-- the walk indices of the program counter are below `n` -/
def WalkOK (n : Nat) : Pc → Prop
  | .rNode (some c) => c < n
  | .rState _ (some c) => c < n
  | .rLin _ c => c < n
  | .rCas _ c _ => c < n
  | .lNode (some c) => c < n
  | .wFind _ _ _ (some c) => c < n
  | _ => True

theorem pmV_le {L : Nat} (v : View) {l : Local} (hw : WalkOK L l.pc) : pmV L v l ≤ PM L := by
  unfold PM
  obtain ⟨pc, call⟩ := l
  have hf := fresh_le L
  cases pc with
  | rCell lo tab => cases tab <;> simp only [pmV] <;> omega
  | rNode cur =>
    cases cur with
    | none => simp only [pmV]; omega
    | some c => have := rankL_le_two v.next (i := c) hw; simp only [pmV]; omega
  | rState b cur =>
    cases cur with
    | none => simp only [pmV]; omega
    | some c => have := rankL_le_two v.next (i := c) hw; simp only [pmV]; omega
  | rLin b c => have := rankL_le_two v.next (i := c) hw; simp only [pmV]; omega
  | rCas b c r => have := rankL_le_two v.next (i := c) hw; simp only [pmV]; split <;> omega
  | lNode cur =>
    cases cur with
    | none => simp only [pmV]; omega
    | some c => have := rankL_le_two v.next (i := c) hw; simp only [pmV]; omega
  | wCell tab => have := hf tab; simp only [pmV]; omega
  | wCas tab => have := hf tab; simp only [pmV]; split <;> omega
  | wLock tab x => have := hf tab; simp only [pmV]; split <;> omega
  | wCheck tab x => have := hf tab; simp only [pmV]; split <;> omega
  | wFind tab x pred cur =>
    cases cur with
    | none => simp only [pmV]; omega
    | some c => have := rankL_le_two v.next (i := c) hw; simp only [pmV]; omega
  | wUnlock tab x res retry => have := hf tab; cases retry <;> simp only [pmV] <;> omega
  | tMutex tab b => have := hf tab; simp only [pmV]; split <;> omega
  | tCheck tab b => have := hf tab; simp only [pmV]; split <;> omega
  | tUnlockM tab b res retry => have := hf tab; cases retry <;> simp only [pmV] <;> omega
  | kCell tab k => cases tab <;> simp only [pmV] <;> omega
  | xCasMoved => simp only [pmV]; split <;> omega
  | xLock h => simp only [pmV]; split <;> omega
  | xCheck h => simp only [pmV]; split <;> omega
  | yMutex b => simp only [pmV]; split <;> omega
  | yCheck b => simp only [pmV]; split <;> omega
  | _ => simp only [pmV] <;> omega

/-! ## disturbing steps ahead -/

/-- the number of disturbing steps a thread at `pc` may still perform before it is `idle` -/
def daPc : Pc → Nat
  | .rTable _ | .rCell _ _ | .rFirst _ | .rState _ _ | .rLin _ _ | .rCas _ _ _ => 2
  | .rTree _ | .rRelease _ _ => 1
  | .wTable | .wCell _ | .wCas _ | .wLock _ _ | .wCheck _ _ | .wUnlock _ _ _ true => 5
  | .wFind _ _ _ _ | .wStore _ _ _ _ _ => 1
  | .tMutex _ _ | .tCheck _ _ | .tFind _ _ | .tUnlockM _ _ _ true | .lrTry _ _ _ _ | .lrLoop _ _ _ _ => 5
  | .tVal _ _ _ _ _ => 1
  | .tPrependLocked _ _ | .tUnlinkLocked _ _ _ _ => 3
  | .tTreeLinkLocked _ _ _ | .tRestructure _ _ _ _ => 2
  | .tUnlockRoot _ _ _ | .tUntreeify _ _ _ => 1
  | .kTable _ | .kCell _ _ | .kLock _ _ _ | .kCheck _ _ _ | .kBuild _ _ _ => 2
  | .kStore _ _ _ _ => 1
  | .xCell | .xCasMoved | .xLock _ | .xCheck _ | .xBuild _ | .yMutex _ | .yCheck _ | .yBuild _ => 5
  | .xStoreLow _ _ _ => 4
  | .xStoreHigh _ _ => 3
  | .xStoreMoved _ => 2
  | .xUnlock _ | .xCommit => 1
  | _ => 0

/-- … taking into account that a writer at `lrLoop` has already set `WAITER` -/
def daV (v : View) (l : Local) : Nat :=
  match l.pc with
  | .lrLoop _ b _ _ => 4 + (if v.waiter b = true then 0 else 1)
  | pc => daPc pc

theorem daV_le (v : View) (l : Local) : daV v l ≤ 5 := by
  obtain ⟨pc, call⟩ := l
  cases pc <;> first | (simp only [daV]; split <;> omega) | (simp only [daV, daPc] <;> omega) |
    (rename_i r; cases r <;> simp only [daV, daPc] <;> omega)

/-- `1` while the thread may still grow the heap -/
def grow : Pc → Nat
  | .wTable | .wCell _ | .wCas _ | .wLock _ _ | .wCheck _ _ | .wFind _ _ _ _ | .wStore _ _ _ _ _
  | .wUnlock _ _ _ true => 1
  | .tMutex _ _ | .tCheck _ _ | .tFind _ _ | .lrTry _ _ _ _ | .lrLoop _ _ _ _ | .tPrependLocked _ _
  | .tUnlinkLocked _ _ _ _ | .tUntreeify _ _ _ | .tUnlockM _ _ _ true => 1
  | .kTable _ | .kCell _ _ | .kLock _ _ _ | .kCheck _ _ _ | .kBuild _ _ _ => 1
  | .xCell | .xCasMoved | .xLock _ | .xCheck _ | .xBuild _ | .yMutex _ | .yCheck _ | .yBuild _ => 1
  | _ => 0

theorem grow_le_one (pc : Pc) : grow pc ≤ 1 := by
  cases pc <;> first | exact Nat.le_refl _ | exact Nat.zero_le _ |
    (rename_i r; cases r <;> first | exact Nat.le_refl _ | exact Nat.zero_le _)

/-! ## the global measure -/

/-- the number of threads that may still grow the heap -/
def G (s : State) : Nat := (s.threads.map fun l => grow l.pc).sum

/-- a bound on the heap length of every later state -/
def N (s : State) : Nat := (s.heap.length + 1) * 4 ^ G s

/-- disturbing steps ahead, all threads -/
def DA (s : State) : Nat := (s.threads.map (daV (viewOf s))).sum

/-- calm steps ahead, all threads -/
def PS (s : State) : Nat := (s.threads.map (pmV (N s) (viewOf s))).sum

/-- the price of a disturbing step -/
def W (s : State) : Nat := s.threads.length * PM (N s) + 1

/-- **the global measure**: every enabled step of a thread that is not `idle` decreases it, as long as
no new call, treeify or resize is started -/
def gmu (s : State) : Nat := W s * DA s + PS s

/-- an explicit bound of `gmu`: a function of the heap length and the number of threads only -/
def drainBound (s : State) : Nat :=
  (s.threads.length * (4 * ((s.heap.length + 1) * 4 ^ s.threads.length) + 20) + 1) * (5 * s.threads.length) +
    s.threads.length * (4 * ((s.heap.length + 1) * 4 ^ s.threads.length) + 20)

/-! ## sums over the thread list -/

theorem sum_map_le_of {α : Type} (f f' : α → Nat) : ∀ (ls : List α), (∀ x ∈ ls, f' x ≤ f x) →
    (ls.map f').sum ≤ (ls.map f).sum
  | [], _ => Nat.le_refl _
  | a :: as, h => by
    have h1 := h a List.mem_cons_self
    have h2 := sum_map_le_of f f' as (fun x hx => h x (List.mem_cons_of_mem _ hx))
    simp only [List.map_cons, List.sum_cons]
    omega

theorem sum_map_le_card {α : Type} (f : α → Nat) (c : Nat) : ∀ (ls : List α), (∀ x ∈ ls, f x ≤ c) →
    (ls.map f).sum ≤ ls.length * c
  | [], _ => by simp
  | a :: as, h => by
    have h1 := h a List.mem_cons_self
    have h2 := sum_map_le_card f c as (fun x hx => h x (List.mem_cons_of_mem _ hx))
    simp only [List.map_cons, List.sum_cons, List.length_cons, Nat.add_mul, Nat.one_mul]
    omega

/-- the sum after one entry was replaced and the summand function changed: the other entries do not
grow, the replaced entry shrinks by at least `d` -/
theorem sum_set_add_le {α : Type} (f f' : α → Nat) (d : Nat) : ∀ (ls : List α) (t : Nat) (l l' : α),
    ls[t]? = some l → (∀ i x, i ≠ t → ls[i]? = some x → f' x ≤ f x) → f' l' + d ≤ f l →
    ((ls.set t l').map f').sum + d ≤ (ls.map f).sum
  | [], t, l, l', h, _, _ => by simp at h
  | a :: as, 0, l, l', h, ho, hd => by
    have ha : a = l := by simpa using h
    subst ha
    have h2 := sum_map_le_of f f' as (fun x hx => by
      obtain ⟨i, hi⟩ := List.mem_iff_getElem?.1 hx
      exact ho (i + 1) x (by omega) (by simpa using hi))
    simp only [List.set_cons_zero, List.map_cons, List.sum_cons]
    omega
  | a :: as, t + 1, l, l', h, ho, hd => by
    have h1 : f' a ≤ f a := ho 0 a (by omega) (by simp)
    have h2 := sum_set_add_le f f' d as t l l' (by simpa using h)
      (fun i x hi hx => ho (i + 1) x (by omega) (by simpa using hx)) hd
    simp only [List.set_cons_succ, List.map_cons, List.sum_cons]
    omega

end Flurry.Proto.BinG
