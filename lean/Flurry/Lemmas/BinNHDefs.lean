import Flurry.Proto.BinNH
import Flurry.Lemmas.BinNGenReach
/-! # Proto/BinNH: the generation invariant of the helper model (definitions, frame lemmas)

`Inv s`:
* `gen : GenInv s.n` — `Proto/BinN`'s generation invariant of the shared memory and of the readers and
  writers, LITERALLY (no thread of `s.n` is a `BinN` resizing thread, so its `uniqT` is vacuous);
* per resizing thread (`HOK`): its generation is at most `cur`, and it is `cur` only while `resizing`
  (`gle`, `res`); the cell it turned to exists (`idx`); its program counter matches the lock word (`held`);
  **from the successful re-check to the store of the marker it still sees its node as the head of its cell**
  (`valid`) — hence that cell is not forwarded, hence its generation is `cur`, `resizing` is set, and nobody
  can commit (`HOK.valid_cur`); at `commit` in generation `cur` all cells are forwarded (`commit`). -/
namespace Flurry.Proto.BinNH
open Flurry.Lin
open Flurry.Proto.BinX (NodeS Cell Pending isReader dflt chainFrom cellHead cellOfHead get_set get_set_self get_set_ne
  cellOfHead_ne_moved)
open Flurry.Proto.BinN (cellAt cellOf putCell setNode allMoved splitBinB bitAt lockAt LockSame GenInv ThrOK isT
  Holds vcell genOfPc cellT)

/-- the cell (of its generation) a resizing thread has turned to -/
def cellIdx : HPc → Option Nat
  | .cell j | .casMoved j | .lock j _ | .check j _ | .build j _ | .storeLow j _ _ _ | .storeHigh j _ _
  | .storeMoved j _ | .unlock j _ => some j
  | _ => none

/-- the resizing thread holds the mutex of node `h` -/
def HHolds : HPc → Nat → Prop
  | .check _ h', h => h' = h
  | .build _ h', h => h' = h
  | .storeLow _ h' _ _, h => h' = h
  | .storeHigh _ h' _, h => h' = h
  | .storeMoved _ h', h => h' = h
  | .unlock _ h', h => h' = h
  | _, _ => False

/-- the cell `j` on which the resizing thread holds a VALIDATED lock (after the re-check, before the marker
is stored), and the head `h` it saw -/
def hvalid : HPc → Option (Nat × Nat)
  | .build j h | .storeLow j h _ _ | .storeHigh j h _ | .storeMoved j h => some (j, h)
  | _ => none

theorem hvalid_holds {pc : HPc} {j h : Nat} (hv : hvalid pc = some (j, h)) : HHolds pc h ∧ cellIdx pc = some j := by
  cases pc <;> first | (cases hv; done) | (simp only [hvalid, Option.some.injEq, Prod.mk.injEq] at hv; obtain ⟨rfl, rfl⟩ := hv; exact ⟨rfl, rfl⟩)

/-- what the invariant says about one resizing thread -/
structure HOK (n : BinN.State) (t : Nat) (hp : Helper) : Prop where
  gle : hp.g ≤ n.cur
  res : hp.g = n.cur → n.resizing = true
  idx : ∀ j, cellIdx hp.pc = some j → j < 2 ^ hp.g
  held : ∀ h, HHolds hp.pc h → h < n.heap.length ∧ lockAt n.heap h = some t
  valid : ∀ j h, hvalid hp.pc = some (j, h) → cellAt n hp.g j = .node h
  commit : hp.pc = .commit → hp.g = n.cur → ∀ j, j < 2 ^ n.cur → cellAt n n.cur j = .moved

structure Inv (s : State) : Prop where
  gen : GenInv s.n
  /-- no thread of `s.n` is at one of `Proto/BinN`'s own resizing program counters -/
  noT : ∀ (t : Nat) (l : BinN.Local), s.n.threads[t]? = some l → ¬ isT l.pc
  len : s.hs.length = s.n.threads.length
  /-- a resizing thread has no call in flight -/
  hidle : ∀ (t : Nat) (hp : Helper) (l : BinN.Local), s.hs[t]? = some (some hp) → s.n.threads[t]? = some l → l.pc = .idle
  hok : ∀ t hp, s.hs[t]? = some (some hp) → HOK s.n t hp

/-- a cell under a validated transfer lock is not forwarded: the thread works for generation `cur`, and
`resizing` is set -/
theorem HOK.valid_cur {n : BinN.State} {t : Nat} {hp : Helper} (H : HOK n t hp) (I : GenInv n) {j h : Nat}
    (hv : hvalid hp.pc = some (j, h)) : hp.g = n.cur ∧ n.resizing = true := by
  have hc := H.valid j h hv
  have hj := H.idx j (hvalid_holds hv).2
  have : ¬ hp.g < n.cur := by
    intro hlt
    have := I.old hp.g j hlt hj
    rw [hc] at this; cases this
  have e : hp.g = n.cur := by have := H.gle; omega
  exact ⟨e, H.res e⟩

/-- the frame lemma for a resizing thread that does not act: `cur` stays, `resizing` is not reset, its
lock words and the cells under its validated lock stay, markers stay -/
theorem HOK.frame {n n' : BinN.State} {t : Nat} {hp : Helper} (H : HOK n t hp) (hcur : n'.cur = n.cur)
    (hres : n.resizing = true → n'.resizing = true)
    (hlock : ∀ h, h < n.heap.length → lockAt n.heap h = some t → h < n'.heap.length ∧ lockAt n'.heap h = some t)
    (hcell : ∀ j h, cellAt n hp.g j = .node h → lockAt n.heap h = some t → h < n.heap.length → cellAt n' hp.g j = .node h)
    (hmono : ∀ g j, cellAt n g j = .moved → cellAt n' g j = .moved) : HOK n' t hp := by
  refine ⟨by rw [hcur]; exact H.gle, fun e => hres (H.res (by rw [← hcur]; exact e)), H.idx, ?_, ?_, ?_⟩
  · intro h hh
    obtain ⟨a, b⟩ := H.held h hh
    exact hlock h a b
  · intro j h hv
    obtain ⟨a, b⟩ := H.held h (hvalid_holds hv).1
    exact hcell _ _ (H.valid j h hv) b a
  · intro hc e j hj
    rw [hcur] at e hj ⊢
    exact hmono _ _ (H.commit hc e j hj)

theorem set_self_of_get {α : Type} {l : List α} {t : Nat} {a : α} (h : l[t]? = some a) : l.set t a = l := by
  obtain ⟨ht, rfl⟩ := List.getElem?_eq_some_iff.1 h
  rw [List.set_getElem_self]

/-- the generation invariant of `Proto/BinN` only depends on the tables, `cur`, `resizing`, the threads and
the lock words they hold -/
theorem geninv_congr {n n' : BinN.State} (I : GenInv n) (ht : n'.tabs = n.tabs) (hc : n'.cur = n.cur)
    (hr : n'.resizing = n.resizing) (hth : n'.threads = n.threads)
    (hl : ∀ t1 l1 h, n.threads[t1]? = some l1 → Holds l1.pc h → h < n'.heap.length ∧ lockAt n'.heap h = some t1) :
    GenInv n' := by
  have hcell : ∀ g j, cellAt n' g j = cellAt n g j := fun g j => by rw [BinN.cellAt_eq, BinN.cellAt_eq, ht]
  refine ⟨by rw [ht, hc, hr]; exact I.len, by rw [ht]; exact I.rows, ?_, ?_, ?_, ?_, ?_⟩
  · intro g j hg hj; rw [hcell]; rw [hc] at hg; exact I.old g j hg hj
  · intro j; rw [hcell, hc]; exact I.nextOK j
  · intro j hm; rw [hcell, hc] at hm; rw [hr]; exact I.curMoved j hm
  · rw [hth]; exact I.uniqT
  · intro t1 l1 h1
    rw [hth] at h1
    exact (I.thr t1 l1 h1).congr ht hc hr (fun h hh => hl t1 l1 h h1 hh)

/-- a lock word that is free or held by `t` (whose reader/writer part is idle) is not held by a reader or
writer: their lock words survive its change -/
theorem rw_locks_modify {n : BinN.State} {t : Nat} {h : Nat} {x : Option Nat} (I : GenInv n)
    (hidle : ∀ l, n.threads[t]? = some l → l.pc = .idle)
    (hfree : lockAt n.heap h = none ∨ lockAt n.heap h = some t) :
    ∀ t1 l1 h1, n.threads[t1]? = some l1 → Holds l1.pc h1 →
      h1 < (n.heap.modify h (fun m => { m with lock := x })).length ∧
      lockAt (n.heap.modify h (fun m => { m with lock := x })) h1 = some t1 := by
  intro t1 l1 h1 hl1 hh
  obtain ⟨a, b⟩ := (I.thr t1 l1 hl1).held h1 hh
  have hne' : h1 ≠ h := by
    rintro rfl
    rcases hfree with e | e <;> rw [e] at b
    · cases b
    · have : t = t1 := Option.some.inj b
      subst this
      have := hidle l1 hl1
      rw [this] at hh
      exact hh
  exact ⟨by simpa using a, by rw [BinN.lockAt_modify_ne x hne']; exact b⟩

theorem rw_locks_lockSame {n : BinN.State} {heap' : List NodeS} (I : GenInv n) (h : LockSame n.heap heap') :
    ∀ t1 l1 h1, n.threads[t1]? = some l1 → Holds l1.pc h1 → h1 < heap'.length ∧ lockAt heap' h1 = some t1 := by
  intro t1 l1 h1 hl1 hh
  obtain ⟨a, b⟩ := (I.thr t1 l1 hl1).held h1 hh
  exact ⟨by have := h.1; omega, by rw [h.2 h1 a]; exact b⟩

end Flurry.Proto.BinNH
