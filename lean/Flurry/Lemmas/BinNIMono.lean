import Flurry.Lemmas.BinNIGood
/-! # Proto/BinN: forwarding markers are for ever, the table pointer advances by at most one (C07) -/
namespace Flurry.Proto.BinN
open Flurry.Lin
open Flurry.Proto.BinX (NodeS Cell Pending dflt chainFrom cellHead cellOfHead nodeAt)

theorem cellT_put_mono (tabs : List (List Cell)) {g j g' j' : Nat} {c : Cell}
    (h : cellT tabs g j ≠ .moved ∨ c = .moved) (hm : cellT tabs g' j' = .moved) :
    cellT (tabs.modify g (fun row => row.set j c)) g' j' = .moved := by
  by_cases he : g' = g ∧ j' = j
  · obtain ⟨rfl, rfl⟩ := he
    rcases h with h | h
    · exact absurd hm h
    · rcases cellT_put_self tabs g' j' c with e | e
      · rw [e, h]
      · rw [e, hm]
  · rw [cellT_put_ne tabs c he]; exact hm

/-- **forwarding markers are stable and the table pointer advances by at most one** -/
theorem stepK_mono {s s' : State} {G : Ghost} {t : Nat} {l : Local} {pick : Nat} (I : Inv s G)
    (hl : s.threads[t]? = some l) (h : StepK s t l pick s') :
    (s'.cur = s.cur ∨ s'.cur = s.cur + 1) ∧ ∀ g j, cellAt s g j = .moved → cellAt s' g j = .moved := by
  have T := I.gen.thr t l hl
  cases h with
  | resize h1 h2 => exact ⟨Or.inl rfl, fun g j hm => by rw [cellAt_eq] at hm ⊢; show cellT (_ ++ _) g j = _; rw [cellT_alloc]; exact hm⟩
  | cas p g v vi h1 h2 h3 h4 =>
    refine ⟨Or.inl rfl, fun g' j' hm => ?_⟩
    rw [cellAt_eq] at hm ⊢
    exact cellT_put_mono s.tabs (Or.inl (by rw [← cellOf_eq, h3]; simp)) hm
  | store p g hh pred hit hnext h1 h2 =>
    obtain ⟨-, e2, -, -, -, -, e7⟩ := storeAt_shape (tick s) g p pred hit hnext
    refine ⟨Or.inl e2, fun g' j' hm => ?_⟩
    rw [cellAt_eq] at hm ⊢
    show cellT (storeAt (tick s) g p pred hit hnext).1.tabs g' j' = _
    rcases e7 with e | ⟨c, -, e⟩
    · rw [e]; exact hm
    · rw [e]
      have hv : vcell s.cur l = some (g, p.key % 2 ^ g, hh) := by unfold vcell; rw [h2, h1]
      have := (T.valid _ _ _ hv).1
      exact cellT_put_mono s.tabs (Or.inl (by rw [← cellAt_eq, this]; simp)) hm
  | casMoved j h1 h2 h3 =>
    exact ⟨Or.inl rfl, fun g' j' hm => by rw [cellAt_eq] at hm ⊢; exact cellT_put_mono s.tabs (Or.inr rfl) hm⟩
  | storeMoved j hh h1 h2 =>
    exact ⟨Or.inl rfl, fun g' j' hm => by rw [cellAt_eq] at hm ⊢; exact cellT_put_mono s.tabs (Or.inr rfl) hm⟩
  | storeLow j hh lo hg h1 h2 =>
    exact ⟨Or.inl rfl, fun g' j' hm => by
      rw [cellAt_eq] at hm ⊢; exact cellT_put_mono s.tabs (Or.inl (by rw [← cellAt_eq]; exact I.gen.nextOK _)) hm⟩
  | storeHigh j hh hg h1 h2 =>
    exact ⟨Or.inl rfl, fun g' j' hm => by
      rw [cellAt_eq] at hm ⊢; exact cellT_put_mono s.tabs (Or.inl (by rw [← cellAt_eq]; exact I.gen.nextOK _)) hm⟩
  | commit h1 h2 => exact ⟨Or.inr rfl, fun g j hm => hm⟩
  | _ => exact ⟨Or.inl rfl, fun g j hm => hm⟩

end Flurry.Proto.BinN
