import Flurry.Lemmas.BinXStep
/-! # Proto/BinX: heap segments and chains without index order (C01, C10)

In `Proto/Bin` every `next` pointer goes to a larger heap index. Here the transferring thread
allocates *copies* (fresh, larger indices) that are *prepended* to the new lists and point to older
nodes. We therefore order the nodes by `ord cr i`, where `cr = (n0, n1)` is the (ghost) index range
of the copies: a copy `i` gets the negative rank `-i-1` (later copies come earlier in the lists, and
all copies come before all other nodes), every other node its index. Under `NextOK cr` (every `next`
pointer goes strictly upwards in `ord`) the executable `chainFrom` computes the chain, chains are
strictly `ord`-increasing, and we get the heap surgery lemmas. -/
namespace Flurry.Proto.BinX
open Flurry.Lin

def nodeAt (heap : List NodeS) (i : Nat) : NodeS := heap.getD i dflt

theorem nodeAt_eq (heap : List NodeS) (i : Nat) : nodeAt heap i = (heap[i]?).getD dflt := by
  simp [nodeAt, List.getD_eq_getElem?_getD]

theorem nodeAt_of_some {heap : List NodeS} {i : Nat} {n : NodeS} (h : heap[i]? = some n) :
    nodeAt heap i = n := by
  rw [nodeAt_eq, h]; rfl

theorem getElem?_nodeAt {heap : List NodeS} {i : Nat} (h : i < heap.length) :
    heap[i]? = some (nodeAt heap i) := by
  rw [nodeAt_eq, List.getElem?_eq_getElem h]; rfl

theorem nodeAt_modify (heap : List NodeS) (i : Nat) (f : NodeS → NodeS) (j : Nat) :
    nodeAt (heap.modify i f) j = if i = j ∧ j < heap.length then f (nodeAt heap j) else nodeAt heap j := by
  rw [nodeAt_eq, nodeAt_eq, List.getElem?_modify]
  by_cases hj : j < heap.length
  · rw [List.getElem?_eq_getElem hj]
    by_cases hij : i = j <;> simp [hij, hj]
  · rw [List.getElem?_eq_none (by omega)]
    simp [hj]

theorem nodeAt_append_left {heap : List NodeS} (l : List NodeS) {j : Nat} (hj : j < heap.length) :
    nodeAt (heap ++ l) j = nodeAt heap j := by
  rw [nodeAt_eq, nodeAt_eq, List.getElem?_append_left hj]

theorem nodeAt_append_new (heap : List NodeS) (n : NodeS) : nodeAt (heap ++ [n]) heap.length = n := by
  rw [nodeAt_eq]; simp

/-- the index range `[n0, n1)` of the copies made by the transfer -/
abbrev CR := Nat × Nat

def isCopy (cr : CR) (i : Nat) : Prop := cr.1 ≤ i ∧ i < cr.2

instance (cr : CR) (i : Nat) : Decidable (isCopy cr i) := by unfold isCopy; exact inferInstance

/-- the rank of a node: copies come first (the later the earlier), then the others by index -/
def ord (cr : CR) (i : Nat) : Int := if isCopy cr i then -(i : Int) - 1 else (i : Int)

theorem ord_copy {cr : CR} {i : Nat} (h : isCopy cr i) : ord cr i = -(i : Int) - 1 := by
  unfold ord; rw [if_pos h]

theorem ord_not_copy {cr : CR} {i : Nat} (h : ¬ isCopy cr i) : ord cr i = (i : Int) := by
  unfold ord; rw [if_neg h]

theorem ord_inj {cr : CR} {i j : Nat} (h : ord cr i = ord cr j) : i = j := by
  unfold ord at h
  split at h <;> split at h <;> omega

theorem ord_le_self (cr : CR) (i : Nat) : ord cr i ≤ (i : Int) := by
  unfold ord; split <;> omega

theorem ord_ge (cr : CR) (i : Nat) : -(i : Int) - 1 ≤ ord cr i := by
  unfold ord; split <;> omega

/-- `next` pointers go strictly upwards in `ord` and stay inside the heap -/
def NextOK (cr : CR) (heap : List NodeS) : Prop :=
  ∀ i n j, heap[i]? = some n → n.next = some j → ord cr i < ord cr j ∧ j < heap.length

inductive IsSeg (heap : List NodeS) : Option Nat → List Nat → Option Nat → Prop
  | nil (e : Option Nat) : IsSeg heap e [] e
  | cons {i : Nat} {n : NodeS} {l : List Nat} {e : Option Nat} :
      heap[i]? = some n → IsSeg heap n.next l e → IsSeg heap (some i) (i :: l) e

abbrev IsChain (heap : List NodeS) (a : Option Nat) (l : List Nat) : Prop := IsSeg heap a l none

theorem IsSeg.nil_iff {heap : List NodeS} {a e : Option Nat} : IsSeg heap a [] e ↔ a = e := by
  constructor
  · intro h; cases h; rfl
  · rintro rfl; exact .nil _

theorem IsSeg.cons_iff {heap : List NodeS} {a e : Option Nat} {i : Nat} {l : List Nat} :
    IsSeg heap a (i :: l) e ↔ a = some i ∧ ∃ n, heap[i]? = some n ∧ IsSeg heap n.next l e := by
  constructor
  · intro h; cases h with | cons h1 h2 => exact ⟨rfl, _, h1, h2⟩
  · rintro ⟨rfl, n, h1, h2⟩; exact .cons h1 h2

theorem IsSeg.append {heap : List NodeS} {a b c : Option Nat} {l1 l2 : List Nat}
    (h1 : IsSeg heap a l1 b) (h2 : IsSeg heap b l2 c) : IsSeg heap a (l1 ++ l2) c := by
  induction h1 with
  | nil e => simpa using h2
  | cons hn _ ih => exact .cons hn (ih h2)

theorem IsSeg.split {heap : List NodeS} {l2 : List Nat} {c : Option Nat} :
    ∀ {l1 : List Nat} {a : Option Nat}, IsSeg heap a (l1 ++ l2) c →
      ∃ b, IsSeg heap a l1 b ∧ IsSeg heap b l2 c
  | [], a, h => ⟨a, .nil _, by simpa using h⟩
  | i :: l1, a, h => by
    rw [List.cons_append, IsSeg.cons_iff] at h
    obtain ⟨rfl, n, hn, hs⟩ := h
    obtain ⟨b, hb1, hb2⟩ := IsSeg.split hs
    exact ⟨b, .cons hn hb1, hb2⟩

theorem IsSeg.unique {heap : List NodeS} {a : Option Nat} {l1 : List Nat}
    (h1 : IsSeg heap a l1 none) : ∀ {l2 : List Nat}, IsSeg heap a l2 none → l1 = l2 := by
  generalize he : (none : Option Nat) = e at h1
  induction h1 with
  | nil e =>
    subst he
    intro l2 h2
    cases h2; rfl
  | cons hn _ ih =>
    subst he
    intro l2 h2
    cases h2 with
    | cons hn2 hs2 =>
      rw [hn] at hn2; cases hn2
      rw [ih rfl hs2]

theorem IsSeg.valid {heap : List NodeS} {a e : Option Nat} {l : List Nat} (h : IsSeg heap a l e) :
    ∀ j ∈ l, ∃ n, heap[j]? = some n := by
  induction h with
  | nil e => intro j hj; cases hj
  | cons hn _ ih =>
    intro j hj
    rcases List.mem_cons.1 hj with rfl | hj
    · exact ⟨_, hn⟩
    · exact ih j hj

theorem IsSeg.lt_length {heap : List NodeS} {a e : Option Nat} {l : List Nat} (h : IsSeg heap a l e) :
    ∀ j ∈ l, j < heap.length := by
  intro j hj
  obtain ⟨n, hn⟩ := h.valid j hj
  exact (List.getElem?_eq_some_iff.1 hn).1

/-- the head of a non-empty segment -/
theorem IsSeg.head_mem {heap : List NodeS} {a e : Option Nat} {l : List Nat} (h : IsSeg heap a l e) {i : Nat}
    (ha : a = some i) (hne : a ≠ e) : ∃ l', l = i :: l' := by
  cases h with
  | nil => exact absurd rfl hne
  | cons hn hs => cases ha; exact ⟨_, rfl⟩

/-- every node of a segment is at or above its start -/
theorem IsSeg.lb {cr : CR} {heap : List NodeS} (hok : NextOK cr heap) {a e : Option Nat} {l : List Nat}
    (h : IsSeg heap a l e) : ∀ j ∈ l, ∀ i, a = some i → ord cr i ≤ ord cr j := by
  induction h with
  | nil e => intro j hj; cases hj
  | cons hn hs ih =>
    rename_i i n l e
    intro j hj i' hi'
    cases hi'
    rcases List.mem_cons.1 hj with rfl | hj
    · exact Int.le_refl _
    · cases hnx : n.next with
      | none =>
        rw [hnx] at hs
        cases hs with
        | nil => cases hj
      | some b =>
        have := ih j hj b hnx
        have := (hok _ _ _ hn hnx).1
        omega

/-- every node of a segment is strictly below its end pointer -/
theorem IsSeg.ub {cr : CR} {heap : List NodeS} (hok : NextOK cr heap) {a e : Option Nat} {l : List Nat}
    (h : IsSeg heap a l e) : ∀ j ∈ l, ∀ x, e = some x → ord cr j < ord cr x := by
  induction h with
  | nil e => intro j hj; cases hj
  | cons hn hs ih =>
    rename_i i n l e
    intro j hj x hx
    rcases List.mem_cons.1 hj with rfl | hj
    · cases hl : l with
      | nil =>
        subst hl
        rw [IsSeg.nil_iff] at hs
        rw [hx] at hs
        exact (hok _ _ _ hn hs).1
      | cons b l' =>
        subst hl
        have h1 := ih b (List.mem_cons_self) x hx
        obtain ⟨hb, -⟩ := IsSeg.cons_iff.1 hs
        have := (hok _ _ _ hn hb).1
        omega
    · exact ih j hj x hx

/-- segments are strictly increasing in `ord` -/
theorem IsSeg.sorted {cr : CR} {heap : List NodeS} (hok : NextOK cr heap) {a e : Option Nat} {l : List Nat}
    (h : IsSeg heap a l e) : l.Pairwise (fun x y => ord cr x < ord cr y) := by
  induction h with
  | nil e => exact List.Pairwise.nil
  | cons hn hs ih =>
    rename_i i n l e
    refine List.pairwise_cons.2 ⟨?_, ih⟩
    intro j hj
    cases hnx : n.next with
    | none =>
      rw [hnx] at hs
      cases hs with
      | nil => cases hj
    | some b =>
      have := hs.lb hok j hj b hnx
      have := (hok _ _ _ hn hnx).1
      omega

theorem IsSeg.nodup {cr : CR} {heap : List NodeS} (hok : NextOK cr heap) {a e : Option Nat} {l : List Nat}
    (h : IsSeg heap a l e) : l.Nodup :=
  (h.sorted hok).imp (fun hab he => by rw [he] at hab; omega)

/-- a segment only depends on the `next` fields of its own nodes -/
theorem IsSeg.congr {heap heap' : List NodeS} {a e : Option Nat} {l : List Nat}
    (h : IsSeg heap a l e)
    (hsame : ∀ j ∈ l, ∀ n, heap[j]? = some n → ∃ n', heap'[j]? = some n' ∧ n'.next = n.next) :
    IsSeg heap' a l e := by
  induction h with
  | nil e => exact .nil _
  | cons hn hs ih =>
    obtain ⟨n', hn', hnx⟩ := hsame _ (List.mem_cons_self) _ hn
    refine .cons hn' ?_
    rw [hnx]
    exact ih (fun j hj => hsame j (List.mem_cons_of_mem _ hj))

/-- the decomposition of a chain at one of its nodes -/
theorem IsSeg.at_mem {heap : List NodeS} {a e : Option Nat} {l : List Nat} (h : IsSeg heap a l e)
    {c : Nat} (hc : c ∈ l) :
    ∃ l1 l2 n, l = l1 ++ c :: l2 ∧ heap[c]? = some n ∧ IsSeg heap a l1 (some c) ∧
      IsSeg heap n.next l2 e := by
  obtain ⟨l1, l2, rfl⟩ := List.append_of_mem hc
  obtain ⟨b, h1, h2⟩ := h.split
  obtain ⟨rfl, n, hn, hs⟩ := IsSeg.cons_iff.1 h2
  exact ⟨l1, l2, n, rfl, hn, h1, hs⟩

theorem IsSeg.succ_none {cr : CR} {heap : List NodeS} (hok : NextOK cr heap) {a : Option Nat} {l : List Nat}
    (h : IsChain heap a l) {c : Nat} {n : NodeS} (hc : c ∈ l) (hn : heap[c]? = some n)
    (hnx : n.next = none) : ∀ j ∈ l, ord cr j ≤ ord cr c := by
  obtain ⟨l1, l2, n', rfl, hn', h1, h2⟩ := h.at_mem hc
  rw [hn] at hn'; cases hn'
  rw [hnx] at h2
  cases h2
  intro j hj
  rcases List.mem_append.1 hj with hj | hj
  · exact Int.le_of_lt (h1.ub hok j hj c rfl)
  · rcases List.mem_cons.1 hj with rfl | hj
    · exact Int.le_refl _
    · cases hj

theorem IsSeg.succ_some {cr : CR} {heap : List NodeS} (hok : NextOK cr heap) {a : Option Nat} {l : List Nat}
    (h : IsChain heap a l) {c b : Nat} {n : NodeS} (hc : c ∈ l) (hn : heap[c]? = some n)
    (hnx : n.next = some b) : b ∈ l ∧ ∀ j ∈ l, ord cr j < ord cr b → ord cr j ≤ ord cr c := by
  obtain ⟨l1, l2, n', rfl, hn', h1, h2⟩ := h.at_mem hc
  rw [hn] at hn'; cases hn'
  rw [hnx] at h2
  cases h2 with
  | cons hb hs =>
    rename_i nb l2'
    refine ⟨by simp, ?_⟩
    intro j hj hjb
    rcases List.mem_append.1 hj with hj | hj
    · exact Int.le_of_lt (h1.ub hok j hj c rfl)
    · rcases List.mem_cons.1 hj with rfl | hj
      · exact Int.le_refl _
      · have := (IsSeg.cons hb hs).lb hok j hj b rfl
        omega

/-- `chainFrom` computes the chain when it has enough fuel -/
theorem chainFrom_eq_of_isChain {heap : List NodeS} : ∀ {l : List Nat} {st : Option Nat} {fuel : Nat},
    IsChain heap st l → l.length ≤ fuel → chainFrom heap fuel st = l
  | [], st, fuel, h, _ => by
    have : st = none := IsSeg.nil_iff.1 h
    subst this
    cases fuel <;> rfl
  | i :: l, st, fuel, h, hf => by
    obtain ⟨rfl, n, hn, hs⟩ := IsSeg.cons_iff.1 h
    cases fuel with
    | zero => simp at hf
    | succ fuel =>
      simp only [chainFrom, hn]
      rw [chainFrom_eq_of_isChain hs (by simpa using hf)]

theorem length_le_of_nodup_lt {l : List Nat} {n : Nat} (hnd : l.Nodup) (hlt : ∀ j ∈ l, j < n) : l.length ≤ n := by
  have := List.Nodup.length_le_of_subset (l₂ := List.range n) hnd (fun j hj => List.mem_range.2 (hlt j hj))
  simpa using this

/-- a chain exists from every valid start -/
theorem exists_chain {cr : CR} {heap : List NodeS} (hok : NextOK cr heap) :
    ∀ (m : Nat) (st : Option Nat), (∀ i, st = some i → i < heap.length ∧ (heap.length : Int) - ord cr i ≤ m) →
      ∃ l, IsChain heap st l
  | _, none, _ => ⟨[], .nil _⟩
  | 0, some i, h => by
    have := h i rfl
    have := ord_le_self cr i
    omega
  | m + 1, some i, h => by
    have hi := h i rfl
    have hn : heap[i]? = some heap[i] := List.getElem?_eq_getElem hi.1
    obtain ⟨l, hl⟩ := exists_chain hok m heap[i].next (by
      intro j hj
      have := hok _ _ _ hn hj
      omega)
    exact ⟨i :: l, .cons hn hl⟩

/-- the chain of a cell -/
def chainH (heap : List NodeS) (c : Cell) : List Nat := chainFrom heap heap.length (cellHead c)

theorem chainOfCell_eq (s : State) (c : Cell) : chainOfCell s c = chainH s.heap c := rfl

theorem chainH_eq {cr : CR} {heap : List NodeS} (hok : NextOK cr heap) {c : Cell} {l : List Nat}
    (h : IsChain heap (cellHead c) l) : chainH heap c = l :=
  chainFrom_eq_of_isChain h (length_le_of_nodup_lt (h.nodup hok) h.lt_length)

theorem chainH_isChain {cr : CR} {heap : List NodeS} (hok : NextOK cr heap) {c : Cell}
    (hc : ∀ h, c = .node h → h < heap.length) : IsChain heap (cellHead c) (chainH heap c) := by
  obtain ⟨l, hl⟩ := exists_chain hok (2 * heap.length + 1) (cellHead c) (by
    intro i hi
    have hil : i < heap.length := by
      cases c with
      | node h => cases hi; exact hc _ rfl
      | empty => cases hi
      | moved => cases hi
    have := ord_ge cr i
    exact ⟨hil, by omega⟩)
  rw [chainH_eq hok hl]; exact hl

theorem chainH_empty (heap : List NodeS) : chainH heap .empty = [] := by
  unfold chainH cellHead; cases heap.length <;> rfl

theorem chainH_moved (heap : List NodeS) : chainH heap .moved = [] := by
  unfold chainH cellHead; cases heap.length <;> rfl

theorem chainH_node {cr : CR} {heap : List NodeS} (hok : NextOK cr heap) {h : Nat} (hh : h < heap.length) :
    ∃ l, chainH heap (.node h) = h :: l := by
  have := chainH_isChain hok (c := .node h) (by intro h' e; cases e; exact hh)
  cases hc : chainH heap (.node h) with
  | nil => rw [hc] at this; cases this
  | cons a l =>
    rw [hc] at this
    obtain ⟨ha, -⟩ := IsSeg.cons_iff.1 this
    cases ha
    exact ⟨l, rfl⟩

/-! ## surgeries on segments -/

/-- growing the heap does not change a segment -/
theorem IsSeg.append_heap {heap : List NodeS} {a e : Option Nat} {l : List Nat} (h : IsSeg heap a l e)
    (ext : List NodeS) : IsSeg (heap ++ ext) a l e := by
  refine h.congr ?_
  intro j _ n hn
  exact ⟨n, by rw [List.getElem?_append_left (List.getElem?_eq_some_iff.1 hn).1]; exact hn, rfl⟩

/-- modifying a node that is not on the segment, or keeping its `next`, does not change a segment -/
theorem IsSeg.modify {heap : List NodeS} {a e : Option Nat} {l : List Nat} (h : IsSeg heap a l e)
    {i : Nat} {f : NodeS → NodeS} (hf : i ∈ l → ∀ n, (f n).next = n.next) :
    IsSeg (heap.modify i f) a l e := by
  refine h.congr ?_
  intro j hj n hn
  rw [List.getElem?_modify, hn]
  by_cases hij : i = j
  · subst hij
    exact ⟨f n, by simp, hf hj n⟩
  · exact ⟨n, by simp [hij], rfl⟩

/-- appending a node behind the last node of a non-empty chain -/
theorem isChain_append_node {heap : List NodeS} {a : Option Nat} {l0 : List Nat}
    {last : Nat} (h : IsChain heap a (l0 ++ [last])) (hnd : (l0 ++ [last]).Nodup) (new : NodeS)
    (hnew : new.next = none) :
    IsChain ((heap ++ [new]).modify last (fun n => { n with next := some heap.length })) a
      (l0 ++ [last] ++ [heap.length]) := by
  obtain ⟨b, h1, h2⟩ := h.split
  obtain ⟨rfl, nl, hnl, hs⟩ := IsSeg.cons_iff.1 h2
  have hlast : last < heap.length := (List.getElem?_eq_some_iff.1 hnl).1
  have hlast0 : last ∉ l0 := by
    intro hm
    exact (List.nodup_append.1 hnd).2.2 last hm last (by simp) rfl
  rw [List.append_assoc]
  refine IsSeg.append (b := some last) ?_ ?_
  · exact (h1.append_heap [new]).modify (fun hm => absurd hm hlast0)
  · refine .cons (n := { nl with next := some heap.length }) ?_ ?_
    · rw [List.getElem?_modify, List.getElem?_append_left hlast, hnl]
      simp
    · refine .cons (n := new) ?_ ?_
      · rw [List.getElem?_modify]
        have : last ≠ heap.length := by omega
        simp [this]
      · rw [hnew]; exact .nil _

/-- unlinking the node `i` behind `pr` -/
theorem isChain_unlink {heap : List NodeS} {a : Option Nat} {l1 l2 : List Nat}
    {pr i : Nat} {ni : NodeS} (h : IsChain heap a (l1 ++ pr :: i :: l2)) (hnd : (l1 ++ pr :: i :: l2).Nodup)
    (hni : heap[i]? = some ni) :
    IsChain (heap.modify pr (fun m => { m with next := ni.next })) a (l1 ++ pr :: l2) := by
  obtain ⟨b, h1, h2⟩ := h.split
  obtain ⟨rfl, np, hnp, hs⟩ := IsSeg.cons_iff.1 h2
  obtain ⟨hb, ni', hni', hs2⟩ := IsSeg.cons_iff.1 hs
  rw [hni] at hni'; cases hni'
  have h5 := List.nodup_append.1 hnd
  have hpr1 : pr ∉ l1 := fun hm => h5.2.2 pr hm pr (by simp) rfl
  have hpr2 : pr ∉ l2 := by
    intro hm
    have := (List.nodup_cons.1 h5.2.1).1
    exact this (List.mem_cons_of_mem _ hm)
  refine IsSeg.append (b := some pr) ?_ ?_
  · exact h1.modify (fun hm => absurd hm hpr1)
  · refine .cons (n := { np with next := ni.next }) ?_ ?_
    · rw [List.getElem?_modify, hnp]; simp
    · exact hs2.modify (fun hm => absurd hm hpr2)

/-! ## the abstract content of a chain -/

/-- key ↦ value of the first node with that key on the list `C` -/
def absIn (heap : List NodeS) (C : List Nat) (k : Nat) : KSt :=
  (C.find? (fun i => (nodeAt heap i).key == k)).map (fun i => (nodeAt heap i).val)

theorem absOf_eq (s : State) (k : Nat) : absOf s k = absIn s.heap (chainOfCell s (liveCell s k)) k := by
  unfold absOf absIn nodeAt
  cases (chainOfCell s (liveCell s k)).find? _ <;> rfl

theorem absIn_eq_none_iff {heap : List NodeS} {C : List Nat} {k : Nat} :
    absIn heap C k = none ↔ ∀ i ∈ C, (nodeAt heap i).key ≠ k := by
  unfold absIn
  rw [Option.map_eq_none_iff, List.find?_eq_none]
  simp

/-- the keys on `C` are pairwise distinct -/
def KeysDistinct (heap : List NodeS) (C : List Nat) : Prop :=
  ∀ i ∈ C, ∀ j ∈ C, (nodeAt heap i).key = (nodeAt heap j).key → i = j

theorem absIn_eq_some_iff {heap : List NodeS} {C : List Nat} (hd : KeysDistinct heap C) {k : Nat} {v : Nat × Nat} :
    absIn heap C k = some v ↔ ∃ i ∈ C, (nodeAt heap i).key = k ∧ (nodeAt heap i).val = v := by
  unfold absIn
  rw [Option.map_eq_some_iff]
  constructor
  · rintro ⟨i, hf, hv⟩
    have h1 := List.mem_of_find?_eq_some hf
    have h2 := List.find?_some hf
    exact ⟨i, h1, by simpa using h2, hv⟩
  · rintro ⟨i, hi, hk, hv⟩
    cases hf : C.find? (fun i => (nodeAt heap i).key == k) with
    | none =>
      rw [List.find?_eq_none] at hf
      exact absurd (by simpa using hk) (hf i hi)
    | some j =>
      have h1 := List.mem_of_find?_eq_some hf
      have h2 : (nodeAt heap j).key = k := by simpa using List.find?_some hf
      have : j = i := hd j h1 i hi (by rw [h2, hk])
      subst this
      exact ⟨j, rfl, hv⟩

/-- two lists with the same key/value content have the same abstract content -/
theorem absIn_congr {heap heap' : List NodeS} {C C' : List Nat} (hd : KeysDistinct heap C)
    (hd' : KeysDistinct heap' C') {k : Nat}
    (h1 : ∀ i ∈ C, (nodeAt heap i).key = k → ∃ j ∈ C', (nodeAt heap' j).key = k ∧ (nodeAt heap' j).val = (nodeAt heap i).val)
    (h2 : ∀ j ∈ C', (nodeAt heap' j).key = k → ∃ i ∈ C, (nodeAt heap i).key = k) :
    absIn heap' C' k = absIn heap C k := by
  cases ha : absIn heap C k with
  | none =>
    rw [absIn_eq_none_iff] at ha ⊢
    intro j hj hjk
    obtain ⟨i, hi, hik⟩ := h2 j hj hjk
    exact ha i hi hik
  | some v =>
    rw [absIn_eq_some_iff hd] at ha
    obtain ⟨i, hi, hik, hiv⟩ := ha
    rw [absIn_eq_some_iff hd']
    obtain ⟨j, hj, hjk, hjv⟩ := h1 i hi hik
    exact ⟨j, hj, hjk, by rw [hjv, hiv]⟩

end Flurry.Proto.BinX
