import Flurry.Lemmas.BinNGenStep
/-! # Proto/BinN: the generation invariant holds in every reachable state -/
namespace Flurry.Proto.BinN
open Flurry.Lin
open Flurry.Proto.BinX (NodeS Cell Pending isReader dflt chainFrom cellHead cellOfHead get_set get_set_self get_set_ne)

/-- what the writer's store does to the shared state besides the node contents: the tables change at most
in the cell of the writer's key in its generation, and never to a forwarding marker -/
theorem storeAt_shape (s : State) (g : Nat) (p : Pending) (pred hit hnext : Option Nat) :
    (storeAt s g p pred hit hnext).1.threads = s.threads ∧ (storeAt s g p pred hit hnext).1.cur = s.cur ∧
    (storeAt s g p pred hit hnext).1.resizing = s.resizing ∧ (storeAt s g p pred hit hnext).1.now = s.now ∧
    (storeAt s g p pred hit hnext).1.hist = s.hist ∧
    LockSame s.heap (storeAt s g p pred hit hnext).1.heap ∧
    ((storeAt s g p pred hit hnext).1.tabs = s.tabs ∨
      ∃ c, c ≠ .moved ∧ (storeAt s g p pred hit hnext).1.tabs = s.tabs.modify g (fun row => row.set (p.key % 2 ^ g) c)) := by
  have hm : ∀ (i : Nat) (f : NodeS → NodeS), (∀ n, (f n).lock = n.lock) → LockSame s.heap (s.heap.modify i f) :=
    fun i f hf => LockSame.modify _ _ _ hf
  have ha : ∀ (n : NodeS) (i : Nat) (f : NodeS → NodeS), (∀ n, (f n).lock = n.lock) →
      LockSame s.heap ((s.heap ++ [n]).modify i f) :=
    fun n i f hf => (LockSame.append _ _).trans (LockSame.modify _ _ _ hf)
  unfold storeAt
  cases p.op <;> cases hit <;> cases pred <;> cases hnext <;>
    refine ⟨rfl, rfl, rfl, rfl, rfl, ?_, ?_⟩ <;>
    first
      | exact LockSame.refl _
      | exact hm _ _ (fun _ => rfl)
      | exact ha _ _ _ (fun _ => rfl)
      | exact LockSame.append _ _
      | exact Or.inl rfl
      | exact Or.inr ⟨_, by simp, rfl⟩

/-- transitions that store `c` into cell `(g0, j0)` -/
theorem geninv_put {s s' : State} {t : Nat} {l l' : Local} {g0 j0 : Nat} {c : Cell} (I : GenInv s)
    (hl : s.threads[t]? = some l)
    (hthr : s'.threads = s.threads.set t l') (hcur : s'.cur = s.cur) (hres : s'.resizing = s.resizing)
    (htabs : s'.tabs = s.tabs.modify g0 (fun row => row.set j0 c))
    (hold : cellAt s g0 j0 ≠ .moved ∨ c = .moved)
    (hc : c = .moved → g0 = s.cur ∧ s.resizing = true)
    (hother : ∀ t1 l1 h, t1 ≠ t → s.threads[t1]? = some l1 → vcell s.cur l1 ≠ some (g0, j0, h))
    (hlock : ∀ t1 l1 h, t1 ≠ t → s.threads[t1]? = some l1 → Holds l1.pc h →
      h < s'.heap.length ∧ lockAt s'.heap h = some t1)
    (hT : isT l'.pc → isT l.pc)
    (hself : ThrOK s' t l') : GenInv s' := by
  have hne : ∀ g j, ¬ (g = g0 ∧ j = j0) → cellAt s' g j = cellAt s g j := by
    intro g j h
    rw [cellAt_eq, cellAt_eq, htabs]
    exact cellT_put_ne _ _ h
  have hself' : cellAt s' g0 j0 = c ∨ cellAt s' g0 j0 = cellAt s g0 j0 := by
    rw [cellAt_eq, cellAt_eq, htabs]
    exact cellT_put_self _ _ _ _
  refine geninv_frame I hl hthr hcur hres (by rw [htabs]; simp) ?_ ?_ ?_ ?_ hlock hT hself
  · intro g row' hr'
    rw [htabs, List.getElem?_modify] at hr'
    cases hr : s.tabs[g]? with
    | none => rw [hr] at hr'; cases hr'
    | some row =>
      rw [hr] at hr'
      simp only [Option.map_eq_map, Option.map_some, Option.some.injEq] at hr'
      refine ⟨row, rfl, ?_⟩
      rw [← hr']
      split <;> simp
  · intro g j hm
    by_cases h : g = g0 ∧ j = j0
    · obtain ⟨rfl, rfl⟩ := h
      rcases hself' with e | e
      · rcases hold with h1 | h1
        · exact absurd hm h1
        · rw [e]; exact h1
      · rw [e]; exact hm
    · rw [hne g j h]; exact hm
  · intro g j hm
    by_cases h : g = g0 ∧ j = j0
    · obtain ⟨rfl, rfl⟩ := h
      rcases hself' with e | e
      · rw [e] at hm
        exact Or.inr (hc hm)
      · rw [e] at hm; exact Or.inl hm
    · rw [hne g j h] at hm; exact Or.inl hm
  · intro t1 l1 g j h n1 h1 hv
    by_cases hh : g = g0 ∧ j = j0
    · obtain ⟨rfl, rfl⟩ := hh
      exact absurd hv (hother t1 l1 h n1 h1)
    · exact hne g j hh

/-- nobody else holds a validated lock on a cell that is not a list -/
theorem no_vcell_of_not_node {s : State} (I : GenInv s) {g j : Nat} (hc : ∀ h, cellAt s g j ≠ .node h) :
    ∀ (t1 : Nat) (l1 : Local) (h : Nat), s.threads[t1]? = some l1 → vcell s.cur l1 ≠ some (g, j, h) := by
  intro t1 l1 h h1 hv
  exact hc h ((I.thr t1 l1 h1).valid g j h hv).1

/-- nobody else holds a validated lock on a cell on which the acting thread holds one -/
theorem no_vcell_of_mutex {s : State} (I : GenInv s) {t : Nat} {l : Local} {g j h0 : Nat}
    (hl : s.threads[t]? = some l) (hv0 : vcell s.cur l = some (g, j, h0)) :
    ∀ (t1 : Nat) (l1 : Local) (h : Nat), t1 ≠ t → s.threads[t1]? = some l1 → vcell s.cur l1 ≠ some (g, j, h) := by
  intro t1 l1 h n1 h1 hv
  exact n1 (I.mutex h1 hl hv hv0)

/-- no writer holds a validated lock on a child of a cell that is not forwarded -/
theorem no_vcell_child {s : State} (I : GenInv s) {t : Nat} {l : Local} {j j' : Nat} (hl : s.threads[t]? = some l)
    (hT : isT l.pc) (hnm : cellAt s s.cur j ≠ .moved) (hpar : j' % 2 ^ s.cur = j) :
    ∀ (t1 : Nat) (l1 : Local) (h : Nat), t1 ≠ t → s.threads[t1]? = some l1 →
      vcell s.cur l1 ≠ some (s.cur + 1, j', h) := by
  intro t1 l1 h n1 h1 hv
  have hT1 : ¬ isT l1.pc := fun hT1 => n1 (I.uniqT _ _ _ _ h1 hl hT1 hT)
  obtain ⟨p, hp, hg, hj⟩ := vcell_writer hv hT1
  have := ((I.thr t1 l1 h1).gen p _ hp hg).2 rfl
  apply hnm
  rw [← hpar, hj, mod_succ_mod]
  exact this

end Flurry.Proto.BinN
